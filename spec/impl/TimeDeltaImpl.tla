--------------------------- MODULE TimeDeltaImpl ---------------------------
(***************************************************************************)
(* Implementation-shaped model of TimeDelta (src/time_delta.rs): the       *)
(* floor representation (secs : i64, nanos : 0..10^9-1) and the carry      *)
(* logic of new / checked_add / checked_sub / checked_mul / checked_div /  *)
(* neg / abs, transcribed.  MC_Duration checks that Val(impl op) equals    *)
(* the abstract Duration operation (refinement) and that no operation      *)
(* yields a value outside the range.  `MulChecksRange` names the defect    *)
(* repaired by fix fce739b: with FALSE the model is the code before the    *)
(* repair (the product is only compared with the i64 limits) and the       *)
(* refinement check finds TimeDelta::MAX * 2 at design level.              *)
(***************************************************************************)
EXTENDS Duration
CONSTANT MulChecksRange
NSi == 1000000000
MaxSecs == TruncDivSmall(I64Max, 1000)                       \* i64::MAX / 1000
MaxNanos == 807000000
MinSecs == Sub(Neg(MaxSecs), One)
MinNanos == 193000000
MkRep(secs, nanos) == [secs |-> secs, nanos |-> nanos]
NoRep == [none |-> 1]
Val(r) == Add(Mul1e9(r.secs), FromInt(r.nanos))
\* the representation of an in-range abstract duration
RepOf(x) == LET sn == DivMod1e9(x) IN MkRep(sn[1], sn[2])
NewI(secs, nanos) ==                                         \* nanos : native int >= 0
   IF Lt(secs, MinSecs) \/ Lt(MaxSecs, secs) \/ nanos >= NSi \/ (secs = MaxSecs /\ nanos > MaxNanos) \/ (secs = MinSecs /\ nanos < MinNanos)
   THEN NoRep ELSE MkRep(secs, nanos)
AddI(a, b) == LET n == a.nanos + b.nanos  s == Add(a.secs, b.secs) IN
              IF n >= NSi THEN NewI(Add(s, One), n - NSi) ELSE NewI(s, n)
SubI(a, b) == LET n == a.nanos - b.nanos  s == Sub(a.secs, b.secs) IN
              IF n < 0 THEN NewI(Sub(s, One), n + NSi) ELSE NewI(s, n)
NegI(a) == IF a.nanos = 0 THEN MkRep(Neg(a.secs), 0) ELSE MkRep(Sub(Neg(a.secs), One), NSi - a.nanos)
AbsI(a) == IF a.secs.neg /\ a.nanos # 0 THEN MkRep(Abs(Add(a.secs, One)), NSi - a.nanos) ELSE MkRep(Abs(a.secs), a.nanos)
MulI(a, k) ==                                                \* k : native i32
   LET totalN == Mul(FromInt(a.nanos), FromInt(k))
       dm == DivMod1e9(totalN)                                                 \* div_mod_floor_64
       secs == Add(Mul(a.secs, FromInt(k)), dm[1])
   IN IF Leq(secs, I64Min) \/ Leq(I64Max, secs) THEN NoRep
      ELSE IF MulChecksRange THEN NewI(secs, dm[2]) ELSE MkRep(secs, dm[2])
=============================================================================
