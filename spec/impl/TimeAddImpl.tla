---------------------------- MODULE TimeAddImpl ----------------------------
(***************************************************************************)
(* Implementation-shaped model of NaiveTime::overflowing_add_signed        *)
(* (src/naive/time/mod.rs): the branch structure of the code, transcribed. *)
(* It is never used as an oracle; MC_TimeOfDay checks that it REFINES the  *)
(* time-line definition TimeOfDay!AddSigned on the lattice of case         *)
(* boundaries, i.e. that the documented rules and the algorithm agree.     *)
(* `LeapGuard` names the comparison whose mutation (>= to >) the seeded    *)
(* change C07-m1 made; the refinement check fails for the mutated guard.   *)
(***************************************************************************)
EXTENDS TimeOfDay
CONSTANT StrictLeapGuard        \* FALSE: the code as written (frac >= 10^9); TRUE: the mutant (frac > 10^9)
LeapGuard(frac) == IF StrictLeapGuard THEN frac > NS ELSE frac >= NS
ImplAdd(t, d) ==
   LET secsToAdd == TruncDiv1e9(d)                              \* rhs.num_seconds(): truncation toward zero
       fracToAdd == ToInt(Sub(d, Mul1e9(secsToAdd)))            \* rhs.subsec_nanos(): same sign, |.| < 10^9
       leap      == LeapGuard(t.frac)
       escapesFwd == Sign(secsToAdd) > 0 \/ (fracToAdd > 0 /\ t.frac >= 2 * NS - fracToAdd)
       escapesBack == Sign(secsToAdd) < 0
   IN IF leap /\ ~escapesFwd /\ ~escapesBack
      THEN [t |-> [secs |-> t.secs, frac |-> t.frac + fracToAdd], carry |-> Zero]         \* stays in the leap second or the second before
      ELSE LET frac0 == IF leap THEN t.frac - NS ELSE t.frac
               secs0 == IF leap /\ ~escapesFwd THEN t.secs + 1 ELSE t.secs              \* leaving backwards: count the second itself
               secs1 == Add(FromInt(secs0), secsToAdd)
               frac1 == frac0 + fracToAdd
               secs2 == IF frac1 < 0 THEN Sub(secs1, One) ELSE IF frac1 >= NS THEN Add(secs1, One) ELSE secs1
               frac2 == IF frac1 < 0 THEN frac1 + NS ELSE IF frac1 >= NS THEN frac1 - NS ELSE frac1
               dm == DivModSmall(secs2, SPD)                                             \* rem_euclid(86_400)
           IN [t |-> [secs |-> dm[2], frac |-> frac2], carry |-> Sub(secs2, FromInt(dm[2]))]
=============================================================================
