------------------------------ MODULE CacheImpl ------------------------------
(***************************************************************************)
(* Implementation-shaped model of src/offset/local/unix.rs - never an      *)
(* oracle, only a refinement target: the steps of                          *)
(*     TZ_INFO.with(|c| c.get_or_insert_with(Cache::default).offset(d, local)) *)
(* in program order, one action per read of shared state (the environment, *)
(* the clock, /etc/localtime); purely local computation is merged into the *)
(* read that precedes it.                                                  *)
(*                                                                         *)
(*   Cache::default   d_env   env_tz = env::var("TZ").ok()                 *)
(*                    d_now   last_checked = SystemTime::now()             *)
(*                    d_src   source = Source::new(env_ref)   (TZ hash, or mtime of /etc/localtime) *)
(*                    d_zone  zone = current_zone(env_ref)    (TimeZone::local, fallback_timezone, utc) *)
(*   Cache::offset    o_now   now = SystemTime::now(); if now - last_checked < 1 s: look up *)
(*                    o_env   env_tz = env::var("TZ").ok()                 *)
(*                    o_src   new_source = Source::new(env_ref); out_of_date = new_source differs from self.source *)
(*                    o_zone  if out_of_date: self.zone = current_zone(env_ref) *)
(*                            self.last_checked = now; self.source = new_source  (only on this path!) *)
(*                    lookup  find_local_time_type(_from_local) on self.zone *)
(*                                                                         *)
(* It shares the environment, the clock and the history variables with     *)
(* LocalCache and is checked against the same three clauses.  Because a    *)
(* conversion is no longer atomic the clauses are stated for the span of   *)
(* the call: the zone used must be one the environment named at some       *)
(* moment between the start and the end of the call.                       *)
(***************************************************************************)
EXTENDS LocalCache

CONSTANT Sequential      \* TRUE: the environment is only written between conversions (the histories of C18: one thread,
                         \* or a spawned thread that is joined); FALSE: writes race with conversions of other threads

VARIABLES pc,            \* [Threads -> program counter]
          loc            \* [Threads -> locals of the call in progress]
ivars == <<vars, pc, loc>>

Idle == "idle"
NoLoc == [dir |-> "utc", envRead |-> Unset, nowRead |-> 0, newSrc |-> NoSrc,
          fresh |-> FALSE, late |-> FALSE, prev |-> NoZone, span |-> {}, named |-> {}]

IInit == Init /\ pc = [t \in Threads |-> Idle] /\ loc = [t \in Threads |-> NoLoc]

InFlight(t) == pc[t] # Idle
Quiet == \A t \in Threads : ~InFlight(t)

\* writes of the environment; the zones named meanwhile are added to the span of every call in progress
Widen == loc' = [t \in Threads |-> IF InFlight(t)
                    THEN [loc[t] EXCEPT !.span = @ \cup Allowed', !.named = @ \cup {ZoneOf(env', ltver')}]
                    ELSE loc[t]]
EnvStep(A) == /\ (Sequential => Quiet) /\ A /\ Widen /\ UNCHANGED pc
ISetEnv(v) == EnvStep(SetEnv(v))
IUnset     == EnvStep(UnsetEnv)
ITouch     == EnvStep(Touch)
ITick      == Tick /\ UNCHANGED <<pc, loc>>          \* time passes at any point, also in the middle of a call

Same == UNCHANGED <<env, sys, ltver, now, changedAt>>
Goto(t, p) == pc' = [pc EXCEPT ![t] = p]
SetCache(t, c) == cache' = [cache EXCEPT ![t] = c]

\* the call starts
Begin(t, d) ==
  /\ pc[t] = Idle /\ (Sequential => Quiet)
  /\ loc' = [loc EXCEPT ![t] = [NoLoc EXCEPT !.dir = d, !.fresh = ~cache[t].init, !.prev = cache[t].zone,
                                             !.late = now - changedAt >= TicksPerSec,
                                             !.span = Allowed, !.named = {ZoneOf(env, ltver)}]]
  /\ Goto(t, IF cache[t].init THEN "o_now" ELSE "d_env")
  /\ Same /\ UNCHANGED <<cache, lastObs>>

\* --- Cache::default --------------------------------------------------------------------------------------
DEnv(t) == /\ pc[t] = "d_env" /\ loc' = [loc EXCEPT ![t].envRead = env] /\ Goto(t, "d_now")
           /\ Same /\ UNCHANGED <<cache, lastObs>>
DNow(t) == /\ pc[t] = "d_now" /\ SetCache(t, [cache[t] EXCEPT !.last = now]) /\ Goto(t, "d_src")
           /\ Same /\ UNCHANGED <<loc, lastObs>>
DSrc(t) == /\ pc[t] = "d_src" /\ SetCache(t, [cache[t] EXCEPT !.src = SourceOf(loc[t].envRead, ltver)]) /\ Goto(t, "d_zone")
           /\ Same /\ UNCHANGED <<loc, lastObs>>
DZone(t) == /\ pc[t] = "d_zone"
            /\ SetCache(t, [cache[t] EXCEPT !.zone = Resolve(loc[t].envRead, SysZone(ltver)), !.init = TRUE])
            /\ Goto(t, "o_now")
            /\ Same /\ UNCHANGED <<loc, lastObs>>

\* --- Cache::offset ---------------------------------------------------------------------------------------
ONow(t) == /\ pc[t] = "o_now"
           /\ loc' = [loc EXCEPT ![t].nowRead = now]
           /\ Goto(t, IF now - cache[t].last < TicksPerSec THEN "lookup" ELSE "o_env")   \* `Ok(d) if d.as_secs() < 1 => ()`
           /\ Same /\ UNCHANGED <<cache, lastObs>>
OEnv(t) == /\ pc[t] = "o_env" /\ loc' = [loc EXCEPT ![t].envRead = env] /\ Goto(t, "o_src")
           /\ Same /\ UNCHANGED <<cache, lastObs>>
OSrc(t) == /\ pc[t] = "o_src"
           /\ LET ns == SourceOf(loc[t].envRead, ltver) IN
              /\ loc' = [loc EXCEPT ![t].newSrc = ns]
              /\ IF ns # cache[t].src
                   THEN Goto(t, "o_zone") /\ UNCHANGED cache
                   ELSE Goto(t, "lookup") /\ SetCache(t, [cache[t] EXCEPT !.last = loc[t].nowRead, !.src = ns])
           /\ Same /\ UNCHANGED lastObs
OZone(t) == /\ pc[t] = "o_zone"
            /\ SetCache(t, [cache[t] EXCEPT !.zone = Resolve(loc[t].envRead, SysZone(ltver)),
                                            !.last = loc[t].nowRead, !.src = loc[t].newSrc])
            /\ Goto(t, "lookup")
            /\ Same /\ UNCHANGED <<loc, lastObs>>
Lookup(t) == /\ pc[t] = "lookup"
             /\ lastObs' = <<[thr |-> t, dir |-> loc[t].dir, zone |-> cache[t].zone,
                              fresh |-> loc[t].fresh, late |-> loc[t].late,
                              allowed |-> loc[t].span, named |-> loc[t].named, prev |-> loc[t].prev]>>
             /\ Goto(t, Idle) /\ loc' = [loc EXCEPT ![t] = NoLoc]
             /\ Same /\ UNCHANGED cache

ISpawn(t) == pc[t] = Idle /\ Spawn(t) /\ UNCHANGED <<pc, loc>>

INext == \/ \E v \in EnvVals : ISetEnv(v)
         \/ IUnset \/ ITouch \/ ITick
         \/ \E t \in Threads : \/ \E d \in Dirs : Begin(t, d)
                               \/ DEnv(t) \/ DNow(t) \/ DSrc(t) \/ DZone(t)
                               \/ ONow(t) \/ OEnv(t) \/ OSrc(t) \/ OZone(t) \/ Lookup(t)
                               \/ ISpawn(t)
ISpec == IInit /\ [][INext]_ivars

\* --- the three clauses, for the span of a call ---------------------------------------------------------------
ImplFreshObs(o)   == o.late => o.zone \in o.allowed           \* started >= 1 s after the last change: a zone named during the call
ImplNewObs(o)     == o.fresh => o.zone \in o.named            \* first conversion of a thread: current
ImplOneZoneObs(o) == o.zone \in o.named \/ (~o.fresh /\ o.zone = o.prev)
ImplStep(P(_)) == lastObs' # lastObs => P(lastObs'[1])
ImplFresh            == [][ImplStep(ImplFreshObs)]_ivars
ImplFreshOnNewThread == [][ImplStep(ImplNewObs)]_ivars
ImplOneZone          == [][ImplStep(ImplOneZoneObs)]_ivars
\* in a sequential history nothing is written during a call: exactly one zone is named throughout, and the
\* clauses are literally those of LocalCache
SeqObs(o) == Cardinality(o.named) = 1
SeqExact == [][Sequential => ImplStep(SeqObs)]_ivars

ImplView == <<env, sys, ltver, now, cache, pc,
              [t \in Threads |-> [loc[t] EXCEPT !.dir = "utc"]],
              IF now - changedAt >= TicksPerSec THEN TicksPerSec ELSE now - changedAt>>
=============================================================================
