---------------------------- MODULE Trace_Totality ----------------------------
(* Trace specification for C15: totality of the fallible entry points on extreme and arbitrary inputs. *)
EXTENDS Totality, TraceLib
VARIABLE l
Ev == Rec[l]
Explains(e) ==
  \/ e.op \in FallibleOps /\ NoPanic(e) /\ e.out \in Outcomes /\ (Has(e, "v") => ValidVal(e.v))
  \/ e.op \in DocPanicOps /\ (Has(e, "panic") \/ (e.out \in Outcomes /\ (Has(e, "v") => ValidVal(e.v))))
Init == l = 1
Next == /\ l <= Len(Rec) /\ Report(l, Explains(Ev)) /\ l' = l + 1
Spec == Init /\ [][Next]_l
Accepted == Consumed(Len(Rec))
=============================================================================
