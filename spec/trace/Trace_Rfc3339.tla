---------------------------- MODULE Trace_Rfc3339 ----------------------------
(* Trace specification for C10.                                              *)
(*   write  - to_rfc3339 / to_rfc3339_opts of a date-time (instant u, offset *)
(*            off; wall-clock year 0..9999, whole-minute offset): the text   *)
(*            must be Write(...) and parse_from_rfc3339(text) must return    *)
(*            the same instant (cut to the written precision) and offset;    *)
(*   parse  - parse_from_rfc3339 on any string: accepted by the recogniser   *)
(*            => exactly Value(s); otherwise an error of any kind.           *)
EXTENDS Rfc3339, TraceLib
VARIABLE l
Ev == Rec[l]
InDomain(e) == LET w == Wall(e.u, e.off)  y == YearOfDay(w.n) IN y >= 0 /\ y <= 9999 /\ e.off % 60 = 0 /\ e.off > -86400 /\ e.off < 86400
WriteOk(e, sf, z) ==
   /\ InDomain(e)
   /\ e.text = Write(Wall(e.u, e.off), e.off, sf, z)
   /\ Accepts(e.text)                                                              \* the text itself is in the RFC 3339 language ...
   /\ ToUtc(Value(e.text)) = [u |-> [n |-> e.u.n, secs |-> e.u.secs, frac |-> Kept(e.u.frac, sf)], off |-> e.off]    \* ... and denotes the value
   /\ e.back = [ok |-> [u |-> [n |-> e.u.n, secs |-> e.u.secs, frac |-> Kept(e.u.frac, sf)], off |-> e.off]]
Explains(e) ==
  /\ NoPanic(e)
  /\ \/ e.op = "to_rfc3339" /\ WriteOk(e, "AutoSi", FALSE)
     \/ e.op = "to_rfc3339_opts" /\ e.sf \in SecondsFormats /\ e.z \in BOOLEAN /\ WriteOk(e, e.sf, e.z)
     \/ e.op = "parse3339" /\ (IF Accepts(e.s) THEN e.r = [ok |-> ToUtc(Value(e.s))] ELSE Has(e.r, "err"))
     \* fractions too long to scan here (tens of thousands of digits): time-secfrac = "." 1*DIGIT has no upper length and digits beyond the
     \* ninth do not change the value, so the outcome equals the outcome for the text cut after the ninth digit, which is judged in full
     \/ e.op = "parse3339_longfrac" /\ e.surplus > 0 /\ Accepts(e.s9) /\ e.r9 = [ok |-> ToUtc(Value(e.s9))] /\ e.r = e.r9
Init == l = 1
Next == /\ l <= Len(Rec) /\ Report(l, Explains(Ev)) /\ l' = l + 1
Spec == Init /\ [][Next]_l
Accepted == Consumed(Len(Rec))
=============================================================================
