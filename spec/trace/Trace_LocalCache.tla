-------------------------- MODULE Trace_LocalCache --------------------------
(***************************************************************************)
(* Trace validation for C18.  The log holds many episodes; an episode is   *)
(* one history run by one tzchild process: a `start` event followed by one *)
(* event per step with the wall-clock readings (microseconds since the     *)
(* start of the process, w0 before the step, w1 after it) and, for         *)
(* conversions, the observed outcome.                                      *)
(*                                                                         *)
(* Every event must be an instance of the LocalCache action of the same    *)
(* name with the clock bound to the MEASURED times (TicksPerSec = 10^6):   *)
(*  - a write of the environment is complete at w1;                        *)
(*  - a conversion reads the clock somewhere in [w0, w1], and so did the   *)
(*    conversion that last checked the source, so the age of the last      *)
(*    check is only known to lie in [w0 - end of that step, w1 - start of  *)
(*    that step].  Reuse is REQUIRED only if the upper bound is below      *)
(*    0.9 s, a check only if the lower bound is at least 1.1 s; in between *)
(*    (the fuzzy band, or a wait stretched into it by the scheduler) the   *)
(*    step is a genuine disjunction and TLC explores both explanations.    *)
(* Delays only ever make measured times longer, never shorter, so no       *)
(* amount of scheduling jitter can turn a conforming run into a rejection. *)
(* On top of conformance every conversion must satisfy the three clauses   *)
(* of the property with the measured times (`late` = the conversion began  *)
(* at least 1.1 s after the last write had returned).                      *)
(*                                                                         *)
(* Strict = TRUE demands the cache model as described (stale inside the    *)
(* reuse window, a check after it).  That is more than the statement of    *)
(* C18 says: the statement never requires a stale answer, and it requires  *)
(* a fresh one only relative to the last CHANGE.  With Strict = FALSE a    *)
(* conversion may keep the thread's zone or load the named one at any      *)
(* time, and only the three clauses decide.  The orchestrator re-judges    *)
(* every episode that the strict run rejects with Strict = FALSE: rejected *)
(* again = violation of C18; accepted = a deviation from the cache model   *)
(* that the statement allows (reported as a note, never as a violation).   *)
(*                                                                         *)
(* Episodes are independent, so each is a behaviour of its own: one        *)
(* initial state per `start` line.  An episode is accepted iff some        *)
(* behaviour consumes all its events (<<"ACCEPT", start line>>); the       *)
(* furthest explained event is known from the <<"AT", start line, line>>   *)
(* messages.  The orchestrator reports every episode without ACCEPT.       *)
(***************************************************************************)
EXTENDS LocalCache, TzWorld, TraceLib

CONSTANT Strict

VARIABLES l,        \* next line of the log
          ep,       \* line of the `start` event of this episode
          lend,     \* w1 of the conversion that last loaded or checked the main thread's cache
          done
tvars == <<vars, l, ep, lend, done>>

TraceThreads == {"main", "new"}
NotUsed == {}                  \* SysChoices only occurs in LocalCache!Init; here the system zone comes from the log
AllVals == DOMAIN WVal
BandLo == 900000         \* microseconds
BandHi == 1100000

StartLines == {i \in 1..Len(Rec) : Rec[i].op = "start"}
AtEnd == IF l > Len(Rec) THEN TRUE ELSE Rec[l].op = "start"     \* (a disjunction in an action is evaluated on both sides)

TInit == \E s \in StartLines :
  /\ ep = s /\ l = s + 1 /\ done = FALSE /\ lend = 0
  /\ env = Unset                                  \* tzchild removes TZ before anything else
  /\ sys = Rec[s].sys                             \* the system zone(s) of the environment the child ran in
  /\ ltver = 0 /\ now = 0
  /\ cache = [t \in Threads |-> NoCache]
  /\ changedAt = -TicksPerSec /\ lastObs = <<>>

\* the clauses of the statement, with the measured times: `at` is when the conversion began, changedAt when the last write had returned
FreshT(o, at) == at - changedAt >= BandHi => o.zone \in o.allowed
Clauses(o, at) == FreshT(o, at) /\ FreshOnNewThreadObs(o) /\ OneZoneObs(o)
Observed(e, o) == NoPanic(e) /\ Has(e, "obs") /\ e.obs = Obs(o.zone, e.dir)

Explain(e) ==
  /\ e.w0 >= now /\ e.w1 >= e.w0                  \* readings of one clock, in program order
  /\ now' = e.w1
  /\ \/ /\ e.op = "setenv" /\ e.v \in AllVals /\ SetEnvAt(e.v, e.w1) /\ UNCHANGED lend
     \/ /\ e.op = "unset" /\ SetEnvAt(Unset, e.w1) /\ UNCHANGED lend
     \/ /\ e.op = "touch" /\ TouchAt(e.w1) /\ UNCHANGED lend
     \/ /\ e.op = "wait" /\ e.w1 - e.w0 >= e.ms * 1000
        /\ UNCHANGED <<env, sys, ltver, cache, changedAt, lastObs, lend>>
     \/ /\ e.op = "conv" /\ e.thr = "main" /\ e.dir \in Dirs
        /\ LET c == cache["main"]
               ageMin == e.w0 - lend              \* the last check was made no later than lend
               ageMax == e.w1 - c.last            \* ... and no earlier than c.last
           IN ConvCore("main", c, e.dir, e.w0, Strict => ageMin < BandHi, Strict => ageMax >= BandLo)
        /\ Observed(e, lastObs'[1]) /\ Clauses(lastObs'[1], e.w0)
        /\ lend' = IF cache'["main"].last = e.w0 THEN e.w1 ELSE lend
     \/ /\ e.op = "conv" /\ e.thr = "new" /\ e.dir \in Dirs      \* a thread spawned for this conversion
        /\ ConvCore("new", NoCache, e.dir, e.w0, FALSE, FALSE)
        /\ Observed(e, lastObs'[1]) /\ Clauses(lastObs'[1], e.w0)
        /\ UNCHANGED lend

Step == /\ ~done /\ ~AtEnd
        /\ Explain(Rec[l])
        /\ l' = l + 1 /\ UNCHANGED <<ep, done>>
        /\ PrintT(<<"AT", ep, l>>)
Finish == /\ ~done /\ AtEnd /\ done' = TRUE
          /\ UNCHANGED <<vars, l, ep, lend>>
          /\ PrintT(<<"ACCEPT", ep>>)
TNext == Step \/ Finish
TSpec == TInit /\ [][TNext]_tvars

Loaded == TLCGet("stats").diameter >= 1 /\ PrintT(<<"EPISODES", Cardinality(StartLines), Len(Rec)>>)
=============================================================================
