---------------------------- MODULE Trace_Enums ----------------------------
(* Trace specification for the random tier of C19: numeric conversions and  *)
(* text parsing of Weekday and Month on seeded random arguments.  (The      *)
(* finite part of the property is replayed exhaustively, see Gen_Enums*.)   *)
EXTENDS Enums, TraceLib
VARIABLE l
Ev == Rec[l]
\* the call exists only for values of the argument type; "try_u8" is TryFrom<u8>
TypeOK(ty, x) == IF ty = "try_u8" THEN Fits("u8", x) ELSE (\E i \in 1..Len(IntTypes) : IntTypes[i] = ty) /\ Fits(ty, x)
Explains(e) ==
  /\ NoPanic(e)
  /\ \/ e.op = "from" /\ WellFormed(J(e.v)) /\ TypeOK(e.ty, J(e.v)) /\ e.wd = WdFromNum(J(e.v)) /\ e.mo = MoFromNum(J(e.v))
     \/ e.op = "str"  /\ e.wd = WdFromStr(e.s) /\ e.mo = MoFromStr(e.s)
Init == l = 1
Next == /\ l <= Len(Rec) /\ Report(l, Explains(Ev)) /\ l' = l + 1
Spec == Init /\ [][Next]_l
Accepted == Consumed(Len(Rec))
=============================================================================
