--------------------------- MODULE Trace_Calendar ---------------------------
(* Trace specification for C01: every recorded call on NaiveDate is an      *)
(* instance of the corresponding Calendar action.                           *)
EXTENDS Calendar, BigInt, TraceLib
VARIABLE l
Ev == Rec[l]
SmallArg(x) == Small(J(x))
Arg(x) == ToInt(J(x))
Sgn(x) == IF x < 0 THEN -1 ELSE IF x > 0 THEN 1 ELSE 0
LexCmp(a, b) == IF a[1] # b[1] THEN Sgn(a[1] - b[1]) ELSE Sgn(a[2] - b[2])
DateForms(e) ==
   LET n == e.n  y == YearOfDay(n) IN
   /\ InDates(n)
   /\ e.y = y /\ e.m = MonthOfDay(n) /\ e.d = DayOfMonth(n) /\ e.o = OrdinalOf(n) /\ e.wd = WeekdayOf(n)
   /\ e.m0 = e.m - 1 /\ e.d0 = e.d - 1 /\ e.o0 = e.o - 1
   /\ n = DayNumber(e.y, e.m, e.d)                 \* the forward (counting) definition agrees with the inverse
   /\ e.iy = IsoYearOf(n) /\ e.iw = IsoWeekOf(n) /\ e.iw0 = e.iw - 1
   /\ e.leap = IsLeap(y)
   /\ e.succ = Succ(n) /\ e.pred = Pred(n)
   /\ e.ymd = FromYmd(e.y, e.m, e.d) /\ e.yo = FromYo(e.y, e.o) /\ e.iso = FromIsoYwd(e.iy, e.iw, e.wd) /\ e.days = FromDays(n)
   /\ e.ymd = n /\ e.yo = n /\ e.iso = n /\ e.days = n
Explains(e) ==
  /\ NoPanic(e)
  /\ \/ e.op = "date" /\ DateForms(e)
     \/ e.op = "ymd"  /\ e.r = (IF SmallArg(e.m) /\ SmallArg(e.d) THEN FromYmd(e.y, Arg(e.m), Arg(e.d)) ELSE NoDate)
     \/ e.op = "yo"   /\ e.r = (IF SmallArg(e.o) THEN FromYo(e.y, Arg(e.o)) ELSE NoDate)
     \/ e.op = "iso"  /\ e.r = (IF SmallArg(e.w) THEN FromIsoYwd(e.y, Arg(e.w), e.wd) ELSE NoDate)
     \/ e.op = "days" /\ e.r = FromDays(e.n)
     \/ e.op = "consts" /\ e.min = MinDay /\ e.max = MaxDay /\ e.epoch = DayNumber(1970, 1, 1) /\ e.dtmin = <<MinDay, 0, 0>> /\ e.dtmax = <<MaxDay, 86399, 999999999>>
                        /\ e.utcmin = e.dtmin /\ e.utcmax = e.dtmax /\ e.unix_epoch = <<DayNumber(1970, 1, 1), 0, 0>> /\ e.default = DayNumber(1970, 1, 1)
     \/ e.op = "cmp"  /\ e.c = (IF e.a < e.b THEN -1 ELSE IF e.a > e.b THEN 1 ELSE 0) /\ e.eq = (e.a = e.b)
                      /\ LET ka == <<IsoYearOf(e.a), IsoWeekOf(e.a)>>  kb == <<IsoYearOf(e.b), IsoWeekOf(e.b)>> IN
                         /\ e.ic = LexCmp(ka, kb) /\ e.ieq = (ka = kb)
                         /\ ((e.a = e.b) => e.hasheq) /\ ((ka = kb) => e.ihasheq)        \* equal values hash equally
                         /\ (e.a <= e.b => e.ic <= 0)              \* ISO weeks order chronologically
Init == l = 1
Next == /\ l <= Len(Rec) /\ Report(l, Explains(Ev)) /\ l' = l + 1
Spec == Init /\ [][Next]_l
Accepted == Consumed(Len(Rec))
=============================================================================
