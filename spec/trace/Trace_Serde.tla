----------------------------- MODULE Trace_Serde -----------------------------
(* Trace specification for C20.                                               *)
(*   ser     - the JSON text of a value of a string-form type = Serde's form  *)
(*   serde   - serialize then deserialize through one data format (fmt: json  *)
(*             = self-describing, bin = positional) returns the value; for    *)
(*             zone-aware values the same instant, and the same offset when   *)
(*             the type keeps one and the offset is a whole number of minutes *)
(*   ts      - one of the sixteen timestamp helper modules (unit, opt, naive) *)
(*             on an instant: the serialized integer is the exact timestamp,  *)
(*             both formats read back the instant at the module's precision   *)
(*             (a leap second, which a timestamp cannot carry, excepted)      *)
(*   ts_none - the optional modules on None                                   *)
(*   ts_de   - a signed or unsigned integer fed to a module: the instant it   *)
(*             denotes, or an error when that is not representable            *)
EXTENDS Serde, TraceLib
VARIABLE l
Ev == Rec[l]
StringTypes == {"date", "time", "ndt", "utc", "fixed", "local", "weekday", "month"}
JsonOf(e) ==
  CASE e.ty = "date"    -> JsonDate(e.n)
    [] e.ty = "time"    -> JsonTime(e.t)
    [] e.ty = "ndt"     -> JsonNdt(e.v)
    [] e.ty = "utc"     -> JsonDt(e.u, 0)
    [] e.ty \in {"fixed", "local"} -> JsonDt(e.u, e.off)
    [] e.ty = "weekday" -> JsonWeekday(e.w)
    [] e.ty = "month"   -> JsonMonth(e.m)
Marks(e) == e.ty = "fixed" => /\ e.headroom = (IF InDates(Wall(e.u, e.off).n) THEN 0 ELSE 1)        \* verified, never trusted
                              /\ e.submin = (IF e.off % 60 = 0 THEN 0 ELSE 1)
Back(e) ==
  CASE e.ty = "date"    -> e.back = [ok |-> [n |-> e.n]]
    [] e.ty = "time"    -> e.back = [ok |-> e.t]
    [] e.ty = "ndt"     -> e.back = [ok |-> e.v]
    [] e.ty = "utc"     -> e.back = [ok |-> e.u]
    [] e.ty = "fixed"   -> Has(e.back, "ok") /\ e.back.ok.u = e.u /\ (e.off % 60 = 0 => e.back.ok.off = e.off)
    [] e.ty = "local"   -> Has(e.back, "ok") /\ e.back.ok.u = e.u
    [] e.ty = "weekday" -> e.back = [ok |-> [w |-> e.w]]
    [] e.ty = "month"   -> e.back = [ok |-> [m |-> e.m]]
    [] e.ty = "dur"     -> Has(e.back, "ok") /\ J(e.back.ok.d) = J(e.d)
Cut(e) == [n |-> e.v.n, secs |-> e.v.secs, frac |-> CutFrac(e.unit, e.v.frac)]
TsOk(e) ==
  LET t == Ts(e.unit, e.v) IN
  IF IsLeapSecond(e.v) THEN (Has(e.ser, "ok") => J(e.ser.ok) \in LeapTs(e.unit, e.v))          \* nothing else is required of a leap second
  ELSE IF e.unit = "ns" /\ ~FitsI64(t) THEN Has(e.ser, "err")                                    \* not expressible: refused, by value
  ELSE /\ Has(e.ser, "ok") /\ J(e.ser.ok) = t
       /\ e.json_back = [ok |-> Cut(e)] /\ e.bin_back = [ok |-> Cut(e)]
TsDeOk(e) == LET x == ToNs(e.unit, J(e.x)) IN
  IF Representable(x) THEN Has(e.r, "ok") /\ ValidNdt(e.r.ok) /\ Ns(e.r.ok) = x ELSE Has(e.r, "err")
Module(e) == e.unit \in Units /\ e.opt \in {0, 1} /\ e.naive \in {0, 1}
Explains(e) ==
  /\ NoPanic(e)
  /\ \/ e.op = "ser" /\ e.ty \in StringTypes /\ Marks(e) /\ e.json = JsonOf(e)
     \/ e.op = "serde" /\ e.ty \in (StringTypes \cup {"dur"}) /\ e.fmt \in {"json", "bin"} /\ Marks(e) /\ Back(e)
     \* hand-made (seconds, nanoseconds) payloads: read exactly when the pair is the normal form of a duration in range, in both formats
     \/ e.op = "dur_de" /\ LET s == J(e.secs)  n == J(e.nanos)
                                v == Add(Mul1e9(s), n)
                                ok == ~n.neg /\ Lt(n, FromInt(1000000000)) /\ Leq(Abs(v), Mul1e6(I64Max)) IN
                            IF ok THEN e.bin = [ok |-> [d |-> e.bin.ok.d]] /\ J(e.bin.ok.d) = v /\ J(e.json.ok.d) = v ELSE Has(e.bin, "err") /\ Has(e.json, "err")
     \/ e.op = "ts" /\ Module(e) /\ ValidNdt([e.v EXCEPT !.frac = e.v.frac % NSu]) /\ TsOk(e)
     \/ e.op = "ts_none" /\ Module(e) /\ e.opt = 1 /\ e.ser = [none |-> 1] /\ e.json_back = [none |-> 1] /\ e.bin_back = [none |-> 1]
     \/ e.op = "ts_de" /\ Module(e) /\ e.fmt \in {"json", "bin"} /\ TsDeOk(e)
Init == l = 1
Next == /\ l <= Len(Rec) /\ Report(l, Explains(Ev)) /\ l' = l + 1
Spec == Init /\ [][Next]_l
Accepted == Consumed(Len(Rec))
=============================================================================
