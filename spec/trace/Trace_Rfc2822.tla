---------------------------- MODULE Trace_Rfc2822 ----------------------------
(* Trace specification for C11.                                              *)
(*   to_rfc2822     - text = Write(wall clock, offset) and parse_from_rfc2822 *)
(*                    of it returns the same instant to whole seconds (a     *)
(*                    leap second preserved) and the same offset; `via`      *)
(*                    tells whether the call went through the method or the  *)
(*                    Fixed::RFC2822 formatting / parsing item;              *)
(*   parse2822      - a text together with the fields and syntax choices the *)
(*                    harness built it from.  The hint is verified (Valid    *)
(*                    and Gen(f, c) = s); then the parser must return        *)
(*                    Denoted(f, c) - or, for a stated weekday that          *)
(*                    contradicts the date, an error;                        *)
(*   parse2822_any  - mutated / arbitrary text: the statement fixes no        *)
(*                    outcome, only a panic is unexplained.                  *)
EXTENDS Rfc2822, TraceLib
VARIABLE l
Ev == Rec[l]
InDomain(e) == LET w == Wall(e.u, e.off)  y == YearOfDay(w.n) IN y >= 0 /\ y <= 9999 /\ e.off % 60 = 0 /\ e.off > -86400 /\ e.off < 86400
U(v) == [u |-> Wall([n |-> v.n, secs |-> v.secs, frac |-> v.frac], -v.off), off |-> v.off]
Explains(e) ==
  /\ NoPanic(e)
  /\ \/ /\ e.op = "to_rfc2822" /\ InDomain(e)
        /\ e.text = Write(Wall(e.u, e.off), e.off)
        /\ LET r == Read(e.text) IN r.ok /\ U(r.v) = [u |-> [n |-> e.u.n, secs |-> e.u.secs, frac |-> IF e.u.frac >= NSu THEN NSu ELSE 0], off |-> e.off]
        /\ e.back = [ok |-> [u |-> [n |-> e.u.n, secs |-> e.u.secs, frac |-> IF e.u.frac >= NSu THEN NSu ELSE 0], off |-> e.off]]
     \/ /\ e.op = "parse2822"
        /\ Valid(e.f, e.c) /\ Gen(e.f, e.c) = e.s                                  \* the hint is checked, not trusted
        /\ IF ~Consistent(e.f, e.c) THEN Has(e.r, "err")
           ELSE IF InDates(U(Denoted(e.f, e.c)).u.n) THEN e.r = [ok |-> U(Denoted(e.f, e.c))]
           ELSE TRUE                                                              \* the denoted instant is not representable: nothing is required
     \* a year of more than six digits (the largest representable year has six): every other part is valid, the text must be refused
     \/ /\ e.op = "parse2822_bigyear"
        /\ ~LongOK(e.f.yt) /\ (\A i \in 1..Len(e.f.yt) : e.f.yt[i] \in 0..9)
        /\ Gen(e.f, e.c) = e.s
        /\ Has(e.r, "err")
     \/ e.op = "parse2822_any"
Init == l = 1
Next == /\ l <= Len(Rec) /\ Report(l, Explains(Ev)) /\ l' = l + 1
Spec == Init /\ [][Next]_l
Accepted == Consumed(Len(Rec))
=============================================================================
