----------------------------- MODULE Trace_Show -----------------------------
(* Trace specification for C09.  Three kinds of events:                     *)
(*   show      - the Display and Debug texts of a value (code points) must  *)
(*               be the ones Show prints;                                   *)
(*   roundtrip - what FromStr returned for one of those texts must be the   *)
(*               value itself (zone-aware values: instant and offset);      *)
(*   name      - Weekday / Month FromStr on an arbitrary string: accepted    *)
(*               exactly for the short or long English name in any case.    *)
(* Text and round trip are separate events so that a known round-trip       *)
(* failure (known_findings.json) can never hide a wrong text.               *)
EXTENDS Show, TraceLib
VARIABLE l
Ev == Rec[l]
Texts(e) ==
  CASE e.ty = "date"   -> <<DateShow(e.n), DateShow(e.n)>>
    [] e.ty = "time"   -> <<TimeShow(e.t), TimeShow(e.t)>>
    [] e.ty = "ndt"    -> <<NdtDisplay(e.v), NdtDebug(e.v)>>
    [] e.ty = "utc"    -> <<UtcDisplay(e.u), UtcDebug(e.u)>>
    [] e.ty = "fixed"  -> <<FixedDisplay(e.u, e.off), FixedDebug(e.u, e.off)>>
    [] e.ty = "offset" -> <<OffsetShow(e.off), OffsetShow(e.off)>>
    [] e.ty = "weekday" -> <<WeekdayShow(e.w), WeekdayShow(e.w)>>
    [] e.ty = "month"  -> <<MonthShow(e.m), MonthShow(e.m)>>
Val(e) ==
  CASE e.ty = "date"   -> [n |-> e.n]
    [] e.ty = "time"   -> e.t
    [] e.ty = "ndt"    -> e.v
    [] e.ty = "utc"    -> e.u
    [] e.ty = "fixed"  -> [u |-> e.u, off |-> e.off]
    [] e.ty = "offset" -> [off |-> e.off]
    [] e.ty = "weekday" -> [w |-> e.w]
    [] e.ty = "month"  -> [m |-> e.m]
Types == {"date", "time", "ndt", "utc", "fixed", "offset", "weekday", "month"}
\* the harness marks zone-aware values whose wall clock lies outside MinDay..MaxDay; the mark is verified, never trusted
HeadroomOk(e) == e.ty = "fixed" => e.headroom = (IF InDates(Wall(e.u, e.off).n) THEN 0 ELSE 1)
Explains(e) ==
  /\ NoPanic(e)
  /\ \/ e.op = "show" /\ e.ty \in Types /\ HeadroomOk(e) /\ LET t == Texts(e) IN e.display = t[1] /\ e.debug = t[2]
     \/ e.op = "roundtrip" /\ e.ty \in Types /\ e.form \in {"display", "debug"} /\ HeadroomOk(e)
                           /\ (e.ty \in {"fixed", "offset"} => e.off % 60 = 0)          \* only whole-minute offsets are required to parse back
                           /\ e.back = [ok |-> Val(e)]
     \/ e.op = "name" /\ e.ty = "weekday" /\ LET w == ParseWeekday(e.s) IN e.r = (IF w = NoName THEN [err |-> 1] ELSE [ok |-> [w |-> w]])
     \/ e.op = "name" /\ e.ty = "month"   /\ LET m == ParseMonth(e.s)   IN e.r = (IF m = NoName THEN [err |-> 1] ELSE [ok |-> [m |-> m]])
Init == l = 1
Next == /\ l <= Len(Rec) /\ Report(l, Explains(Ev)) /\ l' = l + 1
Spec == Init /\ [][Next]_l
Accepted == Consumed(Len(Rec))
=============================================================================
