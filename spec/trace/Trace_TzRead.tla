---------------------------- MODULE Trace_TzRead ----------------------------
(* Trace specification for C16: the TZif reader and the TZ-rule reader.        *)
(*  tzif : bytes -> Ok(structure) | Err, judged by Tzif.Classify               *)
(*         WELL_FORMED => accepted and exactly the transitions, types and rule *)
(*         that were written; MALFORMED => rejected; UNSPECIFIED => either     *)
(*  tzstr: text -> Ok(structure) | Err, judged by PosixTz.Parse                *)
(*         a string of the two forms of C16 => accepted with exactly that rule *)
(*  both : no panic while reading; every lookup on an accepted zone ends in a  *)
(*         value or an error ("q"); peak allocation bounded by the input size  *)
EXTENDS TzTrace
VARIABLE l
Ev == Rec[l]
AllocOK(e) == Has(e, "peak") => e.peak <= 64 * e.len + 4096
TzifExplains(e) ==
   LET c == Classify(e.bytes) IN
   /\ (c.class = WF => IsOk(e.r) /\ SameZoneJ(e.r.ok, c.zone) /\ e.r.ok.leaps = 0)
   /\ (c.class = MF => IsErr(e.r))
   /\ (e.sys => IsOk(e.r))                               \* every system zoneinfo file is accepted
   /\ (e.base => c.class = WF)                           \* the harness's own writer is conforming (checked, not trusted)
   /\ NoQueryPanics(e.q) /\ AllocOK(e)
TzstrExplains(e) ==
   LET p == Parse(e.chars, e.v3) IN
   /\ (p.k = "ok" => /\ IsOk(e.r) /\ e.r.ok.leaps = 0
                     /\ SameZoneJ(e.r.ok, [trans |-> <<>>, rule |-> p.rule,
                                           types |-> IF p.rule.k = "fixed" THEN <<p.rule.std>> ELSE <<p.rule.std, p.rule.dst>>]))
   /\ (e.gen => p.k = "ok")                              \* grammar-generated strings are of the two forms (checked, not trusted)
   /\ NoQueryPanics(e.q) /\ AllocOK(e)
\* a reader is a function of its argument: what the same thread read before (the same text in the other dialect) changes nothing,
\* and each of the outcomes is one the grammar allows
SeqExplains(e) ==
   LET plain == Parse(e.chars, FALSE)  ext == Parse(e.chars, TRUE)
       Fits(p, r) == p.k = "ok" => (IsOk(r) /\ SameZoneJ(r.ok, [trans |-> <<>>, rule |-> p.rule,
                                          types |-> IF p.rule.k = "fixed" THEN <<p.rule.std>> ELSE <<p.rule.std, p.rule.dst>>])) IN
   /\ e.plain_after_v3 = e.plain_fresh /\ e.v3_after_plain = e.v3_fresh /\ e.env_after_v3 = e.env_fresh
   /\ Fits(plain, e.plain_fresh) /\ Fits(ext, e.v3_fresh)
Explains(e) ==
  /\ NoPanic(e)
  /\ \/ e.op = "tzstr_seq" /\ SeqExplains(e)
     \/ e.op = "tzif"  /\ TzifExplains(e)
     \/ e.op = "tzstr" /\ TzstrExplains(e)
Init == l = 1
Next == /\ l <= Len(Rec) /\ Report(l, Explains(Ev)) /\ l' = l + 1
Spec == Init /\ [][Next]_l
Accepted == Consumed(Len(Rec))
=============================================================================
