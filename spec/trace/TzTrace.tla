------------------------------- MODULE TzTrace -------------------------------
(* Shared by the trace specifications of C05 and C16: reading the zone       *)
(* structure the harness parsed from Zone::describe() (the derived Debug of   *)
(* chrono's private TimeZone) and comparing it with a zone of the spec.       *)
(*  model = {"trans":[{"t":big,"ty":1-based}], "types":[{"off","dst","abbr"}],*)
(*           "leaps":n, "rule":{"k":"none"|"fixed"|"alt", ...}}               *)
EXTENDS Tzif, TraceLib
IsOk(r) == "ok" \in DOMAIN r
IsErr(r) == "err" \in DOMAIN r
\* the described structure equals the zone z of the specification
SameZoneJ(m, z) ==
   /\ Len(m.trans) = Len(z.trans) /\ Len(m.types) = Len(z.types)
   /\ \A i \in 1..Len(z.trans) : Eq(J(m.trans[i].t), z.trans[i].t) /\ m.trans[i].ty = z.trans[i].ty
   /\ \A k \in 1..Len(z.types) : SameTy(m.types[k], z.types[k])
   /\ SameRule(m.rule, z.rule)
\* wall-clock time of a naive date-time {"n": day number, "secs": second of day} as Unix-like seconds
WallOf(x) == BigOfPair(<<x.n, x.secs>>)
PairOfJ(x) == <<x.n, x.secs>>
\* per-query survival record of C16: every lookup on an accepted zone ends in a value or an error
NoQueryPanics(q) == \A i \in 1..Len(q) : q[i].r # "panic"
=============================================================================
