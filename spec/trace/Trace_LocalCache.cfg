SPECIFICATION TSpec
CONSTANTS
  Threads <- TraceThreads
  TicksPerSec = 1000000
  MaxTime = 2000000000
  MaxVer = 1
  Strict = TRUE
  EnvVals <- AllVals
  SysChoices <- NotUsed
  Val <- WVal
  AbsFiles <- WAbsFiles
  RelFiles <- WRelFiles
  Rules <- WRules
POSTCONDITION Loaded
CHECK_DEADLOCK FALSE
