----------------------------- MODULE Trace_DateTz -----------------------------
(* Trace specification of the deprecated zone-aware DATE type (chrono::Date<Tz>, here Date<FixedOffset> and Date<Utc>):
   a value is the pair (day number n, offset).  The type keeps ONE date - its "UTC" and "local" readings coincide - and the
   offset rides along: every date operation is the NaiveDate operation of DateOps.tla / Instant.tla on n with the offset
   unchanged; relations and Hash look at n only; and_time() reads (n, time) as a WALL clock at the offset.
   Not one of the listed properties' own types: it is part of the growth of the specification over the library's remaining
   public surface and is validated under C04's check.                                                                     *)
EXTENDS DateTimeTz, TraceLib
VARIABLE l
S == INSTANCE Show
F == INSTANCE Strftime
Ev == Rec[l]
OptDT(r) == IF IsNone(r) THEN NoDT ELSE r
OffOK(off) == off > -86400 /\ off < 86400
DateOK(x) == InDates(x.n) /\ OffOK(x.off)
\* an optional Date result {n, off} / {"none":1} against the expected day number
ResDate(r, n, off) == IF n = NoDate THEN IsNone(r) ELSE ~IsNone(r) /\ r.n = n /\ r.off = off
\* operator / deprecated panicking forms: the checked result, or the documented panic exactly when the checked form refuses
OpDate(e, n, off) == IF n = NoDate THEN Has(e, "panic") ELSE NoPanic(e) /\ ResDate(e.r, n, off)
AndTime(x, t) == FromLocal([n |-> x.n, secs |-> t.secs, frac |-> t.frac], x.off)
Explains(e) ==
  \/ NoPanic(e) /\
     \/ e.op = "dz.new"    /\ DateOK(e.x) /\ e.nu = e.x.n /\ e.nl = e.x.n /\ e.off2 = e.x.off /\ e.tz = e.x.off
     \/ e.op = "dz.consts" /\ e.min = MinDay /\ e.max = MaxDay /\ e.omin = 0 /\ e.omax = 0
     \/ e.op = "dz.and_time" /\ DateOK(e.x) /\ OptDT(e.r) = AndTime(e.x, e.t) /\ (IsNone(e.r) \/ e.off2 = e.x.off)
     \/ e.op = "dz.and_hms"  /\ DateOK(e.x)
                             /\ LET t == FromHmsn(J(e.h), J(e.m), J(e.s), Mul(J(e.sub), FromInt(e.unit))) IN
                                /\ OptDT(e.r) = (IF t = NoTime THEN NoDT ELSE AndTime(e.x, t))
                                /\ (IsNone(e.r) \/ e.off2 = e.x.off)
     \/ e.op = "dz.succ"   /\ DateOK(e.x) /\ ResDate(e.r, Opt(e.x.n + 1), e.x.off)
     \/ e.op = "dz.pred"   /\ DateOK(e.x) /\ ResDate(e.r, Opt(e.x.n - 1), e.x.off)
     \/ e.op = "dz.add"    /\ DateOK(e.x) /\ ResDate(e.r, DateAddDur(e.x.n, J(e.d)), e.x.off)
     \/ e.op = "dz.sub"    /\ DateOK(e.x) /\ ResDate(e.r, DateAddDur(e.x.n, Neg(J(e.d))), e.x.off)
     \/ e.op = "dz.since"  /\ DateOK(e.a) /\ DateOK(e.b) /\ J(e.r) = DateSince(e.a.n, e.b.n) /\ J(e.r2) = DateSince(e.a.n, e.b.n)
     \/ e.op = "dz.years_since" /\ DateOK(e.a) /\ DateOK(e.b) /\ e.r = YearsSince(e.a.n, e.b.n)
     \/ e.op = "dz.acc"    /\ DateOK(e.x)
                           /\ LET n == e.x.n IN
                              /\ e.y = YearOfDay(n) /\ e.mo = MonthOfDay(n) /\ e.d = DayOfMonth(n) /\ e.ord = OrdinalOf(n) /\ e.wd = WeekdayOf(n)
                              /\ e.mo0 = MonthOfDay(n) - 1 /\ e.d0 = DayOfMonth(n) - 1 /\ e.ord0 = OrdinalOf(n) - 1
                              /\ e.iy = IsoYearOf(n) /\ e.iw = IsoWeekOf(n)
     \/ e.op = "dz.with"   /\ DateOK(e.x) /\ ResDate(e.r, WithDate(e.f, e.x.n, J(e.v)), e.x.off)
     \/ e.op = "dz.with_tz" /\ DateOK(e.x) /\ OffOK(e.newoff) /\ ResDate(e.r, e.x.n, e.newoff)
     \* ==, Ord and Hash look at the date only
     \/ e.op = "dz.rel"    /\ DateOK(e.a) /\ DateOK(e.b) /\ e.eq = (e.a.n = e.b.n)
                           /\ e.c = (IF e.a.n < e.b.n THEN -1 ELSE IF e.a.n > e.b.n THEN 1 ELSE 0) /\ ((e.a.n = e.b.n) => e.hasheq)
     \/ e.op = "dz.show"   /\ DateOK(e.x) /\ e.debug = S!DateShow(e.x.n) \o S!OffsetShow(e.x.off) /\ e.display = e.debug
     \/ e.op = "dz.show_utc" /\ InDates(e.n) /\ e.debug = S!DateShow(e.n) \o <<90>> /\ e.display = S!DateShow(e.n) \o <<85, 84, 67>>
     \/ e.op = "dz.fmt"    /\ DateOK(e.x) /\ F!FormatExplains(e.f, F!Val(e.x.n, 0, 0, e.x.off, TRUE, FALSE, TRUE), e.r)
  \* operator and deprecated panicking routes
  \/ e.op = "dz.succ_p" /\ DateOK(e.x) /\ OpDate(e, Opt(e.x.n + 1), e.x.off)
  \/ e.op = "dz.pred_p" /\ DateOK(e.x) /\ OpDate(e, Opt(e.x.n - 1), e.x.off)
  \/ e.op = "dz.add_p"  /\ DateOK(e.x) /\ OpDate(e, DateAddDur(e.x.n, J(e.d)), e.x.off)
  \/ e.op = "dz.sub_p"  /\ DateOK(e.x) /\ OpDate(e, DateAddDur(e.x.n, Neg(J(e.d))), e.x.off)
  \/ e.op = "dz.and_hms_p" /\ DateOK(e.x)
                           /\ LET t == FromHmsn(J(e.h), J(e.m), J(e.s), Mul(J(e.sub), FromInt(e.unit)))
                                  x == IF t = NoTime THEN NoDT ELSE AndTime(e.x, t) IN
                              IF x = NoDT THEN Has(e, "panic") ELSE NoPanic(e) /\ e.r = x /\ e.off2 = e.x.off
Init == l = 1
Next == /\ l <= Len(Rec) /\ Report(l, Explains(Ev)) /\ l' = l + 1
Spec == Init /\ [][Next]_l
Accepted == Consumed(Len(Rec))
=============================================================================
