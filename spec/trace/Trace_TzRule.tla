---------------------------- MODULE Trace_TzRule ----------------------------
(* Trace specification for C05 on POSIX TZ rules: the rule is obtained by the  *)
(* SPECIFICATION from the TZ string (PosixTz.Parse); instants and wall-clock   *)
(* times are <<day, second>> pairs of native integers.                         *)
EXTENDS TzTrace
VARIABLES l, zi
Ev == Rec[l]
ZoneIdx == { i \in 1..Len(Rec) : Rec[i].op = "zone" }
ZoneTab == [i \in ZoneIdx |-> Parse(Rec[i].chars, Rec[i].v3)]
\* chrono read the string as written: no transitions, the rule's types, the rule
ZoneOK(i) == LET p == ZoneTab[i]  e == Rec[i] IN
   /\ p.k = "ok" /\ IsOk(e.r) /\ e.r.ok.leaps = 0
   /\ SameZoneJ(e.r.ok, [trans |-> <<>>, rule |-> p.rule,
                         types |-> IF p.rule.k = "fixed" THEN <<p.rule.std>> ELSE <<p.rule.std, p.rule.dst>>])
R == ZoneTab[zi].rule
InRangePair(p) == p[1] >= MinDay /\ p[1] <= MaxDay
\* the property restricts the rules to those whose transitions lie more than one day inside the calendar year
InScope(r, p) == RuleInScope(r, YearOfDay(p[1]))
AtExplains(r, u, ty) == InScope(r, u) => SameTy(RuleTypeAt(r, u), ty)
LocExplains(r, L, res) == res.k # "err" /\ (InScope(r, L) => RuleLocalExplains(r, L, res))
\* TimeZone::from_local_datetime only returns date-times whose instant is representable
PubLocExplains(r, L, res) == res.k # "err" /\ (InScope(r, L) => RuleLocalExplainsIn(r, L, res, MinDay, MaxDay))
BackOK(r, u, L, res) == RuleOpenBoundary(r, L) \/ ~InScope(r, L)
                        \/ (res.k = "single" /\ Shift(L, -res.o1) = u)
                        \/ (res.k = "amb" /\ (Shift(L, -res.o1) = u \/ Shift(L, -res.o2) = u))
InstantsOK(L, r) == /\ (r.k \in {"single", "amb"} => Eq(J(r.u1), BigOfPair(Shift(L, -r.o1))))
                    /\ (r.k = "amb" => Eq(J(r.u2), BigOfPair(Shift(L, -r.o2))))
Explains(e) ==
  /\ NoPanic(e)
  /\ \/ e.op = "zone" /\ ZoneOK(l)
     \/ e.op = "rat"     /\ IsOk(e.r) /\ AtExplains(R, PairOfJ(e.u), e.r.ok)
     \/ e.op = "prat"    /\ IsOk(e.r) /\ (InScope(R, PairOfJ(e.u)) => RuleTypeAt(R, PairOfJ(e.u)).off = e.r.ok.off)
     \/ e.op = "rlocal"  /\ LocExplains(R, PairOfJ(e.L), e.r)
     \/ e.op = "prlocal" /\ PubLocExplains(R, PairOfJ(e.L), e.r) /\ InstantsOK(PairOfJ(e.L), e.r)
     \/ e.op \in {"rrt", "prrt"} /\ LET u == PairOfJ(e.u)  L == PairOfJ(e.L) IN
           /\ (InScope(R, u) => RuleTypeAt(R, u).off = e.off)
           /\ L = Shift(u, e.off)
           /\ (IF e.op = "rrt" THEN LocExplains(R, L, e.r) ELSE PubLocExplains(R, L, e.r) /\ InstantsOK(L, e.r))
           /\ (InScope(R, u) => BackOK(R, u, L, e.r))
Init == l = 1 /\ zi = 0
Judged(e) == e.op = "zone" \/ (zi # 0 /\ ZoneOK(zi))
Next == /\ l <= Len(Rec)
        /\ Report(l, Judged(Ev) => Explains(Ev))
        /\ l' = l + 1
        /\ zi' = IF Ev.op = "zone" THEN l ELSE zi
Spec == Init /\ [][Next]_<<l, zi>>
Accepted == Consumed(Len(Rec))
=============================================================================
