---------------------------- MODULE Trace_DateOps ----------------------------
(* Trace specification for C08 (month stepping, field replacement, week helpers) on NaiveDate / NaiveDateTime. *)
EXTENDS DateOps, TimeOfDay, TraceLib
VARIABLE l
Ev == Rec[l]
OptT(r) == IF IsNone(r) THEN NoTime ELSE r
Explains(e) ==
  \/ NoPanic(e) /\
     \/ e.op = "add_months" /\ e.r = AddMonths(e.n, J(e.k))
     \/ e.op = "sub_months" /\ e.r = AddMonths(e.n, Neg(J(e.k)))
     \/ e.op = "with"       /\ e.r = WithDate(e.f, e.n, J(e.v))
     \/ e.op = "ndt.with"   /\ (IF e.f \in {"hour", "minute", "second", "nanosecond"}
                                THEN (IF WithField(e.f, [secs |-> e.dt.secs, frac |-> e.dt.frac], J(e.v)) = NoTime THEN IsNone(e.r)
                                      ELSE ~IsNone(e.r) /\ e.r.n = e.dt.n /\ [secs |-> e.r.secs, frac |-> e.r.frac] = WithField(e.f, [secs |-> e.dt.secs, frac |-> e.dt.frac], J(e.v)))
                                ELSE (IF WithDate(e.f, e.dt.n, J(e.v)) = NoDate THEN IsNone(e.r)
                                      ELSE ~IsNone(e.r) /\ e.r = [e.dt EXCEPT !.n = WithDate(e.f, e.dt.n, J(e.v))]))
     \/ e.op = "ndt.add_months" /\ (IF AddMonths(e.dt.n, J(e.k)) = NoDate THEN IsNone(e.r) ELSE ~IsNone(e.r) /\ e.r = [e.dt EXCEPT !.n = AddMonths(e.dt.n, J(e.k))])
     \/ e.op = "week"       /\ e.first = Opt(WeekFirst(e.n, e.start)) /\ e.last = Opt(WeekLast(e.n, e.start))
                            /\ LET f == WeekFirst(e.n, e.start) IN f <= e.n /\ e.n - f <= 6 /\ WeekdayOf(f) = e.start      \* C08 as stated
                            /\ e.days = (IF InDates(WeekFirst(e.n, e.start)) /\ InDates(WeekLast(e.n, e.start)) THEN <<WeekFirst(e.n, e.start), WeekLast(e.n, e.start)>> ELSE <<NoDate, NoDate>>)
     \/ e.op = "nth"        /\ e.r = NthWeekday(e.y, e.m, e.wd, e.k)
     \/ e.op = "years_since" /\ e.r = YearsSince(e.a, e.b)
     \/ e.op = "misc"       /\ e.quarter = Quarter(e.n) /\ e.ce = YearCe(e.n) /\ e.ndim = DaysInMonth(YearOfDay(e.n), MonthOfDay(e.n)) /\ e.leap = IsLeap(YearOfDay(e.n))
     \* Month::num_days: the calendar length; for a year outside the date range "nothing" is documented, the calendar value is not wrong either
     \/ e.op = "ndt.acc"    /\ LET n == e.dt.n IN
                            /\ e.y = YearOfDay(n) /\ e.mo = MonthOfDay(n) /\ e.d = DayOfMonth(n) /\ e.ord = OrdinalOf(n) /\ e.wd = WeekdayOf(n)
                            /\ e.iy = IsoYearOf(n) /\ e.iw = IsoWeekOf(n) /\ e.mo0 = e.mo - 1 /\ e.d0 = e.d - 1 /\ e.ord0 = e.ord - 1
                            /\ e.h = e.dt.secs \div 3600 /\ e.mi = (e.dt.secs \div 60) % 60 /\ e.s = e.dt.secs % 60 /\ e.ns = e.dt.frac
                            /\ e.date = n /\ e.time = [secs |-> e.dt.secs, frac |-> e.dt.frac]
     \/ e.op = "month_days" /\ (IF e.y >= MinYear /\ e.y <= MaxYear THEN e.r = DaysInMonth(e.y, e.m) ELSE e.r \in {-1, DaysInMonth(e.y, e.m)})
  \* the infallible week accessors panic exactly when the bound leaves the range (documented)
  \/ e.op = "week.first" /\ (IF InDates(WeekFirst(e.n, e.start)) THEN NoPanic(e) /\ e.r = WeekFirst(e.n, e.start) ELSE Has(e, "panic"))
  \/ e.op = "week.last"  /\ (IF InDates(WeekLast(e.n, e.start)) THEN NoPanic(e) /\ e.r = WeekLast(e.n, e.start) ELSE Has(e, "panic"))
Init == l = 1
Next == /\ l <= Len(Rec) /\ Report(l, Explains(Ev)) /\ l' = l + 1
Spec == Init /\ [][Next]_l
Accepted == Consumed(Len(Rec))
=============================================================================
