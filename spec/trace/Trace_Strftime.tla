--------------------------- MODULE Trace_Strftime ---------------------------
(* Trace specification for C12: every recorded format() outcome is what the  *)
(* Strftime specification derives from the format string and the value, and  *)
(* every recorded item list is the one StrftimeItems derives.                *)
EXTENDS Strftime, TraceLib
VARIABLE l
Ev == Rec[l]
TimeOk(v) == v.secs >= 0 /\ v.secs < 86400 /\ v.frac >= 0 /\ v.frac < 2000000000
ValueOf(e) == CASE e.ty = "date" -> DateVal(e.v.n)
                [] e.ty = "time" -> TimeVal(e.v.secs, e.v.frac)
                [] e.ty = "ndt"  -> NdtVal(e.v.n, e.v.secs, e.v.frac)
                [] e.ty = "dt"   -> WallOf(e.v.n, e.v.secs, e.v.frac, e.v.off)
WellTyped(e) == /\ e.ty \in {"date", "time", "ndt", "dt"}
                /\ (e.ty # "time" => InDates(e.v.n))
                /\ (e.ty # "date" => TimeOk(e.v))
                /\ (e.ty = "dt" => e.v.off > -86400 /\ e.v.off < 86400)
Spaces(k) == [i \in 1..k |-> 32]
Padded(t, width, align) ==
  LET fill == IF width > Len(t) THEN width - Len(t) ELSE 0
      pre  == CASE align = "<" -> 0 [] align = ">" -> fill [] OTHER -> fill \div 2
  IN Spaces(pre) \o t \o Spaces(fill - pre)
Explains(e) ==
  /\ NoPanic(e)
  /\ \/ /\ e.op = "fmt" /\ WellTyped(e)
        /\ FormatExplains(e.f, ValueOf(e), e.r)
        /\ e.w = e.r                                   \* DelayedFormat::write_to and Display agree
     \/ /\ e.op = "fmt_pad" /\ WellTyped(e)                 \* Display under a width flag pads by character count
        /\ FormatExplains(e.f, ValueOf(e), e.t)
        /\ (IF "ok" \in DOMAIN e.t THEN "ok" \in DOMAIN e.r /\ e.r.ok = Padded(e.t.ok, e.width, e.align)
            ELSE "err" \in DOMAIN e.r)
     \/ /\ e.op = "fmt_parts"                                \* DelayedFormat::new / new_with_offset: any presence pattern of the parts
        /\ InDates(e.n) /\ TimeOk(e) /\ e.off > -86400 /\ e.off < 86400
        /\ FormatExplains(e.f, Val(e.n, e.secs, e.frac, e.off, e.hd, e.ht, e.ho), e.r)
     \/ /\ e.op = "fmt_items" /\ WellTyped(e)               \* format_with_items on an explicit item list
        /\ (IF Fails(e.items, ValueOf(e)) THEN "err" \in DOMAIN e.r
            ELSE "ok" \in DOMAIN e.r /\ MatchFrom(e.items, ValueOf(e), 1, e.r.ok, 1))
     \/ /\ e.op = "items"
        /\ e.strict = Items(e.f, FALSE)
        /\ e.lenient = Items(e.f, TRUE)
        /\ e.parse_ok = ~HasErr(Items(e.f, FALSE))     \* StrftimeItems::parse() fails exactly when an Err item exists
Init == l = 1
Next == /\ l <= Len(Rec) /\ Report(l, Explains(Ev)) /\ l' = l + 1
Spec == Init /\ [][Next]_l
Accepted == Consumed(Len(Rec))
=============================================================================
