SPECIFICATION Spec
INVARIANT AccInRange
POSTCONDITION Accepted
CHECK_DEADLOCK FALSE
