---------------------------- MODULE Trace_Rounding ----------------------------
(* Trace specification for C17 (DurationRound, SubsecRound). *)
EXTENDS Rounding, TraceLib
VARIABLE l
Ev == Rec[l]
OptDT(r) == IF IsNone(r) THEN NoDT ELSE r
\* wall clock of (utc, off); day numbers may leave the range by one (headroom), which Ns does not mind
Wall(u, off) == LET t == u.secs + off IN [n |-> u.n + (t \div SPD), secs |-> t % SPD, frac |-> u.frac]
Explains(e) ==
  \/ NoPanic(e) /\
     \/ e.op = "round" /\
          LET stamp == Ns(Wall(e.u, e.off))  span == J(e.span) IN
          IF RoundErr(stamp, span) THEN Has(e.r, "err")
          ELSE /\ Has(e.r, "ok") /\ IsDT(e.r.ok)
               /\ LET m == Ns(Wall(e.r.ok, e.off)) IN
                  /\ IsMultiple(m, J(e.k), span)
                  /\ (e.mode = "trunc" => TruncOk(stamp, span, m))
                  /\ (e.mode = "up"    => UpOk(stamp, span, m))
                  /\ (e.mode = "round" => RoundOk(stamp, span, m))
                  /\ Lt(Abs(Sub(m, stamp)), span)                            \* less than one span away
                  /\ ((stamp = m) => e.r.ok = e.u)                           \* multiples are returned unchanged
     \* applying the operation to its own result changes nothing - unless that result has left the i64-nanosecond window,
     \* for which the statement prescribes failure
     \/ e.op = "idem"  /\ (IF FitsI64(Ns(Wall(e.q, e.off))) THEN e.same = TRUE /\ e.again = [ok |-> e.q] ELSE Has(e.again, "err"))
     \/ e.op = "subsec.trunc" /\ OptDT(e.r) = TruncSubsecs(e.dt, e.digits)
     \/ e.op = "subsec.round" /\ RoundSubsecs(e.dt, e.digits) # NoDT /\ e.r = RoundSubsecs(e.dt, e.digits)
  \/ e.op = "subsec.round" /\ RoundSubsecs(e.dt, e.digits) = NoDT /\ Has(e, "panic")     \* carry past the last representable instant: operator overflow
Init == l = 1
Next == /\ l <= Len(Rec) /\ Report(l, Explains(Ev)) /\ l' = l + 1
Spec == Init /\ [][Next]_l
Accepted == Consumed(Len(Rec))
=============================================================================
