---------------------------- MODULE Trace_TzZone ----------------------------
(* Trace specification for C05 on transition-table zones (TZif files): every  *)
(* recorded lookup is an instance of TzModel's TypeAt / LocalExplains on the   *)
(* zone that the SPECIFICATION decodes from the file's bytes (Tzif.Classify).  *)
(* An episode is one zone: a "zone" event followed by its lookups.             *)
EXTENDS TzTrace
VARIABLES l, zi                     \* position; index of the governing "zone" event (0 = none yet)
Ev == Rec[l]
\* decoded once per zone event (a constant of the trace, evaluated once by TLC)
ZoneIdx == { i \in 1..Len(Rec) : Rec[i].op = "zone" }
ZoneTab == [i \in ZoneIdx |-> Classify(Rec[i].bytes)]
\* the zone is judged when the file is one C05 speaks about and chrono read it as written
ZoneOK(i) == LET c == ZoneTab[i]  e == Rec[i] IN
   /\ c.class = WF /\ IsOk(e.r) /\ SameZoneJ(e.r.ok, c.zone) /\ e.r.ok.leaps = 0
Z == ZoneTab[zi].zone
RuleCand(z, cand) == \E j \in 1..Len(cand) : RuleGoverns(z, cand[j].i)
\* chrono evaluates the rule for a wall-clock time in the calendar year of that time only; the property
\* restricts rules to those whose transitions lie more than one day inside the year
LocalInScope(z, L, cand) == (z.rule.k = "alt" /\ RuleCand(z, cand)) => RuleInScope(z.rule, YearOfDay(PairOfBig(L)[1]))
AtExplains(z, u, i, r) ==
   /\ IndexOK(z, u, i)
   /\ IF IsOk(r) THEN SameTy(TypeAtIdx(z, u, i), r.ok) ELSE ~Representable(u)
OffExplains(z, u, i, r) ==
   /\ IndexOK(z, u, i)
   /\ IF IsOk(r) THEN TypeAtIdx(z, u, i).off = r.ok.off ELSE ~Representable(u)
LocExplains(z, L, cand, r) ==
   /\ r.k # "err"
   /\ IF LocalInScope(z, L, cand) THEN LocalExplains(z, L, cand, r) ELSE HintsOK(z, L, cand)
\* TimeZone::from_local_datetime only returns date-times whose instant is representable
PubLocExplains(z, L, cand, r) ==
   /\ r.k # "err"
   /\ IF LocalInScope(z, L, cand) THEN LocalExplainsRep(z, L, cand, r) ELSE HintsOK(z, L, cand)
\* the instants a public-route answer carries are wall time minus offset
InstantsOK(L, r) == /\ (r.k \in {"single", "amb"} => Eq(J(r.u1), Sub(L, FromInt(r.o1))))
                    /\ (r.k = "amb" => Eq(J(r.u2), Sub(L, FromInt(r.o2))))
\* instant -> wall clock -> back: the instant is among the answers (unless the wall time is the open second)
BackOK(z, u, L, cand, r) == OpenBoundary(z, L, cand) \/ ~LocalInScope(z, L, cand)
                            \/ (r.k = "single" /\ Eq(Sub(L, FromInt(r.o1)), u))
                            \/ (r.k = "amb" /\ (Eq(Sub(L, FromInt(r.o1)), u) \/ Eq(Sub(L, FromInt(r.o2)), u)))
Explains(e) ==
  /\ NoPanic(e)
  /\ \/ e.op = "zone" /\ ZoneOK(l)
     \/ e.op = "at"     /\ AtExplains(Z, J(e.t), e.i, e.r)                                 \* hook: offset, flag, abbreviation
     \/ e.op = "pat"    /\ OffExplains(Z, J(e.t), e.i, e.r)                                \* Local.offset_from_utc_datetime
     \/ e.op = "local"  /\ LocExplains(Z, WallOf(e.L), e.cand, e.r)                        \* hook
     \/ e.op = "plocal" /\ PubLocExplains(Z, WallOf(e.L), e.cand, e.r) /\ InstantsOK(WallOf(e.L), e.r)   \* Local.from_local_datetime
     \/ e.op \in {"rt", "prt"} /\ LET u == J(e.t)  L == WallOf(e.L) IN
           /\ OffExplains(Z, u, e.i, [ok |-> [off |-> e.off]])
           /\ Eq(L, Add(u, FromInt(e.off)))
           /\ (IF e.op = "rt" THEN LocExplains(Z, L, e.cand, e.r) ELSE PubLocExplains(Z, L, e.cand, e.r) /\ InstantsOK(L, e.r))
           /\ BackOK(Z, u, L, e.cand, e.r)
Init == l = 1 /\ zi = 0
\* lookups of a zone that was not judged (its "zone" event was rejected) are skipped
Judged(e) == e.op = "zone" \/ (zi # 0 /\ ZoneOK(zi))
Next == /\ l <= Len(Rec)
        /\ Report(l, Judged(Ev) => Explains(Ev))
        /\ l' = l + 1
        /\ zi' = IF Ev.op = "zone" THEN l ELSE zi
Spec == Init /\ [][Next]_<<l, zi>>
Accepted == Consumed(Len(Rec))
=============================================================================
