-------------------------- MODULE Trace_ItemsCount --------------------------
(* C15, second half: iterating the items of ANY format string terminates, and yields exactly the items of the
   specification's tokeniser (StrftimeItems!Items) - hence at most 6.5 items per code point plus one. The statement's
   literal "one item per input byte plus a constant" cannot hold for any implementation of the documented expansions
   (the two bytes of %c expand to 13 items), so the bound checked is the tokeniser's own. *)
EXTENDS StrftimeItems, TraceLib
VARIABLE l
Ev == Rec[l]
Explains(e) ==
  /\ NoPanic(e)
  /\ e.op = "items.count"
  /\ LET strict == Items(e.f, FALSE)  lenient == Items(e.f, TRUE) IN
     /\ e.strict = Len(strict) /\ e.lenient = Len(lenient)
     /\ e.strict_err = HasErr(strict)                         \* parse() refuses exactly the formats with an error item
     /\ 2 * Len(strict) <= 13 * Len(e.f) + 2 /\ 2 * Len(lenient) <= 13 * Len(e.f) + 2
     /\ ~e.capped
Init == l = 1
Next == /\ l <= Len(Rec) /\ Report(l, Explains(Ev)) /\ l' = l + 1
Spec == Init /\ [][Next]_l
Accepted == Consumed(Len(Rec))
=============================================================================
