--------------------------- MODULE Trace_ParseFmt ---------------------------
(* Trace specification for C13: a recorded round trip text = format(v, fw),  *)
(* parse_from_str(text, fr) is explained iff the format string belongs to    *)
(* the family the property speaks about, the text is the specified rendering *)
(* and - for every value the format can express - parsing returns the value  *)
(* at the precision the format keeps; the same for the recorded perturbed    *)
(* texts, which the specification re-derives from their descriptors.         *)
EXTENDS ParseFmt, TraceLib
VARIABLE l
Ev == Rec[l]
TimeOk(v) == v.secs >= 0 /\ v.secs < 86400 /\ v.frac >= 0 /\ v.frac < 2000000000
ValueOf(e) == CASE e.ty = "date" -> DateVal(e.v.n)
                [] e.ty = "time" -> TimeVal(e.v.secs, e.v.frac)
                [] e.ty = "ndt"  -> NdtVal(e.v.n, e.v.secs, e.v.frac)
                [] e.ty = "dt"   -> WallOf(e.v.n, e.v.secs, e.v.frac, e.v.off)          \* recorded as UTC date-time and offset
WellTyped(e) == /\ e.ty \in {"date", "time", "ndt", "dt"}
                /\ (e.ty # "time" => InDates(e.v.n))
                /\ (e.ty # "date" => TimeOk(e.v))
                /\ (e.ty = "dt" => e.v.off > -86400 /\ e.v.off < 86400)
\* a parsed zone-aware value is recorded as UTC date-time and offset as well; compare wall clocks
Norm(pty, x) == IF pty = "dt" THEN LET y == WallOf(x.n, x.secs, x.frac, x.off) IN [n |-> y.n, secs |-> y.secs, frac |-> y.frac, off |-> y.off] ELSE x
Got(pty, res, expected) == "ok" \in DOMAIN res /\ Norm(pty, res.ok) = expected
\* the parsed type has no field the formatted type lacks
Narrower(ty, pty) == pty = ty \/ (ty = "dt" /\ pty \in {"ndt", "date", "time"}) \/ (ty = "ndt" /\ pty \in {"date", "time"})
TailSafe(r) == ~(r[Len(r)].k = "Fix" /\ r[Len(r)].f \in {"TimezoneOffsetPermissive", "TimezoneName"})
PertModes == {"upper", "lower", "alt", "asis"}
\* e.ty: the formatted type; e.pty0: the type the format is meant to be read as (the formatted type, or a narrower one
\* for a format that prints more than it reads back, e.g. %Z); e.parsed: the results for pty0 and every narrower type
RoundTrip(e) ==
   LET v == ValueOf(e)  w == StrictItems(e.fw)  r == StrictItems(e.fr) IN
   /\ WellTyped(e) /\ Narrower(e.ty, e.pty0)
   /\ Unambiguous(w, r, e.pty0)                                           \* the driver stays inside the family
   /\ "ok" \in DOMAIN e.text /\ Renders(w, v, e.text.ok)                  \* C12: the text is the specified rendering
   /\ \E k \in 1..Len(e.parsed) : e.parsed[k].pty = e.pty0
   /\ \A k \in 1..Len(e.parsed) :                                         \* parse_from_str / parse_and_remainder per target type
         LET q == e.parsed[k] IN
         /\ Narrower(e.ty, q.pty)
         /\ (Unambiguous(w, r, q.pty) /\ Expressible(w, r, v, q.pty)) =>
               /\ Got(q.pty, q.r, Project(w, r, v, q.pty))
               /\ Got(q.pty, q.rem, Project(w, r, v, q.pty)) /\ q.rem.rest = 0
               /\ Got(q.pty, q.owned, Project(w, r, v, q.pty))              \* the route through owned items agrees
               \* "|tail" appended: same value and the tail is the remainder - unless the format ends in an item that may read on
               \* (%Z takes every non-blank character, %#z looks for optional minutes); parse_from_str refuses trailing text
               /\ (TailSafe(r) => Got(q.pty, q.rem2, Project(w, r, v, q.pty)) /\ q.rem2.rest = 5 /\ q.trailing_refused)
   /\ \A k \in 1..Len(e.perts) :
         LET q == e.perts[k] IN
         /\ q.mode \in PertModes /\ AllWhite(q.ws)
         /\ Expressible(w, r, v, e.pty0) =>
               /\ q.text = Perturbed(w, v, e.text.ok, q.mode, q.ws)       \* the perturbed text is one the property covers
               /\ Got(e.pty0, q.r, Project(w, r, v, e.pty0))
               /\ Got(e.pty0, q.owned, Project(w, r, v, e.pty0))
Explains(e) ==
  /\ NoPanic(e)
  /\ e.op = "rt" /\ RoundTrip(e)
Init == l = 1
Next == /\ l <= Len(Rec) /\ Report(l, Explains(Ev)) /\ l' = l + 1
Spec == Init /\ [][Next]_l
Accepted == Consumed(Len(Rec))
=============================================================================
