---------------------------- MODULE Trace_Parsed ----------------------------
(* Trace specification for C14.  An episode is `Set* ... ; To*`: the field  *)
(* map of Parsed.tla is a register that every accepted setter call updates *)
(* and every resolution reads; a new "ep" value starts from the empty map.  *)
(* Setter results are judged (Ok / OutOfRange / Impossible per the range    *)
(* table and the double-set rule), resolutions by the obligations O1-O3b.   *)
(* After a rejected event the field map is unknown: the rest of the episode *)
(* is skipped (not judged, not reported again).                             *)
EXTENDS Parsed, TraceLib
VARIABLES l, reg, ep, skip
vars == <<l, reg, ep, skip>>
Ev == Rec[l]
W(e) == [n |-> e.vn, secs |-> e.vs, frac |-> e.vf]        \* the wall clock the harness claims the fields derive from (vn = NoDate: none)
\* several setter calls recorded in one event (used by the exhaustive subset sweep): each is judged like a single "set"
RECURSIVE SetSeqOK(_, _, _)
SetSeqOK(f, q, i) == i > Len(q) \/ LET s == q[i]  x == J(s.v) IN
                                   /\ s.f \in Setters /\ SetExplains(f, s.f, x, s.r, s.hd) /\ ~SetUnknown(s.f, x, s.r)
                                   /\ SetSeqOK(SetNext(f, s.f, x, s.r, s.hd), q, i + 1)
RECURSIVE SetSeqNext(_, _, _)
SetSeqNext(f, q, i) == IF i > Len(q) THEN f ELSE LET s == q[i] IN SetSeqNext(SetNext(f, s.f, J(s.v), s.r, s.hd), q, i + 1)
Explains(e, f) ==
  /\ NoPanic(e)                                            \* no setter and no resolution may panic
  /\ \/ e.op = "set" /\ e.f \in Setters /\ SetExplains(f, e.f, J(e.v), e.r, e.hd)
     \/ e.op = "setmany" /\ SetSeqOK(f, e.sets, 1)
     \/ e.op = "to_naive_date" /\ DateExplains(f, e.vn, e.r)
     \/ e.op = "to_naive_time" /\ TimeExplains(f, e.r)
     \/ e.op = "to_ndt" /\ NdtExplains(f, e.off, W(e), e.r)
     \/ e.op = "to_datetime" /\ DtExplains(f, W(e), e.r)
     \/ e.op = "to_dtz" /\ DtzExplains(f, e.o, W(e), e.r)
     \* resolution in a zone whose offset CHANGES (chrono::Local under a DST rule), from a complete wall clock plus timestamp plus offset
     \* field (the event carries the fields itself; the register is not involved).  Obligation O1 only: whatever comes back contradicts
     \* none of the three, and three fields that contradict each other resolve to nothing
     \/ e.op = "to_dtz_zone" /\
          LET Unix(x) == (x.n - 719163) * 86400 + x.secs                                     \* (dates of this century: fits TLC's integers)
              inst == Unix(e.w) - e.off                                                       \* the instant the wall clock denotes under the offset field
              agree == FromInt(inst) = J(e.ts) IN
          /\ (Has(e.r, "ok") => /\ e.r.ok.off = e.off /\ FromInt(Unix(e.r.ok.u)) = J(e.ts)
                                /\ Unix(e.r.ok.u) + e.off = Unix(e.w))
          /\ (~agree => Has(e.r, "err"))
After(e, f) == IF e.op = "set" THEN SetNext(f, e.f, J(e.v), e.r, e.hd)
               ELSE IF e.op = "setmany" THEN SetSeqNext(f, e.sets, 1) ELSE f
Unknown(e) == e.op = "set" /\ SetUnknown(e.f, J(e.v), e.r)
Init == l = 1 /\ reg = NoFields /\ ep = -1 /\ skip = FALSE
Next == /\ l <= Len(Rec)
        /\ LET e == Ev
               fresh == e.ep # ep
               f == IF fresh THEN NoFields ELSE reg
               sk == IF fresh THEN FALSE ELSE skip
               ok == sk \/ Explains(e, f)
           IN /\ Report(l, ok)
              /\ reg' = (IF sk \/ ~ok THEN f ELSE After(e, f))
              /\ skip' = (sk \/ ~ok \/ Unknown(e))
              /\ ep' = e.ep
        /\ l' = l + 1
Spec == Init /\ [][Next]_vars
Accepted == Consumed(Len(Rec))
=============================================================================
