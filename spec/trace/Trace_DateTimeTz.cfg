SPECIFICATION Spec
INVARIANT InstantInRange
POSTCONDITION Accepted
CHECK_DEADLOCK FALSE
