--------------------------- MODULE Trace_DateTimeTz ---------------------------
(* Trace specification for C04 (DateTime<FixedOffset> / DateTime<Utc>): one instant, many wall clocks.
   `reg` is the register of chained-operation sessions; InstantInRange is checked in every state. *)
EXTENDS DateTimeTz, TraceLib
VARIABLES l, reg
Ev == Rec[l]
OptDT(r) == IF IsNone(r) THEN NoDT ELSE r
SameDT(r, x) == OptDT(r) = x
\* results of wall-clock operations: exactly x - except that when x is representable but its WALL CLOCK lies in the one-day
\* headroom (outside the nominal date range) a refusal is accepted too: the statement requires operations to act on such
\* readings, it does not require them to be producible by every operation
Res(r, x, off) == OptDT(r) = x \/ (x # NoDT /\ IsNone(r) /\ ~InDates(Wall(x, off).n))
WallFields(e, w) ==
   /\ e.y = YearOfDay(w.n) /\ e.mo = MonthOfDay(w.n) /\ e.d = DayOfMonth(w.n) /\ e.ord = OrdinalOf(w.n) /\ e.wd = WeekdayOf(w.n)
   /\ e.iy = IsoYearOf(w.n) /\ e.iw = IsoWeekOf(w.n)
   /\ e.h = w.secs \div 3600 /\ e.mi = (w.secs \div 60) % 60 /\ e.s = w.secs % 60 /\ e.ns = w.frac
Explains(e) ==
  \/ NoPanic(e) /\
     \* a leap second on the very last representable second sorts after MAX_UTC: whether constructing it succeeds is left open
     \/ e.op = "from_local" /\ (SameDT(e.r, FromLocal(e.w, e.off)) \/ (InDates(UtcOf(e.w, e.off).n) /\ ~InstantOK(UtcOf(e.w, e.off)) /\ e.r = UtcOf(e.w, e.off)))
                            /\ (~IsNone(e.r) => e.back = e.w /\ e.off2 = e.off)                                          \* wall clock reads back
     \/ e.op = "from_utc"   /\ e.r = e.u /\ e.off2 = e.off /\ e.utcback = e.u
     \/ e.op = "wall"       /\ WallFields(e, Wall(e.u, e.off))
     \* a zone with changing offsets: replacing a field = resolving the new wall clock in the zone (unique answer, or nothing)
     \/ e.op = "tzwith_routes" /\ e.a = e.b
     \* From impls between DateTime<Utc> / <FixedOffset> / <Local>, NaiveDate <-> NaiveDateTime; ==, partial_cmp and the distance across types
     \/ e.op = "conv"       /\ e.fu = e.u /\ e.uf = e.u /\ e.uf_off = 0 /\ e.fl = e.u /\ e.lu = e.u /\ e.lf = e.u /\ e.lf_off_same /\ e.ul = e.u
                            /\ e.nd = e.u.n /\ e.dn = [n |-> e.u.n, secs |-> 0, frac |-> 0]
                            /\ e.eq_x /\ e.cmp_x /\ J(e.since_x) = Zero /\ J(e.since_l) = Zero
                            /\ J(e.sys) = Ns(e.u)                                       \* the system clock type: the same count of nanoseconds (a leap second runs on)
                            /\ Ns(e.sys_back) = Ns(e.u)
     \/ e.op = "defaults"   /\ LET ep == [n |-> DayNumber(1970, 1, 1), secs |-> 0, frac |-> 0] IN
                               /\ e.utc = ep /\ e.fixed = ep /\ e.fixed_off = 0 /\ e.local = ep /\ e.ndt = ep /\ e.date = ep.n /\ e.time = [secs |-> 0, frac |-> 0] /\ e.epoch = ep
                               /\ e.min = [n |-> MinDay, secs |-> 0, frac |-> 0] /\ e.max = [n |-> MaxDay, secs |-> 86399, frac |-> 999999999]
                               /\ e.nmin = e.min /\ e.nmax = e.max /\ e.tmin = [secs |-> 0, frac |-> 0]
     \/ e.op = "with_tz"    /\ e.r = e.u /\ e.off2 = e.newoff                      \* converting to another zone never changes the instant
     \/ e.op = "rel"        /\ e.eq = (e.a = e.b) /\ e.c = CmpDt(e.a, e.b) /\ ((e.a = e.b) => e.hasheq)    \* ==, Ord, Hash depend on the instant only
     \/ e.op = "tzwith"     /\ Res(e.r, TzWith(e.f, e.u, e.off, J(e.v)), e.off)
     \/ e.op = "tzdays"     /\ Res(e.r, TzAddDays(e.u, e.off, J(e.k)), e.off)
     \/ e.op = "tzmonths"   /\ Res(e.r, TzAddMonths(e.u, e.off, J(e.k)), e.off)
     \/ e.op = "with_time"  /\ Res(e.r, TzWithTime(e.u, e.off, e.t), e.off)
     \* whole years elapsed between two zone-aware values of the same offset: calendar fields and time of day of the WALL clocks
     \/ e.op = "tz.years_since" /\ LET wa == Wall(e.a, e.off)  wb == Wall(e.b, e.off)
                                       ka == <<MonthOfDay(wa.n), DayOfMonth(wa.n), wa.secs, wa.frac>>  kb == <<MonthOfDay(wb.n), DayOfMonth(wb.n), wb.secs, wb.frac>>
                                       earlier == \E i \in 1..4 : ka[i] < kb[i] /\ \A j \in 1..(i - 1) : ka[j] = kb[j]
                                       yrs == YearOfDay(wa.n) - YearOfDay(wb.n) - (IF earlier THEN 1 ELSE 0) IN
                                   e.r = (IF yrs >= 0 THEN yrs ELSE -1)
     \* FixedOffset: offsets strictly within a day, east positive
     \/ e.op = "offset"     /\ LET ok == e.arg > -86400 /\ e.arg < 86400 IN
                               /\ e.east = (IF ok THEN <<e.arg, -e.arg>> ELSE <<>>)           \* <<local_minus_utc, utc_minus_local>>
                               /\ e.west = (IF ok THEN <<-e.arg, e.arg>> ELSE <<>>)
     \* MappedLocalTime combinators on a none / single / ambiguous value (kind, a, b)
     \/ e.op = "mlt"        /\ e.single = (IF e.k = "single" THEN <<e.a>> ELSE <<>>)
                            /\ e.earliest = (IF e.k = "none" THEN <<>> ELSE <<e.a>>)
                            /\ e.latest = (IF e.k = "none" THEN <<>> ELSE IF e.k = "single" THEN <<e.a>> ELSE <<e.b>>)
                            /\ e.mapped = (IF e.k = "none" THEN <<>> ELSE IF e.k = "single" THEN <<e.a + 1>> ELSE <<e.a + 1, e.b + 1>>)
     \* sessions
     \/ e.op = "s.set"      /\ TRUE
     \/ e.op = "s.tzwith"   /\ Res(e.r, TzWith(e.f, reg, e.off, J(e.v)), e.off)
     \/ e.op = "s.tzdays"   /\ Res(e.r, TzAddDays(reg, e.off, J(e.k)), e.off)
     \/ e.op = "s.tzmonths" /\ Res(e.r, TzAddMonths(reg, e.off, J(e.k)), e.off)
     \/ e.op = "s.with_time" /\ Res(e.r, TzWithTime(reg, e.off, e.t), e.off)
     \/ e.op = "s.add"      /\ SameDT(e.r, AddDt(reg, J(e.d)))
  \/ e.op = "date_naive" /\ (IF NaiveLocalOk(e.u, e.off) THEN NoPanic(e) /\ e.n = Wall(e.u, e.off).n ELSE Has(e, "panic"))         \* documented panic
  \/ e.op = "naive_local" /\ (IF NaiveLocalOk(e.u, e.off) THEN NoPanic(e) /\ e.r = Wall(e.u, e.off) ELSE Has(e, "panic"))    \* documented panic
IsSession(e) == e.op \in {"s.tzwith", "s.tzdays", "s.tzmonths", "s.with_time", "s.add"}
NextReg(e) == IF e.op = "s.set" THEN e.u ELSE IF IsSession(e) /\ NoPanic(e) /\ ~IsNone(e.r) THEN e.r ELSE reg
Init == l = 1 /\ reg = [n |-> 719163, secs |-> 0, frac |-> 0]
Next == /\ l <= Len(Rec) /\ Report(l, Explains(Ev)) /\ reg' = NextReg(Ev) /\ l' = l + 1
Spec == Init /\ [][Next]_<<l, reg>>
\* C04/C15: no DateTime whose instant is outside MIN_UTC..MAX_UTC is ever built
InstantInRange == IF IsDT(reg) THEN TRUE ELSE PrintT(<<"REJECT", l - 1>>)
Accepted == Consumed(Len(Rec))
=============================================================================
