---------------------------- MODULE Trace_Instant ----------------------------
(* Trace specification for C02 and C03 (timestamps; adding and subtracting elapsed time; iterators). *)
EXTENDS Instant, TraceLib
VARIABLES l, cur              \* cur: register of the day / week iterator episodes
Ev == Rec[l]
OptDT(r) == IF IsNone(r) THEN NoDT ELSE r
\* operator forms: the checked result, or the documented panic exactly when the checked form refuses
OpForm(e, expected) == IF expected = NoDT THEN Has(e, "panic") ELSE NoPanic(e) /\ e.r = expected
ItSucc(step) == (MaxDay - cur) \div step          \* how many more items the iterator yields from `cur` (it never yields the last day)
Explains(e) ==
  \/ NoPanic(e) /\
     \/ e.op = "ts.from"   /\ OptDT(e.r) = FromTimestamp(J(e.c), J(e.unit))
     \/ e.op = "ts.from2"  /\ OptDT(e.r) = FromSecsNanos(J(e.s), J(e.nn))
     \* (inside a leap second the sub-second readings run on: seconds are those of second 59, the finer counts include the extra second)
     \/ e.op = "dt.ts"     /\ IsDT(e.dt) /\ J(e.s) = TsSeconds(e.dt) /\ J(e.ms) = TsMillis(e.dt) /\ J(e.us) = TsMicros(e.dt)
                           /\ (IF IsNone(e.ns) THEN TsNanosOpt(e.dt) = NoDT ELSE J(e.ns) = TsNanosOpt(e.dt))
     \/ e.op = "dt.subsec" /\ e.ns = e.dt.frac /\ e.us = e.dt.frac \div 1000 /\ e.ms = e.dt.frac \div 1000000
     \/ e.op = "sys.rt"    /\ OptDT(e.dt) = FromSecsNanos(J(e.s), J(e.nn)) /\ e.back = TRUE          \* SystemTime -> DateTime -> SystemTime
     \/ e.op = "dt.sys"    /\ J(e.r) = Ns(e.dt)                                                       \* DateTime -> SystemTime keeps the instant
     \/ e.op = "dt.add"    /\ OptDT(e.r) = AddDt(e.dt, J(e.d))
     \/ e.op = "dt.sub"    /\ OptDT(e.r) = SubDt(e.dt, J(e.d))
     \/ e.op = "dt.since"  /\ J(e.r) = SinceDt(e.a, e.b) /\ e.c = CmpDt(e.a, e.b)
                           /\ ((~IsLeapDT(e.a) /\ ~IsLeapDT(e.b)) => e.c = Sign(J(e.r)))       \* order follows the distance
     \/ e.op = "tz.add"    /\ OptDT(e.r) = AddDt(e.u, J(e.d)) /\ e.off2 = e.off                \* zone-aware: same instants whatever the offset
     \/ e.op = "tz.sub"    /\ OptDT(e.r) = SubDt(e.u, J(e.d)) /\ e.off2 = e.off
     \/ e.op = "tz.since"  /\ J(e.r) = SinceDt(e.a, e.b)
     \/ e.op = "tz.cmp"    /\ e.c = CmpDt(e.a, e.b) /\ e.pc = e.c /\ e.same = 0 /\ (CmpDt(e.a, e.b) # 0 => e.max_is_b = (CmpDt(e.a, e.b) < 0))
     \/ e.op = "date.add_days" /\ e.r = AddDaysBig(e.n, J(e.k))
     \/ e.op = "date.sub_days" /\ e.r = AddDaysBig(e.n, Neg(J(e.k)))
     \/ e.op = "date.add_dur"  /\ e.r = DateAddDur(e.n, J(e.d))
     \/ e.op = "date.sub_dur"  /\ e.r = DateAddDur(e.n, Neg(J(e.d)))
     \/ e.op = "date.since"    /\ J(e.r) = DateSince(e.a, e.b)
     \/ e.op = "dtd.add_days"  /\ OptDT(e.r) = (IF AddDaysBig(e.dt.n, J(e.k)) = NoDate THEN NoDT ELSE [e.dt EXCEPT !.n = AddDaysBig(e.dt.n, J(e.k))])
     \/ e.op = "dtd.sub_days"  /\ OptDT(e.r) = (IF AddDaysBig(e.dt.n, Neg(J(e.k))) = NoDate THEN NoDT ELSE [e.dt EXCEPT !.n = AddDaysBig(e.dt.n, Neg(J(e.k)))])
     \* iterators (episodes on the register `cur`)
     \/ e.op = "it.start" /\ TRUE
     \/ e.op = "it.next"  /\ e.r = (IF cur + e.step > MaxDay THEN NoDate ELSE cur)
     \/ e.op = "it.back"  /\ e.r = (IF cur - e.step < MinDay THEN NoDate ELSE cur)
     \/ e.op = "it.nth"   /\ e.r = (IF ItSucc(e.step) >= e.k + 1 THEN cur + e.k * e.step ELSE NoDate)      \* nth(k): k+1 steps, the last one returned
     \/ e.op = "it.count" /\ e.r = ItSucc(e.step)
     \/ e.op = "it.hint"  /\ e.lo = (MaxDay - cur) \div e.step /\ e.hi = e.lo /\ e.len = e.lo
  \/ e.op = "o.dt.add" /\ OpForm(e, AddDt(e.dt, J(e.d)))
  \/ e.op = "o.dt.sub" /\ OpForm(e, SubDt(e.dt, J(e.d)))
  \/ e.op = "o.date.add" /\ (IF DateAddDur(e.n, J(e.d)) = NoDate THEN Has(e, "panic") ELSE NoPanic(e) /\ e.r = DateAddDur(e.n, J(e.d)))
  \/ e.op = "o.date.sub" /\ (IF DateAddDur(e.n, Neg(J(e.d))) = NoDate THEN Has(e, "panic") ELSE NoPanic(e) /\ e.r = DateAddDur(e.n, Neg(J(e.d))))
  \/ e.op = "o.tz.add" /\ OpForm(e, AddDt(e.u, J(e.d)))
NextCur(e) == IF e.op = "it.start" THEN e.n
              ELSE IF e.op = "it.nth" /\ NoPanic(e) THEN cur + (IF ItSucc(e.step) >= e.k + 1 THEN e.k + 1 ELSE ItSucc(e.step)) * e.step
              ELSE IF e.op = "it.count" /\ NoPanic(e) THEN cur + ItSucc(e.step) * e.step
              ELSE IF e.op = "it.next" /\ NoPanic(e) /\ e.r # NoDate THEN cur + e.step
              ELSE IF e.op = "it.back" /\ NoPanic(e) /\ e.r # NoDate THEN cur - e.step
              ELSE cur
Init == l = 1 /\ cur = 0
Next == /\ l <= Len(Rec) /\ Report(l, Explains(Ev)) /\ cur' = NextCur(Ev) /\ l' = l + 1
Spec == Init /\ [][Next]_<<l, cur>>
Accepted == Consumed(Len(Rec))
=============================================================================
