---------------------------- MODULE Trace_Duration ----------------------------
(* Trace specification for C06 (TimeDelta).  `acc` is the register of operator chains (sessions): the invariant
   AccInRange is checked in every state, so an out-of-range value is caught even when it is only an intermediate. *)
EXTENDS Duration, TraceLib
VARIABLES l, acc
Ev == Rec[l]
OptD(r) == IF IsNone(r) THEN NoDur ELSE J(r)
Explains(e) ==
  /\ NoPanic(e)
  /\ \/ e.op = "d.new"  /\ OptD(e.r) = New(J(e.secs), J(e.nanos))
     \/ e.op = "d.unit" /\ OptD(e.r) = OfUnit(J(e.v), J(e.unit))
     \/ e.op = "d.add"  /\ OptD(e.r) = CAdd(J(e.a), J(e.b))
     \/ e.op = "d.sub"  /\ OptD(e.r) = CSub(J(e.a), J(e.b))
     \/ e.op = "d.mul"  /\ OptD(e.r) = CMul(J(e.a), J(e.k))
     \/ e.op = "d.div"  /\ (IF IsZero(J(e.k)) THEN IsNone(e.r) ELSE ~IsNone(e.r) /\ DivOk(J(e.a), J(e.k), J(e.r)))
     \/ e.op = "d.neg"  /\ J(e.r) = Neg(J(e.a)) /\ J(e.abs) = Abs(J(e.a)) /\ e.zero = IsZero(J(e.a))
     \/ e.op = "d.acc"  /\ LET a == J(e.a) IN
          /\ InRange(a)
          /\ J(e.secs) = NumSeconds(a) /\ J(e.sub) = SubsecNanos(a) /\ J(e.ms) = NumMillis(a)
          /\ OptD(e.us) = OptI64(NumMicros(a)) /\ OptD(e.nsx) = OptI64(a)
          /\ J(e.mins) = NumMinutes(a) /\ J(e.hours) = NumHours(a) /\ J(e.days) = NumDays(a) /\ J(e.weeks) = NumWeeks(a)
          /\ J(e.subms) = TruncDivSmall(SubsecNanos(a), 1000000) /\ J(e.subus) = TruncDivSmall(SubsecNanos(a), 1000)
     \/ e.op = "d.cmp"  /\ e.c = Cmp(J(e.a), J(e.b)) /\ e.eq = (J(e.a) = J(e.b))
     \/ e.op = "d.fromstd" /\ OptD(e.r) = FromStd(J(e.secs), J(e.nanos))
     \/ e.op = "d.tostd" /\ (IF ToStdOk(J(e.a)) THEN ~IsNone(e.r) /\ Add(Mul1e9(J(e.r.secs)), J(e.r.nanos)) = J(e.a) /\ Lt(J(e.r.nanos), NSb) ELSE IsNone(e.r))
     \/ e.op = "d.show" /\ e.text = Show(J(e.a)) /\ (Has(e, "t2") => e.t2 = e.text /\ e.t3 = e.text)
     \/ e.op = "d.const" /\ J(e.min) = Neg(DurLim) /\ J(e.max) = DurLim /\ IsZero(J(e.zero))
     \* sessions: operator chains on the register
     \/ e.op = "s.set"  /\ TRUE
     \/ e.op = "s.add"  /\ OptD(e.r) = CAdd(acc, J(e.b))
     \/ e.op = "s.sub"  /\ OptD(e.r) = CSub(acc, J(e.b))
     \/ e.op = "s.mul"  /\ OptD(e.r) = CMul(acc, J(e.k))
     \/ e.op = "s.div"  /\ (IF IsZero(J(e.k)) THEN IsNone(e.r) ELSE ~IsNone(e.r) /\ DivOk(acc, J(e.k), J(e.r)))
     \/ e.op = "s.neg"  /\ J(e.r) = Neg(acc)
     \/ e.op = "s.abs"  /\ J(e.r) = Abs(acc)
OpExplains(e) ==    \* documented panics of the operator forms
  \/ e.op = "o.add" /\ (IF CAdd(J(e.a), J(e.b)) = NoDur THEN Has(e, "panic") ELSE NoPanic(e) /\ J(e.r) = Add(J(e.a), J(e.b)))
  \/ e.op = "o.sub" /\ (IF CSub(J(e.a), J(e.b)) = NoDur THEN Has(e, "panic") ELSE NoPanic(e) /\ J(e.r) = Sub(J(e.a), J(e.b)))
  \/ e.op = "o.mul" /\ (IF CMul(J(e.a), J(e.k)) = NoDur THEN Has(e, "panic") ELSE NoPanic(e) /\ J(e.r) = Mul(J(e.a), J(e.k)))
  \/ e.op = "o.div" /\ (IF IsZero(J(e.k)) THEN Has(e, "panic") ELSE NoPanic(e) /\ DivOk(J(e.a), J(e.k), J(e.r)))
  \/ e.op = "o.sum" /\ (IF CAdd(J(e.a), J(e.b)) = NoDur THEN Has(e, "panic") ELSE NoPanic(e) /\ J(e.r) = Add(J(e.a), J(e.b)))
\* left fold of a sequence of durations from zero; NoDur as soon as a partial sum leaves the range
RECURSIVE FoldSum(_, _, _)
FoldSum(xs, i, acc0) == IF acc0 = NoDur \/ i > Len(xs) THEN acc0 ELSE FoldSum(xs, i + 1, CAdd(acc0, J(xs[i])))
SumExplains(e) == e.op = "o.sumn" /\ (IF FoldSum(e.xs, 1, Zero) = NoDur THEN Has(e, "panic") ELSE NoPanic(e) /\ J(e.r) = FoldSum(e.xs, 1, Zero))
IsSession(e) == e.op \in {"s.set", "s.add", "s.sub", "s.mul", "s.div", "s.neg", "s.abs"}
NextAcc(e) == IF e.op = "s.set" THEN J(e.v)
              ELSE IF IsSession(e) /\ NoPanic(e) /\ ~IsNone(e.r) THEN J(e.r) ELSE acc
Init == l = 1 /\ acc = Zero
Next == /\ l <= Len(Rec)
        /\ Report(l, Explains(Ev) \/ OpExplains(Ev) \/ SumExplains(Ev))
        /\ acc' = NextAcc(Ev)
        /\ l' = l + 1
Spec == Init /\ [][Next]_<<l, acc>>
AccInRange == IF InRange(acc) THEN TRUE ELSE PrintT(<<"REJECT", l - 1>>)     \* C06: no operation ever yields a value outside the range
Accepted == Consumed(Len(Rec))
=============================================================================
