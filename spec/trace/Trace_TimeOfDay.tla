--------------------------- MODULE Trace_TimeOfDay ---------------------------
(* Trace specification for C07 (NaiveTime). *)
EXTENDS TimeOfDay, TraceLib
VARIABLE l
Ev == Rec[l]
OptT(r) == IF IsNone(r) THEN NoTime ELSE r
Explains(e) ==
  /\ NoPanic(e)
  /\ \/ e.op = "t.hmsn" /\ OptT(e.r) = FromHmsn(J(e.h), J(e.m), J(e.s), Mul(J(e.sub), FromInt(e.unit)))   \* unit: ns per sub-second unit
     \/ e.op = "t.nsfm" /\ OptT(e.r) = FromSecsNano(J(e.secs), J(e.n))
     \/ e.op = "t.acc"  /\ IsTime(e.t) /\ e.h = Hour(e.t) /\ e.mi = Minute(e.t) /\ e.s = Second(e.t) /\ e.ns = e.t.frac /\ e.nsfm = e.t.secs
                        /\ e.h12 = <<Hour(e.t) >= 12, IF Hour(e.t) % 12 = 0 THEN 12 ELSE Hour(e.t) % 12>>
     \/ e.op = "t.with" /\ OptT(e.r) = WithField(e.f, e.t, J(e.v))
     \/ e.op = "t.add"  /\ LET r == AddSigned(e.t, J(e.d)) IN e.r = r.t /\ J(e.carry) = r.carry /\ IsTime(e.r)
     \/ e.op = "t.sub"  /\ LET r == SubSigned(e.t, J(e.d)) IN e.r = r.t /\ J(e.carry) = r.carry /\ IsTime(e.r)
     \/ e.op = "t.plus" /\ e.r = AddSigned(e.t, J(e.d)).t          \* operators wrap and drop the carry
     \/ e.op = "t.minus" /\ e.r = SubSigned(e.t, J(e.d)).t
     \/ e.op = "t.since" /\ J(e.r) = Since(e.a, e.b)
     \/ e.op = "t.plusoff" /\ e.r = AddOffset(e.t, e.off).t
     \/ e.op = "t.minusoff" /\ e.r = AddOffset(e.t, -e.off).t
     \/ e.op = "t.cmp" /\ e.c = (IF e.a.secs # e.b.secs THEN (IF e.a.secs < e.b.secs THEN -1 ELSE 1)
                                 ELSE IF e.a.frac < e.b.frac THEN -1 ELSE IF e.a.frac > e.b.frac THEN 1 ELSE 0)
Init == l = 1
Next == /\ l <= Len(Rec) /\ Report(l, Explains(Ev)) /\ l' = l + 1
Spec == Init /\ [][Next]_l
Accepted == Consumed(Len(Rec))
=============================================================================
