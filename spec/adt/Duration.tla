------------------------------ MODULE Duration ------------------------------
(***************************************************************************)
(* Durations (property C06): a duration IS an integer number of            *)
(* nanoseconds d with |d| <= (2^63 - 1) milliseconds.  All arithmetic is   *)
(* on BigInt; nothing mirrors the (secs, nanos) floor representation.      *)
(***************************************************************************)
EXTENDS BigInt, Text
NSb == FromInt(1000000000)
DurLim == Mul1e6(I64Max)                            \* (2^63 - 1) * 10^6 ns
InRange(x) == Leq(Neg(DurLim), x) /\ Leq(x, DurLim)
NoDur == [none |-> 1]
Ck(x) == IF InRange(x) THEN x ELSE NoDur           \* exact result, or refusal exactly outside the range
\* constructors
New(secs, nanos) == IF ~nanos.neg /\ Lt(nanos, NSb) THEN Ck(Add(Mul1e9(secs), nanos)) ELSE NoDur
OfUnit(v, unitNs) == Ck(Mul(v, unitNs))            \* unitNs: nanoseconds per unit, as BigInt
\* checked arithmetic
CAdd(x, y) == Ck(Add(x, y))
CSub(x, y) == Ck(Sub(x, y))
CMul(x, k) == Ck(Mul(x, k))
\* division by a non-zero integer: any q with |q*k - x| < 2|k| (C06: "differs from the exact quotient by less than two ns")
DivOk(x, k, q) == InRange(q) /\ Lt(Abs(Sub(Mul(q, k), x)), MulSmall(Abs(k), 2))
\* accessors: truncation toward zero, sub-unit parts of the same sign
TruncDiv(x, d) == TruncDivSmall(x, d)              \* d <= 2 000 000
NumSeconds(x) == TruncDiv1e9(x)
SubsecNanos(x) == Sub(x, Mul1e9(NumSeconds(x)))
NumMillis(x) == TruncDiv(x, 1000000)
NumMicros(x) == TruncDiv(x, 1000)
NumMinutes(x) == TruncDiv(NumSeconds(x), 60)
NumHours(x) == TruncDiv(NumSeconds(x), 3600)
NumDays(x) == TruncDiv(NumSeconds(x), 86400)
NumWeeks(x) == TruncDiv(NumSeconds(x), 604800)
OptI64(x) == IF FitsI64(x) THEN x ELSE NoDur
\* std::time::Duration is an unsigned (u64 seconds, nanoseconds) pair
FromStd(secs, nanos) == Ck(Add(Mul1e9(secs), nanos))
ToStdOk(x) == ~x.neg
\* text form: the exact decimal number of seconds, ISO 8601 style
RECURSIVE StripZeros(_)
StripZeros(s) == IF s # <<>> /\ s[Len(s)] = 48 THEN StripZeros(SubSeq(s, 1, Len(s) - 1)) ELSE s
Show(x) == IF IsZero(x) THEN <<80, 48, 68>>                                   \* "P0D"
           ELSE LET a == Abs(x)  sn == DivMod1e9(a) IN
                (IF x.neg THEN <<45>> ELSE <<>>) \o <<80, 84>> \o DecMag(sn[1].mag)
                \o (IF sn[2] = 0 THEN <<>> ELSE <<46>> \o StripZeros(Pad0(sn[2], 9))) \o <<83>>
=============================================================================
