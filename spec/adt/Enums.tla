------------------------------- MODULE Enums -------------------------------
(***************************************************************************)
(* Weekdays, months and sets of weekdays (property C19).                   *)
(* A weekday is a number 0..6 (0 = Monday), a month a number 1..12, a      *)
(* weekday set is a TLA+ set of weekdays.  Successor and predecessor are   *)
(* the 7- and 12-cycles, the numbering functions count from the named day, *)
(* names are the English names of Text.tla, numeric conversions accept a   *)
(* number iff its MATHEMATICAL value is in range (arguments are BigInt, so *)
(* 2^32 + 1 is not 1), text parsing accepts exactly the short and the long *)
(* name in any ASCII case.  Nothing here mirrors chrono's match tables,    *)
(* casts or bit masks.                                                     *)
(***************************************************************************)
EXTENDS Integers, Sequences, FiniteSets, BigInt, Text
Days == 0..6
Months == 1..12
NoEnum == -1                                    \* the API's None / Err for a weekday or month result (type-stable)

\* ---------------------------------------------------------------- cycles and numbering
WdSucc(d) == (d + 1) % 7
WdPred(d) == (d + 6) % 7
DaysSince(a, b) == (a - b) % 7                  \* how many days after the most recent b the day a is
NumDaysFromMonday(d) == DaysSince(d, 0)
NumDaysFromSunday(d) == DaysSince(d, 6)
NumberFromMonday(d) == DaysSince(d, 0) + 1
NumberFromSunday(d) == DaysSince(d, 6) + 1
MoSucc(m) == (m % 12) + 1
MoPred(m) == ((m + 10) % 12) + 1
NumberFromMonth(m) == m

\* ---------------------------------------------------------------- names (code points)
WdShortName(d) == ShortDays[d + 1]              \* Display of a weekday
WdLongName(d) == LongDay(d)
MoShortName(m) == ShortMonths[m]
MoLongName(m) == LongMonth(m)                   \* Month::name

\* ---------------------------------------------------------------- numeric conversions
InSmallRange(x, lo, hi) == Small(x) /\ ToInt(x) >= lo /\ ToInt(x) <= hi
WdFromNum(x) == IF InSmallRange(x, 0, 6) THEN ToInt(x) ELSE NoEnum          \* 0 = Monday ... 6 = Sunday
MoFromNum(x) == IF InSmallRange(x, 1, 12) THEN ToInt(x) ELSE NoEnum         \* 1 = January ... 12 = December
\* the primitive integer types a number can be handed over in; a call exists only for values of the type
RECURSIVE Pow2(_)
Pow2(k) == IF k = 0 THEN One ELSE MulSmall(Pow2(k - 1), 2)
\* the powers of two that bound the integer types, as literals (TLC re-evaluates definitions at every use; MC_Enums checks P2(k) = Pow2(k))
P2(k) == [neg |-> FALSE, mag |->
          CASE k = 7 -> <<128>> [] k = 8 -> <<256>> [] k = 15 -> <<768, 32>> [] k = 16 -> <<536, 65>>
            [] k = 31 -> <<648, 483, 147, 2>> [] k = 32 -> <<296, 967, 294, 4>>
            [] k = 63 -> <<808, 775, 854, 36, 372, 223, 9>> [] k = 64 -> <<616, 551, 709, 73, 744, 446, 18>>
            [] k = 127 -> <<728, 105, 884, 715, 303, 687, 731, 231, 469, 460, 183, 141, 170>>
            [] k = 128 -> <<456, 211, 768, 431, 607, 374, 463, 463, 938, 920, 366, 282, 340>>]
P2Widths == {7, 8, 15, 16, 31, 32, 63, 64, 127, 128}
IntTypes == <<"i8", "i16", "i32", "i64", "i128", "isize", "u8", "u16", "u32", "u64", "u128", "usize">>
TyBits(ty) == CASE ty \in {"i8", "u8"} -> 8 [] ty \in {"i16", "u16"} -> 16 [] ty \in {"i32", "u32"} -> 32
                [] ty \in {"i64", "u64", "isize", "usize"} -> 64 [] ty \in {"i128", "u128"} -> 128
TySigned(ty) == ty \in {"i8", "i16", "i32", "i64", "i128", "isize"}
TyMin(ty) == IF TySigned(ty) THEN Neg(P2(TyBits(ty) - 1)) ELSE Zero
TyMax(ty) == Sub(P2(IF TySigned(ty) THEN TyBits(ty) - 1 ELSE TyBits(ty)), One)
Fits(ty, x) == Leq(TyMin(ty), x) /\ Leq(x, TyMax(ty))

\* ---------------------------------------------------------------- text parsing
WdNamed(s, d) == EqIgnoreAsciiCase(s, WdShortName(d)) \/ EqIgnoreAsciiCase(s, WdLongName(d))
MoNamed(s, m) == EqIgnoreAsciiCase(s, MoShortName(m)) \/ EqIgnoreAsciiCase(s, MoLongName(m))
WdFromStr(s) == IF \E d \in Days : WdNamed(s, d) THEN CHOOSE d \in Days : WdNamed(s, d) ELSE NoEnum
MoFromStr(s) == IF \E m \in Months : MoNamed(s, m) THEN CHOOSE m \in Months : MoNamed(s, m) ELSE NoEnum

\* ---------------------------------------------------------------- weekday sets
WdSets == SUBSET Days
WsSingle(d) == {d}
WsSingleDay(S) == IF Cardinality(S) = 1 THEN CHOOSE d \in S : TRUE ELSE NoEnum
WsInsert(S, d) == [set |-> S \cup {d}, r |-> d \notin S]        \* r: the day was new
WsRemove(S, d) == [set |-> S \ {d}, r |-> d \in S]              \* r: the day was present
WsUnion(a, b) == a \cup b
WsInter(a, b) == a \cap b
WsDiff(a, b) == a \ b
WsSymDiff(a, b) == (a \ b) \cup (b \ a)
WsIsSubset(a, b) == a \subseteq b
WsContains(S, d) == d \in S
WsLen(S) == Cardinality(S)
WsIsEmpty(S) == S = {}
\* cyclic weekday order beginning at `start`
Key(d, start) == (d - start) % 7
FirstFrom(S, start) == CHOOSE d \in S : \A e \in S : Key(d, start) <= Key(e, start)
LastFrom(S, start)  == CHOOSE d \in S : \A e \in S : Key(d, start) >= Key(e, start)
WsFirst(S) == IF S = {} THEN NoEnum ELSE FirstFrom(S, 0)        \* counted from Monday
WsLast(S)  == IF S = {} THEN NoEnum ELSE LastFrom(S, 0)         \* counted back from Sunday
WsSplitAt(S, d) == <<{x \in S : x < d}, {x \in S : x >= d}>>    \* <<Monday up to but excluding d, d up to Sunday>>
RECURSIVE WsIter(_, _)
WsIter(S, start) == IF S = {} THEN <<>> ELSE LET d == FirstFrom(S, start) IN <<d>> \o WsIter(S \ {d}, start)
\* the double-ended iterator as a state machine: it = [rem, start]
ItNew(S, start) == [rem |-> S, start |-> start]
ItNext(it) == IF it.rem = {} THEN [r |-> NoEnum, it |-> it]
              ELSE LET d == FirstFrom(it.rem, it.start) IN [r |-> d, it |-> [it EXCEPT !.rem = @ \ {d}]]
ItNextBack(it) == IF it.rem = {} THEN [r |-> NoEnum, it |-> it]
                  ELSE LET d == LastFrom(it.rem, it.start) IN [r |-> d, it |-> [it EXCEPT !.rem = @ \ {d}]]
ItLen(it) == Cardinality(it.rem)
ItRest(it) == WsIter(it.rem, it.start)                          \* what a copy of the iterator still yields from the front
\* Display: "[Mon, Fri, Sun]"
RECURSIVE JoinNames(_)
JoinNames(q) == IF q = <<>> THEN <<>> ELSE IF Len(q) = 1 THEN WdShortName(q[1])
                ELSE WdShortName(q[1]) \o <<44, 32>> \o JoinNames(Tail(q))
WsDisplay(S) == <<91>> \o JoinNames(WsIter(S, 0)) \o <<93>>
=============================================================================
