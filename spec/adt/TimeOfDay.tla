----------------------------- MODULE TimeOfDay -----------------------------
(***************************************************************************)
(* Times of day and their arithmetic (property C07).                       *)
(* A time is [secs |-> 0..86399, frac |-> 0..1999999999]; frac >= 10^9     *)
(* means "inside the leap second inserted after second `secs`".            *)
(* Leap-second arithmetic is defined by a TIME LINE, not by case analysis: *)
(* the operand's inserted second is the only leap second there is.         *)
(* Durations and carries are BigInt (nanoseconds / seconds).               *)
(***************************************************************************)
EXTENDS BigInt
NS == 1000000000
SPD == 86400
NoTime == [none |-> 1]
IsLeapRep(t) == t.frac >= NS
IsTime(t) == DOMAIN t = {"secs", "frac"} /\ t.secs \in 0..(SPD - 1) /\ t.frac \in 0..(2 * NS - 1)
\* C07: accepted exactly when hour < 24, minute < 60, second < 60 and nano < 10^9, or < 2*10^9 on second 59.
\* Arguments are BigInt (u32 in the API, and a milli/micro count times its unit may exceed 32 bits).
ValidHmsn(h, m, s, n) ==
   /\ ~h.neg /\ ~m.neg /\ ~s.neg /\ ~n.neg
   /\ Lt(h, FromInt(24)) /\ Lt(m, FromInt(60)) /\ Lt(s, FromInt(60))
   /\ (Lt(n, FromInt(NS)) \/ (Lt(n, Mul1e9(FromInt(2))) /\ Cmp(s, FromInt(59)) = 0))
FromHmsn(h, m, s, n) == IF ValidHmsn(h, m, s, n)
                        THEN [secs |-> ToInt(h) * 3600 + ToInt(m) * 60 + ToInt(s), frac |-> ToInt(n)] ELSE NoTime
\* seconds since midnight + nanosecond: the leap representation is allowed only when secs % 60 = 59
FromSecsNano(secs, n) == IF ~secs.neg /\ ~n.neg /\ Lt(secs, FromInt(SPD))
                            /\ (Lt(n, FromInt(NS)) \/ (Lt(n, Mul1e9(FromInt(2))) /\ ToInt(secs) % 60 = 59))
                         THEN [secs |-> ToInt(secs), frac |-> ToInt(n)] ELSE NoTime
Hour(t) == t.secs \div 3600
Minute(t) == (t.secs \div 60) % 60
Second(t) == t.secs % 60
\* single-field replacement; v is a BigInt.  with_nanosecond admits a leap representation on any second (documented).
WithField(f, t, v) ==
   CASE f = "hour"       -> IF ~v.neg /\ Lt(v, FromInt(24)) THEN [t EXCEPT !.secs = ToInt(v) * 3600 + (t.secs % 3600)] ELSE NoTime
     [] f = "minute"     -> IF ~v.neg /\ Lt(v, FromInt(60)) THEN [t EXCEPT !.secs = Hour(t) * 3600 + ToInt(v) * 60 + Second(t)] ELSE NoTime
     [] f = "second"     -> IF ~v.neg /\ Lt(v, FromInt(60)) THEN [t EXCEPT !.secs = (t.secs \div 60) * 60 + ToInt(v)] ELSE NoTime
     [] f = "nanosecond" -> IF ~v.neg /\ Lt(v, Mul1e9(FromInt(2))) THEN [t EXCEPT !.frac = ToInt(v)] ELSE NoTime
\* position on the time line in nanoseconds: secs * NS + frac  (frac may be >= NS)
Pos(t) == Add(Mul1e9(FromInt(t.secs)), Add(Mul1e9(FromInt(t.frac \div NS)), FromInt(t.frac % NS)))
\* AddSigned: move d along the line that has ONE inserted second, after second t.secs, when t is a leap second.
\* Inside the inserted second the leap representation is kept; otherwise the inserted second is left behind
\* (removed again) and the position wraps modulo one day with the quotient as carry (in seconds, a multiple of 86400).
AddSigned(t, d) ==
   LET q == Add(Pos(t), d)
       leapLo == Mul1e9(FromInt(t.secs + 1))           \* start of the inserted second
       leapHi == Mul1e9(FromInt(t.secs + 2))           \* its end
       inLeap == IsLeapRep(t) /\ Leq(leapLo, q) /\ Lt(q, leapHi)
       normal == IF IsLeapRep(t) /\ Leq(leapHi, q) THEN Sub(q, FromInt(NS)) ELSE q
       sn == DivMod1e9(normal)                         \* <<seconds (BigInt), nanoseconds>>
       ds == DivModSmall(sn[1], SPD)                   \* <<days (BigInt), second of day>>
   IN IF inLeap THEN [t |-> [secs |-> t.secs, frac |-> ToInt(Sub(q, Mul1e9(FromInt(t.secs))))], carry |-> Zero]
      ELSE [t |-> [secs |-> ds[2], frac |-> sn[2]], carry |-> MulSmall(ds[1], SPD)]
SubSigned(t, d) == LET r == AddSigned(t, Neg(d)) IN [t |-> r.t, carry |-> Neg(r.carry)]
\* signed distance, with a second inserted for each operand that is a leap second (one second if both sit on the same one)
Since(a, b) ==
   LET ext(x) == Add(Pos(x), FromInt(NS * ( (IF IsLeapRep(a) /\ a.secs < x.secs THEN 1 ELSE 0)
                                          + (IF IsLeapRep(b) /\ b.secs < x.secs /\ ~(IsLeapRep(a) /\ a.secs = b.secs) THEN 1 ELSE 0))))
   IN Sub(ext(a), ext(b))
\* adding a UTC offset (whole seconds, |off| < 86400) keeps the sub-second part, leap representation included
AddOffset(t, off) == [t |-> [secs |-> (t.secs + off) % SPD, frac |-> t.frac], carry |-> (t.secs + off) \div SPD]
=============================================================================
