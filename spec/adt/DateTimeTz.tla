----------------------------- MODULE DateTimeTz -----------------------------
(***************************************************************************)
(* Zone-aware date-times (property C04): a value is a UTC date-time u      *)
(* (an Instant!DT) plus an offset in seconds east, -86399..86399.  The     *)
(* wall clock Wall(u, off) may leave the date range by up to one day (the  *)
(* headroom); the instant never may.                                       *)
(***************************************************************************)
EXTENDS DateOps, Instant
\* wall clock and back; day numbers outside MinDay..MaxDay are fine here (pure arithmetic)
Wall(u, off)  == LET t == u.secs + off IN [n |-> u.n + (t \div SPD), secs |-> t % SPD, frac |-> u.frac]
UtcOf(w, off) == LET t == w.secs - off IN [n |-> w.n + (t \div SPD), secs |-> t % SPD, frac |-> w.frac]
\* MIN_UTC..MAX_UTC in the derived order of date-times; a leap second on the very last second lies beyond MAX_UTC
InstantOK(u) == InDates(u.n) /\ ~(u.n = MaxDay /\ u.secs = SPD - 1 /\ u.frac >= NS)
\* building from a wall clock / from UTC fails only when the instant would leave the range
FromLocal(w, off) == IF InstantOK(UtcOf(w, off)) THEN UtcOf(w, off) ELSE NoDT
\* the naive local value exists only inside the naive range (documented panic otherwise)
NaiveLocalOk(u, off) == InDates(Wall(u, off).n)
\* calendar helpers that also work one day beyond the range (the headroom)
\* replace a field on the wall clock, then go back to UTC and keep only instants in range
Back(ok, w, off) == IF ok /\ InstantOK(UtcOf(w, off)) THEN UtcOf(w, off) ELSE NoDT
TzWith(f, u, off, v) ==      \* v: BigInt
   LET w == Wall(u, off)  y == YearOfDay(w.n)  m == MonthOfDay(w.n)  d == DayOfMonth(w.n) IN
   IF ~IntSafe(v) THEN NoDT
   ELSE LET x == ToInt(v) IN
   CASE f = "hour"   -> Back(x >= 0 /\ x < 24, [w EXCEPT !.secs = x * 3600 + (w.secs % 3600)], off)
     [] f = "minute" -> Back(x >= 0 /\ x < 60, [w EXCEPT !.secs = (w.secs \div 3600) * 3600 + x * 60 + (w.secs % 60)], off)
     [] f = "second" -> Back(x >= 0 /\ x < 60, [w EXCEPT !.secs = (w.secs \div 60) * 60 + x], off)
     [] f = "nanosecond" -> Back(x >= 0 /\ x < 2 * NS, [w EXCEPT !.frac = x], off)
     [] f = "day"    -> Back(x >= 1 /\ x <= DaysInMonth(y, m), [w EXCEPT !.n = DayNumber(y, m, IF x >= 1 /\ x <= DaysInMonth(y, m) THEN x ELSE 1)], off)
     [] f = "day0"   -> Back(x >= 0 /\ x < DaysInMonth(y, m), [w EXCEPT !.n = DayNumber(y, m, IF x >= 0 /\ x < DaysInMonth(y, m) THEN x + 1 ELSE 1)], off)
     [] f = "month"  -> Back(x >= 1 /\ x <= 12 /\ d <= DaysInMonth(y, IF x >= 1 /\ x <= 12 THEN x ELSE 1), [w EXCEPT !.n = DayNumber(y, IF x >= 1 /\ x <= 12 THEN x ELSE 1, 1) + d - 1], off)
     [] f = "month0" -> Back(x >= 0 /\ x <= 11 /\ d <= DaysInMonth(y, IF x >= 0 /\ x <= 11 THEN x + 1 ELSE 1), [w EXCEPT !.n = DayNumber(y, IF x >= 0 /\ x <= 11 THEN x + 1 ELSE 1, 1) + d - 1], off)
     [] f = "ordinal" -> Back(x >= 1 /\ x <= DaysInYear(y), [w EXCEPT !.n = DaysBeforeYear(y) + x], off)
     [] f = "ordinal0" -> Back(x >= 0 /\ x < DaysInYear(y), [w EXCEPT !.n = DaysBeforeYear(y) + x + 1], off)
     [] f = "year"   -> Back(x >= MinYear - 1 /\ x <= MaxYear + 1 /\ d <= DaysInMonth(IF x >= MinYear - 1 /\ x <= MaxYear + 1 THEN x ELSE 0, m),
                             [w EXCEPT !.n = DayNumber(IF x >= MinYear - 1 /\ x <= MaxYear + 1 THEN x ELSE 0, m, 1) + d - 1], off)
\* day and month stepping act on the wall clock
TzAddDays(u, off, k) == LET w == Wall(u, off)  t == Add(FromInt(w.n), k) IN
   IF ~Small(t) THEN NoDT ELSE Back(TRUE, [w EXCEPT !.n = ToInt(t)], off)
TzAddMonths(u, off, k) ==
   LET w == Wall(u, off)  y == YearOfDay(w.n)  m == MonthOfDay(w.n)  d == DayOfMonth(w.n) IN
   IF ~Small(k) THEN NoDT
   ELSE LET t == y * 12 + (m - 1) + ToInt(k)   ny == t \div 12   nm == (t % 12) + 1 IN
        IF ny < MinYear - 1 \/ ny > MaxYear + 1 THEN NoDT
        ELSE Back(TRUE, [w EXCEPT !.n = DayNumber(ny, nm, MinOf(d, DaysInMonth(ny, nm)))], off)
TzWithTime(u, off, t) == Back(TRUE, [n |-> Wall(u, off).n, secs |-> t.secs, frac |-> t.frac], off)
=============================================================================
