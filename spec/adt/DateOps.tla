------------------------------ MODULE DateOps ------------------------------
(***************************************************************************)
(* Month stepping, field replacement and week helpers (property C08),      *)
(* defined on day numbers through Calendar.  Arguments that are u32 / i32  *)
(* in the API arrive as BigInt.                                            *)
(***************************************************************************)
EXTENDS Calendar, BigInt
MinOf(a, b) == IF a < b THEN a ELSE b
Ymd(y, m, d) == DayNumber(y, m, d)
\* adding k months (k a signed BigInt): the year-month moves by exactly k, the day is clamped to the target month
AddMonths(n, k) ==
   LET y == YearOfDay(n)  m == MonthOfDay(n)  d == DayOfMonth(n) IN
   IF ~Small(k) THEN NoDate
   ELSE LET t == y * 12 + (m - 1) + ToInt(k)   ny == t \div 12   nm == (t % 12) + 1 IN
        IF ny < MinYear \/ ny > MaxYear THEN NoDate ELSE Ymd(ny, nm, MinOf(d, DaysInMonth(ny, nm)))
\* replacing one field (1- or 0-based) keeps all others, or yields nothing if no such date exists
WithDate(f, n, v) ==
   LET y == YearOfDay(n)  m == MonthOfDay(n)  d == DayOfMonth(n) IN
   IF ~Small(v) THEN NoDate
   ELSE LET x == ToInt(v) IN
        CASE f = "year"     -> FromYmd(x, m, d)
          [] f = "month"    -> FromYmd(y, x, d)
          [] f = "month0"   -> FromYmd(y, x + 1, d)
          [] f = "day"      -> FromYmd(y, m, x)
          [] f = "day0"     -> FromYmd(y, m, x + 1)
          [] f = "ordinal"  -> FromYo(y, x)
          [] f = "ordinal0" -> FromYo(y, x + 1)
\* the week containing n for a chosen first weekday
WeekFirst(n, start) == n - ((WeekdayOf(n) - start) % 7)
WeekLast(n, start) == WeekFirst(n, start) + 6
Opt(n) == IF InDates(n) THEN n ELSE NoDate
\* the k-th (1-based) given weekday of a month
NthWeekday(y, m, wd, k) ==
   IF y < MinYear \/ y > MaxYear \/ m < 1 \/ m > 12 \/ k < 1 THEN NoDate
   ELSE LET first == DayNumber(y, m, 1)  d == 1 + ((wd - WeekdayOf(first)) % 7) + 7 * (k - 1) IN
        IF d <= DaysInMonth(y, m) THEN DayNumber(y, m, d) ELSE NoDate
\* whole years elapsed from b to a (none when a is before b's anniversary in the year of b)
YearsSince(a, b) ==
   LET earlier == (MonthOfDay(a) < MonthOfDay(b)) \/ (MonthOfDay(a) = MonthOfDay(b) /\ DayOfMonth(a) < DayOfMonth(b))
       yrs == YearOfDay(a) - YearOfDay(b) - (IF earlier THEN 1 ELSE 0) IN
   IF yrs >= 0 THEN yrs ELSE -1
Quarter(n) == (MonthOfDay(n) - 1) \div 3 + 1
YearCe(n) == LET y == YearOfDay(n) IN IF y >= 1 THEN <<TRUE, y>> ELSE <<FALSE, 1 - y>>
=============================================================================
