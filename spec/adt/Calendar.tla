------------------------------ MODULE Calendar ------------------------------
(***************************************************************************)
(* The proleptic Gregorian calendar from first principles (property C01):  *)
(* leap years every 4th year except centuries not divisible by 400; year 0 *)
(* = 1 BCE; day 1 = 0001-01-01, a Monday; ISO week 1 contains 4 January.   *)
(* Nothing here mirrors chrono's tables or packed representations.         *)
(* A date is its day number (days since 0000-12-31).                       *)
(***************************************************************************)
EXTENDS Integers, Sequences
IsLeap(y) == (y % 4 = 0 /\ y % 100 # 0) \/ y % 400 = 0
DaysInMonth(y, m) == IF m = 2 THEN (IF IsLeap(y) THEN 29 ELSE 28) ELSE IF m \in {4,6,9,11} THEN 30 ELSE 31
DaysInYear(y) == IF IsLeap(y) THEN 366 ELSE 365
DaysBeforeYear(y) == LET p == y - 1 IN 365 * p + (p \div 4) - (p \div 100) + (p \div 400)     \* floor division
RECURSIVE DaysBeforeMonth(_, _)
DaysBeforeMonth(y, m) == IF m = 1 THEN 0 ELSE DaysBeforeMonth(y, m-1) + DaysInMonth(y, m-1)
DayNumber(y, m, d) == DaysBeforeYear(y) + DaysBeforeMonth(y, m) + d
WeekdayOf(n) == (n - 1) % 7                      \* 0 = Monday ... 6 = Sunday
\* year containing day n: estimate, then correct (the estimate is never too small and at most 1 too large)
YearOfDay(n) == LET q == (n - 1) \div 146097
                    r == (n - 1) % 146097
                    g == 400 * q + (r \div 365) + 1
                IN IF DaysBeforeYear(g) < n THEN g ELSE g - 1
OrdinalOf(n) == n - DaysBeforeYear(YearOfDay(n))
MonthOfDay(n) == LET y == YearOfDay(n)
                     RECURSIVE M(_)
                     M(m) == IF n <= DaysBeforeYear(y) + DaysBeforeMonth(y, m) + DaysInMonth(y, m) THEN m ELSE M(m + 1)
                 IN M(1)
DayOfMonth(n) == LET y == YearOfDay(n) IN n - DaysBeforeYear(y) - DaysBeforeMonth(y, MonthOfDay(n))
MinYear == -262143
MaxYear == 262142
MinDay == DayNumber(MinYear, 1, 1)               \* -95 746 129
MaxDay == DayNumber(MaxYear, 12, 31)             \*  95 745 399
InDates(n) == n >= MinDay /\ n <= MaxDay
\* ISO 8601: weeks run Monday..Sunday, week 1 is the week containing 4 January
MondayOnOrBefore(n) == n - WeekdayOf(n)
Week1Monday(y) == MondayOnOrBefore(DayNumber(y, 1, 4))
IsoYearOf(n) == LET y == YearOfDay(n) IN
                IF n >= Week1Monday(y + 1) THEN y + 1 ELSE IF n < Week1Monday(y) THEN y - 1 ELSE y
IsoWeekOf(n) == (n - Week1Monday(IsoYearOf(n))) \div 7 + 1
NumIsoWeeks(y) == (Week1Monday(y + 1) - Week1Monday(y)) \div 7
\* strftime %U / %W: week 1 starts at the first Sunday (wd = 6) / Monday (wd = 0) of the year; days before are week 0
FirstWeekdayOfYear(y, wd) == LET j1 == DayNumber(y, 1, 1) IN j1 + ((wd - WeekdayOf(j1)) % 7)
WeeksFrom(n, wd) == LET y == YearOfDay(n) f == FirstWeekdayOfYear(y, wd) IN IF n < f THEN 0 ELSE (n - f) \div 7 + 1
(* Constructors.  Arguments are native integers already known to be small  *)
(* (|x| < 10^9, see BigInt!Small); NoDate stands for the API's None.       *)
NoDate == -2000000000
ValidYmd(y, m, d) == y >= MinYear /\ y <= MaxYear /\ m >= 1 /\ m <= 12 /\ d >= 1 /\ d <= DaysInMonth(y, m)
FromYmd(y, m, d) == IF ValidYmd(y, m, d) THEN DayNumber(y, m, d) ELSE NoDate
FromYo(y, o) == IF y >= MinYear /\ y <= MaxYear /\ o >= 1 /\ o <= DaysInYear(y) THEN DaysBeforeYear(y) + o ELSE NoDate
\* the ISO year may be one beyond the calendar-year range as long as the denoted day is representable
FromIsoYwd(iy, w, wd) == IF iy < MinYear - 1 \/ iy > MaxYear + 1 \/ w < 1 \/ w > 53 \/ wd < 0 \/ wd > 6 THEN NoDate
                         ELSE IF w > NumIsoWeeks(iy) THEN NoDate
                         ELSE LET n == Week1Monday(iy) + 7 * (w - 1) + wd IN IF InDates(n) THEN n ELSE NoDate
FromDays(n) == IF InDates(n) THEN n ELSE NoDate
Succ(n) == IF n >= MaxDay THEN NoDate ELSE n + 1
Pred(n) == IF n <= MinDay THEN NoDate ELSE n - 1
=============================================================================
