------------------------------ MODULE Rounding ------------------------------
(***************************************************************************)
(* Rounding and truncation of date-times (property C17), as                *)
(* characterisations over BigInt: greatest multiple of the span not after  *)
(* the stamp, least multiple not before it, the nearer with ties going up. *)
(* The stamp is the nanosecond position of the WALL-CLOCK reading.         *)
(***************************************************************************)
EXTENDS Instant
\* failure exactly for non-positive spans, spans that do not fit i64 nanoseconds, stamps that do not fit i64 nanoseconds
RoundErr(stamp, span) == ~Lt(Zero, span) \/ ~FitsI64(span) \/ ~FitsI64(stamp)
IsMultiple(m, k, span) == m = Mul(k, span)                    \* k is a hint (the multiple's index); verified, never trusted
TruncOk(stamp, span, m) == Leq(m, stamp) /\ Lt(stamp, Add(m, span))
UpOk(stamp, span, m)    == Leq(stamp, m) /\ Lt(Sub(m, span), stamp)
RoundOk(stamp, span, m) == LET twice == MulSmall(Abs(Sub(m, stamp)), 2) IN
                           Leq(twice, span) /\ (twice = span => Lt(stamp, m))         \* nearest; ties go up
\* sub-second rounding to `digits` digits: span = 10^(9 - digits) inside the second, identity from 9 digits on
Pow10r(k) == CASE k = 0 -> 1 [] k = 1 -> 10 [] k = 2 -> 100 [] k = 3 -> 1000 [] k = 4 -> 10000 [] k = 5 -> 100000 [] k = 6 -> 1000000 [] k = 7 -> 10000000 [] k = 8 -> 100000000 [] OTHER -> 1000000000
SubsecSpan(digits) == Pow10r(9 - digits)
TruncSubsecs(dt, digits) == IF digits >= 9 THEN dt ELSE SubDt(dt, FromInt(dt.frac % SubsecSpan(digits)))
RoundSubsecs(dt, digits) == IF digits >= 9 THEN dt
                            ELSE LET s == SubsecSpan(digits)  delta == dt.frac % s IN
                                 IF 2 * delta >= s THEN AddDt(dt, FromInt(s - delta)) ELSE SubDt(dt, FromInt(delta))
=============================================================================
