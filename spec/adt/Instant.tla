------------------------------ MODULE Instant ------------------------------
(***************************************************************************)
(* Naive date-times and Unix timestamps (properties C02, C03).             *)
(* A date-time is [n |-> day number, secs |-> second of day, frac |-> ns   *)
(* field (>= 10^9: leap second)].  Ns(dt) is its position in nanoseconds   *)
(* since 1970-01-01T00:00:00 as a BigInt.                                  *)
(***************************************************************************)
EXTENDS TimeOfDay, Calendar
UnixEpochDay == 719163
NoDT == [none |-> 1]
IsDT(x) == DOMAIN x = {"n", "secs", "frac"} /\ InDates(x.n) /\ x.secs \in 0..(SPD - 1) /\ x.frac \in 0..(2 * NS - 1)
TimeOf(dt) == [secs |-> dt.secs, frac |-> dt.frac]
IsLeapDT(dt) == dt.frac >= NS
SecsOf(dt) == Add(MulSmall(FromInt(dt.n - UnixEpochDay), SPD), FromInt(dt.secs))             \* whole seconds since the epoch
Ns(dt) == Add(Mul1e9(SecsOf(dt)), Add(Mul1e9(FromInt(dt.frac \div NS)), FromInt(dt.frac % NS)))
MinDT == [n |-> MinDay, secs |-> 0, frac |-> 0]
MaxDT == [n |-> MaxDay, secs |-> SPD - 1, frac |-> NS - 1]
InDT(x) == Leq(Ns(MinDT), x) /\ Leq(x, Ns(MaxDT))
\* the date-time at nanosecond position x (no leap seconds on this side)
DtOfNs(x) == LET sn == DivMod1e9(x)  ds == DivModSmall(sn[1], SPD) IN
             IF InDT(x) THEN [n |-> ToInt(ds[1]) + UnixEpochDay, secs |-> ds[2], frac |-> sn[2]] ELSE NoDT
\* --- C02 ---------------------------------------------------------------------------------------
\* count * unit nanoseconds since the epoch (units: 10^9, 10^6, 10^3, 1): floor semantics are implied by exactness
FromTimestamp(count, unitNs) == DtOfNs(Mul(count, unitNs))
\* seconds + nanosecond field; the field may denote a leap second (>= 10^9) only on second 59
FromSecsNanos(s, nn) ==
   LET sod == DivModSmall(s, SPD)[2]
       okn == ~nn.neg /\ (Lt(nn, FromInt(NS)) \/ (Lt(nn, Mul1e9(FromInt(2))) /\ sod % 60 = 59))
       base == DtOfNs(Mul1e9(s)) IN
   IF ~okn \/ base = NoDT THEN NoDT ELSE [base EXCEPT !.frac = ToInt(nn)]
\* reading back (non-leap date-times): floor toward minus infinity in every unit
TsSeconds(dt) == SecsOf(dt)
TsMillis(dt) == DivModSmall(Ns(dt), 1000000)[1]
TsMicros(dt) == DivModSmall(Ns(dt), 1000)[1]
TsNanosOpt(dt) == IF FitsI64(Ns(dt)) THEN Ns(dt) ELSE NoDT
\* --- C03 ---------------------------------------------------------------------------------------
\* add a duration: the time of day moves on its time line (leap operand: C07), the carry moves the date
AddDt(dt, d) == LET r == AddSigned(TimeOf(dt), d)
                    days == DivModSmall(r.carry, SPD)[1] IN
                IF ~Small(days) THEN NoDT
                ELSE LET n2 == dt.n + ToInt(days) IN
                     IF InDates(n2) THEN [n |-> n2, secs |-> r.t.secs, frac |-> r.t.frac] ELSE NoDT
SubDt(dt, d) == AddDt(dt, Neg(d))
SinceDt(a, b) == Add(Mul1e9(MulSmall(FromInt(a.n - b.n), SPD)), Since(TimeOf(a), TimeOf(b)))
CmpDt(a, b) == IF a.n # b.n THEN (IF a.n < b.n THEN -1 ELSE 1) ELSE IF a.secs # b.secs THEN (IF a.secs < b.secs THEN -1 ELSE 1)
               ELSE IF a.frac < b.frac THEN -1 ELSE IF a.frac > b.frac THEN 1 ELSE 0
\* plain dates: whole days
AddDaysBig(n, k) == LET t == Add(FromInt(n), k) IN IF Small(t) /\ InDates(ToInt(t)) THEN ToInt(t) ELSE NoDate
DateAddDur(n, d) == AddDaysBig(n, TruncDivSmall(TruncDiv1e9(d), SPD))       \* durations truncate toward zero to whole days
DateSince(a, b) == Mul1e9(MulSmall(FromInt(a - b), SPD))
=============================================================================
