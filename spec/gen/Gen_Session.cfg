SPECIFICATION Spec
CONSTANT Depth = 14
INVARIANT RegistersValid
INVARIANT Emit
CHECK_DEADLOCK FALSE
