SPECIFICATION Spec
INVARIANT VisitedOnce
INVARIANT Emit
CHECK_DEADLOCK FALSE
