SPECIFICATION GSpec
CONSTANTS
  Threads <- GenThreads
  TicksPerSec = 4
  MaxTime = 60
  MaxVer = 0
  EnvVals <- PadVals
  SysChoices <- SysPlain
  GenWaits <- Waits2
  MaxDepth = 3
  SimTargets <- Sim3
  WithSpawn = TRUE
  Val <- WVal
  AbsFiles <- WAbsFiles
  RelFiles <- WRelFiles
  Rules <- WRules
INVARIANT StatementHolds
INVARIANT Emit
CHECK_DEADLOCK FALSE
