----------------------------- MODULE Gen_Rfc2822 -----------------------------
(* Replay direction of C11: TLC derives RFC 2822 date-times - current and     *)
(* obsolete forms, every optional part - from the generator of Rfc2822 over   *)
(* the syntax-choice combinations x a field lattice and prints each with the  *)
(* value it denotes (or ok = false for a contradicting weekday).  The harness *)
(* replayer (src/r/rfc2822.rs) runs DateTime::parse_from_rfc2822 on each.     *)
EXTENDS MC_Rfc2822, Json
Line == LET f == Fields  c == Chosen  v == Denoted(f, c) IN
        IF Consistent(f, c) THEN [s |-> Gen(f, c), ok |-> TRUE, n |-> v.n, secs |-> v.secs, frac |-> v.frac, off |-> v.off]
        ELSE [s |-> Gen(f, c), ok |-> FALSE]
GInit == /\ x = [k |-> "init"] /\ b \in { [k |-> "gen", date |-> d, zone |-> z] : d \in 1..Len(Dates), z \in ZoneTexts }
Emit == x.k = "gen" => PrintT(<<"REPLAY", ToJson(Line)>>)
GSpec == GInit /\ [][Next]_<<b, x>>
=============================================================================
