SPECIFICATION GSpec
CONSTANT M = 7
INVARIANT Emit
CHECK_DEADLOCK FALSE
