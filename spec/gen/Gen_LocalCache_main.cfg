SPECIFICATION GSpec
CONSTANTS
  Threads <- GenThreads
  TicksPerSec = 4
  MaxTime = 60
  MaxVer = 0
  EnvVals <- MainVals
  SysChoices <- SysPlain
  GenWaits <- Waits2
  MaxDepth = 5
  SimTargets <- Sim45
  WithSpawn = TRUE
  Val <- WVal
  AbsFiles <- WAbsFiles
  RelFiles <- WRelFiles
  Rules <- WRules
INVARIANT StatementHolds
INVARIANT Emit
CHECK_DEADLOCK FALSE
