SPECIFICATION GSpec
CONSTANTS
  Threads <- GenThreads
  TicksPerSec = 4
  MaxTime = 60
  MaxVer = 0
  EnvVals <- DeepVals
  SysChoices <- SysPlain
  GenWaits <- WaitsDeep
  MaxDepth = 8
  SimTargets <- Sim678
  WithSpawn = FALSE
  Dirs <- UtcOnly
  Val <- WVal
  AbsFiles <- WAbsFiles
  RelFiles <- WRelFiles
  Rules <- WRules
INVARIANT StatementHolds
INVARIANT Emit
CHECK_DEADLOCK FALSE
