SPECIFICATION GSpec
CONSTANT M = 3499
CHECK_DEADLOCK FALSE
