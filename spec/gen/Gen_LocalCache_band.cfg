SPECIFICATION GSpec
CONSTANTS
  Threads <- GenThreads
  TicksPerSec = 4
  MaxTime = 60
  MaxVer = 0
  EnvVals <- BandVals
  SysChoices <- SysPlain
  GenWaits <- WaitsBand
  MaxDepth = 4
  SimTargets <- Sim4
  WithSpawn = TRUE
  Val <- WVal
  AbsFiles <- WAbsFiles
  RelFiles <- WRelFiles
  Rules <- WRules
INVARIANT StatementHolds
INVARIANT Emit
CHECK_DEADLOCK FALSE
