--------------------------- MODULE Gen_EnumsCorpus ---------------------------
(***************************************************************************)
(* The enumerated argument sets of the C19 conversions: numbers at every   *)
(* power-of-two boundary at which a narrowing cast would wrap, and strings *)
(* around every weekday / month name.  Used by the generator (replay) and  *)
(* by the design check MC_Enums (the specification's acceptance on this    *)
(* corpus is exactly "is a name").                                         *)
(***************************************************************************)
EXTENDS Enums
\* ---------------------------------------------------------------- numbers
\* all u8, 0..13 around every 2^w and -2^w (what `as u8/u16/u32/u64` would wrap onto 0..13), 2^w +- 1, type extremes
WrapWidths == {7, 8, 15, 16, 31, 32, 63, 64, 127}
NumValues == { FromInt(n) : n \in -14..270 }
             \cup { Add(P2(w), FromInt(k)) : w \in WrapWidths, k \in -2..13 }
             \cup { Add(Neg(P2(w)), FromInt(k)) : w \in WrapWidths, k \in -2..13 }
             \cup { Sub(P2(128), FromInt(k)) : k \in 1..3 }
NumTypes == { IntTypes[i] : i \in 1..Len(IntTypes) }
\* <<type, value>>: one call per value that the type can hold; "try_u8" is TryFrom<u8>
NumCases == LET rng == [ty \in NumTypes |-> <<TyMin(ty), TyMax(ty)>>]            \* evaluated once, not per pair
                fits(ty, x) == Leq(rng[ty][1], x) /\ Leq(x, rng[ty][2])
            IN { <<ty, x>> \in NumTypes \X NumValues : fits(ty, x) } \cup { <<"try_u8", x>> : x \in { v \in NumValues : fits("u8", v) } }

\* ---------------------------------------------------------------- strings
WdNames == { WdShortName(d) : d \in Days } \cup { WdLongName(d) : d \in Days }
MoNames == { MoShortName(m) : m \in Months } \cup { MoLongName(m) : m \in Months }
Names == WdNames \cup MoNames
AltStr(s) == [i \in 1..Len(s) |-> IF i % 2 = 1 THEN Lower(s[i]) ELSE Upper(s[i])]
Casings(s) == { s, UpperStr(s), LowerStr(s), AltStr(s) }
Prefixes(s) == { SubSeq(s, 1, k) : k \in 0..(Len(s) - 1) }
Suffixes(s) == { SubSeq(s, k, Len(s)) : k \in 2..Len(s) }
\* space, 's', '.', NUL, TAB, LF, e-acute, ideographic space, 'y'
ExtraChars == { 32, 115, 46, 0, 9, 10, 233, 12288, 121 }
Extended(s) == { s \o <<c>> : c \in ExtraChars } \cup { <<c>> \o s : c \in ExtraChars }
\* one character replaced: the next letter, '_', the same letter + 128 (a two-byte character), and the three non-ASCII
\* characters whose Unicode case mapping is an ASCII letter (long s, dotless i, Kelvin sign)
Subst(c) == { c + 1, 95, c + 128 } \cup (IF Lower(c) = 115 THEN {383} ELSE {}) \cup (IF Lower(c) = 105 THEN {305, 304} ELSE {})
            \cup (IF Lower(c) = 107 THEN {8490} ELSE {})
Replaced(s) == UNION { { [s EXCEPT ![i] = c] : c \in Subst(s[i]) } : i \in 1..Len(s) }
Deleted(s) == { SubSeq(s, 1, i - 1) \o SubSeq(s, i + 1, Len(s)) : i \in 1..Len(s) }
Doubled(s) == { SubSeq(s, 1, i) \o SubSeq(s, i, Len(s)) : i \in 1..Len(s) }
\* a short name continued with the tail of another long name ("Monsday", "Janruary"), two short names in a row
Crossed == { WdShortName(d) \o LongDayTails[e + 1] : d \in Days, e \in Days } \cup { MoShortName(m) \o LongMonthTails[k] : m \in Months, k \in Months }
           \cup { WdShortName(d) \o LongMonthTails[k] : d \in Days, k \in Months } \cup { MoShortName(m) \o LongDayTails[e + 1] : m \in Months, e \in Days }
ShortNames == { WdShortName(d) : d \in Days } \cup { MoShortName(m) : m \in Months }
Paired == { a \o b : a \in ShortNames, b \in ShortNames }
TextCorpus == UNION { Casings(s) : s \in Names }
              \cup UNION { Prefixes(s) \cup Suffixes(s) \cup Extended(s) \cup Deleted(s) \cup Doubled(s) : s \in Names \cup { LowerStr(n) : n \in Names } }
              \cup UNION { Replaced(s) : s \in Names }
              \cup UNION { Casings(s) : s \in Crossed } \cup Paired
=============================================================================
