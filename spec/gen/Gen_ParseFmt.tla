----------------------------- MODULE Gen_ParseFmt -----------------------------
(* Replay direction for C13: TLC enumerates the unambiguous family of format  *)
(* strings of ParseFmt, pairs every member with a lattice of values and       *)
(* prints, per pair, the admissible texts, whether the format can express the *)
(* value, the value parsing must return, and perturbed texts (letter case of  *)
(* names / am-pm, surplus white space) that must parse to the same value.     *)
(* The harness replayer (src/r/parsefmt.rs) executes format / parse_from_str  *)
(* on the real code and compares.                                             *)
EXTENDS ParseFmt, TLC, Json
CONSTANT Stride, Thin, Sample    \* NdtCands / DtCands take every Stride-th block pair; every Thin-th lattice value per format;
                                 \* one family member in Sample is kept
VARIABLE c
\* range ends, year-form boundaries, week-number corners; every month and every weekday occurs
Dates == << <<-262143, 1, 1>>, <<-9999, 12, 31>>, <<-1, 3, 1>>, <<0, 2, 29>>, <<99, 12, 31>>, <<1969, 12, 28>>, <<1970, 1, 1>>, <<2001, 7, 8>>,
            <<2010, 1, 3>>, <<2024, 12, 30>>, <<2069, 12, 31>>, <<2070, 1, 5>>, <<9999, 12, 31>>, <<10000, 1, 1>>, <<262142, 12, 31>>, <<2012, 6, 30>>,
            <<2015, 4, 14>>, <<2016, 5, 4>>, <<2017, 8, 31>>, <<2018, 9, 7>>, <<2019, 10, 12>>, <<2020, 11, 9>> >>
Clocks == << <<34 * 60 + 59, 1026490000>>, <<12 * 3600, 0>>, <<86399, 999999999>>, <<13 * 3600 + 5 * 60 + 7, 1000000>>, <<11 * 3600 + 59 * 60 + 59, 1000000000>>,
             <<0, 7000>>, <<23 * 3600 + 30, 123456789>> >>
Offs == << 34200, 0, -29, 34230, -3629, 30, -86399, 3600, -1800, -31, 86369 >>
Lattice == { <<DayNumber(Dates[k][1], Dates[k][2], Dates[k][3]), Pick(Clocks, k + j), Pick(Offs, k + 2 * j)>> : k \in 1..Len(Dates), j \in 0..1 }
ValOf(ty, x) == CASE ty = "date" -> DateVal(x[1]) [] ty = "time" -> TimeVal(x[2][1], x[2][2])
                  [] ty = "ndt" -> NdtVal(x[1], x[2][1], x[2][2]) [] ty = "dt" -> DtVal(x[1], x[2][1], x[2][2], x[3])
\* the value as the replayer builds it: dates by day number, a zone-aware value from its wall clock and offset
JVal(ty, v) == CASE ty = "date" -> [n |-> v.n] [] ty = "time" -> [secs |-> v.secs, frac |-> v.frac]
                 [] ty = "ndt" -> [n |-> v.n, secs |-> v.secs, frac |-> v.frac] [] ty = "dt" -> [n |-> v.n, secs |-> v.secs, frac |-> v.frac, off |-> v.off]
RECURSIVE SetToSeq(_)
SetToSeq(set) == IF set = {} THEN <<>> ELSE LET e == CHOOSE e \in set : TRUE IN <<e>> \o SetToSeq(set \ {e})
Modes == <<"upper", "lower", "alt">>
Line(cand, x, k) ==
   LET w == StrictItems(cand.fw)  r == StrictItems(cand.fr)  v == ValOf(cand.ty, x)
       texts == SetToSeq(RenderAll(w, v))
       can == Determined(w, v) /\ Expressible(w, r, v, cand.ty)
       perts == IF can THEN [i \in 1..Len(texts) |-> [mode |-> Pick(Modes, k + i), ws |-> Pick(WhiteRuns, k),
                                                       text |-> Perturbed(w, v, texts[i], Pick(Modes, k + i), Pick(WhiteRuns, k))]]
                ELSE <<>>
   IN [ty |-> cand.ty, fw |-> cand.fw, fr |-> cand.fr, v |-> JVal(cand.ty, v), det |-> Determined(w, v), texts |-> texts, can |-> can,
       parsed |-> IF can THEN Project(w, r, v, cand.ty) ELSE [none |-> 1], perts |-> perts,
       \* diagnostic only: what the projection would be for a value the specification regards as not expressible; the replayer
       \* counts how often the real reader returns it anyway (a measure of how tight Expressible is, never a mismatch)
       would |-> IF ~can /\ Determined(w, v) THEN Project(w, r, v, cand.ty) ELSE [none |-> 1]]
\* a dt value must be a representable instant (the lattice is given as wall clocks)
Valid(ty, x) == ty # "dt" \/ InDates(x[1] + ((x[2][1] - x[3]) \div 86400))
Values(cand) == LET all == SetToSeq({ x \in Lattice : Valid(cand.ty, x) }) IN { i \in 1..Len(all) : (i + Len(cand.fw)) % Thin = 0 }
\* two levels, so that TLC's workers share the family: the initial states are seeds, their successors the members of
\* one bucket each (initial states are processed by a single thread; every seed enumerates - and so filters - the
\* family once more, hence only a few buckets)
Family == UnambiguousFamily(Stride)
Buckets == 6
Bucket(m) == (Len(m.fw) + m.fw[Len(m.fw)] + m.fw[(Len(m.fw) \div 2) + 1]) % Buckets
Keep(m) == (7 * Len(m.fw) + m.fw[Len(m.fw)] + m.fw[(Len(m.fw) \div 3) + 1]) % Sample = 0
Init == c \in { [ty |-> "seed", k |-> k] : k \in 0..(Buckets - 1) }
Next == c.ty = "seed" /\ c' \in { m \in Family : Bucket(m) = c.k /\ Keep(m) }
Spec == Init /\ [][Next]_c
Member == c.ty # "seed"
Emit == Member =>
        LET all == SetToSeq({ x \in Lattice : Valid(c.ty, x) }) IN
        \A i \in Values(c) : PrintT(<<"REPLAY", ToJson(Line(c, all[i], i))>>)
\* every family member can express at least one lattice value (the generated obligations are not vacuous)
NonVacuous == Member =>
   \E x \in Lattice : Valid(c.ty, x) /\ LET w == StrictItems(c.fw) IN Determined(w, ValOf(c.ty, x)) /\ Expressible(w, StrictItems(c.fr), ValOf(c.ty, x), c.ty)
=============================================================================
