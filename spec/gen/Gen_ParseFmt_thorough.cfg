SPECIFICATION Spec
CONSTANT Stride = 2
CONSTANT Thin = 1
CONSTANT Sample = 1
INVARIANT Emit
INVARIANT NonVacuous
CHECK_DEADLOCK FALSE
