SPECIFICATION Spec
CONSTANT Stride = 3
CONSTANT Thin = 3
CONSTANT Sample = 1
INVARIANT Emit
INVARIANT NonVacuous
CHECK_DEADLOCK FALSE
