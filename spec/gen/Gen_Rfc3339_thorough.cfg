SPECIFICATION GSpec
CONSTANT M = 401
CHECK_DEADLOCK FALSE
