SPECIFICATION GSpec
CONSTANT M = 101
INVARIANT Emit
CHECK_DEADLOCK FALSE
