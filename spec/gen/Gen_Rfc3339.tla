----------------------------- MODULE Gen_Rfc3339 -----------------------------
(* Replay direction of C10: TLC derives strings from the grammar (Gen over a  *)
(* sample of the field / choice lattice) and all their single-character edits *)
(* and prints each with the verdict of the specification - accepted with the  *)
(* denoted wall clock and offset, or not in the language.  The harness        *)
(* replayer (src/r/rfc3339.rs) feeds every string to parse_from_rfc3339.      *)
EXTENDS MC_Rfc3339, Json
Line(s) == IF Accepts(s) THEN LET v == Value(s) IN [s |-> s, ok |-> TRUE, n |-> v.n, secs |-> v.secs, frac |-> v.frac, off |-> v.off]
           ELSE [s |-> s, ok |-> FALSE]
GInit == /\ p = 0 /\ b \in { [k |-> "gen", t |-> t] : t \in Tuples \cup Diag }
         /\ PrintT(<<"REPLAY", ToJson(Line(Base))>>)
GNext == /\ p = 0 /\ b' = b /\ p' \in 1..(Len(Base) + 1)
         /\ \A e \in EditsAt(Base, p') : PrintT(<<"REPLAY", ToJson(Line(e))>>)
GSpec == GInit /\ [][GNext]_<<b, p>>
=============================================================================
