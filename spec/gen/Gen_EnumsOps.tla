---------------------------- MODULE Gen_EnumsOps ----------------------------
(***************************************************************************)
(* Replay direction for C19 (ii)-(iv): every operation of Enums on its     *)
(* whole domain with the specification's result, one REPLAY line per case: *)
(*   wd    7       succ, pred, the four numberings, both names              *)
(*   wd2   49      days_since                                               *)
(*   mo    12      succ, pred, number_from_month, names                     *)
(*   set   128     first, last, len, is_empty, single_day, Display, iter    *)
(*                 from Monday                                              *)
(*   day   128 x 7 contains, insert, remove (result and report), iter(start)*)
(*   pair  128^2   union, intersection, difference, symmetric difference,   *)
(*                 is_subset (both directions), equality                    *)
(*   num   ~4500   the number corpus through every integer type            *)
(*   text  ~4200   the string corpus through both FromStr                   *)
(* Each case is one initial state; the invariant prints it.                 *)
(***************************************************************************)
EXTENDS Gen_EnumsCorpus, TLC, Json
VARIABLE c
Sq(S) == WsIter(S, 0)                             \* a set is printed as its ascending sequence
Init == \/ \E x \in Days : c = [k |-> "wd", d |-> x]
        \/ \E x \in Days, y \in Days : c = [k |-> "wd2", d |-> x, e |-> y]
        \/ \E m \in Months : c = [k |-> "mo", m |-> m]
        \/ \E S \in WdSets : c = [k |-> "set", a |-> S]
        \/ \E S \in WdSets, x \in Days : c = [k |-> "day", a |-> S, d |-> x]
        \/ \E S \in WdSets, T \in WdSets : c = [k |-> "pair", a |-> S, b |-> T]
        \/ \E n \in NumCases : c = [k |-> "num", ty |-> n[1], v |-> n[2]]
        \/ \E s \in TextCorpus : c = [k |-> "text", s |-> s]
Next == UNCHANGED c
Spec == Init /\ [][Next]_c
Line ==
  CASE c.k = "wd" -> [k |-> "wd", d |-> c.d, succ |-> WdSucc(c.d), pred |-> WdPred(c.d),
                      number_from_monday |-> NumberFromMonday(c.d), number_from_sunday |-> NumberFromSunday(c.d),
                      num_days_from_monday |-> NumDaysFromMonday(c.d), num_days_from_sunday |-> NumDaysFromSunday(c.d),
                      display |-> WdShortName(c.d), long |-> WdLongName(c.d)]
    [] c.k = "wd2" -> [k |-> "wd2", d |-> c.d, e |-> c.e, days_since |-> DaysSince(c.d, c.e)]
    [] c.k = "mo" -> [k |-> "mo", m |-> c.m, succ |-> MoSucc(c.m), pred |-> MoPred(c.m), number_from_month |-> NumberFromMonth(c.m),
                      name |-> MoLongName(c.m), short |-> MoShortName(c.m)]
    [] c.k = "set" -> [k |-> "set", a |-> Sq(c.a), first |-> WsFirst(c.a), last |-> WsLast(c.a), len |-> WsLen(c.a), is_empty |-> WsIsEmpty(c.a),
                       single_day |-> WsSingleDay(c.a), display |-> WsDisplay(c.a)]
    [] c.k = "day" -> [k |-> "day", a |-> Sq(c.a), d |-> c.d, contains |-> WsContains(c.a, c.d),
                       insert |-> Sq(WsInsert(c.a, c.d).set), inserted |-> WsInsert(c.a, c.d).r,
                       remove |-> Sq(WsRemove(c.a, c.d).set), removed |-> WsRemove(c.a, c.d).r,
                       iter |-> WsIter(c.a, c.d), single |-> Sq(WsSingle(c.d))]
    [] c.k = "pair" -> [k |-> "pair", a |-> Sq(c.a), b |-> Sq(c.b), union |-> Sq(WsUnion(c.a, c.b)), intersection |-> Sq(WsInter(c.a, c.b)),
                        difference |-> Sq(WsDiff(c.a, c.b)), symmetric_difference |-> Sq(WsSymDiff(c.a, c.b)),
                        is_subset |-> WsIsSubset(c.a, c.b), is_superset |-> WsIsSubset(c.b, c.a), eq |-> (c.a = c.b)]
    [] c.k = "num" -> [k |-> "num", ty |-> c.ty, v |-> c.v, wd |-> WdFromNum(c.v), mo |-> MoFromNum(c.v)]
    [] c.k = "text" -> [k |-> "text", s |-> c.s, wd |-> WdFromStr(c.s), mo |-> MoFromStr(c.s)]
Emit == PrintT(<<"REPLAY", ToJson(Line)>>)
=============================================================================
