------------------------------ MODULE Gen_Tzif ------------------------------
(* Replay direction for C05 and C16: TLC builds zone models step by step      *)
(* (transition times from a pool with 64-bit extremes and adjacent seconds,   *)
(* types incl. abbreviation-only and DST-flag-only changes, an optional       *)
(* footer that agrees with the last type, versions 1-3), encodes each with    *)
(* the specification's own writer and prints                                  *)
(*    (model, version, bytes, class, expected answers of the dense query set) *)
(* as one REPLAY line.  The harness replayer feeds the bytes to chrono's      *)
(* reader, compares the structure and asks every query.                       *)
EXTENDS Tzif, TLC, Json
CONSTANT MaxTrans
VARIABLES tl, ver, want, trans, rule, phase
vars == <<tl, ver, want, trans, rule, phase>>
T(n) == FromInt(n)
Two31 == Add(T(2147483647), One)
Two40 == Mul(T(1048576), T(1048576))
Two59 == Neg(MinTime)
Two62 == MulSmall(Two59, 8)
TimePool == << I64Min, Add(I64Min, One), Neg(Two62), Sub(MinTime, One), MinTime, Sub(MinUtc, One), MinUtc, Neg(Add(Two31, One)), Neg(Two31),
               T(-2000000000), T(-1000000000), T(-86400), T(-3600), T(-1), T(0), T(1), T(2), T(3600), T(86400), T(954032400), T(972781200), T(1000000000),
               T(1711846800), T(1729990800), T(2147483647), Two31, Add(Two31, T(7)), Two40, MaxUtc, Add(MaxUtc, One), Two62, Sub(I64Max, T(10)), Sub(I64Max, One), I64Max >>
N(a, b, c) == <<a, b, c>>
UTC  == Ty(0, FALSE, N(85, 84, 67))
GMT  == Ty(0, FALSE, N(71, 77, 84))
BST  == Ty(3600, TRUE, N(66, 83, 84))
BSTs == Ty(3600, FALSE, N(66, 83, 84))              \* British Standard Time 1968-71: same offset and name, flag differs
CET  == Ty(3600, FALSE, N(67, 69, 84))
CEST == Ty(7200, TRUE, <<67, 69, 83, 84>>)
LMT  == Ty(3208, FALSE, N(76, 77, 84))
M12  == Ty(-43200, FALSE, N(45, 49, 50))
M1s  == Ty(-1, FALSE, N(65, 65, 65))
P530 == Ty(19800, FALSE, <<43, 48, 53, 51, 48>>)
P14  == Ty(50400, FALSE, N(43, 49, 52))
PMAX == Ty(86399, TRUE, N(88, 88, 88))
HI   == Ty(93599, FALSE, <<72, 73, 71, 72, 49, 50>>)
LO   == Ty(-89999, TRUE, N(76, 79, 87))
TypeLists == << <<UTC>>, <<LMT, CET, CEST>>, <<M12, M1s, GMT, BST, P530, P14, PMAX>>, <<GMT, BST, BSTs, CET>>, <<LMT, HI, LO, UTC>> >>
RuleCET == AltRule(CET, CEST, DayM(3, 5, 0), 7200, DayM(10, 5, 0), 10800)
RuleGB  == AltRule(GMT, BST, DayM(3, 5, 0), 3600, DayM(10, 5, 0), 7200)
RuleV3  == AltRule(CET, CEST, DayM(3, 5, 0), -3600, DayM(10, 5, 0), 93600)
RuleSouth == AltRule(P530, PMAX, DayJ(300), 0, DayZ(59), 86400)
AltPool == <<RuleCET, RuleGB, RuleV3, RuleSouth>>
Types == TypeLists[tl]
Z == [trans |-> trans, types |-> Types, rule |-> rule]
LastT == trans[Len(trans)].t
LastTy == Types[trans[Len(trans)].ty]
GoodAbbr(a) == Len(a) >= 3 /\ Len(a) <= 6 /\ \A q \in 1..Len(a) : IsAlnumPM(a[q])
\* footers a conforming writer may add: none; the last type as a fixed rule; a rule that yields the last type at the last transition
Footers == {NoRule}
   \cup (IF trans # <<>> /\ ~LastTy.dst /\ GoodAbbr(LastTy.abbr) THEN {FixedRule(LastTy)} ELSE {})
   \cup (IF trans = <<>> /\ ~Types[1].dst THEN {FixedRule(Types[1])} ELSE {})
   \cup (IF trans # <<>> THEN { AltPool[i] : i \in { j \in 1..Len(AltPool) : SameTy(RuleTypeAt(AltPool[j], PairOfBig(LastT)), LastTy) } } ELSE {})
Init == tl \in 1..Len(TypeLists) /\ ver \in 1..3 /\ want \in 0..MaxTrans /\ trans = <<>> /\ rule = NoRule /\ phase = "grow"
Grow == /\ phase = "grow" /\ Len(trans) < want
        /\ \E i \in 1..Len(TimePool), ty \in 1..Len(Types) :
              /\ (trans # <<>> => Lt(LastT, TimePool[i]))
              /\ (ver = 1 => FitsI32(TimePool[i]))
              /\ trans' = Append(trans, [t |-> TimePool[i], ty |-> ty])
        /\ UNCHANGED <<tl, ver, want, rule, phase>>
\* the zone is complete when it has the wanted number of transitions (or the pool has no later time left)
Stop == /\ phase = "grow" /\ phase' = "foot" /\ UNCHANGED <<tl, ver, want, trans, rule>>
        /\ (Len(trans) = want \/ ~ENABLED Grow)
Foot == /\ phase = "foot" /\ phase' = "emit"
        /\ rule' \in (IF ver = 1 THEN {NoRule} ELSE { r \in Footers : NeedsV3(r) => ver = 3 })
        /\ UNCHANGED <<tl, ver, want, trans>>
\* --- the dense query set of C05 with the answers of the specification ----------------------------------------------------
Img(k) == LET a == TypeBefore(Z, k).off  b == TypeAfter(Z, k).off IN
          <<Add(trans[k].t, T(IF a < b THEN a ELSE b)), Add(trans[k].t, T(IF a < b THEN b ELSE a))>>
Meet(p, q) == Leq(p[1], q[2]) /\ Leq(q[1], p[2])
Inside(L, p) == Leq(p[1], L) /\ Leq(L, p[2])
\* the wall time lies in the wall-clock image of a transition whose image overlaps that of another transition
Ov(L) == \E i, j \in 1..Len(trans) : i # j /\ Meet(Img(i), Img(j)) /\ (Inside(L, Img(i)) \/ Inside(L, Img(j)))
\* the same between the last table transition and the transitions of the footer rule (chrono evaluates the rule for a wall
\* time without looking at the table): everything relative to L, in seconds, so that the arithmetic stays native
OvRule(L) ==
   /\ rule.k = "alt" /\ trans # <<>>
   /\ LET d == Sub(LastT, L) IN Small(d) /\ ToInt(d) > -40000000 /\ ToInt(d) < 40000000
   /\ LET dT == ToInt(Sub(LastT, L))
          n == Len(trans)
          a == TypeBefore(Z, n).off  b == TypeAfter(Z, n).off
          tabImg == <<dT + (IF a < b THEN a ELSE b), dT + (IF a < b THEN b ELSE a)>>
          Lp == PairOfBig(L)
          y == YearOfDay(Lp[1])
          rel(p) == (p[1] - Lp[1]) * SPD + (p[2] - Lp[2])
          so == rule.std.off  do == rule.dst.off
          lo == IF so < do THEN so ELSE do  hi == IF so < do THEN do ELSE so
          ruleImgs == { <<rel(StartUtc(rule, yy)) + lo, rel(StartUtc(rule, yy)) + hi>> : yy \in (y - 1)..(y + 1) }
                      \cup { <<rel(EndUtc(rule, yy)) + lo, rel(EndUtc(rule, yy)) + hi>> : yy \in (y - 1)..(y + 1) }
          meet(p, q) == p[1] <= q[2] /\ q[1] <= p[2]
          has0(p) == p[1] <= 0 /\ 0 <= p[2] IN
      \/ \E r \in ruleImgs : meet(r, tabImg) /\ (has0(r) \/ has0(tabImg))
      \/ \E r1, r2 \in ruleImgs : r1 # r2 /\ meet(r1, r2) /\ (has0(r1) \/ has0(r2))
Instants == { I64Min, Zero, I64Max, MinUtc, MaxUtc, T(1700000000) }
            \cup UNION { { Add(trans[k].t, T(d)) : d \in {-1, 0, 1} } : k \in 1..Len(trans) }
Walls == { Zero, T(1700000000), MinUtc, MaxUtc }
         \cup UNION { { Add(trans[k].t, T(o + d)) : o \in {TypeBefore(Z, k).off, TypeAfter(Z, k).off}, d \in {-1, 0, 1} } : k \in 1..Len(trans) }
         \cup { Add(trans[k].t, T((TypeBefore(Z, k).off + TypeAfter(Z, k).off) \div 2)) : k \in 1..Len(trans) }
SetToSeq(S) == LET RECURSIVE F(_)
                   F(X) == IF X = {} THEN <<>> ELSE LET x == CHOOSE v \in X : TRUE IN <<x>> \o F(X \ {x})
               IN F(S)
AtQuery(u) == LET i == IndexOf(Z, u)  ty == TypeAtIdx(Z, u, i) IN
   [k |-> "at", t |-> u, off |-> ty.off, dst |-> ty.dst, abbr |-> ty.abbr,
    \* an answer is required for every instant a date-time can hold; beyond that chrono may report an error instead
    must |-> Representable(u)]
LocalQuery(L) == LET cand == CandOf(Z, L)  out == OutcomeOf(ValidOffsets(Z, L, cand)) IN
   [k |-> "local", t |-> L, res |-> out.k, o1 |-> out.o1, o2 |-> out.o2,
    \* judged unless: the open boundary second; three or more candidates; a rule outside C05's quantifier
    judge |-> /\ ~OpenBoundary(Z, L, cand) /\ Cardinality(ValidOffsets(Z, L, cand)) <= 2
              /\ ((rule.k = "alt" /\ \E j \in 1..Len(cand) : RuleGoverns(Z, cand[j].i)) => RuleInScope(rule, YearOfDay(PairOfBig(L)[1]))),
    ov |-> Ov(L) \/ OvRule(L)]
InI64(x) == FitsI64(x)
Queries == SetToSeq({ AtQuery(u) : u \in { v \in Instants : InI64(v) } })
           \o SetToSeq({ LocalQuery(L) : L \in { w \in Walls : Representable(w) } })
Emit == /\ phase = "emit" /\ phase' = "done" /\ UNCHANGED <<tl, ver, want, trans, rule>>
        /\ Encodable(Z, ver)
        /\ LET b == Encode(Z, ver) IN
           PrintT(<<"REPLAY", ToJson([zone |-> Z, ver |-> ver, bytes |-> b, class |-> Classify(b).class, q |-> Queries])>>)
Next == Grow \/ Stop \/ Foot \/ Emit
Spec == Init /\ [][Next]_vars
=============================================================================
