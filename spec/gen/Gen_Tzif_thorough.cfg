SPECIFICATION Spec
CONSTANT MaxTrans = 4
CHECK_DEADLOCK FALSE
