---------------------------- MODULE Gen_EnumsIter ----------------------------
(***************************************************************************)
(* Replay direction for C19 (i): the double-ended weekday-set iterator of   *)
(* Enums as a state machine whose history records the observable behaviour. *)
(* TLC explores every interleaving of `next` / `next_back` for every (set,  *)
(* start) and prints each maximal behaviour - sum_k C(7,k) 2^k = 3^7 per    *)
(* start day, 15 309 in all - as one REPLAY line; the harness steps the     *)
(* real iterator and compares the returned day, `len()` and what a clone    *)
(* of the iterator still yields after every step.                           *)
(***************************************************************************)
EXTENDS Enums, TLC, Json
VARIABLES set0, it, hist, done
vars == <<set0, it, hist, done>>
Obs(op, s) == [op |-> op, r |-> s.r, len |-> ItLen(s.it), rest |-> ItRest(s.it)]
Init == /\ set0 \in WdSets /\ \E start \in Days : it = ItNew(set0, start)
        /\ hist = <<>> /\ done = FALSE
NextF == /\ ~done /\ it.rem # {} /\ LET s == ItNext(it) IN it' = s.it /\ hist' = Append(hist, Obs("next", s))
         /\ UNCHANGED <<set0, done>>
NextB == /\ ~done /\ it.rem # {} /\ LET s == ItNextBack(it) IN it' = s.it /\ hist' = Append(hist, Obs("next_back", s))
         /\ UNCHANGED <<set0, done>>
\* exhausted: both ends give None, again and again (the iterator is fused)
Finish == /\ ~done /\ it.rem = {} /\ done' = TRUE
          /\ hist' = hist \o <<Obs("next", ItNext(it)), Obs("next_back", ItNextBack(it)), Obs("next", ItNext(it))>>
          /\ UNCHANGED <<set0, it>>
Next == NextF \/ NextB \/ Finish
Spec == Init /\ [][Next]_vars
\* C19 on the behaviours themselves: every member exactly once
VisitedOnce == done => /\ { hist[i].r : i \in 1..(Len(hist) - 3) } = set0 /\ Len(hist) - 3 = Cardinality(set0)
                       /\ \A i \in (Len(hist) - 2)..Len(hist) : hist[i].r = NoEnum
\* one replayable behaviour per completed run
Emit == done => PrintT(<<"REPLAY", ToJson([k |-> "iter", set |-> WsIter(set0, 0), start |-> it.start, steps |-> hist])>>)
=============================================================================
