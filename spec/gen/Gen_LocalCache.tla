--------------------------- MODULE Gen_LocalCache ---------------------------
(***************************************************************************)
(* Replay direction of C18: TLC enumerates (or, with C18_SIM in the        *)
(* environment, samples by simulation) histories over the steps            *)
(*   setenv v | unset | touch | wait 0.2 s | wait 1.25 s | (wait 1.0 s)    *)
(*   | convert utc->local | convert local->utc | spawn a thread and convert *)
(* that end in a conversion and contain no two consecutive waits and no    *)
(* two consecutive writes of the environment.  Every step is the           *)
(* LocalCache action of the same name; the clock is LocalCache's quarter   *)
(* second: a short wait is one tick, the long one five.  Each history is   *)
(* printed as a REPLAY line whose conversion steps carry the zone (`exp`)   *)
(* and the outcome (`obs`, from TzWorld) the SPECIFICATION says must be    *)
(* observed.  A conversion whose nominal distance to the last check is in  *)
(* the fuzzy band 0.9 .. 1.1 s may go either way: the generator branches,  *)
(* the history is printed once per branch and such steps are marked `band`. *)
(* tools/propdefs/c18.py runs every history in its own tzchild process.    *)
(***************************************************************************)
EXTENDS LocalCache, TzWorld, Json, IOUtils

CONSTANTS GenWaits,      \* the waits: set of [ms, ticks]
          MaxDepth,      \* longest history
          SimTargets,    \* lengths of the sampled histories in simulation mode
          WithSpawn      \* whether SpawnAndConvert is a step

VARIABLES hist,          \* the history so far: sequence of step records
          target         \* 0: emit every history that ends in a conversion; n: emit at length n only (simulation)
gvars == <<vars, hist, target>>

\* the families of histories (selected by the cfg files)
MainVals  == {"absA", "colonB", "name", "rule", "empty", "garbage"}   \* file path, `:`path, zone name, POSIX rule, empty, garbage
NsVals    == {"absA", "garbage", "empty"}                             \* in the private namespace: a non-UTC system zone that is replaced
NoSysVals == {"absA", "garbage", "empty"}                             \* no /etc/localtime at all: "... and finally UTC"
MoreVals  == {"colonName", "fixedF", "colonMissing", "missing", "badfile", "colonRule"}
PadVals   == {"rule", "colonFullRule", "absA", "preAbsA", "postAbsA", "preColonB", "blank"}   \* X vs :X for a rule X; blank-padded paths
BandVals  == {"absA", "colonB"}
SysPlain  == {<<"UTC">>}                \* the host: /etc/localtime -> Etc/UTC (checked by the orchestrator at run time)
SysNs     == {<<"S1", "S2">>}
SysNone   == {<<NoZone>>}
Waits2    == {[ms |-> 200, ticks |-> 1], [ms |-> 1250, ticks |-> 5]}
Waits3    == Waits2 \cup {[ms |-> 1000, ticks |-> 4]}                 \* 1.0 s: inside the fuzzy band
WaitsBand == {[ms |-> 200, ticks |-> 1], [ms |-> 1000, ticks |-> 4]}
WaitsDeep == {[ms |-> 600, ticks |-> 3], [ms |-> 1250, ticks |-> 5]}   \* a tick is 250 ms: waits are rounded UP, so that "more than
                                                                       \* 1.1 s" in ticks implies at least 1 s of real sleeping
DeepVals  == {"absA", "colonB"}
UtcOnly   == {"utc"}
Sim678 == {6, 7, 8}
Sim45 == {4, 5}
Sim34 == {3, 4}
Sim3  == {3}
Sim4  == {4}

TickMs == 250
BandLoMs == 900
BandHiMs == 1100
GenThreads == {"main", "new"}
SimMode == "C18_SIM" \in DOMAIN IOEnv

GInit == /\ Init /\ env = Unset /\ hist = <<>>
         /\ target \in (IF SimMode THEN SimTargets ELSE {0})

LastOp   == IF hist = <<>> THEN "none" ELSE hist[Len(hist)].op
IsWrite(o) == o \in {"setenv", "unset", "touch"}
Room     == Len(hist) < MaxDepth /\ (target = 0 \/ Len(hist) < target)
MustConv == target # 0 /\ Len(hist) = target - 1
Log(r)   == hist' = Append(hist, r) /\ UNCHANGED target

GSetEnv(v) == /\ Room /\ ~MustConv /\ ~IsWrite(LastOp)
              /\ SetEnvAt(v, now) /\ UNCHANGED now /\ Log([op |-> "setenv", v |-> v])
GUnset     == /\ Room /\ ~MustConv /\ ~IsWrite(LastOp)
              /\ SetEnvAt(Unset, now) /\ UNCHANGED now /\ Log([op |-> "unset"])
GTouch     == /\ Room /\ ~MustConv /\ ~IsWrite(LastOp)
              /\ Touch /\ Log([op |-> "touch", ver |-> ltver + 1])
GWait(w)   == /\ Room /\ ~MustConv /\ LastOp # "wait"
              /\ Advance(w.ticks) /\ Log([op |-> "wait", ms |-> w.ms])

ConvRec(d, thr, band) ==
  LET o == lastObs'[1] IN
  [op |-> "conv", dir |-> d, thr |-> thr, exp |-> o.zone, obs |-> Obs(o.zone, d), band |-> band,
   \* the statement itself, with the band: more than 1.1 s after the last change the zone must be the named one
   stmt |-> /\ ((now - changedAt) * TickMs > BandHiMs => o.zone \in o.allowed)
            /\ FreshOnNewThreadObs(o) /\ OneZoneObs(o)]
GConv(d) == /\ Room
            /\ LET c == cache["main"]
                   ms == (now - c.last) * TickMs
                   mayReuse == ms <= BandHiMs
                   mayRefresh == ms >= BandLoMs
               IN /\ ConvCore("main", c, d, now, mayReuse, mayRefresh)
                  /\ Log(ConvRec(d, "main", c.init /\ mayReuse /\ mayRefresh))
            /\ UNCHANGED now
\* SpawnAndConvert: the direction alternates with the position so that both are covered
GSpawnConv == /\ Room /\ WithSpawn
              /\ LET d == IF Len(hist) % 2 = 0 THEN "utc" ELSE "local" IN
                 /\ ConvCore("new", NoCache, d, now, FALSE, FALSE)
                 /\ Log(ConvRec(d, "new", FALSE))
              /\ UNCHANGED now

GNext == \/ \E v \in EnvVals : GSetEnv(v)
         \/ GUnset \/ GTouch
         \/ \E w \in GenWaits : GWait(w)
         \/ \E d \in Dirs : GConv(d)
         \/ GSpawnConv
GSpec == GInit /\ [][GNext]_gvars

\* every expectation handed to the replayer satisfies the property's own statement
StatementHolds == \A i \in 1..Len(hist) : hist[i].op = "conv" => hist[i].stmt

Emit == (LastOp = "conv" /\ (target = 0 \/ Len(hist) = target)) =>
           PrintT(<<"REPLAY", ToJson([sys |-> sys, steps |-> hist])>>)

\* the world the histories run in: the orchestrator builds the TZif files and the TZ strings from this line
ASSUME PrintT(<<"WORLD", ToJson([zones |-> WZones, vals |-> WVal, abs |-> WAbsFiles, rel |-> WRelFiles,
                                 t0 |-> T0Unix, probe |-> Probe, garbage |-> WGarbage])>>)
=============================================================================
