SPECIFICATION Spec
CONSTANT Stride = 9
CONSTANT Thin = 6
CONSTANT Sample = 2
INVARIANT Emit
INVARIANT NonVacuous
CHECK_DEADLOCK FALSE
