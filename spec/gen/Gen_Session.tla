----------------------------- MODULE Gen_Session -----------------------------
(***************************************************************************)
(* The client session against the library as ONE state machine (DESIGN     *)
(* section 2): registers holding abstract values, actions = public API     *)
(* calls whose effect is given by the abstract data type modules.  TLC     *)
(* explores it by simulation and prints each behaviour as a REPLAY line    *)
(* (the operations with their arguments and the result the SPECIFICATION   *)
(* prescribes); the harness replays every step on the real code and        *)
(* compares the projected result after each step (replay direction R).     *)
(* Values produced by one operation are the inputs of the next, so a value *)
(* that is subtly wrong - or internally inconsistent - after one call is   *)
(* exposed by a later one.                                                 *)
(***************************************************************************)
EXTENDS DateTimeTz, Duration, TLC, Json
CONSTANT Depth
VARIABLES date,   \* a NaiveDate (day number)
          x,      \* a NaiveDateTime, also the UTC instant of the zone-aware value
          off,    \* the offset of the zone-aware view of x
          q,      \* a TimeDelta (BigInt nanoseconds)
          hist, steps
vars == <<date, x, off, q, hist, steps>>
Day == Mul1e9(FromInt(86400))
StartDates == { MinDay + 1, DayNumber(0, 3, 1), DayNumber(2000, 2, 29), DayNumber(2023, 1, 31), DayNumber(2024, 12, 31), MaxDay - 1 }
StartTimes == { [secs |-> 0, frac |-> 0], [secs |-> 86399, frac |-> 999999999], [secs |-> 86399, frac |-> 1500000000], [secs |-> 3599, frac |-> 1000000000], [secs |-> 45296, frac |-> 500] }
Offsets == { 0, 1, -1, 3600, -3600, 19800, 86399, -86399, 3630 }
Durs == { One, FromInt(-1), FromInt(999999999), FromInt(NS), FromInt(-NS), FromInt(1500000000), Mul1e9(FromInt(86399)), Day, Neg(Day), MulSmall(Day, 365), MulSmall(Day, -366),
          MulSmall(Day, 146097), Mul1e9(FromInt(-172800)), Add(Day, FromInt(500000000)) }
MonthKs == { 1, -1, 11, 12, -12, 13, 1200, -4800 }
DayKs == { 1, -1, 7, 28, 365, -366, 146097 }
Init == /\ date \in StartDates /\ \E t \in StartTimes : x = [n |-> date, secs |-> t.secs, frac |-> t.frac]
        /\ off \in Offsets /\ q \in { Zero, One, Day }
        /\ hist = <<[op |-> "start", date |-> date, x |-> x, off |-> off, q |-> q]>> /\ steps = 0
Log(e) == hist' = Append(hist, e) /\ steps' = steps + 1
Interior(n) == n > MinDay + 3 /\ n < MaxDay - 3             \* zone-aware wall-clock operations stay clear of the headroom (13.3)
KeepDate(r) == IF r = NoDate THEN date ELSE r
KeepX(r) == IF r = NoDT THEN x ELSE r
\* --- plain dates (C01, C03, C08)
DateSucc == date' = KeepDate(Succ(date)) /\ Log([op |-> "date.succ", r |-> Succ(date)]) /\ UNCHANGED <<x, off, q>>
DatePred == date' = KeepDate(Pred(date)) /\ Log([op |-> "date.pred", r |-> Pred(date)]) /\ UNCHANGED <<x, off, q>>
DateMonths == \E k \in MonthKs : LET r == AddMonths(date, FromInt(k)) IN date' = KeepDate(r) /\ Log([op |-> "date.months", k |-> k, r |-> r]) /\ UNCHANGED <<x, off, q>>
DateDays == \E k \in DayKs : LET r == AddDaysBig(date, FromInt(k)) IN date' = KeepDate(r) /\ Log([op |-> "date.days", k |-> k, r |-> r]) /\ UNCHANGED <<x, off, q>>
DateWith == \E fv \in { <<"day", 1>>, <<"day", 29>>, <<"day", 31>>, <<"month", 2>>, <<"month", 12>>, <<"ordinal", 60>>, <<"ordinal", 366>>, <<"year", 2024>>, <<"year", 1900>>, <<"year", -4>> } :
              LET r == WithDate(fv[1], date, FromInt(fv[2])) IN date' = KeepDate(r) /\ Log([op |-> "date.with", f |-> fv[1], v |-> fv[2], r |-> r]) /\ UNCHANGED <<x, off, q>>
DateAddQ == LET r == DateAddDur(date, q) IN date' = KeepDate(r) /\ Log([op |-> "date.add_q", r |-> r]) /\ UNCHANGED <<x, off, q>>
DateObs == Log([op |-> "date.obs", y |-> YearOfDay(date), m |-> MonthOfDay(date), d |-> DayOfMonth(date), o |-> OrdinalOf(date), wd |-> WeekdayOf(date),
                iy |-> IsoYearOf(date), iw |-> IsoWeekOf(date), leap |-> IsLeap(YearOfDay(date))]) /\ UNCHANGED <<date, x, off, q>>
\* --- moving between the registers
DateToX == x' = [x EXCEPT !.n = date] /\ Log([op |-> "x.set_date", r |-> [x EXCEPT !.n = date]]) /\ UNCHANGED <<date, off, q>>
XToDate == date' = x.n /\ Log([op |-> "date.from_x", r |-> x.n]) /\ UNCHANGED <<x, off, q>>
\* --- naive date-times (C03, C07)
XAdd == \E d \in Durs \cup {q} : LET r == AddDt(x, d) IN x' = KeepX(r) /\ Log([op |-> "x.add", d |-> d, r |-> r]) /\ UNCHANGED <<date, off, q>>
XSub == \E d \in Durs \cup {q} : LET r == SubDt(x, d) IN x' = KeepX(r) /\ Log([op |-> "x.sub", d |-> d, r |-> r]) /\ UNCHANGED <<date, off, q>>
XWith == \E fv \in { <<"hour", 0>>, <<"hour", 23>>, <<"minute", 59>>, <<"second", 59>>, <<"second", 0>>, <<"nanosecond", 0>>, <<"nanosecond", 1999999999>>, <<"nanosecond", 999999999>> } :
           LET t == WithField(fv[1], TimeOf(x), FromInt(fv[2]))
               r == IF t = NoTime THEN NoDT ELSE [n |-> x.n, secs |-> t.secs, frac |-> t.frac] IN
           x' = KeepX(r) /\ Log([op |-> "x.with", f |-> fv[1], v |-> fv[2], r |-> r]) /\ UNCHANGED <<date, off, q>>
XSince == LET other == [n |-> date, secs |-> 43200, frac |-> 0]  r == SinceDt(x, other) IN
          q' = (IF InRange(r) THEN r ELSE q) /\ Log([op |-> "x.since_date_noon", r |-> r]) /\ UNCHANGED <<date, x, off>>
\* --- durations (C06)
QOp == \E c \in { <<"add", 1>>, <<"add", 2>>, <<"sub", 1>>, <<"mul", 2>>, <<"mul", -3>>, <<"mul", 1000>>, <<"neg", 0>>, <<"abs", 0>> } :
         LET arg == IF c[2] = 1 THEN Day ELSE FromInt(999999999)
             r == CASE c[1] = "add" -> CAdd(q, arg) [] c[1] = "sub" -> CSub(q, arg) [] c[1] = "mul" -> CMul(q, FromInt(c[2])) [] c[1] = "neg" -> Neg(q) [] OTHER -> Abs(q) IN
         q' = (IF r = NoDur THEN q ELSE r) /\ Log([op |-> (CASE c[1] = "add" -> "q.add" [] c[1] = "sub" -> "q.sub" [] c[1] = "mul" -> "q.mul" [] c[1] = "neg" -> "q.neg" [] OTHER -> "q.abs"), k |-> c[2], r |-> r]) /\ UNCHANGED <<date, x, off>>
QObs == Log([op |-> "q.obs", secs |-> NumSeconds(q), sub |-> SubsecNanos(q), days |-> NumDays(q), text |-> Show(q)]) /\ UNCHANGED <<date, x, off, q>>
\* --- zone-aware view of x (C04, C08)
SetOff == \E o \in Offsets : off' = o /\ Log([op |-> "z.with_timezone", off |-> o, r |-> x]) /\ UNCHANGED <<date, x, q>>
ZObs == LET w == Wall(x, off) IN
        Log([op |-> "z.obs", y |-> YearOfDay(w.n), m |-> MonthOfDay(w.n), d |-> DayOfMonth(w.n), wd |-> WeekdayOf(w.n), h |-> w.secs \div 3600, mi |-> (w.secs \div 60) % 60, s |-> w.secs % 60, ns |-> w.frac])
        /\ UNCHANGED <<date, x, off, q>>
ZWith == Interior(x.n) /\ ~IsLeapDT(x) /\
         \E fv \in { <<"hour", 0>>, <<"hour", 23>>, <<"minute", 0>>, <<"second", 30>>, <<"day", 1>>, <<"day", 31>>, <<"month", 2>>, <<"ordinal", 366>>, <<"year", 2023>> } :
           LET r == TzWith(fv[1], x, off, FromInt(fv[2])) IN x' = KeepX(r) /\ Log([op |-> "z.with", f |-> fv[1], v |-> fv[2], r |-> r]) /\ UNCHANGED <<date, off, q>>
ZMonths == Interior(x.n) /\ \E k \in MonthKs : LET r == TzAddMonths(x, off, FromInt(k)) IN
           (IF r = NoDT THEN TRUE ELSE Interior(r.n)) /\ x' = KeepX(r) /\ Log([op |-> "z.months", k |-> k, r |-> r]) /\ UNCHANGED <<date, off, q>>
ZDays == Interior(x.n) /\ \E k \in DayKs : LET r == TzAddDays(x, off, FromInt(k)) IN
         (IF r = NoDT THEN TRUE ELSE Interior(r.n)) /\ x' = KeepX(r) /\ Log([op |-> "z.days", k |-> k, r |-> r]) /\ UNCHANGED <<date, off, q>>
Next == steps < Depth /\ (DateSucc \/ DatePred \/ DateMonths \/ DateDays \/ DateWith \/ DateAddQ \/ DateObs \/ DateToX \/ XToDate \/ XAdd \/ XSub \/ XWith \/ XSince
                          \/ QOp \/ QObs \/ SetOff \/ ZObs \/ ZWith \/ ZMonths \/ ZDays)
Spec == Init /\ [][Next]_vars
\* invariants of the session machine itself (the design-level statement of C06 / C04 over chains of operations)
RegistersValid == InDates(date) /\ IsDT(x) /\ InRange(q) /\ off \in Offsets
Emit == steps = Depth => PrintT(<<"REPLAY", ToJson([steps |-> hist])>>)
=============================================================================
