SPECIFICATION Spec
CONSTANT M = 4999
INVARIANT GenAccepted
INVARIANT Edits
INVARIANT WriteLaws
CHECK_DEADLOCK FALSE
