SPECIFICATION Spec
CONSTANT Mode = "thorough"
INVARIANT RoundTripZone
INVARIANT PrefixesMalformed
INVARIANT MutationsClassified
INVARIANT ParseShow
CHECK_DEADLOCK FALSE
