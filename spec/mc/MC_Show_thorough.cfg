SPECIFICATION Spec
CONSTANT Thorough = TRUE
INVARIANT RoundTrip
INVARIANT Laws
CHECK_DEADLOCK FALSE
