------------------------------ MODULE MC_Strftime ------------------------------
(* Bounded design check of Strftime (job D for C12): the statement of the    *)
(* property on the specification itself - composite specifiers equal their    *)
(* documented expansion, the week numbers agree with an independent counting  *)
(* definition, clock / fraction / offset fields obey their documented width,  *)
(* truncation and rounding rules - and anchors taken from the documentation   *)
(* table, its notes and the repository's doc tests.                           *)
EXTENDS Strftime, StrLit, FiniteSets, TLC
CONSTANT Windows,                \* set of <<first year, last year>>
         Thorough                \* BOOLEAN: the larger clock lattice
\* a state is one case: a day of the windows, a time of day, an offset, or an instant near the epoch
VARIABLE x
n == x.n
QuickWindows    == { <<0, 0>>, <<2007, 2010>>, <<9999, 10000>>, <<-262143, -262143>>, <<262142, 262142>>, <<-100, -99>> }
ThoroughWindows == { <<-30, 30>>, <<1960, 2080>>, <<9998, 10001>>, <<-10001, -9998>>, <<-262143, -262140>>, <<262139, 262142>> }
\* item lists of the format strings used in the invariants, tokenised once
DayFmts == {"%F", "%Y-%m-%d", "%v", "%e-%b-%Y", "%h", "%b", "%e", "%_d", "%D", "%m/%d/%y", "%x", "%a, %A", "%B", "%A", "%a", "%Y", "%C", "%y", "%g", "%-Y",
            "%q", "%m", "%d", "%j", "%U", "%W", "%G", "%V", "%u", "%w",
            "%T", "%H:%M:%S", "%X", "%R", "%H:%M", "%r", "%I:%M:%S %p", "%k", "%_H", "%l", "%_I", "%H", "%I", "%p", "%P", "%M", "%S", "%H%I%M%S",
            "%f", "%.f", "%9f", "%.9f", "%6f", "%.6f", "%3f", "%.3f", "%-f", "%_f", "%z", "%:z", "%::z", "%:::z", "%Z", "%#z",
            "%s", "%+", "%Y-%m-%dT%H:%M:%S%.f%:z", "%c", "%a %b %e %H:%M:%S %Y"}
ItemsOf == [str \in DayFmts |-> StrictItems(S(str))]
R(str, v) == RenderAll(IF str \in DayFmts THEN ItemsOf[str] ELSE StrictItems(S(str)), v)
Same(a, b, v) == R(a, v) = R(b, v) /\ R(a, v) # {}
The(set) == CHOOSE elem \in set : TRUE
Number(text) == NumAt(text, 1, Len(text))                  \* text is 1..9 digits
NumOf(str, v) == Number(The(R(str, v)))
\* --- date fields, every day of the windows
Composites == LET v == DateVal(n)  y == YearOfDay(n) IN
   /\ Same("%F", "%Y-%m-%d", v) /\ Same("%v", "%e-%b-%Y", v) /\ Same("%h", "%b", v) /\ Same("%e", "%_d", v)
   /\ (y >= 0 => Same("%D", "%m/%d/%y", v) /\ Same("%x", "%m/%d/%y", v))
   /\ R("%Y-%m-%d", v) = {DateText(n)}                                          \* the ISO 8601 date of Display
   /\ R("%a, %A", v) = {ShortDays[WeekdayOf(n) + 1] \o S(", ") \o LongDay(WeekdayOf(n))}
   /\ Take(The(R("%B", v)), 3) = The(R("%b", v)) /\ Take(The(R("%A", v)), 3) = The(R("%a", v))
Years == LET v == DateVal(n)  y == YearOfDay(n) IN
   /\ (y >= 0 /\ y <= 9999 => Len(The(R("%Y", v))) = 4 /\ NumOf("%Y", v) = y)
   /\ (y > 9999 => The(R("%Y", v)) = <<43>> \o DecNat(y))                       \* explicit sign after 9999 CE
   /\ (y < 0 => Take(The(R("%Y", v)), 1) = <<45>> /\ Len(The(R("%Y", v))) >= 5 /\ Number(Drop(The(R("%Y", v)), 1)) = -y)
   /\ (y >= 0 => NumOf("%C", v) * 100 + NumOf("%y", v) = y /\ Len(The(R("%y", v))) = 2)      \* quotient and remainder
   /\ (y >= 0 /\ y <= 9999 => Len(The(R("%C", v))) = 2)
   /\ (y < 0 => The(R("%C", v)) = <<45>> \o DecNat(-(y \div 100)) /\ (y \div 100) * 100 <= y /\ y < (y \div 100) * 100 + 100)   \* floor division
   /\ (IsoYearOf(n) >= 0 => NumOf("%g", v) = IsoYearOf(n) % 100)
   /\ R("%-Y", v) = {(IF y < 0 THEN <<45>> ELSE IF y > 9999 THEN <<43>> ELSE <<>>) \o DecNat(IF y < 0 THEN -y ELSE y)}
   /\ NumOf("%q", v) = (MonthOfDay(n) + 2) \div 3 /\ NumOf("%m", v) = MonthOfDay(n) /\ NumOf("%d", v) = DayOfMonth(n)
   /\ NumOf("%j", v) = n - DayNumber(y, 1, 1) + 1 /\ Len(The(R("%j", v))) = 3
\* the three week numberings, from their documented definitions by counting
WeekNumbers == LET v == DateVal(n)  y == YearOfDay(n)  jan1 == DayNumber(y, 1, 1)
                   thu == n - WeekdayOf(n) + 3 IN                                \* the Thursday of this Monday..Sunday week
   /\ NumOf("%U", v) = Cardinality({ k \in jan1..n : WeekdayOf(k) = 6 })         \* week 1 starts with the first Sunday
   /\ NumOf("%W", v) = Cardinality({ k \in jan1..n : WeekdayOf(k) = 0 })         \* ... the first Monday
   /\ (IsoYearOf(n) >= 0 /\ IsoYearOf(n) <= 9999 => NumOf("%G", v) = YearOfDay(thu))   \* week 1 = first week with >= 4 days
   /\ NumOf("%V", v) = (OrdinalOf(thu) - 1) \div 7 + 1
   /\ NumOf("%V", v) \in 1..53 /\ NumOf("%U", v) \in 0..53 /\ NumOf("%W", v) \in 0..53
   /\ Len(The(R("%U", v))) = 2 /\ Len(The(R("%W", v))) = 2 /\ Len(The(R("%V", v))) = 2
   /\ NumOf("%u", v) = WeekdayOf(n) + 1 /\ NumOf("%w", v) = NumOf("%u", v) % 7
\* --- clock, fraction, offset, timestamp: bounded sets, checked once
Times == { <<h * 3600 + m * 60 + s, f>> : h \in (IF Thorough THEN 0..23 ELSE {0, 1, 11, 12, 13, 23}), m \in (IF Thorough THEN {0, 34, 59} ELSE {34}), s \in {0, 59},
                                          f \in {0, 1, 999, 1000, 26490000, 999999999, 1000000000, 1026490708} }
Clock(t) == LET v == TimeVal(t[1], t[2])  h == t[1] \div 3600 IN
   /\ Same("%T", "%H:%M:%S", v) /\ Same("%X", "%H:%M:%S", v) /\ Same("%R", "%H:%M", v) /\ Same("%r", "%I:%M:%S %p", v)
   /\ Same("%k", "%_H", v) /\ Same("%l", "%_I", v)
   /\ NumOf("%H", v) = h /\ NumOf("%I", v) \in 1..12 /\ NumOf("%I", v) % 12 = h % 12
   /\ The(R("%p", v)) = (IF h < 12 THEN S("AM") ELSE S("PM")) /\ The(R("%P", v)) = LowerStr(The(R("%p", v)))
   /\ NumOf("%M", v) = (t[1] \div 60) % 60
   /\ NumOf("%S", v) = (t[1] % 60) + (IF t[2] >= NSu THEN 1 ELSE 0)              \* 60 during a leap second
   /\ Len(The(R("%H%I%M%S", v))) = 8
Fractions(t) == LET v == TimeVal(t[1], t[2])  f == t[2] % NSu  nine == The(R("%f", v))  auto == The(R("%.f", v)) IN
   /\ Len(nine) = 9 /\ Number(nine) = f                                           \* zero-padded to 9 (doc test)
   /\ R("%9f", v) = {nine} /\ R("%.9f", v) = {<<46>> \o nine}
   /\ R("%6f", v) = {Take(nine, 6)} /\ R("%.6f", v) = {<<46>> \o Take(nine, 6)}   \* fixed length: truncation, never rounding
   /\ R("%3f", v) = {Take(nine, 3)} /\ R("%.3f", v) = {<<46>> \o Take(nine, 3)}
   /\ R("%-f", v) = {DecNat(f)} /\ Len(The(R("%_f", v))) = 9
   \* %.f: 0, 3, 6 or 9 digits, the fewest that lose nothing
   /\ Len(auto) \in {0, 4, 7, 10}
   /\ (auto = <<>> <=> f = 0)
   /\ (auto # <<>> => auto = <<46>> \o Take(nine, Len(auto) - 1) /\ \A i \in Len(auto)..9 : nine[i] = 48)
   /\ (Len(auto) > 4 => \E i \in (Len(auto) - 3)..(Len(auto) - 1) : nine[i] # 48)
Offsets == (-91..91) \cup { s * (h * 3600 + m * 60 + d) : s \in {-1, 1}, h \in {1, 9, 23}, m \in {0, 30, 59}, d \in {0, 1, 29, 30, 31, 59} }
OffsetRules(off) == LET v == DtVal(730674, 0, 0, off)  a == IF off < 0 THEN -off ELSE off
                        z == The(R("%z", v))  cz == The(R("%:z", v))  sz == The(R("%::z", v))  hz == The(R("%:::z", v))
                        mins == NumAt(z, 2, 2) * 60 + NumAt(z, 4, 2) IN
   /\ Len(z) = 5 /\ z[1] = (IF off < 0 THEN 45 ELSE 43)
   /\ 2 * (mins * 60 - a) <= 60 /\ 2 * (a - mins * 60) < 60 /\ NumAt(z, 4, 2) < 60          \* nearest minute, :30 rounds up
   /\ cz = Take(z, 3) \o <<58>> \o Drop(z, 3)                                                \* %:z = %z with a colon
   /\ Len(sz) = 9 /\ sz[1] = z[1] /\ NumAt(sz, 2, 2) * 3600 + NumAt(sz, 5, 2) * 60 + NumAt(sz, 8, 2) = a /\ sz[4] = 58 /\ sz[7] = 58
   /\ Len(hz) = 3 /\ hz[1] = z[1] /\ NumAt(hz, 2, 2) = a \div 3600                           \* hours only: truncated
   /\ R("%Z", v) = {OffsetDisplay(off), cz}
   /\ R("%#z", v) = {}                                                                       \* parsing only
\* %s counts non-leap seconds since 1970-01-01T00:00:00Z of the instant: compare BigInt with native arithmetic near the epoch
TimestampRule(d, t, off) == LET v == DtVal(719163 + d, t[1], t[2], off)  ts == TimestampOf(v) IN
   /\ Len(ts.mag) <= 4 /\ ToInt(ts) = d * 86400 + t[1] - off
   /\ R("%s", v) = {(IF ToInt(ts) < 0 THEN <<45>> ELSE <<>>) \o DecNat(IF ToInt(ts) < 0 THEN -ToInt(ts) ELSE ToInt(ts))}
   /\ R("%+", v) = R("%Y-%m-%dT%H:%M:%S%.f%:z", v) /\ R("%+", v) # {}
   /\ R("%c", v) = R("%a %b %e %H:%M:%S %Y", v) /\ R("%c", v) # {}
Init == x \in { [k |-> "day", n |-> DaysBeforeYear(y) + 1] : y \in UNION { w[1]..w[2] : w \in Windows } }
             \cup { [k |-> "time", t |-> t] : t \in Times } \cup { [k |-> "off", off |-> o] : o \in Offsets }
             \cup { [k |-> "ts", d |-> d, t |-> t, off |-> o] : d \in {-24000, -366, -1, 0, 1, 365, 11511, 24000}, t \in { u \in Times : u[1] % 7 = 0 }, o \in {0, -1, 34230, -86399} }
Next == x.k = "day" /\ OrdinalOf(x.n) = 1 /\ x' \in { [k |-> "day", n |-> m] : m \in (x.n + 1)..DaysBeforeYear(YearOfDay(x.n) + 1) }
Spec == Init /\ [][Next]_x
DayInv == x.k = "day" => Composites /\ Years /\ WeekNumbers
TimeInv == x.k = "time" => Clock(x.t) /\ Fractions(x.t)
OffsetInv == x.k = "off" => OffsetRules(x.off)
TimestampInv == x.k = "ts" => TimestampRule(x.d, x.t, x.off)
\* far from the epoch: the BigInt value is consistent with day and second of day
ASSUME \A k \in {MinDay, -1, 0, MaxDay} : LET v == NdtVal(k, 86399, 0)  qr == DivModSmall(TimestampOf(v), 86400) IN
          qr[2] = 86399 /\ Small(qr[1]) /\ ToInt(qr[1]) = k - 719163
\* --- a field the value does not have, an unknown specifier or a misplaced modifier makes formatting fail
ASSUME \A str \in {"%Y", "%C", "%y", "%m", "%b", "%B", "%h", "%d", "%e", "%a", "%A", "%w", "%u", "%U", "%W", "%G", "%g", "%V", "%j", "%q", "%D", "%x", "%F", "%v"} :
          R(str, TimeVal(0, 0)) = {} /\ R(str, DateVal(730674)) # {}
ASSUME \A str \in {"%H", "%k", "%I", "%l", "%P", "%p", "%M", "%S", "%f", "%.f", "%.3f", "%.6f", "%.9f", "%3f", "%6f", "%9f", "%R", "%T", "%X", "%r"} :
          R(str, DateVal(730674)) = {} /\ R(str, TimeVal(0, 0)) # {}
ASSUME \A str \in {"%Z", "%z", "%:z", "%::z", "%:::z", "%+"} : R(str, NdtVal(730674, 0, 0)) = {} /\ R(str, DtVal(730674, 0, 0, 0)) # {}
ASSUME \A str \in {"%s", "%c"} : R(str, DateVal(730674)) = {} /\ R(str, TimeVal(0, 0)) = {} /\ R(str, NdtVal(730674, 0, 0)) # {}
ASSUME \A str \in {"%Q", "%", "%-D", "%_T", "%0c", "%-b", "%0Z", "%#z", "%#Y", "%.4f", "ok %!", "%Y-%m-%d %E"} : R(str, DtVal(730674, 0, 0, 0)) = {}
ASSUME R("literal %% text%t%n", TimeVal(0, 0)) = {S("literal % text") \o <<9, 10>>}          \* literal text is copied unchanged
\* --- anchors: the documentation table (value 2001-07-08T00:34:60.026490+09:30) ...
Doc == WallOf(DayNumber(2001, 7, 7), 15 * 3600 + 4 * 60 + 59, 1026490000, 34200)
ASSUME Doc = DtVal(DayNumber(2001, 7, 8), 34 * 60 + 59, 1026490000, 34200)
ASSUME \A p \in { <<"%Y", "2001">>, <<"%C", "20">>, <<"%y", "01">>, <<"%q", "3">>, <<"%m", "07">>, <<"%b", "Jul">>, <<"%B", "July">>, <<"%h", "Jul">>,
                  <<"%d", "08">>, <<"%e", " 8">>, <<"%a", "Sun">>, <<"%A", "Sunday">>, <<"%w", "0">>, <<"%u", "7">>, <<"%U", "27">>, <<"%W", "27">>,
                  <<"%G", "2001">>, <<"%g", "01">>, <<"%V", "27">>, <<"%j", "189">>, <<"%D", "07/08/01">>, <<"%x", "07/08/01">>, <<"%F", "2001-07-08">>,
                  <<"%v", " 8-Jul-2001">>, <<"%H", "00">>, <<"%k", " 0">>, <<"%I", "12">>, <<"%l", "12">>, <<"%P", "am">>, <<"%p", "AM">>, <<"%M", "34">>,
                  <<"%S", "60">>, <<"%f", "026490000">>, <<"%.f", ".026490">>, <<"%.3f", ".026">>, <<"%.6f", ".026490">>, <<"%.9f", ".026490000">>,
                  <<"%3f", "026">>, <<"%6f", "026490">>, <<"%9f", "026490000">>, <<"%R", "00:34">>, <<"%T", "00:34:60">>, <<"%X", "00:34:60">>,
                  <<"%r", "12:34:60 AM">>, <<"%z", "+0930">>, <<"%:z", "+09:30">>, <<"%::z", "+09:30:00">>, <<"%:::z", "+09">>,
                  <<"%c", "Sun Jul  8 00:34:60 2001">>, <<"%+", "2001-07-08T00:34:60.026490+09:30">>, <<"%s", "994518299">>, <<"%%", "%">>,
                  <<"  %Y%d%m%%%%%H%M%S", "  20010807%%003460">>, <<"%H:%P:%M%S%:::z", "00:am:3460+09">> } : R(p[1], Doc) = {S(p[2])}
ASSUME S("+09:30") \in R("%Z", Doc)
\* ... the padding modifier table (%j = 012, %-j = 12, %_j = " 12", %e = " 9", %0e = "09") ...
ASSUME LET v == DateVal(DayNumber(2001, 1, 12)) IN R("%j", v) = {S("012")} /\ R("%-j", v) = {S("12")} /\ R("%_j", v) = {S(" 12")}
ASSUME LET v == DateVal(DayNumber(2001, 7, 9)) IN R("%e", v) = {S(" 9")} /\ R("%0e", v) = {S("09")} /\ R("%-e", v) = {S("9")} /\ R("%d", v) = {S("09")}
\* ... note 1 (year -99 prints -1 with %C), the signed / short / long years of test_date_format ...
ASSUME R("%C", DateVal(DayNumber(-99, 1, 1))) = {S("-1")}
ASSUME \A p \in { <<12345, "+12345">>, <<1234, "1234">>, <<123, "0123">>, <<12, "0012">>, <<1, "0001">>, <<0, "0000">>, <<-1, "-0001">>, <<-12, "-0012">>,
                  <<-123, "-0123">>, <<-1234, "-1234">>, <<-12345, "-12345">> } : R("%Y", DateVal(DayNumber(p[1], 1, 1))) = {S(p[2])}
ASSUME R("%C", DateVal(DayNumber(12345, 1, 1))) = {S("123")} /\ R("%C,%y", DateVal(DayNumber(7, 1, 1))) = {S("00,07")}
ASSUME R("%G,%g,%U,%W,%V", DateVal(DayNumber(2007, 12, 31))) = {S("2008,08,52,53,01")}
ASSUME R("%G,%g,%U,%W,%V", DateVal(DayNumber(2010, 1, 3))) = {S("2009,09,01,00,53")}
ASSUME R("%Y,%C,%y,%G,%g;%m,%b,%h,%B;%q;%d,%e;%U,%W,%V;%a,%A,%w,%u;%j", DateVal(DayNumber(2012, 3, 4)))
         = {S("2012,20,12,2012,12;03,Mar,Mar,March;1;04, 4;10,09,09;Sun,Sunday,0,7;064")}
\* ... and the time / date-time examples of the formatting tests
ASSUME LET t == TimeVal(3 * 3600 + 5 * 60 + 7, 98765432) IN
          R("%H,%k,%I,%l,%P,%p;%S,%f,%.f;%.3f,%.6f,%.9f", t) = {S("03, 3,03, 3,am,AM;07,098765432,.098765432;.098,.098765,.098765432")}
ASSUME R("%S,%f,%.f", TimeVal(3 * 3600 + 5 * 60 + 7, 432100000)) = {S("07,432100000,.432100")}
ASSUME R("%S,%f,%.f", TimeVal(3 * 3600 + 5 * 60 + 7, 210000000)) = {S("07,210000000,.210")}
ASSUME R("%S,%f,%.f;%.3f", TimeVal(3 * 3600 + 5 * 60 + 7, 0)) = {S("07,000000000,;.000")}
ASSUME R("%r", TimeVal(13 * 3600 + 57 * 60 + 9, 0)) = {S("01:57:09 PM")} /\ R("%X", TimeVal(86399, 1000000000)) = {S("23:59:60")}
ASSUME LET v == NdtVal(DayNumber(2010, 9, 8), 7 * 3600 + 6 * 60 + 54, 321000000) IN R("%c", v) = {S("Wed Sep  8 07:06:54 2010")} /\ R("%s", v) = {S("1283929614")}
ASSUME LET v == NdtVal(DayNumber(2012, 6, 30), 86399, 1000000000) IN R("%c", v) = {S("Sat Jun 30 23:59:60 2012")} /\ R("%s", v) = {S("1341100799")}
ASSUME R("%Y-%m-%dT%H:%M:%S%z", DtVal(DayNumber(2014, 5, 7), 12 * 3600 + 34 * 60 + 56, 0, 0)) = {S("2014-05-07T12:34:56+0000")}
\* offsets with seconds: minutes are rounded to nearest, %::z keeps the seconds, %:::z truncates
ASSUME LET v == DtVal(730674, 0, 0, 34230) IN R("%z %:z %::z %:::z", v) = {S("+0931 +09:31 +09:30:30 +09")}
ASSUME LET v == DtVal(730674, 0, 0, -3629) IN R("%z %:z %::z %:::z", v) = {S("-0100 -01:00 -01:00:29 -01")}
ASSUME LET v == DtVal(730674, 0, 0, -29) IN R("%z", v) = {S("-0000")}
=============================================================================
