----------------------------- MODULE MC_Rfc3339 -----------------------------
(* Bounded design check of Rfc3339 (job D for C10).                         *)
(*  GenAccepted  every generated string is accepted with the denoted value  *)
(*  Edits        every single-character edit (delete, duplicate, replace,   *)
(*               insert, transpose; alphabet below) of a generated string   *)
(*               is accepted iff it is generable, with the same value       *)
(*               (the recogniser and the generator agree: double entry)     *)
(*  WriteLaws    the renderer's text is in the language, shows the fields   *)
(*               exactly (truncation), Z only on request and for offset 0,  *)
(*               and reads back as the value cut to the written precision   *)
EXTENDS Rfc3339, FiniteSets, TLC
CONSTANT M                      \* sampling modulus of the base strings (1 = full cross product)
VARIABLES b, p                  \* b: a base (index tuple or a value to write), p: edit position (0 = the string itself)
Ys   == <<0, 1900, 2000, 9999>>
MDs  == << <<1, 1>>, <<2, 28>>, <<12, 31>> >>
HMSs == << <<0, 0, 0>>, <<23, 59, 59>>, <<23, 59, 60>>, <<12, 30, 60>>, <<9, 5, 7>> >>
FDs  == << <<>>, <<5>>, <<0, 0, 1>>, <<9, 9, 9, 9, 9, 9>>, <<1, 2, 3, 4, 5, 6, 7, 8, 9>>, <<0, 0, 0, 0, 0, 0, 0, 0, 0, 9>>, <<9, 9, 9, 9, 9, 9, 9, 9, 9, 9, 9, 9>> >>
OFFs == << <<0, 0>>, <<0, 1>>, <<0, 59>>, <<1, 0>>, <<5, 30>>, <<9, 0>>, <<12, 45>>, <<14, 0>>, <<20, 2>>, <<23, 0>>, <<23, 59>> >>
SEPs == <<84, 116, 32>>
ZONEs == << [z |-> 90, sign |-> 43], [z |-> 122, sign |-> 43], [z |-> 0, sign |-> 43], [z |-> 0, sign |-> 45], [z |-> 0, sign |-> 8722] >>
Tuples == { t \in (1..4) \X (1..3) \X (1..5) \X (1..7) \X (1..11) \X (1..3) \X (1..5) :
            ((t[1] - 1) + 4 * (t[2] - 1) + 12 * (t[3] - 1) + 60 * (t[4] - 1) + 420 * (t[5] - 1) + 4620 * (t[6] - 1) + 13860 * (t[7] - 1)) % M = 0 }   \* every M-th tuple of the cross product
\* plus a diagonal through the lists, so that every listed value of every field and choice occurs in some base string
Diag == { <<(k % 4) + 1, (k % 3) + 1, (k % 5) + 1, (k % 7) + 1, (k % 11) + 1, (k % 3) + 1, (k % 5) + 1>> : k \in 0..10 }
F(t) == [y |-> Ys[t[1]], mo |-> MDs[t[2]][1], d |-> MDs[t[2]][2], h |-> HMSs[t[3]][1], mi |-> HMSs[t[3]][2], s |-> HMSs[t[3]][3],
         fd |-> FDs[t[4]], oh |-> OFFs[t[5]][1], om |-> OFFs[t[5]][2]]
C(t) == [sep |-> SEPs[t[6]], z |-> ZONEs[t[7]].z, sign |-> ZONEs[t[7]].sign]
\* values for the writer: wall clocks in years 0..9999 x whole-minute offsets
WDates == {DayNumber(0, 1, 1), DayNumber(999, 12, 31), DayNumber(2000, 2, 29), DayNumber(9999, 12, 31)}
WTimes == { [secs |-> s, frac |-> f] : s \in {0, 86399, 34567}, f \in {0, 1, 999, 1000, 999999, 1000000, 500000000, 999999999} }
          \cup { [secs |-> 86399, frac |-> NSu + f] : f \in {0, 999999999, 1500000} }
WOffs == {0, 60, -60, 3600, 19800, -12600, 86340, -86340}
Writes == { [k |-> "write", n |-> n, secs |-> t.secs, frac |-> t.frac, off |-> o] : n \in WDates, t \in WTimes, o \in WOffs }
Init == /\ p = 0 /\ b \in { [k |-> "gen", t |-> t] : t \in Tuples \cup Diag } \cup { [k |-> "wseed", n |-> n, off |-> o] : n \in WDates, o \in WOffs }
Base == Gen(F(b.t), C(b.t))
Next == /\ p = 0
        /\ \/ b.k = "gen" /\ b' = b /\ p' \in 1..(Len(Base) + 1)
           \/ b.k = "wseed" /\ p' = 1 /\ b' \in { w \in Writes : w.n = b.n /\ w.off = b.off }
Spec == Init /\ [][Next]_<<b, p>>
Alphabet == {48, 49, 50, 51, 52, 54, 57, 84, 116, 90, 122, 43, 45, 8722, 58, 46, 32, 120}       \* 0 1 2 3 4 6 9 T t Z z + - U+2212 : . space x
EditsAt(s, q) ==
   { Take(s, q - 1) \o <<a>> \o Drop(s, q - 1) : a \in Alphabet }                                           \* insert before q
   \cup (IF q > Len(s) THEN {} ELSE
           { Take(s, q - 1) \o Drop(s, q) }                                                               \* delete
           \cup { Take(s, q) \o Drop(s, q - 1) }                                                          \* duplicate
           \cup { [s EXCEPT ![q] = a] : a \in Alphabet \ {s[q]} }                                         \* replace
           \cup (IF q < Len(s) THEN { [s EXCEPT ![q] = s[q + 1], ![q + 1] = s[q]] } ELSE {}))             \* transpose
GenAccepted == (b.k = "gen" /\ p = 0) =>
   LET f == F(b.t)  c == C(b.t)  s == Gen(f, c) IN
   /\ ValidFields(f) /\ ValidChoices(c)
   /\ Accepts(s) /\ Value(s) = Denoted(f, c) /\ Generable(s) /\ GuessC(s) = c
   /\ GuessF(s) = (IF c.z # 0 THEN [f EXCEPT !.oh = 0, !.om = 0] ELSE f)          \* Z / z carry no offset digits
Edits == (b.k = "gen" /\ p > 0) => \A e \in EditsAt(Base, p) : DoubleEntry(e)
NineDigits(w) == Pad0(Frac(w), 9)
WriteLaws == b.k = "write" =>
   LET w == [n |-> b.n, secs |-> b.secs, frac |-> b.frac] IN
   \A sf \in SecondsFormats, z \in BOOLEAN :
      LET s == Write(w, b.off, sf, z)
          k == CASE sf = "Secs" -> 0 [] sf = "Millis" -> 3 [] sf = "Micros" -> 6 [] sf = "Nanos" -> 9 [] sf = "AutoSi" -> Len(AutoFrac(w)) - (IF Frac(w) = 0 THEN 0 ELSE 1) IN
      /\ Accepts(s) /\ Generable(s)                                                       \* matches the RFC 3339 grammar
      /\ Value(s) = [n |-> b.n, secs |-> b.secs, frac |-> Kept(b.frac, sf), off |-> b.off]  \* parses back: same wall clock, offset, hence instant
      /\ s[11] = 84 /\ Len(s) = 19 + (IF k = 0 THEN 0 ELSE k + 1) + (IF z /\ b.off = 0 THEN 1 ELSE 6)
      /\ (k > 0 => SubSeq(s, 21, 20 + k) = Take(NineDigits(w), k))                          \* the digits are a prefix of the nine: truncated, never rounded
      /\ (s[Len(s)] = 90) = (z /\ b.off = 0)                                               \* Z only on request and only for offset zero
      /\ (sf = "AutoSi" => k \in {0, 3, 6, 9} /\ Kept(b.frac, sf) = b.frac)
\* --- anchors (RFC 3339 section 5.8 examples and chrono's documentation)
Str1 == <<49,57,57,54,45,49,50,45,49,57,84,49,54,58,51,57,58,53,55,45,48,56,58,48,48>>       \* 1996-12-19T16:39:57-08:00
ASSUME Accepts(Str1) /\ Value(Str1) = [n |-> DayNumber(1996, 12, 19), secs |-> 16 * 3600 + 39 * 60 + 57, frac |-> 0, off |-> -28800]
ASSUME ToUtc(Value(Str1)).u = [n |-> DayNumber(1996, 12, 20), secs |-> 39 * 60 + 57, frac |-> 0]          \* = 1996-12-20T00:39:57Z
Str2 == <<49,57,57,48,45,49,50,45,51,49,84,50,51,58,53,57,58,54,48,90>>                       \* 1990-12-31T23:59:60Z
ASSUME Accepts(Str2) /\ Value(Str2) = [n |-> DayNumber(1990, 12, 31), secs |-> 86399, frac |-> NSu, off |-> 0]
Str3 == <<49,57,56,53,45,48,52,45,49,50,84,50,51,58,50,48,58,53,48,46,53,50,90>>              \* 1985-04-12T23:20:50.52Z
ASSUME Accepts(Str3) /\ Value(Str3).frac = 520000000
W1 == [n |-> DayNumber(2018, 1, 26), secs |-> 18 * 3600 + 30 * 60 + 9, frac |-> 453829000]
ASSUME Write(W1, 0, "Millis", FALSE) = <<50,48,49,56,45,48,49,45,50,54,84,49,56,58,51,48,58,48,57,46,52,53,51,43,48,48,58,48,48>>  \* 2018-01-26T18:30:09.453+00:00
ASSUME Write(W1, 0, "Millis", TRUE) = <<50,48,49,56,45,48,49,45,50,54,84,49,56,58,51,48,58,48,57,46,52,53,51,90>>                 \* 2018-01-26T18:30:09.453Z
ASSUME Write(W1, 0, "Secs", TRUE) = <<50,48,49,56,45,48,49,45,50,54,84,49,56,58,51,48,58,48,57,90>>                               \* 2018-01-26T18:30:09Z
ASSUME Write([W1 EXCEPT !.secs = 10 * 3600 + 30 * 60 + 9], 28800, "Secs", TRUE)
         = <<50,48,49,56,45,48,49,45,50,54,84,49,48,58,51,48,58,48,57,43,48,56,58,48,48>>                                         \* 2018-01-26T10:30:09+08:00
\* strings chrono's tests and the statement name as not RFC 3339
ASSUME ~Accepts(<<50,48,49,56,45,48,49,45,50,54,84,49,56,58,51,48,58,48,57,43,48,56,48,48>>)          \* missing colon in the offset
ASSUME ~Accepts(<<50,48,49,56,45,48,49,45,50,54,84,49,56,58,51,48,58,48,57,43,50,52,58,48,48>>)       \* +24:00
ASSUME ~Accepts(<<50,48,49,56,45,48,49,45,50,54,84,49,56,58,51,48,58,48,57,46,90>>)                   \* fraction without digits
ASSUME ~Accepts(<<50,48,49,56,45,48,49,45,50,54,84,49,56,58,51,48,58,48,57,90,32>>)                   \* trailing text
ASSUME ~Accepts(<<50,48,49,56,45,49,45,50,54,84,49,56,58,51,48,58,48,57,90>>)                         \* one-digit month
ASSUME ~Accepts(<<50,48,49,57,45,48,50,45,50,57,84,49,56,58,51,48,58,48,57,90>>)                      \* 2019-02-29
=============================================================================
