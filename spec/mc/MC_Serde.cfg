SPECIFICATION Spec
INVARIANT Floor
INVARIANT Order
INVARIANT LeapAdmits
CHECK_DEADLOCK FALSE
