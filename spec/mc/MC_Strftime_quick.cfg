SPECIFICATION Spec
CONSTANT Windows <- QuickWindows
CONSTANT Thorough = FALSE
INVARIANT DayInv
INVARIANT TimeInv
INVARIANT OffsetInv
INVARIANT TimestampInv
CHECK_DEADLOCK FALSE
