---------------------------- MODULE MC_CacheImpl ----------------------------
(***************************************************************************)
(* Design check of the implementation-shaped cache model against the three *)
(* clauses of C18.                                                         *)
(*  MC_CacheImpl_quick / _thorough : sequential histories (what C18        *)
(*     quantifies over) with time passing anywhere inside a call.          *)
(*  MC_CacheImpl_race : writes of TZ racing with a conversion on another   *)
(*     thread.  NOT part of the check (C18 quantifies over sequential      *)
(*     histories) - TLC reports a violation of ImplFresh here, which       *)
(*     documents a hair-line race: Cache::default reads TZ *before* it     *)
(*     takes the time stamp that starts the reuse window, so a thread      *)
(*     pre-empted between the two (while another thread writes TZ) keeps,  *)
(*     for up to a second after it resumes, a zone that was read before a  *)
(*     change which by then is more than a second old (15-state trace).    *)
(*     With MaxVer = 1 and ImplFreshOnNewThread it also shows that a       *)
(*     first conversion racing with `TZ := x; replace /etc/localtime` can  *)
(*     combine "TZ unset" with the new file - a pair that never existed.   *)
(***************************************************************************)
EXTENDS CacheImpl, TzWorld
QuickVals    == {"absA", "garbage"}
ThoroughVals == {"absA", "garbage", "rule"}
OneVal       == {"absA"}
QuickSys     == {<<"S1", "S2">>}
ThoroughSys  == {<<"S1", "S2">>, <<NoZone, "S1">>}
QuickDirs    == {"utc"}
ThreadSymm   == Permutations(Threads)
=============================================================================
