------------------------------ MODULE MC_Tzif ------------------------------
(* Bounded design check of Tzif and of the TZ-rule grammar (job D for C16):   *)
(*   Decode(Encode(z, v)) = z for bounded zone models and versions 1-3,       *)
(*   every structural mutation class of C16 is classified as the statement    *)
(*   says, PosixTz.Parse(Show(r)) = r.                                        *)
EXTENDS Tzif, TLC
CONSTANT Mode                    \* "quick" | "thorough"
VARIABLES kind, ix
T(n) == FromInt(n)
E18 == Mul(FromInt(1000000000), FromInt(1000000000))         \* 10^18
CET  == Ty(3600, FALSE, <<67, 69, 84>>)
CEST == Ty(7200, TRUE,  <<67, 69, 83, 84>>)
LMT  == Ty(3208, FALSE, <<76, 77, 84>>)
P05  == Ty(19800, FALSE, <<43, 48, 53, 51, 48>>)
NEG  == Ty(-43200, FALSE, <<45, 49, 50>>)
BST  == Ty(3600, TRUE, <<66, 83, 84>>)
RuleCET == AltRule(CET, CEST, DayM(3, 5, 0), 7200, DayM(10, 5, 0), 10800)           \* CET-1CEST,M3.5.0,M10.5.0/3
RuleV3  == AltRule(CET, CEST, DayM(3, 5, 0), -3600, DayM(10, 5, 0), 93600)          \* needs version 3
Tr(t, ty) == [t |-> t, ty |-> ty]
Zn(tr, ty, r) == [trans |-> tr, types |-> ty, rule |-> r]
Zones == <<
  Zn(<<>>, <<CET>>, NoRule),
  Zn(<<>>, <<P05>>, FixedRule(P05)),
  Zn(<<Tr(T(0), 2)>>, <<LMT, CET>>, NoRule),
  Zn(<<Tr(T(-2147483647), 2), Tr(T(2147483647), 1)>>, <<LMT, CET>>, NoRule),
  Zn(<<Tr(Neg(E18), 2), Tr(T(86400), 3), Tr(E18, 2)>>, <<LMT, CET, CEST>>, NoRule),
  Zn(<<Tr(I64Min, 2), Tr(I64Max, 1)>>, <<LMT, NEG>>, NoRule),
  Zn(<<Tr(T(100000), 2), Tr(T(954032400), 3), Tr(T(972781200), 2)>>, <<LMT, CET, CEST>>, RuleCET),
  Zn(<<Tr(T(100000), 2), Tr(T(954028800), 3)>>, <<LMT, CET, CEST>>, RuleV3),
  Zn(<<Tr(T(100000), 2), Tr(T(200000), 3)>>, <<LMT, NEG, CET>>, FixedRule(CET)),
  Zn(<<Tr(T(-1), 1), Tr(T(0), 2), Tr(T(1), 1)>>, <<NEG, P05>>, NoRule),
  Zn(<<Tr(T(-2147483647) , 2), Tr(T(0), 3)>>, <<LMT, CET, BST>>, NoRule)
>>
Vers == {1, 2, 3}
\* --- the rule family of Parse(Show(r)) = r -----------------------------------------------------------------------
NamesQ == << <<65, 66, 67>>, <<43, 48, 51>>, <<45, 48, 51, 51, 48>>, <<97, 98, 99, 100, 101, 102>>, <<65, 49, 45>> >>
OffsQ == <<0, 3600, -3600, -43200, 50400, 89999, -89999, 19800, 20700, 1, -1, 86400, -86400, 12345>>
DaysQ == <<DayM(1, 1, 0), DayM(12, 5, 6), DayM(3, 2, 0), DayM(10, 4, 3), DayJ(1), DayJ(60), DayJ(365), DayZ(0), DayZ(59), DayZ(365)>>
TimesQ == <<7200, 0, 1, 3600, 86400, 89999, 3661, -1, -3600, -604799, 604799, 90000, 45296>>
NR == Len(NamesQ) * Len(OffsQ) * Len(OffsQ) * Len(DaysQ) * Len(TimesQ)
Pick(seq, n) == seq[(n % Len(seq)) + 1]
\* a rule of the family from one number (mixed radix), so that every component value occurs with every other one pairwise
RuleNo(n) == LET a == n  b == a \div Len(NamesQ)  c == b \div Len(OffsQ)  d == c \div Len(OffsQ)  e == d \div Len(DaysQ) IN
   AltRule(Ty(Pick(OffsQ, b), FALSE, Pick(NamesQ, a)), Ty(Pick(OffsQ, c), TRUE, Pick(NamesQ, a + c)),
           Pick(DaysQ, d), Pick(TimesQ, e), Pick(DaysQ, d + e + 3), Pick(TimesQ, e + d + a))
FixedNo(n) == FixedRule(Ty(Pick(OffsQ, n), FALSE, Pick(NamesQ, n \div Len(OffsQ))))
RuleIdx == IF Mode = "quick" THEN { (n * 7919) % NR : n \in 0..1500 } ELSE { (n * 7919) % NR : n \in 0..40000 }
FixedIdx == 0..(Len(OffsQ) * Len(NamesQ) - 1)
Init == \/ kind = "zone" /\ ix \in (1..Len(Zones)) \X Vers
        \/ kind = "rule" /\ ix \in RuleIdx
        \/ kind = "fixed" /\ ix \in FixedIdx
Next == UNCHANGED <<kind, ix>>
Spec == Init /\ [][Next]_<<kind, ix>>
\* --- anchors ----------------------------------------------------------------------------------------------------------
Str(s) == s
ASSUME BE(T(-1), 8) = <<255, 255, 255, 255, 255, 255, 255, 255>> /\ BE(T(256), 4) = <<0, 0, 1, 0>> /\ BE(I64Min, 8) = <<128, 0, 0, 0, 0, 0, 0, 0>>
ASSUME SignedAt(<<128, 0, 0, 0, 0, 0, 0, 0>>, 1, 8) = I64Min /\ SignedAt(<<127, 255, 255, 255, 255, 255, 255, 255>>, 1, 8) = I64Max
ASSUME SignedAt(<<255, 255, 255, 254>>, 1, 4) = T(-2) /\ I32At(<<255, 255, 255, 254>>, 1) = -2 /\ I32At(<<128, 0, 0, 0>>, 1) = -2147483647 - 1
ASSUME MinTime = Neg(Mul(Mul(FromInt(1048576), FromInt(1048576)), FromInt(524288)))                                 \* -2^59
\* "EST5EDT,M3.2.0,M11.1.0" and "<-03>3<-02>,M3.5.0/-2,M10.5.0/-1" (America/Nuuk, needs version 3)
ASSUME Parse(<<69,83,84,53,69,68,84,44,77,51,46,50,46,48,44,77,49,49,46,49,46,48>>, FALSE) =
       [k |-> "ok", rule |-> AltRule(Ty(-18000, FALSE, <<69,83,84>>), Ty(-14400, TRUE, <<69,68,84>>), DayM(3, 2, 0), 7200, DayM(11, 1, 0), 7200)]
ASSUME Parse(<<60,45,48,51,62,51,60,45,48,50,62,44,77,51,46,53,46,48,47,45,50,44,77,49,48,46,53,46,48,47,45,49>>, TRUE) =
       [k |-> "ok", rule |-> AltRule(Ty(-10800, FALSE, <<45,48,51>>), Ty(-7200, TRUE, <<45,48,50>>), DayM(3, 5, 0), -7200, DayM(10, 5, 0), -3600)]
ASSUME Parse(<<60,45,48,51,62,51,60,45,48,50,62,44,77,51,46,53,46,48,47,45,50,44,77,49,48,46,53,46,48,47,45,49>>, FALSE).k = "unspec"
ASSUME Parse(<<85,84,67,48>>, FALSE) = [k |-> "ok", rule |-> FixedRule(Ty(0, FALSE, <<85,84,67>>))]                    \* UTC0
ASSUME Parse(<<73,83,84,45,53,58,51,48>>, FALSE) = [k |-> "ok", rule |-> FixedRule(Ty(19800, FALSE, <<73,83,84>>))]     \* IST-5:30
ASSUME Parse(<<69,83,84,53,69,68,84>>, FALSE).k = "unspec"                                                            \* EST5EDT: no rule
ASSUME Parse(<<69,83,84>>, FALSE).k = "bad" /\ Parse(<<>>, FALSE).k = "bad" /\ Parse(<<69,83,53>>, FALSE).k = "bad"    \* EST, empty, ES5
ASSUME Parse(<<65,66,67,50,53>>, FALSE).k = "bad" /\ Parse(<<65,66,67,50,52>>, FALSE).k = "ok"                          \* ABC25, ABC24
ASSUME \A s \in { <<65,66,67,53,68,69,70,44,74,48,44,74,49>>,                   \* ABC5DEF,J0,J1
                  <<65,66,67,53,68,69,70,44,51,54,54,44,74,49>>,                \* ABC5DEF,366,J1
                  <<65,66,67,53,68,69,70,44,77,49,46,54,46,48,44,74,49>>,       \* ...,M1.6.0,J1
                  <<65,66,67,53,68,69,70,44,77,49,46,49,46,55,44,74,49>>,       \* ...,M1.1.7,J1
                  <<65,66,67,53,68,69,70,44,77,49,51,46,49,46,48,44,74,49>>,    \* ...,M13.1.0,J1
                  <<65,66,67,53,68,69,70,44,74,49,44,74,50,44>>,                \* trailing comma
                  <<65,66,67,53,68,69,70,44,74,49>>,                            \* one rule day only
                  <<65,66,67,53,58,54,48>>,                                     \* ABC5:60
                  <<60,65,66,62,53>>,                                           \* <AB>5
                  <<60,65,66,67,53>>,                                           \* <ABC5   (unterminated)
                  <<60,65,32,67,62,53>> } : Parse(s, TRUE).k = "bad"            \* <A C>5
ASSUME \A s \in { <<65,66,67,68,69,70,71,53>>,                                  \* ABCDEFG5 (7 letters)
                  <<65,66,67,48,48,53>>,                                        \* ABC005
                  <<65,66,67,53,58,51>>,                                        \* ABC5:3
                  <<32,65,66,67,53>>,                                           \* leading blank
                  <<65,66,67,53,68,69,70,44,74,49,47,50,53,44,74,50>> } :       \* ABC5DEF,J1/25,J2 without v3
            Parse(s, FALSE).k = "unspec"
\* --- invariants ---------------------------------------------------------------------------------------------------------
SameZone(a, b) == /\ Len(a.trans) = Len(b.trans) /\ Len(a.types) = Len(b.types)
                  /\ \A i \in 1..Len(a.trans) : Eq(a.trans[i].t, b.trans[i].t) /\ a.trans[i].ty = b.trans[i].ty
                  /\ \A k \in 1..Len(a.types) : SameTy(a.types[k], b.types[k])
                  /\ SameRule(a.rule, b.rule)
Zi == Zones[ix[1]]
Vi == ix[2]
\* times below -2^59 are legal in the format but the RFC advises against them: such a file is UNSPECIFIED, still decodable
Base == IF \E i \in 1..Len(Zi.trans) : Lt(Zi.trans[i].t, MinTime) THEN UN ELSE WF
RoundTripZone == (kind = "zone" /\ Encodable(Zi, Vi)) =>
   LET c == Classify(Encode(Zi, Vi)) IN c.class = Base /\ SameZone(c.zone, Zi) /\ c.zone = Zi
\* every proper prefix of a conforming file is truncated data
PrefixesMalformed == (kind = "zone" /\ Encodable(Zi, Vi)) =>
   LET b == Encode(Zi, Vi) IN \A n \in 0..(Len(b) - 1) : Classify(SubSeq(b, 1, n)).class = MF
SetAt(b, i, v) == [b EXCEPT ![i] = v]
Set4(b, i, w) == [j \in 1..Len(b) |-> IF j >= i /\ j < i + 4 THEN w[j - i + 1] ELSE b[j]]
\* positions of the authoritative block of Encode's output
AuthHdr(v) == IF v = 1 THEN 1 ELSE 52                                       \* 44 + 6 + 1 bytes of the minimal 32-bit block, + 1
Ts(v) == IF v = 1 THEN 4 ELSE 8
MutationsClassified == (kind = "zone" /\ Encodable(Zi, Vi)) =>
   LET b == Encode(Zi, Vi)  o == AuthHdr(Vi)  h == Hdr(b, o)  ts == Ts(Vi)
       cls(x) == Classify(x).class IN
   \* magic and version
   /\ \A i \in 1..4 : cls(SetAt(b, i, 0)) = MF /\ cls(SetAt(b, o + i - 1, 120)) = MF
   /\ cls(SetAt(b, 5, 1)) = MF /\ cls(SetAt(b, 5, 49)) = MF /\ cls(SetAt(b, 5, 255)) = MF /\ cls(SetAt(b, 5, 52)) = UN
   /\ (Vi > 1 => cls(SetAt(b, o + 4, 1)) = MF /\ cls(SetAt(b, o + 4, 101 - b[5])) = UN)
   \* each of the six counts of the authoritative header set to 0, 1, true-1, true+1, 2^31, 2^32-1: never accepted as a conforming file
   /\ \A f \in 0..5 : \A w \in { U32(0), U32(1), <<128, 0, 0, 0>>, <<255, 255, 255, 255>>,
                                U32(CountAt(b, o + 20 + 4 * f) + 1), U32(IF CountAt(b, o + 20 + 4 * f) = 0 THEN 0 ELSE CountAt(b, o + 20 + 4 * f) - 1) } :
         LET m == Set4(b, o + 20 + 4 * f, w)  c == Classify(m) IN
         m # b => /\ c.class # WF
                  /\ (w \in { <<128, 0, 0, 0>>, <<255, 255, 255, 255>> } => c.class = MF)
                  /\ (f \in {4, 5} /\ w = U32(0) => c.class = MF)
   \* type index at the bound, abbreviation index at the bound
   /\ (h.time > 0 => cls(SetAt(b, PTypes(o, h, ts), h.type)) = MF /\ cls(SetAt(b, PTypes(o, h, ts), 255)) = MF)
   /\ cls(SetAt(b, PInfo(o, h, ts) + 5, h.char)) = MF /\ cls(SetAt(b, PInfo(o, h, ts) + 5, 255)) = MF
   /\ cls(SetAt(b, PChars(o, h, ts) + h.char - 1, 65)) = MF                                            \* last designation loses its NUL
   \* duplicate / unsorted transition times
   /\ (h.time > 1 => LET p == PTimes(o) IN
         /\ cls([j \in 1..Len(b) |-> IF j >= p + ts /\ j < p + 2 * ts THEN b[j - ts] ELSE b[j]]) = MF                     \* second = first
         /\ cls([j \in 1..Len(b) |-> IF j >= p /\ j < p + ts THEN b[j + ts] ELSE IF j >= p + ts /\ j < p + 2 * ts THEN b[j - ts] ELSE b[j]]) = MF)
   \* offsets: -2^31 is refused, other extremes are left to the reader; isdst = 2 likewise
   /\ cls(Set4(b, PInfo(o, h, ts), <<128, 0, 0, 0>>)) = MF
   /\ cls(Set4(b, PInfo(o, h, ts), <<127, 255, 255, 255>>)) \in {UN, MF}
   /\ cls(SetAt(b, PInfo(o, h, ts) + 4, 2)) \in {UN, MF}
   \* footer framing
   /\ (Vi > 1 => LET e2 == o + 43 + BlockLen(h, 8)  body == SubSeq(b, 1, e2)  tz == SubSeq(b, e2 + 2, Len(b) - 1) IN
         /\ cls(body) = MF /\ cls(body \o <<10>>) = MF /\ cls(body \o tz \o <<10>>) = MF /\ cls(body \o <<10>> \o tz) = MF
         /\ cls(body \o <<10>> \o tz \o <<0, 10>>) = MF /\ cls(body \o <<10, 58>> \o tz \o <<10>>) = MF
         /\ cls(body \o <<10>> \o tz \o <<44, 10>>) = MF                                                                   \* trailing comma
         /\ cls(body \o <<10, 10>>) = Base
         /\ (Zi.rule.k = "alt" => cls(body \o <<10>> \o Show(FixedRule(Ty(12345, FALSE, <<88, 88, 88>>))) \o <<10>>) = MF))   \* contradicts the last transition
   \* data after a version-1 block
   /\ (Vi = 1 => cls(b \o <<0>>) = UN)
ParseShow == /\ (kind = "rule" => LET r == RuleNo(ix) IN
                   /\ Parse(Show(r), TRUE) = [k |-> "ok", rule |-> r]
                   /\ Parse(Show(r), FALSE).k = (IF NeedsV3(r) THEN "unspec" ELSE "ok")
                   /\ (~NeedsV3(r) => Parse(Show(r), FALSE).rule = r))
             /\ (kind = "fixed" => LET r == FixedNo(ix) IN Parse(Show(r), FALSE) = [k |-> "ok", rule |-> r] /\ Parse(Show(r), TRUE) = [k |-> "ok", rule |-> r])
=============================================================================
