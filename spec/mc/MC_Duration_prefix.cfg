SPECIFICATION Spec
CONSTANT Deep = FALSE
CONSTANT MulChecksRange = FALSE
INVARIANT ImplRefines
INVARIANT Closed
INVARIANT Exact
INVARIANT Accessors
INVARIANT Division
INVARIANT Order
INVARIANT Std
CHECK_DEADLOCK FALSE
