SPECIFICATION Spec
CONSTANT Stride = 5
CONSTANT Thin = 1
CONSTANT Sample = 1
INVARIANT Clean
INVARIANT ProjectionLaws
INVARIANT NonVacuous
CHECK_DEADLOCK FALSE
