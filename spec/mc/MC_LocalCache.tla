--------------------------- MODULE MC_LocalCache ---------------------------
(***************************************************************************)
(* Design check of C18 on the specification itself: two threads, two or    *)
(* three TZ values plus "unset", /etc/localtime replaced at most once, a   *)
(* clock of ten quarter-second ticks; every interleaving of environment    *)
(* writes, clock ticks, conversions in both directions and thread spawns.  *)
(* The invariants are the three clauses of the property; the ASSUMEs pin   *)
(* the resolution order to the sentence in the statement, evaluated on the *)
(* world of TzWorld (the one the real histories run in).                   *)
(***************************************************************************)
EXTENDS LocalCache, TzWorld

QuickVals    == {"absA", "garbage"}
ThoroughVals == {"absA", "garbage", "rule"}
QuickSys     == {<<"S1", "S2">>}
ThoroughSys  == {<<"S1", "S2">>, <<NoZone, "S1">>}
ThreadSymm   == Permutations(Threads)          \* the threads (model values t1, t2) are interchangeable
QuickDirs    == {"utc"}                        \* the direction does not enter the cache algorithm; the thorough check runs both

\* --- the resolution order of the statement --------------------------------------------------------------
ASSUME Resolve(Unset, "S1") = "S1"                                   \* TZ unset: the system's /etc/localtime
ASSUME Resolve("absA", "S1") = "A" /\ Resolve("colonB", "S1") = "B"  \* a file, optionally prefixed by a colon, absolute ...
ASSUME Resolve("name", "S1") = "BER" /\ Resolve("colonName", "S1") = "BER"   \* ... or relative to the zoneinfo directories
ASSUME Resolve("fixedF", NoZone) = "F"
ASSUME Resolve("rule", "S1") = "R"                                   \* a POSIX rule: that rule
ASSUME Resolve("empty", "S1") = UTC                                  \* TZ empty: UTC
ASSUME \A k \in {"garbage", "colonMissing", "missing", "badfile", "colonRule"} :
          Resolve(k, "S1") = "S1" /\ Resolve(k, NoZone) = UTC        \* unreadable / unparsable: the system zone and finally UTC
ASSUME Resolve(Unset, NoZone) = UTC
ASSUME \A k \in DOMAIN Val : \A s \in {"S1", "S2", NoZone} : Resolve(k, s) \in ZoneIds

\* --- the state space ------------------------------------------------------------------------------------
\* The history variables are kept out of the fingerprint: lastObs only records what the last Convert step did,
\* and of changedAt only the distance to now matters, up to one second.  TLC evaluates invariants on newly found
\* states only, so with a VIEW that hides lastObs the three clauses are checked as action properties - those are
\* evaluated on EVERY transition, also when the successor has been seen before.
View == <<env, sys, ltver, now, cache,
          IF now - changedAt >= TicksPerSec THEN TicksPerSec ELSE now - changedAt>>
ObsStep(P(_)) == lastObs' # lastObs => P(lastObs'[1])
FreshAct                == [][ObsStep(FreshObs)]_vars
FreshOnNewThreadAct     == [][ObsStep(FreshOnNewThreadObs)]_vars
OneZonePerConversionAct == [][ObsStep(OneZoneObs)]_vars
\* the cache never holds anything but a zone that the environment named at some time
CacheZoneOK == \A t \in Threads : cache[t].init => cache[t].zone \in ZoneIds
=============================================================================
