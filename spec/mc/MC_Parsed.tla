----------------------------- MODULE MC_Parsed -----------------------------
(***************************************************************************)
(* Design check of Parsed (job D for C14): for every subset S of the 14    *)
(* date fields, derived from each value of a small value set (optionally   *)
(* with one field replaced by another in-range value), the obligations     *)
(*  - never contradict each other and always admit some outcome,           *)
(*  - admit exactly Ok(v) when S is sufficient and every year group is     *)
(*    determinate for v (O2), and that is the documented reading: with the *)
(*    1970..2069 pivot applied to lone two-digit years, v is the only date *)
(*    that agrees with all supplied fields,                                *)
(*  - admit only results that agree with every supplied field (O1),        *)
(*  - the scan-free computation of "the dates that agree with every field" *)
(*    equals its definition by scanning the determined year.               *)
(* Setters, time of day and the timestamp cross-check are finite tables    *)
(* and are checked as ASSUMEs.                                             *)
(***************************************************************************)
EXTENDS Parsed
CONSTANTS Values,            \* day numbers
          Corrupt,           \* the fields for which every single-field replacement is explored as well
          ScanMax            \* FastIsScan is evaluated for |S| <= ScanMax (the scan costs 366 agreement tests)
VARIABLES v, S, c
vars == <<v, S, c>>
\* three levels so that TLC's workers share the invariant evaluation: a subset of the seven year / quarter fields ("half"), its extensions
\* by a subset of the other seven ("none"), and - when Corrupt - each single-field replacement
YearFields == {"year", "year_div_100", "year_mod_100", "isoyear", "isoyear_div_100", "isoyear_mod_100", "quarter"}
Init == v \in Values /\ S \in SUBSET YearFields /\ c = "half"
Next == \/ c = "half" /\ c' = "none" /\ S' \in { S \cup T : T \in SUBSET (DateFields \ YearFields) } /\ UNCHANGED v
        \/ c = "none" /\ c' \in S \cap Corrupt \cap DOMAIN FieldsOfDate(v) /\ UNCHANGED <<v, S>>
Spec == Init /\ [][Next]_vars
\* another in-range value for a field
Other(name, x) == CASE name \in {"year", "isoyear"} -> x + 1
                    [] name \in {"year_div_100", "isoyear_div_100"} -> x + 1
                    [] name \in {"year_mod_100", "isoyear_mod_100"} -> (x + 1) % 100
                    [] name = "quarter" -> (x % 4) + 1 [] name = "month" -> (x % 12) + 1
                    [] name \in {"week_from_sun", "week_from_mon"} -> (x + 1) % 54 [] name = "isoweek" -> (x % 53) + 1
                    [] name = "weekday" -> (x + 1) % 7 [] name = "ordinal" -> (x % 366) + 1 [] name = "day" -> (x % 31) + 1
Base == LET full == FieldsOfDate(v) IN [k \in S \cap DOMAIN full |-> full[k]]
F == IF c \in {"none", "half"} THEN Base ELSE [Base EXCEPT ![c] = Other(c, @)]
\* outcomes to test the relation on: v and dates near it (neighbouring day / week / year / century), every error kind
Near == { n \in { v + k : k \in {-36524, -365, -7, -1, 0, 1, 7, 366, 36525} } : InDates(n) }
Outcomes == { [ok |-> n] : n \in Near } \cup { Err(k) : k \in AnyKind }
MeetsDate(exp, res) == CASE exp.k = "ok" -> res = [ok |-> exp.d] [] exp.k = "err" -> IsErr(res) /\ res.err \in exp.kinds
                         [] exp.k = "free" -> TRUE [] OTHER -> FALSE
Pivot(r) == IF r < 70 THEN 2000 + r ELSE 1900 + r
Completed(f) ==            \* the documented reading of a lone two-digit year: the century is supplied by the pivot
   LET g == IF GregGroup(f) = "mod" THEN Put(f, "year_div_100", Pivot(f.year_mod_100) \div 100) ELSE f
   IN IF IsoGroup(g) = "mod" THEN Put(g, "isoyear_div_100", Pivot(g.isoyear_mod_100) \div 100) ELSE g
\* One invariant, so that the field map and the expectation are computed once per state:
\*  Consistent - the function form used for composition is the relation of DESIGN.md section 7, never contradictory, always satisfiable;
\*  Resolves   - uncorrupted: sufficient and determinate => exactly Ok(v), and v is the only date that agrees with all fields under the
\*               documented pivot reading; insufficient or century-only => exactly NotEnough;
\*  Sound      - any admitted result agrees with every supplied field; with exact years the admitted outcome is unique up to the error kind;
\*  FastIsScan - the scan-free D equals its definition.
Check == c # "half" =>
   LET f == F
       e == DateExpect(f, v)
       outs == Outcomes \cup (IF e.k = "ok" THEN {[ok |-> e.d]} ELSE {})
       admitted == { r \in outs : DateExplains(f, v, r) }
   IN /\ e.k # "bad"
      /\ admitted = { r \in outs : (IsOk(r) => AgreesDate(r.ok, f)) /\ MeetsDate(e, r) }
      /\ admitted # {}
      /\ \A r \in admitted : IsOk(r) => AgreesDate(r.ok, f)
      /\ (c = "none" =>
            /\ Derived(f, v)
            /\ ((Sufficient(f) /\ Determinate(f, v)) => /\ admitted = {[ok |-> v]} /\ BothExactOrAbsent(Completed(f)) /\ DenotedFast(Completed(f)) = {v})
            /\ ((CenturyOnly(f) \/ ~Sufficient(f)) => admitted = {Err("NotEnough")}))
      /\ ((Sufficient(f) /\ BothExactOrAbsent(f)) => ((Cardinality(admitted) = 1 /\ (\E r \in admitted : IsOk(r))) \/ (admitted = { Err(k) : k \in Contra })))
      /\ ((Cardinality(S) <= ScanMax /\ Sufficient(f) /\ BothExactOrAbsent(f)) => DenotedFast(f) = DenotedScan(f))

\* ------------------------------------------------------------------ value sets
D(y, m, dd) == DayNumber(y, m, dd)
QuickValues == { D(2010, 1, 3) }                                                   \* ISO year 2009 # year, week 53 / week 0 of %W
NoCorrupt == {}
SomeCorrupt == {"year_mod_100", "month", "weekday", "ordinal"}
ThoroughValues == { D(2015, 9, 18), D(2010, 1, 3), D(2008, 12, 29), D(2069, 12, 31), D(2070, 1, 1), D(1875, 6, 15), D(0, 2, 29), D(-262143, 1, 1), D(262142, 12, 31) }

\* the shared-subexpression form of the date fields is the per-field definition (whole years incl. leap, week 53, negative, range ends)
ASSUME \A y \in {2015, 2010, 2024, -1, -262143, 262142} : \A n \in (DaysBeforeYear(y) + 1)..(DaysBeforeYear(y) + DaysInYear(y)) :
          FieldsRec(n) = [k \in DateFields |-> FieldOfDate(k, n)]
\* ------------------------------------------------------------------ anchors from the documentation
\* "Wed, 31 Dec 2014" is consistent, "Thu, 31 Dec 2014" is Impossible
ASSUME LET f == [year |-> 2014, month |-> 12, day |-> 31, weekday |-> 2] IN DateExpect(f, NoDate) = [k |-> "ok", d |-> D(2014, 12, 31)]
ASSUME LET f == [year |-> 2014, month |-> 12, day |-> 31, weekday |-> 3] IN DateExpect(f, NoDate) = [k |-> "err", kinds |-> Contra]
\* a lone two-digit year: 70 -> 1970, 69 -> 2069
ASSUME LET f == [year_mod_100 |-> 70, month |-> 1, day |-> 1] IN DateExpect(f, D(1970, 1, 1)) = [k |-> "ok", d |-> D(1970, 1, 1)] /\ DateExpect(f, D(2070, 1, 1)).k = "free"
ASSUME LET f == [year_mod_100 |-> 69, ordinal |-> 1] IN DateExpect(f, D(2069, 1, 1)) = [k |-> "ok", d |-> D(2069, 1, 1)] /\ DateExpect(f, D(1969, 1, 1)).k = "free"
\* the century alone is never enough; nothing at all is not enough; 30 February does not exist
ASSUME DateExplains([year_div_100 |-> 20, month |-> 1, day |-> 1], D(2015, 1, 1), Err("NotEnough")) /\ ~DateExplains([year_div_100 |-> 20, month |-> 1, day |-> 1], D(2015, 1, 1), [ok |-> D(2015, 1, 1)])
ASSUME DateExpect(NoFields, D(2015, 1, 1)) = [k |-> "err", kinds |-> {"NotEnough"}] /\ DateExpect(NoFields, NoDate).k = "free"
ASSUME DateExpect([year |-> 2015, month |-> 2, day |-> 30], NoDate) = [k |-> "err", kinds |-> Contra]
ASSUME DateExpect([year |-> 262143, ordinal |-> 1], NoDate) = [k |-> "err", kinds |-> Contra]                         \* beyond the calendar
ASSUME DateExpect([year_div_100 |-> 2147483647, year_mod_100 |-> 99, ordinal |-> 1], NoDate) = [k |-> "err", kinds |-> Contra]    \* no 32-bit overflow
\* week dates: 2023-01-01 is a Sunday: week_from_sun 1, week_from_mon 0; negative years have no century fields
ASSUME DateExpect([year |-> 2023, week_from_sun |-> 1, weekday |-> 6], NoDate) = [k |-> "ok", d |-> D(2023, 1, 1)]
ASSUME DateExpect([year |-> 2023, week_from_mon |-> 0, weekday |-> 6], NoDate) = [k |-> "ok", d |-> D(2023, 1, 1)]
ASSUME DateExpect([year |-> 2023, week_from_mon |-> 0, weekday |-> 0], NoDate) = [k |-> "err", kinds |-> Contra]      \* no Monday in week 0 of 2023
ASSUME DateExpect([isoyear |-> 2009, isoweek |-> 53, weekday |-> 6], NoDate) = [k |-> "ok", d |-> D(2010, 1, 3)]
ASSUME DOMAIN FieldsOfDate(D(-1, 3, 1)) = DateFields \ {"year_div_100", "year_mod_100", "isoyear_div_100", "isoyear_mod_100"}
ASSUME DateExpect([year |-> -1, year_mod_100 |-> 99, month |-> 3, day |-> 1], NoDate) = [k |-> "err", kinds |-> Contra]

\* ------------------------------------------------------------------ setters: range table and the double-set rule
BigSamples == { FromInt(n) : n \in -2..62 } \cup { FromInt(n) : n \in {99, 100, 366, 367, 999999999, 1000000000, 2147483647, -2147483647 - 1, 86399, 86400, -86400} }
              \cup { Add(I32Max, One), Sub(I32Min, One), I64Max, I64Min, Add(U32Max, One), Add(U32Max, FromInt(2)) }
SecondSamples == { FromInt(n) : n \in {-1, 0, 1, 2, 12, 13, 59, 60, 61} } \cup { Add(I32Max, One), I64Min }
Res == { [ok |-> 1], Err("OutOfRange"), Err("Impossible"), Err("NotEnough") }
ASSUME \A s \in Setters \ {"hour"}, x \in BigSamples :
   /\ { r \in Res : SetExplains(NoFields, s, x, r, -1) } = { IF InRange(s, x) THEN [ok |-> 1] ELSE Err("OutOfRange") }      \* fresh field: Ok iff in range
   /\ InRange(s, x) =>
        LET f1 == SetNext(NoFields, s, x, [ok |-> 1], -1) IN
        /\ DOMAIN f1 = {Target(s)} /\ f1[Target(s)] = Stored(s, x)
        /\ \A y \in SecondSamples \cup {x} :                                                                                  \* second call
              { r \in Res : SetExplains(f1, s, y, r, -1) } =
                 (IF InRange(s, y) THEN { IF Stored(s, y) = Stored(s, x) THEN [ok |-> 1] ELSE Err("Impossible") }           \* accepted exactly when equal
                  ELSE { Err("OutOfRange"), Err("Impossible") })
        /\ \A y \in SecondSamples \cup {x}, r \in Res : SetExplains(f1, s, y, r, -1) => SetNext(f1, s, y, r, -1) = f1                     \* a second call never changes the value
ASSUME /\ InRange("hour12", FromInt(12)) /\ Stored("hour12", FromInt(12)) = 0 /\ ~InRange("hour12", Zero) /\ Target("ampm") = "hour_div_12"
       /\ InRange("second", FromInt(60)) /\ ~InRange("second", FromInt(61)) /\ InRange("week_from_sun", Zero) /\ ~InRange("isoweek", Zero)
       /\ ~InRange("year_div_100", FromInt(-1)) /\ InRange("year", FromInt(-1)) /\ ~InRange("year", Add(I32Max, One)) /\ InRange("offset", I32Min)
       /\ InRange("nanosecond", FromInt(999999999)) /\ ~InRange("nanosecond", FromInt(1000000000)) /\ InRange("timestamp", I64Min)
       /\ Stored("year", I32Min) = -2147483647 - 1
\* set_hour = set both halves
ASSUME \A h \in 0..23 : LET f1 == SetNext(NoFields, "hour", FromInt(h), [ok |-> 1], h \div 12) IN
   /\ SetExplains(NoFields, "hour", FromInt(h), [ok |-> 1], h \div 12) /\ f1 = [hour_div_12 |-> h \div 12, hour_mod_12 |-> h % 12]
   /\ \A g \in 0..23 : { r \in Res : SetExplains(f1, "hour", FromInt(g), r, h \div 12) } = { IF g = h THEN [ok |-> 1] ELSE Err("Impossible") }
ASSUME SetExplains([hour_mod_12 |-> 3], "hour", FromInt(16), Err("Impossible"), 1) /\ SetExplains([hour_mod_12 |-> 3], "hour", FromInt(16), Err("Impossible"), -1)
       /\ ~SetExplains([hour_mod_12 |-> 3], "hour", FromInt(16), Err("Impossible"), 0) /\ ~SetExplains([hour_mod_12 |-> 3], "hour", FromInt(16), [ok |-> 1], 1)
       /\ SetNext([hour_mod_12 |-> 3], "hour", FromInt(16), Err("Impossible"), 1) = [hour_mod_12 |-> 3, hour_div_12 |-> 1]

\* ------------------------------------------------------------------ time of day, timestamp cross-check, zoned resolutions
TimeFieldsOf(x) == [hour_div_12 |-> x.secs \div 43200, hour_mod_12 |-> (x.secs \div 3600) % 12, minute |-> (x.secs \div 60) % 60,
                    second |-> SecField(x), nanosecond |-> x.frac % NSec]
Restrict(f, T) == [k \in T \cap DOMAIN f |-> f[k]]
Times == { [secs |-> 0, frac |-> 0], [secs |-> 45296, frac |-> 789000000], [secs |-> 86399, frac |-> 1999999999], [secs |-> 43200, frac |-> 1] }
ASSUME \A x \in Times, T \in SUBSET TimeFields : LET f == Restrict(TimeFieldsOf(x), T) IN
   /\ AgreesTime(x, f)
   /\ TimeEnough(f) = ({"hour_div_12", "hour_mod_12", "minute"} \subseteq T /\ ("nanosecond" \in T => "second" \in T))
   /\ (T = TimeFields => TimeExplains(f, [ok |-> x]))
   /\ (TimeEnough(f) => AgreesTime(TimeOf(f), f) /\ TimeOf(f).secs = x.secs - (IF "second" \in T THEN 0 ELSE x.secs % 60))
ASSUME SecsOf(EpochDay, 0) = Zero /\ SecsOf(D(2015, 9, 18), 86164) = FromInt(1442620564)               \* 2015-09-18T23:56:04Z
ASSUME TsAgrees([n |-> D(2015, 9, 18), secs |-> 86164, frac |-> 0], 3600, FromInt(1442616964))
       /\ ~TsAgrees([n |-> D(2015, 9, 18), secs |-> 86164, frac |-> 0], 3600, FromInt(1442616965))
       /\ TsAgrees([n |-> D(2015, 9, 18), secs |-> 86399, frac |-> NSec], 0, FromInt(1442620800))      \* a leap second may be off by one
\* a full derived field set with timestamp and offset resolves to the value in every resolution; contradictions are refused
W0 == [n |-> D(2015, 9, 18), secs |-> 86164, frac |-> 5]
FW(off) == FieldsOfDate(W0.n) @@ TimeFieldsOf(W0) @@ [timestamp |-> Sub(SecsOf(W0.n, W0.secs), FromInt(off)), offset |-> off]
ASSUME \A off \in {0, 3600, -86399} : \A T \in SUBSET {"year", "month", "day", "hour_div_12", "hour_mod_12", "minute", "second", "nanosecond", "timestamp", "offset"} :
   LET f == Restrict(FW(off), T)  e == NdtExpect(f, off, W0) IN
   /\ e.k \in {"ok", "err", "okerr"}
   /\ (e.k = "ok" => e.x.n = W0.n /\ NdtO1(f, off, e.x) /\ DtzExplains(f, off, W0, [ok |-> e.x @@ [off |-> off]]))
   /\ LET dateSuff == {"year", "month", "day"} \subseteq T
          tOK == {"hour_div_12", "hour_mod_12", "minute"} \subseteq T /\ ("nanosecond" \in T => "second" \in T)
      IN e.k = "ok" <=> IF "timestamp" \in T THEN ~(dateSuff /\ tOK /\ "second" \notin T)      \* W0's second is 4: the assumed 0 contradicts the timestamp
                        ELSE dateSuff /\ tOK
   /\ (("offset" \notin T /\ "timestamp" \notin T) => DtExplains(f, W0, Err("NotEnough")) /\ ~DtExplains(f, W0, [ok |-> W0 @@ [off |-> 0]]))
   /\ (("offset" \in T /\ e.k = "ok") => DtExplains(f, W0, [ok |-> e.x @@ [off |-> off]]) /\ ~DtExplains(f, W0, [ok |-> e.x @@ [off |-> off + 1]])
                                          /\ ~DtzExplains(f, off + 60, W0, [ok |-> e.x @@ [off |-> off + 60]]))
=============================================================================
