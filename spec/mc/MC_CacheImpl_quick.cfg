SPECIFICATION ISpec
CONSTANTS
  Threads = {t1, t2}
  TicksPerSec = 4
  MaxTime = 5
  MaxVer = 1
  EnvVals <- QuickVals
  SysChoices <- QuickSys
  Sequential = TRUE
  Val <- WVal
  AbsFiles <- WAbsFiles
  RelFiles <- WRelFiles
  Rules <- WRules
  Dirs <- QuickDirs
VIEW ImplView
SYMMETRY ThreadSymm
INVARIANT TypeOK
PROPERTY ImplFresh
PROPERTY ImplFreshOnNewThread
PROPERTY ImplOneZone
PROPERTY SeqExact
CHECK_DEADLOCK FALSE
