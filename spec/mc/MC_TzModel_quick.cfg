SPECIFICATION Spec
CONSTANT LineMax = 6
CONSTANT MaxTrans = 2
CONSTANT OffList <- QuickOffs
INVARIANT OffsetRule
INVARIANT RoundTrip
INVARIANT CandidatesAreOccurrences
INVARIANT OnceTwiceNever
INVARIANT AbbrevOnlyTransitionIsSingle
INVARIANT OpenBoundaryAgrees
INVARIANT GapFoldShape
INVARIANT ScanRefines
CHECK_DEADLOCK FALSE
