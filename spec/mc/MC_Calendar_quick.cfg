SPECIFICATION Spec
CONSTANT Windows <- QuickWindows
INVARIANT Bijection
INVARIANT ExactDomain
INVARIANT OrderAndSucc
INVARIANT Periodic
INVARIANT WeekNumbers
CHECK_DEADLOCK FALSE
