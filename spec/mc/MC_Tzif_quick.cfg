SPECIFICATION Spec
CONSTANT Mode = "quick"
INVARIANT RoundTripZone
INVARIANT PrefixesMalformed
INVARIANT MutationsClassified
INVARIANT ParseShow
CHECK_DEADLOCK FALSE
