SPECIFICATION Spec
CONSTANT Deep = FALSE
INVARIANT MonthStep
INVARIANT Replace
INVARIANT Weeks
INVARIANT Nth
INVARIANT WallRoundTrip
CHECK_DEADLOCK FALSE
