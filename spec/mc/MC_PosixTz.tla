---------------------------- MODULE MC_PosixTz ----------------------------
(* Bounded design check of the POSIX rule semantics (job D for C05): the     *)
(* statement of C05 on the specification itself for a family of rules and    *)
(* years, plus anchors that pin the definitions to real-world facts.         *)
EXTENDS PosixTz, TLC
CONSTANT Years
VARIABLES ri, y
N3(a, b, c) == <<a, b, c>>
EST == Ty(-18000, FALSE, N3(69, 83, 84))
EDT == Ty(-14400, TRUE, N3(69, 68, 84))
CET == Ty(3600, FALSE, N3(67, 69, 84))
CEST == Ty(7200, TRUE, <<67, 69, 83, 84>>)
US == AltRule(EST, EDT, DayM(3, 2, 0), 7200, DayM(11, 1, 0), 7200)             \* EST5EDT,M3.2.0,M11.1.0
EU == AltRule(CET, CEST, DayM(3, 5, 0), 7200, DayM(10, 5, 0), 10800)           \* CET-1CEST,M3.5.0,M10.5.0/3
Rules == <<
   US, EU,
   AltRule(Ty(36000, FALSE, N3(65, 69, 83)), Ty(39600, TRUE, N3(65, 69, 68)), DayM(10, 1, 0), 7200, DayM(4, 1, 0), 10800),      \* southern hemisphere
   AltRule(Ty(3600, FALSE, N3(73, 83, 84)), Ty(0, TRUE, N3(71, 77, 84)), DayM(10, 5, 0), 7200, DayM(3, 5, 0), 3600),             \* negative DST (Dublin)
   AltRule(Ty(-10800, FALSE, N3(45, 48, 51)), Ty(10800, TRUE, N3(43, 48, 51)), DayJ(60), 0, DayJ(300), 86400),                  \* Jn, six-hour jump... (offsets differ by 6 h)
   AltRule(Ty(12600, FALSE, N3(65, 65, 65)), Ty(16200, TRUE, N3(66, 66, 66)), DayZ(59), -3600, DayZ(264), 90000),               \* n, v3 times
   AltRule(Ty(-34200, FALSE, N3(65, 65, 65)), Ty(-34200, TRUE, N3(66, 66, 66)), DayM(2, 1, 3), 7200, DayM(11, 5, 6), 7200),     \* flag-only change
   AltRule(Ty(20700, FALSE, N3(65, 65, 65)), Ty(20701, TRUE, N3(66, 66, 66)), DayM(6, 3, 1), 1, DayM(7, 3, 1), 86399),          \* one-second change
   AltRule(Ty(0, FALSE, N3(65, 65, 65)), Ty(-3600, TRUE, N3(66, 66, 66)), DayM(5, 2, 5), 590400, DayM(9, 2, 5), -590400)        \* v3 extremes +-164 h
>>
Init == ri \in 1..Len(Rules) /\ y \in Years
Next == UNCHANGED <<ri, y>>
Spec == Init /\ [][Next]_<<ri, y>>
QuickYears == {1999, 2000, 2024, -1, 262142}
ThoroughYears == (1995..2030) \cup {-262143, -262142, -401, -400, -1, 0, 1, 1600, 1900, 9999, 100000, 262141, 262142}
R == Rules[ri]
\* --- anchors: real-world facts ----------------------------------------------------------------------------
D(yy, m, d) == DayNumber(yy, m, d)
ASSUME StartUtc(US, 2024) = <<D(2024, 3, 10), 7 * 3600>> /\ EndUtc(US, 2024) = <<D(2024, 11, 3), 6 * 3600>>      \* US DST 2024
ASSUME StartUtc(US, 2007) = <<D(2007, 3, 11), 7 * 3600>> /\ EndUtc(US, 2021) = <<D(2021, 11, 7), 6 * 3600>>
ASSUME StartUtc(EU, 2024) = <<D(2024, 3, 31), 3600>> /\ EndUtc(EU, 2024) = <<D(2024, 10, 27), 3600>>            \* EU summer time 2024
ASSUME StartUtc(EU, 2000) = <<D(2000, 3, 26), 3600>> /\ EndUtc(EU, 1999) = <<D(1999, 10, 31), 3600>>
ASSUME RuleDayDate(DayJ(60), 2024) = D(2024, 3, 1) /\ RuleDayDate(DayJ(60), 2023) = D(2023, 3, 1)                \* Jn never counts 29 February
ASSUME RuleDayDate(DayJ(59), 2024) = D(2024, 2, 28) /\ RuleDayDate(DayJ(365), 2024) = D(2024, 12, 31) /\ RuleDayDate(DayJ(1), 2024) = D(2024, 1, 1)
ASSUME RuleDayDate(DayZ(59), 2024) = D(2024, 2, 29) /\ RuleDayDate(DayZ(59), 2023) = D(2023, 3, 1)               \* n counts it
ASSUME RuleDayDate(DayZ(0), 2023) = D(2023, 1, 1) /\ RuleDayDate(DayZ(365), 2024) = D(2024, 12, 31) /\ RuleDayDate(DayZ(364), 2023) = D(2023, 12, 31)
ASSUME RuleDayDate(DayM(2, 5, 4), 2024) = D(2024, 2, 29) /\ RuleDayDate(DayM(2, 5, 4), 2023) = D(2023, 2, 23)    \* last Thursday of February
ASSUME RuleDayDate(DayM(1, 1, 1), 2024) = D(2024, 1, 1) /\ RuleDayDate(DayM(9, 1, 0), 2024) = D(2024, 9, 1) /\ RuleDayDate(DayM(12, 5, 2), 2024) = D(2024, 12, 31)
ASSUME RuleTypeAt(US, <<D(2024, 7, 1), 0>>) = EDT /\ RuleTypeAt(US, <<D(2024, 1, 1), 0>>) = EST /\ RuleTypeAt(US, <<D(2024, 12, 31), 86399>>) = EST
ASSUME RuleTypeAt(Rules[3], <<D(2024, 1, 1), 0>>).dst /\ ~RuleTypeAt(Rules[3], <<D(2024, 7, 1), 0>>).dst        \* southern summer spans the new year
ASSUME RuleLocalExplains(US, <<D(2024, 3, 10), 2 * 3600 + 1800>>, OutNone)                                        \* 02:30 does not exist
ASSUME RuleLocalExplains(US, <<D(2024, 11, 3), 3600 + 1800>>, OutAmb(-14400, -18000))                             \* 01:30 twice, EDT first
ASSUME ~RuleLocalExplains(US, <<D(2024, 11, 3), 3600 + 1800>>, OutAmb(-18000, -14400))
ASSUME ~RuleLocalExplains(US, <<D(2024, 11, 3), 3600 + 1800>>, OutSingle(-18000))
ASSUME RuleLocalExplains(US, <<D(2024, 3, 10), 7200>>, OutNone) /\ RuleLocalExplains(US, <<D(2024, 3, 10), 7200>>, OutSingle(-18000))   \* the open second
ASSUME RuleInScope(US, 2024) /\ RuleInScope(EU, -262143) /\ ~RuleInScope(AltRule(EST, EDT, DayJ(1), 0, DayM(11, 1, 0), 7200), 2024)
ASSUME ~RuleInScope(AltRule(EST, EDT, DayM(3, 2, 0), 7200, DayJ(365), 86400), 2024)
\* --- the statement of C05 around both transitions of year y ---------------------------------------------------------
Trans == << [at |-> StartUtc(R, y), a |-> R.std, b |-> R.dst], [at |-> EndUtc(R, y), a |-> R.dst, b |-> R.std] >>
Near == {-86401, -3601, -2, -1, 0, 1, 2, 1800, 3599, 3600, 3601, 86400}
InScopeHere == RuleInScope(R, y)
OffsetRule == \A k \in 1..2 : LET t == Trans[k] IN
   /\ RuleTypeAt(R, t.at) = t.b /\ RuleTypeAt(R, Shift(t.at, -1)) = t.a
   /\ RuleTypeAt(R, Shift(t.at, 86400)) = t.b /\ RuleTypeAt(R, Shift(t.at, -86400)) = t.a
RoundTrip == \A k \in 1..2 : \A d \in Near :
   LET u == Shift(Trans[k].at, d)  o == RuleTypeAt(R, u).off IN o \in RuleValidOffsets(R, Shift(u, o))
GapFoldShape == \A k \in 1..2 :
   LET t == Trans[k]  a == t.a.off  b == t.b.off  lo == IF a < b THEN a ELSE b  hi == IF a < b THEN b ELSE a
       W(d) == Shift(t.at, d)
       Out(d) == OutcomeOf(RuleValidOffsets(R, W(d))) IN
   /\ Out(lo - 1) = OutSingle(a) /\ Out(hi) = OutSingle(b) /\ Out(hi + 1) = OutSingle(b) /\ Out(lo - 3600) = OutSingle(a)
   /\ (a < b => \A d \in {a, a + 1, (a + b) \div 2, b - 1} : (d < b => Out(d) = OutNone))
   /\ (a > b => \A d \in {b, b + 1, (a + b) \div 2, a - 1} : (d < a => Out(d) = OutAmb(a, b)))
   /\ (a # b => RuleOpenBoundary(R, W(a)))
   /\ \A d \in {lo - 1, lo + 1, hi - 1, hi + 1} : (d # a => ~RuleOpenBoundary(R, W(d)))
   /\ (a = b => \A d \in Near : ~RuleOpenBoundary(R, W(a + d)) /\ Out(a + d) = OutSingle(a))
EarliestFirst == \A k \in 1..2 : \A d \in Near :
   LET L == Shift(Trans[k].at, Trans[k].b.off + d)  out == OutcomeOf(RuleValidOffsets(R, L)) IN
   out.k = "amb" => Lt2(Shift(L, -out.o1), Shift(L, -out.o2))
AllInScope == InScopeHere
=============================================================================
