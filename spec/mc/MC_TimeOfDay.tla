---------------------------- MODULE MC_TimeOfDay ----------------------------
(* Bounded design check of TimeOfDay (job D for C07) on the real constants, over the lattice of values at which the
   case analysis of the time line changes. *)
EXTENDS TimeAddImpl, TLC
CONSTANT Deep
VARIABLES t, u, d, phase
SecsL == IF Deep THEN {0, 1, 58, 59, 60, 3599, 3600, 43199, 43200, 86340, 86398, 86399} ELSE {0, 59, 60, 86398, 86399}
FracL == IF Deep THEN {0, 1, 499999999, 999999999, 1000000000, 1000000001, 1500000000, 1999999999} ELSE {0, 1, 999999999, 1000000000, 1999999999}
Times == { [secs |-> s, frac |-> f] : s \in SecsL, f \in FracL }
Big10_12 == Mul(FromInt(1000000), FromInt(1000000))
DurBase == { Zero, FromInt(1), FromInt(999999999), FromInt(NS), FromInt(NS + 1), FromInt(2 * NS - 1), Mul1e9(FromInt(2)), Mul1e9(FromInt(60)),
             Mul1e9(FromInt(86399)), Mul1e9(FromInt(86400)), Add(Mul1e9(FromInt(86400)), FromInt(1)), Mul1e9(Big10_12),
             Mul(I64Max, FromInt(1000000)) } \cup (IF Deep THEN { FromInt(500000000), FromInt(1500000000), Mul1e9(FromInt(3600)), Mul1e9(FromInt(172800)) } ELSE {})
Durs == DurBase \cup { Neg(x) : x \in DurBase }
\* two levels so that the workers share the evaluation of the invariants
Init == t \in Times /\ u = t /\ d = Zero /\ phase = 0
Next == phase = 0 /\ phase' = 1 /\ t' = t /\ u' \in Times /\ d' \in Durs
Spec == Init /\ [][Next]_<<t, u, d, phase>>
H(h, m, s, n) == [secs |-> h * 3600 + m * 60 + s, frac |-> n]
Sec(k) == Mul1e9(FromInt(k))
Ms(k) == Mul(FromInt(k), FromInt(1000000))
\* the examples of the documentation of NaiveTime (leap second handling), instantiated
ASSUME AddSigned(H(3, 5, 59, 1300000000), Ms(-500)).t  = H(3, 5, 59, 800000000)       \* 03:05:59.3 (leap) - 0.5 s
ASSUME AddSigned(H(3, 5, 59, 1300000000), Ms(500)).t   = H(3, 5, 59, 1800000000)      \* stays inside the leap second
ASSUME AddSigned(H(3, 5, 59, 1300000000), Ms(800)).t   = H(3, 6, 0, 100000000)        \* leaves it forward
ASSUME AddSigned(H(3, 5, 59, 1300000000), Sec(10)).t   = H(3, 6, 9, 300000000)
ASSUME AddSigned(H(3, 5, 59, 1300000000), Sec(-10)).t  = H(3, 5, 50, 300000000)
ASSUME AddSigned(H(3, 5, 59, 1300000000), Sec(86400 * 10)).t = H(3, 5, 59, 300000000)
ASSUME AddSigned(H(3, 5, 7, 0), Sec(86399)) = [t |-> H(3, 5, 6, 0), carry |-> FromInt(86400)]
ASSUME AddSigned(H(3, 5, 7, 0), Sec(-86399)) = [t |-> H(3, 5, 8, 0), carry |-> FromInt(-86400)]
ASSUME Since(H(3, 0, 59, 1000000000), H(3, 0, 59, 0)) = Sec(1)
ASSUME Since(H(3, 0, 59, 1500000000), H(3, 0, 59, 0)) = Ms(1500)
ASSUME Since(H(3, 0, 59, 1000000000), H(3, 0, 0, 0)) = Sec(60)
ASSUME Since(H(3, 0, 0, 0), H(2, 59, 59, 1000000000)) = Sec(1)
ASSUME Since(H(3, 0, 59, 1000000000), H(2, 59, 59, 1000000000)) = Sec(61)
ASSUME FromHmsn(FromInt(23), FromInt(59), FromInt(59), FromInt(1999999999)) = H(23, 59, 59, 1999999999)
ASSUME FromHmsn(FromInt(23), FromInt(59), FromInt(58), FromInt(1000000000)) = NoTime
ASSUME FromHmsn(FromInt(24), Zero, Zero, Zero) = NoTime /\ FromHmsn(Zero, FromInt(60), Zero, Zero) = NoTime /\ FromHmsn(Zero, Zero, FromInt(60), Zero) = NoTime
\* C07 on the specification
WellFormed2 == LET r == AddSigned(t, d) IN IsTime(r.t) /\ DivModSmall(r.carry, SPD)[2] = 0       \* carry is whole days
SubIsAddNeg == SubSigned(t, d) = [t |-> AddSigned(t, Neg(d)).t, carry |-> Neg(AddSigned(t, Neg(d)).carry)]
SinceAntisymmetric == Since(t, u) = Neg(Since(u, t)) /\ Since(t, t) = Zero
NoLeapIsModular ==   \* without a leap operand the result is plain modular arithmetic
   ~IsLeapRep(t) => LET r == AddSigned(t, d) IN Add(Pos(r.t), Mul1e9(r.carry)) = Add(Pos(t), d)
NoLeapSinceIsDifference == (~IsLeapRep(t) /\ ~IsLeapRep(u)) => Since(t, u) = Sub(Pos(t), Pos(u))
AddThenSince ==      \* moving by a sub-day distance that does not cross a day boundary is undone by Since
   (~IsLeapRep(t) /\ IsZero(AddSigned(t, d).carry)) => Since(AddSigned(t, d).t, t) = d
\* the transcribed algorithm refines the time-line definition (impl/TimeAddImpl.tla)
ImplRefines == ImplAdd(t, d) = AddSigned(t, d)
LeapStay == (IsLeapRep(t) /\ IsLeapRep(AddSigned(t, d).t)) => AddSigned(t, d).t.secs = t.secs /\ IsZero(AddSigned(t, d).carry)
=============================================================================
