SPECIFICATION Spec
CONSTANT MaxLen = 3
CONSTANT Alphabet <- QuickAlphabet
INVARIANT Progress
INVARIANT CountBound
INVARIANT Agree
INVARIANT Modes
INVARIANT LiteralCopied
INVARIANT LenientLiterals
CHECK_DEADLOCK FALSE
