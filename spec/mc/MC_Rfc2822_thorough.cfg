SPECIFICATION Spec
CONSTANT M = 7
INVARIANT GenRead
INVARIANT WriteLaws
CHECK_DEADLOCK FALSE
