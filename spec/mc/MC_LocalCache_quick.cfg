SPECIFICATION Spec
CONSTANTS
  Threads = {t1, t2}
  TicksPerSec = 4
  MaxTime = 8
  MaxVer = 1
  EnvVals <- QuickVals
  SysChoices <- QuickSys
  Val <- WVal
  AbsFiles <- WAbsFiles
  RelFiles <- WRelFiles
  Rules <- WRules
  Dirs <- QuickDirs
VIEW View
SYMMETRY ThreadSymm
INVARIANT TypeOK
INVARIANT CacheZoneOK
PROPERTY FreshAct
PROPERTY FreshOnNewThreadAct
PROPERTY OneZonePerConversionAct
CHECK_DEADLOCK FALSE
