SPECIFICATION Spec
CONSTANT MaxLen = 4
CONSTANT Alphabet <- ThoroughAlphabet
INVARIANT Progress
INVARIANT CountBound
INVARIANT Agree
INVARIANT Modes
INVARIANT LiteralCopied
INVARIANT LenientLiterals
CHECK_DEADLOCK FALSE
