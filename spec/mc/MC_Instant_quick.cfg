SPECIFICATION Spec
CONSTANT Deep = FALSE
INVARIANT TsRoundTrip
INVARIANT TsExactDomain
INVARIANT AddExact
INVARIANT SinceExact
INVARIANT SinceAntisym
INVARIANT DateDays
INVARIANT RoundLaws
CHECK_DEADLOCK FALSE
