----------------------------- MODULE MC_DateOps -----------------------------
(* Bounded design check of DateOps and DateTimeTz (job D for C08, C04). *)
EXTENDS DateTimeTz, TLC
CONSTANT Deep
VARIABLES n, k, off, phase
YearsL == IF Deep THEN {MinYear, MinYear + 1, -1, 0, 1, 1900, 2000, 2023, 2024, MaxYear - 1, MaxYear} ELSE {MinYear, 0, 2023, 2024, MaxYear}
Days == UNION { UNION { { DayNumber(y, m, 1), DayNumber(y, m, 28), DayNumber(y, m, DaysInMonth(y, m)) } : m \in {1, 2, 3, 12} } : y \in YearsL }
Ks == {0, 1, -1, 11, 12, 13, -12, 1200, -1200, 4800} \cup (IF Deep THEN {2, -2, 23, 24, 25, 6290000, -6290000} ELSE {})
Offs == {0, 1, -1, 3600, -3600, 86399, -86399}
Init == n \in Days /\ k = 0 /\ off = 0 /\ phase = 0
Next == phase = 0 /\ n' = n /\ ((phase' = 1 /\ k' \in Ks /\ off' = off) \/ (phase' = 2 /\ off' \in Offs /\ k' = k))
Spec == Init /\ [][Next]_<<n, k, off, phase>>
ASSUME AddMonths(DayNumber(2024, 1, 31), One) = DayNumber(2024, 2, 29) /\ AddMonths(DayNumber(2023, 1, 31), One) = DayNumber(2023, 2, 28)
ASSUME AddMonths(DayNumber(2024, 3, 31), FromInt(-1)) = DayNumber(2024, 2, 29) /\ AddMonths(DayNumber(2022, 12, 15), One) = DayNumber(2023, 1, 15)
ASSUME NthWeekday(2017, 3, 4, 2) = DayNumber(2017, 3, 10)                                   \* the second Friday of March 2017
ASSUME WeekFirst(DayNumber(2022, 4, 18), 0) = DayNumber(2022, 4, 18) /\ WeekFirst(DayNumber(2022, 4, 18), 1) = DayNumber(2022, 4, 12)
ASSUME YearsSince(DayNumber(2024, 2, 28), DayNumber(2000, 2, 29)) = 23 /\ YearsSince(DayNumber(2024, 2, 29), DayNumber(2000, 2, 29)) = 24
ASSUME YearCe(DayNumber(0, 1, 1)) = <<FALSE, 1>> /\ YearCe(DayNumber(1, 1, 1)) = <<TRUE, 1>>
MonthStep == phase = 1 =>
   LET y == YearOfDay(n)  m == MonthOfDay(n)  d == DayOfMonth(n)  r == AddMonths(n, FromInt(k)) IN
   IF r = NoDate THEN (y * 12 + m - 1 + k) \div 12 \notin MinYear..MaxYear          \* fails only when the target year is out of range
   ELSE /\ YearOfDay(r) * 12 + MonthOfDay(r) = y * 12 + m + k                    \* the year-month moves by exactly k
        /\ DayOfMonth(r) = MinOf(d, DaysInMonth(YearOfDay(r), MonthOfDay(r)))    \* the day is kept, clamped
        /\ (k = 0 => r = n)
Replace == phase = 0 =>
   LET y == YearOfDay(n)  m == MonthOfDay(n)  d == DayOfMonth(n) IN
   /\ WithDate("day", n, FromInt(d)) = n /\ WithDate("month", n, FromInt(m)) = n /\ WithDate("year", n, FromInt(y)) = n
   /\ WithDate("ordinal", n, FromInt(OrdinalOf(n))) = n /\ WithDate("day0", n, FromInt(d - 1)) = n /\ WithDate("month0", n, FromInt(m - 1)) = n
   /\ WithDate("day", n, Zero) = NoDate /\ WithDate("day", n, FromInt(32)) = NoDate /\ WithDate("month", n, FromInt(13)) = NoDate /\ WithDate("ordinal", n, FromInt(367)) = NoDate
   /\ \A v \in 1..31 : LET r == WithDate("day", n, FromInt(v)) IN
        IF v <= DaysInMonth(y, m) THEN YearOfDay(r) = y /\ MonthOfDay(r) = m /\ DayOfMonth(r) = v ELSE r = NoDate
   /\ \A v \in 1..12 : LET r == WithDate("month", n, FromInt(v)) IN
        IF d <= DaysInMonth(y, v) THEN YearOfDay(r) = y /\ MonthOfDay(r) = v /\ DayOfMonth(r) = d ELSE r = NoDate
Weeks == phase = 0 => \A s \in 0..6 :
   LET f == WeekFirst(n, s) IN WeekdayOf(f) = s /\ f <= n /\ n - f <= 6 /\ WeekLast(n, s) = f + 6 /\ WeekdayOf(f + 6) = (s + 6) % 7
Nth == phase = 0 => \A wd \in 0..6 : LET y == YearOfDay(n) m == MonthOfDay(n) IN
   /\ \A j \in 1..4 : LET r == NthWeekday(y, m, wd, j) IN r # NoDate /\ WeekdayOf(r) = wd /\ MonthOfDay(r) = m /\ (DayOfMonth(r) - 1) \div 7 = j - 1
   /\ NthWeekday(y, m, wd, 6) = NoDate /\ NthWeekday(y, m, wd, 0) = NoDate
\* C04 on the spec: wall clock and instant determine each other; construction fails only when the other side leaves the range
WallRoundTrip == phase = 2 => \A s \in {0, 1, 86399} :
   LET u == [n |-> n, secs |-> s, frac |-> 5]  w == Wall(u, off) IN
   /\ UtcOf(w, off) = u /\ FromLocal(w, off) = u
   /\ (w.n - n) \in {-1, 0, 1}                                                    \* at most one day of headroom
   /\ Ns(w) = Add(Ns(u), Mul1e9(FromInt(off)))                                    \* the wall clock is the instant plus the offset
   /\ TzWith("hour", u, off, FromInt(w.secs \div 3600)) = u /\ TzWith("day", u, off, FromInt(DayOfMonth(w.n))) = u
   /\ TzAddDays(u, off, Zero) = u /\ TzAddMonths(u, off, Zero) = u
   /\ TzWithTime(u, off, [secs |-> w.secs, frac |-> w.frac]) = u
   /\ (TzAddDays(u, off, One) # NoDT => Wall(TzAddDays(u, off, One), off) = [w EXCEPT !.n = w.n + 1])
=============================================================================
