SPECIFICATION Spec
CONSTANT Deep = FALSE
CONSTANT StrictLeapGuard = TRUE
INVARIANT ImplRefines
INVARIANT WellFormed2
INVARIANT SubIsAddNeg
INVARIANT SinceAntisymmetric
INVARIANT NoLeapIsModular
INVARIANT NoLeapSinceIsDifference
INVARIANT AddThenSince
INVARIANT LeapStay
CHECK_DEADLOCK FALSE
