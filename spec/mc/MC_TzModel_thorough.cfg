SPECIFICATION Spec
CONSTANT LineMax = 8
CONSTANT MaxTrans = 3
CONSTANT OffList <- ThoroughOffs
INVARIANT OffsetRule
INVARIANT RoundTrip
INVARIANT CandidatesAreOccurrences
INVARIANT OnceTwiceNever
INVARIANT AbbrevOnlyTransitionIsSingle
INVARIANT OpenBoundaryAgrees
INVARIANT GapFoldShape
INVARIANT ScanRefines
CHECK_DEADLOCK FALSE
