---------------------------- MODULE MC_TzModel ----------------------------
(* Bounded design check of TzModel (job D for C05): the statement of C05 is  *)
(* checked on the specification itself, on a scaled time line, before the     *)
(* specification judges code.  All zones with at most MaxTrans transitions    *)
(* at the points 0..LineMax, types chosen from TypeList (offsets -3..3, an    *)
(* abbreviation-only and a DST-flag-only variant), first type = offset 0.     *)
(* Occurrences of a wall-clock reading are counted by brute force over the    *)
(* line and compared with the candidate-set lookup.                           *)
EXTENDS TzModel, TLC
CONSTANTS LineMax, MaxTrans, OffList
VARIABLES times, tys, ready, tab
QuickOffs == <<1, -2, 3>>
ThoroughOffs == <<1, -1, 2, 3, -3>>
A3 == <<65, 65, 65>>
B3 == <<66, 66, 66>>
\* the first type (in force before the first transition), then one type per offset, then the variants
TypeList == <<Ty(0, FALSE, <<76, 77, 84>>)>> \o [i \in 1..Len(OffList) |-> Ty(OffList[i], FALSE, A3)]
            \o <<Ty(0, FALSE, B3), Ty(OffList[1], TRUE, A3)>>
Increasing(s) == \A i \in 1..(Len(s) - 1) : s[i] < s[i + 1]
TimeSeqs == { s \in UNION { [1..k -> 0..LineMax] : k \in 0..MaxTrans } : Increasing(s) }
ZoneOf(ts, ty) == [trans |-> [i \in 1..Len(ts) |-> [t |-> FromInt(ts[i]), ty |-> ty[i]]], types |-> TypeList, rule |-> NoRule]
Z == ZoneOf(times, tys)
OffSet == { TypeList[k].off : k \in 1..Len(TypeList) }
MaxOff == MaxS(OffSet)
MinOff == MinS(OffSet)
Inst == (0 - 2)..(LineMax + 2)
Walls == (MinOff - 3)..(LineMax + MaxOff + 3)
OffAtZ(z, u) == TypeAt(z, FromInt(u)).off
OffAt(u) == OffAtZ(Z, u)
\* ground truth by brute force: the instants whose wall-clock reading is L
OccZ(z, L) == { u \in (L - MaxOff)..(L - MinOff) : u + OffAtZ(z, u) = L }
VZ(z, L) == ValidOffsets(z, FromInt(L), CandOf(z, FromInt(L)))
\* per wall-clock reading: the occurrences counted by brute force, the candidate set of the specification, the open second.
\* Computed once when the zone is complete and kept in the state; every invariant below reads this table.
TabOf(z) == [L \in Walls |-> [occ |-> OccZ(z, L), v |-> VZ(z, L), open |-> OpenBoundaryDirect(z, FromInt(L))]]
Init == times \in TimeSeqs /\ tys = <<>> /\ ready = FALSE /\ tab = <<>>
Next == /\ ~ready /\ ready' = TRUE /\ UNCHANGED times
        /\ tys' \in [1..Len(times) -> 1..Len(TypeList)]
        /\ tab' = TabOf(ZoneOf(times, tys'))
Spec == Init /\ [][Next]_<<times, tys, ready, tab>>
\* --- anchors ---------------------------------------------------------------------------------------
ASSUME MinUtc = Neg(Mk(FALSE, <<800, 228, 601, 334, 8>>)) /\ MaxUtc = Mk(FALSE, <<799, 876, 266, 210, 8>>)   \* chrono's DateTime::<Utc>::MIN_UTC / MAX_UTC timestamps
ASSUME PairOfBig(Zero) = <<EpochDay, 0>> /\ PairOfBig(FromInt(-1)) = <<EpochDay + 146096, 86399>>
ASSUME BigOfPair(<<EpochDay + 1, 1>>) = FromInt(86401)
\* --- the offset at an instant: last transition at or before it, first type before the first ------------------
OffsetRule == ready => \A u \in Inst :
   LET before == { i \in 1..Len(times) : times[i] <= u } IN
   /\ IndexOf(Z, FromInt(u)) = Cardinality(before)
   /\ IndexOK(Z, FromInt(u), Cardinality(before))
   /\ \A i \in 0..Len(times) : IndexOK(Z, FromInt(u), i) => i = Cardinality(before)            \* a verified hint is THE index
   /\ TypeAt(Z, FromInt(u)) = (IF before = {} THEN TypeList[1] ELSE TypeList[tys[MaxS(before)]])
Out(tb, L) == OutcomeOf(tb[L].v)
\* --- converting an instant to wall-clock time and back returns that instant ---------------------------------
RoundTrip == ready => \A u \in Inst : LET o == OffAt(u) IN o \in tab[u + o].v /\ u \in tab[u + o].occ
\* --- the candidates are exactly the occurrences ---------------------------------------------------------
CandidatesAreOccurrences == ready => \A L \in Walls :
   LET occ == tab[L].occ  vl == tab[L].v IN
   /\ vl = { L - u : u \in occ }
   /\ Cardinality(vl) = Cardinality(occ)
   /\ LocalOutcome(Z, FromInt(L)) = OutcomeOf(vl)
\* --- once / twice / never, earliest first -------------------------------------------------------------------
OnceTwiceNever == ready => \A L \in Walls :
   LET occ == tab[L].occ  vl == tab[L].v  out == OutcomeOf(vl)  n == Cardinality(occ) IN
   /\ (n = 0 => out.k = "none")
   /\ (n = 1 => out.k = "single" /\ L - out.o1 \in occ)
   /\ (n = 2 => out.k = "amb" /\ occ = {L - out.o1, L - out.o2} /\ L - out.o1 < L - out.o2
                /\ L - out.o1 = MinS(occ) /\ L - out.o2 = MaxS(occ))
   /\ (n <= 2 => OutcomeExplains(vl, FALSE, out))
   /\ (n >= 3 => \A r \in {OutNone, OutSingle(0), OutAmb(1, 0)} : OutcomeExplains(vl, FALSE, r))
\* --- a transition that changes only the abbreviation or the DST flag is invisible to the lookup -------------
WithoutTrans(k) == [trans |-> [i \in 1..(Len(times) - 1) |-> Z.trans[IF i < k THEN i ELSE i + 1]], types |-> TypeList, rule |-> NoRule]
AbbrevOnlyTransitionIsSingle == ready =>
   /\ \A k \in 1..Len(times) : TypeBefore(Z, k).off = TypeAfter(Z, k).off =>
         \A L \in Walls : LocalOutcome(Z, FromInt(L)) = LocalOutcome(WithoutTrans(k), FromInt(L))
   /\ ((\A k \in 1..Len(times) : TypeAfter(Z, k).off = 0) => \A L \in Walls : LocalOutcome(Z, FromInt(L)) = OutSingle(0))
\* --- the open boundary second, said in two ways ---------------------------------------------------------------
OpenBoundaryAgrees == ready => \A L \in Walls :
   OpenBoundary(Z, FromInt(L), CandOf(Z, FromInt(L))) = tab[L].open
\* --- gaps and folds emerge with the shape the statement describes, when the wall-clock images of the
\*     transitions do not overlap ----------------------------------------------------------------------------------
Lo(k) == times[k] + MinS({TypeBefore(Z, k).off, TypeAfter(Z, k).off})
Hi(k) == times[k] + MaxS({TypeBefore(Z, k).off, TypeAfter(Z, k).off})
WellSpaced == \A i, j \in 1..Len(times) : i < j => Hi(i) < Lo(j)
GapFoldShape == (ready /\ WellSpaced) => \A k \in 1..Len(times) :
   LET a == TypeBefore(Z, k).off  b == TypeAfter(Z, k).off  T == times[k] IN
   /\ Out(tab, Lo(k) - 1) = OutSingle(a)
   /\ Out(tab, Hi(k)) = OutSingle(b)
   /\ (a < b => \A L \in (T + a)..(T + b - 1) : Out(tab, L) = OutNone)            \* skipped
   /\ (a > b => \A L \in (T + b)..(T + a - 1) : Out(tab, L) = OutAmb(a, b))       \* repeated, earliest first
   /\ (a # b => tab[T + a].open)
   /\ \A L \in Walls : tab[L].open => \E kk \in 1..Len(times) : L = times[kk] + TypeBefore(Z, kk).off
\* --- implementation-shaped model: the linear scan with a per-transition gap / fold classification ------------
\*     (DESIGN 5.3 LocalScanImpl; transcribed from TimeZoneRef::find_local_time_type_from_local, never an oracle)
RECURSIVE Scan(_, _, _)
Scan(L, k, prev) ==
   IF k > Len(times) THEN OutSingle(prev)
   ELSE LET after == TypeAfter(Z, k).off
            tend == times[k] + after
            tstart == times[k] + prev IN
        IF tstart > tend THEN (IF L < tend THEN OutSingle(prev) ELSE IF L <= tstart THEN OutAmb(prev, after) ELSE Scan(L, k + 1, after))
        ELSE IF tstart = tend THEN (IF L < tstart THEN OutSingle(prev) ELSE IF L = tend THEN OutSingle(after) ELSE Scan(L, k + 1, after))
        ELSE (IF L <= tstart THEN OutSingle(prev) ELSE IF L < tend THEN OutNone ELSE IF L = tend THEN OutSingle(after) ELSE Scan(L, k + 1, after))
LocalScanImpl(L) == Scan(L, 1, TypeList[1].off)
\* the scan refines the candidate-set lookup wherever the statement constrains the answer - under the spacing assumption
ScanRefines == (ready /\ WellSpaced) => \A L \in Walls :
   OutcomeExplains(tab[L].v, tab[L].open, LocalScanImpl(L))
\* without the assumption it does not: this property is expected to FAIL (kept for documentation, not in the cfgs)
ScanRefinesUnconditionally == ready => \A L \in Walls :
   OutcomeExplains(tab[L].v, tab[L].open, LocalScanImpl(L))
=============================================================================
