SPECIFICATION ISpec
CONSTANTS
  Threads = {t1, t2}
  TicksPerSec = 4
  MaxTime = 8
  MaxVer = 0
  EnvVals <- OneVal
  SysChoices <- QuickSys
  Sequential = FALSE
  Val <- WVal
  AbsFiles <- WAbsFiles
  RelFiles <- WRelFiles
  Rules <- WRules
  Dirs <- QuickDirs
VIEW ImplView
SYMMETRY ThreadSymm
INVARIANT TypeOK
PROPERTY ImplFresh
CHECK_DEADLOCK FALSE
