SPECIFICATION Spec
CONSTANT Values <- ThoroughValues
CONSTANT Corrupt <- SomeCorrupt
CONSTANT ScanMax = 4
INVARIANT Check
CHECK_DEADLOCK FALSE
