SPECIFICATION Spec
INVARIANT PairLaws
INVARIANT DayLaws
INVARIANT IterLaws
INVARIANT IterMachine
CHECK_DEADLOCK FALSE
