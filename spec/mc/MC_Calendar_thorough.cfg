SPECIFICATION Spec
CONSTANT Windows <- ThoroughWindows
INVARIANT Bijection
INVARIANT ExactDomain
INVARIANT OrderAndSucc
INVARIANT Periodic
INVARIANT WeekNumbers
CHECK_DEADLOCK FALSE
