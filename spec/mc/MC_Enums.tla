------------------------------ MODULE MC_Enums ------------------------------
(***************************************************************************)
(* Design check of Enums (job D for C19).  The domain is small enough to   *)
(* be exhaustive: all 7 weekdays, 12 months, all 128 x 128 pairs of sets,  *)
(* all 128 x 7 (set, start) iterators with every interleaving of `next`    *)
(* and `next_back`.  Facts about single weekdays / months / numbers /      *)
(* strings do not depend on the state and are ASSUMEs (evaluated once).    *)
(***************************************************************************)
EXTENDS Gen_EnumsCorpus, TLC
VARIABLES a, b, d,          \* two sets and a day
          it, fr, bk        \* the iterator a.iter(d) (run only where b = {}), the days it gave from the front / from the back
vars == <<a, b, d, it, fr, bk>>
\* all 128 x 128 pairs (with d = 0) for the binary laws, all 128 x 7 (set, day) (with b = {}) for the per-day laws and the iterator
Init == /\ a \in WdSets /\ b \in WdSets /\ d \in Days /\ (b = {} \/ d = 0) /\ it = ItNew(a, d) /\ fr = <<>> /\ bk = <<>>
StepF == /\ b = {} /\ it.rem # {} /\ LET s == ItNext(it) IN it' = s.it /\ fr' = Append(fr, s.r) /\ bk' = bk
         /\ UNCHANGED <<a, b, d>>
StepB == /\ b = {} /\ it.rem # {} /\ LET s == ItNextBack(it) IN it' = s.it /\ bk' = Append(bk, s.r) /\ fr' = fr
         /\ UNCHANGED <<a, b, d>>
Next == StepF \/ StepB
Spec == Init /\ [][Next]_vars
Fresh == fr = <<>> /\ bk = <<>>
Reverse(q) == [i \in 1..Len(q) |-> q[Len(q) + 1 - i]]
Range(q) == { q[i] : i \in 1..Len(q) }
RECURSIVE Iterate(_, _, _)                       \* Op applied k times is written out per operator below (no operator arguments)
Iterate(kind, x, k) == IF k = 0 THEN x ELSE Iterate(kind, CASE kind = "ws" -> WdSucc(x) [] kind = "wp" -> WdPred(x)
                                                                 [] kind = "ms" -> MoSucc(x) [] kind = "mp" -> MoPred(x), k - 1)

\* ------------------------------------------------------------------ weekdays and months (static)
\* successor / predecessor are 7- and 12-cycles: one orbit that covers everything, inverse of each other
ASSUME \A x \in Days : /\ WdSucc(x) \in Days /\ WdPred(x) \in Days /\ WdPred(WdSucc(x)) = x /\ WdSucc(WdPred(x)) = x
                       /\ { Iterate("ws", x, k) : k \in 0..6 } = Days /\ Iterate("ws", x, 7) = x
                       /\ { Iterate("wp", x, k) : k \in 0..6 } = Days /\ Iterate("wp", x, 7) = x
ASSUME \A m \in Months : /\ MoSucc(m) \in Months /\ MoPred(m) \in Months /\ MoPred(MoSucc(m)) = m /\ MoSucc(MoPred(m)) = m
                         /\ { Iterate("ms", m, k) : k \in 0..11 } = Months /\ Iterate("ms", m, 12) = m
                         /\ { Iterate("mp", m, k) : k \in 0..11 } = Months /\ Iterate("mp", m, 12) = m
\* anchors from the documentation tables
ASSUME WdSucc(6) = 0 /\ WdSucc(0) = 1 /\ WdPred(0) = 6 /\ MoSucc(12) = 1 /\ MoPred(1) = 12 /\ MoSucc(1) = 2
ASSUME NumberFromMonday(0) = 1 /\ NumberFromMonday(6) = 7 /\ NumberFromSunday(6) = 1 /\ NumberFromSunday(0) = 2 /\ NumberFromSunday(5) = 7
ASSUME NumDaysFromMonday(0) = 0 /\ NumDaysFromMonday(6) = 6 /\ NumDaysFromSunday(6) = 0 /\ NumDaysFromSunday(0) = 1 /\ NumDaysFromSunday(5) = 6
ASSUME DaysSince(0, 0) = 0 /\ DaysSince(6, 1) = 5 /\ DaysSince(2, 6) = 3              \* Mon.days_since(Mon), Sun.days_since(Tue), Wed.days_since(Sun)
\* the distance function is the number of successor steps; the numbering functions are bijections onto their ranges
ASSUME \A x \in Days, y \in Days : DaysSince(x, y) \in 0..6 /\ Iterate("ws", y, DaysSince(x, y)) = x
                                   /\ (DaysSince(x, y) + DaysSince(y, x)) % 7 = 0 /\ DaysSince(WdSucc(x), y) = (DaysSince(x, y) + 1) % 7
ASSUME /\ { NumberFromMonday(x) : x \in Days } = 1..7 /\ { NumberFromSunday(x) : x \in Days } = 1..7
       /\ { NumDaysFromMonday(x) : x \in Days } = 0..6 /\ { NumDaysFromSunday(x) : x \in Days } = 0..6
       /\ { NumberFromMonth(m) : m \in Months } = 1..12
       /\ \A x \in Days : NumberFromMonday(WdSucc(x)) = (NumberFromMonday(x) % 7) + 1 /\ NumberFromSunday(WdSucc(x)) = (NumberFromSunday(x) % 7) + 1
       /\ \A m \in Months : NumberFromMonth(MoSucc(m)) = (NumberFromMonth(m) % 12) + 1

\* ------------------------------------------------------------------ numeric conversions (static)
\* inverse of the numbering on valid values, None on every other number - including those that a narrowing cast maps onto 0..13
ASSUME \A x \in Days : WdFromNum(FromInt(NumDaysFromMonday(x))) = x
ASSUME \A m \in Months : MoFromNum(FromInt(NumberFromMonth(m))) = m
ASSUME \A n \in -1000..1000 : /\ WdFromNum(FromInt(n)) = (IF n \in 0..6 THEN n ELSE NoEnum)
                              /\ MoFromNum(FromInt(n)) = (IF n \in 1..12 THEN n ELSE NoEnum)
ASSUME \A x \in NumValues : /\ (WdFromNum(x) # NoEnum => x = FromInt(NumDaysFromMonday(WdFromNum(x))))
                            /\ (MoFromNum(x) # NoEnum => x = FromInt(NumberFromMonth(MoFromNum(x))))
                            /\ (WdFromNum(x) = NoEnum <=> \A y \in Days : x # FromInt(y))
                            /\ (MoFromNum(x) = NoEnum <=> \A m \in Months : x # FromInt(m))
ASSUME WdFromNum(Add(P2(32), One)) = NoEnum /\ MoFromNum(Add(P2(32), One)) = NoEnum /\ MoFromNum(Neg(Sub(P2(32), One))) = NoEnum
       /\ MoFromNum(Add(P2(64), FromInt(12))) = NoEnum /\ WdFromNum(Add(Neg(P2(64)), FromInt(6))) = NoEnum
\* the literal powers of two are what they claim to be; the type ranges are the real ones
ASSUME \A k \in P2Widths : P2(k) = Pow2(k)
ASSUME /\ TyMax("u8") = FromInt(255) /\ TyMin("i8") = FromInt(-128) /\ TyMax("i32") = I32Max /\ TyMin("i32") = I32Min /\ TyMax("u32") = U32Max
       /\ TyMax("i64") = I64Max /\ TyMin("i64") = I64Min /\ TyMax("u64") = Mk(FALSE, <<615, 551, 709, 73, 744, 446, 18>>)
       /\ TyMax("i128") = Mk(FALSE, <<727, 105, 884, 715, 303, 687, 731, 231, 469, 460, 183, 141, 170>>) /\ TyMin("u128") = Zero
\* the corpus: only values of the type, both ends of every type, accepted and rejected values for every type, all of u8
ASSUME LET nc == NumCases  tys == NumTypes \cup {"try_u8"} IN
       /\ { c \in nc : ~(IF c[1] = "try_u8" THEN Fits("u8", c[2]) ELSE Fits(c[1], c[2])) } = {}
       /\ { <<ty, TyMin(ty)>> : ty \in NumTypes } \cup { <<ty, TyMax(ty)>> : ty \in NumTypes } \subseteq nc
       /\ { c[1] : c \in { e \in nc : WdFromNum(e[2]) = 6 } } = tys /\ { c[1] : c \in { e \in nc : MoFromNum(e[2]) = 12 } } = tys
       /\ { c[1] : c \in { e \in nc : MoFromNum(e[2]) = NoEnum /\ e[2] # Zero } } = tys
       /\ { c[2] : c \in { e \in nc : e[1] = "try_u8" } } = { FromInt(n) : n \in 0..255 }
       /\ Cardinality(nc) >= 4000
\* ------------------------------------------------------------------ names and text parsing (static)
ASSUME WdShortName(0) = <<77, 111, 110>> /\ WdLongName(2) = <<87, 101, 100, 110, 101, 115, 100, 97, 121>>        \* "Mon", "Wednesday"
       /\ MoLongName(1) = <<74, 97, 110, 117, 97, 114, 121>> /\ MoLongName(5) = <<77, 97, 121>> /\ MoShortName(9) = <<83, 101, 112>>
       /\ MoLongName(9) = <<83, 101, 112, 116, 101, 109, 98, 101, 114>> /\ WdLongName(6) = <<83, 117, 110, 100, 97, 121>>
\* names are pairwise distinct even ignoring case, so parsing is a function; parsing inverts naming
ASSUME Cardinality({ LowerStr(s) : s \in WdNames }) = 14 /\ Cardinality({ LowerStr(s) : s \in MoNames }) = 23       \* "May" is short and long
ASSUME \A x \in Days : \A s \in Casings(WdShortName(x)) \cup Casings(WdLongName(x)) : WdFromStr(s) = x
ASSUME \A m \in Months : \A s \in Casings(MoShortName(m)) \cup Casings(MoLongName(m)) : MoFromStr(s) = m
\* double entry: acceptance by EqIgnoreAsciiCase coincides with "its ASCII-lower-cased form is a lower-cased name"
ASSUME \A s \in TextCorpus : /\ (WdFromStr(s) # NoEnum <=> LowerStr(s) \in { LowerStr(n) : n \in WdNames })
                             /\ (MoFromStr(s) # NoEnum <=> LowerStr(s) \in { LowerStr(n) : n \in MoNames })
                             /\ (WdFromStr(s) # NoEnum => LowerStr(s) \in { LowerStr(WdShortName(WdFromStr(s))), LowerStr(WdLongName(WdFromStr(s))) })
                             /\ (MoFromStr(s) # NoEnum => LowerStr(s) \in { LowerStr(MoShortName(MoFromStr(s))), LowerStr(MoLongName(MoFromStr(s))) })
\* non-vacuity of the corpus: many accepted, many more rejected, non-ASCII look-alikes among the rejected
ASSUME /\ Cardinality({ s \in TextCorpus : WdFromStr(s) # NoEnum }) >= 14 * 3 /\ Cardinality({ s \in TextCorpus : MoFromStr(s) # NoEnum }) >= 23 * 3
       /\ Cardinality({ s \in TextCorpus : WdFromStr(s) = NoEnum /\ MoFromStr(s) = NoEnum }) >= 2000
       /\ WdFromStr(<<383, 117, 110>>) = NoEnum /\ <<383, 117, 110>> \in TextCorpus                                   \* "(long s)un"
       /\ WdFromStr(<<84, 104, 117, 114, 115>>) = NoEnum /\ <<84, 104, 117, 114, 115>> \in TextCorpus                 \* "Thurs"
       /\ MoFromStr(<<83, 101, 112, 116>>) = NoEnum /\ <<83, 101, 112, 116>> \in TextCorpus /\ <<>> \in TextCorpus    \* "Sept", ""

\* ------------------------------------------------------------------ set algebra (in the fresh states)
PairLaws == Fresh =>
   /\ \A x \in Days : /\ WsContains(WsUnion(a, b), x) = (WsContains(a, x) \/ WsContains(b, x))
                      /\ WsContains(WsInter(a, b), x) = (WsContains(a, x) /\ WsContains(b, x))
                      /\ WsContains(WsDiff(a, b), x) = (WsContains(a, x) /\ ~WsContains(b, x))
                      /\ WsContains(WsSymDiff(a, b), x) = (WsContains(a, x) # WsContains(b, x))
   /\ WsIsSubset(a, b) = (\A x \in Days : WsContains(a, x) => WsContains(b, x))
   /\ WsIsSubset(a, b) = (WsInter(a, b) = a) /\ WsIsSubset(a, b) = (WsUnion(a, b) = b) /\ (WsIsSubset(a, b) /\ WsIsSubset(b, a)) = (a = b)
   /\ WsLen(WsUnion(a, b)) + WsLen(WsInter(a, b)) = WsLen(a) + WsLen(b) /\ WsLen(a) \in 0..7 /\ WsIsEmpty(a) = (WsLen(a) = 0)
   /\ WsSymDiff(a, b) = WsDiff(WsUnion(a, b), WsInter(a, b)) /\ WsUnion(a, b) \in WdSets /\ WsSymDiff(a, b) \in WdSets
DayLaws == (Fresh /\ b = {}) =>
   \* insert / remove with their reports
   /\ LET i == WsInsert(a, d)  r == WsRemove(a, d) IN
      /\ i.set = WsUnion(a, WsSingle(d)) /\ i.r = ~WsContains(a, d) /\ WsContains(i.set, d) /\ WsLen(i.set) = WsLen(a) + (IF i.r THEN 1 ELSE 0)
      /\ r.set = WsDiff(a, WsSingle(d)) /\ r.r = WsContains(a, d) /\ ~WsContains(r.set, d) /\ WsLen(r.set) = WsLen(a) - (IF r.r THEN 1 ELSE 0)
      /\ ~WsInsert(i.set, d).r /\ ~WsRemove(r.set, d).r /\ (i.r => WsRemove(i.set, d).set = a) /\ (r.r => WsInsert(r.set, d).set = a)
   /\ WsSingleDay(WsSingle(d)) = d /\ (WsSingleDay(a) # NoEnum <=> WsLen(a) = 1) /\ (WsSingleDay(a) # NoEnum => a = WsSingle(WsSingleDay(a)))
   \* first / last
   /\ (a = {} <=> WsFirst(a) = NoEnum) /\ (a = {} <=> WsLast(a) = NoEnum)
   /\ (a # {} => /\ WsFirst(a) \in a /\ WsLast(a) \in a /\ \A x \in a : NumDaysFromMonday(WsFirst(a)) <= NumDaysFromMonday(x) /\ NumDaysFromMonday(x) <= NumDaysFromMonday(WsLast(a)))
   \* split
   /\ LET s == WsSplitAt(a, d) IN /\ WsUnion(s[1], s[2]) = a /\ WsInter(s[1], s[2]) = {} /\ \A x \in s[1] : x < d
                                 /\ \A x \in s[2] : x >= d
\* ------------------------------------------------------------------ iteration from a start day (all 128 x 7)
IterLaws == (Fresh /\ b = {}) =>
   LET q == WsIter(a, d)  s == WsSplitAt(a, d) IN
   /\ Len(q) = WsLen(a) /\ Range(q) = a                                                  \* each member exactly once
   /\ \A i \in 1..(Len(q) - 1) : DaysSince(q[i], d) < DaysSince(q[i + 1], d)             \* cyclic weekday order beginning at d
   /\ q = WsIter(s[2], 0) \o WsIter(s[1], 0)                                             \* from d up to Sunday, then wrap to Monday
   /\ (a # {} => q[1] = FirstFrom(a, d) /\ q[Len(q)] = LastFrom(a, d))
   /\ (d \in a => q[1] = d)
   /\ WsIter(a, 0) = [i \in 1..Len(q) |-> CHOOSE x \in a : Cardinality({ y \in a : y < x }) = i - 1]     \* from Monday: ascending
   /\ (a # {} => WsFirst(a) = WsIter(a, 0)[1] /\ WsLast(a) = WsIter(a, 0)[WsLen(a)])
\* the double-ended machine, every interleaving: front results are a prefix, back results the reversed suffix, the rest is in between
IterMachine == b = {} =>
   /\ fr \o ItRest(it) \o Reverse(bk) = WsIter(a, d)
   /\ ItLen(it) = WsLen(a) - Len(fr) - Len(bk) /\ it.start = d
   /\ (it.rem = {} => /\ ItNext(it) = [r |-> NoEnum, it |-> it] /\ ItNextBack(it) = [r |-> NoEnum, it |-> it]     \* fused: None, forever
                      /\ Range(fr) \cup Range(bk) = a /\ Len(fr) + Len(bk) = WsLen(a))
   /\ (it.rem # {} => ItNext(it).r = ItRest(it)[1] /\ ItNextBack(it).r = ItRest(it)[ItLen(it)])
\* Display is the iteration from Monday between brackets
ASSUME WsDisplay({}) = <<91, 93>> /\ WsDisplay({0}) = <<91, 77, 111, 110, 93>>
       /\ WsDisplay({0, 4, 6}) = <<91, 77, 111, 110, 44, 32, 70, 114, 105, 44, 32, 83, 117, 110, 93>>                \* "[Mon, Fri, Sun]"
\* documented examples
ASSUME WsIter({0, 2, 4}, 2) = <<2, 4, 0>> /\ WsFirst(Days) = 0 /\ WsLast({0, 1}) = 1 /\ WsLen({0, 2, 4}) = 3
=============================================================================
