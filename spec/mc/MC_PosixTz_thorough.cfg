SPECIFICATION Spec
CONSTANT Years <- ThoroughYears
INVARIANT OffsetRule
INVARIANT RoundTrip
INVARIANT GapFoldShape
INVARIANT EarliestFirst
INVARIANT AllInScope
CHECK_DEADLOCK FALSE
