SPECIFICATION Spec
CONSTANT M = 31
INVARIANT GenAccepted
INVARIANT Edits
INVARIANT WriteLaws
CHECK_DEADLOCK FALSE
