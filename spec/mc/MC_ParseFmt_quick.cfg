SPECIFICATION Spec
CONSTANT Stride = 23
CONSTANT Thin = 2
CONSTANT Sample = 8
INVARIANT Clean
INVARIANT ProjectionLaws
INVARIANT NonVacuous
CHECK_DEADLOCK FALSE
