SPECIFICATION Spec
CONSTANT M = 211
INVARIANT GenRead
INVARIANT WriteLaws
CHECK_DEADLOCK FALSE
