----------------------------- MODULE MC_Rfc2822 -----------------------------
(* Bounded design check of Rfc2822 (job D for C11).                          *)
(*  GenRead     every text the generator derives (all optional parts, the    *)
(*              year forms the year-length rule allows, every zone form) is  *)
(*              read back by the recogniser as exactly Denoted(f, c); with a *)
(*              stated weekday that contradicts the date it is refused       *)
(*  WriteLaws   the renderer's text is the canonical point of the generator, *)
(*              names the right weekday, and denotes the same wall clock to  *)
(*              whole seconds (a leap second preserved) and offset           *)
EXTENDS Rfc2822, FiniteSets, TLC
CONSTANT M                       \* sampling modulus over the syntax choices (1 = all combinations)
VARIABLES b, x
Dates == << <<2003, 7, 1>>, <<1999, 12, 31>>, <<2049, 2, 28>>, <<1950, 1, 1>>, <<2000, 2, 29>>, <<12345, 6, 15>>, <<987, 3, 9>>, <<1912, 10, 30>>,
            <<0, 1, 1>>, <<9999, 12, 31>>, <<1900, 3, 1>>, <<2899, 11, 30>>, <<50, 5, 5>>, <<2050, 8, 8>> >>
Digs(y, w) == [i \in 1..w |-> (y \div Pow10(w - i)) % 10]
\* the year texts that denote year y under the year-length rule
YearTexts(y) == {Digs(y, IF y > 9999 THEN 5 ELSE 4)} \cup (IF y <= 9999 THEN {Digs(y, 5)} ELSE {})
                \cup (IF y >= 1950 /\ y <= 2049 THEN {Digs(y % 100, 2)} ELSE {})
                \cup (IF y >= 1900 /\ y <= 2899 THEN {Digs(y - 1900, 3)} ELSE {})
ZoneTexts == { <<43,48,50,48,48>>, <<45,48,55,51,48>>, <<43,48,48,48,48>>, <<45,48,48,48,48>>, <<43,50,51,53,57>>, <<45,50,51,53,57>>, <<43,48,48,48,49>>,
               <<85,84>>, <<71,77,84>>, <<69,83,84>>, <<69,68,84>>, <<67,83,84>>, <<67,68,84>>, <<77,83,84>>, <<77,68,84>>, <<80,83,84>>, <<80,68,84>>,
               <<65>>, <<73>>, <<75>>, <<90>>, <<121>>, <<122>>, <<103,109,116>>, <<101,68,116>>, <<117,116>> }
WsChoices == << <<<<32>>, <<32>>, <<32>>, <<32>>, <<32>>>>, <<<<32, 32>>, <<9>>, <<32, 9, 32>>, <<9, 9>>, <<32, 32, 32>>>>,
                <<<<13, 10, 32>>, <<32, 13, 10, 9>>, <<13, 10, 32, 32>>, <<9>>, <<13, 10, 9>>>> >>
Comments == << <<>>, <<32,40,67,69,83,84,41>>, <<40,97,32,40,110,101,115,116,101,100,41,32,92,41,32,41>>, <<32,40,41,32,40,120,41>>,
               <<9,40,92,40,233,8364,41>>, <<40,40,40,41,41,40,92,92,41,41>> >>
Secs == <<-1, 0, 37, 59, 60>>           \* -1: seconds omitted
Wkds == <<"none", "right", "next", "prev">>
Init == /\ x = [k |-> "init"]
        /\ b \in { [k |-> "gen", date |-> d, zone |-> z] : d \in 1..Len(Dates), z \in ZoneTexts } \cup { [k |-> "write", date |-> d] : d \in 1..Len(Dates) }
Idx(t) == (t[1] - 1) + 4 * (t[2] - 1) + 8 * (t[3] - 1) + 24 * (t[4] - 1) + 72 * (t[5] - 1) + 360 * (t[6] - 1)
Choices == { t \in (1..4) \X (1..2) \X (1..3) \X (1..3) \X (1..5) \X (1..6) : Idx(t) % M = 0 }
WOffs == {0, 60, -60, 3600, -12600, 19800, 86340, -86340}
WTimes == { [secs |-> s, frac |-> f] : s \in {0, 86399, 37856}, f \in {0, 999999999} } \cup {[secs |-> 86399, frac |-> NSu + 5], [secs |-> 59, frac |-> NSu]}
Next == /\ x.k = "init" /\ b' = b
        /\ \/ /\ b.k = "gen"
              /\ x' \in { [k |-> "gen", t |-> t, yt |-> yt] : t \in Choices, yt \in YearTexts(Dates[b.date][1]) }
           \/ /\ b.k = "write" /\ Dates[b.date][1] <= 9999
              /\ x' \in { [k |-> "write", t |-> t, off |-> o] : t \in WTimes, o \in WOffs }
Spec == Init /\ [][Next]_<<b, x>>
Fields == LET d == Dates[b.date]  n == DayNumber(d[1], d[2], d[3])  w == Wkds[x.t[1]]  sc == Secs[x.t[5]] IN
   [wd |-> CASE w = "next" -> (WeekdayOf(n) + 1) % 7 [] w = "prev" -> (WeekdayOf(n) + 6) % 7 [] OTHER -> WeekdayOf(n),
    d |-> d[3], mo |-> d[2], yt |-> x.yt, h |-> 10, mi |-> 52, s |-> IF sc < 0 THEN 0 ELSE sc, zone |-> b.zone]
Chosen == [wkd |-> Wkds[x.t[1]] # "none", dpad |-> x.t[2] = 2, secs |-> Secs[x.t[5]] >= 0,
           ncase |-> <<"asis", "upper", "lower">>[x.t[3]], ws |-> WsChoices[x.t[4]], cm |-> Comments[x.t[6]]]
GenRead == x.k = "gen" =>
   LET f == Fields  c == Chosen  s == Gen(f, c)  r == Read(s) IN
   /\ Valid(f, c)
   /\ YearOf(f.yt) = Dates[b.date][1]
   /\ Consistent(f, c) = (Wkds[x.t[1]] \in {"none", "right"})
   /\ IF Consistent(f, c) THEN r.ok /\ r.v = Denoted(f, c) ELSE ~r.ok
   /\ Denoted(f, c).n = DayNumber(Dates[b.date][1], Dates[b.date][2], Dates[b.date][3])
WriteLaws == x.k = "write" =>
   LET d == Dates[b.date]  w == [n |-> DayNumber(d[1], d[2], d[3]), secs |-> x.t.secs, frac |-> x.t.frac]  s == Write(w, x.off)
       f == Canon(w, x.off)  r == Read(s) IN
   /\ s = Gen(f, CanonChoices) /\ Valid(f, CanonChoices) /\ Consistent(f, CanonChoices)
   /\ Denoted(f, CanonChoices) = [n |-> w.n, secs |-> w.secs, frac |-> Whole(w).frac, off |-> x.off]
   /\ r.ok /\ r.v = Denoted(f, CanonChoices)
   /\ Take(s, 3) = ShortDays[WeekdayOf(w.n) + 1] /\ s[4] = 44 /\ s[5] = 32
   /\ Len(s) = 30 + (IF d[3] >= 10 THEN 1 ELSE 0)
\* --- anchors -------------------------------------------------------------------------------------------------------
ASSUME YearOf(<<4, 9>>) = 2049 /\ YearOf(<<5, 0>>) = 1950 /\ YearOf(<<0, 0>>) = 2000 /\ YearOf(<<9, 9>>) = 1999 /\ YearOf(<<0, 5>>) = 2005
ASSUME YearOf(<<1, 1, 2>>) = 2012 /\ YearOf(<<0, 0, 9>>) = 1909 /\ YearOf(<<9, 9, 9>>) = 2899
ASSUME YearOf(<<1, 9, 8, 7>>) = 1987 /\ YearOf(<<0, 6, 5, 4>>) = 654 /\ YearOf(<<0, 0, 4, 9>>) = 49 /\ YearOf(<<1, 2, 3, 4, 5>>) = 12345
ASSUME ZoneOffset(<<69,83,84>>) = -18000 /\ ZoneOffset(<<69,68,84>>) = -14400 /\ ZoneOffset(<<67,83,84>>) = -21600 /\ ZoneOffset(<<67,68,84>>) = -18000
ASSUME ZoneOffset(<<77,83,84>>) = -25200 /\ ZoneOffset(<<77,68,84>>) = -21600 /\ ZoneOffset(<<80,83,84>>) = -28800 /\ ZoneOffset(<<80,68,84>>) = -25200
ASSUME ZoneOffset(<<85,84>>) = 0 /\ ZoneOffset(<<71,77,84>>) = 0 /\ ZoneOffset(<<65>>) = 0 /\ ZoneOffset(<<122>>) = 0 /\ ZoneOffset(<<74>>) = NoZone
ASSUME ZoneOffset(<<45,48,51,51,48>>) = -12600 /\ ZoneOffset(<<45,48,48,48,48>>) = 0 /\ ZoneOffset(<<43,48,48,54,48>>) = NoZone /\ ZoneOffset(<<71,80>>) = NoZone
\* RFC 2822 appendix A: "Fri, 21 Nov 1997 09:55:06 -0600", and the obsolete forms "21 Nov 97 09:55:06 GMT" and the folded one of A.5
R1 == <<70,114,105,44,32,50,49,32,78,111,118,32,49,57,57,55,32,48,57,58,53,53,58,48,54,32,45,48,54,48,48>>
ASSUME Read(R1).ok /\ Read(R1).v = [n |-> DayNumber(1997, 11, 21), secs |-> 9 * 3600 + 55 * 60 + 6, frac |-> 0, off |-> -21600]
ASSUME WeekdayOf(DayNumber(1997, 11, 21)) = 4
R2 == <<50,49,32,78,111,118,32,57,55,32,48,57,58,53,53,58,48,54,32,71,77,84>>
ASSUME Read(R2).ok /\ Read(R2).v = [n |-> DayNumber(1997, 11, 21), secs |-> 9 * 3600 + 55 * 60 + 6, frac |-> 0, off |-> 0]
R3 == <<84,104,117,44,13,10,32,32,32,32,32,32,49,51,13,10,32,32,32,32,32,32,32,32,70,101,98,13,10,32,32,32,32,32,32,32,32,32,32,49,57,54,57,13,10,32,32,32,32,32,32,50,51,58,51,50,13,10,32,32,32,32,32,32,32,32,32,32,32,32,32,32,32,45,48,51,51,48,32,40,78,101,119,102,111,117,110,100,108,97,110,100,32,84,105,109,101,41>>
ASSUME Read(R3).ok /\ Read(R3).v = [n |-> DayNumber(1969, 2, 13), secs |-> 23 * 3600 + 32 * 60, frac |-> 0, off |-> -12600]
\* chrono's documentation: to_rfc2822 -> "Tue, 1 Jul 2003 10:52:37 +0200"; a weekday that contradicts the date is refused
W1 == [n |-> DayNumber(2003, 7, 1), secs |-> 10 * 3600 + 52 * 60 + 37, frac |-> 0]
R4 == <<84,117,101,44,32,49,32,74,117,108,32,50,48,48,51,32,49,48,58,53,50,58,51,55,32,43,48,50,48,48>>
ASSUME Write(W1, 7200) = R4
ASSUME ~Read([R4 EXCEPT ![1] = 87, ![2] = 101, ![3] = 100]).ok                             \* "Wed, 1 Jul 2003 ..."
ASSUME CommentsOk(<<>>) /\ CommentsOk(<<40,41>>) /\ CommentsOk(<<32,40,92,41,41>>) /\ ~CommentsOk(<<40,92,41>>) /\ ~CommentsOk(<<40,40,41>>)
       /\ ~CommentsOk(<<40,41,32>>) /\ ~CommentsOk(<<120>>) /\ CommentsOk(<<40,41,40,41>>)
=============================================================================
