------------------------------ MODULE MC_ParseFmt ------------------------------
(* Bounded design check of ParseFmt (job D for C13), on the generated family   *)
(* itself (the state is one family member, as in Gen_ParseFmt):                *)
(*  ProjectionLaws = Stable and Injective:                                       *)
(*  Stable    - the projection keeps everything the format prints: Project(v)   *)
(*              renders to the same text as v, is expressible and is a fixed    *)
(*              point;                                                          *)
(*  Injective - two expressible values with a common rendering have the same    *)
(*              projection (otherwise no reader could invert the format): this  *)
(*              is what makes Expressible's exclusions (two-digit years outside *)
(*              1970..2069, ...) necessary, checked on look-alike values;       *)
(*  Covered   - every specifier the reader can invert, and every numeric one    *)
(*              with every padding modifier, occurs in some member;             *)
(* and anchors: members / non-members, expressible / inexpressible values and   *)
(* projections named in the property and in the documentation.                  *)
EXTENDS Gen_ParseFmt
\* look-alike values: same two-digit year / same printed digits / same minute / offsets within a minute
Twins == IF Thin = 1
         THEN { <<DayNumber(y, 1, 1), t, o>> : y \in {1870, 1970, 2070, -30, 70, 12070}, t \in { <<2099, 1026490000>>, <<2099, 26490000>>, <<2099, 1026490708>>, <<2040, 0>>, <<2099 + 43200, 26000000>> },
                                               o \in {34200, 34230, 34229, 32400} }
         ELSE { <<DayNumber(y, 1, 1), t, o>> : y \in {1970, 2070, 70}, t \in { <<2099, 1026490000>>, <<2099, 1026490708>>, <<2040, 0>> }, o \in {34200, 34230, 32400} }
AllValues(ty) == { x \in (IF Thin = 1 THEN Lattice ELSE { y \in Lattice : y[1] % 2 = 0 }) \cup Twins : Valid(ty, x) }
AsVal(ty, p) == CASE ty = "date" -> DateVal(p.n) [] ty = "time" -> TimeVal(p.secs, p.frac) [] ty = "ndt" -> NdtVal(p.n, p.secs, p.frac)
                  [] ty = "dt" -> DtVal(p.n, p.secs, p.frac, p.off)
Tab(cand) == LET w == StrictItems(cand.fw)  r == StrictItems(cand.fr) IN
   [x \in AllValues(cand.ty) |-> LET v == ValOf(cand.ty, x)  can == Determined(w, v) /\ Expressible(w, r, v, cand.ty) IN
       [can |-> can, texts |-> RenderAll(w, v), p |-> IF can THEN Project(w, r, v, cand.ty) ELSE [none |-> 1]]]
StableOn(w, r, tab) ==
   \A x \in DOMAIN tab : tab[x].can =>
      LET pv == AsVal(c.ty, tab[x].p) IN
      \* (one exception: a negative offset that rounds to zero prints -00:00, which denotes the offset +00:00)
      /\ (RenderAll(w, pv) = tab[x].texts \/ (c.ty = "dt" /\ x[3] < 0 /\ tab[x].p.off = 0)) /\ tab[x].texts # {}
      /\ Expressible(w, r, pv, c.ty) /\ Project(w, r, pv, c.ty) = tab[x].p
InjectiveOn(tab) ==
   \A x, y \in DOMAIN tab : (tab[x].can /\ tab[y].can /\ tab[x].texts \cap tab[y].texts # {}) => tab[x].p = tab[y].p
ProjectionLaws == Member => LET tab == Tab(c) IN StableOn(StrictItems(c.fw), StrictItems(c.fr), tab) /\ InjectiveOn(tab)
Clean == Member => ~HasErr(StrictItems(c.fw)) /\ InFamily(c) /\ c.ty \in {"date", "time", "ndt", "dt"}
\* --- coverage of the specifier table by the family
RECURSIVE SpecsFrom(_, _)
SpecsFrom(s, i) ==      \* the set of specifiers (with their modifier) of a format string
   IF i > Len(s) THEN {}
   ELSE IF s[i] # 37 THEN SpecsFrom(s, i + 1)
   ELSE LET j == IF At(s, i + 1) \in {45, 95, 48} THEN i + 2 ELSE i + 1
            e == IF At(s, j) = 46 THEN (IF At(s, j + 1) = 102 THEN j + 1 ELSE j + 2)
                 ELSE IF At(s, j) \in {51, 54, 57} THEN j + 1
                 ELSE IF At(s, j) = 35 THEN j + 1
                 ELSE IF At(s, j) = 58 THEN (IF At(s, j + 1) = 122 THEN j + 1 ELSE IF At(s, j + 2) = 122 THEN j + 2 ELSE j + 3)
                 ELSE j
        IN {SubSeq(s, i, e)} \cup SpecsFrom(s, e + 1)
NumericSpecs == {"Y", "C", "y", "q", "m", "d", "e", "w", "u", "U", "W", "G", "g", "V", "j", "H", "k", "I", "l", "M", "S", "f", "s"}
OtherSpecs == {"b", "B", "h", "a", "A", "D", "x", "F", "v", "P", "p", ".f", ".3f", ".6f", ".9f", "3f", "6f", "9f", "R", "T", "X", "r", "z", ":z", "#z", "c", "+", "t", "n", "%"}
Required == { S("%") \o S(m) \o S(x) : m \in {"", "-", "_", "0"}, x \in NumericSpecs } \cup { S("%") \o S(x) : x \in OtherSpecs }
Covered == Required \subseteq UNION { SpecsFrom(m.fw, 1) \cup SpecsFrom(m.fr, 1) : m \in Family }
ASSUME Covered
\* --- anchors
U(str, ty) == Unambiguous(StrictItems(S(str)), StrictItems(S(str)), ty)
E(str, v, ty) == Expressible(StrictItems(S(str)), StrictItems(S(str)), v, ty)
P(str, v, ty) == Project(StrictItems(S(str)), StrictItems(S(str)), v, ty)
D(y, m, d) == DateVal(DayNumber(y, m, d))
ASSUME U("%Y-%m-%d", "date") /\ U("%Y%m%d", "date") /\ U("%d/%m/%Y", "date") /\ U("%Y-%j", "date") /\ U("%G-W%V-%u", "date") /\ U("%Y %U %a", "date")
ASSUME U("%B%d, %Y", "date") /\ U("%A, %-d %B %-Y", "date") /\ U("%C%y%m%d", "date") /\ U("%_d.%_m.%_Y", "date") /\ U("%-d.%-m.%-Y", "date")
ASSUME ~U("%-Y%m%d", "date") /\ ~U("%Y%-m%d", "date") /\ ~U("%_Y%m%d", "date")          \* separators between variable-width numbers
ASSUME ~U("%Y-%m", "date") /\ ~U("%m-%d", "date") /\ ~U("%C-%m-%d", "date") /\ ~U("%Y-%V-%u", "date") /\ ~U("%G-%U-%u", "date") /\ ~U("%Y-%U", "date")   \* not a full date
ASSUME ~U("%e%H:%M", "ndt") /\ ~U("%Bth %d %Y", "date") /\ ~U("%Y-%m-%d %H:%M:%S%.f%d", "ndt") /\ ~U("%S%.f.%m", "time")
ASSUME U("%H:%M:%S", "time") /\ U("%H:%M", "time") /\ U("%I:%M %p", "time") /\ U("%l:%M:%S%.3f%P", "time") /\ U("%H%M%S%3f", "time") /\ U("%H:%M:%S%.f", "time")
ASSUME ~U("%I:%M", "time") /\ ~U("%H", "time") /\ ~U("%H:%M%.f", "time") /\ ~U("%p", "time") /\ ~U("%H:%M:%S%.3f%.6f", "time")                       \* not a full time
ASSUME U("%Y-%m-%dT%H:%M:%S%z", "dt") /\ U("%+", "dt") /\ U("%s", "dt") /\ U("%s %z", "dt") /\ U("%c %:z", "dt") /\ ~U("%Y-%m-%dT%H:%M:%S", "dt") /\ ~U("%c", "dt")
ASSUME U("%s", "ndt") /\ U("%c", "ndt") /\ ~U("%s", "date") /\ ~U("%s %Y", "ndt")
ASSUME \A str \in {"%Y-%m-%d %H:%M:%S %::z", "%Y-%m-%d %H:%M:%S %:::z", "%Y-%m-%d %H:%M:%S %Z", "%Y-%m-%d %H:%M:%S %#z"} : ~U(str, "dt")            \* print-only / read-only
ASSUME U("%F %T %Z", "ndt") /\ U("%F %T %Z %z", "dt") /\ ~U("%F %T %Zx", "ndt") /\ ~U("%F %Z%T", "ndt")          \* %Z is skipped up to the next white space
ASSUME Unambiguous(StrictItems(S("%F %T %:::z")), StrictItems(S("%F %T %#z")), "dt") /\ ~Unambiguous(StrictItems(S("%F %T %#z")), StrictItems(S("%F %T %#z")), "dt")
ASSUME ~Unambiguous(StrictItems(S("%F %:::z %T")), StrictItems(S("%F %#z %T")), "dt")
\* the values a format can express
ASSUME E("%Y%m%d", D(2001, 7, 8), "date") /\ E("%Y%m%d", D(0, 1, 1), "date") /\ E("%Y%m%d", D(9999, 12, 31), "date")
ASSUME ~E("%Y%m%d", D(10000, 1, 1), "date") /\ ~E("%Y%m%d", D(-1, 1, 1), "date") /\ E("%Y-%m-%d", D(10000, 1, 1), "date") /\ E("%Y-%m-%d", D(-262143, 1, 1), "date")
ASSUME E("%y-%m-%d", D(1970, 1, 1), "date") /\ E("%y-%m-%d", D(2069, 12, 31), "date") /\ ~E("%y-%m-%d", D(1969, 12, 31), "date") /\ ~E("%y-%m-%d", D(2070, 1, 1), "date")
ASSUME E("%C%y-%m-%d", D(0, 1, 1), "date") /\ E("%C%y-%m-%d", D(9999, 12, 31), "date") /\ ~E("%C%y-%m-%d", D(10000, 1, 1), "date") /\ ~E("%C%y-%m-%d", D(-1, 12, 31), "date")
ASSUME E("%g-%V-%u", D(1970, 1, 1), "date") /\ ~E("%g-%V-%u", D(1969, 12, 28), "date") /\ E("%g-%V-%u", D(2069, 12, 29), "date") /\ ~E("%g-%V-%u", D(2069, 12, 30), "date")   \* ISO year 2070
ASSUME E("%s", NdtVal(1, 86399, 999999999), "ndt") /\ ~E("%s", NdtVal(1, 86399, 1999999999), "ndt") /\ E("%T", TimeVal(86399, 1999999999), "time")
ASSUME E("%F %T %z", DtVal(730674, 0, 0, 86369), "dt") /\ ~E("%F %T %z", DtVal(730674, 0, 0, 86370), "dt") /\ ~E("%F %T %z", DtVal(MinDay, 0, 0, 60), "dt")
\* the precision a format keeps
Leap == TimeVal(86399, 1026490708)
ASSUME P("%H:%M", Leap, "time") = [secs |-> 86340, frac |-> 0] /\ P("%H:%M:%S", Leap, "time") = [secs |-> 86399, frac |-> 1000000000]
ASSUME P("%T%.3f", Leap, "time") = [secs |-> 86399, frac |-> 1026000000] /\ P("%T%.6f", Leap, "time") = [secs |-> 86399, frac |-> 1026490000]
ASSUME P("%T%.f", Leap, "time") = [secs |-> 86399, frac |-> 1026490708] /\ P("%T.%9f", Leap, "time") = [secs |-> 86399, frac |-> 1026490708] /\ P("%T %f", Leap, "time").frac = 1026490708
ASSUME P("%F %T%:z", DtVal(730674, 2099, 5, 34230), "dt") = [n |-> 730674, secs |-> 2099, frac |-> 0, off |-> 34260]
ASSUME P("%F %T%:z", DtVal(730674, 2099, 5, -29), "dt").off = 0 /\ P("%F %T%:z", DtVal(730674, 2099, 5, -30), "dt").off = -60
ASSUME Project(StrictItems(S("%F %T %:::z")), StrictItems(S("%F %T %#z")), DtVal(730674, 2099, 5, -34230), "dt").off = -32400
ASSUME P("%s", DtVal(719163, 3600, 5, 3600), "dt") = [n |-> 719163, secs |-> 0, frac |-> 0, off |-> 0]          \* 1970-01-01T01:00+01:00 = timestamp 0
ASSUME P("%s%.3f %z", DtVal(719163, 3600, 1999999, 3630), "dt") = [n |-> 719163, secs |-> 3630, frac |-> 1000000, off |-> 3660]     \* same instant, shown at the printed offset +01:01
ASSUME P("%F", DtVal(730674, 2099, 5, 34230), "date") = [n |-> 730674]
=============================================================================
