SPECIFICATION Spec
CONSTANT Values <- QuickValues
CONSTANT Corrupt <- NoCorrupt
CONSTANT ScanMax = 3
INVARIANT Check
CHECK_DEADLOCK FALSE
