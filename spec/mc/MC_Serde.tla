------------------------------ MODULE MC_Serde ------------------------------
(* Bounded design check of Serde (job D for C20): the timestamp arithmetic    *)
(* over BigInt nanoseconds is the floor of the instant in each unit, the      *)
(* representable range is exactly the NaiveDateTime range, and the string     *)
(* forms are the ones of chrono's documentation.                              *)
EXTENDS Serde, TLC
VARIABLE v
Years == {-262143, -10000, -1, 0, 1, 1677, 1678, 1969, 1970, 1971, 2018, 2261, 2262, 9999, 10000, 262142}
Dates == { DayNumber(y, md[1], md[2]) : y \in Years, md \in {<<1, 1>>, <<4, 11>>, <<9, 21>>, <<12, 31>>} }
Init == v \in { [n |-> n, secs |-> -1, frac |-> 0] : n \in Dates }                       \* second level: the workers share the times of a date
Next == v.secs = -1 /\ v' \in { [n |-> v.n, secs |-> s, frac |-> f] : s \in {0, 763, 85636, 86399}, f \in {0, 1, 999999, 1000000, 145224192, 854775807, 999999999} }
Spec == Init /\ [][Next]_v
BI(k) == FromInt(k)
Floor == v.secs >= 0 => \A unit \in Units :
   LET t == Ts(unit, v) IN
   /\ Leq(ToNs(unit, t), Ns(v)) /\ Lt(Ns(v), ToNs(unit, Add(t, One)))           \* t * unit <= ns < (t + 1) * unit
   /\ Ns([v EXCEPT !.frac = CutFrac(unit, v.frac)]) = ToNs(unit, t)                \* reading the integer back gives the instant cut to the unit
   /\ Representable(ToNs(unit, t)) /\ ValidNdt(v) /\ Representable(Ns(v))
Order == v.secs >= 0 =>
         /\ Lt(Ns(v), Ns([v EXCEPT !.n = v.n + 1])) /\ Sub(Ns([v EXCEPT !.n = v.n + 1]), Ns(v)) = Mul1e9(BI(86400))
         /\ (v.secs < 86399 => Sub(Ns([v EXCEPT !.secs = v.secs + 1]), Ns(v)) = Mul1e9(One))
         /\ (v.frac >= NSu - 1 \/ Sub(Ns([v EXCEPT !.frac = v.frac + 1]), Ns(v)) = One)
LeapAdmits == v.secs >= 0 => LET l == [v EXCEPT !.secs = 86399, !.frac = NSu + (v.frac % NSu)] IN
   \A unit \in Units : Ts(unit, l) \in LeapTs(unit, l) /\ \A t \in LeapTs(unit, l) : Leq(Sub(t, Ts(unit, [l EXCEPT !.frac = l.frac - NSu])), ToNs("s", One))
\* --- anchors
ASSUME Ns([n |-> 719163, secs |-> 0, frac |-> 0]) = Zero /\ DayNumber(1970, 1, 1) = EpochDay
V1 == [n |-> DayNumber(2018, 5, 17), secs |-> 2 * 3600 + 4 * 60 + 59, frac |-> 918355733]             \* the example of chrono::serde::ts_*
ASSUME Ts("ns", V1) = Mk(FALSE, <<733, 355, 918, 699, 522, 526, 1>>)                                    \* 1526522699918355733
ASSUME Ts("us", V1) = Mk(FALSE, <<355, 918, 699, 522, 526, 1>>) /\ Ts("ms", V1) = Mk(FALSE, <<918, 699, 522, 526, 1>>) /\ Ts("s", V1) = Mk(FALSE, <<699, 522, 526, 1>>)
ASSUME Ts("ms", [n |-> 719162, secs |-> 86399, frac |-> 999999999]) = FromInt(-1) /\ Ts("s", [n |-> 719162, secs |-> 86399, frac |-> 1]) = FromInt(-1)
ASSUME ~Representable(Sub(MinNs, One)) /\ ~Representable(Add(MaxNs, One)) /\ Representable(MinNs) /\ Representable(MaxNs)
ASSUME MinNs = Mk(TRUE, <<0, 0, 0, 800, 228, 601, 334, 8>>) /\ MaxNs = Mk(FALSE, <<999, 999, 999, 799, 876, 266, 210, 8>>)  \* -8334601228800 s, 8210266876799.999999999 s
\* the i64-nanosecond window: 1677-09-21T00:12:43.145224192 .. 2262-04-11T23:47:16.854775807
ASSUME Ns([n |-> DayNumber(1677, 9, 21), secs |-> 763, frac |-> 145224192]) = I64Min /\ Ns([n |-> DayNumber(2262, 4, 11), secs |-> 85636, frac |-> 854775807]) = I64Max
U1 == [n |-> DayNumber(2014, 7, 24), secs |-> 12 * 3600 + 34 * 60 + 6, frac |-> 0]
ASSUME JsonDt(U1, 0) = <<34,50,48,49,52,45,48,55,45,50,52,84,49,50,58,51,52,58,48,54,90,34>>                          \* "2014-07-24T12:34:06Z"
ASSUME JsonDt(U1, 3600) = <<34,50,48,49,52,45,48,55,45,50,52,84,49,51,58,51,52,58,48,54,43,48,49,58,48,48,34>>        \* "2014-07-24T13:34:06+01:00"
ASSUME JsonTime([secs |-> 59, frac |-> 1000000000]) = <<34,48,48,58,48,48,58,54,48,34>>                               \* "00:00:60"
ASSUME JsonNdt(U1) = <<34,50,48,49,52,45,48,55,45,50,52,84,49,50,58,51,52,58,48,54,34>>                               \* "2014-07-24T12:34:06"
ASSUME JsonWeekday(0) = <<34,77,111,110,34>> /\ JsonMonth(5) = <<34,77,97,121,34>>
=============================================================================
