---------------------------- MODULE MC_Calendar ----------------------------
(* Bounded design check of Calendar (job D for C01): the statement of the   *)
(* property is checked on the specification itself before it judges code.   *)
EXTENDS Calendar, FiniteSets, TLC
CONSTANT Windows                 \* set of <<first year, last year>>
VARIABLE n
DaysOf(w) == (DaysBeforeYear(w[1]) + 1)..DaysBeforeYear(w[2] + 1)
\* two levels so that TLC's workers share the invariant evaluation: the initial states are the 1 Januaries,
\* their successors the other days of the same year
Init == n \in { DaysBeforeYear(y) + 1 : y \in UNION { w[1]..w[2] : w \in Windows } }
Next == OrdinalOf(n) = 1 /\ n' \in (n + 1)..DaysBeforeYear(YearOfDay(n) + 1)
Spec == Init /\ [][Next]_n
QuickWindows    == { <<-2, 2>>, <<1968, 2030>>, <<-262143, -262142>>, <<262141, 262142>> }
ThoroughWindows == { <<-401, 801>>, <<1582, 2400>>, <<-262143, -261743>>, <<261742, 262142>> }
\* --- anchors: pin the definitions to the real calendar so that a self-consistent but shifted oracle cannot pass
ASSUME DayNumber(1970, 1, 1) = 719163 /\ WeekdayOf(719163) = 3            \* a Thursday
ASSUME DayNumber(1, 1, 1) = 1 /\ WeekdayOf(1) = 0                          \* 0001-01-01 is a Monday and day 1
ASSUME ValidYmd(2000, 2, 29) /\ WeekdayOf(DayNumber(2000, 2, 29)) = 1      \* a Tuesday
ASSUME ~ValidYmd(1900, 2, 29) /\ ValidYmd(0, 2, 29) /\ ~ValidYmd(-100, 2, 29) /\ ValidYmd(-400, 2, 29)
ASSUME LET k == DayNumber(2010, 1, 3) IN IsoYearOf(k) = 2009 /\ IsoWeekOf(k) = 53 /\ WeekdayOf(k) = 6
ASSUME LET k == DayNumber(2008, 12, 29) IN IsoYearOf(k) = 2009 /\ IsoWeekOf(k) = 1 /\ WeekdayOf(k) = 0
ASSUME MinDay = -95746129 /\ MaxDay = 95745399 /\ MaxDay - MinDay + 1 = 191491529
ASSUME DayNumber(2024, 12, 31) - DayNumber(2024, 1, 1) = 365 /\ 146097 % 7 = 0
ASSUME WeeksFrom(DayNumber(2023, 1, 1), 6) = 1 /\ WeeksFrom(DayNumber(2023, 1, 1), 0) = 0   \* 2023-01-01 is a Sunday
\* --- C01 on the specification
Bijection ==   \* the four forms are mutually inverse on every date
   LET y == YearOfDay(n)  m == MonthOfDay(n)  d == DayOfMonth(n) IN
   /\ m \in 1..12 /\ d \in 1..DaysInMonth(y, m) /\ OrdinalOf(n) \in 1..DaysInYear(y)
   /\ DayNumber(y, m, d) = n /\ FromYmd(y, m, d) = n /\ FromYo(y, OrdinalOf(n)) = n /\ FromDays(n) = n
   /\ FromIsoYwd(IsoYearOf(n), IsoWeekOf(n), WeekdayOf(n)) = n
   /\ IsoWeekOf(n) \in 1..NumIsoWeeks(IsoYearOf(n)) /\ NumIsoWeeks(IsoYearOf(n)) \in {52, 53}
   /\ DaysBeforeYear(y) < n /\ n <= DaysBeforeYear(y + 1)
ExactDomain == \* on 1 January: the argument tuples accepted for this year are exactly the days of this year
   OrdinalOf(n) = 1 =>
     LET y == YearOfDay(n)
         yearDays == { k \in (DaysBeforeYear(y) + 1)..DaysBeforeYear(y + 1) : InDates(k) }
         isoDays  == { k \in Week1Monday(y)..(Week1Monday(y + 1) - 1) : InDates(k) } IN
     /\ { FromYmd(y, m, d) : m \in 0..13, d \in 0..32 } \ {NoDate} = yearDays
     /\ Cardinality({ <<m, d>> \in (0..13) \X (0..32) : FromYmd(y, m, d) # NoDate }) = DaysInYear(y)
     /\ { FromYo(y, o) : o \in 0..367 } \ {NoDate} = yearDays
     /\ { FromIsoYwd(y, w, wd) : w \in 0..54, wd \in 0..6 } \ {NoDate} = isoDays
     /\ Cardinality({ <<w, wd>> \in (0..54) \X (0..6) : FromIsoYwd(y, w, wd) # NoDate }) = Cardinality(isoDays)
OrderAndSucc ==
   /\ (n < MaxDay => /\ Succ(n) = n + 1 /\ WeekdayOf(n + 1) = (WeekdayOf(n) + 1) % 7 /\ Pred(n + 1) = n
                     /\ LET a == <<YearOfDay(n), OrdinalOf(n)>>  b == <<YearOfDay(n + 1), OrdinalOf(n + 1)>> IN
                        a[1] < b[1] \/ (a[1] = b[1] /\ a[2] + 1 = b[2])
                     /\ LET a == <<IsoYearOf(n), IsoWeekOf(n)>>  b == <<IsoYearOf(n + 1), IsoWeekOf(n + 1)>> IN
                        a = b \/ (a[1] = b[1] /\ a[2] + 1 = b[2]) \/ (a[1] + 1 = b[1] /\ b[2] = 1))
   /\ (n = MaxDay => Succ(n) = NoDate) /\ (n = MinDay => Pred(n) = NoDate)
Periodic == InDates(n + 146097) =>
   /\ YearOfDay(n + 146097) = YearOfDay(n) + 400 /\ MonthOfDay(n + 146097) = MonthOfDay(n) /\ DayOfMonth(n + 146097) = DayOfMonth(n)
   /\ WeekdayOf(n + 146097) = WeekdayOf(n) /\ IsoYearOf(n + 146097) = IsoYearOf(n) + 400 /\ IsoWeekOf(n + 146097) = IsoWeekOf(n)
WeekNumbers == LET y == YearOfDay(n) IN
   /\ WeeksFrom(n, 6) \in 0..53 /\ WeeksFrom(n, 0) \in 0..53
   /\ (OrdinalOf(n) <= 8 => (WeeksFrom(n, 0) = 0 <=> \A k \in (DaysBeforeYear(y) + 1)..n : WeekdayOf(k) # 0))    \* before the first Monday
   /\ (OrdinalOf(n) <= 8 => (WeeksFrom(n, 6) = 0 <=> \A k \in (DaysBeforeYear(y) + 1)..n : WeekdayOf(k) # 6))
   /\ (OrdinalOf(n) > 8 => WeeksFrom(n, 0) >= 1 /\ WeeksFrom(n, 6) >= 1)
   /\ (n < DaysBeforeYear(y + 1) => WeeksFrom(n + 1, 0) = WeeksFrom(n, 0) + (IF WeekdayOf(n + 1) = 0 THEN 1 ELSE 0))
=============================================================================
