SPECIFICATION Spec
CONSTANT Windows <- ThoroughWindows
CONSTANT Thorough = TRUE
INVARIANT DayInv
INVARIANT TimeInv
INVARIANT OffsetInv
INVARIANT TimestampInv
CHECK_DEADLOCK FALSE
