-------------------------- MODULE MC_StrftimeItems --------------------------
(* Bounded design check of the format-string tokeniser (job D for C12, C13, *)
(* C15): all strings over a small alphabet that contains every character    *)
(* the tokeniser's case analysis looks at, in both modes, stepped through    *)
(* the iterator state machine.                                               *)
EXTENDS StrftimeItems, StrLit, FiniteSets, TLC
CONSTANT MaxLen, Alphabet
VARIABLES fmt, lenient, st, out
vars == <<fmt, lenient, st, out>>
\* '%', the modifiers, the multi-character specifiers' letters, a composite, a numeric, a space, a literal, a
\* multi-byte literal, an unknown letter
QuickAlphabet    == {37, 45, 35, 58, 46, 51, 102, 122, 68, 89, 32, 233}
ThoroughAlphabet == {37, 45, 95, 48, 35, 58, 46, 51, 57, 102, 122, 68, 99, 89, 113, 32, 12288, 97, 233, 81}
RECURSIVE Strings(_)
Strings(k) == IF k = 0 THEN {<<>>} ELSE LET S1 == Strings(k - 1) IN S1 \cup { Append(s, c) : s \in { t \in S1 : Len(t) = k - 1 }, c \in Alphabet }
Init == /\ fmt \in Strings(MaxLen) /\ lenient \in BOOLEAN /\ st = TokInit(fmt) /\ out = <<>>
Next == /\ ~TokDone(st)
        /\ LET r == TokStep(st, lenient) IN st' = r.st /\ out' = Append(out, r.item)
        /\ UNCHANGED <<fmt, lenient>>
Spec == Init /\ [][Next]_vars
\* every step makes progress: the iterator terminates (C15) ...
Progress == ~TokDone(st) => Variant(TokStep(st, lenient).st) < Variant(st) /\ Variant(st) > 0
\* ... after exactly Len(Items(fmt)) steps, at most 6.5 items per code point (reached by "%c")
CountBound == 2 * Len(Items(fmt, lenient)) <= (MaxQueue + 1) * Len(fmt) /\ Len(out) <= Len(Items(fmt, lenient))
\* the state machine and the function agree
Agree == /\ out = Take(Items(fmt, lenient), Len(out))
         /\ (TokDone(st) => out = Items(fmt, lenient))
         /\ ItemsFrom(st.rem, st.queue, lenient) = Drop(Items(fmt, lenient), Len(out))
\* lenient mode never yields an error item; the two modes differ exactly when strict mode reports an error
Modes == /\ ~HasErr(Items(fmt, TRUE))
         /\ (HasErr(Items(fmt, FALSE)) <=> Items(fmt, FALSE) # Items(fmt, TRUE))
         /\ Len(Items(fmt, FALSE)) <= Len(Items(fmt, TRUE))
\* text without '%' is copied unchanged: maximal runs of white space / other text, alternating, nothing lost
RECURSIVE Concat(_)
Concat(items) == IF items = <<>> THEN <<>> ELSE Head(items).s \o Concat(Tail(items))
LiteralCopied == (\A i \in 1..Len(fmt) : fmt[i] # 37) =>
   LET it == Items(fmt, lenient) IN
   /\ \A i \in 1..Len(it) : it[i].k \in {"Lit", "Space"} /\ it[i].s # <<>>
                            /\ \A j \in 1..Len(it[i].s) : (it[i].k = "Space") = IsWhite(it[i].s[j])
   /\ \A i \in 1..(Len(it) - 1) : it[i].k # it[i + 1].k
   /\ Concat(it) = fmt
\* an item never contains text that is not in the format string (lenient literals are substrings of the format)
LenientLiterals == lenient => \A i \in 1..Len(out) : out[i].k = "Lit" =>
   (\E p \in 0..(Len(fmt) - Len(out[i].s)) : SubSeq(fmt, p + 1, p + Len(out[i].s)) = out[i].s) \/ Len(out[i].s) = 1
\* --- anchors: the documented table, modifier table and examples
I(str) == Items(S(str), FALSE)
L(str) == Items(S(str), TRUE)
ASSUME I("%Y-%m-%d") = << NZ("Year"), Lit(S("-")), NZ("Month"), Lit(S("-")), NZ("Day") >>            \* doc example of StrftimeItems::new
ASSUME L("%Y-%Q") = << NZ("Year"), Lit(S("-")), Lit(S("%")), Lit(S("Q")) >>                           \* doc example of new_lenient
ASSUME I("%Y-%Q") = << NZ("Year"), Lit(S("-")), Err >>
ASSUME I("%F") = I("%Y-%m-%d") /\ I("%D") = I("%m/%d/%y") /\ I("%x") = I("%m/%d/%y") /\ I("%v") = I("%e-%b-%Y")
ASSUME I("%R") = I("%H:%M") /\ I("%T") = I("%H:%M:%S") /\ I("%X") = I("%H:%M:%S") /\ I("%r") = I("%I:%M:%S %p")
ASSUME I("%c") = I("%a %b %e %H:%M:%S %Y") /\ Len(I("%c")) = 13
ASSUME I("%h") = I("%b") /\ I("%e") = I("%_d") /\ I("%k") = I("%_H") /\ I("%l") = I("%_I")
ASSUME I("%-j") = <<NNo("Ordinal")>> /\ I("%_j") = <<NSp("Ordinal")>> /\ I("%0e") = <<NZ("Day")>> /\ I("%j") = <<NZ("Ordinal")>>
ASSUME I("%t%n%%") = << Spc(<<9>>), Spc(<<10>>), Lit(S("%")) >>
ASSUME I("%.f%.3f%.6f%.9f%3f%6f%9f") = << Fix("Nanosecond"), Fix("Nanosecond3"), Fix("Nanosecond6"), Fix("Nanosecond9"),
                                           Fix("Nanosecond3NoDot"), Fix("Nanosecond6NoDot"), Fix("Nanosecond9NoDot") >>
ASSUME I("%z%:z%::z%:::z%#z%Z") = << Fix("TimezoneOffset"), Fix("TimezoneOffsetColon"), Fix("TimezoneOffsetDoubleColon"),
                                      Fix("TimezoneOffsetTripleColon"), Fix("TimezoneOffsetPermissive"), Fix("TimezoneName") >>
\* "It is possible to override the default padding behavior of numeric specifiers. This is not allowed for other specifiers"
ASSUME \A str \in {"%-Z", "%0Z", "%_Z", "%-b", "%_p", "%0+", "%-%", "%_t", "%-.3f", "%0:z", "%-D", "%_T", "%0c", "%#m", "%#Y", "%.Z", "%:Z", "%", "%%%", "%.4f", "%5f", "%Q"} : HasErr(I(str))
ASSUME \A str \in {"%-Y", "%_C", "%0y", "%-q", "%_m", "%0d", "%-e", "%_w", "%0u", "%-U", "%_W", "%0G", "%-g", "%_V", "%0j", "%-H", "%_k", "%0I", "%-l", "%_M", "%0S", "%-f", "%_s"} :
          Len(I(str)) = 1 /\ I(str)[1].k = "Num"
ASSUME I("100%% ok") = << Lit(S("100")), Lit(S("%")), Spc(S(" ")), Lit(S("ok")) >>
ASSUME I("%ZZZZ") = << Fix("TimezoneName"), Lit(S("ZZZ")) >>
\* one Err per bad specifier, tokenisation continues after it
ASSUME I("%Q%Y%!x%d") = << Err, NZ("Year"), Err, Lit(S("x")), NZ("Day") >>
ASSUME L("%Y-%m-%dT%H:%M:%S%z%Q%.2f%%%") = I("%Y-%m-%dT%H:%M:%S%z") \o << Lit(S("%")), Lit(S("Q")), Lit(S("%.")), Lit(S("2f")), Lit(S("%")), Lit(S("%")) >>
=============================================================================
