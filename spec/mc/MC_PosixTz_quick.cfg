SPECIFICATION Spec
CONSTANT Years <- QuickYears
INVARIANT OffsetRule
INVARIANT RoundTrip
INVARIANT GapFoldShape
INVARIANT EarliestFirst
INVARIANT AllInScope
CHECK_DEADLOCK FALSE
