------------------------------- MODULE MC_Show -------------------------------
(* Bounded design check of Show (job D for C09): the writers and the        *)
(* documented reader grammars are mutually inverse inside the specification *)
(* and the printed forms obey the three laws of the statement (fewest of    *)
(* 0/3/6/9 fraction digits, sign exactly outside 0..9999, :60 for a leap    *)
(* second).  ASSUMEs pin both halves to literals of chrono's documentation. *)
EXTENDS Show, FiniteSets, TLC
CONSTANT Thorough                 \* FALSE: offset lattice x 36 instants per year; TRUE: every whole-minute offset in +-23:59 x 6 instants per
                                  \* year plus the offset lattice x 120 instants per year
VARIABLES a, x
Years == {-262143, -10000, -9999, -1, 0, 1, 999, 1000, 9999, 10000, 99999, 100000, 262142}
MonthDays(y) == {<<1, 1>>, <<1, 31>>, <<2, 28>>, <<6, 7>>, <<10, 9>>, <<12, 31>>} \cup (IF IsLeap(y) THEN {<<2, 29>>} ELSE {})
DatesOf(y) == { DayNumber(y, md[1], md[2]) : md \in MonthDays(y) }
Nanos == {0, 1, 999, 1000, 999000, 1000000, 999000000, 999999999, 120000000, 123456000}
Hms == {0, 59, 3600 * 9 + 60 * 5 + 7, 3600 * 12 + 60 * 34 + 56, 86399, 86340}
Times == { [secs |-> s, frac |-> f] : s \in Hms, f \in Nanos }
         \cup { [secs |-> s, frac |-> NSu + f] : s \in {59, 86399, 3600 * 7 + 59 * 60 + 59}, f \in Nanos }      \* leap seconds on second 59
FewTimes == { t \in Times : t.secs \in {0, 86399, 3600 * 9 + 60 * 5 + 7} /\ (t.frac % NSu) \in {0, 1, 999000, 120000000, 999999999} }
QuickOffsets == {0, 60, -60, 3540, -3540, 3600, -3600, 19800, -12600, 20700, 43200, -43200, 50400, 86340, -86340}
AllMinuteOffsets == { 60 * m : m \in -1439..1439 }
SecondOffsets == {1, -1, 29, 30, -30, 3661, -86399, 86399, 20730}
Kinds == {"date", "ndt", "utc", "fixed"}
Init == /\ a \in ((Kinds \X Years) \cup {<<"time", 0>>, <<"offset", 0>>, <<"names", 0>>, <<"edge", 0>>}) /\ x = [ty |-> "init"]
Ndts(y) == { [n |-> n, secs |-> t.secs, frac |-> t.frac] : n \in DatesOf(y), t \in FewTimes }
MidNdts(y) == { v \in Ndts(y) : v.secs # 32707 /\ MonthOfDay(v.n) \in {1, 6, 12} /\ (v.frac % NSu) \in {0, 999000, 999999999} }
TinyNdts(y) == { v \in MidNdts(y) : MonthOfDay(v.n) * DayOfMonth(v.n) \in {1, 372} /\ ((v.secs = 0 /\ v.frac = 0) \/ (v.secs = 86399 /\ v.frac \in {999999999, NSu + 999000})) }
Edge == \* zone-aware values whose wall clock lies in the one-day headroom outside MinDay..MaxDay
   { [ty |-> "fixed", u |-> [n |-> MaxDay, secs |-> 86399, frac |-> 999999999], off |-> o] : o \in {60, 3600, 86340} }
   \cup { [ty |-> "fixed", u |-> [n |-> MinDay, secs |-> 0, frac |-> 0], off |-> o] : o \in {-60, -3600, -86340} }
Next == /\ x.ty = "init" /\ a' = a
        /\ x' \in CASE a[1] = "date" -> { [ty |-> "date", n |-> n] : n \in DatesOf(a[2]) }
                    [] a[1] = "time" -> { [ty |-> "time", t |-> t] : t \in Times }
                    [] a[1] = "ndt"  -> { [ty |-> "ndt", v |-> v] : v \in Ndts(a[2]) }
                    [] a[1] = "utc"  -> { [ty |-> "utc", u |-> v] : v \in Ndts(a[2]) }
                    [] a[1] = "fixed" -> IF ~Thorough THEN { [ty |-> "fixed", u |-> v, off |-> o] : v \in MidNdts(a[2]), o \in QuickOffsets }
                                         ELSE { [ty |-> "fixed", u |-> v, off |-> o] : v \in TinyNdts(a[2]), o \in AllMinuteOffsets }
                                              \cup { [ty |-> "fixed", u |-> v, off |-> o] : v \in Ndts(a[2]), o \in QuickOffsets }
                    [] a[1] = "offset" -> { [ty |-> "offset", off |-> o] : o \in AllMinuteOffsets \cup SecondOffsets }
                    [] a[1] = "names" -> { [ty |-> "weekday", w |-> w] : w \in 0..6 } \cup { [ty |-> "month", m |-> m] : m \in 1..12 }
                    [] a[1] = "edge" -> Edge
Spec == Init /\ [][Next]_<<a, x>>
\* --- anchors: literals of the documentation ------------------------------------------------------------------
D(y, m, d) == DayNumber(y, m, d)
T(h, mi, s, f) == [secs |-> h * 3600 + mi * 60 + s, frac |-> f]
ASSUME DateShow(D(2015, 9, 5)) = <<50,48,49,53,45,48,57,45,48,53>>                       \* "2015-09-05"
ASSUME DateShow(D(-1, 1, 1)) = <<45,48,48,48,49,45,48,49,45,48,49>>                      \* "-0001-01-01"
ASSUME DateShow(D(10000, 12, 31)) = <<43,49,48,48,48,48,45,49,50,45,51,49>>              \* "+10000-12-31"
ASSUME TimeShow(T(23, 56, 4, 12000000)) = <<50,51,58,53,54,58,48,52,46,48,49,50>>        \* "23:56:04.012"
ASSUME TimeShow(T(6, 59, 59, 1500000000)) = <<48,54,58,53,57,58,54,48,46,53,48,48>>      \* "06:59:60.500"
U1 == [n |-> D(2014, 11, 28), secs |-> 12 * 3600 + 9, frac |-> 0]
ASSUME UtcDisplay(U1) = <<50,48,49,52,45,49,49,45,50,56,32,49,50,58,48,48,58,48,57,32,85,84,67>>                  \* "2014-11-28 12:00:09 UTC"
ASSUME UtcDebug(U1) = <<50,48,49,52,45,49,49,45,50,56,84,49,50,58,48,48,58,48,57,90>>                             \* "2014-11-28T12:00:09Z"
ASSUME FixedDisplay(U1, 32400) = <<50,48,49,52,45,49,49,45,50,56,32,50,49,58,48,48,58,48,57,32,43,48,57,58,48,48>> \* "2014-11-28 21:00:09 +09:00"
ASSUME FixedDebug(U1, 32400) = <<50,48,49,52,45,49,49,45,50,56,84,50,49,58,48,48,58,48,57,43,48,57,58,48,48>>      \* "2014-11-28T21:00:09+09:00"
ASSUME OffsetShow(-12600) = <<45,48,51,58,51,48>> /\ OffsetShow(20730) = <<43,48,53,58,52,53,58,51,48>>           \* "-03:30", "+05:45:30"
ASSUME ParseDate(<<43,49,50,51,52,53,45,54,45,55>>) = D(12345, 6, 7)                                              \* "+12345-6-7"
ASSUME ParseDate(<<49,50,51,52,53,45,54,45,55>>) = NoDate                                                         \* five digits need a sign
ASSUME ParseTime(<<50,51,58,53,54>>) = T(23, 56, 0, 0)                                                            \* "23:56": seconds optional
ASSUME ParseTime(<<50,51,58,53,54,58,52,46,48,49,50,51,52,53,54,55,56>>) = T(23, 56, 4, 12345678)                 \* "23:56:4.012345678"
ASSUME ParseTime(<<50,51,58,53,57,58,54,48,46,50,51,52,53,54,55,56,57>>) = T(23, 59, 59, 1234567890)              \* "23:59:60.23456789"
ASSUME ParseNdt(<<43,49,50,51,52,53,45,54,45,55,84,55,58,53,57,58,54,48,46,53>>)
         = [n |-> D(12345, 6, 7), secs |-> 7 * 3600 + 59 * 60 + 59, frac |-> 1500000000]                         \* "+12345-6-7T7:59:60.5"
U2 == [n |-> D(2012, 12, 12), secs |-> 12 * 3600 + 12 * 60 + 12, frac |-> 0]
ASSUME ParseFixed(<<50,48,49,50,45,32,32,49,50,45,49,50,84,49,50,58,32,32,49,50,58,49,50,90>>) = [u |-> U2, off |-> 0]   \* "2012-  12-12T12:  12:12Z"
ASSUME ParseUtc(<<50,48,49,50,45,49,50,45,49,50,32,49,50,58,49,50,58,49,50,43,48,48,48,48>>) = U2                 \* "2012-12-12 12:12:12+0000"
ASSUME ParseWeekday(<<109,79,78>>) = 0 /\ ParseWeekday(<<116,104,117,114,115>>) = NoName /\ ParseWeekday(<<115,117,110,100,97,121>>) = 6
ASSUME ParseMonth(<<102,69,98,114,117,65,82,121>>) = 2 /\ ParseMonth(<<115,101,112,116,101,109>>) = NoName
       /\ ParseMonth(<<65,117,103,117,115,116,105,110>>) = NoName /\ ParseMonth(<<109,97,121>>) = 5 /\ ParseMonth(<<>>) = NoName
ASSUME ParseOffset(<<8722,48,57,58,51,48>>) = -34200 /\ ParseOffset(<<45,48,48,48,48>>) = 0 /\ ParseOffset(<<43,50,52,48,48>>) = NoOffset
       /\ ParseOffset(<<43,48,57,54,48>>) = NoOffset
\* the documented NaiveDateTime format is the Debug one; its Display text (a space) is outside it - finding C09-ndt-display
ASSUME ParseNdt(<<50,48,49,53,45,48,57,45,49,56,84,50,51,58,53,54,58,48,52>>) = [n |-> D(2015, 9, 18), secs |-> 86164, frac |-> 0]
ASSUME ParseNdt(<<50,48,49,53,45,48,57,45,49,56,32,50,51,58,53,54,58,48,52>>) = NoValue
\* --- C09 on the specification -----------------------------------------------------------------------------------
RoundTrip ==
  CASE x.ty = "init" -> TRUE
    [] x.ty = "date" -> ParseDate(DateShow(x.n)) = x.n
    [] x.ty = "time" -> ParseTime(TimeShow(x.t)) = x.t
    [] x.ty = "ndt"  -> ParseNdt(NdtDebug(x.v)) = x.v
    [] x.ty = "utc"  -> ParseUtc(UtcDisplay(x.u)) = x.u /\ ParseUtc(UtcDebug(x.u)) = x.u
                        /\ ParseFixed(UtcDebug(x.u)) = [u |-> x.u, off |-> 0]
    [] x.ty = "fixed" -> LET v == [u |-> x.u, off |-> x.off] IN ParseFixed(FixedDisplay(x.u, x.off)) = v /\ ParseFixed(FixedDebug(x.u, x.off)) = v
    [] x.ty = "offset" -> (x.off % 60 = 0 => ParseOffset(OffsetShow(x.off)) = x.off)
    [] x.ty = "weekday" -> LET s == WeekdayShow(x.w)  l == LongDay(x.w) IN
          /\ \A t \in {s, l, UpperStr(s), LowerStr(s), UpperStr(l), LowerStr(l), <<Lower(l[1])>> \o UpperStr(Drop(l, 1))} : ParseWeekday(t) = x.w
          /\ \A t \in {Take(l, Min2(4, Len(l))), Take(s, 2), l \o <<115>>, <<32>> \o s, s \o <<32>>} : t # l => ParseWeekday(t) = NoName
    [] x.ty = "month" -> LET l == MonthShow(x.m)  s == ShortMonths[x.m] IN
          /\ \A t \in {s, l, UpperStr(s), LowerStr(s), UpperStr(l), LowerStr(l), <<Lower(l[1])>> \o UpperStr(Drop(l, 1))} : ParseMonth(t) = x.m
          /\ \A t \in {Take(l, Min2(4, Len(l))), Take(s, 2), l \o <<115>>, <<32>> \o s, s \o <<32>>} : (t # l /\ t # s) => ParseMonth(t) = NoName
\* the three laws of the second sentence of the statement, read off the printed text
FracDigits(text) == IF \E i \in 1..Len(text) : text[i] = 46
                    THEN LET i == CHOOSE i \in 1..Len(text) : text[i] = 46 IN DigitsEnd(text, i + 1) - (i + 1) ELSE 0
TimeLaws(t) == LET text == TimeShow(t)  k == FracDigits(text)  f == t.frac % NSu IN
   /\ k \in {0, 3, 6, 9}
   /\ f % Pow10(9 - k) = 0                                        \* k digits lose nothing
   /\ (k > 0 => f % Pow10(9 - (k - 3)) # 0)                        \* and no shorter admissible width would do
   /\ (<<text[7], text[8]>> = <<54, 48>>) = (t.frac >= NSu)        \* second 60 exactly for a leap second
   /\ Len(text) = 8 + (IF k = 0 THEN 0 ELSE k + 1)
DateLaws(n) == LET text == DateShow(n)  y == YearOfDay(n) IN
   /\ (text[1] \in {43, 45}) = (y < 0 \/ y > 9999)                 \* explicit sign exactly outside 0..9999
   /\ (y < 0 => text[1] = 45) /\ (y > 9999 => text[1] = 43)
   /\ Len(text) >= 10
Laws ==
  CASE x.ty = "date" -> DateLaws(x.n)
    [] x.ty = "time" -> TimeLaws(x.t)
    [] x.ty = "ndt" -> /\ NdtDisplay(x.v) = DateShow(x.v.n) \o <<32>> \o TimeShow(x.v) /\ NdtDebug(x.v) = DateShow(x.v.n) \o <<84>> \o TimeShow(x.v)
                       /\ TimeLaws([secs |-> x.v.secs, frac |-> x.v.frac]) /\ DateLaws(x.v.n)
    [] x.ty = "fixed" -> LET w == Wall(x.u, x.off) IN
                         /\ (w.n - x.u.n) \in {-1, 0, 1} /\ (w.n - x.u.n) * 86400 + w.secs - x.u.secs = x.off /\ w.frac = x.u.frac
                         /\ FixedDebug(x.u, x.off) = NdtDebug(w) \o OffsetShow(x.off)
    [] OTHER -> TRUE
=============================================================================
