SPECIFICATION Spec
CONSTANTS
  Threads = {t1, t2}
  TicksPerSec = 4
  MaxTime = 10
  MaxVer = 1
  EnvVals <- ThoroughVals
  SysChoices <- ThoroughSys
  Val <- WVal
  AbsFiles <- WAbsFiles
  RelFiles <- WRelFiles
  Rules <- WRules
VIEW View
SYMMETRY ThreadSymm
INVARIANT TypeOK
INVARIANT CacheZoneOK
PROPERTY FreshAct
PROPERTY FreshOnNewThreadAct
PROPERTY OneZonePerConversionAct
CHECK_DEADLOCK FALSE
