----------------------------- MODULE MC_Instant -----------------------------
(* Bounded design check of Instant and Rounding (job D for C02, C03, C17) on the lattice of case boundaries. *)
EXTENDS Rounding, TLC
CONSTANT Deep
VARIABLES a, b, d, phase
DaysL == {MinDay, MinDay + 1, 0, 1, UnixEpochDay - 1, UnixEpochDay, UnixEpochDay + 1, 730120, MaxDay - 1, MaxDay} \cup (IF Deep THEN {-1, 365, 366, 612411, 825914, 825915} ELSE {})
SecsL == {0, 59, 86399} \cup (IF Deep THEN {1, 43200, 86340} ELSE {})
FracL == {0, 1, 999999999, 1000000000, 1999999999} \cup (IF Deep THEN {500000000, 1500000000} ELSE {})
DTs == { [n |-> n, secs |-> s, frac |-> f] : n \in DaysL, s \in SecsL, f \in FracL }
Span == Sub(Ns(MaxDT), Ns(MinDT))
DurBase == { Zero, One, FromInt(999999999), FromInt(NS), Mul1e9(FromInt(60)), Mul1e9(FromInt(86399)), Mul1e9(FromInt(86400)), Mul1e9(FromInt(86400 * 365)),
             Mul1e9(MulSmall(FromInt(146097), 86400)), Span, Add(Span, One), Mul1e6(I64Max), I64Max, Add(I64Max, One) }
Durs == DurBase \cup { Neg(x) : x \in DurBase }
Init == a \in DTs /\ b = a /\ d = Zero /\ phase = 0
\* phase 1 varies the second date-time, phase 2 the duration (not their product)
Next == phase = 0 /\ a' = a /\ ((phase' = 1 /\ b' \in DTs /\ d' = d) \/ (phase' = 2 /\ b' = b /\ d' \in Durs))
Spec == Init /\ [][Next]_<<a, b, d, phase>>
ASSUME Ns([n |-> UnixEpochDay, secs |-> 0, frac |-> 0]) = Zero
ASSUME DayNumber(1970, 1, 1) = UnixEpochDay
ASSUME DtOfNs(FromInt(-1)) = [n |-> UnixEpochDay - 1, secs |-> 86399, frac |-> 999999999]       \* floor toward minus infinity
ASSUME FromTimestamp(FromInt(-1), FromInt(1000000)) = [n |-> UnixEpochDay - 1, secs |-> 86399, frac |-> 999000000]
ASSUME FromTimestamp(Mul1e9(FromInt(1)), FromInt(NS)) = [n |-> DayNumber(2001, 9, 9), secs |-> 3600 + 46 * 60 + 40, frac |-> 0]   \* 10^9 s = 2001-09-09T01:46:40Z
ASSUME TsNanosOpt([n |-> DayNumber(2262, 4, 11), secs |-> 23 * 3600 + 47 * 60 + 16, frac |-> 854775807]) = I64Max
ASSUME TsNanosOpt([n |-> DayNumber(2262, 4, 11), secs |-> 23 * 3600 + 47 * 60 + 16, frac |-> 854775808]) = NoDT
ASSUME TsNanosOpt([n |-> DayNumber(1677, 9, 21), secs |-> 12 * 60 + 43, frac |-> 145224192]) = I64Min
ASSUME FromSecsNanos(FromInt(59), FromInt(1500000000)) = [n |-> UnixEpochDay, secs |-> 59, frac |-> 1500000000]
ASSUME FromSecsNanos(FromInt(58), FromInt(1500000000)) = NoDT /\ FromSecsNanos(Zero, Mul1e9(FromInt(2))) = NoDT
NonLeap(x) == ~IsLeapDT(x)
\* C02 on the spec
TsRoundTrip == (phase = 0 /\ NonLeap(a)) => /\ FromTimestamp(Ns(a), One) = a /\ DtOfNs(Ns(a)) = a
                             /\ FromSecsNanos(TsSeconds(a), FromInt(a.frac)) = a
                             /\ Mul1e9(TsSeconds(a)) = Sub(Ns(a), FromInt(a.frac))
                             /\ Leq(Mul1e6(TsMillis(a)), Ns(a)) /\ Lt(Ns(a), Mul1e6(Add(TsMillis(a), One)))        \* floor
                             /\ Leq(Mul1e3(TsMicros(a)), Ns(a)) /\ Lt(Ns(a), Mul1e3(Add(TsMicros(a), One)))
TsExactDomain == phase = 0 => /\ DtOfNs(Sub(Ns(MinDT), One)) = NoDT /\ DtOfNs(Add(Ns(MaxDT), One)) = NoDT
                 /\ DtOfNs(Ns(MinDT)) = MinDT /\ DtOfNs(Ns(MaxDT)) = MaxDT
\* C03 on the spec
AddExact == (phase = 2 /\ NonLeap(a)) => (IF InDT(Add(Ns(a), d)) THEN AddDt(a, d) # NoDT /\ NonLeap(AddDt(a, d)) /\ Ns(AddDt(a, d)) = Add(Ns(a), d)
                           ELSE AddDt(a, d) = NoDT)
SinceExact == (phase = 1 /\ NonLeap(a) /\ NonLeap(b)) => /\ SinceDt(a, b) = Sub(Ns(a), Ns(b)) /\ CmpDt(a, b) = Sign(SinceDt(a, b))
                                            /\ (Leq(Abs(SinceDt(a, b)), Mul1e6(I64Max)) => AddDt(b, SinceDt(a, b)) = a)   \* b + (a - b) = a
SinceAntisym == phase = 1 => SinceDt(a, b) = Neg(SinceDt(b, a))
DateDays == phase = 1 => /\ AddDaysBig(a.n, FromInt(b.n - a.n)) = b.n /\ AddDaysBig(MaxDay, One) = NoDate /\ AddDaysBig(MinDay, FromInt(-1)) = NoDate
            /\ DateAddDur(a.n, Mul1e9(FromInt(86399))) = a.n /\ DateAddDur(a.n, Mul1e9(FromInt(-86399))) = a.n           \* truncation toward zero
            /\ DateSince(a.n, b.n) = Mul1e9(MulSmall(FromInt(a.n - b.n), 86400))
\* C17 on the spec: for a span dividing the lattice nicely, the three characterisations pick consistent multiples
Spans == { One, FromInt(1000), FromInt(NS), Mul1e9(FromInt(86400)), FromInt(7), I64Max }
RoundLaws == (phase = 0 /\ NonLeap(a) /\ FitsI64(Ns(a))) => \A s \in Spans :
     LET x == Ns(a)
         q == IF s = I64Max THEN (IF x.neg THEN FromInt(-1) ELSE Zero)
              ELSE IF Small(s) /\ ToInt(s) <= 2000000 THEN DivModSmall(x, ToInt(s))[1]
              ELSE IF s = FromInt(NS) THEN DivMod1e9(x)[1] ELSE DivModSmall(DivMod1e9(x)[1], 86400)[1]
         lo == Mul(q, s)  hi == IF lo = x THEN lo ELSE Add(lo, s) IN
     /\ TruncOk(x, s, lo) /\ UpOk(x, s, hi) /\ (RoundOk(x, s, lo) \/ RoundOk(x, s, hi))
     /\ ~(RoundOk(x, s, lo) /\ RoundOk(x, s, hi) /\ lo # hi)                  \* ties are decided
     /\ ~TruncOk(x, s, Sub(lo, s)) /\ ~UpOk(x, s, Add(hi, s))                 \* the characterisations are tight
     /\ TruncOk(lo, s, lo) /\ UpOk(hi, s, hi) /\ RoundOk(lo, s, lo)          \* multiples are fixed points (idempotence)
=============================================================================
