SPECIFICATION Spec
CONSTANT Thorough = FALSE
INVARIANT RoundTrip
INVARIANT Laws
CHECK_DEADLOCK FALSE
