SPECIFICATION Spec
CONSTANT Deep = TRUE
INVARIANT Closed
INVARIANT Exact
INVARIANT Accessors
INVARIANT Division
INVARIANT Order
INVARIANT Std
CHECK_DEADLOCK FALSE
