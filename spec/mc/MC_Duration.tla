----------------------------- MODULE MC_Duration -----------------------------
(* Bounded design check of Duration (job D for C06) on the lattice of case boundaries. *)
EXTENDS TimeDeltaImpl, TLC
CONSTANT Deep
VARIABLES x, y, k, phase
Base == { Zero, One, FromInt(999999999), NSb, Add(NSb, One), FromInt(1500000000), Mul1e9(FromInt(60)), Mul1e9(FromInt(86400)),
          I64Max, Add(I64Max, One), Mul1e3(I64Max), Sub(DurLim, One), DurLim, Sub(DurLim, NSb),
          Mul1e9(Mk(FALSE, <<775, 854, 36, 372, 223, 9>>)) }                      \* MAX.secs whole seconds
         \cup (IF Deep THEN { FromInt(2), FromInt(1000), FromInt(1000000), Mul1e9(FromInt(604800)), Sub(I64Max, One), TruncDivSmall(DurLim, 2), Add(TruncDivSmall(DurLim, 2), One) } ELSE {})
Durs == Base \cup { Neg(v) : v \in Base }
Ks == {0, 1, -1, 2, -2, 3, 7, -7, 1000, 2147483647, -2147483647} \cup (IF Deep THEN {-3, 10, 86400, -1000, 65536} ELSE {})
Init == x \in Durs /\ y = Zero /\ k = 1 /\ phase = 0
Next == phase = 0 /\ phase' = 1 /\ x' = x /\ y' \in Durs /\ k' \in Ks
Spec == Init /\ [][Next]_<<x, y, k, phase>>
Str(s) == s
ASSUME DurLim = Mk(FALSE, <<0, 0, 807, 775, 854, 36, 372, 223, 9>>)            \* 9 223 372 036 854 775 807 000 000 ns
ASSUME New(Mk(FALSE, <<775, 854, 36, 372, 223, 9>>), FromInt(807000000)) = DurLim
ASSUME New(Mk(FALSE, <<775, 854, 36, 372, 223, 9>>), FromInt(807000001)) = NoDur
ASSUME New(Mk(TRUE, <<776, 854, 36, 372, 223, 9>>), FromInt(193000000)) = Neg(DurLim)     \* MIN = -(secs+1) + 0.193 s
ASSUME New(Mk(TRUE, <<776, 854, 36, 372, 223, 9>>), FromInt(192999999)) = NoDur
ASSUME New(Zero, NSb) = NoDur
ASSUME Show(Zero) = <<80, 48, 68>>
ASSUME Show(FromInt(1500000000)) = <<80, 84, 49, 46, 53, 83>>                   \* PT1.5S
ASSUME Show(FromInt(-1)) = <<45, 80, 84, 48, 46, 48, 48, 48, 48, 48, 48, 48, 48, 49, 83>>   \* -PT0.000000001S
ASSUME Show(Mul1e9(FromInt(86400))) = <<80, 84, 56, 54, 52, 48, 48, 83>>         \* PT86400S
ASSUME NumSeconds(FromInt(-1500000000)) = FromInt(-1) /\ SubsecNanos(FromInt(-1500000000)) = FromInt(-500000000)
ASSUME NumMillis(FromInt(-1999999)) = FromInt(-1) /\ NumDays(Mul1e9(FromInt(-86399))) = Zero
Closed == /\ (CAdd(x, y) # NoDur => InRange(CAdd(x, y))) /\ (CSub(x, y) # NoDur => InRange(CSub(x, y)))
          /\ (InRange(x) => CMul(x, FromInt(k)) = NoDur \/ InRange(CMul(x, FromInt(k))))
          /\ (InRange(x) => InRange(Neg(x)) /\ InRange(Abs(x)))                 \* the range is symmetric: negation never fails
Exact == (InRange(x) /\ InRange(y)) =>
          /\ (CAdd(x, y) # NoDur => CSub(CAdd(x, y), y) = x)
          /\ (CAdd(x, y) = NoDur <=> ~InRange(Add(x, y)))
          /\ CAdd(x, y) = CAdd(y, x) /\ CSub(x, y) = CAdd(x, Neg(y))
          /\ (k # 0 /\ CMul(x, FromInt(k)) # NoDur /\ k \in -1000..1000 =>
                  (IF k > 0 THEN TruncDivSmall(CMul(x, FromInt(k)), k) ELSE Neg(TruncDivSmall(CMul(x, FromInt(k)), -k))) = x)
Accessors == InRange(x) =>
          /\ Add(Mul1e9(NumSeconds(x)), SubsecNanos(x)) = x
          /\ Lt(Abs(SubsecNanos(x)), NSb) /\ (Sign(SubsecNanos(x)) = 0 \/ Sign(SubsecNanos(x)) = Sign(x))
          /\ Leq(Abs(Mul1e9(NumSeconds(x))), Abs(x))                              \* truncation toward zero
          /\ NumSeconds(Neg(x)) = Neg(NumSeconds(x)) /\ NumMillis(Neg(x)) = Neg(NumMillis(x))
          /\ FitsI64(NumMillis(x))                                               \* the range is exactly what i64 milliseconds can count
          /\ (OptI64(x) = NoDur <=> (Lt(I64Max, x) \/ Lt(x, I64Min)))
Division == (InRange(x) /\ k # 0 /\ k \in -1000..1000) =>
          LET q == IF k > 0 THEN TruncDivSmall(x, k) ELSE Neg(TruncDivSmall(x, -k)) IN
          /\ DivOk(x, FromInt(k), q)                                            \* the exact (truncated) quotient is admitted
          /\ ~DivOk(x, FromInt(k), Add(q, FromInt(3))) /\ ~DivOk(x, FromInt(k), Sub(q, FromInt(3)))   \* and the tolerance is tight
\* the floor representation with its carry logic refines the abstract duration (impl/TimeDeltaImpl.tla)
OptVal(r) == IF r = NoRep THEN NoDur ELSE Val(r)
ImplRefines == (InRange(x) /\ InRange(y)) =>
          /\ OptVal(AddI(RepOf(x), RepOf(y))) = CAdd(x, y) /\ OptVal(SubI(RepOf(x), RepOf(y))) = CSub(x, y)
          /\ Val(NegI(RepOf(x))) = Neg(x) /\ Val(AbsI(RepOf(x))) = Abs(x)
          /\ OptVal(MulI(RepOf(x), k)) = CMul(x, FromInt(k))
          /\ Val(RepOf(x)) = x /\ NewI(RepOf(x).secs, RepOf(x).nanos) = RepOf(x)
Order == Cmp(x, y) = -Cmp(y, x) /\ (Cmp(x, y) = 0 <=> x = y) /\ (Lt(x, y) <=> Sign(Sub(x, y)) = -1)
Std == (InRange(x) /\ ~x.neg) => LET sn == DivMod1e9(x) IN FromStd(sn[1], FromInt(sn[2])) = x
=============================================================================
