SPECIFICATION Spec
CONSTANT Deep = TRUE
INVARIANT MonthStep
INVARIANT Replace
INVARIANT Weeks
INVARIANT Nth
INVARIANT WallRoundTrip
CHECK_DEADLOCK FALSE
