------------------------------ MODULE Totality ------------------------------
(***************************************************************************)
(* Property C15 as an action table: every operation that reports failure   *)
(* through its return type (Option / Result / MappedLocalTime) has         *)
(* outcomes ok / none / err / ambiguous for EVERY argument and no outcome  *)
(* "panic" or "timeout"; operations documented to panic have an explicit   *)
(* panic disjunct.  A returned value must be a valid value of its type.    *)
(***************************************************************************)
EXTENDS DateTimeTz, Duration
\* the fallible entry points (public, not deprecated), named <type>.<method>
FallibleOps == {
  "NaiveDate.from_ymd_opt", "NaiveDate.from_yo_opt", "NaiveDate.from_isoywd_opt", "NaiveDate.from_num_days_from_ce_opt", "NaiveDate.from_weekday_of_month_opt",
  "NaiveDate.checked_add_months", "NaiveDate.checked_sub_months", "NaiveDate.checked_add_days", "NaiveDate.checked_sub_days", "NaiveDate.checked_add_signed", "NaiveDate.checked_sub_signed",
  "NaiveDate.succ_opt", "NaiveDate.pred_opt", "NaiveDate.with_year", "NaiveDate.with_month", "NaiveDate.with_month0", "NaiveDate.with_day", "NaiveDate.with_day0", "NaiveDate.with_ordinal", "NaiveDate.with_ordinal0",
  "NaiveDate.and_hms_opt", "NaiveDate.and_hms_milli_opt", "NaiveDate.and_hms_micro_opt", "NaiveDate.and_hms_nano_opt", "NaiveDate.years_since", "NaiveDate.week.checked_first_day", "NaiveDate.week.checked_last_day", "NaiveDate.week.checked_days",
  "NaiveDate.parse_from_str", "NaiveDate.parse_and_remainder", "NaiveDate.from_str",
  "NaiveTime.from_hms_opt", "NaiveTime.from_hms_milli_opt", "NaiveTime.from_hms_micro_opt", "NaiveTime.from_hms_nano_opt", "NaiveTime.from_num_seconds_from_midnight_opt",
  "NaiveTime.with_hour", "NaiveTime.with_minute", "NaiveTime.with_second", "NaiveTime.with_nanosecond", "NaiveTime.parse_from_str", "NaiveTime.parse_and_remainder", "NaiveTime.from_str",
  "NaiveTime.overflowing_add_signed", "NaiveTime.overflowing_sub_signed", "NaiveTime.signed_duration_since",
  "NaiveDateTime.checked_add_signed", "NaiveDateTime.checked_sub_signed", "NaiveDateTime.checked_add_months", "NaiveDateTime.checked_sub_months", "NaiveDateTime.checked_add_days", "NaiveDateTime.checked_sub_days",
  "NaiveDateTime.checked_add_offset", "NaiveDateTime.checked_sub_offset", "NaiveDateTime.with_year", "NaiveDateTime.with_month", "NaiveDateTime.with_day", "NaiveDateTime.with_ordinal",
  "NaiveDateTime.with_hour", "NaiveDateTime.with_minute", "NaiveDateTime.with_second", "NaiveDateTime.with_nanosecond", "NaiveDateTime.and_local_timezone",
  "NaiveDateTime.parse_from_str", "NaiveDateTime.parse_and_remainder", "NaiveDateTime.from_str", "NaiveDateTime.signed_duration_since",
  "TimeDelta.new", "TimeDelta.try_weeks", "TimeDelta.try_days", "TimeDelta.try_hours", "TimeDelta.try_minutes", "TimeDelta.try_seconds", "TimeDelta.try_milliseconds",
  "TimeDelta.checked_add", "TimeDelta.checked_sub", "TimeDelta.checked_mul", "TimeDelta.checked_div", "TimeDelta.from_std", "TimeDelta.to_std", "TimeDelta.num_microseconds", "TimeDelta.num_nanoseconds",
  "DateTime.from_timestamp", "DateTime.from_timestamp_millis", "DateTime.from_timestamp_micros", "Utc.timestamp_opt", "Utc.timestamp_millis_opt", "Utc.timestamp_micros", "Utc.with_ymd_and_hms",
  "FixedOffset.from_local_datetime", "FixedOffset.with_ymd_and_hms", "FixedOffset.east_opt", "FixedOffset.west_opt", "FixedOffset.from_str",
  "DateTime.checked_add_signed", "DateTime.checked_sub_signed", "DateTime.checked_add_months", "DateTime.checked_sub_months", "DateTime.checked_add_days", "DateTime.checked_sub_days",
  "DateTime.with_year", "DateTime.with_month", "DateTime.with_month0", "DateTime.with_day", "DateTime.with_day0", "DateTime.with_ordinal", "DateTime.with_ordinal0",
  "DateTime.with_hour", "DateTime.with_minute", "DateTime.with_second", "DateTime.with_nanosecond", "DateTime.with_time", "DateTime.timestamp_nanos_opt",
  "DateTime.duration_round", "DateTime.duration_trunc", "DateTime.duration_round_up", "NaiveDateTime.duration_round", "NaiveDateTime.duration_trunc", "NaiveDateTime.duration_round_up",
  "DateTime.to_rfc3339", "DateTime.to_rfc3339_opts", "DateTime.years_since", "DateTime.signed_duration_since",
  "DateTime.parse_from_rfc3339", "DateTime.parse_from_rfc2822", "DateTime.parse_from_str", "DateTime.parse_and_remainder", "DateTimeFixed.from_str", "DateTimeUtc.from_str", "NaiveDateTime.and_utc.parse_from_str",
  "StrftimeItems.parse", "StrftimeItems.parse_to_owned", "StrftimeItems.count", "StrftimeItems.count_lenient", "format.parse", "format.parse_and_remainder", "format.write_to",
  "Parsed.set", "Parsed.to_naive_date", "Parsed.to_naive_time", "Parsed.to_naive_datetime_with_offset", "Parsed.to_fixed_offset", "Parsed.to_datetime", "Parsed.to_datetime_with_timezone",
  "Weekday.from_str", "Month.from_str", "Weekday.try_from_u8", "Month.try_from_u8", "Month.from_u64", "Month.from_i64", "Month.from_u32", "Weekday.from_u64", "Weekday.from_i64", "Month.num_days",
  "serde.NaiveDate", "serde.NaiveTime", "serde.NaiveDateTime", "serde.DateTimeUtc", "serde.DateTimeFixed", "serde.TimeDelta", "serde.Weekday", "serde.Month", "serde.ts", "serde.serialize" }
\* operations documented to panic, with the outcome they may additionally have
DocPanicOps == { "op.NaiveDateTime.add", "op.NaiveDateTime.sub", "op.NaiveDate.add", "op.NaiveDate.sub", "op.TimeDelta.add", "op.TimeDelta.sub", "op.TimeDelta.mul", "op.TimeDelta.div",
                 "op.DateTime.add", "op.DateTime.sub", "DateTime.naive_local", "DateTime.date_naive", "DateTime.to_rfc2822", "format.to_string", "NaiveWeek.first_day", "NaiveWeek.last_day" }
Outcomes == {"ok", "none", "err", "ambiguous"}
\* a returned value must be a valid value of its type ("never builds an invalid value")
ValidVal(v) ==
  CASE v.k = "date" -> InDates(v.n)
    [] v.k = "time" -> IsTime(v.t)
    [] v.k = "ndt"  -> IsDT(v.dt)
    [] v.k = "dur"  -> InRange(J(v.d))
    [] v.k = "dtz"  -> IsDT(v.u) /\ v.off > -86400 /\ v.off < 86400
    [] v.k = "off"  -> v.off > -86400 /\ v.off < 86400
    [] v.k = "count" -> v.n >= 0 /\ ~v.capped                    \* the item iterator ended within its bound (7 items per byte + 17)
    [] OTHER -> TRUE
=============================================================================
