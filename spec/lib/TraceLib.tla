------------------------------ MODULE TraceLib ------------------------------
(***************************************************************************)
(* Shared plumbing of the trace specifications: the recorded events, the   *)
(* non-blocking acceptance idiom and the end-of-trace postcondition.       *)
(* A disjunction inside an action would be split into separate successors  *)
(* by TLC, so a rejected event is reported from the ELSE branch of an IF   *)
(* whose condition is a state predicate, and the position still advances:  *)
(* every unexplained event of a trace is reported in one run.              *)
(***************************************************************************)
EXTENDS Integers, Sequences, TLC, Json, IOUtils
Rec == ndJsonDeserialize(IOEnv.TRACE)          \* `Trace` would clash with TLCExt
Has(e, f) == f \in DOMAIN e
IsNone(r) == "none" \in DOMAIN r               \* optional values are records: {"none":1} or the value's own record
NoPanic(e) == ~Has(e, "panic")
Report(l, ok) == IF ok THEN TRUE ELSE PrintT(<<"REJECT", l>>)
Consumed(n) == IF TLCGet("stats").diameter - 1 = n THEN PrintT(<<"CONSUMED", n>>)
               ELSE PrintT(<<"STUCK", TLCGet("stats").diameter - 1, n>>) /\ FALSE
=============================================================================
