-------------------------------- MODULE Text --------------------------------
(***************************************************************************)
(* Text as sequences of Unicode code points (TLC's Json module mangles     *)
(* non-ASCII strings, so traces carry arrays of numbers), and the number   *)
(* formatting primitives shared by every text form of the specification.  *)
(***************************************************************************)
EXTENDS Integers, Sequences
IsDigit(c) == c >= 48 /\ c <= 57
IsAsciiAlpha(c) == (c >= 65 /\ c <= 90) \/ (c >= 97 /\ c <= 122)
\* the 25 code points of Rust's char::is_whitespace
IsWhite(c) == (c >= 9 /\ c <= 13) \/ c = 32 \/ c = 133 \/ c = 160 \/ c = 5760 \/ (c >= 8192 /\ c <= 8202)
              \/ c = 8232 \/ c = 8233 \/ c = 8239 \/ c = 8287 \/ c = 12288
Upper(c) == IF c >= 97 /\ c <= 122 THEN c - 32 ELSE c
Lower(c) == IF c >= 65 /\ c <= 90 THEN c + 32 ELSE c
UpperStr(s) == [i \in 1..Len(s) |-> Upper(s[i])]
LowerStr(s) == [i \in 1..Len(s) |-> Lower(s[i])]
EqIgnoreAsciiCase(a, b) == Len(a) = Len(b) /\ \A i \in 1..Len(a) : Lower(a[i]) = Lower(b[i])
At(s, i) == IF i >= 1 /\ i <= Len(s) THEN s[i] ELSE -1
Drop(s, n) == SubSeq(s, n + 1, Len(s))
Take(s, n) == SubSeq(s, 1, n)
StartsWith(s, p) == Len(s) >= Len(p) /\ Take(s, Len(p)) = p
RECURSIVE Cat(_)
Cat(ss) == IF ss = <<>> THEN <<>> ELSE Head(ss) \o Cat(Tail(ss))
Digit(d) == 48 + d
RECURSIVE DecNat(_)
DecNat(v) == IF v < 10 THEN <<Digit(v)>> ELSE DecNat(v \div 10) \o <<Digit(v % 10)>>
RECURSIVE Rep(_, _)
Rep(c, k) == IF k <= 0 THEN <<>> ELSE <<c>> \o Rep(c, k - 1)
Two(v) == <<Digit(v \div 10), Digit(v % 10)>>
\* Rust `{:+}` / `{:0w$}` / `{:w$}` on an integer given as sign + decimal digits; pad \in {"None","Zero","Space"}
FmtInt(neg, digits, width, pad, alwaysSign) ==
   LET sign == IF neg THEN <<45>> ELSE IF alwaysSign THEN <<43>> ELSE <<>>
       fill == width - Len(sign) - Len(digits)
   IN CASE pad = "None" -> sign \o digits
        [] pad = "Zero" -> sign \o Rep(48, fill) \o digits
        [] pad = "Space" -> Rep(32, fill) \o sign \o digits
Pad0(vv, w) == FmtInt(FALSE, DecNat(vv), w, "Zero", FALSE)
\* decimal digits of a BigInt magnitude (little-endian base-1000 limbs)
RECURSIVE DecLimbs(_, _)
DecLimbs(m, i) == IF i = 0 THEN <<>> ELSE (IF i = Len(m) THEN DecNat(m[i]) ELSE <<Digit(m[i] \div 100), Digit((m[i] \div 10) % 10), Digit(m[i] % 10)>>) \o DecLimbs(m, i - 1)
DecMag(m) == IF m = <<>> THEN <<48>> ELSE DecLimbs(m, Len(m))
\* number scanning
AllDigits(s, i, n) == \A k \in i..(i+n-1) : IsDigit(At(s, k))
RECURSIVE NumAt(_, _, _)
NumAt(s, i, n) == IF n = 0 THEN 0 ELSE NumAt(s, i, n-1) * 10 + (s[i+n-1] - 48)      \* n <= 9 digits
RECURSIVE DigitsEnd(_, _)      \* first index >= i that is not a digit
DigitsEnd(s, i) == IF IsDigit(At(s, i)) THEN DigitsEnd(s, i+1) ELSE i
Pow10(n) == CASE n = 0 -> 1 [] n = 1 -> 10 [] n = 2 -> 100 [] n = 3 -> 1000 [] n = 4 -> 10000 [] n = 5 -> 100000
              [] n = 6 -> 1000000 [] n = 7 -> 10000000 [] n = 8 -> 100000000 [] OTHER -> 1000000000
\* English names
ShortMonths == << <<74,97,110>>, <<70,101,98>>, <<77,97,114>>, <<65,112,114>>, <<77,97,121>>, <<74,117,110>>, <<74,117,108>>, <<65,117,103>>, <<83,101,112>>, <<79,99,116>>, <<78,111,118>>, <<68,101,99>> >>
LongMonthTails == << <<117,97,114,121>>, <<114,117,97,114,121>>, <<99,104>>, <<105,108>>, <<>>, <<101>>, <<121>>, <<117,115,116>>, <<116,101,109,98,101,114>>, <<111,98,101,114>>, <<101,109,98,101,114>>, <<101,109,98,101,114>> >>
ShortDays == << <<77,111,110>>, <<84,117,101>>, <<87,101,100>>, <<84,104,117>>, <<70,114,105>>, <<83,97,116>>, <<83,117,110>> >>       \* index 1 = Monday
LongDayTails == << <<100,97,121>>, <<115,100,97,121>>, <<110,101,115,100,97,121>>, <<114,115,100,97,121>>, <<100,97,121>>, <<117,114,100,97,121>>, <<100,97,121>> >>
LongMonth(m) == ShortMonths[m] \o LongMonthTails[m]
LongDay(w) == ShortDays[w + 1] \o LongDayTails[w + 1]           \* w: 0 = Monday
=============================================================================
