------------------------------- MODULE BigInt -------------------------------
(***************************************************************************)
(* Signed big integers for TLC, whose native integers are 32-bit.          *)
(* A value is [neg |-> BOOLEAN, mag |-> little-endian base-1000 limbs      *)
(* without trailing zeros]; zero is [neg |-> FALSE, mag |-> <<>>].         *)
(* Base 1000: 10^9 = 1000^3 (seconds <-> nanoseconds is a three-limb       *)
(* shift) and limb * 2 000 000 stays below 2^31.                           *)
(***************************************************************************)
EXTENDS Integers, Sequences
B == 1000
RECURSIVE Trim(_)
Trim(s) == IF s = <<>> THEN s ELSE IF s[Len(s)] = 0 THEN Trim(SubSeq(s, 1, Len(s)-1)) ELSE s
RECURSIVE MagOfNat(_)
MagOfNat(n) == IF n = 0 THEN <<>> ELSE <<n % B>> \o MagOfNat(n \div B)
Limb(s, i) == IF i <= Len(s) THEN s[i] ELSE 0
MaxI(a, b) == IF a > b THEN a ELSE b
MinI(a, b) == IF a < b THEN a ELSE b
RECURSIVE AddMag(_, _, _, _)
AddMag(a, b, i, c) == IF i > MaxI(Len(a), Len(b)) THEN (IF c = 0 THEN <<>> ELSE <<c>>)
                      ELSE LET t == Limb(a,i) + Limb(b,i) + c IN <<t % B>> \o AddMag(a, b, i+1, t \div B)
RECURSIVE CmpMagFrom(_, _, _)
CmpMagFrom(a, b, i) == IF i = 0 THEN 0 ELSE IF a[i] < b[i] THEN -1 ELSE IF a[i] > b[i] THEN 1 ELSE CmpMagFrom(a, b, i-1)
CmpMag(a, b) == IF Len(a) < Len(b) THEN -1 ELSE IF Len(a) > Len(b) THEN 1 ELSE CmpMagFrom(a, b, Len(a))
RECURSIVE SubMag(_, _, _, _)   \* requires a >= b
SubMag(a, b, i, br) == IF i > Len(a) THEN <<>>
                       ELSE LET t == a[i] - Limb(b,i) - br IN
                            IF t < 0 THEN <<t + B>> \o SubMag(a, b, i+1, 1) ELSE <<t>> \o SubMag(a, b, i+1, 0)
Mk(neg, mag) == LET m == Trim(mag) IN [neg |-> (neg /\ m # <<>>), mag |-> m]
\* re-normalise a value read from a trace (a JSON record {"neg":b,"mag":[..]})
J(v) == Mk(v.neg, v.mag)
WellFormed(v) == /\ DOMAIN v = {"neg", "mag"} /\ v.neg \in BOOLEAN
                 /\ \A i \in 1..Len(v.mag) : v.mag[i] \in 0..(B-1)
                 /\ (v.mag # <<>> => v.mag[Len(v.mag)] # 0) /\ (v.mag = <<>> => ~v.neg)
FromInt(n) == IF n < 0 THEN (IF n = -2147483647 - 1 THEN Mk(TRUE, <<648, 483, 147, 2>>) ELSE Mk(TRUE, MagOfNat(-n)))
              ELSE Mk(FALSE, MagOfNat(n))
Zero == Mk(FALSE, <<>>)
One  == FromInt(1)
IsZero(x) == x.mag = <<>>
Neg(x) == Mk(~x.neg, x.mag)
Abs(x) == Mk(FALSE, x.mag)
Add(x, y) == IF x.neg = y.neg THEN Mk(x.neg, AddMag(x.mag, y.mag, 1, 0))
             ELSE IF CmpMag(x.mag, y.mag) >= 0 THEN Mk(x.neg, SubMag(x.mag, y.mag, 1, 0))
             ELSE Mk(y.neg, SubMag(y.mag, x.mag, 1, 0))
Sub(x, y) == Add(x, Neg(y))
Cmp(x, y) == IF x.neg /\ ~y.neg THEN -1 ELSE IF ~x.neg /\ y.neg THEN 1
             ELSE IF x.neg THEN CmpMag(y.mag, x.mag) ELSE CmpMag(x.mag, y.mag)
Leq(x, y) == Cmp(x, y) <= 0
Lt(x, y)  == Cmp(x, y) < 0
Eq(x, y)  == Cmp(x, y) = 0
Sign(x) == IF x.mag = <<>> THEN 0 ELSE IF x.neg THEN -1 ELSE 1
RECURSIVE MulMagSmall(_, _, _, _)   \* 0 <= k <= 2 000 000
MulMagSmall(a, k, i, c) == IF i > Len(a) THEN MagOfNat(c)
                           ELSE LET t == a[i] * k + c IN <<t % B>> \o MulMagSmall(a, k, i+1, t \div B)
RECURSIVE ShiftMag(_, _)
ShiftMag(a, n) == IF n = 0 \/ a = <<>> THEN a ELSE <<0>> \o ShiftMag(a, n-1)
RECURSIVE MulMag(_, _, _)
MulMag(a, b, j) == IF j > Len(b) THEN <<>>
                   ELSE AddMag(ShiftMag(MulMagSmall(a, b[j], 1, 0), j-1), MulMag(a, b, j+1), 1, 0)
Mul(x, y) == Mk(x.neg # y.neg, MulMag(x.mag, y.mag, 1))
MulSmall(x, k) == IF k >= 0 THEN Mk(x.neg, MulMagSmall(x.mag, k, 1, 0)) ELSE Mk(~x.neg, MulMagSmall(x.mag, -k, 1, 0))
\* long division of a magnitude by a small positive divisor (d <= 2 000 000), most significant limb first;
\* returns <<quotient limbs (little endian, untrimmed), remainder>>
RECURSIVE DivMagSmallFrom(_, _, _, _)
DivMagSmallFrom(a, d, i, rem) == IF i = 0 THEN <<<<>>, rem>>
                                 ELSE LET cur == rem * B + a[i]
                                          rest == DivMagSmallFrom(a, d, i - 1, cur % d)
                                      IN <<rest[1] \o <<cur \div d>>, rest[2]>>
\* floor division: x = q*d + r, 0 <= r < d
DivModSmall(x, d) ==
   LET qr == DivMagSmallFrom(x.mag, d, Len(x.mag), 0)
       qa == Mk(FALSE, qr[1])  ra == qr[2] IN
   IF ~x.neg THEN <<qa, ra>>
   ELSE IF ra = 0 THEN <<Neg(qa), 0>>
   ELSE <<Neg(Add(qa, One)), d - ra>>
\* truncating division (sign of the remainder follows the dividend)
TruncDivSmall(x, d) == IF ~x.neg THEN DivModSmall(x, d)[1] ELSE Neg(DivModSmall(Neg(x), d)[1])
\* x div 10^9 / x mod 10^9 by limb shift, floor semantics
Low3(m) == Limb(m, 1) + 1000 * Limb(m, 2) + 1000000 * Limb(m, 3)
High(m) == IF Len(m) <= 3 THEN <<>> ELSE SubSeq(m, 4, Len(m))
DivMod1e9(x) == LET lo == Low3(x.mag)  hi == Mk(FALSE, High(x.mag)) IN
   IF ~x.neg THEN <<hi, lo>>
   ELSE IF lo = 0 THEN <<Neg(hi), 0>>
   ELSE <<Neg(Add(hi, One)), 1000000000 - lo>>
TruncDiv1e9(x) == IF ~x.neg THEN DivMod1e9(x)[1] ELSE Neg(DivMod1e9(Neg(x))[1])
Mul1e9(x) == Mk(x.neg, IF x.mag = <<>> THEN <<>> ELSE <<0, 0, 0>> \o x.mag)
Mul1e3(x) == Mk(x.neg, IF x.mag = <<>> THEN <<>> ELSE <<0>> \o x.mag)
Mul1e6(x) == Mk(x.neg, IF x.mag = <<>> THEN <<>> ELSE <<0, 0>> \o x.mag)
\* |x| < 10^9: converting to a native integer is safe
Small(x) == Len(x.mag) <= 3
\* |x| <= 2^31 - 1: ToInt is safe (Small is the cheaper test for |x| < 10^9)
IntSafe(x) == Len(x.mag) <= 3 \/ (Len(x.mag) = 4 /\ CmpMag(x.mag, <<647, 483, 147, 2>>) <= 0)
ToInt(x) == IF x.neg /\ x.mag = <<648, 483, 147, 2>> THEN -2147483647 - 1                    \* i32::MIN: its magnitude is not a native integer
            ELSE LET v == Limb(x.mag, 1) + 1000 * Limb(x.mag, 2) + 1000000 * Limb(x.mag, 3) + 1000000000 * Limb(x.mag, 4)
                 IN IF x.neg THEN -v ELSE v                  \* requires -2^31 <= x < 2^31
I64Max == Mk(FALSE, <<807, 775, 854, 36, 372, 223, 9>>)      \* 9 223 372 036 854 775 807
I64Min == Neg(Add(I64Max, One))
FitsI64(x) == Leq(I64Min, x) /\ Leq(x, I64Max)
I32Max == FromInt(2147483647)
I32Min == FromInt(-2147483647 - 1)
FitsI32(x) == Leq(I32Min, x) /\ Leq(x, I32Max)
U32Max == Mk(FALSE, <<295, 967, 294, 4>>)
FitsU32(x) == ~x.neg /\ Leq(x, U32Max)
=============================================================================
