------------------------------ MODULE Rfc2822 ------------------------------
(***************************************************************************)
(* RFC 2822 date-times (property C11).                                     *)
(*   Write(w, off)     the renderer `Www, D Mon YYYY HH:MM:SS +HHMM`;      *)
(*   Gen(f, c)         the reader's grammar as a generator: fields f and   *)
(*                     syntax choices c, one for every optional part the   *)
(*                     property names (weekday, seconds, trailing comments *)
(*                     incl. nested and escaped ones, runs of white space  *)
(*                     where the standard form has a space, years of 2, 3  *)
(*                     or 4+ digits, zone names and military letters);     *)
(*   Denoted(f, c)     the value such a text denotes (year-length rule,    *)
(*                     zone table), Valid / Consistent the side conditions;*)
(*   Read(s)           the same grammar analytically (a recogniser), used  *)
(*                     only by the design check as the second entry.       *)
(* Obligations are positive: a generated text must be accepted with its    *)
(* denoted value; the one negative family is a stated weekday that         *)
(* contradicts the date.  A value is [n, secs, frac, off] (wall clock).    *)
(***************************************************************************)
EXTENDS Show

(* ------------------------------- writer -------------------------------- *)
Write(w, off) == ShortDays[WeekdayOf(w.n) + 1] \o <<44, 32>> \o DecNat(DayOfMonth(w.n)) \o <<32>> \o ShortMonths[MonthOfDay(w.n)] \o <<32>>
                 \o Pad0(YearOfDay(w.n), 4) \o <<32>> \o HmsText(w) \o <<32>> \o OffsetText(off, "M", FALSE, FALSE)
\* what the text keeps of a wall clock: whole seconds, a leap second preserved
Whole(w) == [n |-> w.n, secs |-> w.secs, frac |-> IF w.frac >= NSu THEN NSu ELSE 0]

(* ------------------------------ the pieces ----------------------------- *)
\* year-length rule: two digits 00-49 -> 20xx, 50-99 -> 19xx; three digits -> +1900; four or more digits as written
RECURSIVE DigitsValue(_, _)
DigitsValue(ds, k) == IF k = 0 THEN 0 ELSE DigitsValue(ds, k - 1) * 10 + ds[k]
\* more than six digits are a year only if the surplus digits in front are zeros (the value is what counts; six digits hold every year)
LongOK(ds) == Len(ds) <= 6 \/ \A i \in 1..(Len(ds) - 6) : ds[i] = 0
YearOf(ds) == LET k == Len(ds)  v == IF k > 6 THEN DigitsValue(SubSeq(ds, k - 5, k), 6) ELSE DigitsValue(ds, k) IN
   CASE k = 2 -> (IF v <= 49 THEN 2000 + v ELSE 1900 + v)
     [] k = 3 -> 1900 + v
     [] OTHER -> v
\* zones: numeric (+|-)HHMM, the names of RFC 2822 section 4.3, single military letters (all read as +0000)
NoZone == 1000000
NamedZones == << [t |-> <<85,84>>, o |-> 0], [t |-> <<71,77,84>>, o |-> 0],
                 [t |-> <<69,83,84>>, o |-> -5], [t |-> <<69,68,84>>, o |-> -4], [t |-> <<67,83,84>>, o |-> -6], [t |-> <<67,68,84>>, o |-> -5],
                 [t |-> <<77,83,84>>, o |-> -7], [t |-> <<77,68,84>>, o |-> -6], [t |-> <<80,83,84>>, o |-> -8], [t |-> <<80,68,84>>, o |-> -7] >>
IsMilitary(c) == LET u == Upper(c) IN u >= 65 /\ u <= 90 /\ u # 74                      \* A-I, K-Z in either case
ZoneOffset(t) ==
   IF Len(t) = 5 /\ t[1] \in {43, 45} /\ AllDigits(t, 2, 4)
   THEN (IF NumAt(t, 4, 2) > 59 \/ NumAt(t, 2, 2) > 23 THEN NoZone ELSE (IF t[1] = 43 THEN 1 ELSE -1) * (NumAt(t, 2, 2) * 3600 + NumAt(t, 4, 2) * 60))
   ELSE IF \E k \in 1..Len(NamedZones) : EqIgnoreAsciiCase(t, NamedZones[k].t)
   THEN 3600 * NamedZones[CHOOSE k \in 1..Len(NamedZones) : EqIgnoreAsciiCase(t, NamedZones[k].t)].o
   ELSE IF Len(t) = 1 /\ IsMilitary(t[1]) THEN 0 ELSE NoZone
\* a run of white space: SP, HTAB, or a line fold CRLF followed by SP / HTAB
WsOk(r) == /\ Len(r) >= 1 /\ \A i \in 1..Len(r) : r[i] \in {32, 9, 13, 10}
           /\ \A i \in 1..Len(r) : (r[i] = 13 => At(r, i + 1) = 10) /\ (r[i] = 10 => At(r, i - 1) = 13 /\ At(r, i + 1) \in {32, 9})
\* trailing comments: ( [white space] "(" { any char except ( ) \ | "\" any char | comment } ")" )*
RECURSIVE CommentScan(_, _, _)
CommentScan(s, i, depth) ==        \* TRUE iff s[i..] completes a well-formed comment list, currently `depth` levels inside parentheses
   IF i > Len(s) THEN depth = 0 /\ (Len(s) = 0 \/ s[Len(s)] = 41)
   ELSE IF depth = 0 THEN (IF s[i] = 40 THEN CommentScan(s, i + 1, 1) ELSE IF s[i] \in {32, 9} THEN CommentScan(s, i + 1, 0) ELSE FALSE)
   ELSE IF s[i] = 92 THEN (i < Len(s) /\ CommentScan(s, i + 2, depth))
   ELSE IF s[i] = 40 THEN CommentScan(s, i + 1, depth + 1)
   ELSE IF s[i] = 41 THEN CommentScan(s, i + 1, depth - 1)
   ELSE CommentScan(s, i + 1, depth)
CommentsOk(s) == CommentScan(s, 1, 0)
NameCase(s, k) == CASE k = "asis" -> s [] k = "upper" -> UpperStr(s) [] k = "lower" -> LowerStr(s)

(* ------------------------------ generator ------------------------------ *)
\* f = [wd, d, mo, yt, h, mi, s, zone]   wd: the stated weekday (0 = Monday), yt: the year's digits, zone: the zone text
\* c = [wkd, dpad, secs, ncase, ws, cm]  weekday present, day padded to two digits, seconds present, case of the names,
\*                                       ws: the five white-space runs, cm: the trailing comments (may be empty)
\* optional white space around the first colon and before the second one of the time of day (absent from older traces: empty)
Tws(c, k) == IF "tws" \in DOMAIN c THEN c.tws[k] ELSE <<>>
TwsOk(c) == "tws" \in DOMAIN c => (Len(c.tws) = 3 /\ \A k \in 1..3 : \A i \in 1..Len(c.tws[k]) : c.tws[k][i] \in {32, 9})
Gen(f, c) ==
   (IF c.wkd THEN NameCase(ShortDays[f.wd + 1], c.ncase) \o <<44>> \o c.ws[1] ELSE <<>>)
   \o (IF c.dpad THEN Two(f.d) ELSE DecNat(f.d)) \o c.ws[2] \o NameCase(ShortMonths[f.mo], c.ncase) \o c.ws[3]
   \o [i \in 1..Len(f.yt) |-> 48 + f.yt[i]] \o c.ws[4]
   \o Two(f.h) \o Tws(c, 1) \o <<58>> \o Tws(c, 2) \o Two(f.mi) \o (IF c.secs THEN Tws(c, 3) \o <<58>> \o Two(f.s) ELSE <<>>) \o c.ws[5] \o f.zone \o c.cm
Valid(f, c) ==
   /\ Len(f.yt) >= 2 /\ Len(f.yt) <= 40 /\ LongOK(f.yt) /\ \A i \in 1..Len(f.yt) : f.yt[i] \in 0..9
   /\ ValidYmd(YearOf(f.yt), f.mo, f.d)
   /\ f.h \in 0..23 /\ f.mi \in 0..59 /\ f.s \in 0..60 /\ (~c.secs => f.s = 0)
   /\ ZoneOffset(f.zone) # NoZone
   /\ f.wd \in 0..6 /\ c.wkd \in BOOLEAN /\ c.dpad \in BOOLEAN /\ c.secs \in BOOLEAN /\ c.ncase \in {"asis", "upper", "lower"}
   /\ Len(c.ws) = 5 /\ \A k \in 1..5 : WsOk(c.ws[k])
   /\ CommentsOk(c.cm) /\ TwsOk(c)
Denoted(f, c) == [n |-> DayNumber(YearOf(f.yt), f.mo, f.d), secs |-> f.h * 3600 + f.mi * 60 + Min2(f.s, 59),
                  frac |-> IF f.s = 60 THEN NSu ELSE 0, off |-> ZoneOffset(f.zone)]
\* a stated weekday must be the weekday of the date
Consistent(f, c) == c.wkd => f.wd = WeekdayOf(DayNumber(YearOf(f.yt), f.mo, f.d))
\* the standard form is one point of the generator: Write(w, off) = Gen(Canon(w, off), CanonChoices)
Canon(w, off) == LET y == YearOfDay(w.n) IN
   [wd |-> WeekdayOf(w.n), d |-> DayOfMonth(w.n), mo |-> MonthOfDay(w.n),
    yt |-> <<y \div 1000, (y \div 100) % 10, (y \div 10) % 10, y % 10>>,
    h |-> w.secs \div 3600, mi |-> (w.secs \div 60) % 60, s |-> Sec(w), zone |-> OffsetText(off, "M", FALSE, FALSE)]
CanonChoices == [wkd |-> TRUE, dpad |-> FALSE, secs |-> TRUE, ncase |-> "asis", ws |-> <<<<32>>, <<32>>, <<32>>, <<32>>, <<32>>>>, cm |-> <<>>]

(* ------------------------------ recogniser ----------------------------- *)
\* [ok |-> FALSE] or [ok |-> TRUE, v |-> value, wd |-> stated weekday or -1]
NameIndex(t, names) == IF \E k \in 1..Len(names) : EqIgnoreAsciiCase(t, names[k])
                       THEN CHOOSE k \in 1..Len(names) : EqIgnoreAsciiCase(t, names[k]) ELSE 0
RECURSIVE AlphaEnd(_, _)
AlphaEnd(s, i) == IF IsAsciiAlpha(At(s, i)) THEN AlphaEnd(s, i + 1) ELSE i
Sub(s, i, j) == IF j < i THEN <<>> ELSE SubSeq(s, i, j)
Read(s) ==
   LET hasW == IsAsciiAlpha(At(s, 1))
       wk == IF hasW /\ Len(s) >= 4 THEN NameIndex(Sub(s, 1, 3), ShortDays) ELSE 0
       p0 == IF hasW THEN SkipWhite(s, 5) ELSE 1 IN
   IF hasW /\ (wk = 0 \/ At(s, 4) # 44) THEN Fail
   ELSE LET day == ScanNat(s, p0, 2) IN
   IF ~day.ok THEN Fail
   ELSE LET p1 == SkipWhite(s, day.next)   mo == NameIndex(Sub(s, p1, p1 + 2), ShortMonths)   p2 == SkipWhite(s, p1 + 3)   ye == DigitsEnd(s, p2) IN
   IF p1 = day.next \/ mo = 0 \/ p2 = p1 + 3 \/ ye - p2 < 2 THEN Fail
   ELSE LET yt == [i \in 1..(ye - p2) |-> s[p2 + i - 1] - 48]   p3 == SkipWhite(s, ye) IN
   IF ~LongOK(yt) \/ p3 = ye \/ ~AllDigits(s, p3, 2) \/ At(s, p3 + 2) # 58 \/ ~AllDigits(s, p3 + 3, 2) THEN Fail
   ELSE LET hasS == At(s, p3 + 5) = 58 /\ AllDigits(s, p3 + 6, 2)
            te == IF hasS THEN p3 + 8 ELSE p3 + 5
            p4 == SkipWhite(s, te)
            ze == IF IsAsciiAlpha(At(s, p4)) THEN AlphaEnd(s, p4) ELSE p4 + 5
            zone == Sub(s, p4, Min2(ze - 1, Len(s)))
            f == [wd |-> IF hasW THEN wk - 1 ELSE 0, d |-> day.v, mo |-> mo, yt |-> yt, h |-> NumAt(s, p3, 2), mi |-> NumAt(s, p3 + 3, 2),
                  s |-> IF hasS THEN NumAt(s, p3 + 6, 2) ELSE 0, zone |-> zone] IN
   IF p4 = te \/ ZoneOffset(zone) = NoZone \/ ~CommentsOk(Sub(s, ze, Len(s))) THEN Fail
   ELSE IF ~ValidYmd(YearOf(yt), f.mo, f.d) \/ f.h > 23 \/ f.mi > 59 \/ f.s > 60 THEN Fail
   ELSE IF hasW /\ f.wd # WeekdayOf(DayNumber(YearOf(yt), f.mo, f.d)) THEN Fail
   ELSE [ok |-> TRUE, v |-> Denoted(f, [secs |-> hasS])]
=============================================================================
