---------------------------- MODULE StrftimeItems ----------------------------
(***************************************************************************)
(* The strftime format-string tokeniser (properties C12, C13, C15).        *)
(* A format string is a sequence of code points; the result is a sequence  *)
(* of items:                                                               *)
(*   Lit(s)    literal text, copied / matched unchanged                    *)
(*   Spc(s)    white space                                                 *)
(*   Num(n, p) numeric field n with padding p in {"Zero","Space","None"}   *)
(*   Fix(f)    fixed-form field (names, am/pm, fractions, offsets, %+)     *)
(*   Err       an invalid or unknown specifier (formatting/parsing fails)  *)
(* Source: the specifier table, the modifier table and the doc examples of *)
(* chrono::format::strftime (e.g. new_lenient("%Y-%Q") = Year "-" "%" "Q").*)
(* Two modes: strict (StrftimeItems::new; one Err item per bad specifier,  *)
(* the offending code points are consumed and tokenisation continues) and  *)
(* lenient (new_lenient; the bad specifier becomes literal text).          *)
(*                                                                         *)
(* The tokeniser is given twice: as the function Items(fmt, lenient) and   *)
(* as the state machine <<remainder, queue>> with one action per kind of   *)
(* step (TokInit / TokNext); MC_StrftimeItems checks that they agree and   *)
(* that Variant decreases on every step.                                   *)
(*                                                                         *)
(* Named deviation PadOnCompositeLeaksQueue: a padding modifier on a       *)
(* composite specifier (%-D, %_T, %0c ...) is an error, but the queued     *)
(* tail of the composite is still emitted after the Err / literal item.    *)
(* This is outside the listed properties (formatting fails in strict mode  *)
(* either way); it is modelled so that item lists can be compared exactly. *)
(***************************************************************************)
EXTENDS Text
Lit(s)    == [k |-> "Lit", s |-> s]
Spc(s)    == [k |-> "Space", s |-> s]
Num(n, p) == [k |-> "Num", n |-> n, p |-> p]
Fix(f)    == [k |-> "Fix", f |-> f]
Err       == [k |-> "Err"]
NZ(n) == Num(n, "Zero")
NSp(n) == Num(n, "Space")
NNo(n) == Num(n, "None")
Ch(c) == Lit(<<c>>)
\* documented expansions of the composite specifiers
DFmt   == << NZ("Month"), Ch(47), NZ("Day"), Ch(47), NZ("YearMod100") >>                        \* %D %x = %m/%d/%y
FFmt   == << NZ("Year"), Ch(45), NZ("Month"), Ch(45), NZ("Day") >>                               \* %F = %Y-%m-%d
VFmt   == << NSp("Day"), Ch(45), Fix("ShortMonthName"), Ch(45), NZ("Year") >>                    \* %v = %e-%b-%Y
RFmt   == << NZ("Hour"), Ch(58), NZ("Minute") >>                                                 \* %R = %H:%M
TFmt   == << NZ("Hour"), Ch(58), NZ("Minute"), Ch(58), NZ("Second") >>                           \* %T %X = %H:%M:%S
R12Fmt == << NZ("Hour12"), Ch(58), NZ("Minute"), Ch(58), NZ("Second"), Spc(<<32>>), Fix("UpperAmPm") >>   \* %r = %I:%M:%S %p
CFmt   == << Fix("ShortWeekdayName"), Spc(<<32>>), Fix("ShortMonthName"), Spc(<<32>>), NSp("Day"), Spc(<<32>>),
             NZ("Hour"), Ch(58), NZ("Minute"), Ch(58), NZ("Second"), Spc(<<32>>), NZ("Year") >>    \* %c = %a %b %e %H:%M:%S %Y
\* specifier letter -> sequence of items (head is returned, tail is queued); <<>> = not a specifier
Table(ch) ==
  CASE ch = 65 -> <<Fix("LongWeekdayName")>>  [] ch = 66 -> <<Fix("LongMonthName")>>  [] ch = 67 -> <<NZ("YearDiv100")>>
    [] ch = 68 -> DFmt  [] ch = 70 -> FFmt
    [] ch = 71 -> <<NZ("IsoYear")>>  [] ch = 72 -> <<NZ("Hour")>>  [] ch = 73 -> <<NZ("Hour12")>>  [] ch = 77 -> <<NZ("Minute")>>
    [] ch = 80 -> <<Fix("LowerAmPm")>>  [] ch = 82 -> RFmt  [] ch = 83 -> <<NZ("Second")>>
    [] ch = 84 -> TFmt  [] ch = 85 -> <<NZ("WeekFromSun")>>  [] ch = 86 -> <<NZ("IsoWeek")>>  [] ch = 87 -> <<NZ("WeekFromMon")>>
    [] ch = 88 -> TFmt  [] ch = 89 -> <<NZ("Year")>>  [] ch = 90 -> <<Fix("TimezoneName")>>
    [] ch = 97 -> <<Fix("ShortWeekdayName")>>  [] ch \in {98, 104} -> <<Fix("ShortMonthName")>>
    [] ch = 99 -> CFmt
    [] ch = 100 -> <<NZ("Day")>>  [] ch = 101 -> <<NSp("Day")>>  [] ch = 102 -> <<NZ("Nanosecond")>>  [] ch = 103 -> <<NZ("IsoYearMod100")>>
    [] ch = 106 -> <<NZ("Ordinal")>>  [] ch = 107 -> <<NSp("Hour")>>  [] ch = 108 -> <<NSp("Hour12")>>  [] ch = 109 -> <<NZ("Month")>>
    [] ch = 110 -> <<Spc(<<10>>)>>  [] ch = 112 -> <<Fix("UpperAmPm")>>  [] ch = 113 -> <<NNo("Quarter")>>
    [] ch = 114 -> R12Fmt
    [] ch = 115 -> <<NNo("Timestamp")>>  [] ch = 116 -> <<Spc(<<9>>)>>  [] ch = 117 -> <<NNo("WeekdayFromMon")>>
    [] ch = 118 -> VFmt  [] ch = 119 -> <<NNo("NumDaysFromSun")>>
    [] ch = 120 -> DFmt  [] ch = 121 -> <<NZ("YearMod100")>>  [] ch = 43 -> <<Fix("RFC3339")>>  [] ch = 37 -> <<Ch(37)>>
    [] OTHER -> <<>>
PadOf(ch) == CASE ch = 45 -> "None" [] ch = 48 -> "Zero" [] ch = 95 -> "Space" [] OTHER -> "no"
\* Result of one specifier parse: [item, rem, queue]. `orig` is the text starting at '%', `n` the number of code
\* points looked at so far. Strict: an Err item, everything looked at is consumed. Lenient: the text before the
\* offending code point (`back` = 1: that code point is given back) becomes a literal.
ErrorAt(orig, n, back, lenient) ==
   IF lenient THEN [item |-> Lit(Take(orig, n - back)), rem |-> Drop(orig, n - back), queue |-> <<>>]
   ELSE [item |-> Err, rem |-> Drop(orig, n), queue |-> <<>>]
ParseSpec(orig, lenient) ==
  IF Len(orig) < 2 THEN ErrorAt(orig, 1, 0, lenient)                       \* a lone '%' at the end
  ELSE LET c1 == orig[2]
           pad == PadOf(c1)
           alt == c1 = 35                                                  \* '#'
           hasMod == pad # "no" \/ alt
       IN IF hasMod /\ Len(orig) < 3 THEN ErrorAt(orig, 2, 0, lenient)
          ELSE LET sp == IF hasMod THEN orig[3] ELSE c1
                   n0 == IF hasMod THEN 3 ELSE 2                      \* consumed incl. the specifier letter
                   rest == Drop(orig, n0)
               IN IF alt /\ sp # 122 THEN ErrorAt(orig, n0, 1, lenient)   \* only %#z has an alternate form
                  ELSE LET base ==   \* [items, n (code points looked at), rem, err]
                         IF sp = 122 THEN [items |-> <<Fix(IF alt THEN "TimezoneOffsetPermissive" ELSE "TimezoneOffset")>>, n |-> n0, rem |-> rest, err |-> "no"]
                         ELSE IF sp = 58 THEN          \* %:z %::z %:::z
                              (IF StartsWith(rest, <<58, 58, 122>>) THEN [items |-> <<Fix("TimezoneOffsetTripleColon")>>, n |-> n0, rem |-> Drop(rest, 3), err |-> "no"]
                               ELSE IF StartsWith(rest, <<58, 122>>) THEN [items |-> <<Fix("TimezoneOffsetDoubleColon")>>, n |-> n0, rem |-> Drop(rest, 2), err |-> "no"]
                               ELSE IF StartsWith(rest, <<122>>) THEN [items |-> <<Fix("TimezoneOffsetColon")>>, n |-> n0, rem |-> Drop(rest, 1), err |-> "no"]
                               ELSE [items |-> <<>>, n |-> n0, rem |-> rest, err |-> "keep"])        \* remainder stays after ':'
                         ELSE IF sp = 46 THEN          \* %.f %.3f %.6f %.9f
                              (IF rest = <<>> THEN [items |-> <<>>, n |-> n0, rem |-> rest, err |-> "eof"]
                               ELSE IF rest[1] = 102 THEN [items |-> <<Fix("Nanosecond")>>, n |-> n0 + 1, rem |-> Drop(rest, 1), err |-> "no"]
                               ELSE IF rest[1] \in {51, 54, 57} THEN
                                    (IF Len(rest) < 2 THEN [items |-> <<>>, n |-> n0 + 1, rem |-> <<>>, err |-> "eof"]
                                     ELSE IF rest[2] = 102 THEN [items |-> <<Fix(CASE rest[1] = 51 -> "Nanosecond3" [] rest[1] = 54 -> "Nanosecond6" [] OTHER -> "Nanosecond9")>>,
                                                                  n |-> n0 + 2, rem |-> Drop(rest, 2), err |-> "no"]
                                     ELSE [items |-> <<>>, n |-> n0 + 2, rem |-> rest, err |-> "back"])
                               ELSE [items |-> <<>>, n |-> n0 + 1, rem |-> rest, err |-> "back"])
                         ELSE IF sp \in {51, 54, 57} THEN   \* %3f %6f %9f
                              (IF rest = <<>> THEN [items |-> <<>>, n |-> n0, rem |-> rest, err |-> "eof"]
                               ELSE IF rest[1] = 102 THEN [items |-> <<Fix(CASE sp = 51 -> "Nanosecond3NoDot" [] sp = 54 -> "Nanosecond6NoDot" [] OTHER -> "Nanosecond9NoDot")>>,
                                                            n |-> n0 + 1, rem |-> Drop(rest, 1), err |-> "no"]
                               ELSE [items |-> <<>>, n |-> n0 + 1, rem |-> rest, err |-> "back"])
                         ELSE IF Table(sp) # <<>> THEN [items |-> Table(sp), n |-> n0, rem |-> rest, err |-> "no"]
                         ELSE [items |-> <<>>, n |-> n0, rem |-> rest, err |-> "back"]
                       IN IF base.err = "eof" THEN ErrorAt(orig, base.n, 0, lenient)
                          ELSE IF base.err = "back" THEN
                               (IF pad # "no" /\ lenient
                                THEN ErrorAt(orig, base.n - 1, 0, lenient)      \* the offending code point was already given back
                                ELSE ErrorAt(orig, base.n, 1, lenient))
                          ELSE IF base.err = "keep" THEN
                               (IF pad # "no" THEN ErrorAt(orig, base.n, 0, lenient)
                                ELSE [item |-> (IF lenient THEN Lit(Take(orig, base.n)) ELSE Err), rem |-> base.rem, queue |-> <<>>])
                          ELSE IF pad = "no" THEN [item |-> base.items[1], rem |-> base.rem, queue |-> Tail(base.items)]
                          ELSE IF base.items[1].k = "Num" /\ Len(base.items) = 1
                               THEN [item |-> Num(base.items[1].n, pad), rem |-> base.rem, queue |-> <<>>]      \* padding override
                          ELSE \* padding on a non-numeric or composite specifier: BAD_FORMAT (PadOnCompositeLeaksQueue: the tail stays queued)
                               [item |-> ErrorAt(orig, base.n, 0, lenient).item, rem |-> ErrorAt(orig, base.n, 0, lenient).rem, queue |-> Tail(base.items)]
RECURSIVE WhiteRun(_, _), LitRun(_, _)
WhiteRun(s, i) == IF i <= Len(s) /\ IsWhite(s[i]) THEN WhiteRun(s, i + 1) ELSE i - 1
LitRun(s, i)   == IF i <= Len(s) /\ ~IsWhite(s[i]) /\ s[i] # 37 THEN LitRun(s, i + 1) ELSE i - 1
\* one step on a non-empty remainder with an empty queue
NextItem(rem, lenient) ==
  IF rem[1] = 37 THEN ParseSpec(rem, lenient)
  ELSE IF IsWhite(rem[1]) THEN LET n == WhiteRun(rem, 1) IN [item |-> Spc(Take(rem, n)), rem |-> Drop(rem, n), queue |-> <<>>]
  ELSE LET n == LitRun(rem, 1) IN [item |-> Lit(Take(rem, n)), rem |-> Drop(rem, n), queue |-> <<>>]
\* the whole item list (both modes continue after an error)
RECURSIVE ItemsFrom(_, _, _)
ItemsFrom(rem, queue, lenient) ==
  IF queue # <<>> THEN <<Head(queue)>> \o ItemsFrom(rem, Tail(queue), lenient)
  ELSE IF rem = <<>> THEN <<>>
  ELSE LET r == NextItem(rem, lenient) IN <<r.item>> \o ItemsFrom(r.rem, r.queue, lenient)
Items(fmt, lenient) == ItemsFrom(fmt, <<>>, lenient)
StrictItems(fmt) == Items(fmt, FALSE)
HasErr(items) == \E i \in 1..Len(items) : items[i].k = "Err"
(* --- the iterator as a state machine: st = [rem, queue]; TokStep yields the item and the next state ---        *)
TokInit(fmt) == [rem |-> fmt, queue |-> <<>>]
TokDone(st) == st.rem = <<>> /\ st.queue = <<>>
TokStep(st, lenient) ==
  IF st.queue # <<>> THEN [item |-> Head(st.queue), st |-> [rem |-> st.rem, queue |-> Tail(st.queue)]]       \* NextQueued
  ELSE LET r == NextItem(st.rem, lenient) IN [item |-> r.item, st |-> [rem |-> r.rem, queue |-> r.queue]]   \* NextSpec / NextSpace / NextLiteral / NextError
\* progress measure: a parsing step consumes at least one code point and queues at most 12 items (%c)
MaxQueue == 12
Variant(st) == (MaxQueue + 1) * Len(st.rem) + Len(st.queue)
=============================================================================
