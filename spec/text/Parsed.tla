------------------------------- MODULE Parsed -------------------------------
(***************************************************************************)
(* The field collection `Parsed` and its resolution (property C14).        *)
(*                                                                         *)
(* State: a field map f (a function whose DOMAIN is the set of supplied    *)
(* field names; 21 fields).  Actions: the setters with their documented    *)
(* range table and the double-set rule, and five resolutions.  Resolution  *)
(* is a RELATION: the obligations O1, O2, O3a, O3b of DESIGN.md section 7  *)
(* (C14) say which outcomes are admitted for a field map; where the        *)
(* statement is silent every outcome that agrees with the supplied fields  *)
(* is admitted.  Nothing here mirrors the order in which chrono tries the  *)
(* combinations or its verify_* closures.                                  *)
(*                                                                         *)
(* Values: a date is its day number (Calendar), a time of day [secs, frac] *)
(* (frac >= 10^9: leap second), a naive date-time [n, secs, frac], a       *)
(* zoned one [n, secs, frac, off] (local clock and offset), the timestamp  *)
(* a BigInt.  Results are [ok |-> value] or [err |-> kind].                *)
(***************************************************************************)
EXTENDS Calendar, BigInt, FiniteSets, TLC
NSec == 1000000000
Given(f, name) == name \in DOMAIN f
NoFields == [x \in {} |-> 0]
IsOk(r) == "ok" \in DOMAIN r
IsErr(r) == "err" \in DOMAIN r
Err(kind) == [err |-> kind]
Contra == {"Impossible", "OutOfRange"}          \* contradicting or non-existent field values
AnyKind == {"Impossible", "OutOfRange", "NotEnough"}
DateFields == {"year", "year_div_100", "year_mod_100", "isoyear", "isoyear_div_100", "isoyear_mod_100", "quarter", "month",
               "week_from_sun", "week_from_mon", "isoweek", "weekday", "ordinal", "day"}
TimeFields == {"hour_div_12", "hour_mod_12", "minute", "second", "nanosecond"}
AllFields == DateFields \cup TimeFields \cup {"timestamp", "offset"}

\* ------------------------------------------------------------------------------------------ setters
\* one setter per field, except the hour: set_ampm -> hour_div_12, set_hour12 -> hour_mod_12 (12 is stored as 0), set_hour -> both
Setters == (AllFields \ {"hour_div_12", "hour_mod_12"}) \cup {"ampm", "hour12", "hour"}
SmallIn(x, lo, hi) == Small(x) /\ ToInt(x) >= lo /\ ToInt(x) <= hi
\* the documented range of each setter's argument (an i64, here a BigInt)
InRange(s, x) ==
   CASE s \in {"year", "isoyear", "offset"} -> FitsI32(x)
     [] s \in {"year_div_100", "isoyear_div_100"} -> ~x.neg /\ FitsI32(x)
     [] s \in {"year_mod_100", "isoyear_mod_100"} -> SmallIn(x, 0, 99)
     [] s = "quarter" -> SmallIn(x, 1, 4)
     [] s = "month" -> SmallIn(x, 1, 12)
     [] s \in {"week_from_sun", "week_from_mon"} -> SmallIn(x, 0, 53)
     [] s = "isoweek" -> SmallIn(x, 1, 53)
     [] s = "weekday" -> SmallIn(x, 0, 6)
     [] s = "ordinal" -> SmallIn(x, 1, 366)
     [] s = "day" -> SmallIn(x, 1, 31)
     [] s = "ampm" -> SmallIn(x, 0, 1)
     [] s = "hour12" -> SmallIn(x, 1, 12)
     [] s = "hour" -> SmallIn(x, 0, 23)
     [] s = "minute" -> SmallIn(x, 0, 59)
     [] s = "second" -> SmallIn(x, 0, 60)
     [] s = "nanosecond" -> SmallIn(x, 0, 999999999)
     [] s = "timestamp" -> FitsI64(x)
Target(s) == IF s = "ampm" THEN "hour_div_12" ELSE IF s = "hour12" THEN "hour_mod_12" ELSE s
ToI32(x) == IF x = I32Min THEN -2147483647 - 1 ELSE ToInt(x)          \* BigInt!ToInt builds the magnitude first
Stored(s, x) == IF s = "timestamp" THEN x ELSE IF s = "hour12" THEN ToInt(x) % 12 ELSE ToI32(x)
Put(f, name, v) == (name :> v) @@ f
Conflict(f, name, v) == Given(f, name) /\ f[name] # v
\* Outcome of one setter call on field map f: is the result `res` admitted, and the field map afterwards.
\*  * out of range                      -> Err(OutOfRange)   (if the field is already set the value also differs from it: either kind)
\*  * in range, field unset or equal    -> Ok, stored        (setting twice is accepted exactly when the values are equal)
\*  * in range, set to another value    -> Err(Impossible), nothing changes
\* set_hour touches two fields one after the other: when the first is accepted and the second conflicts the call fails with
\* Impossible and the documentation does not say whether the first keeps its new value: `hd` (the value of hour_div_12 read
\* back after the call, -1 = unset) decides, and must be one of the two possibilities.
\* The documentation of set_hour only says it MAY reject values outside 0..23, so Ok is admitted there too (state unknown).
SetExplains(f, s, x, res, hd) ==
   IF s = "hour" THEN
      IF ~InRange(s, x) THEN IsOk(res) \/ res = Err("OutOfRange")
                             \/ ((Given(f, "hour_div_12") \/ Given(f, "hour_mod_12")) /\ res = Err("Impossible"))
      ELSE LET dv == ToInt(x) \div 12  md == ToInt(x) % 12 IN
           IF Conflict(f, "hour_div_12", dv) THEN res = Err("Impossible")
           ELSE IF Conflict(f, "hour_mod_12", md) THEN res = Err("Impossible") /\ hd \in {dv, IF Given(f, "hour_div_12") THEN f.hour_div_12 ELSE -1}
           ELSE IsOk(res)
   ELSE IF ~InRange(s, x) THEN res = Err("OutOfRange") \/ (Given(f, Target(s)) /\ res = Err("Impossible"))
   ELSE IF Conflict(f, Target(s), Stored(s, x)) THEN res = Err("Impossible")
   ELSE IsOk(res)
SetNext(f, s, x, res, hd) ==
   IF s = "hour" THEN
      IF ~InRange(s, x) THEN f
      ELSE LET dv == ToInt(x) \div 12  md == ToInt(x) % 12 IN
           IF IsOk(res) THEN Put(Put(f, "hour_div_12", dv), "hour_mod_12", md)
           ELSE IF hd = dv THEN Put(f, "hour_div_12", dv) ELSE f
   ELSE IF IsOk(res) /\ InRange(s, x) THEN Put(f, Target(s), Stored(s, x)) ELSE f
\* after this call the field map is not determined by the documentation (set_hour accepted a value outside 0..23)
SetUnknown(s, x, res) == s = "hour" /\ ~InRange(s, x) /\ IsOk(res)

\* ------------------------------------------------------------------------------------------ fields of a real value
Undef == -999999          \* century / two-digit parts of a negative year: no supplied value (always >= 0) can equal it
FieldOfDate(name, n) ==
  LET y == YearOfDay(n)  iy == IsoYearOf(n) IN
  CASE name = "year" -> y
    [] name = "year_div_100" -> IF y >= 0 THEN y \div 100 ELSE Undef
    [] name = "year_mod_100" -> IF y >= 0 THEN y % 100 ELSE Undef
    [] name = "isoyear" -> iy
    [] name = "isoyear_div_100" -> IF iy >= 0 THEN iy \div 100 ELSE Undef
    [] name = "isoyear_mod_100" -> IF iy >= 0 THEN iy % 100 ELSE Undef
    [] name = "quarter" -> (MonthOfDay(n) - 1) \div 3 + 1
    [] name = "month" -> MonthOfDay(n)
    [] name = "week_from_sun" -> WeeksFrom(n, 6)
    [] name = "week_from_mon" -> WeeksFrom(n, 0)
    [] name = "isoweek" -> IsoWeekOf(n)
    [] name = "weekday" -> WeekdayOf(n)
    [] name = "ordinal" -> OrdinalOf(n)
    [] name = "day" -> DayOfMonth(n)
\* All date fields of day n at once, sharing the intermediate results (TLC does not memoise; the per-field definition above is
\* the specification, this is the same thing arranged for speed - MC_Parsed checks they coincide on whole years).
RECURSIVE MonthDayFrom(_, _, _)
MonthDayFrom(y, o, m) == IF o <= DaysInMonth(y, m) THEN <<m, o>> ELSE MonthDayFrom(y, o - DaysInMonth(y, m), m + 1)
FieldsRec(n) ==
  LET y == YearOfDay(n)
      jan1 == DaysBeforeYear(y) + 1
      o == n - jan1 + 1
      md == MonthDayFrom(y, o, 1)
      w1 == Week1Monday(y)
      w1n == Week1Monday(y + 1)
      iy == IF n >= w1n THEN y + 1 ELSE IF n < w1 THEN y - 1 ELSE y
      w1iy == IF iy = y THEN w1 ELSE IF iy = y + 1 THEN w1n ELSE Week1Monday(y - 1)
      wj == WeekdayOf(jan1)
      fsun == jan1 + ((6 - wj) % 7)
      fmon == jan1 + ((0 - wj) % 7)
  IN [year |-> y, year_div_100 |-> IF y >= 0 THEN y \div 100 ELSE Undef, year_mod_100 |-> IF y >= 0 THEN y % 100 ELSE Undef,
      isoyear |-> iy, isoyear_div_100 |-> IF iy >= 0 THEN iy \div 100 ELSE Undef, isoyear_mod_100 |-> IF iy >= 0 THEN iy % 100 ELSE Undef,
      quarter |-> (md[1] - 1) \div 3 + 1, month |-> md[1],
      week_from_sun |-> IF n < fsun THEN 0 ELSE (n - fsun) \div 7 + 1, week_from_mon |-> IF n < fmon THEN 0 ELSE (n - fmon) \div 7 + 1,
      isoweek |-> (n - w1iy) \div 7 + 1, weekday |-> WeekdayOf(n), ordinal |-> o, day |-> md[2]]
\* all date fields a real date determines
FieldsOfDate(n) == LET fr == FieldsRec(n)  names == { k \in DateFields : fr[k] # Undef } IN [k \in names |-> fr[k]]
\* O1: the date n agrees with every supplied date field
AgreesDate(n, f) == LET fr == FieldsRec(n) IN \A name \in DOMAIN f \cap DateFields : fr[name] = f[name]
SecField(x) == IF x.frac >= NSec THEN 60 ELSE x.secs % 60
AgreesTime(x, f) == /\ (Given(f, "hour_div_12") => f.hour_div_12 = x.secs \div 43200)
                    /\ (Given(f, "hour_mod_12") => f.hour_mod_12 = (x.secs \div 3600) % 12)
                    /\ (Given(f, "minute") => f.minute = (x.secs \div 60) % 60)
                    /\ (Given(f, "second") => f.second = SecField(x))
                    /\ (Given(f, "nanosecond") => f.nanosecond = x.frac % NSec)
\* seconds since 1970-01-01 00:00:00 of a wall-clock second (BigInt: up to 8.3 * 10^12)
EpochDay == 719163
SecsOf(n, secs) == Add(MulSmall(FromInt(n - EpochDay), 86400), FromInt(secs))
\* the timestamp field agrees with wall clock x at offset off; a leap second may be off by one
TsAgrees(x, off, ts) == LET base == Sub(SecsOf(x.n, x.secs), FromInt(off)) IN ts = base \/ (x.frac >= NSec /\ ts = Add(base, One))

\* ------------------------------------------------------------------------------------------ year groups, combinations
Group(f, full, div, mod) ==
   IF Given(f, full) THEN "full" ELSE IF Given(f, div) /\ Given(f, mod) THEN "divmod"
   ELSE IF Given(f, mod) THEN "mod" ELSE IF Given(f, div) THEN "century_only" ELSE "absent"
GregGroup(f) == Group(f, "year", "year_div_100", "year_mod_100")
IsoGroup(f)  == Group(f, "isoyear", "isoyear_div_100", "isoyear_mod_100")
HasYear(f)    == GregGroup(f) \in {"full", "divmod", "mod"}
HasIsoYear(f) == IsoGroup(f) \in {"full", "divmod", "mod"}
\* the documented sufficient combinations
Sufficient(f) == \/ HasYear(f) /\ Given(f, "month") /\ Given(f, "day")
                 \/ HasYear(f) /\ Given(f, "ordinal")
                 \/ HasYear(f) /\ Given(f, "week_from_sun") /\ Given(f, "weekday")
                 \/ HasYear(f) /\ Given(f, "week_from_mon") /\ Given(f, "weekday")
                 \/ HasIsoYear(f) /\ Given(f, "isoweek") /\ Given(f, "weekday")
CenturyOnly(f) == GregGroup(f) = "century_only" \/ IsoGroup(f) = "century_only"
\* each year group is determinate for date n: full, century + two-digit, or two-digit alone with n's year in 1970..2069
Determinate(f, n) == /\ ~CenturyOnly(f)
                     /\ (GregGroup(f) = "mod" => YearOfDay(n) \in 1970..2069)
                     /\ (IsoGroup(f) = "mod" => IsoYearOf(n) \in 1970..2069)
Exact(g) == g \in {"full", "divmod"}
BothExactOrAbsent(f) == GregGroup(f) \in {"full", "divmod", "absent"} /\ IsoGroup(f) \in {"full", "divmod", "absent"}
FarYear == 2000000000                         \* stands for any year beyond the calendar (keeps century * 100 inside 32 bits)
YearVal(f, g, full, div, mod) == IF g = "full" THEN f[full] ELSE IF f[div] > 10000000 THEN FarYear ELSE f[div] * 100 + f[mod]
GregYear(f) == YearVal(f, GregGroup(f), "year", "year_div_100", "year_mod_100")
IsoYear(f)  == YearVal(f, IsoGroup(f), "isoyear", "isoyear_div_100", "isoyear_mod_100")
\* When both year groups are exact (or absent) the set D of dates that agree with every supplied field is computable.
\* By definition (scan of the one determined calendar or ISO year):
DenotedScan(f) ==
   LET cand == IF Exact(GregGroup(f)) THEN LET y == GregYear(f) IN
                     IF y < MinYear \/ y > MaxYear THEN {} ELSE (DaysBeforeYear(y) + 1)..(DaysBeforeYear(y) + DaysInYear(y))
               ELSE LET y == IsoYear(f) IN
                     IF y < MinYear - 1 \/ y > MaxYear + 1 THEN {}
                     ELSE { n \in Week1Monday(y)..(Week1Monday(y + 1) - 1) : InDates(n) }
   IN { n \in cand : AgreesDate(n, f) }
\* ... and without a scan: every member of D agrees with each supplied combination, and a combination with an exact year
\* denotes at most one date (MC_Parsed checks DenotedFast = DenotedScan)
WeekDate(y, w, wd, startDay) ==                \* the day of year y in week w (week 1 begins at the first startDay; before it: week 0) on weekday wd
   IF y < MinYear \/ y > MaxYear THEN NoDate
   ELSE LET n == FirstWeekdayOfYear(y, startDay) + 7 * (w - 1) + ((wd - startDay) % 7) IN
        IF YearOfDay(n) = y /\ InDates(n) THEN n ELSE NoDate
Candidates(f) ==
   LET gy == Exact(GregGroup(f))  y == GregYear(f) IN
      (IF gy /\ Given(f, "month") /\ Given(f, "day") THEN {FromYmd(y, f.month, f.day)} ELSE {})
      \cup (IF gy /\ Given(f, "ordinal") THEN {FromYo(y, f.ordinal)} ELSE {})
      \cup (IF gy /\ Given(f, "week_from_sun") /\ Given(f, "weekday") THEN {WeekDate(y, f.week_from_sun, f.weekday, 6)} ELSE {})
      \cup (IF gy /\ Given(f, "week_from_mon") /\ Given(f, "weekday") THEN {WeekDate(y, f.week_from_mon, f.weekday, 0)} ELSE {})
      \cup (IF Exact(IsoGroup(f)) /\ Given(f, "isoweek") /\ Given(f, "weekday") THEN {FromIsoYwd(IsoYear(f), f.isoweek, f.weekday)} ELSE {})
DenotedFast(f) == LET c == Candidates(f) IN
                  IF NoDate \in c \/ Cardinality(c) # 1 THEN {}             \* two combinations that denote different dates: nothing agrees with both
                  ELSE LET n == CHOOSE x \in c : TRUE IN IF AgreesDate(n, f) THEN {n} ELSE {}

\* ------------------------------------------------------------------------------------------ to_naive_date
\* `v` is the date the fields are claimed to be derived from (NoDate: no claim). The claim is checked, never believed:
Derived(f, v) == v # NoDate /\ InDates(v) /\ AgreesDate(v, f)
\* The obligations, exactly as in DESIGN.md section 7 (C14):
DateExplains(f, v, res) ==
   LET der == Derived(f, v)  suff == Sufficient(f) IN
   /\ (IsOk(res) => InDates(res.ok) /\ AgreesDate(res.ok, f))                                               \* O1, every input
   /\ ((der /\ suff /\ Determinate(f, v)) => res = [ok |-> v])                                              \* O2
   /\ ((der /\ (CenturyOnly(f) \/ ~suff)) => res = Err("NotEnough"))                                        \* O3a
   /\ ((suff /\ BothExactOrAbsent(f)) =>                                                                    \* O3b, exact years
         LET D == DenotedFast(f) IN IF D = {} THEN IsErr(res) /\ res.err \in Contra
                                    ELSE Cardinality(D) = 1 /\ res = [ok |-> CHOOSE n \in D : TRUE])
\* The same obligations as a function, for composition into the date-time resolutions:
\*   [k |-> "ok", d |-> date] must be Ok(date);  [k |-> "err", kinds |-> S] must fail with a kind in S;
\*   [k |-> "free"] only O1;  [k |-> "bad"] the obligations contradict each other (a defect of this specification)
DateExpect(f, v) ==
   LET der == Derived(f, v)  suff == Sufficient(f)
       o2 == der /\ suff /\ Determinate(f, v)
       o3a == der /\ (CenturyOnly(f) \/ ~suff)
       o3b == suff /\ BothExactOrAbsent(f)
       D == DenotedFast(f)
   IN IF o3b THEN (IF D = {} THEN (IF o2 THEN [k |-> "bad"] ELSE [k |-> "err", kinds |-> Contra])
                   ELSE IF Cardinality(D) # 1 \/ (o2 /\ D # {v}) THEN [k |-> "bad"] ELSE [k |-> "ok", d |-> CHOOSE n \in D : TRUE])
      ELSE IF o2 THEN [k |-> "ok", d |-> v]
      ELSE IF o3a THEN [k |-> "err", kinds |-> {"NotEnough"}]
      ELSE [k |-> "free"]

\* ------------------------------------------------------------------------------------------ to_naive_time
\* NotEnough iff the hour half, the hour or the minute is missing or a nanosecond is given without a second; otherwise the exact
\* time (missing second / nanosecond are 0, second 60 is the leap second 59 + 10^9). The setters have range-checked every field.
TimeEnough(f) == {"hour_div_12", "hour_mod_12", "minute"} \subseteq DOMAIN f /\ (Given(f, "nanosecond") => Given(f, "second"))
LeapPart(f) == IF Given(f, "second") /\ f.second = 60 THEN NSec ELSE 0
NanoPart(f) == IF Given(f, "nanosecond") THEN f.nanosecond ELSE 0
TimeOf(f) == [secs |-> f.hour_div_12 * 43200 + f.hour_mod_12 * 3600 + f.minute * 60
                       + (IF Given(f, "second") THEN (IF f.second = 60 THEN 59 ELSE f.second) ELSE 0),
              frac |-> LeapPart(f) + NanoPart(f)]
TimeExplains(f, res) == IF TimeEnough(f) THEN res = [ok |-> TimeOf(f)] ELSE res = Err("NotEnough")

\* ------------------------------------------------------------------------------------------ to_naive_datetime_with_offset(off)
\* w = [n, secs, frac]: the wall clock the fields are claimed to be derived from (w.n = NoDate: no claim)
ValidNdt(x) == InDates(x.n) /\ x.secs \in 0..86399 /\ x.frac \in 0..(2 * NSec - 1)
NdtO1(f, off, x) == /\ ValidNdt(x) /\ AgreesDate(x.n, f) /\ AgreesTime(x, f)
                    /\ (Given(f, "timestamp") => TsAgrees(x, off, f.timestamp))
                    /\ ((TimeEnough(f) /\ ~Given(f, "timestamp")) => [secs |-> x.secs, frac |-> x.frac] = TimeOf(f))
DerivedNdt(f, off, w) == /\ w.n # NoDate /\ ValidNdt(w) /\ AgreesDate(w.n, f) /\ AgreesTime(w, f)
                         /\ (Given(f, "timestamp") => f.timestamp = Sub(SecsOf(w.n, w.secs), FromInt(off)))
\* expectation: "ok" x | "err" kinds | "okerr" kinds (fail with one of the kinds, or succeed with something that satisfies O1) | "free" | "bad"
NdtExpect(f, off, w) ==
   LET de == DateExpect(f, w.n)  tOK == TimeEnough(f) IN
   IF de.k = "bad" THEN [k |-> "bad"]
   ELSE IF ~Given(f, "timestamp") THEN
      \* date fields and time fields decide; a missing part is "not enough", a contradiction may also be reported as such
      IF tOK THEN (IF de.k = "ok" THEN [k |-> "ok", x |-> [n |-> de.d, secs |-> TimeOf(f).secs, frac |-> TimeOf(f).frac]] ELSE de)
      ELSE IF de.k = "ok" THEN [k |-> "err", kinds |-> {"NotEnough"}]
      ELSE IF de.k = "err" THEN [k |-> "err", kinds |-> de.kinds \cup {"NotEnough"}]
      ELSE [k |-> "err", kinds |-> AnyKind]
   ELSE
      \* a timestamp is supplied: it must agree with the result (cross-check), and it is itself a sufficient combination
      IF tOK /\ de.k = "ok" THEN
         LET x == [n |-> de.d, secs |-> TimeOf(f).secs, frac |-> TimeOf(f).frac] IN
         IF TsAgrees(x, off, f.timestamp) THEN [k |-> "ok", x |-> x]
         ELSE IF Given(f, "second") THEN [k |-> "err", kinds |-> Contra]
         ELSE [k |-> "okerr", kinds |-> Contra]        \* only the assumed second 0 contradicts the timestamp: the statement is silent
      ELSE IF de.k = "err" /\ de.kinds = Contra THEN [k |-> "err", kinds |-> IF tOK THEN Contra ELSE AnyKind]
      \* all fields derived from w and every year group determinate: the timestamp (with whatever else is there) resolves to w, with
      \* the sub-second part that the fields carry. (tOK and a sufficient date combination: the case above.)
      ELSE IF DerivedNdt(f, off, w) /\ Determinate(f, w.n) /\ ~(tOK /\ Sufficient(f))
         THEN [k |-> "ok", x |-> [n |-> w.n, secs |-> w.secs, frac |-> LeapPart(f) + NanoPart(f)]]
      ELSE [k |-> "free"]
Meets(exp, res) == CASE exp.k = "ok" -> res = [ok |-> exp.x]
                     [] exp.k = "err" -> IsErr(res) /\ res.err \in exp.kinds
                     [] exp.k = "okerr" -> IsOk(res) \/ res.err \in exp.kinds
                     [] exp.k = "free" -> TRUE
                     [] OTHER -> FALSE
NdtExplains(f, off, w, res) == (IsOk(res) => NdtO1(f, off, res.ok)) /\ Meets(NdtExpect(f, off, w), res)

\* ------------------------------------------------------------------------------------------ to_datetime / to_datetime_with_timezone
\* x at offset off denotes the instant x - off, which must itself be representable
OffsetOK(off) == off >= -86399 /\ off <= 86399
UtcInRange(x, off) == LET dd == x.n + ((x.secs - off) \div 86400) IN dd >= MinDay /\ dd <= MaxDay
Local(z) == [n |-> z.n, secs |-> z.secs, frac |-> z.frac]
\* the offset comes from the offset field; a timestamp without an offset field is read as UTC; neither: not enough
DtExplains(f, w, res) ==
   IF ~Given(f, "offset") /\ ~Given(f, "timestamp") THEN IsErr(res) /\ (res.err = "NotEnough" \/ NdtExplains(f, 0, w, res))
   ELSE LET off == IF Given(f, "offset") THEN f.offset ELSE 0 IN
        IF ~OffsetOK(off) THEN IsErr(res) /\ (res.err \in Contra \/ NdtExplains(f, off, w, res))
        ELSE LET exp == NdtExpect(f, off, w) IN
             IF IsOk(res) THEN res.ok.off = off /\ NdtExplains(f, off, w, [ok |-> Local(res.ok)]) /\ UtcInRange(res.ok, off)
             ELSE NdtExplains(f, off, w, res)
                  \/ (res.err \in Contra /\ (exp.k \in {"free", "okerr"} \/ (exp.k = "ok" /\ ~UtcInRange(exp.x, off))))
\* with a time zone of fixed offset o: the offset field, if supplied, must equal o; a supplied timestamp must be a representable instant
TsRepresentable(ts) == Leq(SecsOf(MinDay, 0), ts) /\ Leq(ts, SecsOf(MaxDay, 86399))
DtzExplains(f, o, w, res) ==
   LET off == IF Given(f, "timestamp") THEN o ELSE 0                        \* irrelevant without a timestamp
       exp == NdtExpect(f, off, w) IN
   IF IsOk(res) THEN /\ res.ok.off = o /\ (Given(f, "offset") => f.offset = o)
                     /\ NdtExplains(f, off, w, [ok |-> Local(res.ok)]) /\ UtcInRange(res.ok, o)
   ELSE NdtExplains(f, off, w, res)
        \/ (res.err \in Contra /\ (\/ exp.k \in {"free", "okerr"}
                                   \/ (Given(f, "offset") /\ f.offset # o)
                                   \/ (Given(f, "timestamp") /\ ~TsRepresentable(f.timestamp))
                                   \/ (exp.k = "ok" /\ ~UtcInRange(exp.x, o))))
=============================================================================
