-------------------------------- MODULE Show --------------------------------
(***************************************************************************)
(* Default text forms (property C09): what Display and Debug print for a   *)
(* date, a time of day, a naive date-time, a date-time in UTC or at a      *)
(* fixed offset, an offset, a weekday and a month - and, independently,    *)
(* the grammar each FromStr is documented to read (`%Y-%m-%d`,             *)
(* `%H:%M:%S%.f` with optional seconds, `%Y-%m-%dT%H:%M:%S%.f`, the        *)
(* relaxed RFC 3339 form, `%z`, short or long English names).              *)
(* MC_Show shows ParseX(ShowX(v)) = v inside the specification; the trace  *)
(* specification compares the real texts and the real parse results.      *)
(*                                                                         *)
(* Values: date = day number; time = [secs, frac] (frac >= 10^9: leap      *)
(* second); naive date-time = [n, secs, frac]; zone-aware date-time =      *)
(* the UTC naive date-time `u` plus the offset `off` in seconds.           *)
(***************************************************************************)
EXTENDS TextForms

(* ------------------------------ writers -------------------------------- *)
DateShow(n) == DateText(n)                                   \* Display = Debug = YYYY-MM-DD, signed outside 0..9999
TimeShow(t) == TimeText(t)                                   \* HH:MM:SS[.fff[fff[fff]]], :60 for a leap second
NdtDisplay(v) == DateText(v.n) \o <<32>> \o TimeText(v)
NdtDebug(v)   == DateText(v.n) \o <<84>> \o TimeText(v)
\* wall clock of the instant `u` at `off` seconds east; the nanosecond field (a leap second included) is kept.
\* The wall-clock date may leave MinDay..MaxDay by one day (the headroom of a zone-aware value).
Wall(u, off) == LET t == u.secs + off IN [n |-> u.n + (t \div 86400), secs |-> t % 86400, frac |-> u.frac]
UtcDisplay(u) == NdtDisplay(u) \o <<32, 85, 84, 67>>         \* "... UTC"
UtcDebug(u)   == NdtDebug(u) \o <<90>>                       \* "...Z"
FixedDisplay(u, off) == NdtDisplay(Wall(u, off)) \o <<32>> \o OffsetDisplay(off)
FixedDebug(u, off)   == NdtDebug(Wall(u, off)) \o OffsetDisplay(off)
OffsetShow(off) == OffsetDisplay(off)                        \* +HH:MM, :SS only when not zero
WeekdayShow(w) == ShortDays[w + 1]                           \* w: 0 = Monday
MonthShow(m) == LongMonth(m)                                 \* Debug / name(): the full English name

(* ------------------------------ readers -------------------------------- *)
(* The parser documented in chrono::format::parse: numeric items skip      *)
(* leading white space and take at most their intrinsic width of digits   *)
(* (padding-agnostic), a year without sign takes at most four digits and   *)
(* with a sign any number, a Space item takes any white space, a literal   *)
(* must match, the fraction item reads "." and at least one digit.         *)
Fail == [ok |-> FALSE]
Min2(a, b) == IF a < b THEN a ELSE b
RECURSIVE SkipWhite(_, _)
SkipWhite(s, i) == IF IsWhite(At(s, i)) THEN SkipWhite(s, i + 1) ELSE i
RECURSIVE SkipZeros(_, _, _)                                  \* leading zeros, keeping the last digit before e
SkipZeros(s, i, e) == IF i < e - 1 /\ s[i] = 48 THEN SkipZeros(s, i + 1, e) ELSE i
\* at least one and at most w digits starting at i
ScanNat(s, i, w) == LET e == Min2(DigitsEnd(s, i), i + w)  z == SkipZeros(s, i, e) IN
   IF e <= i \/ e - z > 9 THEN Fail ELSE [ok |-> TRUE, v |-> NumAt(s, z, e - z), next |-> e]
Unbounded == 1000000
Sp == [k |-> "Sp"]
Lit(c) == [k |-> "Lit", c |-> c]
Num(f, w) == [k |-> "Num", f |-> f, w |-> w]
Year == [k |-> "Year"]
FracItem == [k |-> "Frac"]
NoFields == [year |-> 0, month |-> 0, day |-> 0, hour |-> 0, minute |-> 0, second |-> 0, nano |-> 0]
RECURSIVE Run(_, _, _, _, _)
Run(s, i, items, k, acc) ==
  IF k > Len(items) THEN [ok |-> TRUE, next |-> i, f |-> acc]
  ELSE LET it == items[k] IN
    CASE it.k = "Sp"   -> Run(s, SkipWhite(s, i), items, k + 1, acc)
      [] it.k = "Lit"  -> IF At(s, i) = it.c THEN Run(s, i + 1, items, k + 1, acc) ELSE Fail
      [] it.k = "Num"  -> LET r == ScanNat(s, SkipWhite(s, i), it.w) IN
                          IF r.ok THEN Run(s, r.next, items, k + 1, [acc EXCEPT ![it.f] = r.v]) ELSE Fail
      [] it.k = "Year" -> LET j == SkipWhite(s, i)   c == At(s, j)
                              r == IF c \in {43, 45} THEN ScanNat(s, j + 1, Unbounded) ELSE ScanNat(s, j, 4) IN
                          IF r.ok THEN Run(s, r.next, items, k + 1, [acc EXCEPT !.year = IF c = 45 THEN -r.v ELSE r.v]) ELSE Fail
      [] it.k = "Frac" -> IF At(s, i) # 46 THEN Run(s, i, items, k + 1, acc)
                          ELSE LET e == DigitsEnd(s, i + 1)   nd == Min2(e - (i + 1), 9) IN       \* digits beyond the ninth are skipped
                               IF nd < 1 THEN Fail
                               ELSE Run(s, e, items, k + 1, [acc EXCEPT !.nano = NumAt(s, i + 1, nd) * Pow10(9 - nd)])
AtEnd(s, r) == r.ok /\ r.next = Len(s) + 1
\* field resolution
NoTime == [none |-> 1]
NoValue == [none |-> 1]
TimeOf(f) == IF f.hour > 23 \/ f.minute > 59 \/ f.second > 60 THEN NoTime
             ELSE [secs |-> f.hour * 3600 + f.minute * 60 + Min2(f.second, 59), frac |-> f.nano + (IF f.second = 60 THEN NSu ELSE 0)]
DateOf(f) == FromYmd(f.year, f.month, f.day)
\* wall-clock date of a zone-aware value: may lie in the one-day headroom, so only the calendar decides
WideDateOf(f) == IF f.year >= MinYear - 1 /\ f.year <= MaxYear + 1 /\ f.month >= 1 /\ f.month <= 12 /\ f.day >= 1 /\ f.day <= DaysInMonth(f.year, f.month)
                 THEN DayNumber(f.year, f.month, f.day) ELSE NoDate
DateItems == <<Year, Sp, Lit(45), Num("month", 2), Sp, Lit(45), Num("day", 2)>>
HmItems   == <<Num("hour", 2), Sp, Lit(58), Num("minute", 2)>>
SecItems  == <<Sp, Lit(58), Num("second", 2), FracItem, Sp>>
\* NaiveDate: %Y-%m-%d
ParseDate(s) == LET r == Run(s, 1, DateItems \o <<Sp>>, 1, NoFields) IN IF AtEnd(s, r) THEN DateOf(r.f) ELSE NoDate
\* NaiveTime: %H:%M[:%S%.f]
ParseTime(s) == LET a == Run(s, 1, HmItems, 1, NoFields) IN
   IF ~a.ok THEN NoTime
   ELSE LET b == Run(s, a.next, SecItems, 1, a.f)
            c == IF b.ok THEN b ELSE a                        \* the seconds are optional
            e == SkipWhite(s, c.next) IN
        IF e = Len(s) + 1 THEN TimeOf(c.f) ELSE NoTime
\* NaiveDateTime: %Y-%m-%dT%H:%M:%S%.f
ParseNdt(s) == LET r == Run(s, 1, DateItems \o <<Sp, Lit(84)>> \o HmItems \o SecItems, 1, NoFields) IN
   IF ~AtEnd(s, r) THEN NoValue
   ELSE LET n == DateOf(r.f)  t == TimeOf(r.f) IN IF n = NoDate \/ t = NoTime THEN NoValue ELSE [n |-> n, secs |-> t.secs, frac |-> t.frac]
\* %z: sign (+, - or U+2212), two digits, any colons / white space, two digits 00..59; Z or z where allowed
RECURSIVE SkipColonWhite(_, _)
SkipColonWhite(s, i) == IF At(s, i) = 58 \/ IsWhite(At(s, i)) THEN SkipColonWhite(s, i + 1) ELSE i
ScanOffset(s, i, zulu) ==
   IF zulu /\ At(s, i) \in {90, 122} THEN [ok |-> TRUE, v |-> 0, next |-> i + 1]
   ELSE IF At(s, i) \notin {43, 45, 8722} \/ ~AllDigits(s, i + 1, 2) THEN Fail
   ELSE LET j == SkipColonWhite(s, i + 3) IN
        IF ~AllDigits(s, j, 2) \/ s[j] > 53 THEN Fail
        ELSE [ok |-> TRUE, next |-> j + 2, v |-> (IF s[i] = 43 THEN 1 ELSE -1) * (NumAt(s, i + 1, 2) * 3600 + NumAt(s, j, 2) * 60)]
NoOffset == 1000000
ParseOffset(s) == LET r == ScanOffset(s, 1, FALSE) IN IF AtEnd(s, r) /\ r.v > -86400 /\ r.v < 86400 THEN r.v ELSE NoOffset
\* DateTime<FixedOffset>: the relaxed RFC 3339 form - one of T, t, space between date and time; Z, z, UTC (any case) or a numeric offset,
\* white space allowed before it and at the end
ParseFixed(s) ==
   LET a == Run(s, 1, DateItems, 1, NoFields) IN
   IF ~a.ok \/ At(s, a.next) \notin {84, 116, 32} THEN NoValue
   ELSE LET b == Run(s, a.next + 1, HmItems \o SecItems, 1, a.f) IN
   IF ~b.ok THEN NoValue
   ELSE LET j == SkipWhite(s, b.next)
            z == IF Upper(At(s, j)) = 85 /\ Upper(At(s, j + 1)) = 84 /\ Upper(At(s, j + 2)) = 67 THEN [ok |-> TRUE, v |-> 0, next |-> j + 3]
                 ELSE ScanOffset(s, j, TRUE) IN
   IF ~z.ok THEN NoValue
   ELSE IF SkipWhite(s, z.next) # Len(s) + 1 \/ z.v <= -86400 \/ z.v >= 86400 THEN NoValue
   ELSE LET n == WideDateOf(b.f)  t == TimeOf(b.f) IN
   IF n = NoDate \/ t = NoTime THEN NoValue
   ELSE LET u == Wall([n |-> n, secs |-> t.secs, frac |-> t.frac], -z.v) IN
        IF InDates(u.n) THEN [u |-> u, off |-> z.v] ELSE NoValue
\* DateTime<Utc>: the same text, converted to UTC
ParseUtc(s) == LET r == ParseFixed(s) IN IF r = NoValue THEN NoValue ELSE r.u
\* Weekday / Month: the three-letter or the full English name in any case, nothing else
NoName == -1
ParseWeekday(s) == IF \E w \in 0..6 : EqIgnoreAsciiCase(s, ShortDays[w + 1]) \/ EqIgnoreAsciiCase(s, LongDay(w))
                   THEN CHOOSE w \in 0..6 : EqIgnoreAsciiCase(s, ShortDays[w + 1]) \/ EqIgnoreAsciiCase(s, LongDay(w)) ELSE NoName
ParseMonth(s) == IF \E m \in 1..12 : EqIgnoreAsciiCase(s, ShortMonths[m]) \/ EqIgnoreAsciiCase(s, LongMonth(m))
                 THEN CHOOSE m \in 1..12 : EqIgnoreAsciiCase(s, ShortMonths[m]) \/ EqIgnoreAsciiCase(s, LongMonth(m)) ELSE NoName
=============================================================================
