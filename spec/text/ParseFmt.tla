------------------------------- MODULE ParseFmt -------------------------------
(***************************************************************************)
(* Parsing with a format string inverts formatting with it (property C13). *)
(*                                                                         *)
(* Nothing here describes how the reader scans text.  The module says      *)
(*  - which format strings determine the value unambiguously (Unambiguous: *)
(*    the fields suffice for the target type and every variable-width item *)
(*    is followed by something that cannot continue it),                   *)
(*  - which values a format can express (Expressible: e.g. an unseparated  *)
(*    %Y only the years 0..9999, %y alone only 1970..2069, %C%y only       *)
(*    0..9999, %s no leap second),                                         *)
(*  - the precision it keeps (Project: seconds / fraction digits / offset  *)
(*    minutes),                                                            *)
(* and the obligation: parse(format(v, f), f) = Project(f, v), also for     *)
(* the formatted text with its names / am-pm in any letter case and with   *)
(* surplus white space where the format has white space (Perturbed).       *)
(* UnambiguousFamily is the generated family of format strings in which    *)
(* every specifier the reader can invert occurs.                           *)
(*                                                                         *)
(* itemsW are the items of the format the text was written with, itemsR    *)
(* those it is read with: the same, except that an offset item may be read *)
(* by the parse-only %#z.  ty / pty: the formatted and the parsed type     *)
(* ("date", "time", "ndt", "dt").                                          *)
(***************************************************************************)
EXTENDS Strftime, StrLit, FiniteSets
\* ---------------------------------------------------------------------------------------------------------------
\* the fields an item determines
NumFields(name) ==
   CASE name = "Year" -> {"year"} [] name = "YearDiv100" -> {"year_div_100"} [] name = "YearMod100" -> {"year_mod_100"}
     [] name = "IsoYear" -> {"isoyear"} [] name = "IsoYearDiv100" -> {"isoyear_div_100"} [] name = "IsoYearMod100" -> {"isoyear_mod_100"}
     [] name = "Quarter" -> {"quarter"} [] name = "Month" -> {"month"} [] name = "Day" -> {"day"}
     [] name = "WeekFromSun" -> {"week_from_sun"} [] name = "WeekFromMon" -> {"week_from_mon"} [] name = "IsoWeek" -> {"isoweek"}
     [] name \in {"NumDaysFromSun", "WeekdayFromMon"} -> {"weekday"} [] name = "Ordinal" -> {"ordinal"}
     [] name = "Hour" -> {"hour_div_12", "hour_mod_12"} [] name = "Hour12" -> {"hour_mod_12"}
     [] name = "Minute" -> {"minute"} [] name = "Second" -> {"second"} [] name = "Nanosecond" -> {"nanosecond"}
     [] name = "Timestamp" -> {"timestamp"}
     [] OTHER -> {}
FracFixes == {"Nanosecond", "Nanosecond3", "Nanosecond6", "Nanosecond9", "Nanosecond3NoDot", "Nanosecond6NoDot", "Nanosecond9NoDot"}
FixFields(f) ==
   CASE f \in {"ShortMonthName", "LongMonthName"} -> {"month"}
     [] f \in {"ShortWeekdayName", "LongWeekdayName"} -> {"weekday"}
     [] f \in {"LowerAmPm", "UpperAmPm"} -> {"hour_div_12"}
     [] f \in FracFixes -> {"nanosecond"}
     [] f \in {"TimezoneOffset", "TimezoneOffsetColon", "TimezoneOffsetPermissive"} -> {"offset"}
     [] f = "RFC3339" -> {"year", "month", "day", "hour_div_12", "hour_mod_12", "minute", "second", "nanosecond", "offset"}
     [] OTHER -> {}
ItemFields(it) == IF it.k = "Num" THEN NumFields(it.n) ELSE IF it.k = "Fix" THEN FixFields(it.f) ELSE {}
Fields(items) == UNION { ItemFields(items[i]) : i \in 1..Len(items) }
\* items the reader can invert (%::z and %:::z are print-only; %Z prints the offset but, when read, only skips a word:
\* "offset will not be populated from the parsed data" - it contributes no field)
ReadableFixes == {"ShortMonthName", "LongMonthName", "ShortWeekdayName", "LongWeekdayName", "LowerAmPm", "UpperAmPm", "TimezoneOffset", "TimezoneOffsetColon", "RFC3339",
                  "TimezoneName"} \cup FracFixes
Readable(it) == it.k \in {"Lit", "Space", "Num"} \/ (it.k = "Fix" /\ it.f \in ReadableFixes)
\* the parse-only %#z reads what %z, %:z or %:::z wrote
PermissiveReads == {Fix("TimezoneOffset"), Fix("TimezoneOffsetColon"), Fix("TimezoneOffsetTripleColon")}
PairOK(w, r) == /\ Len(w) = Len(r)
                /\ \A i \in 1..Len(w) : \/ w[i] = r[i] /\ Readable(w[i])
                                        \/ r[i] = Fix("TimezoneOffsetPermissive") /\ w[i] \in PermissiveReads
\* ---------------------------------------------------------------------------------------------------------------
\* separation: what the text of an item may start with, and what must not follow an item
CharClass(c) == IF IsDigit(c) THEN "digit" ELSE IF IsWhite(c) THEN "space" ELSE IF c \in {43, 45} THEN "sign" ELSE IF c = 46 THEN "dot"
                ELSE IF IsAsciiAlpha(c) THEN "letter" ELSE IF c = 58 THEN "colon" ELSE "other"
OneDigitNums == {"Quarter", "NumDaysFromSun", "WeekdayFromMon"}          \* always exactly one digit, whatever the modifier
SignedNums == {"Year", "IsoYear", "Timestamp"}
StartSet(it) ==
   CASE it.k = "Lit" -> {CharClass(it.s[1])}
     [] it.k = "Space" -> {"space"}
     [] it.k = "Num" -> {"digit"} \cup (IF it.n \in SignedNums THEN {"sign"} ELSE {}) \cup (IF it.p = "Space" /\ it.n \notin OneDigitNums THEN {"space"} ELSE {})
     [] it.k = "Fix" -> (CASE it.f = "Nanosecond" -> {"dot", "empty"}                      \* %.f prints nothing for a whole second
                           [] it.f \in {"Nanosecond3", "Nanosecond6", "Nanosecond9"} -> {"dot"}
                           [] it.f \in {"Nanosecond3NoDot", "Nanosecond6NoDot", "Nanosecond9NoDot"} -> {"digit"}
                           [] it.f \in {"TimezoneOffset", "TimezoneOffsetColon", "TimezoneOffsetDoubleColon", "TimezoneOffsetTripleColon", "TimezoneName"} -> {"sign"}
                           [] it.f = "RFC3339" -> {"digit", "sign"}
                           [] OTHER -> {"letter"})
     [] OTHER -> {"other"}
RECURSIVE Follow(_, _)
Follow(items, i) == IF i > Len(items) THEN {"end"}
                    ELSE LET s == StartSet(items[i]) IN (s \ {"empty"}) \cup (IF "empty" \in s THEN Follow(items, i + 1) ELSE {})
\* a number printed narrower than the widest the reader accepts must not be followed by a digit; a fraction by digits;
\* a full name by letters; %.f (which may be empty) neither by a digit nor a dot; %#z reads to the end, %Z to the next white space
Everything == {"digit", "space", "sign", "dot", "letter", "colon", "other"}
Avoid(it) ==
   CASE it.k = "Num" -> (IF it.n \in OneDigitNums THEN {}
                         ELSE IF it.n = "Timestamp" THEN {"digit"}
                         ELSE IF it.p = "Zero" THEN {}                       \* full width (for %Y / %G / %C: see YearFits)
                         ELSE {"digit"})
     [] it.k = "Fix" -> (CASE it.f = "Nanosecond" -> {"digit", "dot"}
                           [] it.f \in {"Nanosecond3", "Nanosecond6", "Nanosecond9"} -> {"digit"}
                           [] it.f \in {"LongMonthName", "LongWeekdayName"} -> {"letter"}
                           [] it.f = "TimezoneOffsetPermissive" -> Everything
                           [] it.f = "TimezoneName" -> Everything \ {"space"}          \* skips all non-whitespace characters
                           [] OTHER -> {})
     [] OTHER -> {}
Separated(w, r) == \A i \in 1..Len(w) : Avoid(r[i]) \cap Follow(w, i + 1) = {}
\* ---------------------------------------------------------------------------------------------------------------
\* the fields suffice for the target type
YearGiven(F)    == "year" \in F \/ "year_mod_100" \in F            \* full year, century + two digits, or two digits alone
IsoYearGiven(F) == "isoyear" \in F \/ "isoyear_mod_100" \in F
DateSufficient(F) ==
   /\ ("year_div_100" \in F => YearGiven(F)) /\ ("isoyear_div_100" \in F => IsoYearGiven(F))      \* a century alone determines nothing
   /\ \/ YearGiven(F) /\ {"month", "day"} \subseteq F
      \/ YearGiven(F) /\ "ordinal" \in F
      \/ YearGiven(F) /\ {"week_from_sun", "weekday"} \subseteq F
      \/ YearGiven(F) /\ {"week_from_mon", "weekday"} \subseteq F
      \/ IsoYearGiven(F) /\ {"isoweek", "weekday"} \subseteq F
TimeSufficient(F) == {"hour_div_12", "hour_mod_12", "minute"} \subseteq F /\ ("nanosecond" \in F => "second" \in F)
IsFrac(it) == (it.k = "Num" /\ it.n = "Nanosecond") \/ (it.k = "Fix" /\ it.f \in FracFixes)
OffsetItems(w) == { i \in 1..Len(w) : w[i].k = "Fix" /\ w[i].f \in {"TimezoneOffset", "TimezoneOffsetColon", "TimezoneOffsetTripleColon", "RFC3339"} }
OffsetPrec(it) == IF it.f = "TimezoneOffsetTripleColon" THEN "H" ELSE "M"
\* a timestamp printed NEXT TO a complete civil date, time and offset is redundant: the civil fields decide, the timestamp is cross-checked
Redundant(F, pty) == "timestamp" \in F /\ pty = "dt" /\ DateSufficient(F) /\ TimeSufficient(F) /\ "offset" \in F
Unambiguous(w, r, pty) ==
   LET F == Fields(r) IN
   /\ PairOK(w, r) /\ Separated(w, r)
   /\ Cardinality({ i \in 1..Len(w) : IsFrac(w[i]) }) <= 1 /\ ~(\E i, j \in 1..Len(w) : IsFrac(w[i]) /\ w[j] = Fix("RFC3339"))
   /\ Cardinality({ OffsetPrec(w[i]) : i \in OffsetItems(w) }) <= 1
   /\ IF "timestamp" \in F /\ ~Redundant(F, pty)
      THEN /\ pty \in {"ndt", "dt"} /\ F \subseteq {"timestamp", "nanosecond", "offset"}   \* %s [fraction] [offset]
           /\ (pty = "ndt" => "offset" \notin F)                                             \* a naive date-time has no offset to apply
      ELSE /\ (pty \in {"date", "ndt", "dt"} => DateSufficient(F))
           /\ (pty \in {"time", "ndt", "dt"} => TimeSufficient(F))
           /\ (pty = "dt" => "offset" \in F)
\* ---------------------------------------------------------------------------------------------------------------
\* the precision a format keeps
FracDigits(w) == IF \E i \in 1..Len(w) : IsFrac(w[i]) \/ w[i] = Fix("RFC3339")
                 THEN LET it == w[CHOOSE i \in 1..Len(w) : IsFrac(w[i]) \/ w[i] = Fix("RFC3339")] IN
                      IF it.k = "Fix" /\ it.f \in {"Nanosecond3", "Nanosecond3NoDot"} THEN 3
                      ELSE IF it.k = "Fix" /\ it.f \in {"Nanosecond6", "Nanosecond6NoDot"} THEN 6 ELSE 9      \* %f, %.f, %.9f, %9f, %+ lose nothing
                 ELSE 0
TruncFrac(f, digits) == f - (f % Pow10(9 - digits))
Abs1(x) == IF x < 0 THEN -x ELSE x
Sgn1(x) == IF x < 0 THEN -1 ELSE 1
\* the offset as the format prints it: minutes rounded to nearest (%z, %:z, %+) or whole hours, truncated (%:::z)
ProjOff(w, off) == IF OffsetItems(w) = {} THEN 0
                   ELSE IF OffsetPrec(w[CHOOSE i \in OffsetItems(w) : TRUE]) = "H" THEN Sgn1(off) * (Abs1(off) \div 3600) * 3600
                   ELSE Sgn1(off) * ((Abs1(off) + 30) \div 60) * 60
\* time of day: without %S the seconds (and a leap second) are not printed; the fraction is truncated to the printed digits
ProjTime(w, F, v) == IF "second" \in F
                     THEN [secs |-> v.secs, frac |-> (v.frac \div NSu) * NSu + TruncFrac(Frac(v), FracDigits(w))]
                     ELSE [secs |-> v.secs - (v.secs % 60), frac |-> 0]
\* v is the wall-clock value that was formatted; the result has the fields of the parsed type
Project(w, r, v, pty) ==
   LET F == Fields(r)  off2 == ProjOff(w, v.off) IN
   IF "timestamp" \in F /\ ~Redundant(F, pty)
   THEN \* the instant, to the printed fraction; shown at the printed offset (at UTC if no offset is printed:
        \* "a timestamp where the target type needs one" stands in for the offset)
        LET t == v.secs - v.off + off2
            n2 == v.n + (t \div 86400)  fr2 == TruncFrac(Frac(v), FracDigits(w)) IN
        IF pty = "dt" THEN [n |-> n2, secs |-> t % 86400, frac |-> fr2, off |-> off2] ELSE [n |-> n2, secs |-> t % 86400, frac |-> fr2]
   ELSE LET tm == ProjTime(w, F, v) IN
        CASE pty = "date" -> [n |-> v.n]
          [] pty = "time" -> tm
          [] pty = "ndt"  -> [n |-> v.n, secs |-> tm.secs, frac |-> tm.frac]
          [] pty = "dt"   -> [n |-> v.n, secs |-> tm.secs, frac |-> tm.frac, off |-> off2]
\* ---------------------------------------------------------------------------------------------------------------
\* the values a format can express
\* a zero-padded %Y / %G directly followed by a digit (or %C) has room for four (two) digits and no sign
YearFits(w, v) == \A i \in 1..Len(w) : w[i].k = "Num" =>
   /\ (w[i].n = "Year" /\ "digit" \in Follow(w, i + 1) => YearOfDay(v.n) \in 0..9999)
   /\ (w[i].n = "IsoYear" /\ "digit" \in Follow(w, i + 1) => IsoYearOf(v.n) \in 0..9999)
   /\ (w[i].n = "YearDiv100" => YearOfDay(v.n) \in 0..9999)              \* two digits, non-negative
   /\ (w[i].n = "IsoYearDiv100" => IsoYearOf(v.n) \in 0..9999)
   /\ (w[i].n = "YearMod100" => YearOfDay(v.n) >= 0)                     \* %y / %g of a negative year: not specified
   /\ (w[i].n = "IsoYearMod100" => IsoYearOf(v.n) >= 0)
\* a two-digit year alone is read as 1970..2069
PivotFits(F, v) == /\ ("year_mod_100" \in F /\ "year" \notin F /\ "year_div_100" \notin F => YearOfDay(v.n) \in 1970..2069)
                   /\ ("isoyear_mod_100" \in F /\ "isoyear" \notin F /\ "isoyear_div_100" \notin F => IsoYearOf(v.n) \in 1970..2069)
Expressible(w, r, v, pty) ==
   LET F == Fields(r)  off2 == ProjOff(w, v.off) IN
   /\ (v.hd => YearFits(w, v))
   /\ (v.ht /\ v.frac >= NSu => v.secs % 60 = 59)                         \* a leap second is second 60 of a minute: the flag on any other second
                                                                          \* prints as the FOLLOWING second (s + 1), which no format can tell from it
   /\ (Redundant(F, pty) => off2 = v.off)                                 \* the printed offset must be the exact one, or timestamp and civil fields disagree
   /\ IF "timestamp" \in F /\ ~Redundant(F, pty)
      THEN /\ v.frac < NSu                                               \* %s cannot carry a leap second
           /\ Abs1(off2) < 86400
           /\ InDates(v.n + ((v.secs - v.off + off2) \div 86400)) /\ InDates(v.n + ((v.secs - v.off) \div 86400))
      ELSE /\ (pty \in {"date", "ndt", "dt"} => InDates(v.n) /\ PivotFits(F, v))
           /\ (pty = "dt" => Abs1(off2) < 86400 /\ InDates(v.n + ((v.secs - off2) \div 86400)))      \* the instant stays in range
\* ---------------------------------------------------------------------------------------------------------------
\* the formatted text split into the pieces of its items (the text is known to be an admissible rendering)
RECURSIVE SplitFrom(_, _, _, _, _)
SplitFrom(items, v, i, text, p) ==
   IF i > Len(items) THEN <<>>
   ELSE LET good == { a \in RenderItem(items[i], v).alts : StartsWithAt(text, p, a) /\ MatchFrom(items, v, i + 1, text, p + Len(a)) }
            a == CHOOSE a \in good : TRUE
        IN <<a>> \o SplitFrom(items, v, i + 1, text, p + Len(a))
\* perturbations the property covers: names and am/pm in any letter case, surplus white space where the format has white space
CaseItem(it) == it.k = "Fix" /\ it.f \in {"ShortMonthName", "LongMonthName", "ShortWeekdayName", "LongWeekdayName", "LowerAmPm", "UpperAmPm"}
AltCase(s) == [j \in 1..Len(s) |-> IF j % 2 = 1 THEN Lower(s[j]) ELSE Upper(s[j])]
CaseMap(s, mode) == CASE mode = "upper" -> UpperStr(s) [] mode = "lower" -> LowerStr(s) [] mode = "alt" -> AltCase(s) [] OTHER -> s
AllWhite(s) == \A j \in 1..Len(s) : IsWhite(s[j])
RECURSIVE PerturbFrom(_, _, _, _, _)
PerturbFrom(items, pieces, i, mode, ws) ==
   IF i > Len(items) THEN <<>>
   ELSE (IF items[i].k = "Space" THEN pieces[i] \o ws ELSE IF CaseItem(items[i]) THEN CaseMap(pieces[i], mode) ELSE pieces[i])
        \o PerturbFrom(items, pieces, i + 1, mode, ws)
Perturbed(items, v, text, mode, ws) == PerturbFrom(items, SplitFrom(items, v, 1, text, 1), 1, mode, ws)
\* ---------------------------------------------------------------------------------------------------------------
\* the generated family: blocks (as format strings with placeholders: '~' date separator, '^' time separator,
\* ' ' white space) x padding modifier on every numeric specifier x separators; Unambiguous is the filter
NumericLetters == {89, 67, 121, 113, 109, 100, 101, 119, 117, 85, 87, 71, 103, 86, 106, 72, 107, 73, 108, 77, 83, 102, 115}   \* Y C y q m d e w u U W G g V j H k I l M S f s
RECURSIVE WithPadFrom(_, _, _)
WithPadFrom(s, i, pad) ==          \* insert the modifier after the '%' of every numeric specifier
   IF i > Len(s) THEN <<>>
   ELSE IF s[i] = 37 /\ i < Len(s)
        THEN (IF s[i + 1] \in NumericLetters THEN <<37>> \o pad \o <<s[i + 1]>> ELSE <<37, s[i + 1]>>) \o WithPadFrom(s, i + 2, pad)
        ELSE <<s[i]>> \o WithPadFrom(s, i + 1, pad)
RECURSIVE Subst(_, _, _)
Subst(s, from, to) == IF s = <<>> THEN <<>> ELSE (IF Head(s) = from THEN to ELSE <<Head(s)>>) \o Subst(Tail(s), from, to)
Build(block, pad, dsep, tsep, ws) == Subst(Subst(Subst(WithPadFrom(S(block), 1, pad), 126, dsep), 94, tsep), 32, ws)
DateBlocks == << "%Y~%m~%d", "%d~%m~%Y", "%e %b %Y", "%A, %B %d, %Y", "%a %h %e %Y", "%C%y~%m~%d", "%y~%m~%d", "%Y~%j", "%y~%j", "%C%y~%j",
                 "%G~W%V~%u", "%G~%V~%a", "%g~%V~%w", "%G~%V~%A", "%Y~%U~%w", "%Y~%W~%u", "%y~%U~%A", "%C%y~%W~%a", "%F", "%D", "%x", "%v",
                 "%Y~%q~%m~%d", "%C~%y~%m~%d", "%Y%m%d", "%y%m%d", "%Y%j", "%G%V%u", "%Y%U%w", "%C%y%m%d", "%Y%%%m%%%d", "%Y%t%m%n%d", "%B %e, %Y (%A)",
                 "%Y~%m~%d %a week %U/%W iso %G~W%V~%u day %j q%q", "%d%b%Y", "%Y~%B~%d" >>
TimeBlocks == << "%H^%M^%S", "%k^%M^%S", "%H^%M", "%I^%M^%S %p", "%l^%M^%S%P", "%I^%M %P", "%p %I^%M^%S", "%T", "%X", "%R", "%r", "%H%M%S", "%I%M%S%p",
                 "%H^%M^%S%.f", "%H^%M^%S%.3f", "%H^%M^%S%.6f", "%H^%M^%S%.9f", "%H^%M^%S.%3f", "%H^%M^%S.%6f", "%H^%M^%S.%9f", "%H%M%S%3f", "%H%M%S%6f",
                 "%H%M%S%9f", "%H^%M^%S %f", "%H^%M^%S,%f", "%T%.f", "%T%.3f", "%I^%M^%S%.3f %p", "%l^%M^%S%.f%P", "%H%M%S%f", "%M^%S^%H" >>
OffBlocks == << "%z", "%:z", " %z", " %:z", " UTC%:z" >>
StampBlocks == << "%s", "%s%.f", "%s%.3f", "%s.%6f", "%s.%9f", "%s %f", "%s%.9f", "@%s" >>
WholeDt == << "%+", "%c %z", "%+ %A" >>
Glues == << "T", " ", ", ", " at ", "_" >>
Pads == << <<>>, <<45>>, <<95>>, <<48>> >>                                  \* none, '-', '_', '0'
DateSeps == << <<45>>, <<47>>, <<46>>, <<32>>, <<24180>> >>                 \* - / . space and a multi-byte literal
TimeSeps == << <<58>>, <<46>>, <<104>>, <<32>> >>                           \* : . h space
WhiteRuns == << <<32>>, <<32, 32>>, <<9>>, <<12288>> >>
Pick(seq, k) == seq[(k % Len(seq)) + 1]
\* candidates: a record [ty, fw, fr]; the choice indices rotate so that the cross products stay small
DateCands == { [ty |-> "date", fw |-> Build(DateBlocks[b], Pads[p], DateSeps[d], <<58>>, Pick(WhiteRuns, b + d))] :
                  b \in 1..Len(DateBlocks), p \in 1..Len(Pads), d \in 1..Len(DateSeps) }
TimeCands == { [ty |-> "time", fw |-> Build(TimeBlocks[b], Pads[p], <<45>>, TimeSeps[t], Pick(WhiteRuns, b + t))] :
                  b \in 1..Len(TimeBlocks), p \in 1..Len(Pads), t \in 1..Len(TimeSeps) }
NdtBody(b, c, p, k) == LET dfirst == (b + c) % 3 # 0
                           dpart == Build(DateBlocks[b], Pads[p], Pick(DateSeps, k), <<58>>, Pick(WhiteRuns, k))
                           tpart == Build(TimeBlocks[c], Pads[p], <<45>>, Pick(TimeSeps, k + b), Pick(WhiteRuns, k + 1))
                           glue == S(Pick(Glues, b + c + k))
                       IN IF dfirst THEN dpart \o glue \o tpart ELSE tpart \o glue \o dpart
NdtCands(stride) == { [ty |-> "ndt", fw |-> NdtBody(bc[1], bc[2], p, bc[1] + bc[2] + p)] :
                         bc \in { x \in (1..Len(DateBlocks)) \X (1..Len(TimeBlocks)) : (x[1] + x[2]) % stride = 0 }, p \in 1..Len(Pads) }
                    \cup { [ty |-> "ndt", fw |-> WithPadFrom(S(StampBlocks[b]), 1, Pads[p])] : b \in 1..Len(StampBlocks), p \in 1..Len(Pads) }
                    \cup { [ty |-> "ndt", fw |-> S("%c")] }
DtCands(stride) == { [ty |-> "dt", fw |-> NdtBody(bc[1], bc[2], p, bc[1] + bc[2] + p) \o S(Pick(OffBlocks, bc[1] + bc[2] + p))] :
                         bc \in { x \in (1..Len(DateBlocks)) \X (1..Len(TimeBlocks)) : (x[1] + x[2] + 1) % stride = 0 }, p \in 1..Len(Pads) }
                   \cup { [ty |-> "dt", fw |-> WithPadFrom(S(StampBlocks[b]), 1, Pads[p]) \o S(o)] : b \in 1..Len(StampBlocks), p \in 1..Len(Pads), o \in {"", " %z", "%:z"} }
                   \cup { [ty |-> "dt", fw |-> S(WholeDt[b])] : b \in 1..Len(WholeDt) }
                   \cup { [ty |-> "dt", fw |-> S(x)] : x \in { "%Y-%m-%dT%H:%M:%S%.f%:z @%s", "%s %Y-%m-%d %H:%M:%S %z", "%+ %s", "%s = %G-W%V-%u %I:%M:%S%.3f %p %:z" } }
\* read-only %#z: the same format with its (last) offset specifier written as %z, %:z or %:::z and read as %#z
PermCands == { [ty |-> "dt", fw |-> NdtBody(b, b, 1, b) \o S(o[1]) \o S(o[2]), fr |-> NdtBody(b, b, 1, b) \o S(o[1]) \o S("%#z")] :
                  b \in 1..10, o \in { <<"", "%z">>, <<" ", "%:z">>, <<" ", "%:::z">>, <<"", "%:::z">> } }
WithRead(c) == IF "fr" \in DOMAIN c THEN c ELSE [ty |-> c.ty, fw |-> c.fw, fr |-> c.fw]
InFamily(c) == Unambiguous(StrictItems(c.fw), StrictItems(c.fr), c.ty)
UnambiguousFamily(stride) == { c \in { WithRead(x) : x \in DateCands \cup TimeCands \cup NdtCands(stride) \cup DtCands(stride) \cup PermCands } : InFamily(c) }
\* ---------------------------------------------------------------------------------------------------------------
\* the conformance obligation for one recorded round trip: text = format(v, fw) and parsed = parse(text, fr)
ParsedOk(res, expected) == "ok" \in DOMAIN res /\ res.ok = expected
RoundTripExplains(fw, fr, v, pty, text, parsed) ==
   LET w == StrictItems(fw)  r == StrictItems(fr) IN
   /\ Unambiguous(w, r, pty)                                      \* the property speaks about this format
   /\ Renders(w, v, text)                                         \* the text is the specified rendering (C12)
   /\ (Expressible(w, r, v, pty) => ParsedOk(parsed, Project(w, r, v, pty)))
=============================================================================
