------------------------------ MODULE Rfc3339 ------------------------------
(***************************************************************************)
(* RFC 3339 date-times (property C10).                                     *)
(*   Write(w, off, sf, z)  the renderer: wall clock w at offset off,       *)
(*                         seconds format sf, Z on request for offset 0;   *)
(*   Gen(f, c)             the grammar of RFC 3339 section 5.6 with the    *)
(*                         documented latitude, constructively: fields f   *)
(*                         (numbers) and syntax choices c (separator T, t  *)
(*                         or space; Z, z or a numeric offset with sign    *)
(*                         +, - or U+2212; any number of fraction digits)  *)
(*                         and Denoted(f, c), the value the text denotes;  *)
(*   Accepts(s), Value(s)  the same language analytically, as a recogniser *)
(*                         over code points.                               *)
(* The two definitions are written independently; MC_Rfc3339 checks that   *)
(* they agree on generated strings and on all their single-character edits *)
(* (double entry), so a slip in either is caught before code is judged.    *)
(* A value is [n, secs, frac, off]: wall-clock day number, second of day,  *)
(* nanosecond field (>= 10^9: second 60) and offset in seconds.            *)
(***************************************************************************)
EXTENDS Show

(* ------------------------------- writer -------------------------------- *)
SecondsFormats == {"Secs", "Millis", "Micros", "Nanos", "AutoSi"}
\* sub-seconds are truncated, never rounded, to the requested precision
FracSel(w, sf) == LET f == Frac(w) IN
   CASE sf = "Secs" -> <<>>
     [] sf = "Millis" -> <<46>> \o Pad0(f \div 1000000, 3)
     [] sf = "Micros" -> <<46>> \o Pad0(f \div 1000, 6)
     [] sf = "Nanos"  -> <<46>> \o Pad0(f, 9)
     [] sf = "AutoSi" -> AutoFrac(w)
Write(w, off, sf, z) == DateText(w.n) \o <<84>> \o HmsText(w) \o FracSel(w, sf) \o OffsetText(off, "M", TRUE, z)
\* what a reader can recover from Write: the nanoseconds cut to the precision written
Kept(frac, sf) == LET f == frac % NSu  lp == frac - f IN
   lp + (CASE sf = "Secs" -> 0 [] sf = "Millis" -> f - (f % 1000000) [] sf = "Micros" -> f - (f % 1000) [] OTHER -> f)

(* ------------------------------ generator ------------------------------ *)
\* f = [y, mo, d, h, mi, s, fd, oh, om]   fd: the fraction digits as a sequence of 0..9 (<<>>: no fraction)
\* c = [sep, z, sign]                      z: 90 ("Z"), 122 ("z") or 0 (numeric offset with sign character `sign`)
Seps == {84, 116, 32}
Zulus == {90, 122}
Signs == {43, 45, 8722}
ValidChoices(c) == c.sep \in Seps /\ c.z \in (Zulus \cup {0}) /\ c.sign \in Signs
ValidFields(f) == /\ f.y >= 0 /\ f.y <= 9999 /\ ValidYmd(f.y, f.mo, f.d)
                  /\ f.h >= 0 /\ f.h <= 23 /\ f.mi >= 0 /\ f.mi <= 59 /\ f.s >= 0 /\ f.s <= 60
                  /\ \A i \in 1..Len(f.fd) : f.fd[i] >= 0 /\ f.fd[i] <= 9
                  /\ f.oh >= 0 /\ f.oh <= 23 /\ f.om >= 0 /\ f.om <= 59
Gen(f, c) == Pad0(f.y, 4) \o <<45>> \o Two(f.mo) \o <<45>> \o Two(f.d) \o <<c.sep>>
             \o Two(f.h) \o <<58>> \o Two(f.mi) \o <<58>> \o Two(f.s)
             \o (IF f.fd = <<>> THEN <<>> ELSE <<46>> \o [i \in 1..Len(f.fd) |-> 48 + f.fd[i]])
             \o (IF c.z # 0 THEN <<c.z>> ELSE <<c.sign>> \o Two(f.oh) \o <<58>> \o Two(f.om))
RECURSIVE FracValue(_, _)                                     \* nanoseconds of the first nine digits; further digits are below the resolution
FracValue(fd, i) == IF i > Len(fd) \/ i > 9 THEN 0 ELSE fd[i] * Pow10(9 - i) + FracValue(fd, i + 1)
Denoted(f, c) == [n |-> DayNumber(f.y, f.mo, f.d),
                  secs |-> f.h * 3600 + f.mi * 60 + Min2(f.s, 59),
                  frac |-> FracValue(f.fd, 1) + (IF f.s = 60 THEN NSu ELSE 0),
                  off |-> IF c.z # 0 THEN 0 ELSE (IF c.sign = 43 THEN 1 ELSE -1) * (f.oh * 3600 + f.om * 60)]

(* ------------------------------ recogniser ----------------------------- *)
Bad == [ok |-> FALSE]
Parse(s) ==
  IF ~(AllDigits(s,1,4) /\ At(s,5) = 45 /\ AllDigits(s,6,2) /\ At(s,8) = 45 /\ AllDigits(s,9,2)
       /\ At(s,11) \in {84, 116, 32} /\ AllDigits(s,12,2) /\ At(s,14) = 58 /\ AllDigits(s,15,2)
       /\ At(s,17) = 58 /\ AllDigits(s,18,2)) THEN Bad
  ELSE LET y == NumAt(s,1,4) mo == NumAt(s,6,2) d == NumAt(s,9,2) h == NumAt(s,12,2) mi == NumAt(s,15,2) sec == NumAt(s,18,2)
           hasFrac == At(s,20) = 46
           fe == IF hasFrac THEN DigitsEnd(s, 21) ELSE 20           \* position of the offset
           nd == fe - 21
           nano == IF hasFrac /\ nd >= 1 THEN NumAt(s, 21, Min2(nd, 9)) * Pow10(9 - Min2(nd, 9)) ELSE 0
           z == At(s, fe)
       IN IF hasFrac /\ nd < 1 THEN Bad
          ELSE IF ~ValidYmd(y, mo, d) \/ h > 23 \/ mi > 59 \/ sec > 60 THEN Bad
          ELSE LET w == [n |-> DayNumber(y, mo, d), secs |-> h * 3600 + mi * 60 + Min2(sec, 59), frac |-> nano + (IF sec = 60 THEN NSu ELSE 0)] IN
          IF z \in {90, 122} THEN (IF fe = Len(s) THEN [ok |-> TRUE, v |-> [n |-> w.n, secs |-> w.secs, frac |-> w.frac, off |-> 0]] ELSE Bad)
          ELSE IF ~(z \in {43, 45, 8722} /\ AllDigits(s, fe+1, 2) /\ At(s, fe+3) = 58 /\ AllDigits(s, fe+4, 2) /\ fe + 5 = Len(s)) THEN Bad
          ELSE LET oh == NumAt(s, fe+1, 2) om == NumAt(s, fe+4, 2) IN
               IF om > 59 \/ oh > 23 THEN Bad
               ELSE [ok |-> TRUE, v |-> [n |-> w.n, secs |-> w.secs, frac |-> w.frac, off |-> (IF z = 43 THEN 1 ELSE -1) * (oh * 3600 + om * 60)]]
Accepts(s) == Parse(s).ok
Value(s) == Parse(s).v
\* the instant and offset of a value, in the form zone-aware date-times have in traces
ToUtc(v) == [u |-> Wall([n |-> v.n, secs |-> v.secs, frac |-> v.frac], -v.off), off |-> v.off]

(* --------------- the generator read backwards (double entry) ------------ *)
(* A string is generable iff the fields and choices read off it at the      *)
(* positions the grammar fixes are valid and Gen reproduces the string      *)
(* exactly.  The reading is deliberately sloppy (anything that is not a     *)
(* digit counts as 0): exactness comes from the comparison with Gen.        *)
Dg(c) == IF IsDigit(c) THEN c - 48 ELSE 0
Loose2(s, i) == 10 * Dg(At(s, i)) + Dg(At(s, i + 1))
GuessFe(s) == IF At(s, 20) = 46 THEN DigitsEnd(s, 21) ELSE 20
GuessF(s) == LET fe == GuessFe(s) IN
   [y |-> 100 * Loose2(s, 1) + Loose2(s, 3), mo |-> Loose2(s, 6), d |-> Loose2(s, 9), h |-> Loose2(s, 12), mi |-> Loose2(s, 15), s |-> Loose2(s, 18),
    fd |-> [i \in 1..(fe - 21) |-> s[20 + i] - 48], oh |-> Loose2(s, fe + 1), om |-> Loose2(s, fe + 4)]
GuessC(s) == LET zc == At(s, GuessFe(s)) IN [sep |-> At(s, 11), z |-> IF zc \in Zulus THEN zc ELSE 0, sign |-> IF zc \in Zulus THEN 43 ELSE zc]
Generable(s) == LET f == GuessF(s)  c == GuessC(s) IN ValidFields(f) /\ ValidChoices(c) /\ Gen(f, c) = s
DoubleEntry(s) == /\ Accepts(s) = Generable(s)
                  /\ (Accepts(s) => Value(s) = Denoted(GuessF(s), GuessC(s)))
=============================================================================
