------------------------------- MODULE Strftime -------------------------------
(***************************************************************************)
(* What every strftime item prints (property C12), written from the        *)
(* specifier table, the modifier table and the notes of                    *)
(* chrono::format::strftime; where the prose and the repository's own doc  *)
(* test (test_strftime_docs / test_date_format) differ the doc test wins;  *)
(* where both are silent every reading is admitted.                        *)
(*                                                                         *)
(* A value is [n, secs, frac, off, hd, ht, ho]: day number of the wall     *)
(* clock date, second of the day, nanosecond field (>= 10^9 during a leap  *)
(* second), offset from UTC in seconds, and which of date / time / offset  *)
(* the formatted type has (NaiveDate: hd only; NaiveTime: ht only;         *)
(* NaiveDateTime: hd, ht; DateTime<FixedOffset>: all three).               *)
(*                                                                         *)
(* RenderItem(item, v) is [any, alts]: the set `alts` of admissible texts  *)
(* ({} = formatting must fail), or any = TRUE where the property does not  *)
(* constrain the text (%y / %g of a negative year).                        *)
(***************************************************************************)
EXTENDS StrftimeItems, TextForms, BigInt
Val(n, secs, frac, off, hd, ht, ho) == [n |-> n, secs |-> secs, frac |-> frac, off |-> off, hd |-> hd, ht |-> ht, ho |-> ho]
DateVal(n) == Val(n, 0, 0, 0, TRUE, FALSE, FALSE)
TimeVal(secs, frac) == Val(1, secs, frac, 0, FALSE, TRUE, FALSE)
NdtVal(n, secs, frac) == Val(n, secs, frac, 0, TRUE, TRUE, FALSE)
DtVal(n, secs, frac, off) == Val(n, secs, frac, off, TRUE, TRUE, TRUE)
\* the wall clock of an instant given as UTC date-time and an offset (may leave the date range by one day)
WallOf(un, usecs, frac, off) == LET t == usecs + off IN DtVal(un + (t \div 86400), t % 86400, frac, off)
Only(s) == [any |-> FALSE, alts |-> {s}]
OneOf(S) == [any |-> FALSE, alts |-> S]
Fail == [any |-> FALSE, alts |-> {}]
AnyText == [any |-> TRUE, alts |-> {}]
\* "%Y": zero-padded to 4 digits, an explicit sign exactly outside 0..9999 (the sign is not one of the four digits:
\* -0001, +12345). With space padding the documentation fixes neither whether the sign counts towards the width:
\* both are admitted. No padding: sign and digits.
YearAlts(y, pad) ==
   LET signed == y < 0 \/ y > 9999 IN
   IF ~signed THEN {WriteN(y, 4, pad, FALSE)}
   ELSE IF pad = "Space" THEN {WriteN(y, 4, pad, TRUE), WriteN(y, 3, pad, TRUE)}
   ELSE {WriteN(y, 4, pad, TRUE)}
\* "%C": the year divided by 100 (floor division: year -99 prints -1), zero-padded to 2 digits
CenturyText(y, pad) == WriteN(y \div 100, 2, pad, FALSE)
\* "%y": the year modulo 100, zero-padded to 2 digits; judged only for years >= 0
Mod100(y, pad) == IF y >= 0 THEN Only(WriteTwo(y % 100, pad)) ELSE AnyText
\* seconds since 1970-01-01 00:00 UTC of the instant (leap seconds not counted) as a BigInt
TimestampOf(v) == Sub(Add(MulSmall(FromInt(v.n - 719163), 86400), FromInt(v.secs)), FromInt(v.off))
BigText(x, width, pad) == FmtInt(x.neg, DecMag(x.mag), width, pad, FALSE)
\* "%+": same as %Y-%m-%dT%H:%M:%S%.f%:z
Rfc3339Text(v) == DateText(v.n) \o <<84>> \o TimeText(v) \o OffsetText(v.off, "M", TRUE, FALSE)
Hour12Of(h) == IF h % 12 = 0 THEN 12 ELSE h % 12
RenderNum(name, pad, v) ==
  LET y == YearOfDay(v.n)   iy == IsoYearOf(v.n)   h == v.secs \div 3600 IN
  CASE name = "Year" -> OneOf(YearAlts(y, pad))
    [] name = "YearDiv100" -> Only(CenturyText(y, pad))
    [] name = "YearMod100" -> Mod100(y, pad)
    [] name = "IsoYear" -> OneOf(YearAlts(iy, pad))
    [] name = "IsoYearDiv100" -> Only(CenturyText(iy, pad))
    [] name = "IsoYearMod100" -> Mod100(iy, pad)
    [] name = "Quarter" -> Only(DecNat((MonthOfDay(v.n) - 1) \div 3 + 1))
    [] name = "Month" -> Only(WriteTwo(MonthOfDay(v.n), pad))
    [] name = "Day" -> Only(WriteTwo(DayOfMonth(v.n), pad))
    [] name = "WeekFromSun" -> Only(WriteTwo(WeeksFrom(v.n, 6), pad))
    [] name = "WeekFromMon" -> Only(WriteTwo(WeeksFrom(v.n, 0), pad))
    [] name = "IsoWeek" -> Only(WriteTwo(IsoWeekOf(v.n), pad))
    [] name = "NumDaysFromSun" -> Only(DecNat((WeekdayOf(v.n) + 1) % 7))
    [] name = "WeekdayFromMon" -> Only(DecNat(WeekdayOf(v.n) + 1))
    [] name = "Ordinal" -> Only(WriteN(OrdinalOf(v.n), 3, pad, FALSE))
    [] name = "Hour" -> Only(WriteTwo(h, pad))
    [] name = "Hour12" -> Only(WriteTwo(Hour12Of(h), pad))
    [] name = "Minute" -> Only(WriteTwo((v.secs \div 60) % 60, pad))
    [] name = "Second" -> Only(WriteTwo(Sec(v), pad))
    [] name = "Nanosecond" -> Only(WriteN(Frac(v), 9, pad, FALSE))
    \* "%s": not padded, can be negative; the width used by an explicit padding modifier is not documented
    [] name = "Timestamp" -> LET ts == TimestampOf(v) IN OneOf({BigText(ts, 9, pad), BigText(ts, 0, pad)})
    [] OTHER -> Fail
DateNums == {"Year", "YearDiv100", "YearMod100", "IsoYear", "IsoYearDiv100", "IsoYearMod100", "Quarter", "Month", "Day",
             "WeekFromSun", "WeekFromMon", "IsoWeek", "NumDaysFromSun", "WeekdayFromMon", "Ordinal"}
TimeNums == {"Hour", "Hour12", "Minute", "Second", "Nanosecond"}
DateFixes == {"ShortMonthName", "LongMonthName", "ShortWeekdayName", "LongWeekdayName"}
TimeFixes == {"LowerAmPm", "UpperAmPm", "Nanosecond", "Nanosecond3", "Nanosecond6", "Nanosecond9",
              "Nanosecond3NoDot", "Nanosecond6NoDot", "Nanosecond9NoDot"}
OffFixes == {"TimezoneName", "TimezoneOffset", "TimezoneOffsetColon", "TimezoneOffsetDoubleColon", "TimezoneOffsetTripleColon"}
RenderFix(f, v) ==
  LET h == v.secs \div 3600 IN
  CASE f = "ShortMonthName" -> Only(ShortMonths[MonthOfDay(v.n)])
    [] f = "LongMonthName" -> Only(LongMonth(MonthOfDay(v.n)))
    [] f = "ShortWeekdayName" -> Only(ShortDays[WeekdayOf(v.n) + 1])
    [] f = "LongWeekdayName" -> Only(LongDay(WeekdayOf(v.n)))
    [] f = "LowerAmPm" -> Only(IF h >= 12 THEN <<112,109>> ELSE <<97,109>>)
    [] f = "UpperAmPm" -> Only(IF h >= 12 THEN <<80,77>> ELSE <<65,77>>)
    [] f = "Nanosecond" -> Only(AutoFrac(v))                                     \* %.f  : 0, 3, 6 or 9 digits
    [] f = "Nanosecond3" -> Only(<<46>> \o Pad0(Frac(v) \div 1000000, 3))        \* %.3f : truncation
    [] f = "Nanosecond6" -> Only(<<46>> \o Pad0(Frac(v) \div 1000, 6))
    [] f = "Nanosecond9" -> Only(<<46>> \o Pad0(Frac(v), 9))
    [] f = "Nanosecond3NoDot" -> Only(Pad0(Frac(v) \div 1000000, 3))
    [] f = "Nanosecond6NoDot" -> Only(Pad0(Frac(v) \div 1000, 6))
    [] f = "Nanosecond9NoDot" -> Only(Pad0(Frac(v), 9))
    \* %Z: "identical to %:z when formatting" vs. the offset's own display form (+HH:MM[:SS]) - either
    [] f = "TimezoneName" -> OneOf({OffsetDisplay(v.off), OffsetText(v.off, "M", TRUE, FALSE)})
    [] f = "TimezoneOffset" -> Only(OffsetText(v.off, "M", FALSE, FALSE))        \* %z   : minutes, rounded to nearest
    [] f = "TimezoneOffsetColon" -> Only(OffsetText(v.off, "M", TRUE, FALSE))    \* %:z
    [] f = "TimezoneOffsetDoubleColon" -> Only(OffsetText(v.off, "S", TRUE, FALSE))   \* %::z : with seconds
    [] f = "TimezoneOffsetTripleColon" -> Only(OffsetText(v.off, "H", FALSE, FALSE))  \* %:::z: hours only, truncated
    [] f = "RFC3339" -> Only(Rfc3339Text(v))
    [] OTHER -> Fail                                                             \* %#z is parsing only
RenderItem(it, v) ==
  CASE it.k \in {"Lit", "Space"} -> Only(it.s)
    [] it.k = "Err" -> Fail
    [] it.k = "Num" -> IF it.n \in DateNums THEN (IF v.hd THEN RenderNum(it.n, it.p, v) ELSE Fail)
                       ELSE IF it.n \in TimeNums THEN (IF v.ht THEN RenderNum(it.n, it.p, v) ELSE Fail)
                       ELSE IF it.n = "Timestamp" THEN (IF v.hd /\ v.ht THEN RenderNum(it.n, it.p, v) ELSE Fail)
                       ELSE Fail
    [] it.k = "Fix" -> IF it.f \in DateFixes THEN (IF v.hd THEN RenderFix(it.f, v) ELSE Fail)
                       ELSE IF it.f \in TimeFixes THEN (IF v.ht THEN RenderFix(it.f, v) ELSE Fail)
                       ELSE IF it.f \in OffFixes THEN (IF v.ho THEN RenderFix(it.f, v) ELSE Fail)
                       ELSE IF it.f = "RFC3339" THEN (IF v.hd /\ v.ht /\ v.ho THEN RenderFix(it.f, v) ELSE Fail)
                       ELSE Fail
    [] OTHER -> Fail
\* an unknown specifier or a field the value does not have makes formatting fail
Fails(items, v) == \E i \in 1..Len(items) : LET r == RenderItem(items[i], v) IN ~r.any /\ r.alts = {}
StartsWithAt(text, p, a) == p + Len(a) - 1 <= Len(text) /\ \A j \in 1..Len(a) : text[p + j - 1] = a[j]
\* text[p..] is a concatenation of admissible renderings of items[i..]
RECURSIVE MatchFrom(_, _, _, _, _)
MatchFrom(items, v, i, text, p) ==
   IF i > Len(items) THEN p = Len(text) + 1
   ELSE LET r == RenderItem(items[i], v) IN
        IF r.any THEN \E q \in p..(Len(text) + 1) : MatchFrom(items, v, i + 1, text, q)
        ELSE \E a \in r.alts : StartsWithAt(text, p, a) /\ MatchFrom(items, v, i + 1, text, p + Len(a))
Renders(items, v, text) == ~Fails(items, v) /\ MatchFrom(items, v, 1, text, 1)
\* all admissible renderings where every item is constrained (a set; {} = formatting fails)
RECURSIVE RenderAll(_, _)
RenderAll(items, v) == IF items = <<>> THEN {<<>>}
                       ELSE { a \o b : a \in RenderItem(items[1], v).alts, b \in RenderAll(Tail(items), v) }
Determined(items, v) == \A i \in 1..Len(items) : ~RenderItem(items[i], v).any
\* the outcome of value.format(fmt): [ok |-> text] or [err |-> 1]
FormatExplains(fmt, v, res) ==
   LET items == StrictItems(fmt) IN
   IF Fails(items, v) THEN "err" \in DOMAIN res
   ELSE "ok" \in DOMAIN res /\ MatchFrom(items, v, 1, res.ok, 1)
=============================================================================
