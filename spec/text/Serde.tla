------------------------------- MODULE Serde -------------------------------
(***************************************************************************)
(* Serialized forms (property C20).                                        *)
(*  - The string forms: a date, a time of day and a naive date-time are    *)
(*    serialized as their Debug text, a zone-aware date-time as RFC 3339   *)
(*    with the fewest of 0/3/6/9 fraction digits and Z for offset zero     *)
(*    (years outside 0..9999 signed, as an extension), a weekday as its    *)
(*    three-letter and a month as its full English name - each a JSON      *)
(*    string.                                                              *)
(*  - The sixteen timestamp helper modules are (unit, optional, naive)     *)
(*    over an instant: the serialized integer is the exact Unix timestamp  *)
(*    in that unit, an integer is read back as the instant it denotes or   *)
(*    refused when that instant is not representable.                      *)
(* Instants are BigInt nanoseconds since 1970-01-01T00:00:00 (day 719163). *)
(***************************************************************************)
EXTENDS Rfc3339, BigInt

Quote(s) == <<34>> \o s \o <<34>>
JsonDate(n) == Quote(DateShow(n))
JsonTime(t) == Quote(TimeShow(t))
JsonNdt(v)  == Quote(NdtDebug(v))
JsonDt(u, off) == Quote(Write(Wall(u, off), off, "AutoSi", TRUE))        \* DateTime<Utc|FixedOffset|Local>; offset shown to the minute
JsonWeekday(w) == Quote(WeekdayShow(w))
JsonMonth(m) == Quote(MonthShow(m))

(* --------------------------- Unix timestamps --------------------------- *)
EpochDay == 719163
Units == {"s", "ms", "us", "ns"}
\* whole seconds since the epoch of a naive date-time read as UTC
SecsOf(v) == Add(MulSmall(FromInt(v.n - EpochDay), 86400), FromInt(v.secs))
Ns(v) == Add(Mul1e9(SecsOf(v)), FromInt(v.frac))
\* the exact integer timestamp of v in a unit (floor toward minus infinity; no division is needed: the sub-second part is non-negative)
Ts(unit, v) == CASE unit = "s"  -> SecsOf(v)
                 [] unit = "ms" -> Add(Mul1e3(SecsOf(v)), FromInt(v.frac \div 1000000))
                 [] unit = "us" -> Add(Mul1e6(SecsOf(v)), FromInt(v.frac \div 1000))
                 [] unit = "ns" -> Ns(v)
\* nanoseconds denoted by the integer x in a unit
ToNs(unit, x) == CASE unit = "s" -> Mul1e9(x) [] unit = "ms" -> Mul1e6(x) [] unit = "us" -> Mul1e3(x) [] unit = "ns" -> x
MinNs == Ns([n |-> MinDay, secs |-> 0, frac |-> 0])
MaxNs == Ns([n |-> MaxDay, secs |-> 86399, frac |-> 999999999])
Representable(ns) == Leq(MinNs, ns) /\ Leq(ns, MaxNs)
ValidNdt(v) == InDates(v.n) /\ v.secs >= 0 /\ v.secs <= 86399 /\ v.frac >= 0 /\ v.frac <= 999999999
\* what a module of precision `unit` keeps of an instant
CutFrac(unit, frac) == CASE unit = "s" -> 0 [] unit = "ms" -> frac - (frac % 1000000) [] unit = "us" -> frac - (frac % 1000) [] unit = "ns" -> frac
IsLeapSecond(v) == v.frac >= NSu
\* the timestamps admissible for a leap second (a timestamp cannot carry it): as the second it extends, or as the second that follows
LeapTs(unit, v) == { Ts(unit, v), Ts(unit, [v EXCEPT !.frac = v.frac - NSu]) }
                   \cup (IF v.secs < 86399 THEN { Ts(unit, [v EXCEPT !.secs = v.secs + 1, !.frac = v.frac - NSu]) }
                         ELSE { Ts(unit, [n |-> v.n + 1, secs |-> 0, frac |-> v.frac - NSu]) })
=============================================================================
