------------------------------ MODULE TextForms ------------------------------
(***************************************************************************)
(* Fragments shared by chrono's text forms (default Display/Debug, RFC     *)
(* 3339 / 2822 writers, strftime items): years, fractions, offsets.        *)
(* A wall-clock value is [n |-> day number, secs |-> second of day,        *)
(* frac |-> nanosecond field (>= 10^9 for a leap second)].                 *)
(***************************************************************************)
EXTENDS Text, Calendar
NSu == 1000000000
WriteN(v, n, pad, alwaysSign) == FmtInt(v < 0, DecNat(IF v < 0 THEN -v ELSE v), IF alwaysSign THEN n + 1 ELSE n, pad, alwaysSign)
WriteTwo(v, pad) == IF v >= 10 THEN DecNat(v) ELSE CASE pad = "None" -> DecNat(v) [] pad = "Space" -> <<32>> \o DecNat(v) [] pad = "Zero" -> <<48>> \o DecNat(v)
\* explicit sign exactly for years outside 0..9999, zero-padded to at least four digits
YearText(y) == IF y >= 0 /\ y <= 9999 THEN Pad0(y, 4) ELSE WriteN(y, 4, "Zero", TRUE)
Frac(v) == v.frac % NSu
Sec(v) == (v.secs % 60) + (v.frac \div NSu)                         \* 60 for a leap second
\* the fewest of 0 / 3 / 6 / 9 fractional digits that lose nothing
AutoFrac(v) == LET f == Frac(v) IN IF f = 0 THEN <<>> ELSE IF f % 1000000 = 0 THEN <<46>> \o Pad0(f \div 1000000, 3)
               ELSE IF f % 1000 = 0 THEN <<46>> \o Pad0(f \div 1000, 6) ELSE <<46>> \o Pad0(f, 9)
\* offset writer: precision "H" | "M" | "S", optional colons, optional Z for zero
OffsetText(off, prec, colon, zulu) ==
   IF zulu /\ off = 0 THEN <<90>>
   ELSE LET a == IF off < 0 THEN -off ELSE off   sign == IF off < 0 THEN <<45>> ELSE <<43>>
            mm == IF prec = "M" THEN (a + 30) \div 60 ELSE a \div 60          \* minutes precision rounds to nearest
            h == IF prec = "H" THEN a \div 3600 ELSE mm \div 60
            mi == mm % 60   s == a % 60   c == IF colon THEN <<58>> ELSE <<>>
        IN sign \o Two(h) \o (IF prec = "H" THEN <<>> ELSE c \o Two(mi)) \o (IF prec = "S" THEN c \o Two(s) ELSE <<>>)
\* Display of FixedOffset: +HH:MM, with :SS only when the seconds are not zero
OffsetDisplay(off) == LET a == IF off < 0 THEN -off ELSE off IN
   (IF off < 0 THEN <<45>> ELSE <<43>>) \o Two(a \div 3600) \o <<58>> \o Two((a \div 60) % 60) \o (IF a % 60 = 0 THEN <<>> ELSE <<58>> \o Two(a % 60))
DateText(n) == YearText(YearOfDay(n)) \o <<45>> \o Two(MonthOfDay(n)) \o <<45>> \o Two(DayOfMonth(n))
HmsText(v) == Two(v.secs \div 3600) \o <<58>> \o Two((v.secs \div 60) % 60) \o <<58>> \o Two(Sec(v))
TimeText(v) == HmsText(v) \o AutoFrac(v)
=============================================================================
