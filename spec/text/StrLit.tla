------------------------------- MODULE StrLit -------------------------------
(***************************************************************************)
(* Text literals: S("%Y-%m-%d") is the code-point sequence of a printable  *)
(* ASCII string constant, so that format strings and expected texts can be *)
(* written legibly in design checks and generators. (Traces never carry    *)
(* strings; see Text.)                                                     *)
(***************************************************************************)
EXTENDS Integers, Sequences
Printable == " !\"#$%&'()*+,-./0123456789:;<=>?@ABCDEFGHIJKLMNOPQRSTUVWXYZ[\\]^_`abcdefghijklmnopqrstuvwxyz{|}~"
CodeTable == [c \in { SubSeq(Printable, i, i) : i \in 1..Len(Printable) } |->
                31 + (CHOOSE i \in 1..Len(Printable) : SubSeq(Printable, i, i) = c)]
S(str) == [i \in 1..Len(str) |-> CodeTable[SubSeq(str, i, i)]]
=============================================================================
