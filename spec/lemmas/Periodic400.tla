---------------------------- MODULE Periodic400 ----------------------------
(***************************************************************************)
(* Scale-free lemmas behind the C01 conformance argument, discharged for   *)
(* UNBOUNDED integers by Apalache (apalache-mc check --length=0 --inv=..). *)
(* The Rust sweep relates every date to the date 146097*k days away inside *)
(* the window that TLC judges event by event; these lemmas say that the    *)
(* specification's calendar itself has that period, so agreement on the    *)
(* window plus periodicity of the implementation is agreement everywhere.  *)
(* The definitions are copied from Calendar.tla (Apalache needs type       *)
(* annotations and no RECURSIVE operators); MC_Calendar's invariant        *)
(* `Periodic` checks the same statement on the real module, bounded.       *)
(***************************************************************************)
EXTENDS Integers
VARIABLES
  \* @type: Int;
  y,
  \* @type: Int;
  m,
  \* @type: Int;
  d
IsLeap(yy) == (yy % 4 = 0 /\ yy % 100 # 0) \/ yy % 400 = 0
DaysBeforeYear(yy) == LET p == yy - 1 IN 365 * p + (p \div 4) - (p \div 100) + (p \div 400)
DaysInMonth(yy, mm) == IF mm = 2 THEN (IF IsLeap(yy) THEN 29 ELSE 28) ELSE IF mm \in {4,6,9,11} THEN 30 ELSE 31
DaysBeforeMonth(yy, mm) ==
  (IF mm > 1 THEN 31 ELSE 0) + (IF mm > 2 THEN (IF IsLeap(yy) THEN 29 ELSE 28) ELSE 0) + (IF mm > 3 THEN 31 ELSE 0) + (IF mm > 4 THEN 30 ELSE 0)
  + (IF mm > 5 THEN 31 ELSE 0) + (IF mm > 6 THEN 30 ELSE 0) + (IF mm > 7 THEN 31 ELSE 0) + (IF mm > 8 THEN 31 ELSE 0) + (IF mm > 9 THEN 30 ELSE 0)
  + (IF mm > 10 THEN 31 ELSE 0) + (IF mm > 11 THEN 30 ELSE 0)
DayNumber(yy, mm, dd) == DaysBeforeYear(yy) + DaysBeforeMonth(yy, mm) + dd
WeekdayOf(n) == (n - 1) % 7
Init == y \in Int /\ m \in 1..12 /\ d \in Int
Next == UNCHANGED <<y, m, d>>
\* the lemmas
Periodic == /\ DayNumber(y + 400, m, d) = DayNumber(y, m, d) + 146097
            /\ IsLeap(y + 400) = IsLeap(y)
            /\ DaysInMonth(y + 400, m) = DaysInMonth(y, m)
\* the weekday follows: a whole cycle is a whole number of weeks (stated on an arbitrary day number n = d)
WeekdayPeriodic == 146097 % 7 = 0 /\ WeekdayOf(d + 146097) = WeekdayOf(d)
YearLength == DaysBeforeYear(y + 1) - DaysBeforeYear(y) = (IF IsLeap(y) THEN 366 ELSE 365)
MonthLength == m < 12 => DaysBeforeMonth(y, m + 1) - DaysBeforeMonth(y, m) = DaysInMonth(y, m)
=============================================================================
