----------------------------- MODULE ClockLaws -----------------------------
(***************************************************************************)
(* Scale-free arithmetic lemmas behind C02, C04, C06, C07 and C17,         *)
(* discharged for UNBOUNDED integers by Apalache (--length=0 --inv=..).    *)
(* The MC_* modules check the same statements of the real modules on       *)
(* boundary lattices; these lemmas say that the defining equations (floor  *)
(* division by the unit, wall clock = instant + offset carried into the    *)
(* day number, wrap by whole days, truncation to a multiple) have the      *)
(* stated algebraic properties for EVERY integer, so nothing hides between *)
(* lattice points.  Definitions are copied from TimeOfDay.tla,             *)
(* DateTimeTz.tla, Duration.tla and Rounding.tla (Apalache needs type      *)
(* annotations; TLA+'s \div and % are floor division and its remainder).   *)
(***************************************************************************)
EXTENDS Integers
VARIABLES
  \* @type: Int;
  n,
  \* @type: Int;
  secs,
  \* @type: Int;
  off,
  \* @type: Int;
  x,
  \* @type: Int;
  a,
  \* @type: Int;
  b
SPD == 86400
NS == 1000000000
\* DateTimeTz.tla
WallN(dn, s, o) == dn + ((s + o) \div SPD)
WallS(s, o) == (s + o) % SPD
UtcN(dn, s, o) == dn + ((s - o) \div SPD)
UtcS(s, o) == (s - o) % SPD
Init == n \in Int /\ secs \in 0..(SPD - 1) /\ off \in (1 - SPD)..(SPD - 1) /\ x \in Int /\ a \in Int /\ b \in Int
Next == UNCHANGED <<n, secs, off, x, a, b>>
\* C04: the wall clock of an instant and the instant of a wall clock are mutual inverses, on every day number
WallInverse ==
  /\ UtcN(WallN(n, secs, off), WallS(secs, off), off) = n /\ UtcS(WallS(secs, off), off) = secs
  /\ WallN(UtcN(n, secs, off), UtcS(secs, off), off) = n /\ WallS(UtcS(secs, off), off) = secs
  /\ WallS(secs, off) \in 0..(SPD - 1)
  /\ WallN(n, secs, off) \in (n - 1)..(n + 1)                  \* one day of headroom suffices
\* C07: adding x whole seconds to a time of day wraps by whole days exactly, and subtraction undoes it
TimeWrap ==
  LET r == (secs + x) % SPD  c == (secs + x) \div SPD IN
  /\ r \in 0..(SPD - 1) /\ c * SPD + r = secs + x
  /\ (r - x) % SPD = secs /\ (r - x) \div SPD = -c
\* C06 / C02: the (seconds, nanoseconds) normal form of an integer count exists and is unique (floor toward minus infinity)
NormalForm ==
  LET s == x \div NS  f == x % NS IN
  /\ f \in 0..(NS - 1) /\ s * NS + f = x
  /\ ((b \in 0..(NS - 1) /\ a * NS + b = x) => (a = s /\ b = f))
\* C02: the same for the millisecond and microsecond units, and seconds -> (day, second of day)
UnitFloor ==
  /\ (x % 1000) \in 0..999 /\ (x \div 1000) * 1000 + (x % 1000) = x
  /\ (x % 1000000) \in 0..999999 /\ (x \div 1000000) * 1000000 + (x % 1000000) = x
  /\ (x % SPD) \in 0..(SPD - 1) /\ (x \div SPD) * SPD + (x % SPD) = x
  /\ (x < 0 /\ x % 1000 # 0 => x \div 1000 < 0 /\ (x \div 1000) * 1000 < x)     \* floors, does not truncate
\* C06: accessors truncate toward zero with a sub-unit part of the same sign
TruncAccessor ==
  LET q == IF x >= 0 THEN x \div NS ELSE -((-x) \div NS)
      r == x - q * NS IN
  /\ (x >= 0 => r \in 0..(NS - 1)) /\ (x <= 0 => r \in (1 - NS)..0)
  /\ (x >= 0 => q >= 0) /\ (x <= 0 => q <= 0)
\* C17: truncation, round-up and rounding to a multiple of a positive span a
Rounding ==
  a > 0 =>
    LET m == x % a
        tr == x - m
        up == IF m = 0 THEN x ELSE tr + a
        rd == IF 2 * m >= a THEN tr + a ELSE tr IN
    /\ tr % a = 0 /\ tr <= x /\ x < tr + a
    /\ up % a = 0 /\ up >= x /\ up < x + a
    /\ rd % a = 0 /\ 2 * (rd - x) <= a /\ 2 * (x - rd) < a + 1
    /\ (x % a = 0 => tr = x /\ up = x /\ rd = x)
\* Non-vacuity: statements that are FALSE for some integers; Apalache must produce a counterexample for each (verif.py selftest)
MutantRoundStrict == a > 0 => LET m == x % a  tr == x - m  rd == IF 2 * m >= a THEN tr + a ELSE tr IN 2 * (rd - x) < a      \* a tie is exactly half a span away
MutantTruncating  == (x \div 1000) * 1000 <= x /\ (x < 0 => (x \div 1000) * 1000 + 1000 > x + 1)                          \* false at negative multiples + 999
MutantWallNoCarry == WallN(n, secs, off) = n                                                                                \* the day number does move
=============================================================================
