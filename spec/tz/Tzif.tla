-------------------------------- MODULE Tzif --------------------------------
(***************************************************************************)
(* The TZif file format (RFC 8536, versions 1-3), property C16.            *)
(*   Encode(zone, ver)  a conforming writer: header, 32-bit block, 64-bit  *)
(*                      block and footer (ver = 1, 2, 3)                   *)
(*   Classify(bytes)    a reader as the RFC describes it, three-valued:    *)
(*     WELL_FORMED  every conforming reader accepts it and obtains .zone   *)
(*     MALFORMED    the reject list of C16: bad magic or version, counts   *)
(*                  that disagree with the data (truncation), unsorted     *)
(*                  transitions, type or abbreviation indices out of       *)
(*                  bounds, malformed footer, a footer that contradicts    *)
(*                  the type of the last transition, offset -2^31          *)
(*     UNSPECIFIED  what the RFC leaves open or a reader may refuse:       *)
(*                  leap-second records, isdst > 1, odd abbreviations,     *)
(*                  data after a version-1 block, indicator pair (0,1),    *)
(*                  non-zero reserved bytes, offsets outside the RFC's     *)
(*                  recommended range, times below -2^59, a version-1      *)
(*                  block of a v2+ file whose header breaks the rules,     *)
(*                  footers in a dialect of the TZ grammar, v4+ files      *)
(* Bytes are sequences of 0..255.  Zone models are those of TzModel.       *)
(***************************************************************************)
EXTENDS TzModel
\* --- integers <-> big-endian bytes -------------------------------------------------------------------
RECURSIVE BytesOfNat(_, _)          \* k big-endian bytes of a non-negative BigInt
BytesOfNat(x, k) == IF k = 0 THEN <<>> ELSE LET qr == DivModSmall(x, 256) IN BytesOfNat(qr[1], k - 1) \o <<qr[2]>>
Compl(bs) == [i \in 1..Len(bs) |-> 255 - bs[i]]
BE(x, k) == IF ~x.neg THEN BytesOfNat(x, k) ELSE Compl(BytesOfNat(Sub(Neg(x), One), k))     \* two's complement
BE32(n) == BE(FromInt(n), 4)
U32(n)  == BytesOfNat(FromInt(n), 4)
RECURSIVE NatOfBytes(_, _, _)       \* BigInt value of bytes b[i..j], big endian, unsigned
NatOfBytes(b, i, j) == IF j < i THEN Zero ELSE Add(MulSmall(NatOfBytes(b, i, j - 1), 256), FromInt(b[j]))
Pow256(k) == IF k = 4 THEN Mk(FALSE, <<296, 967, 294, 4>>) ELSE Mk(FALSE, <<616, 551, 709, 73, 744, 446, 18>>)   \* 2^32, 2^64
\* signed value of the k bytes (k = 4 or 8) at b[i..]
SignedAt(b, i, k) == LET n == NatOfBytes(b, i, i + k - 1) IN IF b[i] >= 128 THEN Sub(n, Pow256(k)) ELSE n
\* native signed 32-bit value (fits TLC's integers)
I32At(b, i) == (IF b[i] >= 128 THEN b[i] - 256 ELSE b[i]) * 16777216 + b[i + 1] * 65536 + b[i + 2] * 256 + b[i + 3]
\* an unsigned 32-bit count; anything that cannot fit any file handled here is capped (it only ever exceeds the length)
CountCap == 1000000000
CountAt(b, i) == IF b[i] >= 59 THEN CountCap ELSE b[i] * 16777216 + b[i + 1] * 65536 + b[i + 2] * 256 + b[i + 3]
\* --- writer -------------------------------------------------------------------------------------------
\* abbreviation table: names in type order, each NUL-terminated; index of type k = bytes before it
RECURSIVE NameIndex(_, _)
NameIndex(types, k) == IF k = 1 THEN 0 ELSE NameIndex(types, k - 1) + Len(types[k - 1].abbr) + 1
Names(types) == Cat([k \in 1..Len(types) |-> types[k].abbr \o <<0>>])
Magic == <<84, 90, 105, 102>>
VerByte(ver) == IF ver = 1 THEN 0 ELSE 48 + ver
Header(ver, ntrans, ntypes, nchars) == Magic \o <<VerByte(ver)>> \o [i \in 1..15 |-> 0]
                                       \o U32(0) \o U32(0) \o U32(0) \o U32(ntrans) \o U32(ntypes) \o U32(nchars)
Block(ver, z, tsize) ==
   Header(ver, Len(z.trans), Len(z.types), Len(Names(z.types)))
   \o Cat([i \in 1..Len(z.trans) |-> BE(z.trans[i].t, tsize)])
   \o [i \in 1..Len(z.trans) |-> z.trans[i].ty - 1]
   \o Cat([k \in 1..Len(z.types) |-> BE32(z.types[k].off) \o <<IF z.types[k].dst THEN 1 ELSE 0, NameIndex(z.types, k)>>])
   \o Names(z.types)
Fits32(x) == FitsI32(x)
\* the version-1 block of a v2+ file carries what 32-bit readers can use (v2+ readers skip it): the minimal one
MinimalV1(ver) == Header(ver, 0, 1, 1) \o BE32(0) \o <<0, 0>> \o <<0>>
Encodable(z, ver) == /\ ver \in 1..3
                     /\ (ver = 1 => z.rule.k = "none" /\ \A i \in 1..Len(z.trans) : Fits32(z.trans[i].t))
                     /\ (NeedsV3(z.rule) => ver = 3)
Encode(z, ver) == IF ver = 1 THEN Block(1, z, 4)
                  ELSE MinimalV1(ver) \o Block(ver, z, 8) \o <<10>> \o Show(z.rule) \o <<10>>
\* --- reader -------------------------------------------------------------------------------------------
WF == "WELL_FORMED"
MF == "MALFORMED"
UN == "UNSPECIFIED"
NoZone == [trans |-> <<>>, types |-> <<>>, rule |-> NoRule]
Verdict(c, why) == [class |-> c, why |-> why, zone |-> NoZone]
\* an UNSPECIFIED file whose structure could be read still carries the zone it describes
VerdictZ(c, why, z) == [class |-> c, why |-> why, zone |-> z]
Hdr(b, o) == [isut |-> CountAt(b, o + 20), isstd |-> CountAt(b, o + 24), leap |-> CountAt(b, o + 28),
              time |-> CountAt(b, o + 32), type |-> CountAt(b, o + 36), char |-> CountAt(b, o + 40)]
HdrTooBig(h, n) == h.isut > n \/ h.isstd > n \/ h.leap > n \/ h.time > n \/ h.type > n \/ h.char > n
\* RFC 8536 3.1: typecnt and charcnt MUST NOT be zero; isutcnt and isstdcnt MUST be zero or typecnt
HdrBroken(h) == h.type = 0 \/ h.char = 0 \/ (h.isut # 0 /\ h.isut # h.type) \/ (h.isstd # 0 /\ h.isstd # h.type)
BlockLen(h, ts) == h.time * ts + h.time + h.type * 6 + h.char + h.leap * (ts + 4) + h.isstd + h.isut
ReservedZero(b, o) == \A i \in (o + 5)..(o + 19) : b[i] = 0
\* positions (1-based index of the first byte) of the parts of a data block whose header starts at index o
PTimes(o) == o + 44
PTypes(o, h, ts) == PTimes(o) + h.time * ts
PInfo(o, h, ts) == PTypes(o, h, ts) + h.time
PChars(o, h, ts) == PInfo(o, h, ts) + h.type * 6
PLeaps(o, h, ts) == PChars(o, h, ts) + h.char
PStd(o, h, ts) == PLeaps(o, h, ts) + h.leap * (ts + 4)
PUt(o, h, ts) == PStd(o, h, ts) + h.isstd
RECURSIVE NulFrom(_, _, _)          \* first index in i..hi holding 0, or hi + 1
NulFrom(b, i, hi) == IF i > hi THEN hi + 1 ELSE IF b[i] = 0 THEN i ELSE NulFrom(b, i + 1, hi)
MinTime == Neg(Mk(FALSE, <<488, 423, 303, 752, 460, 576>>))       \* -2^59, the RFC's recommended lower bound
\* the authoritative data block: [hard |-> reason or "", soft |-> reason or "", trans, types]
ReadBlock(b, o, h, ts) ==
   LET times == [i \in 1..h.time |-> SignedAt(b, PTimes(o) + (i - 1) * ts, ts)]
       tyidx == [i \in 1..h.time |-> b[PTypes(o, h, ts) + i - 1]]
       info(k) == PInfo(o, h, ts) + (k - 1) * 6
       c0 == PChars(o, h, ts)
       desig(k) == b[info(k) + 5]
       nul(k) == NulFrom(b, c0 + desig(k), c0 + h.char - 1)
       abbr(k) == SubSeq(b, c0 + desig(k), nul(k) - 1)
       off(k) == I32At(b, info(k))
       hard == IF \E i \in 1..(h.time - 1) : ~Lt(times[i], times[i + 1]) THEN "unsorted transitions"
               ELSE IF \E i \in 1..h.time : tyidx[i] >= h.type THEN "type index out of bounds"
               ELSE IF \E k \in 1..h.type : desig(k) >= h.char THEN "abbreviation index out of bounds"
               ELSE IF \E k \in 1..h.type : nul(k) > c0 + h.char - 1 THEN "abbreviation not terminated"
               ELSE IF \E k \in 1..h.type : off(k) = -2147483647 - 1 THEN "offset -2^31"
               \* RFC 8536 3.2: "the standard/wall value MUST be one if the UT/local value is one" - inconsistent data
               ELSE IF \E i \in 1..h.isut : b[PUt(o, h, ts) + i - 1] = 1 /\ (h.isstd = 0 \/ b[PStd(o, h, ts) + i - 1] = 0)
                    THEN "UT/local without standard/wall"
               ELSE ""
       oddAbbr(k) == LET a == abbr(k) IN Len(a) < 3 \/ Len(a) > 6 \/ \E q \in 1..Len(a) : ~IsAlnumPM(a[q])
       soft == IF h.leap > 0 THEN "leap-second records"
               ELSE IF \E k \in 1..h.type : b[info(k) + 4] > 1 THEN "isdst > 1"
               ELSE IF \E k \in 1..h.type : oddAbbr(k) THEN "odd abbreviation"
               ELSE IF \E k \in 1..h.type : off(k) < -89999 \/ off(k) > 93599 THEN "offset outside the recommended range"
               ELSE IF \E i \in 1..h.time : Lt(times[i], MinTime) THEN "time below -2^59"
               ELSE IF \E i \in 1..h.isstd : b[PStd(o, h, ts) + i - 1] > 1 THEN "standard/wall indicator > 1"
               ELSE IF \E i \in 1..h.isut : b[PUt(o, h, ts) + i - 1] > 1 THEN "UT/local indicator > 1"
               ELSE ""
   IN [hard |-> hard,
       soft |-> IF hard # "" THEN "" ELSE soft,
       trans |-> IF hard # "" THEN <<>> ELSE [i \in 1..h.time |-> [t |-> times[i], ty |-> tyidx[i] + 1]],
       types |-> IF hard # "" THEN <<>> ELSE [k \in 1..h.type |-> Ty(off(k), b[info(k) + 4] # 0, abbr(k))]]
\* footer: NL, TZ string, NL
ReadFooter(f, v3) ==
   IF Len(f) < 2 \/ f[1] # 10 \/ f[Len(f)] # 10 THEN [hard |-> "footer not enclosed in newlines", soft |-> "", rule |-> NoRule]
   ELSE LET s == SubSeq(f, 2, Len(f) - 1) IN
   IF \E i \in 1..Len(s) : s[i] = 0 THEN [hard |-> "NUL in footer", soft |-> "", rule |-> NoRule]
   ELSE IF s # <<>> /\ s[1] = 58 THEN [hard |-> "footer starts with ':'", soft |-> "", rule |-> NoRule]
   ELSE IF s = <<>> THEN [hard |-> "", soft |-> "", rule |-> NoRule]
   ELSE IF \E i \in 1..Len(s) : IsBlank(s[i]) THEN [hard |-> "", soft |-> "blank inside the footer", rule |-> NoRule]
   ELSE LET p == Parse(s, v3) IN
        IF p.k = "bad" THEN [hard |-> "footer is not a TZ string", soft |-> "", rule |-> NoRule]
        ELSE IF p.k = "unspec" THEN [hard |-> "", soft |-> "footer in a dialect of the TZ grammar", rule |-> NoRule]
        ELSE [hard |-> "", soft |-> "", rule |-> p.rule]
\* RFC 8536 3.3: the footer must agree with the type of the last transition (offset, flag and designation)
FooterAgrees(trans, types, rule) ==
   LET last == trans[Len(trans)] IN SameTy(RuleTypeAt(rule, PairOfBig(last.t)), types[last.ty])
Classify(b) ==
   LET n == Len(b) IN
   IF n < 44 THEN Verdict(MF, IF n >= 4 /\ SubSeq(b, 1, 4) # Magic THEN "bad magic" ELSE "truncated header")
   ELSE IF SubSeq(b, 1, 4) # Magic THEN Verdict(MF, "bad magic")
   ELSE LET v == b[5] IN
   IF v \notin {0, 50, 51} THEN (IF v \in 52..57 THEN Verdict(UN, "later version") ELSE Verdict(MF, "bad version"))
   ELSE LET h1 == Hdr(b, 1) IN
   IF HdrTooBig(h1, n) THEN Verdict(MF, "counts exceed the data")
   ELSE LET e1 == 44 + BlockLen(h1, 4) IN
   IF e1 > n THEN Verdict(MF, "truncated 32-bit block")
   ELSE IF v = 0 THEN
      IF HdrBroken(h1) THEN Verdict(MF, "header counts out of range")
      ELSE LET blk == ReadBlock(b, 1, h1, 4) IN
      IF blk.hard # "" THEN Verdict(MF, blk.hard)
      ELSE LET z == [trans |-> blk.trans, types |-> blk.types, rule |-> NoRule] IN
      IF e1 < n THEN VerdictZ(UN, "data after the version-1 block", z)
      ELSE IF ~ReservedZero(b, 1) THEN VerdictZ(UN, "reserved bytes not zero", z)
      ELSE IF blk.soft # "" THEN VerdictZ(UN, blk.soft, z)
      ELSE VerdictZ(WF, "", z)
   ELSE
      IF n < e1 + 44 THEN Verdict(MF, "truncated second header")
      ELSE IF SubSeq(b, e1 + 1, e1 + 4) # Magic THEN Verdict(MF, "bad magic in the second header")
      ELSE LET v2 == b[e1 + 5] IN
      IF v2 \notin {0, 50, 51} /\ v2 \notin 52..57 THEN Verdict(MF, "bad version in the second header")
      ELSE IF v2 # v THEN Verdict(UN, "versions of the two headers differ")
      ELSE LET h2 == Hdr(b, e1 + 1) IN
      IF HdrTooBig(h2, n) THEN Verdict(MF, "counts exceed the data")
      ELSE LET e2 == e1 + 44 + BlockLen(h2, 8) IN
      IF e2 > n THEN Verdict(MF, "truncated 64-bit block")
      ELSE IF HdrBroken(h2) THEN Verdict(MF, "header counts out of range")
      ELSE LET blk == ReadBlock(b, e1 + 1, h2, 8) IN
      IF blk.hard # "" THEN Verdict(MF, blk.hard)
      ELSE LET ft == ReadFooter(SubSeq(b, e2 + 1, n), v = 51) IN
      IF ft.hard # "" THEN Verdict(MF, ft.hard)
      ELSE IF ft.rule.k # "none" /\ h2.time > 0 /\ blk.soft = ""
              /\ (ft.rule.k = "alt" => Representable(blk.trans[h2.time].t))
              /\ ~FooterAgrees(blk.trans, blk.types, ft.rule) THEN Verdict(MF, "footer contradicts the last transition")
      ELSE LET z == [trans |-> blk.trans, types |-> blk.types, rule |-> ft.rule] IN
      IF HdrBroken(h1) THEN VerdictZ(UN, "header of the ignored version-1 block out of range", z)
      ELSE IF ~ReservedZero(b, 1) \/ ~ReservedZero(b, e1 + 1) THEN VerdictZ(UN, "reserved bytes not zero", z)
      ELSE IF blk.soft # "" THEN VerdictZ(UN, blk.soft, z)
      ELSE IF ft.soft # "" THEN VerdictZ(UN, ft.soft, z)
      ELSE IF ft.rule.k = "alt" /\ h2.time > 0 /\ ~Representable(blk.trans[h2.time].t)
           THEN VerdictZ(UN, "rule footer after a last transition no date can represent", z)
      ELSE IF ft.rule.k # "none" /\ h2.time = 0 /\ ~(ft.rule.k = "fixed" /\ SameTy(ft.rule.std, blk.types[1]))
           THEN VerdictZ(UN, "footer without transitions that is not the first type", z)
      ELSE VerdictZ(WF, "", z)
Decode(b) == Classify(b)
=============================================================================
