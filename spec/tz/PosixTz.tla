------------------------------ MODULE PosixTz ------------------------------
(***************************************************************************)
(* POSIX TZ rules (properties C05 and C16), written from the POSIX text    *)
(* for the TZ environment variable and RFC 8536 section 3.3.1:             *)
(*    std offset [ dst [offset] , start[/time] , end[/time] ]              *)
(* Semantics: rule days (Mm.w.d / Jn / n) through Calendar, the two yearly *)
(* transitions, the type in force at an instant and the wall-clock lookup  *)
(* by candidate offsets (gaps and folds EMERGE from RuleTypeAt).           *)
(* Grammar: Parse(chars, v3) and Show(rule).                               *)
(*                                                                         *)
(* Instants and wall-clock times are pairs <<day number, second of day>>   *)
(* of native integers (day 1 = 0001-01-01, Calendar).                      *)
(* A local time type is [off (seconds east), dst, abbr (bytes)].           *)
(* A rule is   [k |-> "none"]                                              *)
(*           | [k |-> "fixed", std |-> type]                               *)
(*           | [k |-> "alt", std, dst |-> types, start, end |-> rule days, *)
(*                            st, et |-> local transition times (seconds)] *)
(* A rule day is [k |-> "M", m, w, d] | [k |-> "J", n] | [k |-> "Z", n].   *)
(***************************************************************************)
EXTENDS Calendar, Text, FiniteSets
Ty(off, dst, abbr) == [off |-> off, dst |-> dst, abbr |-> abbr]
NoRule == [k |-> "none"]
FixedRule(ty) == [k |-> "fixed", std |-> ty]
AltRule(std, dst, start, st, end, et) == [k |-> "alt", std |-> std, dst |-> dst, start |-> start, st |-> st, end |-> end, et |-> et]
DayM(m, w, d) == [k |-> "M", m |-> m, w |-> w, d |-> d]
DayJ(n) == [k |-> "J", n |-> n]
DayZ(n) == [k |-> "Z", n |-> n]
SameTy(a, b) == a.off = b.off /\ a.dst = b.dst /\ a.abbr = b.abbr
SameDay(a, b) == /\ a.k = b.k
                 /\ IF a.k = "M" THEN a.m = b.m /\ a.w = b.w /\ a.d = b.d ELSE a.n = b.n
SameRule(a, b) == /\ a.k = b.k
                  /\ (a.k = "fixed" => SameTy(a.std, b.std))
                  /\ (a.k = "alt" => /\ SameTy(a.std, b.std) /\ SameTy(a.dst, b.dst)
                                     /\ SameDay(a.start, b.start) /\ SameDay(a.end, b.end)
                                     /\ a.st = b.st /\ a.et = b.et)
\* --- pairs ------------------------------------------------------------------------------------
SPD == 86400
EpochDay == 719163                                   \* 1970-01-01
Norm(day, secs) == <<day + (secs \div SPD), secs % SPD>>
Shift(p, secs)  == Norm(p[1], p[2] + secs)
Leq2(p, q)      == p[1] < q[1] \/ (p[1] = q[1] /\ p[2] <= q[2])
Lt2(p, q)       == p[1] < q[1] \/ (p[1] = q[1] /\ p[2] < q[2])
\* --- rule days --------------------------------------------------------------------------------
\* Jn (1 <= n <= 365): day n of the year, 29 February is never counted (J60 is always 1 March)
\* n  (0 <= n <= 365): zero-based day of the year, leap days counted
\* Mm.w.d: weekday d (0 = Sunday) of week w of month m; week 1 is the first week in which day d occurs, week 5 the last
RuleDayDate(rd, y) ==
  CASE rd.k = "J" -> DayNumber(y, 1, 1) - 1 + rd.n + (IF IsLeap(y) /\ rd.n >= 60 THEN 1 ELSE 0)
    [] rd.k = "Z" -> DayNumber(y, 1, 1) + rd.n
    [] rd.k = "M" -> LET first == DayNumber(y, rd.m, 1)
                         wd0   == (WeekdayOf(first) + 1) % 7                 \* 0 = Sunday
                         d1    == first + ((rd.d - wd0) % 7)
                         cand  == d1 + 7 * (rd.w - 1)
                     IN IF cand > first + DaysInMonth(y, rd.m) - 1 THEN cand - 7 ELSE cand
\* UTC instants of the two yearly transitions: the start time is given in standard time, the end time in daylight time
StartUtc(r, y) == Norm(RuleDayDate(r.start, y), r.st - r.std.off)
EndUtc(r, y)   == Norm(RuleDayDate(r.end, y),   r.et - r.dst.off)
\* years whose transitions can be the last one at or before an instant of year y: times of day are within
\* +-167 h, so the transitions of y-2 .. y+1 bracket every instant of year y
YearsAround(y) == (y - 2)..(y + 1)
IsStartAt(r, u, y) == \E yy \in YearsAround(y) : StartUtc(r, yy) = u
IsEndAt(r, u, y)   == \E yy \in YearsAround(y) : EndUtc(r, yy) = u
\* daylight time is in force at u iff the last start at or before u is later than the last end at or before u
\* (an end that coincides with a start wins: a daylight period of length zero does not exist)
RuleIsDst(r, u) ==
   LET y  == YearOfDay(u[1])
       ss == { s \in { StartUtc(r, yy) : yy \in YearsAround(y) } : Leq2(s, u) }
       es == { e \in { EndUtc(r, yy) : yy \in YearsAround(y) } : Leq2(e, u) }
   IN /\ ss # {}
      /\ LET ls == CHOOSE s \in ss : \A t \in ss : Leq2(t, s) IN \A e \in es : Lt2(e, ls)
RuleTypeAt(r, u) == IF r.k = "fixed" THEN r.std ELSE IF RuleIsDst(r, u) THEN r.dst ELSE r.std
RuleOffsets(r) == IF r.k = "fixed" THEN {r.std.off} ELSE IF r.k = "alt" THEN {r.std.off, r.dst.off} ELSE {}
\* --- wall-clock lookup by candidates ------------------------------------------------------------
\* offsets o such that the instant L - o really has offset o
RuleValidOffsets(r, L) == { o \in RuleOffsets(r) : RuleTypeAt(r, Shift(L, -o)).off = o }
\* is u a transition of the rule whose offset before is `o` and whose offset after differs (C05's open second is u + o)
RuleOpenAt(r, u, o) ==
   /\ r.k = "alt" /\ r.std.off # r.dst.off
   /\ LET y == YearOfDay(u[1]) IN
      \/ o = r.std.off /\ IsStartAt(r, u, y)
      \/ o = r.dst.off /\ IsEndAt(r, u, y)
RuleOpenBoundary(r, L) == \E o \in RuleOffsets(r) : RuleOpenAt(r, Shift(L, -o), o)
\* outcomes: [k |-> "none" | "single" | "amb", o1, o2] (unused fields 0); earliest instant = largest offset first
MaxS(S) == CHOOSE x \in S : \A z \in S : z <= x
MinS(S) == CHOOSE x \in S : \A z \in S : z >= x
OutNone == [k |-> "none", o1 |-> 0, o2 |-> 0]
OutSingle(o) == [k |-> "single", o1 |-> o, o2 |-> 0]
OutAmb(a, b) == [k |-> "amb", o1 |-> a, o2 |-> b]
SameOut(x, y) == x.k = y.k /\ x.o1 = y.o1 /\ x.o2 = y.o2
OutcomeOf(V) == IF V = {} THEN OutNone ELSE IF Cardinality(V) = 1 THEN OutSingle(MaxS(V)) ELSE OutAmb(MaxS(V), MinS(V))
\* the relation C05 states: the one boundary second T + offset_before of a transition that changes the offset is
\* unconstrained, three or more candidates (never produced by a rule) are unconstrained, everything else is exact
OutcomeExplains(V, open, res) == \/ open
                                 \/ Cardinality(V) >= 3
                                 \/ Cardinality(V) <= 2 /\ SameOut(res, OutcomeOf(V))
RuleLocalExplains(r, L, res) == OutcomeExplains(RuleValidOffsets(r, L), RuleOpenBoundary(r, L), res)
\* C05's quantifier: rules whose transitions lie more than one day inside the calendar year - both wall-clock
\* readings (before and after) of both transitions of year y
YearStart(y) == <<DayNumber(y, 1, 1), 0>>
InsideYear(p, y) == Lt2(Shift(YearStart(y), SPD), p) /\ Lt2(p, Shift(YearStart(y + 1), -SPD))
RuleInScopeYear(r, y) == r.k = "alt" =>
   /\ InsideYear(Shift(StartUtc(r, y), r.std.off), y) /\ InsideYear(Shift(StartUtc(r, y), r.dst.off), y)
   /\ InsideYear(Shift(EndUtc(r, y), r.std.off), y)   /\ InsideYear(Shift(EndUtc(r, y), r.dst.off), y)
\* a rule describes a northern (start before end) or a southern year; if that order is not the same in adjacent years
\* (both days in the same month, e.g. M4.4.0 / M4.5.4) the text does not say which of the two periods spans the new year
RuleOrderStable(r, y) == r.k = "alt" =>
   /\ \A yy \in (y - 1)..(y + 1) : StartUtc(r, yy) # EndUtc(r, yy)
   /\ \A yy \in {y - 1, y + 1} : Lt2(StartUtc(r, yy), EndUtc(r, yy)) = Lt2(StartUtc(r, y), EndUtc(r, y))
RuleInScope(r, y) == (\A yy \in (y - 1)..(y + 1) : RuleInScopeYear(r, yy)) /\ RuleOrderStable(r, y)
\* the public API cannot return an instant outside the representable range: such candidates drop out
RuleLocalExplainsIn(r, L, res, lo, hi) ==
   OutcomeExplains({ o \in RuleValidOffsets(r, L) : Shift(L, -o)[1] >= lo /\ Shift(L, -o)[1] <= hi }, RuleOpenBoundary(r, L), res)
\* =================================================================================================
\* Grammar.  Parse(s, v3) = [k |-> "ok", rule |-> r] | [k |-> "bad"] | [k |-> "unspec"].
\*  "ok"     : a string of the two forms named in C16, written the way POSIX / RFC 8536 describe them
\*  "bad"    : no reading of the grammar admits the string
\*  "unspec" : readings differ or the text leaves it open (names longer than 6 characters, more digits than the
\*             field needs, one-digit minutes, daylight time without a rule, the version-3 time extensions in a
\*             string that is not read as version 3, surrounding blanks)
\* -------------------------------------------------------------------------------------------------
PBad == [k |-> "bad"]
PUnspec == [k |-> "unspec"]
IsAlnumPM(c) == IsDigit(c) \/ IsAsciiAlpha(c) \/ c = 43 \/ c = 45
RECURSIVE AlphaEnd(_, _)
AlphaEnd(s, i) == IF IsAsciiAlpha(At(s, i)) THEN AlphaEnd(s, i + 1) ELSE i
RECURSIVE FindFrom(_, _, _)
FindFrom(s, i, c) == IF i > Len(s) THEN i ELSE IF s[i] = c THEN i ELSE FindFrom(s, i + 1, c)
\* a name at position i: [k, next, name]
PName(s, i) ==
   IF At(s, i) = 60 THEN                                        \* '<' quoted form
      LET j == FindFrom(s, i + 1, 62)  nm == SubSeq(s, i + 1, j - 1) IN
      IF j > Len(s) THEN PBad
      ELSE IF Len(nm) < 3 \/ \E q \in 1..Len(nm) : ~IsAlnumPM(nm[q]) THEN PBad
      ELSE IF Len(nm) > 6 THEN PUnspec
      ELSE [k |-> "ok", next |-> j + 1, name |-> nm]
   ELSE LET j == AlphaEnd(s, i)  nm == SubSeq(s, i, j - 1) IN
      IF Len(nm) < 3 THEN PBad
      ELSE IF Len(nm) > 6 THEN PUnspec
      ELSE [k |-> "ok", next |-> j, name |-> nm]
\* an unsigned number of at most `natural` digits at i: [k, next, v]
PNum(s, i, natural) ==
   LET j == DigitsEnd(s, i)  nd == j - i IN
   IF nd = 0 THEN PBad
   ELSE IF nd > natural THEN PUnspec
   ELSE [k |-> "ok", next |-> j, v |-> NumAt(s, i, nd)]
\* [+-]hh[:mm[:ss]] at i: [k, next, v (signed seconds)]; maxH bounds the hour; sign allowed iff signed
PHms(s, i, signed, maxH) ==
   LET c == At(s, i)
       hasSign == c = 43 \/ c = 45
       i1 == IF hasSign THEN i + 1 ELSE i
       h == PNum(s, i1, IF maxH > 99 THEN 3 ELSE 2) IN
   IF hasSign /\ ~signed THEN (IF h.k = "bad" THEN PBad ELSE PUnspec)        \* a sign where only v3 has one
   ELSE IF h.k # "ok" THEN h
   ELSE IF h.v > maxH THEN PBad
   ELSE IF At(s, h.next) # 58 THEN [k |-> "ok", next |-> h.next, v |-> (IF c = 45 THEN -1 ELSE 1) * h.v * 3600]
   ELSE LET m == PNum(s, h.next + 1, 2) IN
      IF m.k # "ok" THEN m
      ELSE IF m.v > 59 THEN PBad
      ELSE IF m.next - (h.next + 1) # 2 THEN PUnspec
      ELSE IF At(s, m.next) # 58 THEN [k |-> "ok", next |-> m.next, v |-> (IF c = 45 THEN -1 ELSE 1) * (h.v * 3600 + m.v * 60)]
      ELSE LET x == PNum(s, m.next + 1, 2) IN
         IF x.k # "ok" THEN x
         ELSE IF x.v > 59 THEN PBad
         ELSE IF x.next - (m.next + 1) # 2 THEN PUnspec
         ELSE [k |-> "ok", next |-> x.next, v |-> (IF c = 45 THEN -1 ELSE 1) * (h.v * 3600 + m.v * 60 + x.v)]
\* the time after '/': plain POSIX 0..24 h unsigned; version 3: signed, up to 167 h.  A string that needs the
\* extension but is not read as version 3 is "unspec" (a lenient reader may take it, chrono refuses it)
PTime(s, i, v3) ==
   IF v3 THEN PHms(s, i, TRUE, 167)
   ELSE LET strict == PHms(s, i, FALSE, 24) IN
        IF strict.k # "bad" THEN strict
        ELSE IF PHms(s, i, TRUE, 167).k = "bad" THEN PBad ELSE PUnspec
\* a rule day with its optional time: [k, next, day, t]
PDay(s, i, v3) ==
   LET c == At(s, i)
       day == IF c = 77 THEN                                       \* 'M'
                 LET m == PNum(s, i + 1, 2) IN
                 IF m.k # "ok" THEN m ELSE IF At(s, m.next) # 46 THEN PBad ELSE
                 LET w == PNum(s, m.next + 1, 1) IN
                 IF w.k # "ok" THEN w ELSE IF At(s, w.next) # 46 THEN PBad ELSE
                 LET d == PNum(s, w.next + 1, 1) IN
                 IF d.k # "ok" THEN d
                 ELSE IF m.v < 1 \/ m.v > 12 \/ w.v < 1 \/ w.v > 5 \/ d.v > 6 THEN PBad
                 ELSE [k |-> "ok", next |-> d.next, day |-> DayM(m.v, w.v, d.v)]
              ELSE IF c = 74 THEN                                  \* 'J'
                 LET n == PNum(s, i + 1, 3) IN
                 IF n.k # "ok" THEN n ELSE IF n.v < 1 \/ n.v > 365 THEN PBad
                 ELSE [k |-> "ok", next |-> n.next, day |-> DayJ(n.v)]
              ELSE LET n == PNum(s, i, 3) IN
                 IF n.k # "ok" THEN n ELSE IF n.v > 365 THEN PBad
                 ELSE [k |-> "ok", next |-> n.next, day |-> DayZ(n.v)] IN
   IF day.k # "ok" THEN day
   ELSE IF At(s, day.next) # 47 THEN [k |-> "ok", next |-> day.next, day |-> day.day, t |-> 7200]      \* default 02:00:00
   ELSE LET t == PTime(s, day.next + 1, v3) IN
        IF t.k # "ok" THEN t ELSE [k |-> "ok", next |-> t.next, day |-> day.day, t |-> t.v]
IsBlank(c) == c = 32 \/ (c >= 9 /\ c <= 13)
Parse(s, v3) ==
   IF s # <<>> /\ (IsBlank(s[1]) \/ IsBlank(s[Len(s)])) THEN PUnspec
   ELSE LET n1 == PName(s, 1) IN
   IF n1.k # "ok" THEN n1 ELSE
   LET o1 == PHms(s, n1.next, TRUE, 24) IN
   IF o1.k # "ok" THEN o1 ELSE
   LET std == Ty(-o1.v, FALSE, n1.name) IN
   IF o1.next > Len(s) THEN [k |-> "ok", rule |-> FixedRule(std)] ELSE
   LET n2 == PName(s, o1.next) IN
   IF n2.k # "ok" THEN n2 ELSE
   IF n2.next > Len(s) THEN PUnspec ELSE                                           \* daylight time without a rule
   LET hasOff == s[n2.next] # 44
       o2 == IF hasOff THEN PHms(s, n2.next, TRUE, 24) ELSE [k |-> "ok", next |-> n2.next, v |-> o1.v - 3600] IN
   IF o2.k # "ok" THEN o2 ELSE
   IF o2.next > Len(s) THEN PUnspec ELSE
   IF s[o2.next] # 44 THEN PBad ELSE
   LET d1 == PDay(s, o2.next + 1, v3) IN
   IF d1.k # "ok" THEN d1 ELSE
   IF At(s, d1.next) # 44 THEN PBad ELSE
   LET d2 == PDay(s, d1.next + 1, v3) IN
   IF d2.k # "ok" THEN d2 ELSE
   IF d2.next <= Len(s) THEN PBad ELSE
   [k |-> "ok", rule |-> AltRule(std, Ty(-o2.v, TRUE, n2.name), d1.day, d1.t, d2.day, d2.t)]
\* --- the writer -----------------------------------------------------------------------------------
ShowName(nm) == IF \A q \in 1..Len(nm) : IsAsciiAlpha(nm[q]) THEN nm ELSE <<60>> \o nm \o <<62>>
ShowHms(v) == LET a == IF v < 0 THEN -v ELSE v
                  h == a \div 3600  m == (a \div 60) % 60  x == a % 60 IN
              (IF v < 0 THEN <<45>> ELSE <<>>) \o DecNat(h)
              \o (IF m # 0 \/ x # 0 THEN <<58>> \o Two(m) ELSE <<>>) \o (IF x # 0 THEN <<58>> \o Two(x) ELSE <<>>)
ShowDay(rd) == CASE rd.k = "M" -> <<77>> \o DecNat(rd.m) \o <<46>> \o DecNat(rd.w) \o <<46>> \o DecNat(rd.d)
                 [] rd.k = "J" -> <<74>> \o DecNat(rd.n)
                 [] rd.k = "Z" -> DecNat(rd.n)
ShowDayTime(rd, t) == ShowDay(rd) \o (IF t = 7200 THEN <<>> ELSE <<47>> \o ShowHms(t))
\* the offset written in a TZ string is west-positive
Show(r) == CASE r.k = "none"  -> <<>>
             [] r.k = "fixed" -> ShowName(r.std.abbr) \o ShowHms(-r.std.off)
             [] r.k = "alt"   -> ShowName(r.std.abbr) \o ShowHms(-r.std.off) \o ShowName(r.dst.abbr)
                                 \o (IF r.dst.off = r.std.off + 3600 THEN <<>> ELSE ShowHms(-r.dst.off))
                                 \o <<44>> \o ShowDayTime(r.start, r.st) \o <<44>> \o ShowDayTime(r.end, r.et)
\* does the rule need the version-3 time extensions?
NeedsV3(r) == r.k = "alt" /\ (r.st < 0 \/ r.st > 24 * 3600 + 3599 \/ r.et < 0 \/ r.et > 24 * 3600 + 3599)
=============================================================================
