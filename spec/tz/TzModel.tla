------------------------------ MODULE TzModel ------------------------------
(***************************************************************************)
(* Time zones as the zone data describes them (property C05).              *)
(*   zone = [trans : Seq([t : BigInt (Unix seconds), ty : 1..Len(types)]), *)
(*           types : Seq([off, dst, abbr]),                                *)
(*           rule  : PosixTz rule ([k |-> "none"] when absent)]            *)
(* The offset at an instant is: the type of the last transition at or      *)
(* before it, the rule after the last transition, the first type before    *)
(* the first transition.  The wall-clock lookup is defined by CANDIDATES:  *)
(* offset o answers wall time L iff the instant L - o really has offset o. *)
(* Nothing here mentions gaps or folds; they emerge from TypeAt, which     *)
(* makes the oracle independent of any per-transition classification.      *)
(***************************************************************************)
EXTENDS PosixTz, BigInt
NTrans(z) == Len(z.trans)
HasRule(z) == z.rule.k # "none"
\* --- 64-bit instants and the rule's <<day, second>> pairs -------------------------------------------
\* The rule only depends on the position inside the 400-year cycle (Calendar: Periodic400), so an arbitrary
\* 64-bit instant is reduced to the cycle that starts on 1970-01-01; all rule arithmetic then stays native.
PairOfBig(u) == LET ds == DivModSmall(u, SPD)
                    cy == DivModSmall(ds[1], 146097)
                IN <<EpochDay + cy[2], ds[2]>>
\* Unix seconds of a naive date-time <<day number, second of day>>
BigOfPair(p) == Add(MulSmall(FromInt(p[1] - EpochDay), SPD), FromInt(p[2]))
\* the instants chrono can represent: -262143-01-01T00:00:00 .. +262142-12-31T23:59:59
MinUtc == BigOfPair(<<MinDay, 0>>)
MaxUtc == BigOfPair(<<MaxDay, SPD - 1>>)
Representable(u) == Leq(MinUtc, u) /\ Leq(u, MaxUtc)
\* --- the offset at an instant ------------------------------------------------------------------------
\* i = number of transitions at or before u.  A hint from the harness is verified, never trusted.
IndexOK(z, u, i) == /\ i \in 0..NTrans(z)
                    /\ (i >= 1 => Leq(z.trans[i].t, u))
                    /\ (i < NTrans(z) => Lt(u, z.trans[i + 1].t))
RECURSIVE IdxSearch(_, _, _, _)
IdxSearch(z, u, lo, hi) == IF lo = hi THEN lo
                           ELSE LET mid == (lo + hi + 1) \div 2 IN
                                IF Leq(z.trans[mid].t, u) THEN IdxSearch(z, u, mid, hi) ELSE IdxSearch(z, u, lo, mid - 1)
IndexOf(z, u) == IdxSearch(z, u, 0, NTrans(z))
\* does the rule govern an instant whose index is i?  (after the last transition; always, when there is none)
RuleGoverns(z, i) == HasRule(z) /\ i = NTrans(z)
TypeAtIdx(z, u, i) == IF RuleGoverns(z, i) THEN RuleTypeAt(z.rule, PairOfBig(u))
                      ELSE IF i = 0 THEN z.types[1]
                      ELSE z.types[z.trans[i].ty]
TypeAt(z, u) == TypeAtIdx(z, u, IndexOf(z, u))
TypeBefore(z, k) == IF k = 1 THEN z.types[1] ELSE z.types[z.trans[k - 1].ty]     \* in force just before transition k
TypeAfter(z, k)  == z.types[z.trans[k].ty]
Offsets(z) == { z.types[k].off : k \in 1..Len(z.types) } \cup RuleOffsets(z.rule)
\* --- wall-clock lookup ---------------------------------------------------------------------------------
\* cand = sequence of [o |-> offset, i |-> index of the instant L - o]; L a BigInt (seconds of the naive local time)
CandOffsets(cand) == { cand[j].o : j \in 1..Len(cand) }
HintsOK(z, L, cand) == /\ CandOffsets(cand) = Offsets(z)
                       /\ \A j \in 1..Len(cand) : IndexOK(z, Sub(L, FromInt(cand[j].o)), cand[j].i)
CandOf(z, L) == LET S == Offsets(z)
                    RECURSIVE Mk2(_)
                    Mk2(T) == IF T = {} THEN <<>> ELSE LET o == CHOOSE x \in T : TRUE IN
                              <<[o |-> o, i |-> IndexOf(z, Sub(L, FromInt(o)))]>> \o Mk2(T \ {o})
                IN Mk2(S)
ValidOffsets(z, L, cand) == { c.o : c \in { cand[j] : j \in 1..Len(cand) } } \cap
                            { o \in CandOffsets(cand) :
                                \E j \in 1..Len(cand) : cand[j].o = o /\ TypeAtIdx(z, Sub(L, FromInt(o)), cand[j].i).off = o }
\* The single boundary second C05 leaves open: L = T + offset_before for a transition T that changes the offset.
\* Through the candidate o = offset_before the instant L - o is exactly that transition.
OpenVia(z, L, c) == LET u == Sub(L, FromInt(c.o)) IN
   IF c.i >= 1 /\ Eq(z.trans[c.i].t, u) THEN TypeBefore(z, c.i).off = c.o /\ TypeAfter(z, c.i).off # c.o
   ELSE RuleGoverns(z, c.i) /\ RuleOpenAt(z.rule, PairOfBig(u), c.o)
OpenBoundary(z, L, cand) == \E j \in 1..Len(cand) : OpenVia(z, L, cand[j])
\* the same set, said directly (design check: both formulations agree on transition tables)
OpenBoundaryDirect(z, L) == \E k \in 1..NTrans(z) :
   TypeBefore(z, k).off # TypeAfter(z, k).off /\ Eq(Add(z.trans[k].t, FromInt(TypeBefore(z, k).off)), L)
LocalExplains(z, L, cand, res) ==
   /\ HintsOK(z, L, cand)
   /\ OutcomeExplains(ValidOffsets(z, L, cand), OpenBoundary(z, L, cand), res)
\* the public API cannot return an instant outside the representable range: such candidates drop out
LocalExplainsRep(z, L, cand, res) ==
   /\ HintsOK(z, L, cand)
   /\ OutcomeExplains({ o \in ValidOffsets(z, L, cand) : Representable(Sub(L, FromInt(o))) }, OpenBoundary(z, L, cand), res)
LocalOutcome(z, L) == OutcomeOf(ValidOffsets(z, L, CandOf(z, L)))
=============================================================================
