------------------------------ MODULE LocalCache ------------------------------
(***************************************************************************)
(* C18 - "Local uses the zone the environment names, and notices changes". *)
(*                                                                         *)
(* The process environment (TZ), the system zone (/etc/localtime), the     *)
(* clock and the per-thread zone cache of `chrono::Local` as a state       *)
(* machine, one action per code-level step:                                *)
(*    SetEnv(v) / Unset    std::env::set_var / remove_var("TZ")            *)
(*    Touch                /etc/localtime is replaced (new mtime, content) *)
(*    Tick                 the clock advances by one tick                  *)
(*    Convert(t, dir)      one conversion through `Local` on thread t      *)
(*    Spawn(t)             thread t is a freshly spawned thread            *)
(*                                                                         *)
(* ZoneOf is the resolution order of the property statement.  The three    *)
(* properties are Fresh, FreshOnNewThread and OneZonePerConversion.        *)
(* The world (TZ values, files, rules) is a parameter: MC_LocalCache uses  *)
(* it with a clock in quarter seconds, Gen_LocalCache to enumerate the     *)
(* histories replayed on the real code, Trace_LocalCache with a clock in   *)
(* measured milliseconds.                                                  *)
(***************************************************************************)
EXTENDS Integers, Sequences, FiniteSets, TLC

CONSTANTS Threads,       \* thread identities
          TicksPerSec,   \* clock ticks per second (4 in the design check, 1000 in trace validation)
          MaxTime,       \* bound of the clock in the design check
          MaxVer,        \* number of times /etc/localtime may be replaced
          EnvVals,       \* the TZ values (keys of Val) that SetEnv may write in this model
          SysChoices,    \* possible system zones: sequences indexed by version+1 of zone ids / NoZone
          Val,           \* key -> [pad, colon, abs, text]: the TZ string is (":" if colon) ++ (absolute prefix if abs) ++ text, blank-padded per pad
          AbsFiles,      \* text -> content, for absolute paths that exist
          RelFiles,      \* text -> content, for names found under the system zoneinfo directories
          Rules          \* text -> zone, for texts that are POSIX TZ rules

Unset   == "UNSET"       \* TZ is not in the environment
UTC     == "UTC"
NoZone  == "NOZONE"      \* /etc/localtime absent or unusable
Garbage == "GARBAGE"     \* content of a file that is not TZif
NoFile  == "NOFILE"
Env     == EnvVals \cup {Unset}
Dirs    == {"utc", "local"}          \* utc -> local (offset of an instant), local -> utc (offsets of a wall-clock reading)

VARIABLES env,          \* current value of TZ (a key of Val) or Unset
          sys,          \* the system zone by version of /etc/localtime (chosen initially, never changes)
          ltver,        \* version (mtime) of /etc/localtime
          now,          \* wall clock in ticks
          cache,        \* [Threads -> cache record]
          changedAt,    \* history: time of the last change of what the environment names
          lastObs       \* history: the last conversion, <<>> or <<record>>
vars == <<env, sys, ltver, now, cache, changedAt, lastObs>>

-----------------------------------------------------------------------------
(* Which zone does the environment name?  (statement of C18, in its order)  *)
\* Resolve(e, sz): e is the value of TZ, sz the system zone (zone of /etc/localtime) or NoZone
FallbackTo(sz) == IF sz # NoZone THEN sz ELSE UTC                       \* "the system zone and finally UTC"
FileAt(x)   == IF x.pad # "" THEN NoFile            \* a blank before or after a path: another string, which names no file
               ELSE IF x.abs THEN (IF x.text \in DOMAIN AbsFiles THEN AbsFiles[x.text] ELSE NoFile)
               ELSE (IF x.text \in DOMAIN RelFiles THEN RelFiles[x.text] ELSE NoFile)   \* relative to the zoneinfo directories
IsTzif(c)   == c # NoFile /\ c # Garbage
Resolve(e, sz) ==
  IF e = Unset THEN FallbackTo(sz)                                     \* TZ unset: the system's /etc/localtime
  ELSE LET x == Val[e] IN
    IF ~x.colon /\ ~x.abs /\ x.text = "" /\ x.pad = "" THEN UTC                      \* TZ empty: UTC
    ELSE IF x.colon THEN (IF IsTzif(FileAt(x)) THEN FileAt(x) ELSE FallbackTo(sz))   \* `:` + path: that TZif file
    ELSE IF FileAt(x) # NoFile THEN (IF IsTzif(FileAt(x)) THEN FileAt(x) ELSE FallbackTo(sz))   \* a file: that TZif file
    ELSE IF ~x.abs /\ x.pad = "" /\ x.text \in DOMAIN Rules THEN Rules[x.text]       \* a POSIX rule: that rule
    ELSE FallbackTo(sz)                                                \* cannot be read or parsed
SysZone(v)   == sys[v + 1]
ZoneOf(e, v) == Resolve(e, SysZone(v))

(* What the cache remembers about where its zone came from: the TZ string, *)
(* or the mtime of /etc/localtime (type-stable record)                     *)
SourceOf(e, v) == IF e = Unset THEN [kind |-> "file", key |-> "", ver |-> v]
                  ELSE [kind |-> "env", key |-> e, ver |-> -1]
NoSrc   == [kind |-> "none", key |-> "", ver |-> -1]
NoCache == [init |-> FALSE, zone |-> NoZone, src |-> NoSrc, last |-> 0]

-----------------------------------------------------------------------------
Init == /\ env \in Env /\ sys \in SysChoices /\ ltver = 0 /\ now = 0
        /\ cache = [t \in Threads |-> NoCache]
        /\ changedAt = -TicksPerSec                         \* the environment has been like this for long
        /\ lastObs = <<>>

\* `at` is the time of the step (the design check uses `now`; trace validation passes measured times)
SetEnvAt(v, at) == /\ env' = v
                   /\ changedAt' = IF v # env THEN at ELSE changedAt
                   /\ UNCHANGED <<sys, ltver, cache, lastObs>>
SetEnv(v) == v \in EnvVals /\ v # env /\ SetEnvAt(v, now) /\ UNCHANGED now
UnsetEnv  == env # Unset /\ SetEnvAt(Unset, now) /\ UNCHANGED now

\* /etc/localtime is replaced: new mtime, possibly new content.  That changes what the environment names
\* only while TZ is unset (a fallback taken earlier is not covered by the statement, see Allowed)
TouchAt(at) == /\ ltver < MaxVer /\ ltver' = ltver + 1
               /\ changedAt' = IF env = Unset THEN at ELSE changedAt
               /\ UNCHANGED <<env, sys, cache, lastObs>>
Touch == TouchAt(now) /\ UNCHANGED now

Advance(k) == /\ now + k <= MaxTime /\ now' = now + k
              /\ UNCHANGED <<env, sys, ltver, cache, changedAt, lastObs>>
Tick == Advance(1)

(* The zones a conversion may use once the last change is old enough: the  *)
(* zone the environment names now.  While TZ holds something unusable the  *)
(* statement sends us to "the system zone"; it does not say that a         *)
(* replacement of /etc/localtime must be noticed in that situation, so any *)
(* version of the system zone is allowed there.  (The design check shows   *)
(* why the slack is needed: the cache recognises its source by the TZ      *)
(* string, so TZ = garbage, convert, TZ = x, replace /etc/localtime,       *)
(* TZ = garbage again within one second keeps the old system zone for      *)
(* good on that thread - an A-B-A history; confirmed on the real code and  *)
(* reported as an observation, not demanded here.)                         *)
Allowed == IF env = Unset THEN {ZoneOf(env, ltver)}
           ELSE {ZoneOf(env, v) : v \in 0..ltver}

(* One conversion, starting from cache record c of thread t, at time `at`. *)
(* The cache algorithm: a thread's first conversion loads the zone; later  *)
(* ones reuse the cached zone while the last CHECK is less than a second   *)
(* old, otherwise compare the source with the remembered one, reload if it *)
(* differs, and remember the time of this check.  mayReuse / mayRefresh    *)
(* say which of the two the timing permits (exactly one of them in the     *)
(* design check; both inside the fuzzy band of trace validation).          *)
Load(at)       == [init |-> TRUE, zone |-> ZoneOf(env, ltver), src |-> SourceOf(env, ltver), last |-> at]
Refresh(c, at) == LET ns == SourceOf(env, ltver) IN
                  [init |-> TRUE, zone |-> IF ns # c.src THEN ZoneOf(env, ltver) ELSE c.zone, src |-> ns, last |-> at]
ConvCore(t, c, dir, at, mayReuse, mayRefresh) ==
  /\ \/ ~c.init /\ cache' = [cache EXCEPT ![t] = Load(at)]
     \/ c.init /\ mayReuse /\ cache' = [cache EXCEPT ![t] = c]
     \/ c.init /\ mayRefresh /\ cache' = [cache EXCEPT ![t] = Refresh(c, at)]
  /\ lastObs' = <<[thr |-> t, dir |-> dir,
                   zone |-> cache'[t].zone,                      \* the zone whose data answered this conversion
                   fresh |-> ~c.init,                            \* made by a thread without a cache
                   late |-> at - changedAt >= TicksPerSec,       \* made at least one second after the last change
                   allowed |-> Allowed,
                   named |-> ZoneOf(env, ltver),
                   prev |-> c.zone]>>
  /\ UNCHANGED <<env, sys, ltver, changedAt>>
Convert(t, dir) == /\ ConvCore(t, cache[t], dir, now, now - cache[t].last < TicksPerSec, now - cache[t].last >= TicksPerSec)
                   /\ UNCHANGED now
Spawn(t) == /\ cache[t].init /\ cache' = [cache EXCEPT ![t] = NoCache]      \* thread-local state of a new thread
            /\ UNCHANGED <<env, sys, ltver, now, changedAt, lastObs>>
\* a conversion on a thread spawned for it
SpawnConvert(t, dir) == ConvCore(t, NoCache, dir, now, FALSE, FALSE) /\ UNCHANGED now

Next == \/ \E v \in EnvVals : SetEnv(v)
        \/ UnsetEnv \/ Touch \/ Tick
        \/ \E t \in Threads, d \in Dirs : Convert(t, d)
        \/ \E t \in Threads : Spawn(t)
Spec == Init /\ [][Next]_vars

-----------------------------------------------------------------------------
(* The property.                                                           *)
\* a conversion made at least one second after the last change uses the zone the environment names
FreshObs(o) == o.late => o.zone \in o.allowed
\* a conversion on a thread that has no cache yet is always current
FreshOnNewThreadObs(o) == o.fresh => o.zone = o.named
\* one conversion is answered from one zone: the one the thread held or the one named now - never anything else
OneZoneObs(o) == o.zone = o.named \/ (~o.fresh /\ o.zone = o.prev)
Fresh                == lastObs # <<>> => FreshObs(lastObs[1])
FreshOnNewThread     == lastObs # <<>> => FreshOnNewThreadObs(lastObs[1])
OneZonePerConversion == lastObs # <<>> => OneZoneObs(lastObs[1])

TypeOK == /\ env \in Env /\ sys \in SysChoices /\ ltver \in 0..MaxVer /\ now \in 0..MaxTime
          /\ \A t \in Threads : cache[t].init \in BOOLEAN /\ cache[t].last \in 0..MaxTime
          /\ Len(lastObs) <= 1
=============================================================================
