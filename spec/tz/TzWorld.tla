------------------------------ MODULE TzWorld ------------------------------
(***************************************************************************)
(* The concrete little world in which the C18 histories run: the TZ values *)
(* a history may write, what exists in the file system, which texts are    *)
(* POSIX rules, and the zones with their offsets.  The orchestrator        *)
(* (tools/propdefs/c18.py) creates exactly this world under work/C18 at    *)
(* run time from the WORLD line printed by Gen_LocalCache - the TZif files *)
(* are *generated from this module*, nothing is read back from chrono.     *)
(*                                                                         *)
(* Every zone has one transition at (or, for B, shortly after) the instant *)
(* T0 = 2021-03-28T01:00:00Z (times below are relative to T0) from offset  *)
(* `before` to `after`; the                                                *)
(* conversions of a history all use the probe T0 + 10 s, as an instant     *)
(* (utc -> local) or as a wall-clock reading (local -> utc).  All offsets  *)
(* are pairwise distinct, so ONE observed offset identifies the zone AND   *)
(* the direction of the lookup that produced it.                           *)
(***************************************************************************)
EXTENDS Integers, Sequences, FiniteSets

Probe == 10                       \* seconds after T0
T0Unix == 1616893200              \* 2021-03-28T01:00:00Z (the instant Europe/Berlin switched to summer time)

WZones ==                         \* zone id -> model; names are the TZif designations
  [ UTC |-> [t0 |-> 0, before |-> 0,      after |-> 0,      nb |-> "UTC", na |-> "UTC"],
    A   |-> [t0 |-> 0, before |-> 3661,   after |-> 7322,   nb |-> "AAB", na |-> "AAC"],   \* +01:01:01 -> +02:02:02
    B   |-> [t0 |-> 110, before |-> -14706, after |-> -11045, nb |-> "BBB", na |-> "BBC"], \* -04:05:06 -> -03:04:05, 100 s after the probe:
                                                                                           \* west of Greenwich the wall-clock reading is the later one
    F   |-> [t0 |-> 0, before |-> 32949,  after |-> 32949,  nb |-> "FFF", na |-> "FFF"],   \* fixed +09:09:09
    R   |-> [t0 |-> 0, before |-> 10983,  after |-> 14644,  nb |-> "AAA", na |-> "BBB"],   \* the POSIX rule below
    BER |-> [t0 |-> 0, before |-> 3600,   after |-> 7200,   nb |-> "CET", na |-> "CEST"],  \* Europe/Berlin, a fact of the tz database
    S1  |-> [t0 |-> 0, before |-> 18305,  after |-> 21966,  nb |-> "SAB", na |-> "SAC"],   \* system zone in the private namespace
    S2  |-> [t0 |-> 0, before |-> 25627,  after |-> 29288,  nb |-> "SBB", na |-> "SBC"] ]  \* ... after /etc/localtime was replaced

\* DST begins on Julian day 87 (28 March) at 04:03:03 local standard time = 01:00:00 UTC = T0
RuleText == "AAA-3:03:03BBB-4:04:04,J87/4:03:03,J300/0"

\* TZ values: the real string is  (":" if colon) ++ (<zone directory of the run> ++ "/" if abs) ++ text, with one ASCII blank
\* in front of it (pad = "pre") or behind it (pad = "post"): a blank-padded path is a DIFFERENT string, it names no file
WVal ==
  [ absA         |-> [pad |-> "", colon |-> FALSE, abs |-> TRUE,  text |-> "A.tzif"],          \* absolute file path
    colonB       |-> [pad |-> "", colon |-> TRUE,  abs |-> TRUE,  text |-> "B.tzif"],          \* `:` + absolute path
    name         |-> [pad |-> "", colon |-> FALSE, abs |-> FALSE, text |-> "Europe/Berlin"],   \* name under the zoneinfo directories
    rule         |-> [pad |-> "", colon |-> FALSE, abs |-> FALSE, text |-> RuleText],          \* POSIX rule
    empty        |-> [pad |-> "", colon |-> FALSE, abs |-> FALSE, text |-> ""],                \* empty
    garbage      |-> [pad |-> "", colon |-> FALSE, abs |-> FALSE, text |-> "garbage!!"],       \* neither a file nor a rule
    colonName    |-> [pad |-> "", colon |-> TRUE,  abs |-> FALSE, text |-> "Europe/Berlin"],
    fixedF       |-> [pad |-> "", colon |-> FALSE, abs |-> TRUE,  text |-> "F.tzif"],
    colonMissing |-> [pad |-> "", colon |-> TRUE,  abs |-> TRUE,  text |-> "missing.tzif"],    \* unreadable
    missing      |-> [pad |-> "", colon |-> FALSE, abs |-> TRUE,  text |-> "missing.tzif"],    \* unreadable, and not a rule either
    badfile      |-> [pad |-> "", colon |-> FALSE, abs |-> TRUE,  text |-> "G.tzif"],          \* readable, not a TZif file
    colonRule    |-> [pad |-> "", colon |-> TRUE,  abs |-> FALSE, text |-> "AAA-3:03:03"],     \* `:` announces a file, never a rule
    colonFullRule |-> [pad |-> "", colon |-> TRUE, abs |-> FALSE, text |-> RuleText],           \* ... not even the text that IS the value `rule`
    preAbsA      |-> [pad |-> "pre",  colon |-> FALSE, abs |-> TRUE,  text |-> "A.tzif"],       \* " /dir/A.tzif": no such file, no rule
    postAbsA     |-> [pad |-> "post", colon |-> FALSE, abs |-> TRUE,  text |-> "A.tzif"],       \* "/dir/A.tzif "
    preColonB    |-> [pad |-> "pre",  colon |-> TRUE,  abs |-> TRUE,  text |-> "B.tzif"],       \* " :/dir/B.tzif"
    blank        |-> [pad |-> "pre",  colon |-> FALSE, abs |-> FALSE, text |-> ""] ]            \* " ": not empty, names nothing

\* (the orchestrator writes zone B's file with 9000 earlier no-op transitions, i.e. larger than 64 KiB: a file of any size is that file)
WGarbage == "GARBAGE"
WAbsFiles == [ x \in {"A.tzif", "B.tzif", "F.tzif", "G.tzif"} |->
                 CASE x = "A.tzif" -> "A" [] x = "B.tzif" -> "B" [] x = "F.tzif" -> "F" [] OTHER -> WGarbage ]
WRelFiles == [ x \in {"Europe/Berlin"} |-> "BER" ]
WRules    == [ x \in {RuleText, "AAA-3:03:03"} |-> IF x = RuleText THEN "R" ELSE "R0" ]

\* what a lookup of the probe yields in zone z (a small instance of the C05 model: one transition, no gap or fold at the probe)
OffUtc(z) == LET m == WZones[z] IN IF Probe >= m.t0 THEN m.after ELSE m.before
LocalCands(z) == LET m == WZones[z] IN
   {o \in {m.before, m.after} : \/ o = m.before /\ Probe - o < m.t0
                                \/ o = m.after  /\ Probe - o >= m.t0}
Obs(z, dir) == IF dir = "utc" THEN [single |-> OffUtc(z)]
               ELSE LET c == LocalCands(z) IN
                    IF Cardinality(c) = 1 THEN [single |-> CHOOSE o \in c : TRUE] ELSE [unspecified |-> 1]

ZoneIds == DOMAIN WZones
\* every (zone, direction) pair is told apart by its offset, except that a zone without a transition (UTC, F) answers alike in both directions
ASSUME \A z1, z2 \in ZoneIds : \A d1, d2 \in {"utc", "local"} :
          (Obs(z1, d1) = Obs(z2, d2)) => (z1 = z2 /\ (d1 = d2 \/ WZones[z1].before = WZones[z1].after))
ASSUME \A z \in ZoneIds : "single" \in DOMAIN Obs(z, "local")
ASSUME Obs("A", "utc") = [single |-> 7322] /\ Obs("A", "local") = [single |-> 3661]
=============================================================================
