//! Generates the workload (`src/w/*.rs`) and replayer (`src/r/*.rs`) registries so that adding a
//! property means adding files only.
use std::{env, fs, path::Path};

fn gen(dir: &str, out_name: &str, sig: &str, call: &str) {
    let root = env::var("CARGO_MANIFEST_DIR").unwrap();
    let d = Path::new(&root).join("src").join(dir);
    let mut mods: Vec<String> = fs::read_dir(&d).unwrap().filter_map(|e| {
        let n = e.unwrap().file_name().into_string().unwrap();
        if n.ends_with(".rs") && n != "mod.rs" { Some(n.trim_end_matches(".rs").to_string()) } else { None }
    }).collect();
    mods.sort();
    let mut s = String::new();
    for m in &mods {
        s += &format!("#[path = \"{}/{}.rs\"] pub mod {};\n", d.display(), m, m);
    }
    s += &format!("pub fn dispatch(name: &str, {}) -> Option<serde_json::Value> {{\n    match name.to_ascii_lowercase().as_str() {{\n", sig);
    for m in &mods {
        s += &format!("        \"{}\" => Some({}::run({})),\n", m, m, call);
    }
    s += "        _ => None,\n    }\n}\n";
    s += &format!("pub const NAMES: &[&str] = &[{}];\n", mods.iter().map(|m| format!("\"{}\"", m)).collect::<Vec<_>>().join(", "));
    fs::write(Path::new(&env::var("OUT_DIR").unwrap()).join(out_name), s).unwrap();
    println!("cargo:rerun-if-changed=src/{}", dir);
}

fn main() {
    gen("w", "workloads.rs", "ctx: &Ctx", "ctx");
    gen("r", "replayers.rs", "path: &str", "path");
    println!("cargo:rerun-if-changed=build.rs");
}
