//! C02: Unix timestamps and UTC date-times correspond one-to-one.
use super::Ctx;
use crate::big::big;
use crate::ev;
use crate::out::Tw;
use crate::proj::*;
use crate::rng::Rng;
use crate::w::c01::{MAX_DAY, MIN_DAY};
use chrono::{DateTime, NaiveDateTime, TimeZone, Utc};
use serde_json::{json, Value};
use std::time::{Duration, SystemTime, UNIX_EPOCH};

pub const EPOCH_DAY: i128 = 719_163;
pub fn min_ns() -> i128 { (MIN_DAY as i128 - EPOCH_DAY) * 86_400 * NS }
pub fn max_ns() -> i128 { ((MAX_DAY as i128 - EPOCH_DAY) * 86_400 + 86_399) * NS + 999_999_999 }
fn odt(o: Option<DateTime<Utc>>) -> Value { opt(o, |d| ndt(d.naive_utc())) }

/// cycle numbers: all of them in the thorough tier, the ones around 0, the epoch and both range ends (plus a spread) in the quick tier
pub fn cycle_ks(extra: usize) -> Vec<i64> {
    if extra >= 4000 { (-656..=656).collect() } else { let mut v: Vec<i64> = vec![-656, -655, -654, -3, -2, -1, 0, 1, 2, 4, 5, 6, 654, 655, 656]; v.extend((-650..650).step_by(97)); v }
}

pub fn dt_lattice(rng: &mut Rng, extra: usize, leap: bool) -> Vec<NaiveDateTime> {
    let days: Vec<i64> = vec![MIN_DAY, MIN_DAY + 1, -1, 0, 1, 365, 366, 612_410, 612_411, 612_412, 719_162, 719_163, 719_164, 730_119, 730_120, 736_694, 825_913, 825_914, 825_915, MAX_DAY - 1, MAX_DAY];
    let secs: Vec<u32> = vec![0, 1, 59, 60, 43_200, 86_340, 86_398, 86_399];
    let fracs: Vec<u32> = if leap { vec![0, 1, 999_999_999, 1_000_000_000, 1_500_000_000, 1_999_999_999] } else { vec![0, 1, 500_000_000, 999_999_999] };
    let mut v = Vec::new();
    for &n in &days { for &s in &secs { for &f in &fracs { v.push(mk_ndt(n, s, f)); } } }
    for _ in 0..extra {
        let f = if leap && rng.chance(1, 4) { rng.range(1_000_000_000, 1_999_999_999) } else { rng.range(0, 999_999_999) } as u32;
        let n = if rng.chance(1, 2) { rng.range(MIN_DAY, MAX_DAY) } else { rng.range(577_000, 830_000) };
        v.push(mk_ndt(n, rng.range(0, 86_399) as u32, f));
    }
    // the seams of the 400-year cycle in both conventions (day number = 0 mod 146 097, and 1 January of the years 400 k): a day-count
    // decomposition by truncating instead of floor division, or a table index computed at the seam, goes wrong exactly there
    for k in cycle_ks(extra) { for base in [0i64, -365] { for d in [-1i64, 0, 1] {
        let n = 146_097 * k + base + d;
        if n >= MIN_DAY && n <= MAX_DAY { v.push(mk_ndt(n, 45_296, 0)); }
    } } }
    // every binary scale of the range (thinned below the thorough tier)
    let sd = scale_days();
    for (i, n) in sd.iter().enumerate() { if extra >= 4000 || i % 5 == 0 { v.push(mk_ndt(*n, 45_296, if leap && i % 4 == 0 { 1_500_000_000 } else { 7 })); } }
    // the ends of the i64-nanosecond window
    v.push(mk_ndt(825_914, 85_636, 854_775_807)); v.push(mk_ndt(825_914, 85_636, 854_775_808));
    v.push(mk_ndt(612_411, 763, 145_224_192)); v.push(mk_ndt(612_411, 763, 145_224_191));
    v
}

pub fn run(ctx: &Ctx) -> Value {
    let mut tw = Tw::new(&ctx.out, "Trace_Instant", ctx.t(2_500, 15_000));
    let mut rng = Rng::new(ctx.seed ^ 0x02);
    let units: [(&str, i128); 4] = [("s", NS), ("ms", 1_000_000), ("us", 1000), ("ns", 1)];
    let mut n_from = 0;
    for (name, u) in units {
        let lo = min_ns().div_euclid(u);
        let hi = max_ns().div_euclid(u);
        let mut cs: Vec<i128> = vec![0, 1, -1, 999, -999, 1000, -1000, 1001, -1001, 86_399_999_999_999, -86_399_999_999_999, 86_400_000_000_000, -86_400_000_000_001,
            i64::MIN as i128, i64::MIN as i128 + 1, i64::MAX as i128 - 1, i64::MAX as i128, (i64::MAX as i128).div_euclid(u), (i64::MIN as i128).div_euclid(u),
            (i64::MAX as i128).div_euclid(u) + 1, (i64::MIN as i128).div_euclid(u) - 1];
        for d in -2..=2 { cs.push(lo + d); cs.push(hi + d); }
        // counts that fall on the seams of the 400-year cycle (1 January of a year 400 k, and day number 146 097 k), at noon and at midnight
        for k in cycle_ks(ctx.t(0, 4000)) { for base in [0i128, -365] { for secs in [0i128, 45_296, -1] {
            let c = ((146_097 * k as i128 + base - EPOCH_DAY) * 86_400 + secs) * NS;
            if c >= min_ns() && c <= max_ns() { cs.push(c.div_euclid(u)); }
        } } }
        for _ in 0..ctx.t(300, 20_000) {
            cs.push(match rng.below(3) { 0 => rng.loguniform(63) as i128, 1 => rng.next() as i64 as i128, _ => lo + (rng.next() as i128 % (hi - lo + 1)) });
        }
        for c in cs {
            if c < i64::MIN as i128 || c > i64::MAX as i128 { continue; }
            let c64 = c as i64;
            // every route to the same conversion, the deprecated NaiveDateTime constructors included (still public)
            let apis: &[&str] = match name { "s" => &["from_timestamp", "timestamp_opt", "naive_from_timestamp_opt", "fixed_timestamp_opt"], "ms" => &["from_timestamp_millis", "timestamp_millis_opt", "naive_from_timestamp_millis"],
                                            "us" => &["from_timestamp_micros", "timestamp_micros", "naive_from_timestamp_micros", "fixed_timestamp_micros"], _ => &["from_timestamp_nanos", "timestamp_nanos", "naive_from_timestamp_nanos"] };
            for api in apis {
                tw.emit(ev("ts.from", json!({"c": big(c), "unit": big(u), "api": api}), || json!({"r": match *api {
                    "from_timestamp" => odt(DateTime::from_timestamp(c64, 0)), "timestamp_opt" => odt(Utc.timestamp_opt(c64, 0).single()),
                    "from_timestamp_millis" => odt(DateTime::from_timestamp_millis(c64)), "timestamp_millis_opt" => odt(Utc.timestamp_millis_opt(c64).single()),
                    "from_timestamp_micros" => odt(DateTime::from_timestamp_micros(c64)), "timestamp_micros" => odt(Utc.timestamp_micros(c64).single()),
                    "from_timestamp_nanos" => odt(Some(DateTime::from_timestamp_nanos(c64))), "timestamp_nanos" => odt(Some(Utc.timestamp_nanos(c64))),
                    "naive_from_timestamp_opt" => { #[allow(deprecated)] let r = NaiveDateTime::from_timestamp_opt(c64, 0); opt(r, ndt) }
                    "naive_from_timestamp_millis" => { #[allow(deprecated)] let r = NaiveDateTime::from_timestamp_millis(c64); opt(r, ndt) }
                    "naive_from_timestamp_micros" => { #[allow(deprecated)] let r = NaiveDateTime::from_timestamp_micros(c64); opt(r, ndt) }
                    "naive_from_timestamp_nanos" => { #[allow(deprecated)] let r = NaiveDateTime::from_timestamp_nanos(c64); opt(r, ndt) }
                    "fixed_timestamp_opt" => opt(chrono::FixedOffset::east_opt(3600).unwrap().timestamp_opt(c64, 0).single(), |d| ndt(d.naive_utc())),
                    _ => opt(chrono::FixedOffset::west_opt(7200).unwrap().timestamp_micros(c64).single(), |d| ndt(d.naive_utc())) }})));
                n_from += 1;
            }
        }
    }
    // seconds + nanosecond field
    let lo_s = min_ns().div_euclid(NS) as i64;
    let hi_s = max_ns().div_euclid(NS) as i64;
    let mut ss: Vec<i64> = vec![0, -1, 1, 58, 59, 60, -2, -61, 119, 1_483_228_799, 1_483_228_800, lo_s - 1, lo_s, lo_s + 59, hi_s - 60, hi_s - 1, hi_s, hi_s + 1, i64::MIN, i64::MAX];
    for _ in 0..ctx.t(200, 5_000) { let s = rng.range(lo_s, hi_s); ss.push(s); ss.push(s - s.rem_euclid(60) + 59); }
    for &s in &ss { for nn in [0u32, 1, 999_999_999, 1_000_000_000, 1_000_000_001, 1_999_999_999, 2_000_000_000, u32::MAX] {
        tw.emit(ev("ts.from2", json!({"s": big(s as i128), "nn": big(nn as i128)}), || json!({"r": odt(DateTime::from_timestamp(s, nn))})));
        if nn % 3 == 0 { tw.emit(ev("ts.from2", json!({"s": big(s as i128), "nn": big(nn as i128)}), || json!({"r": odt(Utc.timestamp_opt(s, nn).single())}))); }
    }}
    // reading back
    let dts = dt_lattice(&mut rng, ctx.t(3_000, 200_000), false);
    for &x in &dts {
        let u = x.and_utc();
        tw.emit(ev("dt.ts", json!({"dt": ndt(x)}), || json!({"s": big(u.timestamp() as i128), "ms": big(u.timestamp_millis() as i128), "us": big(u.timestamp_micros() as i128),
            "ns": opt(u.timestamp_nanos_opt(), |v| big(v as i128))})));
    }
    for &x in dt_lattice(&mut rng, ctx.t(100, 5_000), true).iter() {
        let u = x.and_utc();
        // the timestamp accessors on leap-second values too (the deprecated NaiveDateTime forms are a second route)
        if x.and_utc().timestamp_subsec_nanos() >= 1_000_000_000 {
            tw.emit(ev("dt.ts", json!({"dt": ndt(x)}), || json!({"s": big(u.timestamp() as i128), "ms": big(u.timestamp_millis() as i128), "us": big(u.timestamp_micros() as i128),
                "ns": opt(u.timestamp_nanos_opt(), |v| big(v as i128))})));
            #[allow(deprecated)]
            tw.emit(ev("dt.ts", json!({"dt": ndt(x), "route": "naive"}), || json!({"s": big(x.timestamp() as i128), "ms": big(x.timestamp_millis() as i128), "us": big(x.timestamp_micros() as i128),
                "ns": opt(x.timestamp_nanos_opt(), |v| big(v as i128))})));
        }
        tw.emit(ev("dt.subsec", json!({"dt": ndt(x)}), || json!({"ns": u.timestamp_subsec_nanos(), "us": u.timestamp_subsec_micros(), "ms": u.timestamp_subsec_millis()})));
    }
    // the system clock type
    let mut n_sys = 0;
    for _ in 0..ctx.t(2_000, 50_000) {
        let s = match rng.below(4) { 0 => rng.range(lo_s, hi_s), 1 => rng.range(-4_000_000_000, 4_000_000_000), 2 => *rng.pick(&[lo_s, lo_s + 1, hi_s - 1, hi_s, 0, -1, 1]), _ => rng.loguniform(42) };
        let nn = *rng.pick(&[0u32, 1, 500_000_000, 999_999_999]);
        if s < lo_s || s > hi_s { continue; }
        let st = if s >= 0 { UNIX_EPOCH + Duration::new(s as u64, nn) } else { UNIX_EPOCH - Duration::new((-s) as u64, 0) + Duration::new(0, nn) };
        tw.emit(ev("sys.rt", json!({"s": big(s as i128), "nn": big(nn as i128)}), || { let d: DateTime<Utc> = st.into(); let back: SystemTime = d.into();
            json!({"dt": ndt(d.naive_utc()), "back": back == st}) }));
        n_sys += 1;
    }
    // date-time -> system clock: the instant is preserved (a leap second folds into the following second, which the system
    // clock type cannot tell apart), before and after the epoch, at any offset
    for &x in dt_lattice(&mut rng, ctx.t(150, 20_000), true).iter() {
        let off = *rng.pick(&[0i32, 3600, -3600, 86_399]);
        let z = chrono::FixedOffset::east_opt(off).unwrap().from_utc_datetime(&x);
        tw.emit(ev("dt.sys", json!({"dt": ndt(x), "off": off}), || { let st: SystemTime = z.into();
            let ns: i128 = match st.duration_since(UNIX_EPOCH) { Ok(d) => d.as_nanos() as i128, Err(e) => -(e.duration().as_nanos() as i128) };
            json!({"r": big(ns)}) }));
    }
    tw.finish();
    json!({"events": tw.total, "from_timestamp_events": n_from, "read_back_events": dts.len(), "system_time_events": n_sys})
}
