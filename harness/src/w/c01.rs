//! C01: calendar, ordinal, ISO-week and day-count forms of a date agree.
use super::Ctx;
use crate::big::big;
use crate::out::Tw;
use crate::proj::*;
use crate::rng::Rng;
use crate::ev;
use chrono::{Datelike, NaiveDate, Weekday};
use serde_json::{json, Value};
use std::sync::atomic::{AtomicU64, Ordering};
use std::sync::Mutex;

pub const MIN_DAY: i64 = -95_746_129;
pub const MAX_DAY: i64 = 95_745_399;
const CYCLE: i64 = 146_097;
// base window: 2000-01-01 .. 2399-12-31
const BASE_LO: i64 = 730_120;

/// Every observable form of one date, including what the other three constructors return on the
/// read-back fields, so that each constructor is judged by the specification.
pub fn date_event(d: NaiveDate) -> Value {
    let n = dn(d);
    ev("date", json!({"n": n}), || {
        let iw = d.iso_week();
        json!({
        "y": d.year(), "m": d.month(), "d": d.day(), "o": d.ordinal(), "wd": wd(d.weekday()),
        "m0": d.month0(), "d0": d.day0(), "o0": d.ordinal0(),
        "iy": iw.year(), "iw": iw.week(), "iw0": iw.week0(), "leap": d.leap_year(),
        "succ": odn(d.succ_opt()), "pred": odn(d.pred_opt()),
        "ymd": odn(NaiveDate::from_ymd_opt(d.year(), d.month(), d.day())),
        "yo": odn(NaiveDate::from_yo_opt(d.year(), d.ordinal())),
        "iso": odn(NaiveDate::from_isoywd_opt(iw.year(), iw.week(), d.weekday())),
        "days": odn(NaiveDate::from_num_days_from_ce_opt(n as i32)),
    })})
}

#[derive(PartialEq, Eq, Clone, Copy)]
struct Forms { y: i32, m: u32, d: u32, o: u32, wd: u32, iy: i32, iw: u32 }
fn forms(d: NaiveDate) -> Forms {
    let iw = d.iso_week();
    Forms { y: d.year(), m: d.month(), d: d.day(), o: d.ordinal(), wd: d.weekday().num_days_from_monday(), iy: iw.year(), iw: iw.week() }
}

/// Walks every representable date once (by day number) and checks, in Rust, only the periodic
/// extension relation to the date a whole number of 400-year cycles away inside the base window,
/// plus the constructor round trip. Dates that break the relation are returned so that they are
/// handed to TLC as ordinary `date` events: the specification, not this loop, is the judge.
pub fn sweep(threads: usize) -> (u64, Vec<i64>) {
    let bad: Mutex<Vec<i64>> = Mutex::new(Vec::new());
    let count = AtomicU64::new(0);
    let total = MAX_DAY - MIN_DAY + 1;
    let per = (total + threads as i64 - 1) / threads as i64;
    std::thread::scope(|s| {
        for t in 0..threads as i64 {
            let bad = &bad;
            let count = &count;
            s.spawn(move || {
                let lo = MIN_DAY + t * per;
                let hi = (lo + per - 1).min(MAX_DAY);
                let mut local_bad = Vec::new();
                let mut c = 0u64;
                let mut prev: Option<NaiveDate> = None;
                for n in lo..=hi {
                    c += 1;
                    let r = crate::guard(|| {
                        let d = match NaiveDate::from_num_days_from_ce_opt(n as i32) { Some(d) => d, None => return false };
                        let k = (n - BASE_LO).div_euclid(CYCLE);
                        let b = NaiveDate::from_num_days_from_ce_opt((n - k * CYCLE) as i32).unwrap();
                        let (f, g) = (forms(d), forms(b));
                        let shift = (400 * k) as i32;
                        let periodic = f.y == g.y + shift && f.m == g.m && f.d == g.d && f.o == g.o && f.wd == g.wd
                            && f.iy == g.iy + shift && f.iw == g.iw && d.leap_year() == b.leap_year();
                        let iw = d.iso_week();
                        let round = d.num_days_from_ce() as i64 == n
                            && NaiveDate::from_ymd_opt(f.y, f.m, f.d) == Some(d)
                            && NaiveDate::from_yo_opt(f.y, f.o) == Some(d)
                            && NaiveDate::from_isoywd_opt(iw.year(), iw.week(), d.weekday()) == Some(d);
                        // the successor chain visits the same dates in the same order
                        let chain = match prev { Some(p) => p.succ_opt() == Some(d) && d.pred_opt() == Some(p) && p < d, None => true };
                        prev = Some(d);
                        periodic && round && chain
                    });
                    if r != Ok(true) && local_bad.len() < 400 {
                        local_bad.push(n);
                        prev = crate::guard(|| NaiveDate::from_num_days_from_ce_opt(n as i32)).ok().flatten();
                    }
                }
                count.fetch_add(c, Ordering::Relaxed);
                bad.lock().unwrap().extend(local_bad);
            });
        }
    });
    let mut b = bad.into_inner().unwrap();
    b.sort();
    (count.load(Ordering::Relaxed), b)
}

fn year_days(y: i32) -> std::ops::RangeInclusive<i64> {
    days_from_civil(y, 1, 1)..=days_from_civil(y, 12, 31)
}

fn ymd_event(y: i32, m: u32, d: u32) -> Value {
    ev("ymd", json!({"y": y, "m": big(m as i128), "d": big(d as i128)}), || json!(odn(NaiveDate::from_ymd_opt(y, m, d))))
}
fn yo_event(y: i32, o: u32) -> Value {
    ev("yo", json!({"y": y, "o": big(o as i128)}), || json!(odn(NaiveDate::from_yo_opt(y, o))))
}
fn iso_event(y: i32, w: u32, wdi: i64) -> Value {
    ev("iso", json!({"y": y, "w": big(w as i128), "wd": wdi}), || json!(odn(NaiveDate::from_isoywd_opt(y, w, wd_of(wdi)))))
}
fn days_event(n: i32) -> Value {
    ev("days", json!({"n": n}), || json!(odn(NaiveDate::from_num_days_from_ce_opt(n))))
}
// Each constructor is driven through both public routes: the `_opt` form and the deprecated panicking form, whose documented
// panic ("panics if the date is invalid / out of range") is the same outcome as `None`; both are judged by the same action.
#[allow(deprecated)]
fn ymd_events(y: i32, m: u32, d: u32) -> [Value; 2] {
    [ymd_event(y, m, d),
     ev("ymd", json!({"y": y, "m": big(m as i128), "d": big(d as i128), "route": "from_ymd"}), || json!(odn(crate::guard(|| NaiveDate::from_ymd(y, m, d)).ok())))]
}
#[allow(deprecated)]
fn yo_events(y: i32, o: u32) -> [Value; 2] {
    [yo_event(y, o), ev("yo", json!({"y": y, "o": big(o as i128), "route": "from_yo"}), || json!(odn(crate::guard(|| NaiveDate::from_yo(y, o)).ok())))]
}
#[allow(deprecated)]
fn iso_events(y: i32, w: u32, wdi: i64) -> [Value; 2] {
    [iso_event(y, w, wdi),
     ev("iso", json!({"y": y, "w": big(w as i128), "wd": wdi, "route": "from_isoywd"}), || json!(odn(crate::guard(|| NaiveDate::from_isoywd(y, w, wd_of(wdi))).ok())))]
}
#[allow(deprecated)]
fn days_events(n: i32) -> [Value; 2] {
    [days_event(n), ev("days", json!({"n": n, "route": "from_num_days_from_ce"}), || json!(odn(crate::guard(|| NaiveDate::from_num_days_from_ce(n)).ok())))]
}
fn emit2(tw: &mut Tw, v: [Value; 2]) { for e in v { tw.emit(e); } }
fn cmp_event(a: NaiveDate, b: NaiveDate) -> Value {
    let c = |o: std::cmp::Ordering| o as i8 as i64;
    let h = |x: &dyn Fn(&mut std::collections::hash_map::DefaultHasher)| { use std::hash::Hasher; let mut s = std::collections::hash_map::DefaultHasher::new(); x(&mut s); s.finish() };
    ev("cmp", json!({"a": dn(a), "b": dn(b)}), || { use std::hash::Hash; json!({"c": c(a.cmp(&b)), "ic": c(a.iso_week().cmp(&b.iso_week())),
           "eq": a == b, "ieq": a.iso_week() == b.iso_week(),
           "hasheq": h(&|s| a.hash(s)) == h(&|s| b.hash(s)), "ihasheq": h(&|s| a.iso_week().hash(s)) == h(&|s| b.iso_week().hash(s))}) })
}

pub fn run(ctx: &Ctx) -> Value {
    let mut tw = Tw::new(&ctx.out, "Trace_Calendar", ctx.t(4_000, 25_000));
    let mut rng = Rng::new(ctx.seed);
    // 1. the whole range, periodic relation in Rust; offenders go to TLC
    let (swept, bad) = sweep(16);
    for &n in bad.iter().take(2000) {
        match crate::guard(|| NaiveDate::from_num_days_from_ce_opt(n as i32)) {
            Ok(Some(d)) => tw.emit(date_event(d)),
            _ => emit2(&mut tw, days_events(n as i32)),
        }
    }
    // 2. dates judged by the specification
    let mut days: Vec<i64> = scale_days();      // every binary scale of the range, then the windows
    if ctx.quick() {
        // one year per (weekday of 1 January, leap) class in three different 400-year cycles, both range-end years
        let mut seen = std::collections::HashSet::new();
        for base in [2000i32, -262_000, 261_600] {
            seen.clear();
            for y in base..base + 400 {
                let j1 = days_from_civil(y, 1, 1);
                if seen.insert(((j1 - 1).rem_euclid(7), days_from_civil(y + 1, 1, 1) - j1)) { days.extend(year_days(y)); }
            }
        }
        for y in [-262_143, -262_142, 262_141, 262_142, -1, 0, 1, 1582, 1900, 1970] { days.extend(year_days(y)); }
        // year boundaries of all 400 residues: the week-53 / week-1 neighbourhood
        for y in 1999..2400 {
            let j1 = days_from_civil(y, 1, 1);
            days.extend(j1 - 4..=j1 + 4);
        }
    } else {
        days.extend(year_days(2000).start().clone()..=*year_days(2399).end());
        days.extend(MIN_DAY..=*year_days(-262_143 + 399).end());
        days.extend(*year_days(262_142 - 399).start()..=MAX_DAY);
        days.extend(*year_days(-401).start()..=*year_days(401).end());
    }
    days.sort();
    days.dedup();
    let n_dates = days.len();
    for n in &days { tw.emit(date_event(mk_date(*n))); }
    // 3. constructor argument lattice (valid, non-existent and out of range)
    let years: Vec<i32> = {
        let mut v = vec![i32::MIN, i32::MIN + 1, -262_145, -262_144, -262_143, -262_142, -401, -400, -399, -101, -100, -99,
                         99, 100, 101, 399, 400, 401, 1899, 1900, 1901, 1999, 2000, 2001, 2023, 2024, 2025,
                         262_141, 262_142, 262_143, 262_144, i32::MAX - 1, i32::MAX];
        v.extend(-5..=5);
        if ctx.quick() { v.retain(|y| y % 2 == 0 || y.abs() > 262_000 || *y == 1900 || *y == 2023); }
        v
    };
    let months: Vec<u32> = vec![0, 1, 2, 3, 4, 6, 9, 11, 12, 13, 1 << 31, u32::MAX];
    let dayv: Vec<u32> = vec![0, 1, 27, 28, 29, 30, 31, 32, 1 << 31, u32::MAX];
    let ords: Vec<u32> = vec![0, 1, 59, 60, 61, 365, 366, 367, 1 << 31, u32::MAX];
    let weeks: Vec<u32> = vec![0, 1, 2, 51, 52, 53, 54, 1 << 31, u32::MAX];
    let mut n_ctor = 0usize;
    for &y in &years {
        for &m in &months { for &d in &dayv { emit2(&mut tw, ymd_events(y, m, d)); n_ctor += 1; } }
        for &o in &ords { emit2(&mut tw, yo_events(y, o)); n_ctor += 1; }
        for &w in &weeks { for wdi in 0..7 { emit2(&mut tw, iso_events(y, w, wdi)); n_ctor += 1; } }
    }
    for n in [i32::MIN, i32::MIN + 1, i32::MIN + 365, i32::MIN + 366, MIN_DAY as i32 - 2, MIN_DAY as i32 - 1, MIN_DAY as i32, MIN_DAY as i32 + 1,
              -1, 0, 1, 2, 719_163, MAX_DAY as i32 - 1, MAX_DAY as i32, MAX_DAY as i32 + 1, MAX_DAY as i32 + 2, i32::MAX - 366, i32::MAX - 1, i32::MAX] {
        emit2(&mut tw, days_events(n)); n_ctor += 1;
    }
    // every (month, day) cell for a leap and a common year, every ordinal, every ISO (week, weekday) of a 52- and a 53-week year
    for y in [2023, 2024, 2020, 2026, -262_143, 262_142] {
        for m in 0..=13 { for d in 0..=32 { emit2(&mut tw, ymd_events(y, m, d)); n_ctor += 1; } }
        for o in 0..=367 { emit2(&mut tw, yo_events(y, o)); n_ctor += 1; }
        for w in 0..=54 { for wdi in 0..7 { emit2(&mut tw, iso_events(y, w, wdi)); n_ctor += 1; } }
    }
    // width aliases of valid arguments: v + 2^j must denote nothing
    for (m, d) in [(2u32, 29u32), (12, 31), (1, 1)] {
        for a in crate::rng::alias_u32(m) { emit2(&mut tw, ymd_events(2024, a, d)); n_ctor += 1; }
        for a in crate::rng::alias_u32(d) { emit2(&mut tw, ymd_events(2024, m, a)); n_ctor += 1; }
    }
    for o in [1u32, 60, 366] { for a in crate::rng::alias_u32(o) { emit2(&mut tw, yo_events(2024, a)); n_ctor += 1; } }
    for w in [1u32, 52, 53] { for a in crate::rng::alias_u32(w) { emit2(&mut tw, iso_events(2020, a, 3)); n_ctor += 1; } }
    // ISO years one beyond the calendar-year range are valid where the day is representable
    for y in [-262_145, -262_144, -262_143, 262_142, 262_143, 262_144] {
        for w in [1u32, 2, 51, 52, 53] { for wdi in 0..7 { emit2(&mut tw, iso_events(y, w, wdi)); n_ctor += 1; } }
    }
    // 4. random tuples, half of them aimed at valid dates
    let n_rand = ctx.t(6_000, 1_000_000);
    for _ in 0..n_rand {
        let y = if rng.chance(1, 8) { rng.range(i32::MIN as i64, i32::MAX as i64) as i32 } else { rng.range(-262_200, 262_200) as i32 };
        match rng.below(4) {
            0 => { let m = if rng.chance(7, 8) { rng.range(1, 12) } else { rng.range(0, 20) } as u32;
                   let d = if rng.chance(7, 8) { rng.range(1, 31) } else { rng.range(0, 40) } as u32;
                   emit2(&mut tw, ymd_events(y, m, d)); }
            1 => emit2(&mut tw, yo_events(y, if rng.chance(7, 8) { rng.range(1, 366) } else { rng.range(0, 400) } as u32)),
            2 => emit2(&mut tw, iso_events(y, if rng.chance(7, 8) { rng.range(1, 53) } else { rng.range(0, 60) } as u32, rng.range(0, 6))),
            _ => emit2(&mut tw, days_events(if rng.chance(7, 8) { rng.range(MIN_DAY - 1000, MAX_DAY + 1000) } else { rng.range(i32::MIN as i64, i32::MAX as i64) } as i32)),
        }
    }
    // 5. order: adjacent pairs and random pairs
    let n_cmp = ctx.t(6_000, 600_000);
    for i in 0..n_cmp {
        let a = mk_date(rng.range(MIN_DAY, MAX_DAY));
        let b = if i % 3 == 0 { a.succ_opt().unwrap_or(a) } else if i % 3 == 1 { mk_date((dn(a) + rng.range(-400, 400)).clamp(MIN_DAY, MAX_DAY)) } else { mk_date(rng.range(MIN_DAY, MAX_DAY)) };
        tw.emit(cmp_event(a, b));
    }
    // all pairs within one week around every 1 January of a 400-year cycle: the same ISO week may span two calendar years, and
    // the dates of one ISO week must have EQUAL (==, cmp, hash) week values whichever route produced them
    for y in 1999..2400 {
        if ctx.quick() && y % 3 != 0 && y % 400 > 40 && y % 100 > 1 { continue; }      // (century seams are never thinned)
        let j1 = days_from_civil(y, 1, 1);
        for a in j1 - 3..=j1 + 3 { for b in a..=(a + 6).min(j1 + 6) { tw.emit(cmp_event(mk_date(a), mk_date(b))); } }
    }
    { let (a, b) = (mk_date(MAX_DAY), mk_date(MAX_DAY - 1)); tw.emit(cmp_event(a, b)); tw.emit(cmp_event(b, a)); }
    for n in [MIN_DAY, MIN_DAY + 1, MAX_DAY - 1, MAX_DAY, 0, 1] {
        tw.emit(cmp_event(mk_date(n), mk_date((n + 1).min(MAX_DAY))));
        tw.emit(cmp_event(mk_date(n), mk_date(n)));
        tw.emit(cmp_event(mk_date(MAX_DAY), mk_date(n)));
    }
    let _ = Weekday::Mon;
    tw.emit(ev("consts", json!({}), || { use chrono::{DateTime, NaiveDateTime, Utc};
        let t = |x: NaiveDateTime| { use chrono::Timelike; json!([dn(x.date()), x.time().num_seconds_from_midnight(), x.time().nanosecond()]) };
        json!({"min": dn(NaiveDate::MIN), "max": dn(NaiveDate::MAX), "epoch": dn(NaiveDateTime::UNIX_EPOCH.date()), "dtmin": t(NaiveDateTime::MIN), "dtmax": t(NaiveDateTime::MAX),
               "utcmin": t(DateTime::<Utc>::MIN_UTC.naive_utc()), "utcmax": t(DateTime::<Utc>::MAX_UTC.naive_utc()), "unix_epoch": t(DateTime::UNIX_EPOCH.naive_utc()), "default": dn(NaiveDate::default())}) }));
    tw.finish();
    json!({"swept_dates": swept, "sweep_offenders": bad.len(), "date_events": n_dates, "ctor_lattice_events": n_ctor,
           "random_ctor_events": n_rand, "cmp_events": n_cmp + 18, "events": tw.total,
           "sweep_exhaustive": swept == (MAX_DAY - MIN_DAY + 1) as u64})
}
