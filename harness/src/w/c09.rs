//! C09: default text forms (Display / Debug) parse back to the same value.
//! Events: `show` (both texts of a value), `roundtrip` (what FromStr returned for one text),
//! `name` (Weekday / Month FromStr on arbitrary strings).
use super::Ctx;
use crate::big::cps;
use crate::out::Tw;
use crate::proj::*;
use crate::rng::Rng;
use crate::{ev, guard};
use chrono::{DateTime, Datelike, FixedOffset, Month, NaiveDate, NaiveDateTime, NaiveTime, TimeZone, Timelike, Utc, Weekday};
use serde_json::{json, Map, Value};

pub const MIN_DAY: i64 = -95_746_129;
pub const MAX_DAY: i64 = 95_745_399;
pub const YEARS: [i32; 13] = [-262143, -10000, -9999, -1, 0, 1, 999, 1000, 9999, 10000, 99999, 100000, 262142];
pub const NANOS: [u32; 8] = [0, 1, 999, 1000, 999_000, 1_000_000, 999_000_000, 999_999_999];

fn merge(a: Value, b: Value) -> Value {
    let mut m = Map::new();
    if let Value::Object(x) = a { m.extend(x); }
    if let Value::Object(x) = b { m.extend(x); }
    Value::Object(m)
}

/// value construction is a call into chrono too: a panic or a refusal there is counted, not fatal
pub fn mk<T>(f: impl FnOnce() -> Option<T>) -> Option<T> { guard(f).ok().flatten() }

pub struct Counts { pub show: usize, pub rt: usize, pub name: usize, pub skipped: usize }

/// One `show` event and (when `rt`) one `roundtrip` event per text.
fn emit(tw: &mut Tw, c: &mut Counts, ty: &str, args: Value, disp: &dyn Fn() -> String, dbg: &dyn Fn() -> String,
        parse: &dyn Fn(&str) -> Option<Value>, rt: bool) {
    let args = merge(json!({"ty": ty}), args);
    let mut texts: Option<(String, String)> = None;
    let e = ev("show", args.clone(), || {
        let d = disp();
        let g = dbg();
        let r = json!({"display": cps(&d), "debug": cps(&g)});
        texts = Some((d, g));
        r
    });
    tw.emit(e);
    c.show += 1;
    if !rt { return; }
    if let Some((d, g)) = texts {
        for (form, text) in [("display", d), ("debug", g)] {
            let a = merge(args.clone(), json!({"form": form}));
            tw.emit(ev("roundtrip", a, || match parse(&text) {
                Some(v) => json!({"back": {"ok": v}}),
                None => json!({"back": {"err": 1}}),
            }));
            c.rt += 1;
        }
    }
}

pub fn dates(rng: &mut Rng, random: usize) -> Vec<NaiveDate> {
    let mut v = Vec::new();
    for &y in YEARS.iter() {
        for (m, d) in [(1, 1), (1, 31), (2, 28), (2, 29), (3, 1), (6, 30), (9, 9), (10, 10), (12, 1), (12, 31)] {
            if let Some(x) = mk(|| NaiveDate::from_ymd_opt(y, m, d)) { v.push(x); }
        }
    }
    for _ in 0..random {
        let n = if rng.chance(1, 2) { rng.range(MIN_DAY, MAX_DAY) } else { rng.range(-3_700_000, 3_700_000) };
        if let Some(x) = mk(|| NaiveDate::from_num_days_from_ce_opt(n as i32)) { v.push(x); }
    }
    // every binary scale of the range (years +-2^k and neighbours): the middle of the range, where nothing else looks
    for (i, n) in scale_days().into_iter().enumerate() { if random >= 1000 || i % 2 == 0 { v.push(mk_date(n)); } }
    v
}

pub fn times(rng: &mut Rng, random: usize) -> Vec<NaiveTime> {
    let mut v = Vec::new();
    for h in [0u32, 9, 12, 23] {
        for mi in [0u32, 5, 59] {
            for s in [0u32, 7, 59] {
                for &n in NANOS.iter().chain([500u32, 120_000_000, 123_456_789, 100, 10_000].iter()) {
                    if let Some(x) = mk(|| NaiveTime::from_hms_nano_opt(h, mi, s, n)) { v.push(x); }
                    if s == 59 { if let Some(x) = mk(|| NaiveTime::from_hms_nano_opt(h, mi, s, 1_000_000_000 + n)) { v.push(x); } }
                }
            }
        }
    }
    for (i, f) in fraction_groups().into_iter().enumerate() {      // digit groups of the fraction (also on a leap second now and then)
        let secs = [0u32, 45_296, 86_399][i % 3];
        if let Some(x) = mk(|| NaiveTime::from_num_seconds_from_midnight_opt(secs, if i % 7 == 2 { f + 1_000_000_000 } else { f })) { v.push(x); }
    }
    for _ in 0..random {
        let secs = rng.range(0, 86_399) as u32;
        let digits = rng.below(10) as u32;              // fraction with a random number of significant digits
        let unit = 10u32.pow(9 - digits);
        let mut f = (rng.range(0, 999_999_999) as u32 / unit) * unit;
        if secs % 60 == 59 && rng.chance(1, 3) { f += 1_000_000_000; }
        if let Some(x) = mk(|| NaiveTime::from_num_seconds_from_midnight_opt(secs, f)) { v.push(x); }
    }
    v
}

/// few times of day for the cross product with dates and offsets
pub fn few_times() -> Vec<NaiveTime> {
    let mut v = Vec::new();
    for (h, mi, s, n) in [(0u32, 0u32, 0u32, 0u32), (0, 0, 0, 1), (23, 59, 59, 999_999_999), (23, 59, 59, 1_000_000_000), (23, 59, 59, 1_999_000_000),
                          (12, 34, 56, 789_000_000), (9, 5, 7, 999_000), (0, 0, 59, 1_000_000_000), (23, 30, 0, 1000), (0, 29, 59, 1_500_000_000)] {
        if let Some(x) = mk(|| NaiveTime::from_hms_nano_opt(h, mi, s, n)) { v.push(x); }
    }
    v
}

pub fn offset_lattice() -> Vec<i32> {
    vec![0, 60, -60, 1800, -1800, 3540, -3540, 3600, -3600, 19_800, -12_600, 20_700, 34_200, 43_200, -43_200, 50_400, 86_340, -86_340]
}
pub fn all_minute_offsets() -> Vec<i32> { (-1439..=1439).map(|m| m * 60).collect() }
pub fn second_offsets() -> Vec<i32> { vec![1, -1, 29, -29, 30, -30, 31, 59, -59, 61, 3599, 3661, -3661, 20_730, 34_230, 86_399, -86_399, 86_341, -86_341] }

pub fn headroom(u: &NaiveDateTime, off: i32) -> i64 {
    let n = dn(u.date()) + (u.time().num_seconds_from_midnight() as i64 + off as i64).div_euclid(86_400);
    if n < MIN_DAY || n > MAX_DAY { 1 } else { 0 }
}

fn fixed_of(u: NaiveDateTime, off: i32) -> Option<DateTime<FixedOffset>> {
    mk(|| FixedOffset::east_opt(off).map(|o| u.and_utc().with_timezone(&o)))
}

fn emit_fixed(tw: &mut Tw, c: &mut Counts, dt: &DateTime<FixedOffset>) {
    let (u, off) = match guard(|| (dt.naive_utc(), dt.offset().local_minus_utc())) { Ok(x) => x, Err(_) => { c.skipped += 1; return; } };
    emit(tw, c, "fixed", json!({"u": ndt(u), "off": off, "headroom": headroom(&u, off)}), &|| dt.to_string(), &|| format!("{:?}", dt),
         &|s| s.parse::<DateTime<FixedOffset>>().ok().map(|b| json!({"u": ndt(b.naive_utc()), "off": b.offset().local_minus_utc()})),
         off % 60 == 0);
}

fn case_variants(rng: &mut Rng, s: &str) -> Vec<String> {
    let mut v = vec![s.to_string(), s.to_uppercase(), s.to_lowercase()];
    let mut first_lower: Vec<char> = s.to_uppercase().chars().collect();
    first_lower[0] = first_lower[0].to_ascii_lowercase();
    v.push(first_lower.into_iter().collect());
    for _ in 0..2 {
        v.push(s.chars().map(|ch| if rng.chance(1, 2) { ch.to_ascii_uppercase() } else { ch.to_ascii_lowercase() }).collect());
    }
    v
}

fn non_names(rng: &mut Rng, short: &str, long: &str) -> Vec<String> {
    let mut v: Vec<String> = Vec::new();
    for k in 0..=long.len() + 1 {                       // every prefix of the long name, and one letter more
        let mut t: String = long.chars().take(k).collect();
        if k > long.len() { t.push('s'); }
        v.push(t);
    }
    v.push(format!(" {}", short));
    v.push(format!("{} ", short));
    v.push(format!("{}\u{3000}", long));
    v.push(format!("{}.", short));
    v.push(format!("{}{}", short, short));
    v.push(long.replace('a', "\u{e4}").replace('u', "\u{fc}"));           // multi-byte look-alikes
    v.push(format!("{}\u{301}", long));
    v.push(long.chars().rev().collect());
    let mut t: Vec<char> = long.chars().collect();                          // one letter replaced / two swapped
    let i = rng.below(t.len());
    t[i] = *rng.pick(&['x', 'Q', '1', '-', '\u{130}', '\u{212a}']);        // incl. code points whose lower case is ASCII
    v.push(t.iter().collect());
    let mut t: Vec<char> = long.chars().collect();
    let i = rng.below(t.len() - 1);
    t.swap(i, i + 1);
    v.push(t.into_iter().collect());
    v
}

pub fn run(ctx: &Ctx) -> Value {
    let mut tw = Tw::new(&ctx.out, "Trace_Show", ctx.t(2_500, 12_000));
    let mut rng = Rng::new(ctx.seed);
    let mut c = Counts { show: 0, rt: 0, name: 0, skipped: 0 };

    // --- dates (lattice, digit-pair witnesses, then a sequence in which consecutive values share a component: one-entry memos)
    let mut ds = dates(&mut rng, ctx.t(300, 20_000));
    ds.extend(pair_witnesses().iter().map(|x| x.date()));
    ds.extend(memo_sequence());
    for d in &ds {
        emit(&mut tw, &mut c, "date", json!({"n": dn(*d)}), &|| d.to_string(), &|| format!("{:?}", d),
             &|s| s.parse::<NaiveDate>().ok().map(|b| json!({"n": dn(b)})), true);
    }
    // --- times of day
    let mut ts = times(&mut rng, ctx.t(300, 20_000));
    ts.extend(pair_witnesses().iter().map(|x| x.time()));
    for t in &ts {
        emit(&mut tw, &mut c, "time", json!({"t": tod(*t)}), &|| t.to_string(), &|| format!("{:?}", t),
             &|s| s.parse::<NaiveTime>().ok().map(tod), true);
    }
    // --- naive date-times and date-times in UTC: lattice dates x few times, plus random pairs
    let ft = few_times();
    let mut ndts: Vec<NaiveDateTime> = Vec::new();
    for d in ds.iter().take(YEARS.len() * 10) {
        for t in &ft { ndts.push(d.and_time(*t)); }
    }
    for _ in 0..ctx.t(400, 20_000) {
        ndts.push(rng.pick(&ds).and_time(*rng.pick(&ts)));
    }
    ndts.extend(pair_witnesses());
    for (i, d) in memo_sequence().into_iter().enumerate() { ndts.push(d.and_time(ft[i % 2 * 5])); }
    for v in &ndts {
        emit(&mut tw, &mut c, "ndt", json!({"v": ndt(*v)}), &|| v.to_string(), &|| format!("{:?}", v),
             &|s| s.parse::<NaiveDateTime>().ok().map(ndt), true);
    }
    for v in &ndts {
        let dt = match guard(|| v.and_utc()) { Ok(x) => x, Err(_) => { c.skipped += 1; continue; } };
        emit(&mut tw, &mut c, "utc", json!({"u": ndt(*v)}), &|| dt.to_string(), &|| format!("{:?}", dt),
             &|s| s.parse::<DateTime<Utc>>().ok().map(|b| ndt(b.naive_utc())), true);
    }
    // --- offsets: every whole minute in +-23:59 (both tiers; these events are cheap), offsets with seconds (text only)
    for off in all_minute_offsets().into_iter().chain(second_offsets()).chain((0..ctx.t(50, 2000)).map(|_| rng.range(-86_399, 86_399) as i32)) {
        if let Some(o) = mk(|| FixedOffset::east_opt(off)) {
            emit(&mut tw, &mut c, "offset", json!({"off": off}), &|| o.to_string(), &|| format!("{:?}", o),
                 &|s| s.parse::<FixedOffset>().ok().map(|b| json!({"off": b.local_minus_utc()})), off % 60 == 0);
        } else { c.skipped += 1; }
    }
    // --- date-times at a fixed offset
    let minute_offsets = if ctx.quick() { offset_lattice() } else { all_minute_offsets() };
    let base: Vec<NaiveDateTime> = if ctx.quick() {
        // range ends, sign and width boundaries of the year, a leap second; crossed with the offset lattice
        let mut b = Vec::new();
        for d in ds.iter().take(YEARS.len() * 10).filter(|d| (d.month(), d.day()) == (1, 1) || (d.month(), d.day()) == (12, 31)) {
            for t in [ft[0], ft[2], ft[3], ft[6]] { b.push(d.and_time(t)); }
        }
        b
    } else {
        let mut b = Vec::new();
        for d in ds.iter().take(YEARS.len() * 10).filter(|d| (d.month(), d.day()) == (1, 1) || (d.month(), d.day()) == (12, 31)) {
            for t in [ft[0], ft[3]] { b.push(d.and_time(t)); }
        }
        b
    };
    for u in &base {
        for &off in &minute_offsets {
            match fixed_of(*u, off) { Some(dt) => emit_fixed(&mut tw, &mut c, &dt), None => c.skipped += 1 }
        }
    }
    // random instants x random whole-minute offsets; and offsets with seconds (text only, not required to parse back)
    for _ in 0..ctx.t(600, 40_000) {
        let off = 60 * rng.range(-1439, 1439) as i32;
        match fixed_of(*rng.pick(&ndts), off) { Some(dt) => emit_fixed(&mut tw, &mut c, &dt), None => c.skipped += 1 }
    }
    for &off in &second_offsets() {
        for u in base.iter().step_by(ctx.t(7, 3)) {
            match fixed_of(*u, off) { Some(dt) => emit_fixed(&mut tw, &mut c, &dt), None => c.skipped += 1 }
        }
    }
    // values built from a wall clock (the usual way to obtain them): the instant moves, the printed fields are the given ones
    for u in base.iter().step_by(ctx.t(3, 1)) {
        for &off in offset_lattice().iter() {
            if let Some(dt) = mk(|| FixedOffset::east_opt(off).and_then(|o| o.from_local_datetime(u).single())) { emit_fixed(&mut tw, &mut c, &dt); } else { c.skipped += 1; }
        }
    }
    // --- DateTime<Local> in a zone WITH daylight saving (TZ is a POSIX rule, read by a fresh thread): around the gap and inside the fold the
    //     text carries the offset, so each pass through the repeated hour reads back as itself
    for tzv in ["CET-1CEST,M3.5.0,M10.5.0/3", "AEST-10AEDT,M10.1.0,M4.1.0/3"] {
        std::env::set_var("TZ", tzv);
        let h = std::thread::spawn(move || {
            use chrono::Local;
            let mut out: Vec<Value> = Vec::new();
            let mut instants: Vec<i64> = Vec::new();
            for t in [1_711_846_800i64, 1_729_990_800, 1_728_144_000, 1_712_419_200, 1_635_642_000] { for k in -6..=6 { instants.push(t + k * 1_800); instants.push(t + k * 1_800 + 1); } }
            for t in instants {
                let Some(u) = chrono::DateTime::from_timestamp(t, 500_000_000).map(|d| d.naive_utc()) else { continue };
                let Ok(dt) = guard(|| Local.from_utc_datetime(&u)) else { continue };
                let off = chrono::Offset::fix(dt.offset()).local_minus_utc();
                let args = json!({"ty": "fixed", "u": ndt(u), "off": off, "headroom": 0, "zone": "Local with a DST rule"});
                let (d, g) = (dt.to_string(), format!("{:?}", dt));
                out.push(ev("show", args.clone(), || json!({"display": cps(&d), "debug": cps(&g)})));
                for (form, text) in [("display", d.clone()), ("debug", g.clone())] {
                    let mut a = args.clone(); a["form"] = json!(form);
                    out.push(ev("roundtrip", a, || match text.parse::<DateTime<Local>>() {
                        Ok(b) => json!({"back": {"ok": {"u": ndt(b.naive_utc()), "off": chrono::Offset::fix(b.offset()).local_minus_utc()}}}), Err(_) => json!({"back": {"err": 1}}) }));
                }
            }
            out
        });
        for e in h.join().unwrap_or_default() { tw.emit(e); c.show += 1; }
        std::env::remove_var("TZ");
    }
    // --- weekdays and months: texts, round trip, and the reader on names in any case and on everything near a name
    for i in 0..7 {
        let w = wd_of(i);
        emit(&mut tw, &mut c, "weekday", json!({"w": i}), &|| w.to_string(), &|| format!("{:?}", w),
             &|s| s.parse::<Weekday>().ok().map(|b| json!({"w": wd(b)})), true);
    }
    let months = [Month::January, Month::February, Month::March, Month::April, Month::May, Month::June, Month::July, Month::August,
                  Month::September, Month::October, Month::November, Month::December];
    for m in months.iter() {
        emit(&mut tw, &mut c, "month", json!({"m": m.number_from_month()}), &|| m.name().to_string(), &|| format!("{:?}", m),
             &|s| s.parse::<Month>().ok().map(|b| json!({"m": b.number_from_month()})), true);
    }
    let wd_names = [("Mon", "Monday"), ("Tue", "Tuesday"), ("Wed", "Wednesday"), ("Thu", "Thursday"), ("Fri", "Friday"), ("Sat", "Saturday"), ("Sun", "Sunday")];
    let mo_names = [("Jan", "January"), ("Feb", "February"), ("Mar", "March"), ("Apr", "April"), ("May", "May"), ("Jun", "June"), ("Jul", "July"),
                    ("Aug", "August"), ("Sep", "September"), ("Oct", "October"), ("Nov", "November"), ("Dec", "December")];
    let mut strings: Vec<String> = vec!["".into(), " ".into(), "day".into(), "\u{6708}\u{66dc}\u{65e5}".into(), "Montag".into(), "janvier".into(), "M".into(), "\u{1f920}".into()];
    for (s, l) in wd_names.iter().chain(mo_names.iter()) {
        strings.extend(case_variants(&mut rng, s));
        strings.extend(case_variants(&mut rng, l));
        strings.extend(non_names(&mut rng, s, l));
    }
    for _ in 0..ctx.t(200, 5000) {
        let n = rng.below(10);
        strings.push((0..n).map(|_| *rng.pick(&['a', 'e', 'M', 'o', 'n', 'd', 'y', 'J', 'u', 'S', 't', 'r', ' ', '\u{e9}', '1'])).collect());
    }
    for s in &strings {
        tw.emit(ev("name", json!({"ty": "weekday", "s": cps(s)}), || match s.parse::<Weekday>() {
            Ok(w) => json!({"r": {"ok": {"w": wd(w)}}}), Err(_) => json!({"r": {"err": 1}}) }));
        tw.emit(ev("name", json!({"ty": "month", "s": cps(s)}), || match s.parse::<Month>() {
            Ok(m) => json!({"r": {"ok": {"m": m.number_from_month()}}}), Err(_) => json!({"r": {"err": 1}}) }));
        c.name += 2;
    }
    tw.finish();
    json!({"events": tw.total, "show": c.show, "roundtrip": c.rt, "name": c.name, "skipped_constructions": c.skipped})
}
