//! C12: every strftime specifier renders the documented field.
//!
//! Events (trace specification `Trace_Strftime`):
//! * `fmt`   - one value of one of the four formatted types, one format string, the outcome of
//!             `write!(s, "{}", value.format(f))` (`r`) and of `DelayedFormat::write_to` (`w`):
//!             `{"ok": code points}` or `{"err": 1}`. The specification tokenises the format string itself
//!             and re-derives the text (or the failure).
//! * `items` - `StrftimeItems::new(f)` and `new_lenient(f)` collected and projected to records.
//! The value lattice and the formatting helpers are shared with C13.
use super::Ctx;
use crate::big::cps;
use crate::ev;
use crate::out::Tw;
use crate::proj::*;
use crate::rng::Rng;
use chrono::format::{Item, StrftimeItems};
use chrono::{DateTime, FixedOffset, NaiveDate, NaiveDateTime, NaiveTime, TimeZone, Utc};
use serde_json::{json, Value};
use std::fmt::Write;

#[derive(Clone, Copy, Debug)]
pub enum Val {
    D(NaiveDate),
    T(NaiveTime),
    N(NaiveDateTime),
    Z(DateTime<FixedOffset>),
}

fn outcome(r: Result<(), std::fmt::Error>, s: String) -> Value {
    match r { Ok(()) => json!({"ok": cps(&s)}), Err(_) => json!({"err": 1}) }
}

impl Val {
    pub fn ty(&self) -> &'static str {
        match self { Val::D(_) => "date", Val::T(_) => "time", Val::N(_) => "ndt", Val::Z(_) => "dt" }
    }
    /// date: {n}; time: {secs, frac}; ndt: {n, secs, frac}; dt: the UTC date-time {n, secs, frac} and {off}
    /// (the specification derives the wall clock).
    pub fn json(&self) -> Value {
        match self {
            Val::D(d) => json!({"n": dn(*d)}),
            Val::T(t) => tod(*t),
            Val::N(x) => ndt(*x),
            Val::Z(z) => {
                let mut v = ndt(z.naive_utc());
                v["off"] = json!(z.offset().local_minus_utc());
                v
            }
        }
    }
    /// `write!(s, "{}", self.format(f))`: Display of the DelayedFormat (never panics, unlike to_string()).
    pub fn display(&self, f: &str) -> Value {
        let mut s = String::new();
        let r = match self {
            Val::D(x) => write!(s, "{}", x.format(f)),
            Val::T(x) => write!(s, "{}", x.format(f)),
            Val::N(x) => write!(s, "{}", x.format(f)),
            Val::Z(x) => write!(s, "{}", x.format(f)),
        };
        outcome(r, s)
    }
    pub fn write_to(&self, f: &str) -> Value {
        let mut s = String::new();
        let r = match self {
            Val::D(x) => x.format(f).write_to(&mut s),
            Val::T(x) => x.format(f).write_to(&mut s),
            Val::N(x) => x.format(f).write_to(&mut s),
            Val::Z(x) => x.format(f).write_to(&mut s),
        };
        outcome(r, s)
    }
    pub fn text(&self, f: &str) -> Option<String> {
        let mut s = String::new();
        let r = match self {
            Val::D(x) => write!(s, "{}", x.format(f)),
            Val::T(x) => write!(s, "{}", x.format(f)),
            Val::N(x) => write!(s, "{}", x.format(f)),
            Val::Z(x) => write!(s, "{}", x.format(f)),
        };
        r.ok().map(|_| s)
    }
}

/// Display of the DelayedFormat under a width flag: `format!("{:>w$}", x.format(f))` etc. pads the rendered text (counted in characters).
pub fn fmt_pad_event(v: &Val, f: &str, width: usize, align: char) -> Value {
    ev("fmt_pad", json!({"ty": v.ty(), "v": v.json(), "f": cps(f), "width": width, "align": align.to_string()}), || {
        let mut s = String::new();
        macro_rules! w { ($x:expr) => { match align { '<' => write!(s, "{:<w$}", $x.format(f), w = width), '^' => write!(s, "{:^w$}", $x.format(f), w = width), _ => write!(s, "{:>w$}", $x.format(f), w = width) } } }
        let r = match v { Val::D(x) => w!(x), Val::T(x) => w!(x), Val::N(x) => w!(x), Val::Z(x) => w!(x) };
        json!({"t": v.display(f), "r": outcome(r, s)})
    })
}

/// The public constructors of DelayedFormat: any combination of (date, time, offset) may be present; a specifier whose field is absent fails.
pub fn fmt_parts_event(d: Option<NaiveDate>, t: Option<NaiveTime>, off: Option<i32>, f: &str) -> Value {
    use chrono::Timelike;
    let (n, (secs, frac)) = (d.map(dn).unwrap_or(1), t.map(|t| (t.num_seconds_from_midnight(), t.nanosecond())).unwrap_or((0, 0)));
    ev("fmt_parts", json!({"n": n, "secs": secs, "frac": frac, "off": off.unwrap_or(0), "hd": d.is_some(), "ht": t.is_some(), "ho": off.is_some(), "f": cps(f)}), || {
        let items = StrftimeItems::new(f);
        let mut s = String::new();
        let r = match off {
            Some(o) => write!(s, "{}", chrono::format::DelayedFormat::new_with_offset(d, t, &FixedOffset::east_opt(o).unwrap(), items)),
            None => write!(s, "{}", chrono::format::DelayedFormat::new(d, t, items)),
        };
        json!({"r": outcome(r, s)})
    })
}

pub fn fmt_event(v: &Val, f: &str) -> Value {
    ev("fmt", json!({"ty": v.ty(), "v": v.json(), "f": cps(f)}), || json!({"r": v.display(f), "w": v.write_to(f)}))
}

/// Formatting with an explicit item list (`format_with_items`): reaches items no specifier produces (the ISO century).
pub fn fmt_items_event(d: NaiveDate, items: &[Item<'static>]) -> Value {
    let js: Vec<Value> = items.iter().map(item_json).collect();
    ev("fmt_items", json!({"ty": "date", "v": {"n": dn(d)}, "items": js}), || {
        let mut s = String::new();
        let r = write!(s, "{}", d.format_with_items(items.iter()));
        json!({"r": outcome(r, s)})
    })
}

pub fn item_json(it: &Item) -> Value {
    match it {
        Item::Literal(s) => json!({"k": "Lit", "s": cps(s)}),
        Item::OwnedLiteral(s) => json!({"k": "Lit", "s": cps(s)}),
        Item::Space(s) => json!({"k": "Space", "s": cps(s)}),
        Item::OwnedSpace(s) => json!({"k": "Space", "s": cps(s)}),
        Item::Numeric(n, p) => json!({"k": "Num", "n": format!("{:?}", n), "p": format!("{:?}", p)}),
        Item::Fixed(f) => {
            let d = format!("{:?}", f);
            // Internal(InternalFixed { val: Nanosecond3NoDot }) -> Nanosecond3NoDot
            let name = match d.find("val: ") {
                Some(i) => d[i + 5..].trim_end_matches(|c: char| !c.is_ascii_alphanumeric()).to_string(),
                None => d,
            };
            json!({"k": "Fix", "f": name})
        }
        Item::Error => json!({"k": "Err"}),
    }
}

pub fn items_event(f: &str) -> Value {
    // the bound protects the harness against a non-terminating iterator (the count is then wrong and rejected)
    let bound = 13 * f.len() + 20;
    ev("items", json!({"f": cps(f)}), || {
        let strict: Vec<Value> = StrftimeItems::new(f).take(bound).map(|i| item_json(&i)).collect();
        let lenient: Vec<Value> = StrftimeItems::new_lenient(f).take(bound).map(|i| item_json(&i)).collect();
        let parse_ok = StrftimeItems::new(f).parse().is_ok();
        json!({"strict": strict, "lenient": lenient, "parse_ok": parse_ok})
    })
}

// ---------------------------------------------------------------------------------------------------------------
// value lattice (shared with C13)

pub const LATTICE_YEARS: [i32; 16] = [-262143, -10000, -9999, -100, -99, -1, 0, 1, 99, 100, 999, 1000, 9999, 10000, 99999, 262142];

/// Dates at which the case analysis of the specification changes: the lattice years, and the first / last seven
/// days of years of every (weekday of 1 January, leap) class, where the three week numberings take the values
/// 0 / 1 / 52 / 53.
pub fn dates(thorough: bool) -> Vec<NaiveDate> {
    let mut v = Vec::new();
    let mut add = |y: i32, m: u32, d: u32| { if let Some(x) = NaiveDate::from_ymd_opt(y, m, d) { v.push(x) } };
    for &y in LATTICE_YEARS.iter() {
        for (m, d) in [(1, 1), (1, 2), (1, 4), (1, 7), (2, 28), (2, 29), (3, 1), (7, 8), (9, 30), (10, 10), (12, 25), (12, 28), (12, 31)] {
            add(y, m, d);
        }
    }
    let classes: Vec<i32> = if thorough { (1995..=2030).collect() } else { vec![2001, 2004, 2005, 2006, 2007, 2008, 2009, 2010, 2012, 2015, 2016, 2020, 2021, 2024, 2026, 2028, 2000, 2032] };
    for y in classes {
        for d in 1..=7 { add(y, 1, d); }
        for d in 25..=31 { add(y, 12, d); }
        add(y, 7, 8);
    }
    for &y in [1969, 1970, 2069, 2070, 1900, 2100].iter() {
        add(y, 1, 1); add(y, 12, 31); add(y, 6, 15);
    }
    // binary scales of the year (+-2^k and neighbours, thinned): the middle of the range
    for (i, k) in (6..=17u32).enumerate() { for (j, y) in [(1i32 << k) - 1, 1 << k, (1 << k) + 1, 3 << (k - 1)].into_iter().enumerate() {
        if !thorough && (i + j) % 2 != 0 { continue; }
        for s in [1, -1] { add(s * y, 1 + (k % 12), 1 + k); }
    } }
    if thorough {
        // every day of a few whole years (all ordinals, all week numbers)
        for y in [-262143, -1, 0, 9999, 10000, 262142, 2023, 2024] {
            let mut d = NaiveDate::from_ymd_opt(y, 1, 1).unwrap();
            while chrono::Datelike::year(&d) == y {
                v.push(d);
                d = match d.succ_opt() { Some(x) => x, None => break };
            }
        }
    }
    v.sort();
    v.dedup();
    v
}

pub const FRACS: [u32; 8] = [0, 1, 999, 1000, 26_490_000, 26_490_708, 999_000_000, 999_999_999];

pub fn times(thorough: bool) -> Vec<NaiveTime> {
    let mut v = Vec::new();
    let hours: &[u32] = &[0, 11, 12, 13, 23, 1, 9, 10];
    let mins: &[u32] = if thorough { &[0, 9, 34, 59] } else { &[0, 34, 59] };
    let secs: &[u32] = if thorough { &[0, 7, 59] } else { &[0, 59] };
    let mut k = 0usize;
    for &h in hours { for &m in mins { for &s in secs {
        // one fraction per combination (rotating), all fractions for the corner hours
        let fr: Vec<u32> = if thorough || (m == 34 && s == 59) { FRACS.to_vec() } else { k += 1; vec![FRACS[k % FRACS.len()]] };
        for f in fr {
            v.push(NaiveTime::from_hms_nano_opt(h, m, s, f).unwrap());
            if s == 59 { v.push(NaiveTime::from_hms_nano_opt(h, m, s, 1_000_000_000 + f).unwrap()); }   // leap second
        }
    }}}
    // the leap-second flag on a second other than 59 (reachable through with_nanosecond, and through offsets with a seconds part)
    for (secs, f) in [(15u32, 1_000_000_000u32), (3_600, 1_500_000_000), (86_370, 1_026_490_000), (45_030, 1_999_999_999)] { v.push(crate::proj::mk_time_any(secs, f)); }
    v
}

pub const OFFSETS: [i32; 27] = [0, 1, -1, 29, -29, 30, -30, 31, -31, 34200, 34230, -3629, 3600, -3600, 3599, -3601, 19800, -12600, 20700,
    86399, -86399, 86369, -86369, 86370, -86370, 50400, -43200];

pub fn dts(nds: &[NaiveDateTime], offs: &[i32]) -> Vec<DateTime<FixedOffset>> {
    let mut v = Vec::new();
    for (i, x) in nds.iter().enumerate() {
        let o = offs[i % offs.len()];
        if let Some(z) = FixedOffset::east_opt(o).unwrap().from_local_datetime(x).single() { v.push(z); }
    }
    v
}

/// Values whose wall clock lies in the one-day headroom beyond the date range (formatting only).
pub fn headroom() -> Vec<DateTime<FixedOffset>> {
    vec![
        DateTime::<Utc>::MAX_UTC.with_timezone(&FixedOffset::east_opt(3600).unwrap()),
        DateTime::<Utc>::MAX_UTC.with_timezone(&FixedOffset::east_opt(86399).unwrap()),
        DateTime::<Utc>::MIN_UTC.with_timezone(&FixedOffset::west_opt(3600).unwrap()),
        DateTime::<Utc>::MIN_UTC.with_timezone(&FixedOffset::west_opt(1).unwrap()),
    ]
}

// ---------------------------------------------------------------------------------------------------------------
pub const DATE_NUM: [&str; 15] = ["Y", "C", "y", "q", "m", "d", "e", "w", "u", "U", "W", "G", "g", "V", "j"];
pub const DATE_FIX: [&str; 9] = ["b", "B", "h", "a", "A", "D", "x", "F", "v"];
pub const TIME_NUM: [&str; 7] = ["H", "k", "I", "l", "M", "S", "f"];
pub const TIME_FIX: [&str; 13] = ["P", "p", ".f", ".3f", ".6f", ".9f", "3f", "6f", "9f", "R", "T", "X", "r"];
pub const OFF_FIX: [&str; 6] = ["Z", "z", ":z", "::z", ":::z", "#z"];
pub const DT_SPECS: [&str; 3] = ["c", "+", "s"];
pub const SPECIAL: [&str; 3] = ["t", "n", "%"];
pub const PADS: [&str; 4] = ["", "-", "_", "0"];

pub fn all_specs() -> Vec<&'static str> {
    let mut v: Vec<&str> = Vec::new();
    v.extend(DATE_NUM); v.extend(DATE_FIX); v.extend(TIME_NUM); v.extend(TIME_FIX); v.extend(OFF_FIX); v.extend(DT_SPECS); v.extend(SPECIAL);
    v
}

fn random_format(rng: &mut Rng, specs: &[&str]) -> String {
    const LITS: [&str; 22] = ["a", "-", ":", "/", ".", ",", "T", "12", "é", "日本", "😽", "x y", " ", "  ", "\t", "\u{3000}", " \n", "%%", "W", "(", ")", "at"];
    const BAD: [&str; 14] = ["%Q", "%é", "%-", "%.", "%.3", "%:", "%::", "%:::", "%#", "%#Y", "%.4f", "%5f", "%-%", "%_n"];
    let n = 1 + rng.below(7);
    let mut s = String::new();
    for _ in 0..n {
        match rng.below(20) {
            0..=10 => {
                let sp = *rng.pick(specs);
                let pad = if rng.chance(3, 4) { "" } else { *rng.pick(&PADS) };
                s.push('%'); s.push_str(pad); s.push_str(sp);
            }
            11..=17 => s.push_str(*rng.pick(&LITS[..])),
            18 => s.push_str(*rng.pick(&BAD[..])),
            _ => { if rng.chance(1, 3) { s.push('%'); } }      // a lone '%' (an error unless a '%' follows)
        }
    }
    s
}

pub fn run(ctx: &Ctx) -> Value {
    let th = !ctx.quick();
    let mut tw = Tw::new(&ctx.out, "Trace_Strftime", ctx.t(5000, 20000));
    let mut rng = Rng::new(ctx.seed ^ 0xC12);
    let ds = dates(th);
    let ts = times(th);
    let specs = all_specs();
    let mut counts = serde_json::Map::new();
    let mut bump = |k: &str, n: usize| { let e = counts.entry(k.to_string()).or_insert(json!(0)); *e = json!(e.as_u64().unwrap() + n as u64); };

    // naive date-times: every date with a rotating time, every time with a rotating date
    let mut nds: Vec<NaiveDateTime> = Vec::new();
    for (i, d) in ds.iter().enumerate() { nds.push(d.and_time(ts[(i * 7) % ts.len()])); }
    for (i, t) in ts.iter().enumerate() { nds.push(ds[(i * 11) % ds.len()].and_time(*t)); }
    let zs_all = {
        let mut z = dts(&nds, &OFFSETS);
        // every offset at the documentation's example instant and at both range ends
        for &o in OFFSETS.iter() {
            let base = NaiveDate::from_ymd_opt(2001, 7, 8).unwrap().and_hms_nano_opt(0, 34, 59, 1_026_490_000).unwrap();
            z.extend(dts(&[base], &[o]));
            z.extend(dts(&[NaiveDate::MIN.and_hms_opt(23, 59, 59).unwrap(), NaiveDate::MAX.and_hms_opt(0, 0, 0).unwrap()], &[o]));
        }
        z.extend(headroom());
        // a leap second seen through an offset with a seconds part: the wall-clock second is not 59
        for (i, x) in nds.iter().filter(|x| x.and_utc().timestamp_subsec_nanos() >= 1_000_000_000).enumerate() {
            if !th && i % 3 != 0 { continue; }
            let o = [15, -15, 34230, -3629, 3599, 86369, 1, -31][i % 8];
            z.push(chrono::Utc.from_utc_datetime(x).with_timezone(&FixedOffset::east_opt(o).unwrap()));
        }
        z
    };

    // 1. every date specifier x every padding modifier x every lattice date (NaiveDate; every third also as the
    //    date part of a NaiveDateTime / DateTime)
    let mut n = 0;
    for sp in DATE_NUM.iter() {
        for pad in PADS.iter() {
            let f = format!("%{}{}", pad, sp);
            for d in ds.iter() { tw.emit(fmt_event(&Val::D(*d), &f)); n += 1; }
        }
    }
    for sp in DATE_FIX.iter() {
        let f = format!("%{}", sp);
        for d in ds.iter() { tw.emit(fmt_event(&Val::D(*d), &f)); n += 1; }
    }
    bump("date_spec_events", n);
    n = 0;
    for pad in [chrono::format::Pad::Zero, chrono::format::Pad::Space, chrono::format::Pad::None] {
        let items = [Item::Numeric(chrono::format::Numeric::IsoYearDiv100, pad), Item::Literal("|"), Item::Numeric(chrono::format::Numeric::IsoYear, pad),
                     Item::Literal("|"), Item::Numeric(chrono::format::Numeric::YearDiv100, pad)];
        for d in ds.iter() { tw.emit(fmt_items_event(*d, &items)); n += 1; }
    }
    bump("explicit_item_events", n);
    // 2. every time specifier x pad x every lattice time
    n = 0;
    for sp in TIME_NUM.iter() {
        for pad in PADS.iter() {
            let f = format!("%{}{}", pad, sp);
            for t in ts.iter() { tw.emit(fmt_event(&Val::T(*t), &f)); n += 1; }
        }
    }
    for sp in TIME_FIX.iter() {
        let f = format!("%{}", sp);
        for t in ts.iter() { tw.emit(fmt_event(&Val::T(*t), &f)); n += 1; }
    }
    bump("time_spec_events", n);
    // 3. offset specifiers, %s (with every pad), %c, %+ and a sample of the others on DateTime<FixedOffset>
    n = 0;
    let mut dt_formats: Vec<String> = OFF_FIX.iter().map(|s| format!("%{}", s)).collect();
    for pad in PADS.iter() { dt_formats.push(format!("%{}s", pad)); }
    dt_formats.push("%c".into()); dt_formats.push("%+".into());
    dt_formats.push("%Y-%m-%dT%H:%M:%S%.f%:z".into());
    dt_formats.push("%a %b %e %H:%M:%S %Y".into());
    for f in dt_formats.iter() {
        for z in zs_all.iter() { tw.emit(fmt_event(&Val::Z(*z), f)); n += 1; }
    }
    let step = ctx.t(5, 1);
    for (i, z) in zs_all.iter().enumerate() {
        if i % step != 0 { continue; }
        for sp in DATE_NUM.iter().chain(TIME_NUM.iter()) {
            let pad = PADS[(i / step) % 4];
            tw.emit(fmt_event(&Val::Z(*z), &format!("%{}{}", pad, sp))); n += 1;
        }
        for sp in DATE_FIX.iter().chain(TIME_FIX.iter()) { tw.emit(fmt_event(&Val::Z(*z), &format!("%{}", sp))); n += 1; }
    }
    bump("datetime_events", n);
    // 4. NaiveDateTime: %s, %c, composites
    n = 0;
    for f in ["%s", "%-s", "%_s", "%0s", "%c", "%F %T", "%D %r", "%v %R", "%x %X"] {
        for (i, x) in nds.iter().enumerate() { if i % ctx.t(3, 1) == 0 { tw.emit(fmt_event(&Val::N(*x), f)); n += 1; } }
    }
    bump("naive_datetime_events", n);
    // 5. every specifier x every modifier on all four types: invalid combinations and missing fields must fail
    n = 0;
    let sample: [Val; 8] = [
        Val::D(NaiveDate::from_ymd_opt(2001, 7, 8).unwrap()), Val::D(NaiveDate::from_ymd_opt(-99, 1, 3).unwrap()),
        Val::T(NaiveTime::from_hms_nano_opt(0, 34, 59, 1_026_490_000).unwrap()), Val::T(NaiveTime::from_hms_opt(13, 5, 7).unwrap()),
        Val::N(NaiveDate::from_ymd_opt(2001, 7, 8).unwrap().and_hms_nano_opt(0, 34, 59, 1_026_490_000).unwrap()),
        Val::N(NaiveDate::from_ymd_opt(12345, 12, 31).unwrap().and_hms_opt(23, 59, 59).unwrap()),
        Val::Z(dts(&[NaiveDate::from_ymd_opt(2001, 7, 8).unwrap().and_hms_nano_opt(0, 34, 59, 1_026_490_000).unwrap()], &[34200])[0]),
        Val::Z(dts(&[NaiveDate::from_ymd_opt(-1, 2, 28).unwrap().and_hms_nano_opt(12, 0, 0, 7000).unwrap()], &[-3629])[0]),
    ];
    for sp in specs.iter() {
        for pad in ["", "-", "_", "0", "#"] {
            let f = format!("%{}{}", pad, sp);
            for v in sample.iter() { tw.emit(fmt_event(v, &f)); n += 1; }
            tw.emit(items_event(&f));
        }
    }
    bump("matrix_events", n);
    // 6. tokenisation: truncations and one-character edits of every specifier, and the documented expansions
    n = 0;
    let mut tok: Vec<String> = vec!["".into(), "%".into(), "%%".into(), "%%%".into(), " ".into(), "a b".into(), "%Y-%Q".into(),
        "%Y-%m-%dT%H:%M:%S%z%Q%.2f%%%".into(), "[%F]".into(), "100%% ok".into(), "%ZZZZ".into(), "%😽😽".into(), "%m/%d/%y".into(),
        "%Y-%m-%d".into(), "%e-%b-%Y".into(), "%H:%M".into(), "%H:%M:%S".into(), "%I:%M:%S %p".into(), "%a %b %e %H:%M:%S %Y".into()];
    for sp in specs.iter() {
        for pad in ["", "-", "_", "0", "#"] {
            let f = format!("%{}{}", pad, sp);
            for tail in ["", "x", "%", " ", "é", "z", "f", ":z", "3f"] { tok.push(format!("{}{}", f, tail)); }
            for cut in 1..f.len() { if f.is_char_boundary(cut) { tok.push(f[..cut].to_string()); tok.push(format!("{}Q", &f[..cut])); tok.push(format!("{}é ", &f[..cut])); } }
        }
    }
    // POSIX E and O modifiers (not supported: errors), stacked flags
    for m in ["E", "O"] { for c in ["c", "C", "x", "X", "y", "Y", "d", "e", "H", "I", "m", "M", "S", "u", "U", "V", "w", "W", "z", "%"] { tok.push(format!("%{}{}", m, c)); tok.push(format!("%-{}{}", m, c)); } }
    for fl in ["-0", "0-", "--", "00", "_-", "-_", "#-", "-#", "__"] { for c in ["d", "Y", "H", "j", "z", "f"] { tok.push(format!("%{}{}", fl, c)); } }
    tok.sort(); tok.dedup();
    for f in tok.iter() { tw.emit(items_event(f)); n += 1; }
    bump("tokenisation_lattice_events", n);
    // 7. seeded random format strings: tokenisation of each, formatting on a random value
    n = 0;
    let all_vals: Vec<Val> = {
        let mut v: Vec<Val> = Vec::new();
        v.extend(zs_all.iter().map(|z| Val::Z(*z)));
        v.extend(nds.iter().step_by(4).map(|x| Val::N(*x)));
        v.extend(ds.iter().step_by(5).map(|x| Val::D(*x)));
        v.extend(ts.iter().step_by(5).map(|x| Val::T(*x)));
        v
    };
    for i in 0..ctx.t(4000, 150_000) {
        let f = random_format(&mut rng, &specs);
        if i % 4 == 0 { tw.emit(items_event(&f)); n += 1; }
        // mostly zone-aware values (every item can succeed), sometimes a type that lacks fields
        let v = if rng.chance(2, 3) { Val::Z(zs_all[rng.below(zs_all.len())]) } else { *rng.pick(&all_vals) };
        tw.emit(fmt_event(&v, &f)); n += 1;
    }
    bump("random_format_events", n);
    // 8. Display under width / alignment flags: the rendered text padded by character count
    n = 0;
    let pad_formats = ["%Y年%m月%d日", "é%Hh", "%A 😽", "%B", "%Y-%m-%d", "日本", "%e%b", "", "%H:%M:%S", "%Q"];
    for (i, v) in all_vals.iter().enumerate() {
        if i % ctx.t(9, 2) != 0 { continue; }
        for (j, f) in pad_formats.iter().enumerate() {
            let chars = match v.display(f).get("ok") { Some(t) => t.as_array().map(|a| a.len()).unwrap_or(0), None => 3 };
            for (k, w) in [0, 1, chars.saturating_sub(1), chars, chars + 1, chars + 2, chars + 5, 40].iter().enumerate() {
                if (i + j + k) % ctx.t(3, 1) != 0 { continue; }
                tw.emit(fmt_pad_event(v, f, *w, ['<', '^', '>'][(i / ctx.t(9, 2) + j + k) % 3])); n += 1;
            }
        }
    }
    bump("padded_display_events", n);
    // 8b. digit-pair witnesses, and a sequence in which consecutive values share a component (one-entry memos / scratch state in the writer)
    n = 0;
    for f in ["%Y-%m-%d %H:%M:%S", "%C|%y|%G|%g", "%D %T", "%F %R", "%c", "%+", "%v %r", "%e %k %l %I", "%j %U %W %V"] {
        for (i, v) in pair_witnesses().iter().enumerate() {
            if ctx.quick() && (i + f.len()) % 2 != 0 { continue; }
            tw.emit(fmt_event(&Val::Z(dts(&[*v], &[OFFSETS[i % OFFSETS.len()]])[0]), f)); n += 1;
        }
    }
    for f in ["%Y-%m-%d", "%j", "%D", "%v", "%x", "%F|%a %b", "%U %W %G-%V-%u"] {
        for d in memo_sequence() { tw.emit(fmt_event(&Val::D(d), f)); n += 1; }
    }
    for f in ["%+", "%c"] { for d in memo_sequence() { tw.emit(fmt_event(&Val::Z(dts(&[d.and_time(ts[0])], &[0])[0]), f)); n += 1; } }
    bump("witness_and_sequence_events", n);
    // 8c. digit groups of the fraction through every fraction specifier and %+
    n = 0;
    for (i, f) in fraction_groups().into_iter().enumerate() {
        let z = dts(&[ds[i % ds.len()].and_time(mk_time_any(45_296 + (i as u32 % 60), f))], &[OFFSETS[i % OFFSETS.len()]]);
        if z.is_empty() { continue; }
        for fm in ["%.f", "%+", "%f|%.3f|%.6f|%.9f|%3f|%6f|%9f"] { tw.emit(fmt_event(&Val::Z(z[0]), fm)); n += 1; }
    }
    // offsets whose seconds round the minutes up, and the minutes the hours (x:59:30 and above): 0:59, 9:59 (one digit -> two), 22:59, 23:59
    for h in [0i32, 1, 9, 10, 22, 23] { for s in [29i32, 30, 31, 59] { for sign in [1, -1] {
        let o = sign * (h * 3600 + 59 * 60 + s);
        if o.abs() >= 86_400 { continue; }
        let z = dts(&[ds[(h as usize * 7 + s as usize) % ds.len()].and_time(ts[0])], &[o]);
        if z.is_empty() { continue; }
        for fm in ["%z", "%:z", "%::z", "%:::z", "%+", "%#z"] { tw.emit(fmt_event(&Val::Z(z[0]), fm)); n += 1; }
    } } }
    bump("fraction_group_and_offset_carry_events", n);
    // 9. DelayedFormat built from its parts: every presence pattern of (date, time, offset)
    n = 0;
    let part_formats = ["%Y-%m-%d", "%H:%M:%S%.f", "%z", "%:z %Z", "%s", "%c", "%+", "%F %T %z", "%a %j %U", "%I %p", "%e|%k|%::z", "%%", "x"];
    for (i, z) in zs_all.iter().enumerate() {
        if i % ctx.t(11, 3) != 0 { continue; }
        let (d, t, o) = (z.naive_local().date(), z.naive_local().time(), z.offset().local_minus_utc());
        for mask in 0..8u32 {
            for (j, f) in part_formats.iter().enumerate() {
                if (i + j + mask as usize) % ctx.t(3, 1) != 0 { continue; }
                tw.emit(fmt_parts_event(if mask & 1 != 0 { Some(d) } else { None }, if mask & 2 != 0 { Some(t) } else { None }, if mask & 4 != 0 { Some(o) } else { None }, f)); n += 1;
            }
        }
    }
    bump("delayed_format_parts_events", n);
    tw.finish();
    counts.insert("events".into(), json!(tw.total));
    counts.insert("dates".into(), json!(ds.len()));
    counts.insert("times".into(), json!(ts.len()));
    counts.insert("datetimes".into(), json!(zs_all.len()));
    Value::Object(counts)
}
