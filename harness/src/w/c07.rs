//! C07: time-of-day arithmetic wraps by whole days and honours leap-second operands.
use super::Ctx;
use crate::big::big;
use crate::ev;
use crate::out::Tw;
use crate::proj::*;
use crate::rng::Rng;
use chrono::{FixedOffset, NaiveTime, Timelike};
use serde_json::{json, Value};

fn ot(o: Option<NaiveTime>) -> Value { opt(o, tod) }

pub fn time_lattice(rng: &mut Rng, extra: usize) -> Vec<NaiveTime> {
    let mut secs: Vec<u32> = vec![0, 1, 58, 59, 60, 61, 3599, 3600, 43199, 43200, 86340, 86398, 86399];
    for _ in 0..extra { secs.push(rng.range(0, 86399) as u32); }
    let fracs: [u32; 9] = [0, 1, 500_000_000, 999_999_999, 1_000_000_000, 1_000_000_001, 1_500_000_000, 1_999_999_998, 1_999_999_999];
    let mut v = Vec::new();
    for &s in &secs { for &f in &fracs { v.push(mk_time_any(s, f)); } }
    for _ in 0..extra * 4 { v.push(mk_time_any(rng.range(0, 86399) as u32, rng.range(0, 1_999_999_999) as u32)); }
    v
}

pub fn dur_lattice_for(t: NaiveTime, rng: &mut Rng, extra: usize) -> Vec<i128> {
    let f = t.nanosecond() as i128;
    let s = t.num_seconds_from_midnight() as i128;
    let mut base: Vec<i128> = vec![0, 1, NS - 1, NS, NS + 1, 2 * NS - 1, 2 * NS, 60 * NS, 3600 * NS, 86_399 * NS, 86_400 * NS - 1, 86_400 * NS, 86_400 * NS + 1,
        172_800 * NS, 1_000_000_000_000 * NS, DUR_LIM - 1, DUR_LIM,
        // distances to the case boundaries of this operand
        (NS - f).abs(), (NS - f).abs() + 1, ((NS - f).abs() - 1).max(0), (2 * NS - f).abs(), ((2 * NS - f).abs() - 1).max(0), (2 * NS - f).abs() + 1,
        f, f + 1, (f - 1).max(0), f % NS, s * NS + f, s * NS + f + 1, (86_400 - s) * NS - f % NS, ((86_400 - s) * NS - f % NS - 1).max(0)];
    for _ in 0..extra {
        base.push(match rng.below(4) { 0 => rng.range(0, 2_000_000_000) as i128, 1 => rng.range(0, 200_000) as i128 * NS + rng.range(0, 999_999_999) as i128,
                                       2 => (rng.next() as i128) % DUR_LIM, _ => (rng.next() % 4_000_000_000) as i128 });
    }
    let mut v = Vec::new();
    for b in base { if b <= DUR_LIM { v.push(b); v.push(-b); } }
    v.sort(); v.dedup();
    v
}

/// A constructor call through both public routes: the `_opt` form and the deprecated panicking form (whose documented panic is the
/// same outcome as `None`); both judged by the same action of TimeOfDay.tla.
#[allow(deprecated)]
fn hmsn_events(h: u32, m: u32, s: u32, sub: u32, unit: u32) -> Vec<Value> {
    let args = |route: &str| json!({"h": big(h as i128), "m": big(m as i128), "s": big(s as i128), "sub": big(sub as i128), "unit": unit, "route": route});
    let mut v = vec![
        ev("t.hmsn", args("opt"), || json!({"r": ot(match unit { 1 => NaiveTime::from_hms_nano_opt(h, m, s, sub), 1_000 => NaiveTime::from_hms_micro_opt(h, m, s, sub), _ => NaiveTime::from_hms_milli_opt(h, m, s, sub) })})),
        ev("t.hmsn", args("panicking"), || json!({"r": ot(crate::guard(|| match unit { 1 => NaiveTime::from_hms_nano(h, m, s, sub), 1_000 => NaiveTime::from_hms_micro(h, m, s, sub), _ => NaiveTime::from_hms_milli(h, m, s, sub) }).ok())})),
    ];
    if sub == 0 {
        v.push(ev("t.hmsn", args("from_hms_opt"), || json!({"r": ot(NaiveTime::from_hms_opt(h, m, s))})));
        v.push(ev("t.hmsn", args("from_hms"), || json!({"r": ot(crate::guard(|| NaiveTime::from_hms(h, m, s)).ok())})));
    }
    v
}

pub fn run(ctx: &Ctx) -> Value {
    let mut tw = Tw::new(&ctx.out, "Trace_TimeOfDay", ctx.t(3_000, 20_000));
    let mut rng = Rng::new(ctx.seed ^ 0x07);
    // constructors
    let hs: Vec<u32> = vec![0, 1, 12, 23, 24, 25, u32::MAX];
    let ms: Vec<u32> = vec![0, 1, 59, 60, u32::MAX];
    let ss: Vec<u32> = vec![0, 58, 59, 60, 61, u32::MAX];
    let mut n_ctor = 0;
    for &h in &hs { for &m in &ms { for &s in &ss {
        for (unit, subs) in [(1u32, vec![0u32, 1, 999_999_999, 1_000_000_000, 1_000_000_001, 1_999_999_999, 2_000_000_000, 2_147_483_648, u32::MAX]),
                             (1_000, vec![0, 999_999, 1_000_000, 1_999_999, 2_000_000, 4_294_967, 4_294_968, u32::MAX]),
                             (1_000_000, vec![0, 999, 1_000, 1_999, 2_000, 4_294, 4_295, u32::MAX])] {
            for sub in subs {
                for e in hmsn_events(h, m, s, sub, unit) { tw.emit(e); }
                n_ctor += 1;
            }
        }
        tw.emit(ev("t.hmsn", json!({"h": big(h as i128), "m": big(m as i128), "s": big(s as i128), "sub": big(0), "unit": 1}), || json!({"r": ot(NaiveTime::from_hms_opt(h, m, s))})));
    }}}
    // width aliases of valid arguments
    for a in crate::rng::alias_u32(23) { tw.emit(ev("t.hmsn", json!({"h": big(a as i128), "m": big(59), "s": big(59), "sub": big(0), "unit": 1}), || json!({"r": ot(NaiveTime::from_hms_nano_opt(a, 59, 59, 0))}))); }
    for a in crate::rng::alias_u32(59) {
        tw.emit(ev("t.hmsn", json!({"h": big(23), "m": big(a as i128), "s": big(59), "sub": big(0), "unit": 1}), || json!({"r": ot(NaiveTime::from_hms_nano_opt(23, a, 59, 0))})));
        tw.emit(ev("t.hmsn", json!({"h": big(23), "m": big(59), "s": big(a as i128), "sub": big(0), "unit": 1}), || json!({"r": ot(NaiveTime::from_hms_nano_opt(23, 59, a, 0))})));
        tw.emit(ev("t.hmsn", json!({"h": big(23), "m": big(59), "s": big(a as i128), "sub": big(5), "unit": 1000}), || json!({"r": ot(NaiveTime::from_hms_micro_opt(23, 59, a, 5))})));
    }
    for a in crate::rng::alias_u32(999) { tw.emit(ev("t.hmsn", json!({"h": big(1), "m": big(2), "s": big(3), "sub": big(a as i128), "unit": 1_000_000}), || json!({"r": ot(NaiveTime::from_hms_milli_opt(1, 2, 3, a))}))); }
    for a in crate::rng::alias_u32(86_399) { tw.emit(ev("t.nsfm", json!({"secs": big(a as i128), "n": big(0)}), || json!({"r": ot(NaiveTime::from_num_seconds_from_midnight_opt(a, 0))}))); }
    for secs in [0u32, 58, 59, 60, 119, 86_339, 86_398, 86_399, 86_400, 86_401, 1 << 31, u32::MAX] {
        for n in [0u32, 1, 999_999_999, 1_000_000_000, 1_999_999_999, 2_000_000_000, u32::MAX] {
            tw.emit(ev("t.nsfm", json!({"secs": big(secs as i128), "n": big(n as i128)}), || json!({"r": ot(NaiveTime::from_num_seconds_from_midnight_opt(secs, n))})));
            #[allow(deprecated)]
            tw.emit(ev("t.nsfm", json!({"secs": big(secs as i128), "n": big(n as i128), "route": "panicking"}), || json!({"r": ot(crate::guard(|| NaiveTime::from_num_seconds_from_midnight(secs, n)).ok())})));
            n_ctor += 2;
        }
    }
    for _ in 0..ctx.t(500, 50_000) {
        let (h, m, s, n) = (rng.range(0, 26) as u32, rng.range(0, 62) as u32, rng.range(0, 62) as u32, rng.range(0, 2_100_000_000) as u32);
        for e in hmsn_events(h, m, s, n, 1) { tw.emit(e); }
    }
    // accessors, field replacement, arithmetic
    let times = time_lattice(&mut rng, ctx.t(6, 60));
    let mut n_arith = 0;
    for &t in &times {
        tw.emit(ev("t.acc", json!({"t": tod(t)}), || { let (pm, h12) = t.hour12();
            json!({"h": t.hour(), "mi": t.minute(), "s": t.second(), "ns": t.nanosecond(), "nsfm": t.num_seconds_from_midnight(), "h12": [pm, h12]}) }));
        // the same accessors through the other implementors of Timelike (provided methods of the trait may or may not be overridden)
        {
            let x = chrono::NaiveDate::from_ymd_opt(2015, 6, 30).unwrap().and_time(t);
            tw.emit(ev("t.acc", json!({"t": tod(t), "route": "NaiveDateTime"}), || { let (pm, h12) = x.hour12();
                json!({"h": x.hour(), "mi": x.minute(), "s": x.second(), "ns": x.nanosecond(), "nsfm": x.num_seconds_from_midnight(), "h12": [pm, h12]}) }));
            for off in [0, 3600, -34_230] {
                use chrono::TimeZone;
                if let Some(z) = chrono::FixedOffset::east_opt(off).unwrap().from_local_datetime(&x).single() {
                    tw.emit(ev("t.acc", json!({"t": tod(t), "route": "DateTime<FixedOffset>", "off": off}), || { let (pm, h12) = z.hour12();
                        json!({"h": z.hour(), "mi": z.minute(), "s": z.second(), "ns": z.nanosecond(), "nsfm": z.num_seconds_from_midnight(), "h12": [pm, h12]}) }));
                }
            }
        }
        for (f, vals) in [("hour", vec![0u32, 11, 12, 23, 24, u32::MAX]), ("minute", vec![0, 30, 59, 60, u32::MAX]), ("second", vec![0, 58, 59, 60, u32::MAX]),
                          ("nanosecond", vec![0, 1, 999_999_999, 1_000_000_000, 1_999_999_999, 2_000_000_000, u32::MAX])] {
            for v in vals {
                tw.emit(ev("t.with", json!({"f": f, "t": tod(t), "v": big(v as i128)}), || json!({"r": ot(match f {
                    "hour" => t.with_hour(v), "minute" => t.with_minute(v), "second" => t.with_second(v), _ => t.with_nanosecond(v) })})));
            }
        }
        // field replacement through a zone-aware value whose offset has a seconds part: it acts on the WALL clock's time of day
        if t.nanosecond() >= 1_000_000_000 || n_arith % 5 == 0 {
            use chrono::TimeZone;
            for off in [15, -13_236, 3_599, -1] {
                let fo = chrono::FixedOffset::east_opt(off).unwrap();
                let z = fo.from_utc_datetime(&chrono::NaiveDate::from_ymd_opt(2015, 6, 30).unwrap().and_time(t));
                let wall = match crate::guard(|| z.naive_local().time()) { Ok(w) => w, Err(_) => continue };
                for (f, v) in [("second", 0u32), ("second", 30), ("second", 59), ("minute", 7), ("hour", 3), ("nanosecond", 0), ("nanosecond", 1_700_000_000)] {
                    tw.emit(ev("t.with", json!({"f": f, "t": tod(wall), "v": big(v as i128), "route": "DateTime<FixedOffset>", "off": off}), || json!({"r": opt(match f {
                        "hour" => z.with_hour(v), "minute" => z.with_minute(v), "second" => z.with_second(v), _ => z.with_nanosecond(v) }, |q| tod(q.naive_local().time()))})));
                }
            }
        }
        for d in dur_lattice_for(t, &mut rng, ctx.t(2, 12)) {
            let td = match mk_dur(d) { Some(x) => x, None => continue };
            tw.emit(ev("t.add", json!({"t": tod(t), "d": big(d)}), || { let (r, c) = t.overflowing_add_signed(td); json!({"r": tod(r), "carry": big(c as i128)}) }));
            tw.emit(ev("t.sub", json!({"t": tod(t), "d": big(d)}), || { let (r, c) = t.overflowing_sub_signed(td); json!({"r": tod(r), "carry": big(c as i128)}) }));
            n_arith += 2;
            if n_arith % 7 == 0 {
                tw.emit(ev("t.plus", json!({"t": tod(t), "d": big(d), "via": "add_assign"}), || { let mut x = t; x += td; json!({"r": tod(x)}) }));
                tw.emit(ev("t.minus", json!({"t": tod(t), "d": big(d), "via": "sub_assign"}), || { let mut x = t; x -= td; json!({"r": tod(x)}) }));
                if d >= 0 { if let Ok(sd) = td.to_std() {
                    tw.emit(ev("t.plus", json!({"t": tod(t), "d": big(d), "via": "add_assign_std"}), || { let mut x = t; x += sd; json!({"r": tod(x)}) }));
                    tw.emit(ev("t.minus", json!({"t": tod(t), "d": big(d), "via": "sub_assign_std"}), || { let mut x = t; x -= sd; json!({"r": tod(x)}) }));
                }}
            }
            if n_arith % 5 == 0 {
                tw.emit(ev("t.plus", json!({"t": tod(t), "d": big(d)}), || json!({"r": tod(t + td)})));
                tw.emit(ev("t.minus", json!({"t": tod(t), "d": big(d)}), || json!({"r": tod(t - td)})));
                if d >= 0 { if let Ok(sd) = td.to_std() {
                    tw.emit(ev("t.plus", json!({"t": tod(t), "d": big(d)}), || json!({"r": tod(t + sd)})));
                    tw.emit(ev("t.minus", json!({"t": tod(t), "d": big(d)}), || json!({"r": tod(t - sd)})));
                }}
            }
        }
        for off in [0, 1, -1, 59, 3600, -3600, 43_200, 86_399, -86_399] {
            let fo = FixedOffset::east_opt(off).unwrap();
            tw.emit(ev("t.plusoff", json!({"t": tod(t), "off": off}), || json!({"r": tod(t + fo)})));
            tw.emit(ev("t.minusoff", json!({"t": tod(t), "off": off}), || json!({"r": tod(t - fo)})));
        }
    }
    // pairs
    let pairs = ctx.t(8_000, 400_000);
    for i in 0..pairs {
        let a = *rng.pick(&times);
        let b = if i % 4 == 0 { mk_time_any(a.num_seconds_from_midnight(), rng.range(0, 1_999_999_999) as u32) } else { *rng.pick(&times) };
        tw.emit(ev("t.since", json!({"a": tod(a), "b": tod(b)}), || json!({"r": dur(a.signed_duration_since(b))})));
        if i % 4 == 1 { tw.emit(ev("t.since", json!({"a": tod(a), "b": tod(b)}), || json!({"r": dur(a - b)}))); }
        if i % 8 == 2 { tw.emit(ev("t.cmp", json!({"a": tod(a), "b": tod(b)}), || json!({"c": a.cmp(&b) as i8}))); }
    }
    // date-times with a leap-second operand: the same rules with the carry applied to the date (judged by Instant.tla),
    // through the checked forms, the operators, compound assignment and std::time::Duration
    let mut ti = Tw::new(&ctx.out, "Trace_Instant", ctx.t(2_000, 15_000));
    {
        use chrono::NaiveDateTime;
        let days = [crate::w::c01::MIN_DAY, crate::w::c01::MIN_DAY + 1, 719_163, 736_329, crate::w::c01::MAX_DAY - 1, crate::w::c01::MAX_DAY];
        let mut n_dt = 0usize;
        for (i, &t) in times.iter().enumerate() {
            if t.nanosecond() < 1_000_000_000 && i % 4 != 0 { continue; }
            if ctx.quick() && i % 3 != 0 { continue; }
            let x: NaiveDateTime = mk_date(days[i % days.len()]).and_time(t);
            for d in dur_lattice_for(t, &mut rng, 1) {
                if ctx.quick() && d.unsigned_abs() % 3 == 1 { continue; }
                let td = match mk_dur(d) { Some(x) => x, None => continue };
                ti.emit(ev("dt.add", json!({"dt": ndt(x), "d": big(d)}), || json!({"r": opt(x.checked_add_signed(td), ndt)})));
                ti.emit(ev("dt.sub", json!({"dt": ndt(x), "d": big(d)}), || json!({"r": opt(x.checked_sub_signed(td), ndt)})));
                n_dt += 2;
                if n_dt % 4 == 0 {
                    ti.emit(ev("o.dt.add", json!({"dt": ndt(x), "d": big(d), "via": "add"}), || json!({"r": ndt(x + td)})));
                    ti.emit(ev("o.dt.sub", json!({"dt": ndt(x), "d": big(d), "via": "sub_assign"}), || { let mut y = x; y -= td; json!({"r": ndt(y)}) }));
                    if d >= 0 { if let Ok(sd) = td.to_std() {
                        ti.emit(ev("o.dt.add", json!({"dt": ndt(x), "d": big(d), "via": "add_std"}), || json!({"r": ndt(x + sd)})));
                        ti.emit(ev("o.dt.sub", json!({"dt": ndt(x), "d": big(d), "via": "sub_std"}), || json!({"r": ndt(x - sd)})));
                        ti.emit(ev("o.dt.add", json!({"dt": ndt(x), "d": big(d), "via": "add_assign_std"}), || { let mut y = x; y += sd; json!({"r": ndt(y)}) }));
                    }}
                }
            }
            let o = mk_date(days[(i + 1) % days.len()]).and_time(*rng.pick(&times));
            ti.emit(ev("dt.since", json!({"a": ndt(x), "b": ndt(o)}), || json!({"r": dur(x.signed_duration_since(o)), "c": x.cmp(&o) as i8})));
            ti.emit(ev("dt.since", json!({"a": ndt(o), "b": ndt(x), "via": "sub_op"}), || json!({"r": dur(o - x), "c": o.cmp(&x) as i8})));
        }
    }
    ti.finish();
    tw.finish();
    json!({"events": tw.total + ti.total, "datetime_leap_events": ti.total, "constructor_events": n_ctor, "times": times.len(), "add_sub_events": n_arith, "pair_events": pairs})
}
