//! C04: zone-aware date-times: one instant, many wall clocks.
use super::Ctx;
use crate::big::big;
use crate::ev;
use crate::out::Tw;
use crate::proj::*;
use crate::rng::Rng;
use crate::w::c01::{MAX_DAY, MIN_DAY};
use chrono::{DateTime, Datelike, Days, FixedOffset, Months, NaiveDateTime, TimeZone, Timelike, Utc};
use serde_json::{json, Value};
use std::hash::{Hash, Hasher};

type Dz = DateTime<FixedOffset>;
fn odz(o: Option<Dz>) -> Value { opt(o, |z| ndt(z.naive_utc())) }
fn h(z: &Dz) -> u64 { let mut s = std::collections::hash_map::DefaultHasher::new(); z.hash(&mut s); s.finish() }
fn mk(u: NaiveDateTime, off: i32) -> Dz { FixedOffset::east_opt(off).unwrap().from_utc_datetime(&u) }

pub const OFFS: [i32; 17] = [0, 1, -1, 59, -59, 60, -60, 3599, 3600, -3600, 19_800, 43_200, -43_200, 86_398, 86_399, -86_398, -86_399];

pub fn instants(rng: &mut Rng, extra: usize) -> Vec<NaiveDateTime> {
    let mut v = Vec::new();
    for (n, s) in [(MIN_DAY, 0u32), (MIN_DAY, 1), (MIN_DAY, 86_399), (MIN_DAY + 1, 0), (MIN_DAY + 1, 43_200), (MAX_DAY, 86_399), (MAX_DAY, 86_398), (MAX_DAY, 0), (MAX_DAY - 1, 86_399), (MAX_DAY - 1, 3),
                   (738_885, 84_600), (738_886, 1_800), (739_251, 84_600), (739_252, 1_800), (738_945, 84_600), (738_946, 1_800), (738_579, 84_600), (738_580, 1_800),   // 2023/24/25 year ends, Feb 29 / Mar 1 2024, Feb 28 / Mar 1 2023
                   (719_163, 0), (730_179, 86_399), (730_120 + 59, 0), (738_000, 43_200), (0, 0), (1, 0)] {
        // a leap second on the very last representable second lies beyond MAX_UTC: not a value of the property's domain
        for f in [0u32, 999_999_999, 1_500_000_000] { if !(n == MAX_DAY && s == 86_399 && f >= 1_000_000_000) { v.push(mk_ndt(n, s, f)); } }
    }
    for _ in 0..extra { v.push(mk_ndt(rng.range(MIN_DAY, MAX_DAY), rng.range(0, 86_399) as u32, rng.range(0, 999_999_999) as u32)); }
    // every binary scale of the range (thinned in the quick tier), near midnight so that offsets move the date
    let sd = scale_days();
    for (i, n) in sd.iter().enumerate() { if extra >= 1000 || i % 6 == 0 { v.push(mk_ndt(*n, if i % 2 == 0 { 1_800 } else { 84_600 }, 0)); } }
    v
}

fn with_event(op: &str, z: Dz, u: NaiveDateTime, off: i32, f: &str, v: i64, reg: bool) -> (Value, Option<Dz>) {
    let r = crate::guard(|| match f {
        "hour" => z.with_hour(v as u32), "minute" => z.with_minute(v as u32), "second" => z.with_second(v as u32), "nanosecond" => z.with_nanosecond(v as u32),
        "day" => z.with_day(v as u32), "day0" => z.with_day0(v as u32), "month" => z.with_month(v as u32), "month0" => z.with_month0(v as u32),
        "ordinal" => z.with_ordinal(v as u32), "ordinal0" => z.with_ordinal0(v as u32), _ => z.with_year(v as i32) });
    let args = if reg { json!({"f": f, "off": off, "v": big(v as i128)}) } else { json!({"f": f, "u": ndt(u), "off": off, "v": big(v as i128)}) };
    let rr = r.clone();
    (ev(op, args, move || json!({"r": odz(rr.unwrap())})), r.unwrap_or(None))
}

pub fn run(ctx: &Ctx) -> Value {
    let mut tw = Tw::new(&ctx.out, "Trace_DateTimeTz", ctx.t(2_500, 15_000));
    let mut sh = Tw::new(&ctx.out, "Trace_Show", ctx.t(2_500, 15_000));
    let mut st = Tw::new(&ctx.out, "Trace_Strftime", ctx.t(2_500, 15_000));
    let mut rng = Rng::new(ctx.seed ^ 0x04);
    let us = instants(&mut rng, ctx.t(30, 3_000));
    tw.emit(ev("defaults", json!({}), || json!({"utc": ndt(DateTime::<Utc>::default().naive_utc()), "fixed": ndt(DateTime::<FixedOffset>::default().naive_utc()), "fixed_off": DateTime::<FixedOffset>::default().offset().local_minus_utc(),
        "local": ndt(DateTime::<chrono::Local>::default().naive_utc()), "ndt": ndt(NaiveDateTime::default()), "date": dn(chrono::NaiveDate::default()), "time": tod(chrono::NaiveTime::default()),
        "epoch": ndt(DateTime::UNIX_EPOCH.naive_utc()), "min": ndt(DateTime::<Utc>::MIN_UTC.naive_utc()), "max": ndt(DateTime::<Utc>::MAX_UTC.naive_utc()),
        "nmin": ndt(NaiveDateTime::MIN), "nmax": ndt(NaiveDateTime::MAX), "tmin": tod(chrono::NaiveTime::MIN)})));
    let mut n_ev = [0usize; 4];
    for (i, &u) in us.iter().enumerate() {
        for &off in OFFS.iter() {
            if ctx.quick() && i >= 48 && rng.chance(3, 4) { continue; }
            let fo = FixedOffset::east_opt(off).unwrap();
            let z = mk(u, off);
            tw.emit(ev("from_utc", json!({"u": ndt(u), "off": off}), || json!({"r": ndt(z.naive_utc()), "off2": z.offset().local_minus_utc(), "utcback": ndt(z.to_utc().naive_utc())})));
            // the same through the other constructor and the FixedOffset view (timezone() hands back the zone, here the offset itself)
            tw.emit(ev("from_utc", json!({"u": ndt(u), "off": off, "route": "from_naive_utc_and_offset"}), || { let q = DateTime::<FixedOffset>::from_naive_utc_and_offset(u, fo).fixed_offset();
                json!({"r": ndt(q.naive_utc()), "off2": q.timezone().local_minus_utc(), "utcback": ndt(chrono::DateTime::<chrono::Utc>::from(q).naive_utc())}) }));
            // conversions between the zone-aware types (From impls) and comparisons ACROSS types: the instant is all that matters
            if i % 2 == 0 || i < 40 {
                tw.emit(ev("conv", json!({"u": ndt(u), "off": off}), || {
                    let utc: DateTime<Utc> = DateTime::<Utc>::from(z);
                    let fixed: DateTime<FixedOffset> = DateTime::<FixedOffset>::from(utc);
                    let local: DateTime<chrono::Local> = DateTime::<chrono::Local>::from(z);
                    let lu: DateTime<Utc> = DateTime::<Utc>::from(local);
                    let lf: DateTime<FixedOffset> = DateTime::<FixedOffset>::from(local);
                    let ul: DateTime<chrono::Local> = DateTime::<chrono::Local>::from(utc);
                    let nd: chrono::NaiveDate = chrono::NaiveDate::from(u);
                    let dn_: NaiveDateTime = NaiveDateTime::from(u.date());
                    json!({"fu": ndt(utc.naive_utc()), "uf": ndt(fixed.naive_utc()), "uf_off": fixed.offset().local_minus_utc(), "fl": ndt(local.naive_utc()), "lu": ndt(lu.naive_utc()),
                           "lf": ndt(lf.naive_utc()), "lf_off_same": lf.offset().local_minus_utc() == chrono::Offset::fix(local.offset()).local_minus_utc(), "ul": ndt(ul.naive_utc()),
                           "nd": dn(nd), "dn": ndt(dn_),
                           "eq_x": z == utc && utc == z && fixed == local && local == z, "cmp_x": z.partial_cmp(&utc) == Some(std::cmp::Ordering::Equal) && local.partial_cmp(&fixed) == Some(std::cmp::Ordering::Equal),
                           "since_x": dur(z.signed_duration_since(utc)), "since_l": dur(local.signed_duration_since(z)),
                           "sys": big({ let st = std::time::SystemTime::from(z); match st.duration_since(std::time::UNIX_EPOCH) { Ok(d) => d.as_nanos() as i128, Err(e) => -(e.duration().as_nanos() as i128) } }),
                           "sys_back": ndt(DateTime::<Utc>::from(std::time::SystemTime::from(z)).naive_utc())}) }));
            }
            // wall-clock accessors work in the one-day headroom too
            tw.emit(ev("wall", json!({"u": ndt(u), "off": off}), || { let iw = z.iso_week(); json!({"y": z.year(), "mo": z.month(), "d": z.day(), "ord": z.ordinal(), "wd": wd(z.weekday()),
                "iy": iw.year(), "iw": iw.week(), "h": z.hour(), "mi": z.minute(), "s": z.second(), "ns": z.nanosecond()}) }));
            tw.emit(ev("naive_local", json!({"u": ndt(u), "off": off}), || json!({"r": ndt(z.naive_local())})));
            tw.emit(ev("date_naive", json!({"u": ndt(u), "off": off}), || { let d = z.date_naive(); json!({"n": dn(d)}) }));
            // the wall clock as text (Display / Debug): also - and in particular - when it lies in the one-day headroom (judged by Show.tla)
            { let hr = crate::w::c09::headroom(&u, off);
              if hr == 1 || i % 16 == 0 {
                  sh.emit(ev("show", json!({"ty": "fixed", "u": ndt(u), "off": off, "headroom": hr}), || json!({"display": crate::big::cps(&z.to_string()), "debug": crate::big::cps(&format!("{:?}", z))})));
              } }
            // RFC 3339 text (to_rfc3339 and the %+ item share the writer): leap seconds under offsets with a seconds part in particular
            if u.time().nanosecond() >= 1_000_000_000 || i % 16 == 0 {
                let v = crate::w::c12::Val::Z(z);
                st.emit(crate::w::c12::fmt_event(&v, "%+"));
                st.emit(ev("fmt", json!({"ty": "dt", "v": v.json(), "f": crate::big::cps("%+"), "route": "to_rfc3339"}), || { let t = json!({"ok": crate::big::cps(&z.to_rfc3339())}); json!({"r": t.clone(), "w": t}) }));
            }
            // the wall clock, used as input of from_local_datetime (only when it is a valid naive value)
            if let Ok(w) = crate::guard(|| z.naive_local()) {
                for &off2 in &[off, -off, 0] {
                    let fo2 = FixedOffset::east_opt(off2).unwrap();
                    tw.emit(ev("from_local", json!({"w": ndt(w), "off": off2}), || { let r = fo2.from_local_datetime(&w).single();
                        json!({"r": odz(r), "back": opt(r, |q| ndt(q.naive_local())), "off2": r.map(|q| q.offset().local_minus_utc()).unwrap_or(off2)}) }));
                }
            }
            let newoff = *rng.pick(&OFFS);
            tw.emit(ev("with_tz", json!({"u": ndt(u), "off": off, "newoff": newoff}), || { let q = z.with_timezone(&FixedOffset::east_opt(newoff).unwrap());
                json!({"r": ndt(q.naive_utc()), "off2": q.offset().local_minus_utc()}) }));
            n_ev[0] += 5;
            // relations: equality, order and hash depend on the instant only
            let other_u = if rng.chance(1, 2) { u } else { *rng.pick(&us) };
            let o = mk(other_u, *rng.pick(&OFFS));
            tw.emit(ev("rel", json!({"a": ndt(u), "b": ndt(other_u)}), || json!({"eq": z == o, "c": z.cmp(&o) as i8, "hasheq": h(&z) == h(&o)})));
            // a leap second and the instant one second later with the same fraction are DIFFERENT instants, in that order
            if u.time().nanosecond() >= 1_000_000_000 && !(dn(u.date()) == MAX_DAY && u.time().num_seconds_from_midnight() == 86_399) {
                let s2 = u.time().num_seconds_from_midnight() + 1;
                let nxt = mk_ndt(dn(u.date()) + (s2 / 86_400) as i64, s2 % 86_400, u.time().nanosecond() - 1_000_000_000);
                let o2 = mk(nxt, *rng.pick(&OFFS));
                tw.emit(ev("rel", json!({"a": ndt(u), "b": ndt(nxt), "via": "Ord::cmp"}), || json!({"eq": z == o2, "c": Ord::cmp(&z, &o2) as i8, "hasheq": h(&z) == h(&o2)})));
                tw.emit(ev("rel", json!({"a": ndt(nxt), "b": ndt(u), "via": "partial_cmp"}), || json!({"eq": o2 == z, "c": o2.partial_cmp(&z).unwrap() as i8, "hasheq": h(&z) == h(&o2)})));
                tw.emit(ev("rel", json!({"a": ndt(u), "b": ndt(nxt), "via": "max/min/sort"}), || { let mut v = vec![o2, z]; v.sort(); let c = if v[0] == z && v[1] == o2 && std::cmp::max(z, o2) == o2 && std::cmp::min(z, o2) == z { -1 } else { 1 };
                    let mut bs = std::collections::BTreeSet::new(); bs.insert(z); bs.insert(o2); json!({"eq": bs.len() != 2, "c": c, "hasheq": h(&z) == h(&o2)}) }));
            }
            let ou: DateTime<Utc> = Utc.from_utc_datetime(&other_u);
            tw.emit(ev("rel", json!({"a": ndt(u), "b": ndt(other_u)}), || json!({"eq": z == ou, "c": z.partial_cmp(&ou).unwrap() as i8, "hasheq": true})));
            // field replacement on the wall clock
            let near_end = dn(u.date()) <= MIN_DAY + 1 || dn(u.date()) >= MAX_DAY - 1;
            if near_end || i % 3 == 0 {
                let (wy, wm, wd_, wo) = (z.year() as i64, z.month() as i64, z.day() as i64, z.ordinal() as i64);
                let reps: Vec<(&str, Vec<i64>)> = vec![("hour", vec![0, z.hour() as i64, 23, 24]), ("minute", vec![0, 59, 60]), ("second", vec![0, 59, 60]), ("nanosecond", vec![0, 999_999_999, 1_999_999_999, 2_000_000_000]),
                    ("day", vec![0, 1, wd_, wd_ + 1, wd_ - 1, 28, 31, 32]), ("day0", vec![0, wd_ - 1, wd_, 30, 31]), ("month", vec![0, 1, wm, 2, 12, 13]), ("month0", vec![0, wm - 1, 11, 12]),
                    ("ordinal", vec![0, 1, wo, wo + 1, wo - 1, 365, 366, 367]), ("ordinal0", vec![0, wo - 1, wo, 365, 366]), ("year", vec![wy, wy - 1, wy + 1, 2024, -262_144, -262_143, 262_142, 262_143, i32::MAX as i64])];
                for (f, vals) in reps { for v in vals { if v < 0 && f != "year" { continue; }
                    tw.emit(with_event("tzwith", z, u, off, f, v, false).0); n_ev[1] += 1; } }
                for k in [0u64, 1, 2, 366, u64::MAX] {
                    tw.emit(ev("tzdays", json!({"u": ndt(u), "off": off, "k": big(k as i128)}), || json!({"r": odz(z.checked_add_days(Days::new(k)))})));
                    tw.emit(ev("tzdays", json!({"u": ndt(u), "off": off, "k": big(-(k as i128))}), || json!({"r": odz(z.checked_sub_days(Days::new(k)))})));
                }
                for k in [0u32, 1, 12, 13, 6_291_455, u32::MAX] {
                    tw.emit(ev("tzmonths", json!({"u": ndt(u), "off": off, "k": big(k as i128)}), || json!({"r": odz(z.checked_add_months(Months::new(k)))})));
                    tw.emit(ev("tzmonths", json!({"u": ndt(u), "off": off, "k": big(-(k as i128))}), || json!({"r": odz(z.checked_sub_months(Months::new(k)))})));
                }
                for (s, f) in [(0u32, 0u32), (86_399, 999_999_999), (43_200, 0), (86_399, 1_999_999_999)] {
                    let t = mk_time_any(s, f);
                    tw.emit(ev("with_time", json!({"u": ndt(u), "off": off, "t": tod(t)}), || json!({"r": odz(z.with_time(t).single())})));
                }
                n_ev[2] += 26;
            }
            let _ = fo;
        }
    }
    for arg in [i32::MIN, -86_401, -86_400, -86_399, -3600, -1, 0, 1, 59, 3600, 86_399, 86_400, 86_401, i32::MAX] {
        tw.emit(ev("offset", json!({"arg": arg}), || { let p = |o: Option<FixedOffset>| match o { Some(f) => json!([f.local_minus_utc(), f.utc_minus_local()]), None => json!([]) };
            json!({"east": p(FixedOffset::east_opt(arg)), "west": p(FixedOffset::west_opt(arg))}) }));
    }
    for (k, a, b) in [("none", 0i64, 0i64), ("single", 7, 0), ("ambiguous", 3, 9), ("ambiguous", 9, 3), ("ambiguous", 5, 5)] {
        use chrono::MappedLocalTime as M;
        let m: M<i64> = match k { "none" => M::None, "single" => M::Single(a), _ => M::Ambiguous(a, b) };
        let o = |x: Option<i64>| match x { Some(v) => json!([v]), None => json!([]) };
        tw.emit(ev("mlt", json!({"k": k, "a": a, "b": b}), || json!({"single": o(m.single()), "earliest": o(m.earliest()), "latest": o(m.latest()),
            "mapped": match m.map(|v| v + 1) { M::None => json!([]), M::Single(x) => json!([x]), M::Ambiguous(x, y) => json!([x, y]) }})));
    }
    // sessions: chains of operations on one value; the trace spec checks InstantInRange in every state
    let sessions = ctx.t(500, 20_000);
    for _ in 0..sessions {
        if tw.room() < 16 { tw.roll(); }
        let off = *rng.pick(&OFFS);
        let mut z = mk(*rng.pick(&us[..48.min(us.len())]), off);
        tw.emit(json!({"op": "s.set", "u": ndt(z.naive_utc()), "off": off}));
        for _ in 0..rng.range(3, 12) {
            let (e, r): (Value, Option<Dz>) = match rng.below(5) {
                0 => { let f = *rng.pick(&["hour", "minute", "second", "day", "month", "ordinal", "year", "day0", "month0", "ordinal0", "nanosecond"]);
                       let v = match f { "hour" => rng.range(0, 24), "minute" | "second" => rng.range(0, 60), "day" => rng.range(0, 32), "month" => rng.range(0, 13), "ordinal" => rng.range(0, 367),
                                         "year" => *rng.pick(&[z.year() as i64, z.year() as i64 + 1, z.year() as i64 - 1, -262_144, -262_143, 262_142, 262_143]), "nanosecond" => rng.range(0, 1_999_999_999), _ => rng.range(0, 31) };
                       with_event("s.tzwith", z, z.naive_utc(), off, f, v, true) }
                1 => { let k = *rng.pick(&[0i64, 1, 2, 31, 366]); let neg = rng.chance(1, 2);
                       let r = crate::guard(|| if neg { z.checked_sub_days(Days::new(k as u64)) } else { z.checked_add_days(Days::new(k as u64)) }); let rr = r.clone();
                       (ev("s.tzdays", json!({"off": off, "k": big(if neg { -k } else { k } as i128)}), move || json!({"r": odz(rr.unwrap())})), r.unwrap_or(None)) }
                2 => { let k = *rng.pick(&[0i64, 1, 11, 12, 13]); let neg = rng.chance(1, 2);
                       let r = crate::guard(|| if neg { z.checked_sub_months(Months::new(k as u32)) } else { z.checked_add_months(Months::new(k as u32)) }); let rr = r.clone();
                       (ev("s.tzmonths", json!({"off": off, "k": big(if neg { -k } else { k } as i128)}), move || json!({"r": odz(rr.unwrap())})), r.unwrap_or(None)) }
                3 => { let t = mk_time_any(*rng.pick(&[0u32, 1, 43_200, 86_398, 86_399]), *rng.pick(&[0u32, 999_999_999]));
                       let r = crate::guard(|| z.with_time(t).single()); let rr = r.clone();
                       (ev("s.with_time", json!({"off": off, "t": tod(t)}), move || json!({"r": odz(rr.unwrap())})), r.unwrap_or(None)) }
                _ => { let d = *rng.pick(&[1i128, -1, NS, -NS, 86_399 * NS, -86_399 * NS, 86_400 * NS, -86_400 * NS]);
                       let r = crate::guard(|| z.checked_add_signed(mk_dur(d).unwrap())); let rr = r.clone();
                       (ev("s.add", json!({"off": off, "d": big(d)}), move || json!({"r": odz(rr.unwrap())})), r.unwrap_or(None)) }
            };
            tw.emit(e);
            if let Some(x) = r { z = x; }
            n_ev[3] += 1;
        }
    }
    tw.finish();
    sh.finish();
    st.finish();
    let dz = super::datez::run(ctx);      // the deprecated Date<Tz> type, judged by Trace_DateTz.tla
    json!({"events": tw.total, "instants": us.len(), "offsets": OFFS.len(), "replacement_events": n_ev[1], "session_steps": n_ev[3], "sessions": sessions,
           "wall_clock_text_events": sh.total, "date_tz_events": dz["date_tz_events"], "date_tz_dates": dz["date_tz_dates"]})
}
