//! C19, random tier: numeric conversions (`num_traits::FromPrimitive` through every integer type, `TryFrom<u8>`) and
//! `FromStr` of `Weekday` and `Month` on seeded random integers and strings, judged by `Trace_Enums.tla`.
//! The finite part of the property (7 weekdays, 12 months, 128 sets, all iterator interleavings, the boundary
//! corpus of numbers and strings) is enumerated by TLC and replayed (`src/r/enums.rs`).
use super::Ctx;
use crate::big::cps;
use crate::ev;
use crate::out::Tw;
use crate::rng::Rng;
use chrono::{Month, Weekday};
use num_traits::FromPrimitive;
use serde_json::{json, Value};

fn wdi(w: Weekday) -> i64 {
    match w { Weekday::Mon => 0, Weekday::Tue => 1, Weekday::Wed => 2, Weekday::Thu => 3, Weekday::Fri => 4, Weekday::Sat => 5, Weekday::Sun => 6 }
}
fn moi(m: Month) -> i64 {
    match m {
        Month::January => 1, Month::February => 2, Month::March => 3, Month::April => 4, Month::May => 5, Month::June => 6, Month::July => 7,
        Month::August => 8, Month::September => 9, Month::October => 10, Month::November => 11, Month::December => 12,
    }
}
fn owd(w: Option<Weekday>) -> i64 { w.map(wdi).unwrap_or(-1) }
fn omo(m: Option<Month>) -> i64 { m.map(moi).unwrap_or(-1) }

/// sign + u128 magnitude as base-1000 limbs (`big::big` stops at i128)
fn bigw(neg: bool, mut m: u128) -> Value {
    let mut mag = Vec::new();
    while m > 0 { mag.push((m % 1000) as u32); m /= 1000; }
    json!({"neg": neg && !mag.is_empty(), "mag": mag})
}

const TYPES: [&str; 13] = ["i8", "i16", "i32", "i64", "i128", "isize", "u8", "u16", "u32", "u64", "u128", "usize", "try_u8"];

/// One conversion event: the 128-bit pattern `bits` is reinterpreted in the chosen type (so every value of the type can occur).
fn from_event(ty: &str, bits: u128) -> Value {
    macro_rules! go { ($t:ty, $f:ident, signed) => {{
        let x = bits as $t;
        let (neg, mag) = (x < 0, (x as i128).unsigned_abs());
        ev("from", json!({"ty": ty, "v": bigw(neg, mag)}), || json!({"wd": owd(Weekday::$f(x)), "mo": omo(Month::$f(x))}))
    }}; ($t:ty, $f:ident, unsigned) => {{
        let x = bits as $t;
        ev("from", json!({"ty": ty, "v": bigw(false, x as u128)}), || json!({"wd": owd(Weekday::$f(x)), "mo": omo(Month::$f(x))}))
    }}; }
    match ty {
        "i8" => go!(i8, from_i8, signed), "i16" => go!(i16, from_i16, signed), "i32" => go!(i32, from_i32, signed),
        "i64" => go!(i64, from_i64, signed), "i128" => go!(i128, from_i128, signed), "isize" => go!(isize, from_isize, signed),
        "u8" => go!(u8, from_u8, unsigned), "u16" => go!(u16, from_u16, unsigned), "u32" => go!(u32, from_u32, unsigned),
        "u64" => go!(u64, from_u64, unsigned), "u128" => go!(u128, from_u128, unsigned), "usize" => go!(usize, from_usize, unsigned),
        "try_u8" => {
            let x = bits as u8;
            ev("from", json!({"ty": ty, "v": bigw(false, x as u128)}), || json!({"wd": owd(Weekday::try_from(x).ok()), "mo": omo(Month::try_from(x).ok())}))
        }
        _ => unreachable!(),
    }
}

fn str_event(s: &str) -> Value {
    ev("str", json!({"s": cps(s)}), || json!({"wd": owd(s.parse::<Weekday>().ok()), "mo": omo(s.parse::<Month>().ok())}))
}

const NAMES: [&str; 38] = ["Mon", "Tue", "Wed", "Thu", "Fri", "Sat", "Sun", "Monday", "Tuesday", "Wednesday", "Thursday", "Friday", "Saturday", "Sunday",
    "Jan", "Feb", "Mar", "Apr", "May", "Jun", "Jul", "Aug", "Sep", "Oct", "Nov", "Dec",
    "January", "February", "March", "April", "May", "June", "July", "August", "September", "October", "November", "December"];

fn random_char(rng: &mut Rng) -> char {
    match rng.below(10) {
        0..=4 => (b'a' + rng.below(26) as u8) as char,
        5 => (b'A' + rng.below(26) as u8) as char,
        6 => rng.range(0, 127) as u8 as char,
        7 => *rng.pick(&['\u{17f}', '\u{131}', '\u{130}', '\u{212a}', '\u{e9}', '\u{3000}', '\u{a0}', '\u{ff2d}', '\u{1d5c6}']),
        _ => loop { if let Some(c) = char::from_u32(rng.range(128, 0x2ffff) as u32) { break c; } },
    }
}

fn random_string(rng: &mut Rng) -> String {
    let mut v: Vec<char> = match rng.below(8) {
        // a name in random ASCII case: must be accepted
        0..=2 => rng.pick(&NAMES).chars().map(|c| if rng.chance(1, 2) { c.to_ascii_uppercase() } else { c.to_ascii_lowercase() }).collect(),
        // a name with random edits
        3..=5 => rng.pick(&NAMES).chars().collect(),
        // random letters
        6 => (0..rng.range(0, 10)).map(|_| (b'a' + rng.below(26) as u8) as char).collect(),
        _ => (0..rng.range(0, 12)).map(|_| random_char(rng)).collect(),
    };
    let edits = match rng.below(8) { 0..=2 => 0, 3..=5 => 1, 6 => 2, _ => 3 };
    for _ in 0..edits {
        let n = v.len();
        match rng.below(5) {
            0 if n > 0 => { v.remove(rng.below(n)); }
            1 => { let c = random_char(rng); v.insert(rng.below(n + 1), c); }
            2 if n > 0 => { let i = rng.below(n); v[i] = random_char(rng); }
            3 => v.truncate(rng.below(n + 1)),
            _ => { let t: Vec<char> = rng.pick(&NAMES).chars().collect(); v.extend(t); }
        }
    }
    v.into_iter().collect()
}

/// a 128-bit pattern: uniform, log-uniform, or a small number plus a multiple of 2^8 / 2^16 / 2^32 / 2^64 (what a narrowing cast would wrap)
fn random_bits(rng: &mut Rng) -> u128 {
    let wide = |rng: &mut Rng| ((rng.next() as u128) << 64) | rng.next() as u128;
    match rng.below(6) {
        0 => wide(rng),
        1 => { let b = rng.below(128) as u32; let v = wide(rng) >> (127 - b); if rng.chance(1, 2) { v } else { v.wrapping_neg() } }
        2 => rng.range(-20, 20) as i128 as u128,
        _ => {
            let k = rng.range(0, 13) as u128;
            let w = *rng.pick(&[8u32, 16, 32, 64]);
            let j = match rng.below(3) { 0 => 1u128, 1 => rng.range(1, 1000) as u128, _ => wide(rng) >> w };
            let v = k.wrapping_add(j.wrapping_shl(w));
            if rng.chance(1, 3) { k.wrapping_sub(j.wrapping_shl(w)) } else { v }
        }
    }
}

pub fn run(ctx: &Ctx) -> Value {
    let mut tw = Tw::new(&ctx.out, "Trace_Enums", ctx.t(1_000, 40_000));
    let mut rng = Rng::new(ctx.seed ^ 0xC19);
    let n_num = ctx.t(8_000, 600_000);
    let n_str = ctx.t(6_000, 400_000);
    let mut accepted = 0u64;
    for i in 0..n_num {
        let ty = TYPES[i % TYPES.len()];
        let e = from_event(ty, random_bits(&mut rng));
        if e.get("wd").and_then(|v| v.as_i64()).map(|v| v >= 0).unwrap_or(false) || e.get("mo").and_then(|v| v.as_i64()).map(|v| v >= 0).unwrap_or(false) { accepted += 1; }
        tw.emit(e);
    }
    let mut str_accepted = 0u64;
    for _ in 0..n_str {
        let s = random_string(&mut rng);
        let e = str_event(&s);
        if e.get("wd").and_then(|v| v.as_i64()).map(|v| v >= 0).unwrap_or(false) || e.get("mo").and_then(|v| v.as_i64()).map(|v| v >= 0).unwrap_or(false) { str_accepted += 1; }
        tw.emit(e);
    }
    tw.finish();
    json!({"events": tw.total, "numeric_events": n_num, "numeric_accepted_by_chrono": accepted, "string_events": n_str, "strings_accepted_by_chrono": str_accepted})
}
