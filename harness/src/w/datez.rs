//! The deprecated zone-aware date type `chrono::Date<Tz>` (Date<FixedOffset>, Date<Utc>), driven as part of C04's workload and judged by
//! Trace_DateTz.tla: every date operation is the NaiveDate operation on the one stored date with the offset riding along.
#![allow(deprecated)]
use super::Ctx;
use crate::big::{big, cps};
use crate::ev;
use crate::out::Tw;
use crate::proj::*;
use crate::rng::Rng;
use crate::w::c01::{MAX_DAY, MIN_DAY};
use chrono::{Date, Datelike, FixedOffset, NaiveDate, TimeZone, Utc};
use serde_json::{json, Value};
use std::fmt::Write;
use std::hash::{Hash, Hasher};

type Dz = Date<FixedOffset>;
const NS: i128 = 1_000_000_000;
const DAY: i128 = 86_400 * NS;

fn jz(x: &Dz) -> Value { json!({"n": dn(x.naive_utc()), "off": x.offset().local_minus_utc()}) }
fn oz(o: Option<Dz>) -> Value { opt(o, |x| jz(&x)) }
fn mkz(n: i64, off: i32) -> Dz { FixedOffset::east_opt(off).unwrap().from_utc_date(&mk_date(n)) }
fn hash_of(x: &Dz) -> u64 { let mut s = std::collections::hash_map::DefaultHasher::new(); x.hash(&mut s); s.finish() }
fn text(r: std::fmt::Result, s: String) -> Value { match r { Ok(()) => json!({"ok": cps(&s)}), Err(_) => json!({"err": 1}) } }

pub fn run(ctx: &Ctx) -> Value {
    let mut tw = Tw::new(&ctx.out, "Trace_DateTz", ctx.t(2_000, 10_000));
    let mut rng = Rng::new(ctx.seed ^ 0xDA7E);
    let offs: [i32; 9] = [0, 1, -1, 3600, -3600, 34_230, -12_600, 86_399, -86_399];
    let mut days: Vec<i64> = vec![MIN_DAY, MIN_DAY + 1, MIN_DAY + 365, MAX_DAY, MAX_DAY - 1, MAX_DAY - 365, 0, 1, -365, 366, 719_163, 719_162];
    for y in [1900, 1999, 2000, 2023, 2024, 2025, -1, 0, 1, 9999, 10_000] {
        for (m, d) in [(1, 1), (2, 28), (3, 1), (12, 31), (6, 15)] { days.push(days_from_civil(y, m, d)); }
        if (y % 4 == 0 && y % 100 != 0) || y % 400 == 0 { days.push(days_from_civil(y, 2, 29)); }
    }
    for _ in 0..ctx.t(30, 600) { days.push(rng.range(MIN_DAY, MAX_DAY)); }
    tw.emit(ev("dz.consts", json!({}), || json!({"min": dn(Date::<Utc>::MIN_UTC.naive_utc()), "max": dn(Date::<Utc>::MAX_UTC.naive_utc()),
        "omin": chrono::MIN_DATE.offset().fix_secs(), "omax": chrono::MAX_DATE.offset().fix_secs()})));
    let durs: Vec<i128> = vec![0, 1, -1, NS, -NS, DAY - 1, -(DAY - 1), DAY, -DAY, DAY + 1, -(DAY + 1), 2 * DAY - 1, 365 * DAY, -366 * DAY, 36_525 * DAY,
        (1i128 << 32) * DAY, (1i128 << 31) * DAY, -(1i128 << 31) * DAY, ((1i128 << 32) + 1) * DAY, i64::MAX as i128 * 1_000_000, -(i64::MAX as i128) * 1_000_000];
    let mut n_ev = 0usize;
    for (i, &n) in days.iter().enumerate() {
        let off = offs[i % offs.len()];
        let fo = FixedOffset::east_opt(off).unwrap();
        let d = mk_date(n);
        let x = mkz(n, off);
        let xj = json!({"n": n, "off": off});
        // construction routes
        for route in ["from_utc", "from_utc_date", "from_local_date"] {
            tw.emit(ev("dz.new", json!({"x": xj, "route": route}), || {
                let q: Dz = match route { "from_utc" => Date::from_utc(d, fo), "from_utc_date" => fo.from_utc_date(&d), _ => fo.from_local_date(&d).unwrap() };
                json!({"nu": dn(q.naive_utc()), "nl": dn(q.naive_local()), "off2": q.offset().local_minus_utc(), "tz": q.timezone().local_minus_utc()}) }));
        }
        tw.emit(ev("dz.acc", json!({"x": xj}), || { let iw = x.iso_week(); json!({"y": x.year(), "mo": x.month(), "d": x.day(), "ord": x.ordinal(), "wd": wd(x.weekday()),
            "mo0": x.month0(), "d0": x.day0(), "ord0": x.ordinal0(), "iy": iw.year(), "iw": iw.week()}) }));
        tw.emit(ev("dz.succ", json!({"x": xj}), || json!({"r": oz(x.succ_opt())})));
        tw.emit(ev("dz.pred", json!({"x": xj}), || json!({"r": oz(x.pred_opt())})));
        tw.emit(ev("dz.succ_p", json!({"x": xj}), || json!({"r": jz(&x.succ())})));
        tw.emit(ev("dz.pred_p", json!({"x": xj}), || json!({"r": jz(&x.pred())})));
        // and_time / and_hms*: (date, time) read as a wall clock at the offset; refused when that instant is not representable
        for (secs, frac) in [(0u32, 0u32), (86_399, 999_999_999), (86_399, 1_999_999_999), (43_200, 5), (3_599, 1_000_000_000)] {
            if i % 3 != 0 && !(n <= MIN_DAY + 1 || n >= MAX_DAY - 1) && secs != 0 { continue; }
            let t = mk_time_any(secs, frac);
            tw.emit(ev("dz.and_time", json!({"x": xj, "t": tod(t)}), || { let r = x.and_time(t); json!({"r": opt(r, |q| ndt(q.naive_utc())), "off2": r.map(|q| q.offset().local_minus_utc()).unwrap_or(0)}) }));
        }
        for (h, m, s, sub, unit) in [(0u32, 0u32, 0u32, 0u32, 1u32), (23, 59, 59, 1_999_999_999, 1), (23, 59, 59, 1_999, 1_000_000), (23, 59, 59, 1_999_999, 1_000), (24, 0, 0, 0, 1), (23, 60, 0, 0, 1),
                                    (23, 59, 60, 0, 1), (12, 30, 15, 2_000_000_000, 1), (12, 30, 15, 2_000, 1_000_000), (12, 30, 15, 1_000_000, 1_000), (u32::MAX, 0, 0, 0, 1), (7, 8, 9, 0, 1)] {
            if i % 4 != 0 && !(n <= MIN_DAY + 1 || n >= MAX_DAY - 1) && h != 0 { continue; }
            let args = json!({"x": xj, "h": big(h as i128), "m": big(m as i128), "s": big(s as i128), "sub": big(sub as i128), "unit": unit});
            let res = |r: Option<chrono::DateTime<FixedOffset>>| json!({"r": opt(r, |q| ndt(q.naive_utc())), "off2": r.map(|q| q.offset().local_minus_utc()).unwrap_or(0)});
            tw.emit(ev("dz.and_hms", args.clone(), || res(match unit { 1 => x.and_hms_nano_opt(h, m, s, sub), 1_000 => x.and_hms_micro_opt(h, m, s, sub), _ => x.and_hms_milli_opt(h, m, s, sub) })));
            tw.emit(ev("dz.and_hms_p", args.clone(), || res(Some(match unit { 1 => x.and_hms_nano(h, m, s, sub), 1_000 => x.and_hms_micro(h, m, s, sub), _ => x.and_hms_milli(h, m, s, sub) }))));
            if sub == 0 {
                tw.emit(ev("dz.and_hms", args.clone(), || res(x.and_hms_opt(h, m, s))));
                tw.emit(ev("dz.and_hms_p", args, || res(Some(x.and_hms(h, m, s)))));
            }
            n_ev += 2;
        }
        // elapsed time: whole days, truncated toward zero
        let mut ds: Vec<i128> = durs.iter().cloned().filter(|_| rng.chance(1, if ctx.quick() { 3 } else { 1 })).collect();
        ds.extend([(MAX_DAY - n) as i128 * DAY, (MAX_DAY - n + 1) as i128 * DAY - 1, (MAX_DAY - n + 1) as i128 * DAY, (MIN_DAY - n) as i128 * DAY, (MIN_DAY - n - 1) as i128 * DAY + 1, (MIN_DAY - n - 1) as i128 * DAY]);
        for dd in ds {
            let td = match mk_dur(dd) { Some(t) => t, None => continue };
            tw.emit(ev("dz.add", json!({"x": xj, "d": big(dd)}), || json!({"r": oz(x.checked_add_signed(td))})));
            tw.emit(ev("dz.sub", json!({"x": xj, "d": big(dd)}), || json!({"r": oz(x.checked_sub_signed(td))})));
            match n_ev % 4 {
                0 => tw.emit(ev("dz.add_p", json!({"x": xj, "d": big(dd), "route": "Add"}), || json!({"r": jz(&(x + td))}))),
                1 => tw.emit(ev("dz.sub_p", json!({"x": xj, "d": big(dd), "route": "Sub"}), || json!({"r": jz(&(x - td))}))),
                2 => tw.emit(ev("dz.add_p", json!({"x": xj, "d": big(dd), "route": "AddAssign"}), || { let mut q = x; q += td; json!({"r": jz(&q)}) })),
                _ => tw.emit(ev("dz.sub_p", json!({"x": xj, "d": big(dd), "route": "SubAssign"}), || { let mut q = x; q -= td; json!({"r": jz(&q)}) })),
            }
            n_ev += 3;
        }
        // field replacement
        for (f, vals) in [("year", vec![x.year() as i64, x.year() as i64 + 1, x.year() as i64 - 1, 2023, 2024, -262_143, 262_142, -262_144, 262_143, i32::MIN as i64, i32::MAX as i64]),
                          ("month", vec![0, 1, 2, 12, 13, u32::MAX as i64]), ("month0", vec![0, 1, 11, 12]), ("day", vec![0, 1, 28, 29, 30, 31, 32, u32::MAX as i64]), ("day0", vec![0, 27, 28, 30, 31]),
                          ("ordinal", vec![0, 1, 59, 60, 365, 366, 367]), ("ordinal0", vec![0, 364, 365, 366])] {
            for v in vals {
                if ctx.quick() && rng.chance(1, 2) { continue; }
                tw.emit(ev("dz.with", json!({"x": xj, "f": f, "v": big(v as i128)}), || json!({"r": oz(match f {
                    "year" => x.with_year(v as i32), "month" => x.with_month(v as u32), "month0" => x.with_month0(v as u32), "day" => x.with_day(v as u32), "day0" => x.with_day0(v as u32),
                    "ordinal" => x.with_ordinal(v as u32), _ => x.with_ordinal0(v as u32) })})));
                n_ev += 1;
            }
        }
        let newoff = *rng.pick(&offs);
        tw.emit(ev("dz.with_tz", json!({"x": xj, "newoff": newoff}), || json!({"r": jz(&x.with_timezone(&FixedOffset::east_opt(newoff).unwrap()))})));
        // relations against: itself under another offset, a neighbour, a random other date
        for (m, o2) in [(n, newoff), (if n < MAX_DAY { n + 1 } else { n - 1 }, off), (*rng.pick(&days), newoff), (days_from_civil(civil_from_days(n).0.max(-262_142) - 1, 2, 28), off), (days_from_civil(civil_from_days(n).0.min(262_141) + 1, civil_from_days(n).1, 1), off)] {
            let b = mkz(m, o2);
            let bj = json!({"n": m, "off": o2});
            tw.emit(ev("dz.rel", json!({"a": xj, "b": bj}), || json!({"eq": x == b, "c": x.cmp(&b) as i8, "hasheq": hash_of(&x) == hash_of(&b)})));
            tw.emit(ev("dz.since", json!({"a": xj, "b": bj}), || json!({"r": dur(x.signed_duration_since(b)), "r2": dur(x - mkz(m, off))})));
            tw.emit(ev("dz.years_since", json!({"a": xj, "b": bj}), || json!({"r": x.years_since(mkz(m, off)).map(|v| v as i64).unwrap_or(-1)})));
            n_ev += 3;
        }
        // text
        tw.emit(ev("dz.show", json!({"x": xj}), || json!({"debug": cps(&format!("{:?}", x)), "display": cps(&format!("{}", x))})));
        if i % 5 == 0 { let u = Utc.from_utc_date(&d); tw.emit(ev("dz.show_utc", json!({"n": n}), || json!({"debug": cps(&format!("{:?}", u)), "display": cps(&format!("{}", u))}))); }
        for f in ["%Y-%m-%d", "%F %z", "%:z|%::z|%Z", "%a %b %e %G-W%V-%u %j", "%H", "%s", "%c", "%+", "%D %#z", "%C%y %U %W %w", "%Q"] {
            if i % 3 != 0 && f.len() > 8 { continue; }
            tw.emit(ev("dz.fmt", json!({"x": xj, "f": cps(f)}), || { let mut s = String::new(); let r = write!(s, "{}", x.format(f)); json!({"r": text(r, s)}) }));
            n_ev += 1;
        }
        n_ev += 12;
    }
    tw.finish();
    json!({"date_tz_events": tw.total, "date_tz_dates": days.len()})
}

trait FixSecs { fn fix_secs(&self) -> i32; }
impl FixSecs for Utc { fn fix_secs(&self) -> i32 { use chrono::Offset; self.fix().local_minus_utc() } }
#[allow(dead_code)] fn _unused(_: NaiveDate) {}
