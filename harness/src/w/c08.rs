//! C08: month stepping, field replacement and week helpers follow calendar rules.
use super::Ctx;
use crate::big::big;
use crate::ev;
use crate::out::Tw;
use crate::proj::*;
use crate::rng::Rng;
use crate::w::c01::{MAX_DAY, MIN_DAY};
use chrono::{Datelike, Month, Months, NaiveDate, NaiveDateTime, Timelike};
use num_traits::FromPrimitive;
use serde_json::{json, Value};

pub fn date_lattice(rng: &mut Rng, extra: usize) -> Vec<NaiveDate> {
    let mut v = Vec::new();
    for y in [-262_143, -262_142, -1, 0, 1, 1900, 2000, 2023, 2024, 262_141, 262_142] {
        for m in 1..=12u32 {
            let last = NaiveDate::from_ymd_opt(y, m, 1).unwrap().num_days_in_month() as u32;
            for d in [1, 15, 28, 29, 30, 31] { if d <= last { v.push(NaiveDate::from_ymd_opt(y, m, d).unwrap()); } }
        }
    }
    for n in [MIN_DAY, MIN_DAY + 1, MIN_DAY + 6, MIN_DAY + 7, MAX_DAY - 7, MAX_DAY - 6, MAX_DAY - 1, MAX_DAY] { v.push(mk_date(n)); }
    for _ in 0..extra { v.push(mk_date(rng.range(MIN_DAY, MAX_DAY))); }
    // every binary scale of the range (thinned in the quick tier)
    let sd = scale_days();
    for (i, n) in sd.iter().enumerate() { if extra >= 1000 || i % 3 == (extra % 3) { v.push(mk_date(*n)); } }
    v
}

pub fn run(ctx: &Ctx) -> Value {
    let mut tw = Tw::new(&ctx.out, "Trace_DateOps", ctx.t(3_000, 20_000));
    let mut rng = Rng::new(ctx.seed ^ 0x08);
    let dates = date_lattice(&mut rng, ctx.t(100, 5_000));
    let mut counts = [0usize; 6];
    for (i, &d) in dates.iter().enumerate() {
        let n = dn(d);
        let thin = ctx.quick() && i % 4 != 0;
        // month stepping
        let to_max = ((262_142 - d.year()) as i64 * 12 + (12 - d.month() as i64)) as i64;
        let to_min = ((d.year() + 262_143) as i64 * 12 + (d.month() as i64 - 1)) as i64;
        let mut ks: Vec<i64> = vec![0, 1, 2, 11, 12, 13, 1200, 4800, to_max - 1, to_max, to_max + 1, to_min - 1, to_min, to_min + 1, i32::MAX as i64, i32::MAX as i64 + 1, u32::MAX as i64];
        if thin { ks = vec![1, 12, *rng.pick(&[to_max, to_min, to_max + 1, to_min + 1]), rng.range(0, 7_000_000)]; }
        for _ in 0..ctx.t(0, 4) { ks.push(rng.range(0, 7_000_000)); }
        for k in ks {
            if k < 0 || k > u32::MAX as i64 { continue; }
            let mo = Months::new(k as u32);
            tw.emit(ev("add_months", json!({"n": n, "k": big(k as i128)}), || json!(odn(d.checked_add_months(mo)))));
            // (the count as Months::as_u32 reports it)
            tw.emit(ev("sub_months", json!({"n": n, "k": big(mo.as_u32() as i128)}), || json!(odn(d.checked_sub_months(mo)))));
            counts[0] += 2;
        }
        // field replacement
        let specs: [(&str, Vec<i64>); 7] = [
            ("year", vec![i32::MIN as i64, -262_144, -262_143, -4, -1, 0, 1, 1900, 2023, 2024, 262_142, 262_143, i32::MAX as i64]),
            ("month", vec![0, 1, 2, 4, 6, 9, 11, 12, 13, u32::MAX as i64 - 1, u32::MAX as i64]), ("month0", vec![0, 1, 3, 10, 11, 12, u32::MAX as i64]),
            ("day", vec![0, 1, 28, 29, 30, 31, 32, 1 << 31, u32::MAX as i64]), ("day0", vec![0, 27, 28, 29, 30, 31, u32::MAX as i64]),
            ("ordinal", vec![0, 1, 59, 60, 61, 365, 366, 367, u32::MAX as i64]), ("ordinal0", vec![0, 58, 59, 364, 365, 366, u32::MAX as i64])];
        for (f, vals) in specs.iter() {
            for &v in vals {
                if thin && rng.chance(2, 3) { continue; }
                tw.emit(ev("with", json!({"f": f, "n": n, "v": big(v as i128)}), || json!(odn(match *f {
                    "year" => d.with_year(v as i32), "month" => d.with_month(v as u32), "month0" => d.with_month0(v as u32), "day" => d.with_day(v as u32),
                    "day0" => d.with_day0(v as u32), "ordinal" => d.with_ordinal(v as u32), _ => d.with_ordinal0(v as u32) }))));
                counts[1] += 1;
            }
        }
        // weeks
        for s in 0..7 {
            if thin && s % 3 != 0 { continue; }
            let w = d.week(wd_of(s));
            tw.emit(ev("week", json!({"n": n, "start": s}), || json!({"first": odn(w.checked_first_day()), "last": odn(w.checked_last_day()),
                "days": match w.checked_days() { Some(r) => json!([dn(*r.start()), dn(*r.end())]), None => json!([NO_DATE, NO_DATE]) }})));
            if n < MIN_DAY + 8 || n > MAX_DAY - 8 || s == 0 {
                tw.emit(ev("week.first", json!({"n": n, "start": s}), || json!(dn(w.first_day()))));
                tw.emit(ev("week.last", json!({"n": n, "start": s}), || json!(dn(w.last_day()))));
            }
            counts[2] += 1;
        }
        tw.emit(ev("misc", json!({"n": n}), || { let (ce, y) = d.year_ce(); json!({"quarter": d.quarter(), "ce": [ce, y], "ndim": d.num_days_in_month(), "leap": d.leap_year()}) }));
        let o = *rng.pick(&dates);
        tw.emit(ev("years_since", json!({"a": n, "b": dn(o)}), || json!(d.years_since(o).map(|y| y as i64).unwrap_or(-1))));
        let o2 = mk_date((n + rng.range(-800, 800)).clamp(MIN_DAY, MAX_DAY));
        tw.emit(ev("years_since", json!({"a": n, "b": dn(o2)}), || json!(d.years_since(o2).map(|y| y as i64).unwrap_or(-1))));
        counts[3] += 3;
        // the same on NaiveDateTime
        if i % 5 == 0 {
            let x: NaiveDateTime = d.and_time(mk_time_any(rng.range(0, 86_399) as u32, *rng.pick(&[0u32, 999_999_999, 1_000_000_000, 1_999_999_999])));
            for (f, v) in [("year", 2024i64), ("month", 2), ("month0", 1), ("day", 31), ("day0", 30), ("ordinal", 366), ("ordinal0", 365), ("hour", 23), ("hour", 24), ("minute", 59), ("minute", 60),
                           ("second", 59), ("second", 60), ("nanosecond", 1_999_999_999), ("nanosecond", 2_000_000_000), ("year", 262_143), ("day", 0)] {
                tw.emit(ev("ndt.with", json!({"f": f, "dt": ndt(x), "v": big(v as i128)}), || json!({"r": opt(match f {
                    "year" => x.with_year(v as i32), "month" => x.with_month(v as u32), "month0" => x.with_month0(v as u32), "day" => x.with_day(v as u32), "day0" => x.with_day0(v as u32),
                    "ordinal" => x.with_ordinal(v as u32), "ordinal0" => x.with_ordinal0(v as u32), "hour" => x.with_hour(v as u32), "minute" => x.with_minute(v as u32),
                    "second" => x.with_second(v as u32), _ => x.with_nanosecond(v as u32) }, ndt)})));
            }
            for k in [0u32, 1, 12, 13, to_max.clamp(0, u32::MAX as i64) as u32, (to_max + 1).clamp(0, u32::MAX as i64) as u32, u32::MAX] {
                tw.emit(ev("ndt.add_months", json!({"dt": ndt(x), "k": big(k as i128)}), || json!({"r": opt(x.checked_add_months(Months::new(k)), ndt)})));
                tw.emit(ev("ndt.add_months", json!({"dt": ndt(x), "k": big(-(k as i128))}), || json!({"r": opt(x.checked_sub_months(Months::new(k)), ndt)})));
            }
            counts[4] += 1;
            tw.emit(ev("ndt.acc", json!({"dt": ndt(x)}), || { let iw = x.iso_week(); json!({"y": x.year(), "mo": x.month(), "d": x.day(), "ord": x.ordinal(), "wd": wd(x.weekday()), "iy": iw.year(), "iw": iw.week(),
                "mo0": x.month0(), "d0": x.day0(), "ord0": x.ordinal0(), "h": x.hour(), "mi": x.minute(), "s": x.second(), "ns": x.nanosecond(), "date": dn(x.date()), "time": tod(x.time())}) }));
        }
    }
    // width aliases of valid replacement values
    {
        let d = NaiveDate::from_ymd_opt(2024, 2, 29).unwrap();
        let n = dn(d);
        for (f, v) in [("month", 2u32), ("month0", 1), ("day", 29), ("day0", 28), ("ordinal", 60), ("ordinal0", 59)] {
            for a in crate::rng::alias_u32(v) {
                tw.emit(ev("with", json!({"f": f, "n": n, "v": big(a as i128)}), || json!(odn(match f {
                    "month" => d.with_month(a), "month0" => d.with_month0(a), "day" => d.with_day(a), "day0" => d.with_day0(a), "ordinal" => d.with_ordinal(a), _ => d.with_ordinal0(a) }))));
            }
        }
    }
    // n-th weekday of a month: every (month, weekday, n) for 28 year classes (+ range ends)
    let mut years: Vec<i32> = (2000..2028).collect();
    years.extend([-262_143, 262_142, 0, -262_144, 262_143, i32::MIN, i32::MAX]);
    for &y in &years { for m in 0..=13u32 { for w in 0..7 { for k in [0u8, 1, 2, 3, 4, 5, 6, 7, 52, 53, 54, 55, 105, 106, 157, 158, 209, 210, 255] {
        // (counts around 53 / 105 / 157 / 209 land 1..4 years later in the SAME month: they denote nothing)
        if ctx.quick() && (k > 6 || y % 4 != 0) && rng.chance(3, 4) { continue; }
        tw.emit(ev("nth", json!({"y": y, "m": m, "wd": w, "k": k}), || json!(odn(NaiveDate::from_weekday_of_month_opt(y, m, wd_of(w), k)))));
        #[allow(deprecated)]   // the deprecated panicking route: its documented panic is the same outcome as None
        tw.emit(ev("nth", json!({"y": y, "m": m, "wd": w, "k": k, "route": "panicking"}), || json!(odn(crate::guard(|| NaiveDate::from_weekday_of_month(y, m, wd_of(w), k)).ok()))));
        counts[5] += 2;
    }}}}
    // whole years elapsed: every pair of month-days around the leap day (and around the year end) in leap and common years, both orders -
    // the anniversary test is a comparison of (month, day), for which 29 February lies strictly between 28 February and 1 March
    {
        let mds = [(2u32, 27u32), (2, 28), (2, 29), (3, 1), (3, 2), (12, 31), (1, 1), (1, 2)];
        let ys = [2019, 2020, 2023, 2024, 1900, 2000, -4, -1, 0];
        for &ya in &ys { for &yb in &ys { for &(ma, da) in &mds { for &(mb, db) in &mds {
            if ctx.quick() && !(ma == 2 || mb == 2 || ya == yb) && rng.chance(2, 3) { continue; }
            let (Some(a), Some(b)) = (NaiveDate::from_ymd_opt(ya, ma, da), NaiveDate::from_ymd_opt(yb, mb, db)) else { continue };
            tw.emit(ev("years_since", json!({"a": dn(a), "b": dn(b)}), || json!(a.years_since(b).map(|y| y as i64).unwrap_or(-1))));
            counts[3] += 1;
        } } } }
    }
    // month lengths: every century class on both sides of year 0 (the leap rule by 4 / 100 / 400 on negative years), the range ends and beyond
    let mut month_years: Vec<i32> = vec![i32::MIN, -262_144, -262_143, -1, 0, 1900, 2023, 2024, 262_142, 262_143, i32::MAX];
    for c in -8..=8 { month_years.extend([c * 100, c * 100 + 4, c * 100 - 4, c * 100 + 1]); }
    month_years.extend([-196, -296, -396, -262_100, -262_000, 262_000, 262_100]);
    for y in month_years { for m in 1..=12u32 {
        if m != 2 && (y % 100 == 1 || y % 100 == -99) { continue; }
        if let Some(d) = NaiveDate::from_ymd_opt(y, m, 1 + (y.rem_euclid(27)) as u32) {
            // Datelike::num_days_in_month through every implementor
            let n = dn(d);
            tw.emit(ev("misc", json!({"n": n, "route": "NaiveDateTime"}), || { let x = d.and_time(mk_time_any(1, 0)); let (ce, yy) = x.year_ce(); json!({"quarter": x.quarter(), "ce": [ce, yy], "ndim": x.num_days_in_month(), "leap": d.leap_year()}) }));
            tw.emit(ev("misc", json!({"n": n, "route": "DateTime<Utc>"}), || { let x = d.and_time(mk_time_any(1, 0)).and_utc(); let (ce, yy) = x.year_ce(); json!({"quarter": x.quarter(), "ce": [ce, yy], "ndim": x.num_days_in_month(), "leap": d.leap_year()}) }));
            tw.emit(ev("misc", json!({"n": n}), || { let (ce, yy) = d.year_ce(); json!({"quarter": d.quarter(), "ce": [ce, yy], "ndim": d.num_days_in_month(), "leap": d.leap_year()}) }));
        }
        tw.emit(ev("month_days", json!({"y": y, "m": m}), || json!(Month::from_u32(m).unwrap().num_days(y).map(|x| x as i64).unwrap_or(-1))));
    }}
    // the same operations through DateTime<FixedOffset>: they must act on the WALL CLOCK (judged by DateTimeTz.tla). The lattice makes
    // the local date differ from the UTC date on the 1st and on days 28..31, with offsets that have minutes and seconds
    let mut tz = Tw::new(&ctx.out, "Trace_DateTimeTz", ctx.t(2_000, 15_000));
    let mut n_tz = 0usize;
    {
        use chrono::{DateTime, FixedOffset, TimeZone};
        let offs = [3600i32, -3600, 7200, 19_800, -16_200, 3630, -17_762, 86_399, -86_399, 1];
        let mut walls: Vec<NaiveDateTime> = Vec::new();
        for (y, m, d) in [(2021, 3, 1), (2020, 3, 31), (2020, 3, 1), (2024, 2, 29), (2023, 1, 31), (2021, 1, 29), (2000, 3, 1), (1900, 3, 1), (2024, 12, 31), (2025, 1, 1), (2023, 3, 2), (2024, 3, 1)] {
            let date = NaiveDate::from_ymd_opt(y, m, d).unwrap();
            for (hh, mm, ss) in [(0, 0, 0), (0, 30, 0), (1, 0, 0), (12, 34, 56), (23, 0, 0), (23, 59, 59)] { walls.push(date.and_hms_opt(hh, mm, ss).unwrap()); }
        }
        for _ in 0..ctx.t(20, 2_000) { walls.push(mk_ndt(rng.range(MIN_DAY + 800, MAX_DAY - 800), rng.range(0, 86_399) as u32, rng.range(0, 999_999_999) as u32)); }
        for (i, w) in walls.iter().enumerate() { for &off in offs.iter() {
            if ctx.quick() && (i + off.unsigned_abs() as usize) % 2 == 1 { continue; }
            let fo = FixedOffset::east_opt(off).unwrap();
            let z: DateTime<FixedOffset> = match fo.from_local_datetime(w).single() { Some(z) => z, None => continue };
            let u = z.naive_utc();
            for k in [0u32, 1, 2, 11, 12, 13, 25] {
                tz.emit(ev("tzmonths", json!({"u": ndt(u), "off": off, "k": big(k as i128)}), || json!({"r": opt(z.checked_add_months(Months::new(k)), |q| ndt(q.naive_utc()))})));
                tz.emit(ev("tzmonths", json!({"u": ndt(u), "off": off, "k": big(-(k as i128))}), || json!({"r": opt(z.checked_sub_months(Months::new(k)), |q| ndt(q.naive_utc()))})));
                n_tz += 2;
            }
            for (f, v) in [("second", 0u32), ("second", 10), ("second", 59), ("minute", 0), ("minute", 59), ("hour", 0), ("hour", 23), ("day", 1), ("day", 28), ("day", 29), ("day", 31), ("month", 2), ("month", 12),
                           ("ordinal", 1), ("ordinal", 60), ("ordinal", 366), ("day0", 0), ("month0", 0), ("ordinal0", 0), ("nanosecond", 5)] {
                tz.emit(ev("tzwith", json!({"f": f, "u": ndt(u), "off": off, "v": big(v as i128)}), || json!({"r": opt(match f {
                    "second" => z.with_second(v), "minute" => z.with_minute(v), "hour" => z.with_hour(v), "day" => z.with_day(v), "month" => z.with_month(v), "ordinal" => z.with_ordinal(v),
                    "day0" => z.with_day0(v), "month0" => z.with_month0(v), "ordinal0" => z.with_ordinal0(v), _ => z.with_nanosecond(v) }, |q| ndt(q.naive_utc()))})));
                n_tz += 1;
            }
            tz.emit(ev("tzwith", json!({"f": "year", "u": ndt(u), "off": off, "v": big(2023)}), || json!({"r": opt(z.with_year(2023), |q| ndt(q.naive_utc()))})));
            // whole years elapsed, with the time of day as tie-break, on the wall clocks of both values
            for d in [-366i64, -365, -1, 0, 1, 364, 365, 366, 730, 731, 1461] {
                let bw = match w.checked_sub_signed(chrono::TimeDelta::days(d)) { Some(b) => b, None => continue };
                for shift in [0i64, 1, -1] {
                    let bw2 = match bw.checked_add_signed(chrono::TimeDelta::seconds(shift)) { Some(b) => b, None => continue };
                    let bz = match fo.from_local_datetime(&bw2).single() { Some(b) => b, None => continue };
                    tz.emit(ev("tz.years_since", json!({"a": ndt(u), "b": ndt(bz.naive_utc()), "off": off}), || json!({"r": z.years_since(bz).map(|y| y as i64).unwrap_or(-1)})));
                    n_tz += 1;
                }
            }
        } }
    }
    // field replacement in a zone whose offset CHANGES (chrono::Local under a POSIX rule, read by a fresh thread): replacing a field means
    // resolving the new wall clock in the zone again - the result is what from_local_datetime gives for that wall clock when it is unique
    // (that lookup itself is C05's subject), and nothing in a gap or a fold
    for tzv in ["CET-1CEST,M3.5.0,M10.5.0/3", "AEST-10AEDT,M10.1.0,M4.1.0/3"] {
        std::env::set_var("TZ", tzv);
        let h = std::thread::spawn(move || {
            use chrono::{Local, TimeZone};
            let mut out: Vec<Value> = Vec::new();
            for t in [1_711_846_800i64, 1_729_990_800, 1_728_144_000, 1_712_419_200] { for k in [-50i64, -26, -3, -1, 0, 1, 3, 26, 50] {
                let Some(u) = chrono::DateTime::from_timestamp(t + k * 3_600 + 1_800, 0).map(|d| d.naive_utc()) else { continue };
                let Ok(z) = crate::guard(|| Local.from_utc_datetime(&u)) else { continue };
                let Ok(wall) = crate::guard(|| z.naive_local()) else { continue };
                let res = |r: Option<chrono::DateTime<Local>>| opt(r, |q| json!({"u": ndt(q.naive_utc()), "off": chrono::Offset::fix(q.offset()).local_minus_utc()}));
                for (f, v) in [("hour", 0u32), ("hour", 1), ("hour", 2), ("hour", 3), ("hour", 5), ("hour", 23), ("minute", 0), ("day", 31), ("day", 27), ("day", 6), ("day", 7), ("month", 3), ("month", 10), ("month", 4)] {
                    let new_wall = match f { "hour" => wall.with_hour(v), "minute" => wall.with_minute(v), "day" => wall.with_day(v), _ => wall.with_month(v) };
                    out.push(ev("tzwith_routes", json!({"f": f, "u": ndt(u), "v": v, "zone": "Local with a DST rule"}), || json!({
                        "a": res(match f { "hour" => z.with_hour(v), "minute" => z.with_minute(v), "day" => z.with_day(v), _ => z.with_month(v) }),
                        "b": res(new_wall.and_then(|w| Local.from_local_datetime(&w).single()))})));
                }
            } }
            out
        });
        for e in h.join().unwrap_or_default() { tz.emit(e); n_tz += 1; }
        std::env::remove_var("TZ");
    }
    tz.finish();
    tw.finish();
    json!({"events": tw.total + tz.total, "datetime_route_events": n_tz, "dates": dates.len(), "month_step_events": counts[0], "with_events": counts[1], "week_events": counts[2], "nth_events": counts[5]})
}
