//! C11: RFC 2822 output round-trips (to_rfc2822, Fixed::RFC2822 item) and the reader accepts the
//! current and obsolete forms with exactly the denoted value. Read-side events carry the fields and
//! syntax choices the text was built from; the specification re-derives the text from them.
use super::c09::mk;
use super::Ctx;
use crate::big::cps;
use crate::out::Tw;
use crate::proj::*;
use crate::rng::Rng;
use crate::{ev, guard};
use chrono::format::{Fixed, Item, Parsed};
use chrono::{DateTime, FixedOffset, NaiveDate, NaiveDateTime, NaiveTime, TimeZone};
use serde_json::{json, Value};

fn proj_dt(b: &DateTime<FixedOffset>) -> Value { json!({"u": ndt(b.naive_utc()), "off": b.offset().local_minus_utc()}) }

const ITEMS: &[Item<'static>] = &[Item::Fixed(Fixed::RFC2822)];

fn write_events(tw: &mut Tw, dt: &DateTime<FixedOffset>, item_too: bool) -> usize {
    let (u, off) = match guard(|| (dt.naive_utc(), dt.offset().local_minus_utc())) { Ok(x) => x, Err(_) => return 0 };
    tw.emit(ev("to_rfc2822", json!({"u": ndt(u), "off": off, "via": "method"}), || {
        let t = dt.to_rfc2822();
        let back = match DateTime::parse_from_rfc2822(&t) { Ok(b) => json!({"ok": proj_dt(&b)}), Err(_) => json!({"err": 1}) };
        json!({"text": cps(&t), "back": back})
    }));
    if !item_too { return 1; }
    tw.emit(ev("to_rfc2822", json!({"u": ndt(u), "off": off, "via": "item"}), || {
        let t = dt.format_with_items(ITEMS.iter()).to_string();
        let mut p = Parsed::new();
        let back = match chrono::format::parse(&mut p, &t, ITEMS.iter()).and_then(|_| p.to_datetime()) { Ok(b) => json!({"ok": proj_dt(&b)}), Err(_) => json!({"err": 1}) };
        json!({"text": cps(&t), "back": back})
    }));
    2
}

const DAYS: [&str; 7] = ["Mon", "Tue", "Wed", "Thu", "Fri", "Sat", "Sun"];
const MONTHS: [&str; 12] = ["Jan", "Feb", "Mar", "Apr", "May", "Jun", "Jul", "Aug", "Sep", "Oct", "Nov", "Dec"];
const NAMED: [&str; 10] = ["UT", "GMT", "EST", "EDT", "CST", "CDT", "MST", "MDT", "PST", "PDT"];
const WS: [&str; 9] = [" ", " ", "  ", "\t", " \t ", "\r\n ", "\r\n\t", " \r\n ", "   "];

fn is_leap(y: i64) -> bool { (y % 4 == 0 && y % 100 != 0) || y % 400 == 0 }
fn dim(y: i64, m: i64) -> i64 { match m { 2 => if is_leap(y) { 29 } else { 28 }, 4 | 6 | 9 | 11 => 30, _ => 31 } }
/// weekday (0 = Monday) by counting from the civil calendar - only used to *choose* a right or wrong name; the
/// specification decides what is consistent
fn weekday(y: i64, m: i64, d: i64) -> i64 {
    let p = y - 1;
    let mut n = 365 * p + p.div_euclid(4) - p.div_euclid(100) + p.div_euclid(400) + d;
    for k in 1..m { n += dim(y, k); }
    (n - 1).rem_euclid(7)
}
fn recase(rng: &mut Rng, s: &str, k: &str) -> String {
    match k { "upper" => s.to_uppercase(), "lower" => s.to_lowercase(), "mixed" => s.chars().map(|c| if rng.chance(1, 2) { c.to_ascii_uppercase() } else { c.to_ascii_lowercase() }).collect(), _ => s.to_string() }
}
fn comment(rng: &mut Rng, depth: u32) -> String {
    let mut s = String::from("(");
    for _ in 0..rng.below(5) {
        match rng.below(7) {
            0 if depth < 3 => s.push_str(&comment(rng, depth + 1)),
            1 => { s.push('\\'); s.push(*rng.pick(&['(', ')', '\\', 'x', ' ', '\u{e9}'])); }
            2 => s.push(' '),
            3 => s.push(*rng.pick(&['\u{e9}', '\u{20ac}', '\u{1f920}', '"', ',', ':', '+', '0'])),
            _ => s.push_str(*rng.pick(&["CEST", "a", "Newfoundland Time", "x y", "+0200", "Mon"])),
        }
    }
    s.push(')');
    s
}

/// One read-side event: fields, choices, the text built from them, and what the parser returned.
fn read_event(rng: &mut Rng) -> Value {
    // year and the year text forms that denote it
    let y = match rng.below(8) {
        0 => rng.range(1950, 2049), 1 => rng.range(1900, 2899), 2 => *rng.pick(&[0i64, 1, 49, 50, 99, 100, 999, 1000, 1899, 1900, 1949, 1950, 1999, 2000, 2049, 2050, 2899, 2900, 9999]),
        3 => rng.range(10_000, 262_142), 4 => *rng.pick(&[10_000i64, 99_999, 100_000, 262_142]), _ => rng.range(0, 9999),
    };
    let mut forms: Vec<Vec<u8>> = Vec::new();
    let digs = |v: i64, w: usize| -> Vec<u8> { format!("{:0w$}", v, w = w).bytes().map(|b| b - b'0').collect() };
    let natural = if y > 99_999 { 6 } else if y > 9999 { 5 } else { 4 };
    forms.push(digs(y, natural));
    if natural < 6 { forms.push(digs(y, natural + 1)); }
    if rng.chance(1, 6) { forms.push(digs(y, *rng.pick(&[7usize, 10, 18, 19, 20, 25, 39]))); }      // zero-padded far beyond the natural width
    if (1950..=2049).contains(&y) { forms.push(digs(y % 100, 2)); forms.push(digs(y % 100, 2)); }
    if (1900..=2899).contains(&y) { forms.push(digs(y - 1900, 3)); forms.push(digs(y - 1900, 3)); }
    let mut yt = rng.pick(&forms).clone();
    // a year of more than six digits denotes no representable date; among them the decimal aliases of y modulo 2^32 / 2^63 / 2^64 (a reader
    // that accumulates digits in a wrapping or narrower integer reads them as y)
    if rng.chance(1, 30) {
        let a: u128 = *rng.pick(&[y as u128 + (1u128 << 64), y as u128 + (2u128 << 64), y as u128 + (1u128 << 63), y as u128 + (1u128 << 32), y as u128 + (1u128 << 31) * 10,
                                  10_000_000 + y as u128, 1u128 << 64, (1u128 << 64) - 1, 99_999_999_999_999_999_999, y as u128 + (1u128 << 96), y as u128 * 10_000_000]);
        let t = a.to_string();
        if t.len() > 6 { yt = t.bytes().map(|b| b - b'0').collect(); if rng.chance(1, 3) { let mut z = vec![0u8; rng.range(1, 14) as usize]; z.extend(yt.iter()); yt = z; } }
    }
    let mo = rng.range(1, 12);
    let r = rng.range(1, dim(y, mo));
    let d = *rng.pick(&[1i64, 9, 10, dim(y, mo), r]);
    let d = d.min(dim(y, mo));
    let r = (rng.range(0, 23), rng.range(0, 59));
    let (h, mi) = *rng.pick(&[(0i64, 0i64), (23, 59), (10, 52), r]);
    let secs = rng.chance(3, 4);
    let r = rng.range(0, 59);
    let s = if secs { *rng.pick(&[0i64, 37, 59, 60, r]) } else { 0 };
    let zone: String = match rng.below(5) {
        0 | 1 => { let r = (rng.range(0, 23), rng.range(0, 59)); let (zh, zm) = *rng.pick(&[(0i64, 0i64), (0, 1), (23, 59), (5, 30), (2, 0), r]); format!("{}{:02}{:02}", rng.pick(&['+', '-']), zh, zm) }
        2 | 3 => { let k = *rng.pick(&["asis", "asis", "lower", "mixed"]); let z = *rng.pick(&NAMED); recase(rng, z, k) }
        _ => { let letters = b"ABCDEFGHIKLMNOPQRSTUVWXYZabcdefghiklmnopqrstuvwxyz"; (*rng.pick(letters) as char).to_string() }
    };
    let right = weekday(y, mo, d);
    let (wkd, wd) = match rng.below(8) { 0 | 1 => (false, right), 2 => (true, (right + rng.range(1, 6)) % 7), _ => (true, right) };
    let ncase = *rng.pick(&["asis", "asis", "upper", "lower"]);
    let dpad = rng.chance(1, 2);
    let ws: Vec<String> = (0..5).map(|_| rng.pick(&WS).to_string()).collect();
    let mut cm = String::new();
    for _ in 0..*rng.pick(&[0usize, 0, 1, 1, 2, 3]) {
        cm.push_str(*rng.pick(&["", " ", "  ", "\t"]));
        cm.push_str(&comment(rng, 0));
    }
    // the text
    let mut t = String::new();
    if wkd { t.push_str(&recase(rng, DAYS[wd as usize], ncase)); t.push(','); t.push_str(&ws[0]); }
    if dpad { t.push_str(&format!("{:02}", d)); } else { t.push_str(&format!("{}", d)); }
    t.push_str(&ws[1]);
    t.push_str(&recase(rng, MONTHS[mo as usize - 1], ncase));
    t.push_str(&ws[2]);
    for x in &yt { t.push((b'0' + x) as char); }
    t.push_str(&ws[3]);
    // white space around the first colon and before the second one (obs-hour / obs-minute of RFC 2822 4.3)
    let tws: Vec<String> = (0..3).map(|_| if rng.chance(1, 5) { rng.pick(&[" ", "\t", "  ", " \t "]).to_string() } else { String::new() }).collect();
    t.push_str(&format!("{:02}{}:{}{:02}", h, tws[0], tws[1], mi));
    if secs { t.push_str(&format!("{}:{:02}", tws[2], s)); }
    t.push_str(&ws[4]);
    t.push_str(&zone);
    t.push_str(&cm);
    let f = json!({"wd": wd, "d": d, "mo": mo, "yt": yt, "h": h, "mi": mi, "s": s, "zone": cps(&zone)});
    let c = json!({"wkd": wkd, "dpad": dpad, "secs": secs, "ncase": ncase, "ws": ws.iter().map(|w| cps(w)).collect::<Vec<_>>(), "cm": cps(&cm), "tws": tws.iter().map(|w| cps(w)).collect::<Vec<_>>()});
    ev(if yt.len() > 6 && yt[..yt.len() - 6].iter().any(|&x| x != 0) { "parse2822_bigyear" } else { "parse2822" }, json!({"s": cps(&t), "f": f, "c": c}), || match DateTime::parse_from_rfc2822(&t) {
        Ok(b) => json!({"r": {"ok": proj_dt(&b)}}),
        Err(e) => json!({"r": {"err": format!("{:?}", e.kind())}}),
    })
}

fn any_event(s: &str) -> Value {
    ev("parse2822_any", json!({"s": cps(s)}), || match DateTime::parse_from_rfc2822(s) {
        Ok(b) => json!({"r": {"ok": proj_dt(&b)}}),
        Err(e) => json!({"r": {"err": format!("{:?}", e.kind())}}),
    })
}

pub fn run(ctx: &Ctx) -> Value {
    let mut tw = Tw::new(&ctx.out, "Trace_Rfc2822", ctx.t(1_500, 20_000));
    let mut rng = Rng::new(ctx.seed ^ 0xC11);
    // ---- writer: wall clocks in years 0..9999 x whole-minute offsets
    let mut dates: Vec<NaiveDate> = Vec::new();
    for y in [0, 1, 999, 1000, 1949, 1950, 1999, 2000, 2003, 2049, 2050, 9999] {
        for (m, d) in [(1, 1), (2, 28), (2, 29), (7, 9), (7, 10), (12, 31)] {
            if let Some(x) = mk(|| NaiveDate::from_ymd_opt(y, m, d)) { dates.push(x); }
        }
    }
    for k in 0..7 { if let Some(x) = mk(|| NaiveDate::from_ymd_opt(2024, 9, 2 + k)) { dates.push(x); } }       // one of every weekday
    let mut times: Vec<NaiveTime> = Vec::new();
    for (h, mi, s, n) in [(0u32, 0u32, 0u32, 0u32), (23, 59, 59, 999_999_999), (23, 59, 59, 1_000_000_000), (23, 59, 59, 1_999_999_999), (10, 52, 37, 500_000_000),
                          (9, 5, 7, 1), (0, 0, 59, 1_000_000_000)] {
        if let Some(x) = mk(|| NaiveTime::from_hms_nano_opt(h, mi, s, n)) { times.push(x); }
    }
    let lattice = super::c09::offset_lattice();
    let all = super::c09::all_minute_offsets();
    let (mut nw, mut skipped) = (0usize, 0usize);
    let mut emit_local = |tw: &mut Tw, v: &NaiveDateTime, off: i32, item: bool| {
        match mk(|| FixedOffset::east_opt(off).and_then(|o| o.from_local_datetime(v).single())) {
            Some(dt) => nw += write_events(tw, &dt, item),
            None => skipped += 1,
        }
    };
    let mut k = 0usize;
    for d in &dates {
        for t in &times {
            let v = d.and_time(*t);
            let offs: Vec<i32> = if ctx.quick() { (0..3).map(|j| lattice[(k * 3 + j) % lattice.len()]).collect() } else { lattice.clone() };
            k += 1;
            for off in offs { emit_local(&mut tw, &v, off, k % 2 == 0); }
        }
    }
    if !ctx.quick() {
        for d in dates.iter().step_by(5) { for t in times.iter().step_by(3) { for &off in &all { emit_local(&mut tw, &d.and_time(*t), off, off % 11 == 0); } } }
    }
    // digit-pair witnesses, and a sequence in which consecutive values share a component (one-entry memos inside the writer)
    for (i, v) in crate::proj::pair_witnesses().iter().enumerate() { emit_local(&mut tw, v, lattice[i % lattice.len()], i % 3 == 0); }
    for (i, d) in crate::proj::memo_sequence().into_iter().enumerate() { emit_local(&mut tw, &d.and_time(times[i % 2]), 0, i % 2 == 0); }
    for _ in 0..ctx.t(500, 30_000) {
        let d = mk(|| NaiveDate::from_ymd_opt(rng.range(0, 9999) as i32, rng.range(1, 12) as u32, rng.range(1, 28) as u32));
        let secs = rng.range(0, 86_399) as u32;
        let f = if secs % 60 == 59 && rng.chance(1, 4) { 1_000_000_000 + rng.range(0, 999_999_999) as u32 } else { rng.range(0, 999_999_999) as u32 };
        let t = mk(|| NaiveTime::from_num_seconds_from_midnight_opt(secs, f));
        if let (Some(d), Some(t)) = (d, t) { emit_local(&mut tw, &d.and_time(t), 60 * rng.range(-1439, 1439) as i32, true); }
    }
    // ---- reader: generated current / obsolete forms with their fields and choices
    let nread = ctx.t(12_000, 250_000);
    for _ in 0..nread { tw.emit(read_event(&mut rng)); }
    // ---- mutated and arbitrary text: no outcome is specified, a panic would be unexplained
    let mut nany = 0usize;
    let pins = ["", " ", "Tue, 1 Jul 2003 10:52:37 +0200", "Tue, 1 Jul 2003 10:52:37 +0200 ", "Tue, 1 Jul 2003 10:52:37 +0200 (", "Tue, 1 Jul 2003 10:52:37 +0200 (\\",
                "Tue, 1 Jul 2003 10:52:37 J", "Tue, 1 Jul 2003 10:52:37 +9959", "31 Feb 2003 10:52 GMT", "1 Jul 3 10:52 GMT", "Tue 1 Jul 2003 10:52:37 +0200",
                "Tuesday, 1 Jul 2003 10:52:37 +0200", "1 July 2003 10:52:37 +0200", "1 Jul 2003 10:52:61 +0200", "1 Jul 99999999999999999999 10:52 Z", "\u{1f920}"];
    for s in pins.iter() { tw.emit(any_event(s)); nany += 1; }
    for _ in 0..ctx.t(2_000, 40_000) {
        let e = read_event(&mut rng);
        let s: Vec<char> = crate::big::uncps(&e["s"]).chars().collect();
        let mut m = s.clone();
        let i = rng.below(m.len());
        match rng.below(6) {
            0 => { m.remove(i); }
            1 => { let x = m[i]; m.insert(i, x); }
            2 => { m[i] = *rng.pick(&['0', '9', ':', ' ', '(', ')', '\\', '+', '-', ',', 'J', 'x', '\u{e9}', '\u{2003}', '\u{1f920}']); }
            3 => { if i + 1 < m.len() { m.swap(i, i + 1); } }
            4 => { m.truncate(i); }
            _ => { m.insert(i, *rng.pick(&['0', ' ', '(', ')', '\\', ':', '\u{2212}', '\u{0}'])); }
        }
        tw.emit(any_event(&m.into_iter().collect::<String>()));
        nany += 1;
    }
    tw.finish();
    json!({"events": tw.total, "write": nw, "read_generated": nread, "any_text": nany, "skipped_constructions": skipped})
}
