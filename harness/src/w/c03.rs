//! C03: adding and subtracting elapsed time is exact or refused, never wrapped.
use super::Ctx;
use crate::big::big;
use crate::ev;
use crate::out::Tw;
use crate::proj::*;
use crate::rng::Rng;
use crate::w::c01::{MAX_DAY, MIN_DAY};
use crate::w::c02::{dt_lattice, max_ns, min_ns, EPOCH_DAY};
use chrono::{DateTime, Days, FixedOffset, NaiveDate, NaiveDateTime, TimeZone};
use serde_json::{json, Value};

fn ondt(o: Option<NaiveDateTime>) -> Value { opt(o, ndt) }
fn ns_of(x: NaiveDateTime) -> i128 {
    let d = dn(x.date()) as i128;
    use chrono::Timelike;
    ((d - EPOCH_DAY) * 86_400 + x.time().num_seconds_from_midnight() as i128) * NS + x.time().nanosecond() as i128
}

fn durs_for(x: NaiveDateTime, rng: &mut Rng, extra: usize) -> Vec<i128> {
    let p = ns_of(x);
    let mut b: Vec<i128> = vec![0, 1, NS - 1, NS, NS + 1, 2 * NS - 1, 86_400 * NS - 1, 86_400 * NS, 86_400 * NS + 1, 365 * 86_400 * NS, 366 * 86_400 * NS, 146_097 * 86_400 * NS,
        DUR_LIM, DUR_LIM - 1, (max_ns() - p).abs(), (max_ns() - p).abs() + 1, (p - min_ns()).abs(), (p - min_ns()).abs() + 1, ((max_ns() - p).abs() - 1).max(0), ((p - min_ns()).abs() - 1).max(0)];
    // whole-day counts that alias a small count when narrowed to 32 bits
    for j in [1i128, 2, 3] { for r in [0i128, 1, -1, 365, -70_000_000, 70_000_000] {
        b.push(((j << 32) + r) * 86_400 * NS); b.push(((j << 31) + r) * 86_400 * NS); b.push(((j << 32) + r) * 86_400 * NS + 1);
    } }
    // durations whose whole seconds ADDED TO THE SECOND OF THE DAY reach 2^31 or 2^32 (a 32-bit intermediate sum)
    { use chrono::Timelike; let sod = x.time().num_seconds_from_midnight() as i128;
      for j in [31u32, 32] { for r in [-1i128, 0, 1, 3_600, 40_000] { b.push(((1i128 << j) - sod + r) * NS); b.push(((1i128 << j) - sod + r) * NS + 500_000_000); } } }
    for _ in 0..extra { b.push(match rng.below(3) { 0 => (rng.next() as i128) % DUR_LIM, 1 => rng.loguniform(60).abs() as i128, _ => rng.range(0, 400 * 366) as i128 * 86_400 * NS + rng.range(0, 86_399_999) as i128 * 1000 }); }
    let mut v = Vec::new();
    for x in b { if x <= DUR_LIM { v.push(x); v.push(-x); } }
    v.sort(); v.dedup(); v
}

pub fn run(ctx: &Ctx) -> Value {
    let mut tw = Tw::new(&ctx.out, "Trace_Instant", ctx.t(2_000, 15_000));
    let mut rng = Rng::new(ctx.seed ^ 0x03);
    let dts = dt_lattice(&mut rng, ctx.t(40, 3_000), true);
    let offs = [0, 1, -1, 3600, -3600, 86_399, -86_399];
    let mut n_add = 0;
    for (i, &x) in dts.iter().enumerate() {
        if ctx.quick() && i % 8 != 0 && !((dn(x.date()) <= MIN_DAY + 1 || dn(x.date()) >= MAX_DAY - 1) && i % 2 == 0) { continue; }
        for d in durs_for(x, &mut rng, ctx.t(1, 6)) {
            let td = match mk_dur(d) { Some(t) => t, None => continue };
            tw.emit(ev("dt.add", json!({"dt": ndt(x), "d": big(d)}), || json!({"r": ondt(x.checked_add_signed(td))})));
            tw.emit(ev("dt.sub", json!({"dt": ndt(x), "d": big(d)}), || json!({"r": ondt(x.checked_sub_signed(td))})));
            n_add += 2;
            if n_add % 22 == 0 {
                tw.emit(ev("o.dt.add", json!({"dt": ndt(x), "d": big(d), "via": "add_assign"}), || { let mut y = x; y += td; json!({"r": ndt(y)}) }));
                tw.emit(ev("o.dt.sub", json!({"dt": ndt(x), "d": big(d), "via": "sub_assign"}), || { let mut y = x; y -= td; json!({"r": ndt(y)}) }));
                if d >= 0 { if let Ok(sd) = td.to_std() {
                    tw.emit(ev("o.dt.add", json!({"dt": ndt(x), "d": big(d), "via": "add_std"}), || json!({"r": ndt(x + sd)})));
                    tw.emit(ev("o.dt.sub", json!({"dt": ndt(x), "d": big(d), "via": "sub_std"}), || json!({"r": ndt(x - sd)})));
                }}
                let off = *rng.pick(&offs);
                let z: DateTime<FixedOffset> = FixedOffset::east_opt(off).unwrap().from_utc_datetime(&x);
                tw.emit(ev("o.tz.add", json!({"u": ndt(x), "off": off, "d": big(d), "via": "add_assign"}), || { let mut y = z; y += td; json!({"r": ndt(y.naive_utc())}) }));
                tw.emit(ev("o.tz.add", json!({"u": ndt(x), "off": off, "d": big(-d), "via": "sub_op"}), || json!({"r": ndt((z - td).naive_utc())})));
            }
            if n_add % 6 == 0 {
                tw.emit(ev("o.dt.add", json!({"dt": ndt(x), "d": big(d)}), || json!({"r": ndt(x + td)})));
                tw.emit(ev("o.dt.sub", json!({"dt": ndt(x), "d": big(d)}), || json!({"r": ndt(x - td)})));
            }
            if n_add % 10 == 0 {
                let off = *rng.pick(&offs);
                let fo = FixedOffset::east_opt(off).unwrap();
                let z: DateTime<FixedOffset> = fo.from_utc_datetime(&x);
                tw.emit(ev("tz.add", json!({"u": ndt(x), "off": off, "d": big(d)}), || { let r = z.checked_add_signed(td);
                    json!({"r": opt(r, |q| ndt(q.naive_utc())), "off2": r.map(|q| q.offset().local_minus_utc()).unwrap_or(off)}) }));
                tw.emit(ev("tz.sub", json!({"u": ndt(x), "off": off, "d": big(d)}), || { let r = z.checked_sub_signed(td);
                    json!({"r": opt(r, |q| ndt(q.naive_utc())), "off2": r.map(|q| q.offset().local_minus_utc()).unwrap_or(off)}) }));
                tw.emit(ev("o.tz.add", json!({"u": ndt(x), "off": off, "d": big(d)}), || json!({"r": ndt((z + td).naive_utc())})));
            }
        }
    }
    // differences
    let n_pairs = ctx.t(5_000, 300_000);
    for i in 0..n_pairs {
        let a = *rng.pick(&dts);
        let b = match i % 4 { 0 => *rng.pick(&dts), 1 => mk_ndt(dn(a.date()), rng.range(0, 86_399) as u32, rng.range(0, 1_999_999_999) as u32), 2 => mk_ndt(MAX_DAY, 86_399, 999_999_999), _ => mk_ndt(MIN_DAY, 0, 0) };
        tw.emit(ev("dt.since", json!({"a": ndt(a), "b": ndt(b)}), || json!({"r": dur(a.signed_duration_since(b)), "c": a.cmp(&b) as i8})));
        if i % 5 == 0 {
            let (fa, fb) = (FixedOffset::east_opt(*rng.pick(&offs)).unwrap(), FixedOffset::east_opt(*rng.pick(&offs)).unwrap());
            tw.emit(ev("tz.since", json!({"a": ndt(a), "b": ndt(b)}), || json!({"r": dur(fa.from_utc_datetime(&a).signed_duration_since(fb.from_utc_datetime(&b)))})));
            // ... and the order (Ord::cmp, max / min) of the same two values: it follows the instants, whatever the offsets
            tw.emit(ev("tz.cmp", json!({"a": ndt(a), "b": ndt(b)}), || { let (x, y) = (fa.from_utc_datetime(&a), fb.from_utc_datetime(&b));
                json!({"c": x.cmp(&y) as i8, "pc": x.partial_cmp(&y).map(|o| o as i8).unwrap_or(9), "max_is_b": std::cmp::max(x, y).naive_utc() == b, "same": x.cmp(&fb.from_utc_datetime(&a)) as i8}) }));
        }
    }
    // plain dates
    let dates: Vec<i64> = { let mut v = vec![MIN_DAY, MIN_DAY + 1, MIN_DAY + 365, -1, 0, 1, 719_163, 730_120, 730_120 + 59, 730_120 + 365, 730_120 + 366, MAX_DAY - 366, MAX_DAY - 1, MAX_DAY];
        for _ in 0..ctx.t(30, 2_000) { v.push(rng.range(MIN_DAY, MAX_DAY)); } v };
    let mut n_date = 0;
    for &n in &dates {
        let d = mk_date(n);
        let mut ks: Vec<u64> = vec![0, 1, 2, 365, 366, 146_097, (MAX_DAY - n) as u64, (MAX_DAY - n) as u64 + 1, (n - MIN_DAY) as u64, (n - MIN_DAY) as u64 + 1, i32::MAX as u64, i32::MAX as u64 + 1, u32::MAX as u64, u64::MAX - 1, u64::MAX, 1 << 63];
        for _ in 0..ctx.t(2, 10) { ks.push(rng.range(0, 200_000_000) as u64); }
        for k in ks {
            tw.emit(ev("date.add_days", json!({"n": n, "k": big(k as i128)}), || json!({"r": odn(d.checked_add_days(Days::new(k)))})));
            tw.emit(ev("date.sub_days", json!({"n": n, "k": big(k as i128)}), || json!({"r": odn(d.checked_sub_days(Days::new(k)))})));
            n_date += 2;
        }
        for dd in [0i128, 1, 86_400 * NS - 1, 86_400 * NS, 86_400 * NS + 1, 2 * 86_400 * NS - 1, (MAX_DAY - n) as i128 * 86_400 * NS, ((MAX_DAY - n) as i128 + 1) * 86_400 * NS - 1, ((MAX_DAY - n) as i128 + 1) * 86_400 * NS,
                   (n - MIN_DAY) as i128 * 86_400 * NS, ((n - MIN_DAY) as i128 + 1) * 86_400 * NS - 1, ((n - MIN_DAY) as i128 + 1) * 86_400 * NS, DUR_LIM] {
            for sdd in [dd, -dd] {
                let td = match mk_dur(sdd) { Some(t) => t, None => continue };
                tw.emit(ev("date.add_dur", json!({"n": n, "d": big(sdd)}), || json!({"r": odn(d.checked_add_signed(td))})));
                tw.emit(ev("date.sub_dur", json!({"n": n, "d": big(sdd)}), || json!({"r": odn(d.checked_sub_signed(td))})));
                if n_date % 4 == 0 {
                    tw.emit(ev("o.date.add", json!({"n": n, "d": big(sdd)}), || json!({"r": dn(d + td)})));
                    tw.emit(ev("o.date.sub", json!({"n": n, "d": big(sdd)}), || json!({"r": dn(d - td)})));
                }
                n_date += 2;
            }
        }
        let o = mk_date(*rng.pick(&dates));
        tw.emit(ev("date.since", json!({"a": n, "b": dn(o)}), || json!({"r": dur(d.signed_duration_since(o))})));
        tw.emit(ev("date.since", json!({"a": n, "b": dn(o), "via": "sub_op"}), || json!({"r": dur(d - o)})));
        // Days through the operators (documented to panic when the date leaves the range) and compound assignment
        for k in [0u64, 1, 365, (MAX_DAY - n) as u64, (MAX_DAY - n) as u64 + 1] {
            tw.emit(ev("o.date.add", json!({"n": n, "d": big(k as i128 * 86_400 * NS), "via": "add_days_op"}), || json!({"r": dn(d + Days::new(k))})));
            tw.emit(ev("o.date.sub", json!({"n": n, "d": big(k as i128 * 86_400 * NS), "via": "sub_days_op"}), || json!({"r": dn(d - Days::new(k))})));
        }
        { let td = mk_dur(86_400 * NS * 3 + 5).unwrap();
          tw.emit(ev("o.date.add", json!({"n": n, "d": dur(td), "via": "add_assign"}), || { let mut y = d; y += td; json!({"r": dn(y)}) }));
          tw.emit(ev("o.date.sub", json!({"n": n, "d": dur(td), "via": "sub_assign"}), || { let mut y = d; y -= td; json!({"r": dn(y)}) })); }
        let x = d.and_hms_nano_opt(23, 59, 59, 1_999_999_999).unwrap();
        for k in [0u64, 1, (MAX_DAY - n) as u64, (MAX_DAY - n) as u64 + 1, (n - MIN_DAY) as u64, (n - MIN_DAY) as u64 + 1, u64::MAX] {
            tw.emit(ev("dtd.add_days", json!({"dt": ndt(x), "k": big(k as i128)}), || json!({"r": ondt(x.checked_add_days(Days::new(k)))})));
            tw.emit(ev("dtd.sub_days", json!({"dt": ndt(x), "k": big(k as i128)}), || json!({"r": ondt(x.checked_sub_days(Days::new(k)))})));
        }
    }
    // steps across year ends, the leap day and the century seams in EVERY class of year: one year per (weekday of 1 January, leap) class
    // (2001..2028), the years around every kind of century (divisible by 400 or not, both sides of year 0) and years far out
    {
        let mut years: Vec<i32> = (2001..=2028).collect();
        for c in [-4, -3, -2, -1, 0, 1, 2, 3, 4, 15, 16, 17, 18, 19, 20, 21, 22, 23, 24] { years.extend([100 * c - 1, 100 * c, 100 * c + 1]); }
        years.extend([-262_000, -261_999, 261_999, 262_000, 9_999, 10_000]);
        for &y in &years { for (m, dd) in [(1u32, 1u32), (1, 2), (2, 28), (3, 1), (12, 30), (12, 31)] { for k in [1u64, 2, 31, 59, 60, 365, 366] {
            if ctx.quick() && rng.chance(1, 2) { continue; }
            let n = days_from_civil(y, m, dd);
            let d = mk_date(n);
            tw.emit(ev("date.add_days", json!({"n": n, "k": big(k as i128)}), || json!({"r": odn(d.checked_add_days(Days::new(k)))})));
            tw.emit(ev("date.sub_days", json!({"n": n, "k": big(k as i128)}), || json!({"r": odn(d.checked_sub_days(Days::new(k)))})));
            if k <= 2 || k >= 365 {
                let td = mk_dur(k as i128 * 86_400 * NS).unwrap();
                let x = d.and_hms_nano_opt(12, 0, 0, 5).unwrap();
                tw.emit(ev("dt.add", json!({"dt": ndt(x), "d": dur(td)}), || json!({"r": ondt(x.checked_add_signed(td))})));
                tw.emit(ev("dt.sub", json!({"dt": ndt(x), "d": dur(td)}), || json!({"r": ondt(x.checked_sub_signed(td))})));
                tw.emit(ev("date.add_dur", json!({"n": n, "d": dur(td)}), || json!({"r": odn(d.checked_add_signed(td))})));
                tw.emit(ev("date.sub_dur", json!({"n": n, "d": dur(td)}), || json!({"r": odn(d.checked_sub_signed(td))})));
            }
            n_date += 2;
        } } }
    }
    // iterator episodes
    let episodes = ctx.t(300, 20_000);
    for i in 0..episodes {
        let step: i64 = if i % 2 == 0 { 1 } else { 7 };
        let start = match i % 5 { 0 => MAX_DAY - rng.range(0, 50), 1 => MIN_DAY + rng.range(0, 50), 2 => MAX_DAY, 3 => MIN_DAY, _ => rng.range(MIN_DAY, MAX_DAY) };
        if tw.room() < 45 { tw.roll(); }
        tw.emit(json!({"op": "it.start", "n": start, "step": step}));
        let d0: NaiveDate = mk_date(start);
        let mut itd = d0.iter_days();
        let mut itw = d0.iter_weeks();
        for _ in 0..rng.range(3, 40) {
            match rng.below(4) {
                0 => tw.emit(ev("it.hint", json!({"step": step}), || { let (lo, hi, len) = if step == 1 { let h = itd.size_hint(); (h.0, h.1.unwrap(), itd.len()) } else { let h = itw.size_hint(); (h.0, h.1.unwrap(), itw.len()) };
                        json!({"lo": lo as i64, "hi": hi as i64, "len": len as i64}) })),
                2 if i % 5 == 2 => { // adaptors of the standard traits must agree with stepping
                    let k = rng.range(0, 4);
                    tw.emit(ev("it.nth", json!({"step": step, "k": k}), || json!({"r": odn(if step == 1 { itd.nth(k as usize) } else { itw.nth(k as usize) })})));
                }
                3 if start > MAX_DAY - 60 && i % 3 == 0 => {
                    tw.emit(ev("it.count", json!({"step": step}), || json!({"r": (if step == 1 { itd.by_ref().count() } else { itw.by_ref().count() }) as i64})));
                }
                1 if i % 7 == 3 => tw.emit(ev("it.back", json!({"step": step}), || json!({"r": odn(if step == 1 { itd.next_back() } else { itw.next_back() })}))),
                _ => tw.emit(ev("it.next", json!({"step": step}), || json!({"r": odn(if step == 1 { itd.next() } else { itw.next() })}))),
            }
        }
    }
    tw.finish();
    json!({"events": tw.total, "datetime_add_sub_events": n_add, "pair_events": n_pairs, "date_events": n_date, "iterator_episodes": episodes})
}
