//! C13: parsing with a format string inverts formatting with it.
//!
//! The driver composes format strings (date block in calendar / ordinal / ISO-week / %U-%W form, time block, fraction,
//! offset or timestamp; a padding modifier drawn per numeric specifier, separators drawn per position), formats the
//! values of the C12 lattice, parses the text back with `parse_from_str` and `parse_and_remainder` (as the formatted
//! type and as every narrower type) and records everything in one `rt` event. It also records perturbed texts (names
//! and am/pm in another letter case, surplus white space after the white space of the format) with their item-level
//! descriptor. The specification (`Trace_ParseFmt`) decides whether the format belongs to the unambiguous family,
//! re-derives the text, the perturbed texts and the value parsing must return (`Project`) - nothing is judged here.
//! `plausible()` only keeps the generator inside the family; a format the specification does not recognise as
//! unambiguous is rejected there (so a generator mistake is visible, never silent).
use super::c12::{self, Val};
use super::Ctx;
use crate::big::cps;
use crate::ev;
use crate::out::Tw;
use crate::proj::*;
use crate::rng::Rng;
use chrono::format::{Fixed, Item, Numeric, Pad, StrftimeItems};
use chrono::{DateTime, NaiveDate, NaiveDateTime, NaiveTime};
use serde_json::{json, Value};

const DATE_BLOCKS: [&str; 40] = [
    "%Y~%m~%d", "%d~%m~%Y", "%m~%d~%Y", "%e %b %Y", "%A, %B %d, %Y", "%a %h %e %Y", "%C%y~%m~%d", "%C~%y~%m~%d", "%y~%m~%d", "%d~%m~%y",
    "%Y~%j", "%j~%Y", "%y~%j", "%C%y~%j", "%G~W%V~%u", "%G~%V~%a", "%g~%V~%w", "%G~%V~%A", "%u %V %G", "%Y~%U~%w",
    "%Y~%W~%u", "%y~%U~%A", "%C%y~%W~%a", "%a %U %Y", "%F", "%D", "%x", "%v", "%Y~%q~%m~%d", "%Y%m%d",
    "%y%m%d", "%Y%j", "%G%V%u", "%Y%U%w", "%Y%W%u", "%C%y%m%d", "%Y%%%m%%%d", "%Y%t%m%n%d", "%d%b%Y", "%Y~%m~%d %a %A w%U/%W %G~W%V~%u d%j q%q %C %y %g",
];
const TIME_BLOCKS: [&str; 22] = [
    "%H^%M^%S", "%k^%M^%S", "%H^%M", "%k^%M", "%I^%M^%S %p", "%l^%M^%S%P", "%I^%M %P", "%p %I^%M^%S", "%l %p %M", "%T", "%X",
    "%R", "%r", "%H%M%S", "%I%M%S%p", "%H%M", "%M^%S^%H", "%S^%M^%H", "%H^%M^%S %I %p", "%P%l^%M", "%H h %M m %S s", "%k^%M^%S %P",
];
// fraction directly after the seconds (the block must end with %S / %T / %X)
const FRACS_AFTER_SEC: [&str; 12] = ["", "%.f", "%.3f", "%.6f", "%.9f", ".%3f", ".%6f", ".%9f", "%3f", "%6f", "%9f", ",%f"];
const OFFS: [&str; 6] = ["%z", "%:z", " %z", " %:z", " UTC%:z", "%t%z"];
const STAMPS: [&str; 10] = ["%s", "%s%.f", "%s%.3f", "%s%.6f", "%s.%6f", "%s.%9f", "%s %f", "%s%.9f", "@%s", "%s,%3f"];
const GLUES: [&str; 7] = ["T", " ", ", ", " at ", "_", "  ", "\u{3000}"];
const DATE_SEPS: [&str; 7] = ["-", "/", ".", " ", "年", ", ", "--"];
const TIME_SEPS: [&str; 5] = [":", ".", "h", " ", "::"];
const WHITE: [&str; 7] = [" ", "  ", "\t", "\u{3000}", " \n", "\u{a0}", "\u{2003} "];
const NUMERIC: &str = "YCyqmdewuUWGgVjHkIlMSfs";

/// Replaces the placeholders and draws a padding modifier for every numeric specifier.
fn instantiate(rng: &mut Rng, block: &str, pad_mode: usize) -> String {
    let mut s = String::new();
    let cs: Vec<char> = block.chars().collect();
    let uniform = *rng.pick(&c12::PADS);
    let dsep = *rng.pick(&DATE_SEPS[..]);
    let tsep = *rng.pick(&TIME_SEPS[..]);
    let mut i = 0;
    while i < cs.len() {
        match cs[i] {
            '%' if i + 1 < cs.len() => {
                s.push('%');
                if NUMERIC.contains(cs[i + 1]) {
                    // pad_mode 0: no modifier; 1: the same modifier everywhere; 2: drawn per specifier
                    let p = match pad_mode { 0 => "", 1 => uniform, _ => *rng.pick(&c12::PADS) };
                    s.push_str(p);
                }
                s.push(cs[i + 1]);
                i += 2;
                continue;
            }
            '~' => s.push_str(if rng.chance(4, 5) { dsep } else { *rng.pick(&DATE_SEPS[..]) }),
            '^' => s.push_str(if rng.chance(4, 5) { tsep } else { *rng.pick(&TIME_SEPS[..]) }),
            ' ' => s.push_str(*rng.pick(&WHITE[..])),
            c => s.push(c),
        }
        i += 1;
    }
    s
}

#[derive(PartialEq, Clone, Copy)]
enum Cls { Digit, Space, Sign, Dot, Letter, Colon, Other, Empty }

fn class_of(c: char) -> Cls {
    if c.is_ascii_digit() { Cls::Digit } else if c.is_whitespace() { Cls::Space } else if c == '+' || c == '-' { Cls::Sign }
    else if c == '.' { Cls::Dot } else if c.is_ascii_alphabetic() { Cls::Letter } else if c == ':' { Cls::Colon } else { Cls::Other }
}

fn internal_name(f: &Fixed) -> String { format!("{:?}", f) }

fn start_set(it: &Item) -> Vec<Cls> {
    match it {
        Item::Literal(s) => vec![class_of(s.chars().next().unwrap())],
        Item::Space(_) => vec![Cls::Space],
        Item::Numeric(n, p) => {
            let mut v = vec![Cls::Digit];
            if matches!(n, Numeric::Year | Numeric::IsoYear | Numeric::Timestamp) { v.push(Cls::Sign); }
            if *p == Pad::Space && !matches!(n, Numeric::Quarter | Numeric::NumDaysFromSun | Numeric::WeekdayFromMon) { v.push(Cls::Space); }
            v
        }
        Item::Fixed(f) => match f {
            Fixed::Nanosecond => vec![Cls::Dot, Cls::Empty],
            Fixed::Nanosecond3 | Fixed::Nanosecond6 | Fixed::Nanosecond9 => vec![Cls::Dot],
            Fixed::TimezoneOffset | Fixed::TimezoneOffsetColon | Fixed::TimezoneOffsetDoubleColon | Fixed::TimezoneOffsetTripleColon | Fixed::TimezoneName => vec![Cls::Sign],
            Fixed::RFC3339 => vec![Cls::Digit, Cls::Sign],
            Fixed::Internal(_) => if internal_name(f).contains("NoDot") { vec![Cls::Digit] } else { vec![Cls::Sign] },
            _ => vec![Cls::Letter],
        },
        _ => vec![Cls::Other],
    }
}

fn follow(items: &[Item], i: usize) -> Vec<Cls> {
    if i >= items.len() { return vec![]; }
    let mut s = start_set(&items[i]);
    if s.contains(&Cls::Empty) { s.retain(|c| *c != Cls::Empty); s.extend(follow(items, i + 1)); }
    s
}

/// Generator-side filter: every item that is printed narrower than the reader may read is followed by something that
/// cannot continue it. (The authoritative definition is ParseFmt!Separated.)
fn plausible(fmt: &str) -> bool {
    let items: Vec<Item> = StrftimeItems::new(fmt).collect();
    for (i, it) in items.iter().enumerate() {
        let avoid: Vec<Cls> = match it {
            Item::Error => return false,
            Item::Numeric(n, p) => {
                if matches!(n, Numeric::Quarter | Numeric::NumDaysFromSun | Numeric::WeekdayFromMon) { vec![] }
                else if matches!(n, Numeric::Timestamp) || *p != Pad::Zero { vec![Cls::Digit] } else { vec![] }
            }
            Item::Fixed(Fixed::Nanosecond) => vec![Cls::Digit, Cls::Dot],
            Item::Fixed(Fixed::Nanosecond3 | Fixed::Nanosecond6 | Fixed::Nanosecond9) => vec![Cls::Digit],
            Item::Fixed(Fixed::LongMonthName | Fixed::LongWeekdayName) => vec![Cls::Letter],
            Item::Fixed(Fixed::TimezoneName) => vec![Cls::Digit, Cls::Sign, Cls::Dot, Cls::Letter, Cls::Colon, Cls::Other],
            _ => vec![],
        };
        let f = follow(&items, i + 1);
        if avoid.iter().any(|a| f.contains(a)) { return false; }
    }
    true
}

fn err_kind(e: chrono::ParseError) -> Value { json!({"err": format!("{:?}", e.kind())}) }

/// `parse_from_str` and `parse_and_remainder` of the type named `pty`.
fn parse_both(pty: &str, text: &str, f: &str) -> (Value, Value) {
    fn rem<T>(r: Result<(T, &str), chrono::ParseError>, p: impl Fn(T) -> Value) -> Value {
        match r { Ok((v, rest)) => json!({"ok": p(v), "rest": rest.len()}), Err(e) => err_kind(e) }
    }
    let zoned = |z: DateTime<chrono::FixedOffset>| { let mut v = ndt(z.naive_utc()); v["off"] = json!(z.offset().local_minus_utc()); v };
    match pty {
        "date" => (match NaiveDate::parse_from_str(text, f) { Ok(d) => json!({"ok": {"n": dn(d)}}), Err(e) => err_kind(e) },
                   rem(NaiveDate::parse_and_remainder(text, f), |d| json!({"n": dn(d)}))),
        "time" => (match NaiveTime::parse_from_str(text, f) { Ok(t) => json!({"ok": tod(t)}), Err(e) => err_kind(e) },
                   rem(NaiveTime::parse_and_remainder(text, f), tod)),
        "ndt" => (match NaiveDateTime::parse_from_str(text, f) { Ok(x) => json!({"ok": ndt(x)}), Err(e) => err_kind(e) },
                  rem(NaiveDateTime::parse_and_remainder(text, f), ndt)),
        _ => (match DateTime::parse_from_str(text, f) { Ok(z) => json!({"ok": zoned(z)}), Err(e) => err_kind(e) },
              rem(DateTime::parse_and_remainder(text, f), zoned)),
    }
}

/// The same parse through OWNED items (`StrftimeItems::parse_to_owned` + `format::parse` + the `Parsed` resolution that
/// `parse_from_str` of the type uses): another route to the same behaviour, which must agree.
fn parse_owned(pty: &str, text: &str, f: &str) -> Value {
    use chrono::format::{Parsed, StrftimeItems};
    let items = match StrftimeItems::new(f).parse_to_owned() { Ok(i) => i, Err(e) => return err_kind(e) };
    let mut p = Parsed::new();
    if let Err(e) = chrono::format::parse(&mut p, text, items.iter()) { return err_kind(e); }
    match pty {
        "date" => match p.to_naive_date() { Ok(d) => json!({"ok": {"n": dn(d)}}), Err(e) => err_kind(e) },
        "time" => match p.to_naive_time() { Ok(t) => json!({"ok": tod(t)}), Err(e) => err_kind(e) },
        "ndt" => match p.to_naive_datetime_with_offset(0) { Ok(x) => json!({"ok": ndt(x)}), Err(e) => err_kind(e) },
        _ => match p.to_datetime() { Ok(z) => { let mut v = ndt(z.naive_utc()); v["off"] = json!(z.offset().local_minus_utc()); json!({"ok": v}) } Err(e) => err_kind(e) },
    }
}

fn swap_case(s: &str, mode: &str) -> String {
    match mode {
        "upper" => s.to_ascii_uppercase(),
        "lower" => s.to_ascii_lowercase(),
        "alt" => s.chars().enumerate().map(|(j, c)| if j % 2 == 0 { c.to_ascii_lowercase() } else { c.to_ascii_uppercase() }).collect(),
        _ => s.to_string(),
    }
}

/// The perturbed text, built item by item from the real rendering of each item: names and am/pm in letter case
/// `mode`, `ws` appended to the text of every white-space item.
fn perturb(v: &Val, fw: &str, mode: &str, ws: &str) -> Option<String> {
    let mut out = String::new();
    for it in StrftimeItems::new(fw) {
        let piece = match &it {
            Item::Literal(s) => s.to_string(),
            Item::Space(s) => format!("{}{}", s, ws),
            Item::Fixed(Fixed::ShortMonthName | Fixed::LongMonthName | Fixed::ShortWeekdayName | Fixed::LongWeekdayName | Fixed::LowerAmPm | Fixed::UpperAmPm) =>
                swap_case(&format_one(v, &it)?, mode),
            _ => format_one(v, &it)?,
        };
        out.push_str(&piece);
    }
    Some(out)
}

fn format_one(v: &Val, it: &Item) -> Option<String> {
    use std::fmt::Write;
    let items = [it.clone()];
    let mut s = String::new();
    let r = match v {
        Val::D(x) => write!(s, "{}", x.format_with_items(items.iter())),
        Val::T(x) => write!(s, "{}", x.format_with_items(items.iter())),
        Val::N(x) => write!(s, "{}", x.format_with_items(items.iter())),
        Val::Z(x) => write!(s, "{}", x.format_with_items(items.iter())),
    };
    r.ok().map(|_| s)
}

pub fn rt_event(rng: &mut Rng, v: &Val, pty0: &str, fw: &str, fr: &str, with_perts: bool) -> Value {
    let ty = v.ty();
    let modes = ["upper", "lower", "alt", "asis"];
    let mode = *rng.pick(&modes[..]);
    let ws: String = (0..1 + rng.below(2)).map(|_| *rng.pick(&[' ', '\t', '\n', '\u{a0}', '\u{3000}', '\u{2003}'][..])).collect();
    ev("rt", json!({"ty": ty, "pty0": pty0, "v": v.json(), "fw": cps(fw), "fr": cps(fr)}), || {
        let text = v.text(fw);
        let mut parsed = Vec::new();
        let mut perts = Vec::new();
        if let Some(t) = &text {
            let ptys: &[&str] = match pty0 { "dt" => &["dt", "ndt", "date", "time"], "ndt" => &["ndt", "date", "time"], "date" => &["date"], _ => &["time"] };
            for pty in ptys {
                let (r, rem) = parse_both(pty, t, fr);
                // parse_and_remainder hands back exactly what follows the text the format consumed ('|' can continue no item)
                let tail = format!("{}|tail", t);
                let (strict_tail, rem2) = parse_both(pty, &tail, fr);
                parsed.push(json!({"pty": pty, "r": r, "rem": rem, "owned": parse_owned(pty, t, fr), "rem2": rem2, "trailing_refused": strict_tail.get("err").is_some()}));
            }
            if with_perts {
                for (m, w) in [(mode, ""), ("asis", ws.as_str()), (mode, ws.as_str())] {
                    if let Some(pt) = perturb(v, fw, m, w) {
                        let (r, _) = parse_both(pty0, &pt, fr);
                        perts.push(json!({"mode": m, "ws": cps(w), "text": cps(&pt), "r": r, "owned": parse_owned(pty0, &pt, fr)}));
                    }
                }
            }
        }
        json!({"text": match &text { Some(t) => json!({"ok": cps(t)}), None => json!({"err": 1}) }, "parsed": parsed, "perts": perts})
    })
}

pub fn run(ctx: &Ctx) -> Value {
    let th = !ctx.quick();
    let mut tw = Tw::new(&ctx.out, "Trace_ParseFmt", ctx.t(1500, 6000));
    let mut rng = Rng::new(ctx.seed ^ 0xC13);
    let ds = c12::dates(false);
    let ts = c12::times(false);
    let mut nds: Vec<NaiveDateTime> = Vec::new();
    for (i, d) in ds.iter().enumerate() { nds.push(d.and_time(ts[(i * 7) % ts.len()])); }
    for (i, t) in ts.iter().enumerate() { nds.push(ds[(i * 11) % ds.len()].and_time(*t)); }
    let mut zs = c12::dts(&nds, &c12::OFFSETS);
    for (k, &o) in c12::OFFSETS.iter().enumerate() {
        let base = NaiveDate::from_ymd_opt(2001, 7, 8).unwrap().and_hms_nano_opt(0, 34, 59, 1_026_490_000).unwrap();
        zs.extend(c12::dts(&[base, nds[(k * 13) % nds.len()], NaiveDate::MIN.and_hms_opt(23, 59, 59).unwrap(), NaiveDate::MAX.and_hms_opt(0, 0, 0).unwrap()], &[o]));
    }
    zs.extend(c12::headroom());

    // format strings: (type, write format, read format)
    let mut fmts: Vec<(&'static str, &'static str, String, String)> = Vec::new();
    let mut seen = std::collections::HashSet::new();
    let mut dropped = 0usize;
    let mut push2 = |ty: &'static str, pty0: &'static str, fw: String, fr: String, fmts: &mut Vec<(&'static str, &'static str, String, String)>| {
        if !plausible(&fw) { dropped += 1; return; }
        if seen.insert((ty, pty0, fw.clone(), fr.clone())) { fmts.push((ty, pty0, fw, fr)); }
    };
    macro_rules! push { ($ty:expr, $fw:expr, $fr:expr, $fmts:expr) => { push2($ty, $ty, $fw, $fr, $fmts) } }
    let time_block = |rng: &mut Rng, b: &str, pm: usize| -> String {
        let mut t = instantiate(rng, b, pm);
        if b.ends_with("%S") || b.ends_with("%T") || b.ends_with("%X") { t.push_str(*rng.pick(&FRACS_AFTER_SEC[..])); }
        t
    };
    let rounds = ctx.t(2, 6);
    for round in 0..rounds {
        for b in DATE_BLOCKS.iter() {
            for pm in 0..3 { let f = instantiate(&mut rng, b, pm); push!("date", f.clone(), f, &mut fmts); }
        }
        for b in TIME_BLOCKS.iter() {
            for pm in 0..3 { let f = time_block(&mut rng, b, pm); push!("time", f.clone(), f, &mut fmts); }
        }
        for (i, b) in DATE_BLOCKS.iter().enumerate() {
            for k in 0..ctx.t(2, 4) {
                let c = TIME_BLOCKS[(i * 5 + k * 7 + round * 3) % TIME_BLOCKS.len()];
                let pm = (i + k + round) % 3;
                let d = instantiate(&mut rng, b, pm);
                let t = time_block(&mut rng, c, pm);
                let g = *rng.pick(&GLUES[..]);
                let body = if rng.chance(2, 3) { format!("{}{}{}", d, g, t) } else { format!("{}{}{}", t, g, d) };
                push!("ndt", body.clone(), body.clone(), &mut fmts);
                let o = *rng.pick(&OFFS[..]);
                let z = format!("{}{}", body, o);
                push!("dt", z.clone(), z, &mut fmts);
                // %Z prints the offset and is skipped (up to the next white space) when read: a zone-aware value read back as naive
                if k == 1 { let f = format!("{} %Z", body); push2("dt", "ndt", f.clone(), f, &mut fmts); }
                // the parse-only %#z reads what %z, %:z and %:::z print (as the last item)
                if k == 0 && (i + round) % 2 == 0 {
                    for (wr, sp) in [("%z", ""), ("%:z", " "), ("%:::z", " "), ("%:::z", "")] {
                        push!("dt", format!("{}{}{}", body, sp, wr), format!("{}{}%#z", body, sp), &mut fmts);
                    }
                }
            }
        }
        for s in STAMPS.iter() {
            for pm in 0..3 {
                let f = instantiate(&mut rng, s, pm);
                push!("ndt", f.clone(), f.clone(), &mut fmts);
                for o in ["", " %z", "%:z", " %:z"] { let z = format!("{}{}", f, o); push!("dt", z.clone(), z, &mut fmts); }
            }
        }
        // a timestamp printed next to a complete civil value is redundant: the civil fields decide and the timestamp is cross-checked
        // (leap seconds and every offset sign included)
        for f in ["%Y-%m-%dT%H:%M:%S%.f%:z @%s", "%s %Y-%m-%d %H:%M:%S %z", "%+ %s", "%s = %G-W%V-%u %I:%M:%S%.3f %p %:z"] {
            for _ in 0..3 { push!("dt", f.to_string(), f.to_string(), &mut fmts); }
        }
        for f in ["%c", "%+", "%c %z", "%+ %A", "%A %+", "%c%t%:z"] {
            if !f.contains('z') && !f.contains('+') { push!("ndt", f.to_string(), f.to_string(), &mut fmts); }
            else { push!("dt", f.to_string(), f.to_string(), &mut fmts); }
        }
    }
    // values per format
    let per = ctx.t(20, 60);
    let (mut n_rt, mut by_ty) = (0usize, serde_json::Map::new());
    for (k, (ty, pty0, fw, fr)) in fmts.iter().enumerate() {
        for j in 0..per {
            let idx = k * 31 + j * 17;
            let v = match *ty {
                "date" => Val::D(ds[idx % ds.len()]),
                "time" => Val::T(ts[idx % ts.len()]),
                "ndt" => Val::N(nds[idx % nds.len()]),
                _ => Val::Z(zs[idx % zs.len()]),
            };
            tw.emit(rt_event(&mut rng, &v, pty0, fw, fr, j % 3 == 0 || th));
            n_rt += 1;
        }
        let e = by_ty.entry(ty.to_string()).or_insert(json!(0));
        *e = json!(e.as_u64().unwrap() + 1);
    }
    tw.finish();
    json!({"events": tw.total, "round_trip_events": n_rt, "formats": fmts.len(), "formats_by_type": by_ty, "candidates_dropped_by_generator_filter": dropped,
           "values": {"dates": ds.len(), "times": ts.len(), "naive_datetimes": nds.len(), "datetimes": zs.len()}})
}
