//! C15: fallible operations fail by value, not by panic or hang. Every public, non-deprecated fallible entry
//! point is called with integer extremes, both range ends, arbitrary Unicode text and arbitrary format strings.
use super::Ctx;
use crate::big::{big, cps};
use crate::ev;
use crate::out::Tw;
use crate::proj::*;
use crate::rng::Rng;
use crate::textgen::*;
use crate::w::c01::{MAX_DAY, MIN_DAY};
use chrono::format::{Item, Parsed, StrftimeItems};
use chrono::{DateTime, Datelike, Days, DurationRound, FixedOffset, Month, Months, NaiveDate, NaiveDateTime, NaiveTime, SecondsFormat, TimeDelta, TimeZone, Timelike, Utc, Weekday};
use num_traits::FromPrimitive;
use serde_json::{json, Value};
use std::str::FromStr;

fn vdate(d: NaiveDate) -> Value { json!({"k": "date", "n": dn(d)}) }
fn vtime(t: NaiveTime) -> Value { json!({"k": "time", "t": tod(t)}) }
fn vndt(x: NaiveDateTime) -> Value { json!({"k": "ndt", "dt": ndt(x)}) }
fn vdur(d: TimeDelta) -> Value { json!({"k": "dur", "d": dur(d)}) }
fn vdtz<Tz: TimeZone>(z: DateTime<Tz>) -> Value { json!({"k": "dtz", "u": ndt(z.naive_utc()), "off": z.offset().fix().local_minus_utc()}) }
fn voff(o: FixedOffset) -> Value { json!({"k": "off", "off": o.local_minus_utc()}) }
fn vother() -> Value { json!({"k": "other"}) }
use chrono::Offset;
fn oo<T>(o: Option<T>, f: impl FnOnce(T) -> Value) -> Value { match o { Some(x) => json!({"out": "ok", "v": f(x)}), None => json!({"out": "none"}) } }
fn rr<T, E>(r: Result<T, E>, f: impl FnOnce(T) -> Value) -> Value { match r { Ok(x) => json!({"out": "ok", "v": f(x)}), Err(_) => json!({"out": "err"}) } }
fn lr<T>(r: chrono::LocalResult<T>, f: impl Fn(T) -> Value) -> Value {
    match r { chrono::LocalResult::Single(x) => json!({"out": "ok", "v": f(x)}), chrono::LocalResult::Ambiguous(a, _) => json!({"out": "ambiguous", "v": f(a)}), chrono::LocalResult::None => json!({"out": "none"}) }
}

const U32X: [u32; 12] = [0, 1, 2, 12, 13, 31, 32, 59, 60, 366, 1 << 31, u32::MAX];
const I32X: [i32; 13] = [i32::MIN, i32::MIN + 1, -262_145, -262_144, -262_143, -1, 0, 1, 2024, 262_142, 262_143, i32::MAX - 1, i32::MAX];
const I64X: [i64; 15] = [i64::MIN, i64::MIN + 1, -9_223_372_036_854_776, -8_334_601_228_800, -8_334_601_228_801, -1, 0, 1, 59, 8_210_266_876_799, 8_210_266_876_800, 9_223_372_036_854_775, 1 << 32, i64::MAX - 1, i64::MAX];

pub fn run(ctx: &Ctx) -> Value {
    let mut tw = Tw::new(&ctx.out, "Trace_Totality", ctx.t(6_000, 40_000));
    let mut rng = Rng::new(ctx.seed ^ 0x15);
    let mut tc = Tw::new(&ctx.out, "Trace_ItemsCount", ctx.t(400, 4_000));
    let rounds = ctx.t(1, 12);
    let dates: Vec<NaiveDate> = [MIN_DAY, MIN_DAY + 1, MIN_DAY + 366, -1, 0, 1, 719_163, 738_000, 738_000 + 59, MAX_DAY - 366, MAX_DAY - 1, MAX_DAY,
        // the days on which the 64-bit nanosecond timestamp window begins and ends (1677-09-21, 2262-04-11) and their neighbours
        612_410, 612_411, 825_913, 825_914].iter().map(|&n| mk_date(n)).collect();
    let times: Vec<NaiveTime> = vec![mk_time_any(0, 0), mk_time_any(86_399, 999_999_999), mk_time_any(86_399, 1_999_999_999), mk_time_any(43_200, 1_000_000_000), mk_time_any(59, 1_500_000_000), mk_time_any(86_399, 1_600_000_000)];
    // (sub-second parts near one second: sums of nanosecond fields reach beyond i32::MAX for leap-second operands)
    let durs: Vec<TimeDelta> = [0i128, 1, -1, NS, -NS, 86_400 * NS, -86_400 * NS, DUR_LIM, -DUR_LIM, DUR_LIM - 1, i64::MAX as i128, -(i64::MAX as i128) - 1,
                                700_000_000, -700_000_000, 999_999_999, -999_999_999, NS + 999_999_999, -(NS + 999_999_999),
                                // whole seconds next to the range ends (the ends are not whole seconds)
                                DUR_LIM / NS * NS, -(DUR_LIM / NS * NS), (DUR_LIM / NS - 1) * NS, -(DUR_LIM / NS - 1) * NS, 2 * NS, -2 * NS].iter().map(|&d| mk_dur(d).unwrap()).collect();
    let offs: Vec<FixedOffset> = [0, 1, -1, 3600, -3600, 86_399, -86_399].iter().map(|&o| FixedOffset::east_opt(o).unwrap()).collect();
    macro_rules! call { ($op:expr, $args:expr, $body:expr) => { tw.emit(ev($op, $args, || $body)) }; }
    for round in 0..rounds {
        // ---- constructors and integer arguments --------------------------------------------------
        for &y in &I32X { for &a in &U32X { for &b in &[0u32, 1, 31, 366, u32::MAX] {
            call!("NaiveDate.from_ymd_opt", json!({"y": y, "a": big(a as i128), "b": big(b as i128)}), oo(NaiveDate::from_ymd_opt(y, a, b), vdate));
            call!("NaiveDate.from_isoywd_opt", json!({"y": y, "a": big(a as i128)}), oo(NaiveDate::from_isoywd_opt(y, a, wd_of((b % 7) as i64)), vdate));
            call!("NaiveDate.from_weekday_of_month_opt", json!({"y": y, "a": big(a as i128), "b": big(b as i128)}), oo(NaiveDate::from_weekday_of_month_opt(y, a, wd_of((b % 7) as i64), (b % 256) as u8), vdate));
            call!("Utc.with_ymd_and_hms", json!({"y": y, "a": big(a as i128), "b": big(b as i128)}), lr(Utc.with_ymd_and_hms(y, a, b, a, b, a), vdtz));
            call!("FixedOffset.with_ymd_and_hms", json!({"y": y, "a": big(a as i128), "b": big(b as i128)}), lr(offs[(a as usize) % offs.len()].with_ymd_and_hms(y, a % 14, b % 33, 23, 59, 59), vdtz));
        }
            call!("NaiveDate.from_yo_opt", json!({"y": y, "a": big(a as i128)}), oo(NaiveDate::from_yo_opt(y, a), vdate));
        }
            call!("NaiveDate.from_num_days_from_ce_opt", json!({"y": y}), oo(NaiveDate::from_num_days_from_ce_opt(y), vdate));
            call!("FixedOffset.east_opt", json!({"y": y}), oo(FixedOffset::east_opt(y), voff));
            call!("FixedOffset.west_opt", json!({"y": y}), oo(FixedOffset::west_opt(y), voff));
            for m in 1..=12u32 { call!("Month.num_days", json!({"y": y, "m": m}), oo(Month::from_u32(m).unwrap().num_days(y), |_| vother())); }
        }
        for &h in &U32X { for &m in &[0u32, 59, 60, u32::MAX] { for &s in &[0u32, 59, 60, u32::MAX] { for &n in &[0u32, 999_999_999, 1_000_000_000, 1_999_999_999, 2_000_000_000, u32::MAX] {
            call!("NaiveTime.from_hms_nano_opt", json!({"h": big(h as i128), "s": big(s as i128), "n": big(n as i128)}), oo(NaiveTime::from_hms_nano_opt(h, m, s, n), vtime));
            call!("NaiveTime.from_hms_micro_opt", json!({"h": big(h as i128), "s": big(s as i128), "n": big(n as i128)}), oo(NaiveTime::from_hms_micro_opt(h, m, s, n), vtime));
            call!("NaiveTime.from_hms_milli_opt", json!({"h": big(h as i128), "s": big(s as i128), "n": big(n as i128)}), oo(NaiveTime::from_hms_milli_opt(h, m, s, n), vtime));
            call!("NaiveTime.from_num_seconds_from_midnight_opt", json!({"h": big(h as i128), "n": big(n as i128)}), oo(NaiveTime::from_num_seconds_from_midnight_opt(h.wrapping_mul(7200).wrapping_add(s), n), vtime));
            let d = dates[(h as usize) % dates.len()];
            call!("NaiveDate.and_hms_nano_opt", json!({"n": dn(d), "h": big(h as i128), "ns": big(n as i128)}), oo(d.and_hms_nano_opt(h, m, s, n), vndt));
            call!("NaiveDate.and_hms_micro_opt", json!({"n": dn(d), "h": big(h as i128), "ns": big(n as i128)}), oo(d.and_hms_micro_opt(h, m, s, n), vndt));
            call!("NaiveDate.and_hms_milli_opt", json!({"n": dn(d), "h": big(h as i128), "ns": big(n as i128)}), oo(d.and_hms_milli_opt(h, m, s, n), vndt));
        }
            call!("NaiveTime.from_hms_opt", json!({"h": big(h as i128), "s": big(s as i128)}), oo(NaiveTime::from_hms_opt(h, m, s), vtime));
            call!("NaiveDate.and_hms_opt", json!({"h": big(h as i128), "s": big(s as i128)}), oo(dates[0].and_hms_opt(h, m, s), vndt));
        }}}
        for &c in &I64X { for &n in &[0u32, 999_999_999, 1_000_000_000, 1_999_999_999, 2_000_000_000, u32::MAX] {
            call!("DateTime.from_timestamp", json!({"c": big(c as i128), "n": big(n as i128)}), oo(DateTime::from_timestamp(c, n), vdtz));
            call!("Utc.timestamp_opt", json!({"c": big(c as i128), "n": big(n as i128)}), lr(Utc.timestamp_opt(c, n), vdtz));
            call!("TimeDelta.new", json!({"c": big(c as i128), "n": big(n as i128)}), oo(TimeDelta::new(c, n), vdur));
        }
            call!("DateTime.from_timestamp_millis", json!({"c": big(c as i128)}), oo(DateTime::from_timestamp_millis(c), vdtz));
            call!("DateTime.from_timestamp_micros", json!({"c": big(c as i128)}), oo(DateTime::from_timestamp_micros(c), vdtz));
            call!("Utc.timestamp_millis_opt", json!({"c": big(c as i128)}), lr(Utc.timestamp_millis_opt(c), vdtz));
            call!("Utc.timestamp_micros", json!({"c": big(c as i128)}), lr(Utc.timestamp_micros(c), vdtz));
            call!("TimeDelta.try_weeks", json!({"c": big(c as i128)}), oo(TimeDelta::try_weeks(c), vdur));
            call!("TimeDelta.try_days", json!({"c": big(c as i128)}), oo(TimeDelta::try_days(c), vdur));
            call!("TimeDelta.try_hours", json!({"c": big(c as i128)}), oo(TimeDelta::try_hours(c), vdur));
            call!("TimeDelta.try_minutes", json!({"c": big(c as i128)}), oo(TimeDelta::try_minutes(c), vdur));
            call!("TimeDelta.try_seconds", json!({"c": big(c as i128)}), oo(TimeDelta::try_seconds(c), vdur));
            call!("TimeDelta.try_milliseconds", json!({"c": big(c as i128)}), oo(TimeDelta::try_milliseconds(c), vdur));
            call!("Month.from_i64", json!({"c": big(c as i128)}), oo(Month::from_i64(c), |_| vother()));
            call!("Month.from_u64", json!({"c": big(c as u64 as i128)}), oo(Month::from_u64(c as u64), |_| vother()));
            call!("Weekday.from_i64", json!({"c": big(c as i128)}), oo(Weekday::from_i64(c), |_| vother()));
            call!("Weekday.from_u64", json!({"c": big(c as u64 as i128)}), oo(Weekday::from_u64(c as u64), |_| vother()));
            call!("Month.from_u32", json!({"c": big(c as u32 as i128)}), oo(Month::from_u32(c as u32), |_| vother()));
            call!("Weekday.try_from_u8", json!({"c": big(c as u8 as i128)}), rr(Weekday::try_from(c as u8), |_| vother()));
            call!("Month.try_from_u8", json!({"c": big(c as u8 as i128)}), rr(Month::try_from(c as u8), |_| vother()));
        }
        // ---- arithmetic, replacement, rounding at the range ends ----------------------------------
        for &d in &dates {
            for &k in &[0u32, 1, 12, 1 << 31, u32::MAX] {
                call!("NaiveDate.checked_add_months", json!({"n": dn(d), "k": big(k as i128)}), oo(d.checked_add_months(Months::new(k)), vdate));
                call!("NaiveDate.checked_sub_months", json!({"n": dn(d), "k": big(k as i128)}), oo(d.checked_sub_months(Months::new(k)), vdate));
            }
            for &k in &[0u64, 1, 365, 1 << 31, 1 << 32, u64::MAX] {
                call!("NaiveDate.checked_add_days", json!({"n": dn(d), "k": big(k as i128)}), oo(d.checked_add_days(Days::new(k)), vdate));
                call!("NaiveDate.checked_sub_days", json!({"n": dn(d), "k": big(k as i128)}), oo(d.checked_sub_days(Days::new(k)), vdate));
            }
            call!("NaiveDate.succ_opt", json!({"n": dn(d)}), oo(d.succ_opt(), vdate));
            call!("NaiveDate.pred_opt", json!({"n": dn(d)}), oo(d.pred_opt(), vdate));
            for &v in &U32X {
                call!("NaiveDate.with_month", json!({"n": dn(d), "a1": big(v as i128)}), oo(d.with_month(v), vdate));
                call!("NaiveDate.with_month0", json!({"n": dn(d), "a1": big(v as i128)}), oo(d.with_month0(v), vdate));
                call!("NaiveDate.with_day", json!({"n": dn(d), "a1": big(v as i128)}), oo(d.with_day(v), vdate));
                call!("NaiveDate.with_day0", json!({"n": dn(d), "a1": big(v as i128)}), oo(d.with_day0(v), vdate));
                call!("NaiveDate.with_ordinal", json!({"n": dn(d), "a1": big(v as i128)}), oo(d.with_ordinal(v), vdate));
                call!("NaiveDate.with_ordinal0", json!({"n": dn(d), "a1": big(v as i128)}), oo(d.with_ordinal0(v), vdate));
            }
            for &y in &I32X { call!("NaiveDate.with_year", json!({"n": dn(d), "y": y}), oo(d.with_year(y), vdate)); }
            for &o in &dates { call!("NaiveDate.years_since", json!({"n": dn(d), "o": dn(o)}), oo(d.years_since(o), |_| vother())); }
            for w in 0..7 { let wk = d.week(wd_of(w));
                call!("NaiveDate.week.checked_first_day", json!({"n": dn(d), "w": w}), oo(wk.checked_first_day(), vdate));
                call!("NaiveDate.week.checked_last_day", json!({"n": dn(d), "w": w}), oo(wk.checked_last_day(), vdate));
                call!("NaiveDate.week.checked_days", json!({"n": dn(d), "w": w}), oo(wk.checked_days(), |_| vother()));
                call!("NaiveWeek.first_day", json!({"n": dn(d), "w": w}), json!({"out": "ok", "v": vdate(wk.first_day())}));
                call!("NaiveWeek.last_day", json!({"n": dn(d), "w": w}), json!({"out": "ok", "v": vdate(wk.last_day())}));
            }
            for &td in &durs {
                call!("NaiveDate.checked_add_signed", json!({"n": dn(d), "d": dur(td)}), oo(d.checked_add_signed(td), vdate));
                call!("NaiveDate.checked_sub_signed", json!({"n": dn(d), "d": dur(td)}), oo(d.checked_sub_signed(td), vdate));
                call!("op.NaiveDate.add", json!({"n": dn(d), "d": dur(td)}), json!({"out": "ok", "v": vdate(d + td)}));
                call!("op.NaiveDate.sub", json!({"n": dn(d), "d": dur(td)}), json!({"out": "ok", "v": vdate(d - td)}));
                for &t in &times {
                    let x = d.and_time(t);
                    call!("NaiveDateTime.checked_add_signed", json!({"dt": ndt(x), "d": dur(td)}), oo(x.checked_add_signed(td), vndt));
                    call!("NaiveDateTime.checked_sub_signed", json!({"dt": ndt(x), "d": dur(td)}), oo(x.checked_sub_signed(td), vndt));
                    call!("op.NaiveDateTime.add", json!({"dt": ndt(x), "d": dur(td)}), json!({"out": "ok", "v": vndt(x + td)}));
                    call!("op.NaiveDateTime.sub", json!({"dt": ndt(x), "d": dur(td)}), json!({"out": "ok", "v": vndt(x - td)}));
                    call!("NaiveDateTime.duration_round", json!({"dt": ndt(x), "d": dur(td)}), rr(x.duration_round(td), vndt));
                    call!("NaiveDateTime.duration_trunc", json!({"dt": ndt(x), "d": dur(td)}), rr(x.duration_trunc(td), vndt));
                    call!("NaiveDateTime.duration_round_up", json!({"dt": ndt(x), "d": dur(td)}), rr(x.duration_round_up(td), vndt));
                    call!("NaiveTime.overflowing_add_signed", json!({"t": tod(t), "d": dur(td)}), json!({"out": "ok", "v": vtime(t.overflowing_add_signed(td).0)}));
                    call!("NaiveTime.overflowing_sub_signed", json!({"t": tod(t), "d": dur(td)}), json!({"out": "ok", "v": vtime(t.overflowing_sub_signed(td).0)}));
                }
            }
            for &t in &times {
                let x = d.and_time(t);
                for &fo in &offs {
                    call!("NaiveDateTime.checked_add_offset", json!({"dt": ndt(x), "off": fo.local_minus_utc()}), oo(x.checked_add_offset(fo), vndt));
                    call!("NaiveDateTime.checked_sub_offset", json!({"dt": ndt(x), "off": fo.local_minus_utc()}), oo(x.checked_sub_offset(fo), vndt));
                    call!("NaiveDateTime.and_local_timezone", json!({"dt": ndt(x), "off": fo.local_minus_utc()}), lr(x.and_local_timezone(fo), vdtz));
                    call!("FixedOffset.from_local_datetime", json!({"dt": ndt(x), "off": fo.local_minus_utc()}), lr(fo.from_local_datetime(&x), vdtz));
                    // zone-aware values, including those whose wall clock lies in the one-day headroom
                    if let Some(z) = if x <= NaiveDateTime::MAX { Some(fo.from_utc_datetime(&x)) } else { None } {
                        let a = json!({"u": ndt(x), "off": fo.local_minus_utc()});
                        for &td in &durs[..6] {
                            call!("DateTime.checked_add_signed", a.clone(), oo(z.checked_add_signed(td), vdtz));
                            call!("DateTime.checked_sub_signed", a.clone(), oo(z.checked_sub_signed(td), vdtz));
                            call!("DateTime.duration_round", a.clone(), rr(z.duration_round(td), vdtz));
                            call!("DateTime.duration_trunc", a.clone(), rr(z.duration_trunc(td), vdtz));
                            call!("DateTime.duration_round_up", a.clone(), rr(z.duration_round_up(td), vdtz));
                        }
                        call!("op.DateTime.add", a.clone(), json!({"out": "ok", "v": vdtz(z + durs[5])}));
                        call!("op.DateTime.sub", a.clone(), json!({"out": "ok", "v": vdtz(z - durs[5])}));
                        for &k in &[0u32, 1, 12, u32::MAX] {
                            call!("DateTime.checked_add_months", a.clone(), oo(z.checked_add_months(Months::new(k)), vdtz));
                            call!("DateTime.checked_sub_months", a.clone(), oo(z.checked_sub_months(Months::new(k)), vdtz));
                            call!("DateTime.checked_add_days", a.clone(), oo(z.checked_add_days(Days::new(k as u64 * 3)), vdtz));
                            call!("DateTime.checked_sub_days", a.clone(), oo(z.checked_sub_days(Days::new(k as u64 * 3)), vdtz));
                        }
                        for &v in &[0u32, 1, 12, 31, 59, 60, 366, u32::MAX] {
                            call!("DateTime.with_month", a.clone(), oo(z.with_month(v), vdtz)); call!("DateTime.with_month0", a.clone(), oo(z.with_month0(v), vdtz));
                            call!("DateTime.with_day", a.clone(), oo(z.with_day(v), vdtz)); call!("DateTime.with_day0", a.clone(), oo(z.with_day0(v), vdtz));
                            call!("DateTime.with_ordinal", a.clone(), oo(z.with_ordinal(v), vdtz)); call!("DateTime.with_ordinal0", a.clone(), oo(z.with_ordinal0(v), vdtz));
                            call!("DateTime.with_hour", a.clone(), oo(z.with_hour(v), vdtz)); call!("DateTime.with_minute", a.clone(), oo(z.with_minute(v), vdtz));
                            call!("DateTime.with_second", a.clone(), oo(z.with_second(v), vdtz)); call!("DateTime.with_nanosecond", a.clone(), oo(z.with_nanosecond(v.wrapping_mul(33_333_333)), vdtz));
                        }
                        for &y in &[i32::MIN, -262_144, -262_143, 0, 262_142, 262_143, i32::MAX] { call!("DateTime.with_year", a.clone(), oo(z.with_year(y), vdtz)); }
                        for &t2 in &times { call!("DateTime.with_time", a.clone(), lr(z.with_time(t2), vdtz)); }
                        call!("DateTime.timestamp_nanos_opt", a.clone(), oo(z.timestamp_nanos_opt(), |_| vother()));
                        call!("DateTime.to_rfc3339", a.clone(), json!({"out": "ok", "v": {"k": "text", "len": z.to_rfc3339().len()}}));
                        for sf in [SecondsFormat::Secs, SecondsFormat::Millis, SecondsFormat::Micros, SecondsFormat::Nanos, SecondsFormat::AutoSi] { for uz in [false, true] {
                            call!("DateTime.to_rfc3339_opts", a.clone(), json!({"out": "ok", "v": {"k": "text", "len": z.to_rfc3339_opts(sf, uz).len()}}));
                        }}
                        call!("DateTime.to_rfc2822", a.clone(), json!({"out": "ok", "v": {"k": "text", "len": z.to_rfc2822().len()}}));
                        call!("DateTime.naive_local", a.clone(), json!({"out": "ok", "v": vndt(z.naive_local())}));
                        call!("DateTime.date_naive", a.clone(), json!({"out": "ok", "v": vdate(z.date_naive())}));
                        call!("DateTime.years_since", a.clone(), oo(z.years_since(fo.from_utc_datetime(&dates[5].and_time(t))), |_| vother()));
                        call!("serde.serialize", a.clone(), rr(serde_json::to_string(&z), |_| vother()));
                        call!("DateTime.signed_duration_since", a.clone(), json!({"out": "ok", "v": vdur(z.signed_duration_since(Utc.from_utc_datetime(&NaiveDateTime::MIN)))}));
                    }
                }
                for &v in &U32X {
                    call!("NaiveDateTime.with_month", json!({"dt": ndt(x), "a1": big(v as i128)}), oo(x.with_month(v), vndt));
                    call!("NaiveDateTime.with_day", json!({"dt": ndt(x), "a1": big(v as i128)}), oo(x.with_day(v), vndt));
                    call!("NaiveDateTime.with_ordinal", json!({"dt": ndt(x), "a1": big(v as i128)}), oo(x.with_ordinal(v), vndt));
                    call!("NaiveDateTime.with_hour", json!({"dt": ndt(x), "a1": big(v as i128)}), oo(x.with_hour(v), vndt));
                    call!("NaiveDateTime.with_minute", json!({"dt": ndt(x), "a1": big(v as i128)}), oo(x.with_minute(v), vndt));
                    call!("NaiveDateTime.with_second", json!({"dt": ndt(x), "a1": big(v as i128)}), oo(x.with_second(v), vndt));
                    call!("NaiveDateTime.with_nanosecond", json!({"dt": ndt(x), "a1": big(v as i128)}), oo(x.with_nanosecond(v), vndt));
                    call!("NaiveTime.with_hour", json!({"t": tod(t), "a1": big(v as i128)}), oo(t.with_hour(v), vtime));
                    call!("NaiveTime.with_minute", json!({"t": tod(t), "a1": big(v as i128)}), oo(t.with_minute(v), vtime));
                    call!("NaiveTime.with_second", json!({"t": tod(t), "a1": big(v as i128)}), oo(t.with_second(v), vtime));
                    call!("NaiveTime.with_nanosecond", json!({"t": tod(t), "a1": big(v as i128)}), oo(t.with_nanosecond(v), vtime));
                }
                for &k in &[0u32, 1, u32::MAX] {
                    call!("NaiveDateTime.checked_add_months", json!({"dt": ndt(x)}), oo(x.checked_add_months(Months::new(k)), vndt));
                    call!("NaiveDateTime.checked_sub_months", json!({"dt": ndt(x)}), oo(x.checked_sub_months(Months::new(k)), vndt));
                    call!("NaiveDateTime.checked_add_days", json!({"dt": ndt(x)}), oo(x.checked_add_days(Days::new(k as u64)), vndt));
                    call!("NaiveDateTime.checked_sub_days", json!({"dt": ndt(x)}), oo(x.checked_sub_days(Days::new(k as u64)), vndt));
                }
                call!("NaiveDateTime.with_year", json!({"dt": ndt(x)}), { let yy = I32X[(round as i64 + dn(d)).rem_euclid(13) as usize]; oo(x.with_year(yy), vndt) });
                call!("NaiveDateTime.signed_duration_since", json!({"dt": ndt(x)}), json!({"out": "ok", "v": vdur(x.signed_duration_since(dates[(round + 3) % dates.len()].and_time(times[1])))}));
                call!("NaiveTime.signed_duration_since", json!({"t": tod(t)}), json!({"out": "ok", "v": vdur(t.signed_duration_since(times[(round + 1) % times.len()]))}));
            }
        }
        for &a in &durs { for &b in &durs {
            call!("TimeDelta.checked_add", json!({"a": dur(a), "b": dur(b)}), oo(a.checked_add(&b), vdur));
            call!("TimeDelta.checked_sub", json!({"a": dur(a), "b": dur(b)}), oo(a.checked_sub(&b), vdur));
            call!("op.TimeDelta.add", json!({"a": dur(a), "b": dur(b)}), json!({"out": "ok", "v": vdur(a + b)}));
            call!("op.TimeDelta.sub", json!({"a": dur(a), "b": dur(b)}), json!({"out": "ok", "v": vdur(a - b)}));
        }
            for &k in &[i32::MIN, -1, 0, 1, 2, 1000, i32::MAX] {
                call!("TimeDelta.checked_mul", json!({"a": dur(a), "k": k}), oo(a.checked_mul(k), vdur));
                call!("TimeDelta.checked_div", json!({"a": dur(a), "k": k}), oo(a.checked_div(k), vdur));
                call!("op.TimeDelta.mul", json!({"a": dur(a), "k": k}), json!({"out": "ok", "v": vdur(a * k)}));
                call!("op.TimeDelta.div", json!({"a": dur(a), "k": k}), json!({"out": "ok", "v": vdur(a / k)}));
            }
            call!("TimeDelta.to_std", json!({"a": dur(a)}), rr(a.to_std(), |_| vother()));
            call!("TimeDelta.num_microseconds", json!({"a": dur(a)}), oo(a.num_microseconds(), |_| vother()));
            call!("TimeDelta.num_nanoseconds", json!({"a": dur(a)}), oo(a.num_nanoseconds(), |_| vother()));
        }
        for (s, n) in [(0u64, 0u32), (u64::MAX, 999_999_999), (i64::MAX as u64 / 1000, 807_000_000), (i64::MAX as u64 / 1000, 807_000_001), (1 << 63, 0)] {
            call!("TimeDelta.from_std", json!({"s": big(s as i128), "n": big(n as i128)}), rr(TimeDelta::from_std(std::time::Duration::new(s, n)), vdur));
        }
        // ---- text: structured LONG inputs (a run of one character class after a valid prefix): fixed-size buffers, counters narrower than
        //      usize and recursion depth are only ever exceeded by these
        if round == 0 {
            for len in [1usize, 2, 3, 4, 5, 8, 9, 10, 12, 40, 300] { for ch in ["G", "z", "é"] {
                let s = format!("Tue, 20 Jan 2015 17:35:20 {}", ch.repeat(len));
                call!("DateTime.parse_from_rfc2822", json!({"s": cps(&s)}), rr(DateTime::parse_from_rfc2822(&s), vdtz));
            } }
            for d in [1usize, 2, 10, 500] {
                let s = format!("Tue, 20 Jan 2015 17:35:20 +0000 {}x{}", "(".repeat(d), ")".repeat(d));
                call!("DateTime.parse_from_rfc2822", json!({"s": cps(&s)}), rr(DateTime::parse_from_rfc2822(&s), vdtz));
            }
            for n in [9usize, 10, 100, 255, 256, 257, 1000] {
                let s = format!("2015-01-20T17:35:20.{}+00:00", "7".repeat(n));
                call!("DateTime.parse_from_rfc3339", json!({"s": cps(&s)}), rr(DateTime::parse_from_rfc3339(&s), vdtz));
                call!("DateTimeFixed.from_str", json!({"s": cps(&s)}), rr(DateTime::<FixedOffset>::from_str(&s), vdtz));
                let t = format!("17:35:20.{}", "7".repeat(n));
                call!("NaiveTime.from_str", json!({"s": cps(&t)}), rr(NaiveTime::from_str(&t), vtime));
            }
            // the same at sizes that can exhaust the stack or wrap a 16-bit counter: in a child process, whose death is the outcome "panic"
            for (probe, n) in [("rfc2822-nested-comment", 200_000usize), ("rfc2822-open-comment", 200_000), ("rfc3339-long-fraction", 65_545), ("rfc3339-long-fraction", 200_000), ("strftime-many-items", 100_000)] {
                tw.emit(ev("DateTime.parse_from_rfc2822", json!({"probe": probe, "n": n, "s": cps("(generated in the child process)")}), || {
                    let out = std::process::Command::new(std::env::current_exe().expect("own path")).args(["probe", probe, &n.to_string()]).output().expect("child process");
                    let text = String::from_utf8_lossy(&out.stdout).to_string();
                    if !out.status.success() || !text.contains("PROBE") { panic!("the call ended the process ({:?}): stack exhausted or aborted", out.status); }
                    // (the value is not judged here; only that the call returned)
                    json!({"out": "err"})
                }));
            }
        }
        // ---- text: parsers on seeds, mutations and arbitrary Unicode ------------------------------
        let n_text = ctx.t(2_500, 20_000);
        for i in 0..n_text {
            let pool: &[&str] = match i % 8 { 0 => DATE_SEEDS, 1 => TIME_SEEDS, 2 => NDT_SEEDS, 3 | 4 => DT_SEEDS, 5 => RFC2822_SEEDS, 6 => OFFSET_SEEDS, _ => if i % 16 == 7 { WEEKDAY_SEEDS } else { MONTH_SEEDS } };
            let s: String = match rng.below(10) { 0 => rng.pick(pool).to_string(), 1 => random_text(&mut rng, 40), _ => { let b = rng.pick(pool).to_string(); mutate(&mut rng, &b) } };
            let a = json!({"s": cps(&s)});
            let s = s.as_str();
            call!("NaiveDate.from_str", a.clone(), rr(NaiveDate::from_str(s), vdate));
            call!("NaiveTime.from_str", a.clone(), rr(NaiveTime::from_str(s), vtime));
            call!("NaiveDateTime.from_str", a.clone(), rr(NaiveDateTime::from_str(s), vndt));
            call!("DateTimeFixed.from_str", a.clone(), rr(DateTime::<FixedOffset>::from_str(s), vdtz));
            call!("DateTimeUtc.from_str", a.clone(), rr(DateTime::<Utc>::from_str(s), vdtz));
            call!("DateTime.parse_from_rfc3339", a.clone(), rr(DateTime::parse_from_rfc3339(s), vdtz));
            call!("DateTime.parse_from_rfc2822", a.clone(), rr(DateTime::parse_from_rfc2822(s), vdtz));
            call!("FixedOffset.from_str", a.clone(), rr(FixedOffset::from_str(s), voff));
            call!("Weekday.from_str", a.clone(), rr(Weekday::from_str(s), |_| vother()));
            call!("Month.from_str", a.clone(), rr(Month::from_str(s), |_| vother()));
            let q = format!("\"{}\"", s.replace('\\', "\\\\").replace('"', "\\\""));
            call!("serde.NaiveDate", a.clone(), rr(serde_json::from_str::<NaiveDate>(&q), vdate));
            call!("serde.NaiveTime", a.clone(), rr(serde_json::from_str::<NaiveTime>(&q), vtime));
            call!("serde.NaiveDateTime", a.clone(), rr(serde_json::from_str::<NaiveDateTime>(&q), vndt));
            call!("serde.DateTimeUtc", a.clone(), rr(serde_json::from_str::<DateTime<Utc>>(&q), vdtz));
            call!("serde.DateTimeFixed", a.clone(), rr(serde_json::from_str::<DateTime<FixedOffset>>(&q), vdtz));
            call!("serde.Weekday", a.clone(), rr(serde_json::from_str::<Weekday>(&q), |_| vother()));
            call!("serde.Month", a.clone(), rr(serde_json::from_str::<Month>(&q), |_| vother()));
        }
        // ---- format strings: item iteration terminates, parsing with arbitrary formats never panics --
        let n_fmt = ctx.t(2_500, 20_000);
        let z0 = offs[3].from_utc_datetime(&dates[7].and_time(times[2]));
        for i in 0..n_fmt {
            let f: String = match rng.below(10) { 0 => rng.pick(FMT_SEEDS).to_string(), 1 => random_text(&mut rng, 24), 2 => { let k = rng.below(40); (0..k).map(|_| *rng.pick(&['%', 'c', 'Y', '-', '.', ':', '3', 'f', 'z', '#', 'é', ' ', 'D'])).collect() }
                                            _ => { let b = rng.pick(FMT_SEEDS).to_string(); mutate(&mut rng, &b) } };
            let a = json!({"f": cps(&f)});
            let bound = 7 * f.len() + 17;
            let f = f.as_str();
            if f.chars().count() <= 48 {
                tc.emit(ev("items.count", a.clone(), || { let ns = StrftimeItems::new(f).take(bound + 1).count(); let nl = StrftimeItems::new_lenient(f).take(bound + 1).count();
                    json!({"strict": ns as i64, "lenient": nl as i64, "strict_err": StrftimeItems::new(f).parse().is_err(), "capped": ns > bound || nl > bound}) }));
            }
            call!("StrftimeItems.count", a.clone(), { let n = StrftimeItems::new(f).take(bound + 1).count(); json!({"out": "ok", "v": {"k": "count", "n": n as i64, "capped": n > bound}}) });
            call!("StrftimeItems.count_lenient", a.clone(), { let n = StrftimeItems::new_lenient(f).take(bound + 1).count(); json!({"out": "ok", "v": {"k": "count", "n": n as i64, "capped": n > bound}}) });
            call!("StrftimeItems.parse", a.clone(), rr(StrftimeItems::new(f).parse(), |v| json!({"k": "count", "n": v.len() as i64, "capped": v.len() > bound})));
            call!("StrftimeItems.parse_to_owned", a.clone(), rr(StrftimeItems::new(f).parse_to_owned(), |v| json!({"k": "count", "n": v.len() as i64, "capped": v.len() > bound})));
            // formatting with an arbitrary format string: an error by value through write!, the documented panic through to_string
            call!("format.write_to", a.clone(), { use std::fmt::Write; let mut o = String::new(); rr(write!(o, "{}", z0.format(f)), |_| vother()) });
            if i % 4 == 0 { call!("format.to_string", a.clone(), json!({"out": "ok", "v": {"k": "text", "len": z0.format(f).to_string().len()}})); }
            // parsing arbitrary / related text with it
            let text: String = match rng.below(4) { 0 => random_text(&mut rng, 30), 1 => { let mut o = String::new(); use std::fmt::Write; let _ = write!(o, "{}", z0.format(f)); o }
                                                   _ => { let mut o = String::new(); use std::fmt::Write; let _ = write!(o, "{}", z0.format(f)); mutate(&mut rng, &o) } };
            let a2 = json!({"f": cps(f), "s": cps(&text)});
            let t = text.as_str();
            call!("NaiveDate.parse_from_str", a2.clone(), rr(NaiveDate::parse_from_str(t, f), vdate));
            call!("NaiveTime.parse_from_str", a2.clone(), rr(NaiveTime::parse_from_str(t, f), vtime));
            call!("NaiveDateTime.parse_from_str", a2.clone(), rr(NaiveDateTime::parse_from_str(t, f), vndt));
            call!("DateTime.parse_from_str", a2.clone(), rr(DateTime::parse_from_str(t, f), vdtz));
            call!("NaiveDate.parse_and_remainder", a2.clone(), rr(NaiveDate::parse_and_remainder(t, f), |x| vdate(x.0)));
            call!("NaiveTime.parse_and_remainder", a2.clone(), rr(NaiveTime::parse_and_remainder(t, f), |x| vtime(x.0)));
            call!("NaiveDateTime.parse_and_remainder", a2.clone(), rr(NaiveDateTime::parse_and_remainder(t, f), |x| vndt(x.0)));
            call!("DateTime.parse_and_remainder", a2.clone(), rr(DateTime::parse_and_remainder(t, f), |x| vdtz(x.0)));
            call!("format.parse", a2.clone(), { let mut p = Parsed::new(); rr(chrono::format::parse(&mut p, t, StrftimeItems::new(f)), |_| vother()) });
            call!("format.parse_and_remainder", a2.clone(), { let mut p = Parsed::new(); rr(chrono::format::parse_and_remainder(&mut p, t, StrftimeItems::new(f)), |_| vother()) });
        }
        // ---- Parsed: setters with extremes, raw public fields out of range, every resolver --------
        let n_parsed = ctx.t(1_500, 15_000);
        for _ in 0..n_parsed {
            let mut p = Parsed::new();
            let nset = rng.below(9);
            for _ in 0..nset {
                let v: i64 = match rng.below(5) { 0 => *rng.pick(&I64X), 1 => rng.range(-3, 70), 2 => rng.range(1900, 2100), 3 => rng.next() as i64, _ => rng.range(0, 400) };
                let which = rng.below(22);
                let r = crate::guard(|| match which { 0 => p.set_year(v), 1 => p.set_year_div_100(v), 2 => p.set_year_mod_100(v), 3 => p.set_isoyear(v), 4 => p.set_isoyear_div_100(v), 5 => p.set_isoyear_mod_100(v),
                    6 => p.set_quarter(v), 7 => p.set_month(v), 8 => p.set_week_from_sun(v), 9 => p.set_week_from_mon(v), 10 => p.set_isoweek(v), 11 => p.set_weekday(wd_of(v.rem_euclid(7))), 12 => p.set_ordinal(v), 13 => p.set_day(v),
                    14 => p.set_ampm(v % 2 == 0), 15 => p.set_hour12(v), 16 => p.set_hour(v), 17 => p.set_minute(v), 18 => p.set_second(v), 19 => p.set_nanosecond(v), 20 => p.set_timestamp(v), _ => p.set_offset(v) });
                tw.emit(match r { Ok(x) => json!({"op": "Parsed.set", "which": which, "val": big(v as i128), "out": if x.is_ok() { "ok" } else { "err" }}), Err(m) => json!({"op": "Parsed.set", "which": which, "val": big(v as i128), "panic": m.chars().filter(|c| c.is_ascii()).collect::<String>()}) });
            }
            let offarg = *rng.pick(&[0i32, 1, -1, 86_399, -86_399, i32::MIN, i32::MAX, 86_400]);
            call!("Parsed.to_naive_date", json!({}), rr(p.to_naive_date(), vdate));
            call!("Parsed.to_naive_time", json!({}), rr(p.to_naive_time(), vtime));
            call!("Parsed.to_naive_datetime_with_offset", json!({"off": offarg}), rr(p.to_naive_datetime_with_offset(offarg), vndt));
            call!("Parsed.to_fixed_offset", json!({}), rr(p.to_fixed_offset(), voff));
            call!("Parsed.to_datetime", json!({}), rr(p.to_datetime(), vdtz));
            call!("Parsed.to_datetime_with_timezone", json!({}), rr(p.to_datetime_with_timezone(&Utc), vdtz));
            call!("Parsed.to_datetime_with_timezone", json!({}), rr(p.to_datetime_with_timezone(&offs[5]), vdtz));
        }
        // a wall clock at a range end with an offset that pushes the instant out of range: through the parsers and through Parsed
        for (txt, fmt) in [("+262142-12-31 23:59:59 -01:00", "%Y-%m-%d %H:%M:%S %:z"), ("-262143-01-01 00:00:00 +00:30", "%Y-%m-%d %H:%M:%S %:z"), ("+262142-12-31T23:59:59-00:01", "%Y-%m-%dT%H:%M:%S%:z"),
                           ("-262143-01-01 00:00:00 +2359", "%Y-%m-%d %H:%M:%S %z"), ("+262142-12-31 23:59:60 -01:00", "%Y-%m-%d %H:%M:%S %:z"), ("+262143-01-01 00:00:00 +01:00", "%Y-%m-%d %H:%M:%S %:z")] {
            let a2 = json!({"f": cps(fmt), "s": cps(txt)});
            call!("DateTime.parse_from_str", a2.clone(), rr(DateTime::parse_from_str(txt, fmt), vdtz));
            call!("DateTime.parse_and_remainder", a2.clone(), rr(DateTime::parse_and_remainder(txt, fmt), |x| vdtz(x.0)));
            call!("format.parse", a2.clone(), { let mut p = Parsed::new(); let r = chrono::format::parse(&mut p, txt, StrftimeItems::new(fmt)); let _ = r; rr(p.to_datetime(), vdtz) });
        }
        for (y, mo, d, off) in [(262_142i64, 12i64, 31i64, -3600i64), (-262_143, 1, 1, 1800), (262_142, 12, 31, -1), (-262_143, 1, 1, 86_399), (262_142, 12, 31, -86_399)] {
            let mut p = Parsed::new();
            let _ = p.set_year(y); let _ = p.set_month(mo); let _ = p.set_day(d); let _ = p.set_hour(if off < 0 { 23 } else { 0 }); let _ = p.set_minute(if off < 0 { 59 } else { 0 }); let _ = p.set_second(if off < 0 { 59 } else { 0 }); let _ = p.set_offset(off);
            call!("Parsed.to_datetime", json!({"y": y, "off": off}), rr(p.to_datetime(), vdtz));
            call!("Parsed.to_datetime_with_timezone", json!({"y": y, "off": off}), rr(p.to_datetime_with_timezone(&FixedOffset::east_opt(off as i32).unwrap()), vdtz));
            call!("Parsed.to_naive_datetime_with_offset", json!({"y": y, "off": off}), rr(p.to_naive_datetime_with_offset(off as i32), vndt));
        }
        // the Parsed witness of DESIGN section 10 #4 and friends
        for ts in [-8_334_601_228_800i64, 8_210_266_876_799, 0, 59] { for sec in [0i64, 59, 60] {
            let mut p = Parsed::new(); let _ = p.set_timestamp(ts); let _ = p.set_second(sec);
            call!("Parsed.to_naive_datetime_with_offset", json!({"ts": big(ts as i128), "sec": sec}), rr(p.to_naive_datetime_with_offset(0), vndt));
            call!("Parsed.to_datetime_with_timezone", json!({"ts": big(ts as i128), "sec": sec}), rr(p.to_datetime_with_timezone(&Utc), vdtz));
        }}
        // integers through the serde timestamp helpers
        for &c in &I64X {
            let js = c.to_string();
            call!("serde.ts", json!({"c": big(c as i128)}), rr(serde_json::from_str::<TsS>(&js), |x| vdtz(x.0)));
            call!("serde.ts", json!({"c": big(c as i128)}), rr(serde_json::from_str::<TsMs>(&js), |x| vdtz(x.0)));
            call!("serde.ts", json!({"c": big(c as i128)}), rr(serde_json::from_str::<TsUs>(&js), |x| vdtz(x.0)));
            call!("serde.ts", json!({"c": big(c as i128)}), rr(serde_json::from_str::<TsNs>(&js), |x| vdtz(x.0)));
            call!("serde.TimeDelta", json!({"c": big(c as i128)}), rr(serde_json::from_str::<TimeDelta>(&format!("[{},{}]", c, c % 2_000_000_000)), vdur));
        }
        for &c in &[u64::MAX, 1 << 63, (1u64 << 63) - 1] {
            call!("serde.ts", json!({"c": big(c as i128)}), rr(serde_json::from_str::<TsS>(&c.to_string()), |x| vdtz(x.0)));
            call!("serde.ts", json!({"c": big(c as i128)}), rr(serde_json::from_str::<TsNs>(&c.to_string()), |x| vdtz(x.0)));
        }
    }
    let _: Option<Item> = None;
    let _ = Timelike::hour(&times[0]);
    let _ = Datelike::year(&dates[0]);
    tw.finish();
    tc.finish();
    json!({"events": tw.total + tc.total, "item_count_events": tc.total, "rounds": rounds, "entry_points_listed": 200})
}

#[derive(serde::Deserialize)] struct TsS(#[serde(with = "chrono::serde::ts_seconds")] DateTime<Utc>);
#[derive(serde::Deserialize)] struct TsMs(#[serde(with = "chrono::serde::ts_milliseconds")] DateTime<Utc>);
#[derive(serde::Deserialize)] struct TsUs(#[serde(with = "chrono::serde::ts_microseconds")] DateTime<Utc>);
#[derive(serde::Deserialize)] struct TsNs(#[serde(with = "chrono::serde::ts_nanoseconds")] DateTime<Utc>);
