//! C16: the TZif and TZ-rule readers accept well-formed data and survive everything else.
//!
//! Feeds byte strings (structured mutations of conforming files, truncations, header-count extremes, random
//! bytes, every system zoneinfo file) to `Zone::from_tzif` and TZ strings (grammar-generated and mutated) to
//! `Zone::from_tz_rule` / `Zone::from_env_value`, and records Ok(structure) / Err / panic plus, for every
//! accepted zone, the outcome class of both lookups at the extremes. The verdict on each input (must accept
//! with exactly this structure / must reject / unspecified) is computed by the specification from the bytes.
use super::c05::{gen_rule, naive, system_files, Day, Model, Rule, Ty, MAX_UTC, MIN_UTC, ZONEINFO};
use super::Ctx;
use crate::big::{big, bytes as jbytes};
use crate::out::Tw;
use crate::rng::Rng;
use crate::{ev, guard};
use chrono::offset::__verif_tz::Zone;
use serde_json::{json, Value};

#[path = "../tzalloc.rs"]
mod tzalloc;

// ------------------------------------------------------------------------------------------------
// a TZif writer for the base files (its output is itself judged: the specification demands WELL_FORMED)
fn hms(v: i64) -> String {
    let a = v.abs();
    let (h, m, s) = (a / 3600, (a / 60) % 60, a % 60);
    let sign = if v < 0 { "-" } else { "" };
    if s != 0 { format!("{}{}:{:02}:{:02}", sign, h, m, s) } else if m != 0 { format!("{}{}:{:02}", sign, h, m) } else { format!("{}{}", sign, h) }
}
fn name_text(a: &[u8]) -> String {
    let s = String::from_utf8_lossy(a).to_string();
    if a.iter().all(|c| c.is_ascii_alphabetic()) { s } else { format!("<{}>", s) }
}
fn day_text(d: &Day) -> String { match d { Day::M(m, w, d) => format!("M{}.{}.{}", m, w, d), Day::J(n) => format!("J{}", n), Day::Z(n) => format!("{}", n) } }
pub fn show_rule(r: &Rule) -> String {
    match r {
        Rule::None => String::new(),
        Rule::Fixed(t) => format!("{}{}", name_text(&t.abbr), hms(-(t.off as i64))),
        Rule::Alt { std, dst, start, st, end, et } => {
            let t = |x: i32| if x == 7200 { String::new() } else { format!("/{}", hms(x as i64)) };
            format!("{}{}{}{},{}{},{}{}", name_text(&std.abbr), hms(-(std.off as i64)), name_text(&dst.abbr),
                    if dst.off == std.off + 3600 { String::new() } else { hms(-(dst.off as i64)) }, day_text(start), t(*st), day_text(end), t(*et))
        }
    }
}
#[derive(Clone, Debug, Default)]
pub struct Layout {
    /// 0-based offsets into the file: header of the 32-bit block, header of the authoritative block, its parts
    pub hdr1: usize, pub hdr: usize, pub ts: usize, pub times: usize, pub tidx: usize, pub info: usize, pub chars: usize, pub data_end: usize,
    pub ntime: usize, pub ntype: usize, pub nchar: usize,
    pub boundaries: Vec<usize>,
}
fn block(out: &mut Vec<u8>, ver: u8, trans: &[(i64, usize)], types: &[Ty], ts: usize, lay: &mut Layout, bounds: &mut Vec<usize>) {
    // abbreviation table with equal names shared
    let mut table: Vec<u8> = Vec::new();
    let mut idx = Vec::new();
    for t in types {
        let mut entry = t.abbr.clone(); entry.push(0);
        let pos = table.windows(entry.len()).position(|w| w == &entry[..]);
        idx.push(match pos { Some(p) => p, None => { let p = table.len(); table.extend(&entry); p } });
    }
    let start = out.len();
    out.extend(b"TZif"); out.push(ver); out.extend([0u8; 15]);
    for c in [0u32, 0, 0, trans.len() as u32, types.len() as u32, table.len() as u32] { out.extend(c.to_be_bytes()); }
    lay.hdr = start; lay.ts = ts; lay.ntime = trans.len(); lay.ntype = types.len(); lay.nchar = table.len();
    bounds.extend([start, start + 4, start + 5, start + 20, start + 44]);
    lay.times = out.len();
    for (t, _) in trans { if ts == 4 { out.extend((*t as i32).to_be_bytes()); } else { out.extend(t.to_be_bytes()); } }
    lay.tidx = out.len(); bounds.push(out.len());
    for (_, ty) in trans { out.push((*ty - 1) as u8); }
    lay.info = out.len(); bounds.push(out.len());
    for (k, t) in types.iter().enumerate() { out.extend(t.off.to_be_bytes()); out.push(t.dst as u8); out.push(idx[k] as u8); }
    lay.chars = out.len(); bounds.push(out.len());
    out.extend(&table);
    lay.data_end = out.len(); bounds.push(out.len());
}
/// `ver` 1, 2 or 3; a v2+ file gets a 32-bit block with the transitions that fit (`fat`) or the minimal one
pub fn write_tzif(m: &Model, ver: u8, fat: bool) -> (Vec<u8>, Layout) {
    let mut out = Vec::new();
    let mut lay = Layout::default();
    let mut bounds = Vec::new();
    let vb = if ver == 1 { 0 } else { b'0' + ver };
    if ver == 1 {
        block(&mut out, vb, &m.trans, &m.types, 4, &mut lay, &mut bounds);
        lay.hdr1 = 0;
    } else {
        let t32: Vec<(i64, usize)> = if fat { m.trans.iter().copied().filter(|(t, _)| *t >= i32::MIN as i64 && *t <= i32::MAX as i64).collect() } else { vec![] };
        let ty32: Vec<Ty> = if fat { m.types.clone() } else { vec![Ty { off: 0, dst: false, abbr: vec![] }] };
        let mut scratch = Layout::default();
        block(&mut out, vb, &t32, &ty32, 4, &mut scratch, &mut bounds);
        block(&mut out, vb, &m.trans, &m.types, 8, &mut lay, &mut bounds);
        lay.hdr1 = 0;
        out.push(b'\n'); out.extend(show_rule(&m.rule).as_bytes()); out.push(b'\n');
        bounds.push(lay.data_end + 1);
    }
    bounds.push(out.len());
    bounds.sort(); bounds.dedup();
    lay.boundaries = bounds;
    (out, lay)
}

// ------------------------------------------------------------------------------------------------
fn ty(off: i32, dst: bool, abbr: &str) -> Ty { Ty { off, dst, abbr: abbr.as_bytes().to_vec() } }
fn base_models() -> Vec<(Model, Vec<u8>)> {
    let cet_rule = Rule::Alt { std: ty(3600, false, "CET"), dst: ty(7200, true, "CEST"), start: Day::M(3, 5, 0), st: 7200, end: Day::M(10, 5, 0), et: 10800 };
    let nuuk = Rule::Alt { std: ty(-10800, false, "-03"), dst: ty(-7200, true, "-02"), start: Day::M(3, 5, 0), st: -7200, end: Day::M(10, 5, 0), et: -3600 };
    vec![
        (Model { trans: vec![], types: vec![ty(0, false, "UTC")], leaps: 0, rule: Rule::Fixed(ty(0, false, "UTC")) }, vec![2, 3]),
        (Model { trans: vec![], types: vec![ty(19800, false, "+0530")], leaps: 0, rule: Rule::None }, vec![1, 2]),
        (Model { trans: vec![(-2_422_054_408, 2), (954_032_400, 3), (972_781_200, 2)], types: vec![ty(3208, false, "LMT"), ty(3600, false, "CET"), ty(7200, true, "CEST")], leaps: 0, rule: cet_rule.clone() }, vec![2, 3]),
        (Model { trans: vec![(-1_000_000_000, 2), (0, 3), (1_000_000_000, 2), (2_000_000_000, 1)], types: vec![ty(-17762, false, "LMT"), ty(-18000, false, "EST"), ty(-14400, true, "EDT")], leaps: 0, rule: Rule::None }, vec![1, 2, 3]),
        (Model { trans: vec![(-(1i64 << 59), 2), (-4_260_211_372, 3), (1_679_792_400, 4)], types: vec![ty(0, false, "-00"), ty(-12416, false, "LMT"), ty(-10800, false, "-03"), ty(-7200, true, "-02")], leaps: 0, rule: nuuk }, vec![3]),
        // exactly one and exactly two transitions (every per-element / pairwise validation loop has its boundary case), with and without a footer
        (Model { trans: vec![(-1_000_000_000, 2)], types: vec![ty(-17762, false, "LMT"), ty(-18000, false, "EST")], leaps: 0, rule: Rule::None }, vec![1, 2]),
        (Model { trans: vec![(86_400, 2)], types: vec![ty(3208, false, "LMT"), ty(3600, false, "CET")], leaps: 0, rule: Rule::Fixed(ty(3600, false, "CET")) }, vec![2, 3]),
        (Model { trans: vec![(-1_000_000_000, 2), (1_000_000_000, 1)], types: vec![ty(-17762, false, "LMT"), ty(-18000, false, "EST")], leaps: 0, rule: Rule::None }, vec![1, 2]),
        // abbreviation-only and DST-flag-only transitions, a fixed footer
        (Model { trans: vec![(-1_691_964_000, 2), (-57_722_400, 3), (57_722_400, 4), (2_000_000_000, 2)], types: vec![ty(-75, false, "LMT"), ty(0, false, "GMT"), ty(3600, true, "BST"), ty(3600, false, "BST")], leaps: 0, rule: Rule::Fixed(ty(0, false, "GMT")) }, vec![2]),
    ]
}
/// Synthetic zone files for C05's lookups: the base files plus shapes the tz database does not contain (a DST type listed FIRST, so the
/// type in force before the first transition is a DST type; a single type with transitions; abbreviation-only changes)
pub fn lookup_models() -> Vec<(String, Vec<u8>)> {
    let mut ms = base_models();
    ms.push((Model { trans: vec![(-1_000_000_000, 2), (86_400 * 200, 1), (86_400 * 400, 2), (86_400 * 600, 3)],
                     types: vec![ty(7200, true, "CEST"), ty(3600, false, "CET"), ty(10_800, true, "CEMT")], leaps: 0, rule: Rule::None }, vec![1, 2]));
    ms.push((Model { trans: vec![(0, 2), (500_000_000, 1), (1_000_000_000, 2)], types: vec![ty(-10_800, true, "ADT"), ty(-14_400, false, "AST")], leaps: 0, rule: Rule::Fixed(ty(-14_400, false, "AST")) }, vec![2]));
    ms.push((Model { trans: vec![(500_000_000, 2)], types: vec![ty(34_200, true, "XDT"), ty(30_600, true, "YDT")], leaps: 0, rule: Rule::None }, vec![2]));
    let mut out = Vec::new();
    for (i, (m, vers)) in ms.iter().enumerate() { for &v in vers { out.push((format!("synthetic-{}-v{}", i, v), write_tzif(m, v, false).0)); } }
    out
}
fn put32(b: &mut [u8], at: usize, v: u32) { b[at..at + 4].copy_from_slice(&v.to_be_bytes()); }
fn get32(b: &[u8], at: usize) -> u32 { u32::from_be_bytes([b[at], b[at + 1], b[at + 2], b[at + 3]]) }

/// Structured mutations of one conforming file. Every item is (kind, bytes).
fn mutations(b: &[u8], lay: &Layout, ver: u8, rng: &mut Rng, random_flips: usize) -> Vec<(String, Vec<u8>)> {
    let mut out: Vec<(String, Vec<u8>)> = Vec::new();
    let mut add = |k: String, v: Vec<u8>| out.push((k, v));
    let names = ["isutcnt", "isstdcnt", "leapcnt", "timecnt", "typecnt", "charcnt"];
    let headers: Vec<(usize, &str)> = if lay.hdr == lay.hdr1 { vec![(lay.hdr, "h")] } else { vec![(lay.hdr1, "h1"), (lay.hdr, "h2")] };
    // each header count set to 0, 1, true-1, true+1, 2^31, 2^32-1
    for (h, hn) in &headers {
        for (f, fname) in names.iter().enumerate() {
            let at = h + 20 + 4 * f;
            let cur = get32(b, at);
            for v in [0u32, 1, cur.wrapping_sub(1), cur.wrapping_add(1), 1 << 31, u32::MAX, 2, 255, 256, 65_536] {
                if v == cur { continue; }
                let mut m = b.to_vec(); put32(&mut m, at, v);
                add(format!("count:{}:{}:{}", hn, fname, v), m);
            }
        }
        // magic and version bytes
        for i in 0..4 { for v in [0u8, b'X', b.get(h + i).map(|c| c ^ 0x20).unwrap_or(0)] { let mut m = b.to_vec(); m[h + i] = v; add(format!("magic:{}:{}", hn, i), m); } }
        for v in [0u8, 1, b'1', b'2', b'3', b'4', b'9', 0xff, b' '] { if v != b[h + 4] { let mut m = b.to_vec(); m[h + 4] = v; add(format!("version:{}:{}", hn, v), m); } }
        for i in [5usize, 12, 19] { let mut m = b.to_vec(); m[h + i] = 7; add(format!("reserved:{}:{}", hn, i), m); }
    }
    // truncation at every block boundary +-1, and a few random places
    let mut cuts: Vec<usize> = lay.boundaries.iter().flat_map(|&p| [p.saturating_sub(1), p, p + 1]).filter(|&p| p < b.len()).collect();
    for _ in 0..6 { cuts.push(rng.below(b.len())); }
    cuts.sort(); cuts.dedup();
    for c in cuts { add(format!("truncate:{}", c), b[..c].to_vec()); }
    // type indices at / over the bound
    if lay.ntime > 0 {
        for k in [0, lay.ntime - 1] { for v in [lay.ntype as u8 - 1, lay.ntype as u8, lay.ntype as u8 + 1, 255] { let mut m = b.to_vec(); m[lay.tidx + k] = v; add(format!("typeidx:{}:{}", k, v), m); } }
    }
    // abbreviation indices at / over the bound, a table without its final NUL
    for k in [0, lay.ntype - 1] { for v in [lay.nchar as u8 - 1, lay.nchar as u8, lay.nchar as u8 + 1, 255, 1] { let mut m = b.to_vec(); m[lay.info + 6 * k + 5] = v; add(format!("abbridx:{}:{}", k, v), m); } }
    { let mut m = b.to_vec(); m[lay.chars + lay.nchar - 1] = b'A'; add("abbr:nonul".into(), m); }
    for (i, v) in [(0usize, b' '), (0, b'_'), (1, 0xc3), (0, b'1'), (1, 0u8)] { let mut m = b.to_vec(); m[lay.chars + i] = v; add(format!("abbr:char:{}:{}", i, v), m); }
    // transition times: duplicate, unsorted, 64-bit extremes
    let ts = lay.ts;
    if lay.ntime >= 2 {
        let (p, q) = (lay.times, lay.times + ts);
        let mut m = b.to_vec(); let first = m[p..p + ts].to_vec(); m[q..q + ts].copy_from_slice(&first); add("times:duplicate".into(), m);
        let mut m = b.to_vec(); let (x, y) = (b[p..p + ts].to_vec(), b[q..q + ts].to_vec()); m[p..p + ts].copy_from_slice(&y); m[q..q + ts].copy_from_slice(&x); add("times:swapped".into(), m);
        let l = lay.times + ts * (lay.ntime - 1);
        let mut m = b.to_vec(); let prev = m[l - ts..l].to_vec(); m[l..l + ts].copy_from_slice(&prev); add("times:duplicate-last".into(), m);
    }
    if lay.ntime >= 1 {
        let set = |pos: usize, v: i64| { let mut m = b.to_vec(); if ts == 8 { m[pos..pos + 8].copy_from_slice(&v.to_be_bytes()); } else { m[pos..pos + 4].copy_from_slice(&(v as i32).to_be_bytes()); } m };
        let last = lay.times + ts * (lay.ntime - 1);
        if ts == 8 {
            for v in [i64::MIN, i64::MIN + 1, -(1i64 << 59) - 1, -(1i64 << 59), -(1i64 << 62)] { add(format!("times:first:{}", v), set(lay.times, v)); }
            for v in [i64::MAX, i64::MAX - 1, i64::MAX - 10, 1i64 << 62, MAX_UTC, MAX_UTC + 1, 67_767_976_233_532_799, 67_767_976_233_532_800, 67_768_036_191_676_799, 67_768_036_191_676_800] { add(format!("times:last:{}", v), set(last, v)); }
        } else {
            add("times:first:min32".into(), set(lay.times, i32::MIN as i64)); add("times:last:max32".into(), set(last, i32::MAX as i64));
        }
    }
    // offsets at the extremes, DST indicator values
    for k in [0, lay.ntype - 1] {
        for v in [i32::MIN, i32::MIN + 1, i32::MAX, 93_599, 93_600, -89_999, -90_000, 86_400, -86_400] { let mut m = b.to_vec(); m[lay.info + 6 * k..lay.info + 6 * k + 4].copy_from_slice(&v.to_be_bytes()); add(format!("offset:{}:{}", k, v), m); }
        for v in [2u8, 255] { let mut m = b.to_vec(); m[lay.info + 6 * k + 4] = v; add(format!("isdst:{}:{}", k, v), m); }
    }
    // indicators, leap-second record: counts raised and the bytes inserted at the end of the authoritative block
    {
        let ins = |std: Option<&[u8]>, ut: Option<&[u8]>, leap: Option<&[u8]>| {
            let mut m = b[..lay.data_end].to_vec();
            if let Some(l) = leap { m.extend(l); put32(&mut m, lay.hdr + 28, 1); }
            if let Some(s) = std { m.extend(s); put32(&mut m, lay.hdr + 24, s.len() as u32); }
            if let Some(u) = ut { m.extend(u); put32(&mut m, lay.hdr + 20, u.len() as u32); }
            m.extend(&b[lay.data_end..]);
            m
        };
        let n = lay.ntype;
        add("indicators:std1".into(), ins(Some(&vec![1; n]), None, None));
        add("indicators:std1ut1".into(), ins(Some(&vec![1; n]), Some(&vec![1; n]), None));
        add("indicators:std0ut1".into(), ins(Some(&vec![0; n]), Some(&vec![1; n]), None));
        add("indicators:ut1".into(), ins(None, Some(&vec![1; n]), None));
        add("indicators:std2".into(), ins(Some(&vec![2; n]), None, None));
        let mut leap = Vec::new();
        if ts == 8 { leap.extend(78_796_800i64.to_be_bytes()); } else { leap.extend(78_796_800i32.to_be_bytes()); }
        leap.extend(1i32.to_be_bytes());
        add("leap:one".into(), ins(None, None, Some(&leap)));
        let mut bad = leap.clone(); let l = bad.len(); bad[l - 1] = 5;
        add("leap:correction5".into(), ins(None, None, Some(&bad)));
    }
    // footer variants
    if ver >= 2 {
        let body = &b[..lay.data_end];
        let tz = &b[lay.data_end + 1..b.len() - 1];
        let mk = |f: &[u8]| { let mut m = body.to_vec(); m.extend(f); m };
        let cat = |parts: &[&[u8]]| parts.concat();
        add("footer:none".into(), mk(b""));
        add("footer:one-newline".into(), mk(b"\n"));
        add("footer:empty".into(), mk(b"\n\n"));
        add("footer:no-first-newline".into(), mk(&cat(&[tz, b"\n"])));
        add("footer:no-last-newline".into(), mk(&cat(&[b"\n", tz])));
        add("footer:no-newlines".into(), mk(tz));
        add("footer:nul".into(), mk(&cat(&[b"\n", tz, b"\0\n"])));
        add("footer:nul-inside".into(), mk(&cat(&[b"\nAB\0C5\n"])));
        add("footer:colon".into(), mk(&cat(&[b"\n:", tz, b"\n"])));
        add("footer:colon-only".into(), mk(b"\n:\n"));
        add("footer:double-newline".into(), mk(&cat(&[b"\n\n", tz, b"\n"])));
        add("footer:blank".into(), mk(&cat(&[b"\n ", tz, b" \n"])));
        add("footer:trailing-data".into(), mk(&cat(&[b"\n", tz, b"\nextra"])));
        add("footer:trailing-comma".into(), mk(&cat(&[b"\n", tz, b",\n"])));
        add("footer:garbage".into(), mk(b"\n!!!\n"));
        add("footer:no-rule-days".into(), mk(b"\nCET-1CEST\n"));
        add("footer:other-offset".into(), mk(b"\nXXX-3:25:45\n"));
        add("footer:other-rule".into(), mk(b"\nAAA5BBB,M1.1.0,M7.1.0\n"));
        add("footer:extended-time".into(), mk(b"\nCET-1CEST,M3.5.0/-1,M10.5.0/26\n"));
        add("footer:j0".into(), mk(b"\nCET-1CEST,J0,J100\n"));
        add("footer:m13".into(), mk(b"\nCET-1CEST,M13.1.0,M10.5.0\n"));
        add("footer:utf8".into(), mk("\nC\u{c9}T-1\n".as_bytes()));
        add("footer:latin1".into(), mk(b"\nC\xc9T-1\n"));
    } else {
        for t in [&b"\0"[..], b"\n\n", b"TZif", b"\nUTC0\n"] { let mut m = b.to_vec(); m.extend(t); add(format!("v1:trailing:{}", t.len()), m); }
    }
    // random single-byte changes, insertions and deletions
    for _ in 0..random_flips {
        let mut m = b.to_vec();
        let at = rng.below(m.len());
        match rng.below(5) {
            0 => { m[at] ^= 1 << rng.below(8); }
            1 => { m[at] = rng.below(256) as u8; }
            2 => { m.remove(at); }
            3 => { m.insert(at, rng.below(256) as u8); }
            _ => { m[at] = *rng.pick(&[0u8, 1, 0x7f, 0x80, 0xff, b'\n']); }
        }
        add(format!("random-edit:{}", at), m);
    }
    out
}
fn random_bytes(rng: &mut Rng) -> Vec<u8> {
    let n = match rng.below(4) { 0 => rng.below(8), 1 => rng.below(60), _ => rng.below(200) };
    let mut v: Vec<u8> = (0..n).map(|_| rng.below(256) as u8).collect();
    if rng.chance(2, 3) { for (i, c) in b"TZif".iter().enumerate() { if i < v.len() { v[i] = *c; } } }
    if rng.chance(1, 2) && v.len() > 4 { v[4] = *rng.pick(&[0u8, b'2', b'3']); }
    // small counts so that the reader gets past the header now and then
    if rng.chance(1, 2) && v.len() >= 44 { for f in 0..6 { put32(&mut v, 20 + 4 * f, rng.below(4) as u32); } }
    v
}

// ------------------------------------------------------------------------------------------------
/// Both lookups at the extremes on an accepted zone; each outcome is "ok", "err" or "panic".
pub fn survive(z: &Zone, m: Option<&Model>) -> Value {
    let mut instants: Vec<i64> = vec![i64::MIN, i64::MIN + 1, -(1i64 << 62), MIN_UTC - 1, MIN_UTC, 0, MAX_UTC, MAX_UTC + 1, 1i64 << 62, i64::MAX - 1, i64::MAX,
                                      67_767_976_233_532_799, 67_768_036_191_676_799, 67_768_036_191_676_800, -67_768_040_609_740_800, -67_768_100_567_971_200];
    let mut walls: Vec<i64> = vec![MIN_UTC, MIN_UTC + 1, MIN_UTC + 86_399, MIN_UTC + 100_000, 0, MAX_UTC - 100_000, MAX_UTC - 86_399, MAX_UTC - 1, MAX_UTC];
    if let Some(m) = m {
        let n = m.trans.len();
        for (k, (t, _)) in m.trans.iter().enumerate() {
            if k < 6 || k + 6 >= n {
                for d in [-1i64, 0, 1] { if let Some(x) = t.checked_add(d) { instants.push(x); walls.push(x); } }
            }
        }
    }
    let mut q = Vec::new();
    for t in instants {
        let r = match guard(|| z.type_at(t)) { Ok(Ok(_)) => "ok", Ok(Err(_)) => "err", Err(_) => "panic" };
        q.push(json!({"k": "at", "t": big(t as i128), "r": r}));
    }
    for w in walls {
        let Some(nd) = naive(w) else { continue };
        let r = match guard(|| z.offsets_for_local(nd)) { Ok(Ok(_)) => "ok", Ok(Err(_)) => "err", Err(_) => "panic" };
        q.push(json!({"k": "local", "t": big(w as i128), "r": r}));
    }
    Value::Array(q)
}
thread_local! { static PUB_DIR: std::cell::RefCell<Option<std::path::PathBuf>> = std::cell::RefCell::new(None); }
/// The same lookups through the PUBLIC route (TZ=:<file>, chrono::Local on a fresh thread): `Local` has no error channel, so a lookup
/// that the zone answers with an error surfaces as a panic there ("answers ... without panicking" is about what a user can call).
pub fn public_survive(bytes: &[u8], m: Option<&Model>) -> Vec<Value> {
    use chrono::{Local, TimeZone};
    let Some(dir) = PUB_DIR.with(|d| d.borrow().clone()) else { return vec![] };
    let path = dir.join("public-route.tzif");
    if std::fs::write(&path, bytes).is_err() { return vec![]; }
    let mut walls: Vec<i64> = vec![MIN_UTC + 100_000, 0, MAX_UTC - 100_000];
    let mut instants: Vec<i64> = vec![MIN_UTC, 0, MAX_UTC];
    if let Some(m) = m { for (t, _) in m.trans.iter().take(3).chain(m.trans.iter().rev().take(3)) {
        for d in [-90_000i64, -1, 0, 1, 90_000] { if let Some(x) = t.checked_add(d) { if x > MIN_UTC + 90_000 && x < MAX_UTC - 90_000 { walls.push(x); instants.push(x); } } } } }
    std::env::set_var("TZ", format!(":{}", path.display()));
    let h = std::thread::spawn(move || {
        let mut q = Vec::new();
        for t in instants { let Some(nd) = naive(t) else { continue };
            q.push(json!({"k": "public-at", "t": big(t as i128), "r": if guard(|| Local.from_utc_datetime(&nd)).is_ok() { "ok" } else { "panic" }})); }
        for w in walls { let Some(nd) = naive(w) else { continue };
            q.push(json!({"k": "public-local", "t": big(w as i128), "r": if guard(|| Local.from_local_datetime(&nd)).is_ok() { "ok" } else { "panic" }})); }
        q
    });
    let r = h.join().unwrap_or_default();
    std::env::remove_var("TZ");
    let _ = std::fs::remove_file(&path);
    r
}
/// A reader is a function of its argument: the outcome for a text must not depend on what the same thread read before. Each outcome is
/// taken once on a fresh thread and once right after the same text was read in the OTHER dialect (with / without the version-3 extensions).
pub fn tzstr_seq_event(text: &[u8]) -> Value {
    let chars = Value::Array(text.iter().map(|c| json!(*c)).collect());
    let t0 = text.to_vec();
    ev("tzstr_seq", json!({"chars": chars, "len": text.len()}), move || {
        let fresh = |f: Box<dyn FnOnce() -> Value + Send>| std::thread::spawn(f).join().unwrap_or(json!({"err": "thread panicked"}));
        let s = std::str::from_utf8(&t0).unwrap_or("?").to_string();
        let (a, b, c, d, e, f2) = (t0.clone(), t0.clone(), t0.clone(), t0.clone(), t0.clone(), t0.clone());
        let (s1, s2) = (s.clone(), s.clone());
        json!({
            "plain_fresh": fresh(Box::new(move || read_result(&Zone::from_tz_rule(&a, false)).0)),
            "plain_after_v3": fresh(Box::new(move || { let _ = Zone::from_tz_rule(&b, true); read_result(&Zone::from_tz_rule(&b, false)).0 })),
            "v3_fresh": fresh(Box::new(move || read_result(&Zone::from_tz_rule(&c, true)).0)),
            "v3_after_plain": fresh(Box::new(move || { let _ = Zone::from_tz_rule(&d, false); read_result(&Zone::from_tz_rule(&d, true)).0 })),
            "env_fresh": fresh(Box::new(move || { let _ = &e; read_result(&Zone::from_env_value(&s1)).0 })),
            "env_after_v3": fresh(Box::new(move || { let _ = Zone::from_tz_rule(&f2, true); read_result(&Zone::from_env_value(&s2)).0 })),
        })
    })
}
fn read_result(z: &Result<Zone, String>) -> (Value, Option<Model>) {
    match z {
        Ok(z) => match Model::from_describe(&z.describe()) {
            Ok(m) => (json!({"ok": m.to_json()}), Some(m)),
            Err(_) => (json!({"err": "describe not understood"}), None),
        },
        Err(_) => (json!({"err": "rejected"}), None),
    }
}
pub fn tzif_event(kind: &str, bytes: &[u8], sys: bool, base: bool) -> Value {
    ev("tzif", json!({"kind": kind, "bytes": jbytes(bytes), "len": bytes.len(), "sys": sys, "base": base}), || {
        tzalloc::start();
        let z = Zone::from_tzif(bytes);
        let peak = tzalloc::peak();
        let (r, m) = read_result(&z);
        let mut q = match &z { Ok(z) => survive(z, m.as_ref()), Err(_) => json!([]) };
        // files whose transition times or offsets are at their extremes (and the conforming base files) also through chrono::Local
        // (only zones all of whose offsets chrono::FixedOffset can hold: |offset| < 24 h; beyond that `Local` cannot express the answer -
        // the observation recorded in DESIGN 13.4, outside this property)
        let representable = m.as_ref().map(|m| m.offsets().into_iter().all(|o| o.abs() < 86_400)).unwrap_or(false);
        if z.is_ok() && representable && (base || kind.starts_with("times:") || kind.starts_with("offset:")) { if let Value::Array(a) = &mut q { a.extend(public_survive(bytes, m.as_ref())); } }
        json!({"r": r, "q": q, "peak": peak})
    })
}
pub fn tzstr_event(via: &str, text: &[u8], v3: bool, gen: bool) -> Value {
    let chars = Value::Array(text.iter().map(|c| json!(*c)).collect());
    ev("tzstr", json!({"via": via, "chars": chars, "len": text.len(), "v3": v3, "gen": gen}), || {
        tzalloc::start();
        let z = if via == "env" { Zone::from_env_value(std::str::from_utf8(text).unwrap_or("?")) } else { Zone::from_tz_rule(text, v3) };
        let peak = tzalloc::peak();
        let (r, m) = read_result(&z);
        let q = match &z { Ok(z) => survive(z, m.as_ref()), Err(_) => json!([]) };
        json!({"r": r, "q": q, "peak": peak})
    })
}
fn mutate_text(rng: &mut Rng, s: &[u8]) -> Vec<u8> {
    let alphabet = b"0123456789ABCMJabc<>+-:.,/ \0\n\xc3\xa9";
    let mut m = s.to_vec();
    for _ in 0..rng.range(1, 2) {
        if m.is_empty() { m.push(*rng.pick(alphabet)); continue; }
        let at = rng.below(m.len());
        match rng.below(5) {
            0 => { m.remove(at); }
            1 => { m.insert(at, *rng.pick(alphabet)); }
            2 => { m[at] = *rng.pick(alphabet); }
            3 => { m.truncate(at); }
            _ => { let c = m[at]; m.insert(at, c); }
        }
    }
    m
}
const HAND_STRINGS: [&str; 44] = ["", "A", "AB5", "ABC", "ABC5", "ABC+5", "ABC-5", "ABC24", "ABC25", "ABC-24:59:59", "ABC24:60", "ABC5:60:00", "ABC5:59:60", "ABC005", "ABC5:3",
    "ABCDEFG5", "ABCDEFGH5", "<>5", "<AB>5", "<ABC>5", "<+03>-3", "<A B>5", "<ABC5", "ABC5DEF", "ABC5DEF4", "ABC5DEF,J1,J2", "ABC5DEF,J0,J2", "ABC5DEF,J366,J2", "ABC5DEF,0,365",
    "ABC5DEF,366,1", "ABC5DEF,M1.1.0,M12.5.6", "ABC5DEF,M0.1.0,M12.5.6", "ABC5DEF,M13.1.0,M2.1.0", "ABC5DEF,M1.0.0,M2.1.0", "ABC5DEF,M1.6.0,M2.1.0", "ABC5DEF,M1.1.7,M2.1.0",
    "ABC5DEF,J1/24:59:59,J2/0", "ABC5DEF,J1/25,J2", "ABC5DEF,J1/-1,J2/167:59:59", "ABC5DEF,J1/168,J2", "ABC5DEF,J1/-168,J2", "ABC5DEF,J1,J2,", "ABC5DEF,J1", " ABC5 ",
];

pub fn run(ctx: &Ctx) -> Value {
    let mut rng = Rng::new(ctx.seed ^ 0x16);
    let mut tw = Tw::new(&ctx.out, "Trace_TzRead", ctx.t(250, 1_500));
    let (mut n_base, mut n_mut, mut n_sys, mut n_rand, mut n_gen, mut n_mutstr) = (0usize, 0usize, 0usize, 0usize, 0usize, 0usize);
    PUB_DIR.with(|d| *d.borrow_mut() = Some(std::path::PathBuf::from(&ctx.out)));
    // ---- conforming files from the harness's own writer and their structured mutations ----------------------
    for (m, vers) in base_models() {
        for ver in vers {
            for fat in [false, true] {
                if ver == 1 && fat { continue; }
                let (b, lay) = write_tzif(&m, ver, fat);
                tw.emit(tzif_event(&format!("base:v{}:{}", ver, if fat { "fat" } else { "slim" }), &b, false, true));
                n_base += 1;
                if fat && ctx.quick() { continue; } // the 32-bit block of a v2+ file is skipped by the reader: mutate the slim form only in the quick tier
                for (k, mb) in mutations(&b, &lay, ver, &mut rng, ctx.t(40, 150)) { tw.emit(tzif_event(&k, &mb, false, false)); n_mut += 1; }
            }
        }
    }
    // ---- every system zoneinfo file (quick: a sample, the leap-second variants included) --------------------
    let files = system_files(true);
    let step = ctx.t(files.len() / 36, 1).max(1);
    for (i, f) in files.iter().enumerate() {
        if i % step != 0 { continue; }
        tw.emit(tzif_event(&format!("sys:{}", f.name), &f.bytes, true, false));
        n_sys += 1;
        // and a few mutations of small real files
        if f.bytes.len() < 700 && (i / step) % ctx.t(6, 4) == 0 {
            for _ in 0..ctx.t(4, 12) { let mut m = f.bytes.clone(); let at = rng.below(m.len()); m[at] = rng.below(256) as u8; tw.emit(tzif_event(&format!("sysmut:{}:{}", f.name, at), &m, false, false)); n_mut += 1; }
        }
    }
    // ---- random bytes -------------------------------------------------------------------------------------------
    for _ in 0..ctx.t(800, 6_000) { tw.emit(tzif_event("random", &random_bytes(&mut rng), false, false)); n_rand += 1; }
    // ---- TZ strings: grammar-generated (must be accepted with exactly the written rule) and mutated ------------
    for s in HAND_STRINGS { for v3 in [false, true] { tw.emit(tzstr_event("rule", s.as_bytes(), v3, false)); n_mutstr += 1; } }
    for i in 0..ctx.t(1_000, 12_000) {
        let g = gen_rule(&mut rng, true, i % 3 != 0);
        tw.emit(tzstr_event("rule", g.text.as_bytes(), g.v3, true));
        n_gen += 1;
        if !g.v3 && i % 4 == 0 && !std::path::Path::new(ZONEINFO).join(&g.text).exists() && !g.text.starts_with('/') {
            tw.emit(tzstr_event("env", g.text.as_bytes(), false, true));
            n_gen += 1;
        }
        for _ in 0..2 { let m = mutate_text(&mut rng, g.text.as_bytes()); tw.emit(tzstr_event("rule", &m, g.v3 || rng.chance(1, 4), false)); n_mutstr += 1; }
    }
    // ---- the outcome for a text does not depend on what was read before (both dialects, the environment route) ---------------
    let mut n_seq = 0usize;
    for s in HAND_STRINGS { tw.emit(tzstr_seq_event(s.as_bytes())); n_seq += 1; }
    for t in ["<-03>3<-02>,M3.5.0/-2,M10.5.0/-1", "EST5EDT,0/0,J365/25", "AAA3BBB,J1/167,J300/-167", "CET-1CEST,M3.5.0,M10.5.0/3", "XXX-0:30", "AAA-1BBB,M3.5.0/24,M10.5.0/25"] { tw.emit(tzstr_seq_event(t.as_bytes())); n_seq += 1; }
    for i in 0..ctx.t(60, 1_500) { let g = gen_rule(&mut rng, true, i % 3 != 0); tw.emit(tzstr_seq_event(g.text.as_bytes())); n_seq += 1; }
    tw.finish();
    json!({"sequence_independence_events": n_seq, "base_files": n_base, "mutated_files": n_mut, "system_files": n_sys, "system_files_available": files.len(), "random_byte_strings": n_rand,
           "generated_tz_strings": n_gen, "mutated_tz_strings": n_mutstr, "events": tw.total})
}
