pub mod c01;

#[derive(Clone, Copy, PartialEq, Eq, Debug)]
pub enum Tier { Quick, Thorough }

pub struct Ctx {
    pub tier: Tier,
    pub seed: u64,
    pub out: String,
}
impl Ctx {
    pub fn quick(&self) -> bool { self.tier == Tier::Quick }
    /// pick by tier
    pub fn t<T>(&self, q: T, th: T) -> T { if self.quick() { q } else { th } }
}
