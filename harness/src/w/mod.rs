//! Workloads: one file per driver (`src/w/<name>.rs` with `pub fn run(ctx: &Ctx) -> serde_json::Value`),
//! registered automatically by build.rs. `drive <NAME>` runs `<name>::run`.
#[derive(Clone, Copy, PartialEq, Eq, Debug)]
pub enum Tier { Quick, Thorough }

pub struct Ctx {
    pub tier: Tier,
    pub seed: u64,
    pub out: String,
}
impl Ctx {
    pub fn quick(&self) -> bool { self.tier == Tier::Quick }
    /// pick by tier
    pub fn t<T>(&self, q: T, th: T) -> T { if self.quick() { q } else { th } }
}
include!(concat!(env!("OUT_DIR"), "/workloads.rs"));
