//! C10: RFC 3339 output is conformant (to_rfc3339, to_rfc3339_opts) and input acceptance is exact
//! (parse_from_rfc3339 on valid, mutated and arbitrary Unicode strings).
use super::Ctx;
use crate::big::cps;
use crate::out::Tw;
use crate::proj::*;
use crate::rng::Rng;
use crate::{ev, guard};
use chrono::{DateTime, FixedOffset, NaiveDate, NaiveDateTime, NaiveTime, SecondsFormat, TimeZone};
use serde_json::{json, Value};

fn back(text: &str) -> Value {
    match DateTime::parse_from_rfc3339(text) {
        Ok(b) => json!({"ok": {"u": ndt(b.naive_utc()), "off": b.offset().local_minus_utc()}}),
        Err(_) => json!({"err": 1}),
    }
}

const SFS: [(SecondsFormat, &str); 5] = [(SecondsFormat::Secs, "Secs"), (SecondsFormat::Millis, "Millis"), (SecondsFormat::Micros, "Micros"),
                                         (SecondsFormat::Nanos, "Nanos"), (SecondsFormat::AutoSi, "AutoSi")];

/// to_rfc3339 and to_rfc3339_opts x 5 precisions x use_z for one value; `tz` names the Rust type the call went through
fn write_events<Tz: TimeZone>(tw: &mut Tw, dt: &DateTime<Tz>, tz: &str, opts: bool) -> usize {
    let (u, off) = match guard(|| (dt.naive_utc(), chrono::Offset::fix(dt.offset()).local_minus_utc())) { Ok(x) => x, Err(_) => return 0 };
    let args = json!({"u": ndt(u), "off": off, "tz": tz});
    tw.emit(ev("to_rfc3339", args.clone(), || { let t = dt.to_rfc3339(); json!({"text": cps(&t), "back": back(&t)}) }));
    let mut n = 1;
    if opts {
        for (sf, name) in SFS.iter() {
            for z in [false, true] {
                let mut a = args.clone();
                a["sf"] = json!(name);
                a["z"] = json!(z);
                tw.emit(ev("to_rfc3339_opts", a, || { let t = dt.to_rfc3339_opts(*sf, z); json!({"text": cps(&t), "back": back(&t)}) }));
                n += 1;
            }
        }
    }
    n
}

pub fn parse_event(s: &str, src: &str) -> Value {
    ev("parse3339", json!({"s": cps(s), "src": src}), || match DateTime::parse_from_rfc3339(s) {
        Ok(dt) => json!({"r": {"ok": {"u": ndt(dt.naive_utc()), "off": dt.offset().local_minus_utc()}}}),
        Err(e) => json!({"r": {"err": format!("{:?}", e.kind())}}),
    })
}

/// A string of the RFC 3339 grammar with the documented latitude, from random fields biased to the boundaries.
pub fn valid_string(rng: &mut Rng) -> String {
    let r = rng.range(0, 9999);
    let y = *rng.pick(&[0i64, 1, 99, 999, 1000, 1900, 1999, 2000, 2024, 2100, 9999, r]);
    let r = rng.range(1, 12);
    let mo = *rng.pick(&[1i64, 2, 2, 6, 11, 12, r]);
    let leap = (y % 4 == 0 && y % 100 != 0) || y % 400 == 0;
    let dim = match mo { 2 => if leap { 29 } else { 28 }, 4 | 6 | 9 | 11 => 30, _ => 31 };
    let r = rng.range(1, dim);
    let d = *rng.pick(&[1i64, dim, dim, r]);
    let r = rng.range(0, 23);
    let h = *rng.pick(&[0i64, 23, 12, r]);
    let r = rng.range(0, 59);
    let mi = *rng.pick(&[0i64, 59, 30, r]);
    let r = rng.range(0, 59);
    let s = *rng.pick(&[0i64, 59, 60, 60, r]);
    let sep = *rng.pick(&['T', 'T', 't', ' ']);
    let mut out = format!("{:04}-{:02}-{:02}{}{:02}:{:02}:{:02}", y, mo, d, sep, h, mi, s);
    let r = rng.below(20);
    let nd = *rng.pick(&[0usize, 0, 1, 3, 6, 9, 10, 15, r]);
    if nd > 0 {
        out.push('.');
        let all9 = rng.chance(1, 8);
        let all0 = rng.chance(1, 8);
        for _ in 0..nd { out.push(if all9 { '9' } else if all0 { '0' } else { (b'0' + rng.below(10) as u8) as char }); }
    }
    match rng.below(6) {
        0 => out.push('Z'),
        1 => out.push('z'),
        _ => {
            let sign = *rng.pick(&['+', '-', '\u{2212}']);
            let r = (rng.range(0, 23), rng.range(0, 59));
            let (oh, om) = *rng.pick(&[(0i64, 0i64), (0, 1), (23, 59), (23, 0), (0, 59), (5, 30), r]);
            out.push_str(&format!("{}{:02}:{:02}", sign, oh, om));
        }
    }
    out
}

const EXOTIC: [char; 22] = ['\u{2212}', '\u{e9}', '\u{663}', '\u{ff13}', '\u{2003}', '\u{a0}', '\u{1f920}', '\u{0}', '\u{7f}', '\u{ff1a}', '\u{2010}', '\u{feff}',
                            '\u{301}', '\u{d7ff}', '\u{10ffff}', '\u{212a}', '\u{130}', '\t', '\n', '\u{2028}', '\u{fe63}', '\u{ff0d}'];
const ASCII_POOL: &[u8] = b"0123456789TtZz+-:. ,/_xW";

/// Single and compound mutations of a valid string (classes named in the property's rationale).
pub fn mutate(rng: &mut Rng, s: &str) -> String {
    let mut c: Vec<char> = s.chars().collect();
    let n = c.len();
    if n < 20 {                                   // (a second mutation of a truncated string)
        c.insert(rng.below(n + 1), *rng.pick(ASCII_POOL) as char);
        return c.into_iter().collect();
    }
    let i = rng.below(n);
    match rng.below(22) {
        0 => { c.remove(i); }                                                   // delete
        1 => { let x = c[i]; c.insert(i, x); }                                  // duplicate
        2 => { c[i] = *rng.pick(ASCII_POOL) as char; }                          // replace (ASCII)
        3 => { if i + 1 < n { c.swap(i, i + 1); } }                             // transpose
        4 => { c.insert(rng.below(n + 1), *rng.pick(ASCII_POOL) as char); }     // insert
        5 => { // digit width: drop a leading zero / first digit of a field
            let starts = [0usize, 5, 8, 11, 14, 17];
            let k = *rng.pick(&starts);
            if k < c.len() { c.remove(k); }
        }
        6 => { // digit width: one digit more in a field
            let starts = [0usize, 5, 8, 11, 14, 17];
            let k = *rng.pick(&starts);
            c.insert(k, *rng.pick(&['0', '1', '9']));
        }
        7 => { // colon of the offset removed / doubled / replaced
            if let Some(p) = c.iter().rposition(|&x| x == ':') { if p > 16 { match rng.below(3) { 0 => { c.remove(p); } 1 => c.insert(p, ':'), _ => c[p] = ' ' } } }
        }
        8 => { // offset hour 24 / 99, minute 60 / 99
            let l = c.len();
            if l >= 6 && c[l - 3] == ':' {
                let (a, b) = *rng.pick(&[("24", "00"), ("24", "01"), ("23", "60"), ("99", "59"), ("00", "60"), ("23", "59"), ("00", "00"), ("12", "99")]);
                let t: Vec<char> = format!("{}:{}", a, b).chars().collect();
                c.splice(l - 5.., t);
            }
        }
        9 => { if c.len() > 18 { c[17] = '6'; c[18] = '0'; } }                  // :60 on whatever minute
        10 => { if c.len() > 18 { let t = *rng.pick(&["61", "99", "60"]); let t: Vec<char> = t.chars().collect(); c[17] = t[0]; c[18] = t[1]; } }
        11 => { if c.len() > 15 { c[14] = '6'; c[15] = '0'; } }                 // minute 60
        12 => { if c.len() > 12 { c[11] = '2'; c[12] = '4'; } }                 // hour 24
        13 => { // fraction without digits / dot doubled / comma
            if c.len() > 19 {
                if c[19] == '.' { let mut j = 20; while j < c.len() && c[j].is_ascii_digit() { j += 1; } match rng.below(3) { 0 => { c.drain(20..j); } 1 => c.insert(19, '.'), _ => c[19] = ',' } }
                else { c.insert(19, '.'); }
            }
        }
        14 => { let t = *rng.pick(&[" ", "Z", "x", "\n", "+00:00", "[UTC]", "0", "\u{2003}"]); c.extend(t.chars()); }      // trailing text
        15 => { let t = *rng.pick(&[" ", "+", "T", "0", "\u{feff}"]); let t: Vec<char> = t.chars().collect(); c.splice(0..0, t); }   // leading text
        16 => { for x in c.iter_mut() { if rng.chance(1, 2) { *x = if x.is_ascii_uppercase() { x.to_ascii_lowercase() } else { x.to_ascii_uppercase() }; } } }   // case
        17 => { // day / month beyond the calendar
            let t = *rng.pick(&["02-30", "02-29", "04-31", "13-01", "00-10", "12-32", "01-00", "06-31", "12-31"]);
            let t: Vec<char> = t.chars().collect();
            if c.len() > 10 { c.splice(5..10, t); }
        }
        18 => { c[i] = *rng.pick(&EXOTIC); }                                    // replace by a non-ASCII / control code point
        19 => { c.insert(rng.below(n + 1), *rng.pick(&EXOTIC)); }               // insert one
        20 => { c.truncate(i); }                                                // truncation
        _ => { // sign variants
            if let Some(p) = c.iter().rposition(|&x| x == '+' || x == '-' || x == '\u{2212}') { if p > 18 { c[p] = *rng.pick(&['+', '-', '\u{2212}', '\u{2013}', '\u{ff0b}', '\u{b1}']); } }
        }
    }
    c.into_iter().collect()
}

fn random_unicode(rng: &mut Rng) -> String {
    let n = rng.below(40);
    (0..n).map(|_| match rng.below(4) {
        0 => *rng.pick(ASCII_POOL) as char,
        1 => *rng.pick(&EXOTIC),
        2 => char::from_u32(rng.range(0, 0x7f) as u32).unwrap(),
        _ => loop { if let Some(ch) = char::from_u32(rng.range(0x80, 0x10ffff) as u32) { break ch; } },
    }).collect()
}

pub fn run(ctx: &Ctx) -> Value {
    let mut tw = Tw::new(&ctx.out, "Trace_Rfc3339", ctx.t(4_000, 25_000));
    let mut rng = Rng::new(ctx.seed ^ 0xC10);
    // ---- writer: wall clocks in years 0..9999 x whole-minute offsets
    let years = [0, 1, 999, 1000, 1999, 2000, 2024, 9999];
    let mut dates: Vec<NaiveDate> = Vec::new();
    for &y in years.iter() {
        for (m, d) in [(1, 1), (2, 28), (2, 29), (6, 30), (12, 31)] {
            if let Some(x) = super::c09::mk(|| NaiveDate::from_ymd_opt(y, m, d)) { dates.push(x); }
        }
    }
    let mut times: Vec<NaiveTime> = Vec::new();
    for (h, mi, s) in [(0u32, 0u32, 0u32), (23, 59, 59), (12, 34, 56)] {
        for &n in super::c09::NANOS.iter().chain([500_000_000u32, 999_999_000, 1_999_999].iter()) {
            if let Some(x) = super::c09::mk(|| NaiveTime::from_hms_nano_opt(h, mi, s, n)) { times.push(x); }
            if s == 59 { if let Some(x) = super::c09::mk(|| NaiveTime::from_hms_nano_opt(h, mi, s, 1_000_000_000 + n)) { times.push(x); } }
        }
    }
    let lattice = super::c09::offset_lattice();
    let all = super::c09::all_minute_offsets();
    let (mut nw, mut skipped) = (0usize, 0usize);
    // digit groups of the fraction: every combination of {0, 1, 256, 512, 768, 999} in the milli-, micro- and nanosecond group, all seconds formats
    for (i, f) in crate::proj::fraction_groups().into_iter().enumerate() {
        let v = dates[i % dates.len()].and_time(crate::proj::mk_time_any(45_296 + (i as u32 % 60), f));
        if let Some(dt) = super::c09::mk(|| FixedOffset::east_opt(lattice[i % lattice.len()]).and_then(|o| o.from_local_datetime(&v).single())) { nw += write_events(&mut tw, &dt, "fixed", true); }
    }
    let mut values: Vec<NaiveDateTime> = Vec::new();
    for d in &dates { for t in &times { values.push(d.and_time(*t)); } }
    // quick: every (date, time) with 3 offsets of the lattice in rotation; thorough: the whole lattice, and all whole minutes for a few
    let mut k = 0usize;
    for v in &values {
        let offs: Vec<i32> = if ctx.quick() { (0..2).map(|j| lattice[(k * 2 + j) % lattice.len()]).collect() } else { lattice.clone() };
        k += 1;
        for off in offs {
            match super::c09::mk(|| FixedOffset::east_opt(off).and_then(|o| o.from_local_datetime(v).single())) {
                Some(dt) => nw += write_events(&mut tw, &dt, "fixed", true),
                None => skipped += 1,
            }
        }
        if k % 3 == 0 { if let Ok(dt) = guard(|| v.and_utc()) { nw += write_events(&mut tw, &dt, "utc", true); } }
    }
    if !ctx.quick() {
        for v in values.iter().step_by(17) {
            for &off in &all {
                match super::c09::mk(|| FixedOffset::east_opt(off).and_then(|o| o.from_local_datetime(v).single())) {
                    Some(dt) => nw += write_events(&mut tw, &dt, "fixed", off % 7 == 0),
                    None => skipped += 1,
                }
            }
        }
    }
    // digit-pair witnesses, and a sequence in which consecutive values share a component (one-entry memos inside the writer)
    for (i, v) in crate::proj::pair_witnesses().iter().enumerate() {
        let off = lattice[i % lattice.len()];
        if let Some(dt) = super::c09::mk(|| FixedOffset::east_opt(off).and_then(|o| o.from_local_datetime(v).single())) { nw += write_events(&mut tw, &dt, "fixed", i % 4 == 0); }
        if i % 2 == 0 { if let Ok(dt) = guard(|| v.and_utc()) { nw += write_events(&mut tw, &dt, "utc", false); } }
    }
    for (i, d) in crate::proj::memo_sequence().into_iter().enumerate() {
        let v = d.and_time(times[i % 2]);
        if let Ok(dt) = guard(|| v.and_utc()) { nw += write_events(&mut tw, &dt, "utc", i % 3 == 0); }
    }
    for _ in 0..ctx.t(300, 20_000) {       // random wall clocks
        let d = super::c09::mk(|| NaiveDate::from_ymd_opt(rng.range(0, 9999) as i32, rng.range(1, 12) as u32, rng.range(1, 28) as u32));
        let secs = rng.range(0, 86_399) as u32;
        let unit = 10u32.pow(rng.below(10) as u32);
        let mut f = (rng.range(0, 999_999_999) as u32 / unit) * unit;
        if secs % 60 == 59 && rng.chance(1, 4) { f += 1_000_000_000; }
        let t = super::c09::mk(|| NaiveTime::from_num_seconds_from_midnight_opt(secs, f));
        let off = 60 * rng.range(-1439, 1439) as i32;
        if let (Some(d), Some(t)) = (d, t) {
            match super::c09::mk(|| FixedOffset::east_opt(off).and_then(|o| o.from_local_datetime(&d.and_time(t)).single())) {
                Some(dt) => nw += write_events(&mut tw, &dt, "fixed", true),
                None => skipped += 1,
            }
        }
    }
    // ---- reader
    let (mut nvalid, mut nmut, mut nuni) = (0usize, 0usize, 0usize);
    let pins = ["1996-12-19T16:39:57-08:00", "1990-12-31T23:59:60Z", "1985-04-12T23:20:50.52Z", "1937-01-01T12:00:27.87+00:20", "2015-02-18T23:16:09.153Z",
                "0000-01-01T00:00:00+23:59", "9999-12-31T23:59:60.999999999999-23:59", "2015-02-18 23:16:09Z", "2015-02-18t23:16:09z",
                "2015-02-18T23:16:09\u{2212}00:00", "2015-02-18T23:16:09+0000", "2015-02-18T23:16:09", "2015-02-18T23:16:09+24:00", "2015-02-18T23:16:09.Z",
                "2015-2-18T23:16:09Z", "2015-02-18T23:16:9Z", "20150218T231609Z", "2015-02-18T24:00:00Z", "2015-02-30T00:00:00Z", "2015-02-18T23:16:09Z ",
                " 2015-02-18T23:16:09Z", "2015-02-18T23:16:09UTC", "+2015-02-18T23:16:09Z", "-0001-02-18T23:16:09Z", "12015-02-18T23:16:09Z", "", "T", "Z"];
    for s in pins.iter() { tw.emit(parse_event(s, "pin")); nvalid += 1; }
    // fractions of any length are valid (time-secfrac = "." 1*DIGIT): digits beyond the ninth are dropped, however many there are
    for n in [10usize, 12, 19, 20, 100, 255, 256, 257, 1_000] {
        tw.emit(parse_event(&format!("2015-02-18T23:16:09.{}{}+05:00", "123456789", "7".repeat(n - 9)), "pin")); nvalid += 1;
    }
    // ... at lengths TLC cannot scan (tens of thousands of digits) the statement is checked in its reduced form: the outcome equals the
    // outcome for the same text cut after the ninth digit (which is itself judged above as an ordinary text)
    for n in [4_000usize, 65_535, 65_536, 65_536 + 9, 65_536 + 10, 70_000, 1 << 17] {
        let short = "2015-02-18T23:16:09.123456789+05:00";
        let long = format!("2015-02-18T23:16:09.123456789{}+05:00", "7".repeat(n));
        let res = |s: &str| match DateTime::parse_from_rfc3339(s) { Ok(b) => json!({"ok": {"u": ndt(b.naive_utc()), "off": b.offset().local_minus_utc()}}), Err(_) => json!({"err": 1}) };
        tw.emit(ev("parse3339_longfrac", json!({"surplus": n, "s9": cps(short)}), || json!({"r9": res(short), "r": res(&long)})));
        nvalid += 1;
    }
    let nbase = ctx.t(2_500, 40_000);
    for _ in 0..nbase {
        let s = valid_string(&mut rng);
        tw.emit(parse_event(&s, "valid"));
        nvalid += 1;
        for _ in 0..ctx.t(8, 12) {
            let mut m = mutate(&mut rng, &s);
            if rng.chance(1, 6) { m = mutate(&mut rng, &m); }
            tw.emit(parse_event(&m, "mut"));
            nmut += 1;
        }
    }
    // multi-byte / control code points at every position of a valid string (replace and insert)
    for _ in 0..ctx.t(25, 300) {
        let s: Vec<char> = valid_string(&mut rng).chars().collect();
        for i in 0..=s.len() {
            let x = *rng.pick(&EXOTIC);
            let mut a = s.clone(); a.insert(i, x);
            tw.emit(parse_event(&a.iter().collect::<String>(), "uni"));
            nuni += 1;
            if i < s.len() { let mut b = s.clone(); b[i] = x; tw.emit(parse_event(&b.iter().collect::<String>(), "uni")); nuni += 1; }
        }
    }
    for _ in 0..ctx.t(1_500, 30_000) { tw.emit(parse_event(&random_unicode(&mut rng), "uni")); nuni += 1; }
    tw.finish();
    json!({"events": tw.total, "write": nw, "parse_valid": nvalid, "parse_mutated": nmut, "parse_unicode": nuni, "skipped_constructions": skipped})
}
