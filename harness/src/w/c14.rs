//! C14: `format::Parsed` - setters (range table, double-set rule) and the five resolutions, as episodes `Set* ; To*`
//! judged by `Trace_Parsed.tla`.
//!  (a) derived episodes: a real value w, a subset of the fields of w biased to contain / narrowly miss a documented sufficient
//!      combination, optionally one field replaced by a contradicting or out-of-range value, or set twice;
//!  (b) independent episodes: random values per field;
//!  (c) thorough tier: every subset of the 21 fields once, with the fields derived from a value of a fixed lattice.
//! The value w is passed to the specification as a *claim* (`vn`, `vs`, `vf`): the specification checks itself whether every field
//! in its register agrees with it before it applies the obligations for derived field sets.
use super::Ctx;
use crate::big::big;
use crate::ev;
use crate::out::Tw;
use crate::proj::{dn, NO_DATE};
use crate::rng::Rng;
use chrono::format::{ParseResult, Parsed};
use chrono::{DateTime, Datelike, FixedOffset, NaiveDate, NaiveDateTime, NaiveTime, Timelike, Weekday};
use serde_json::{json, Value};

const WD: [Weekday; 7] = [Weekday::Mon, Weekday::Tue, Weekday::Wed, Weekday::Thu, Weekday::Fri, Weekday::Sat, Weekday::Sun];
pub const FIELDS: [&str; 21] = ["year", "year_div_100", "year_mod_100", "isoyear", "isoyear_div_100", "isoyear_mod_100", "quarter", "month",
    "week_from_sun", "week_from_mon", "isoweek", "weekday", "ordinal", "day", "hour_div_12", "hour_mod_12", "minute", "second", "nanosecond",
    "timestamp", "offset"];

fn res<T>(r: &ParseResult<T>) -> Value {
    match r { Ok(_) => json!({"ok": 1}), Err(e) => json!({"err": format!("{:?}", e.kind())}) }
}

/// One setter call. `setter` is a name of `Parsed.tla`'s `Setters`; weekday / ampm arguments outside the enum cannot be expressed in Rust.
fn call_setter(p: &mut Parsed, setter: &str, v: i64) -> ParseResult<()> {
    match setter {
        "year" => p.set_year(v), "year_div_100" => p.set_year_div_100(v), "year_mod_100" => p.set_year_mod_100(v),
        "isoyear" => p.set_isoyear(v), "isoyear_div_100" => p.set_isoyear_div_100(v), "isoyear_mod_100" => p.set_isoyear_mod_100(v),
        "quarter" => p.set_quarter(v), "month" => p.set_month(v), "week_from_sun" => p.set_week_from_sun(v), "week_from_mon" => p.set_week_from_mon(v),
        "isoweek" => p.set_isoweek(v), "weekday" => p.set_weekday(WD[v as usize]), "ordinal" => p.set_ordinal(v), "day" => p.set_day(v),
        "ampm" => p.set_ampm(v != 0), "hour12" => p.set_hour12(v), "hour" => p.set_hour(v), "minute" => p.set_minute(v), "second" => p.set_second(v),
        "nanosecond" => p.set_nanosecond(v), "timestamp" => p.set_timestamp(v), "offset" => p.set_offset(v),
        other => panic!("harness: unknown setter {}", other),
    }
}

/// the record of one setter call: result and the value of hour_div_12 read back (needed to follow a failed set_hour)
fn set_record(p: &mut Parsed, setter: &str, v: i64) -> Value {
    let r = call_setter(p, setter, v);
    json!({"r": res(&r), "hd": p.hour_div_12().map(|x| x as i64).unwrap_or(-1)})
}

fn ndt_json(x: NaiveDateTime) -> Value { json!({"n": dn(x.date()), "secs": x.time().num_seconds_from_midnight(), "frac": x.time().nanosecond()}) }
fn dt_json<Tz: chrono::TimeZone>(x: &DateTime<Tz>) -> Value {
    use chrono::Offset;
    let l = x.naive_local();
    json!({"n": dn(l.date()), "secs": l.time().num_seconds_from_midnight(), "frac": l.time().nanosecond(), "off": x.offset().fix().local_minus_utc()})
}
fn out<T>(r: ParseResult<T>, f: impl FnOnce(T) -> Value) -> Value {
    match r { Ok(x) => json!({"ok": f(x)}), Err(e) => json!({"err": format!("{:?}", e.kind())}) }
}

/// A real value: wall clock + offset.
#[derive(Clone, Copy)]
pub struct W { pub dt: NaiveDateTime, pub off: i32 }
impl W {
    fn claim(&self) -> Value { json!({"vn": dn(self.dt.date()), "vs": self.dt.time().num_seconds_from_midnight(), "vf": self.dt.time().nanosecond()}) }
    /// every field the value determines, as (setter to use, argument). Century parts only for non-negative years.
    pub fn fields(&self, rng: &mut Rng) -> Vec<(&'static str, &'static str, i64)> {
        let d = self.dt.date();
        let t = self.dt.time();
        let mut v: Vec<(&'static str, &'static str, i64)> = Vec::new();
        let y = d.year() as i64;
        v.push(("year", "year", y));
        if y >= 0 { v.push(("year_div_100", "year_div_100", y / 100)); v.push(("year_mod_100", "year_mod_100", y % 100)); }
        let iy = d.iso_week().year() as i64;
        v.push(("isoyear", "isoyear", iy));
        if iy >= 0 { v.push(("isoyear_div_100", "isoyear_div_100", iy / 100)); v.push(("isoyear_mod_100", "isoyear_mod_100", iy % 100)); }
        v.push(("quarter", "quarter", (d.month0() / 3 + 1) as i64));
        v.push(("month", "month", d.month() as i64));
        let yday = d.ordinal0() as i64;
        v.push(("week_from_sun", "week_from_sun", (yday + 7 - d.weekday().num_days_from_sunday() as i64) / 7));
        v.push(("week_from_mon", "week_from_mon", (yday + 7 - d.weekday().num_days_from_monday() as i64) / 7));
        v.push(("isoweek", "isoweek", d.iso_week().week() as i64));
        v.push(("weekday", "weekday", d.weekday().num_days_from_monday() as i64));
        v.push(("ordinal", "ordinal", d.ordinal() as i64));
        v.push(("day", "day", d.day() as i64));
        let h = t.hour() as i64;
        // the two hour fields through set_ampm / set_hour12, or (when both are wanted) sometimes through set_hour
        v.push(("hour_div_12", "ampm", h / 12));
        v.push(("hour_mod_12", "hour12", if h % 12 == 0 { 12 } else { h % 12 }));
        v.push(("minute", "minute", t.minute() as i64));
        let leap = t.nanosecond() >= 1_000_000_000;
        v.push(("second", "second", if leap { 60 } else { t.second() as i64 }));
        v.push(("nanosecond", "nanosecond", (t.nanosecond() % 1_000_000_000) as i64));
        v.push(("timestamp", "timestamp", self.dt.and_utc().timestamp() - self.off as i64));
        v.push(("offset", "offset", self.off as i64));
        let _ = rng;
        v
    }
}

struct Episode { ep: i64, p: Parsed, evs: Vec<Value> }
impl Episode {
    fn new(ep: i64) -> Self { Episode { ep, p: Parsed::new(), evs: Vec::new() } }
    fn set(&mut self, setter: &str, v: i64) {
        let p = &mut self.p;
        let e = ev("set", json!({"ep": self.ep, "f": setter, "v": big(v as i128)}), || set_record(p, setter, v));
        self.evs.push(e);
    }
    fn set_many(&mut self, sets: &[(&str, i64)]) {
        let p = &mut self.p;
        let e = ev("setmany", json!({"ep": self.ep}), || {
            json!({"sets": sets.iter().map(|(s, v)| { let mut r = set_record(p, s, *v); let o = r.as_object_mut().unwrap();
                o.insert("f".into(), json!(s)); o.insert("v".into(), big(*v as i128)); r }).collect::<Vec<_>>()})
        });
        self.evs.push(e);
    }
    fn to_naive_date(&mut self, claim: Option<W>) {
        let p = &self.p;
        let vn = claim.map(|w| dn(w.dt.date())).unwrap_or(NO_DATE);
        self.evs.push(ev("to_naive_date", json!({"ep": self.ep, "vn": vn}), || json!({"r": out(p.to_naive_date(), |d| json!(dn(d)))})));
    }
    fn to_naive_time(&mut self) {
        let p = &self.p;
        self.evs.push(ev("to_naive_time", json!({"ep": self.ep}), || json!({"r": out(p.to_naive_time(), crate::proj::tod)})));
    }
    fn args(&self, claim: Option<W>, extra: Value) -> Value {
        let mut a = json!({"ep": self.ep});
        let c = claim.map(|w| w.claim()).unwrap_or(json!({"vn": NO_DATE, "vs": 0, "vf": 0}));
        a.as_object_mut().unwrap().extend(c.as_object().unwrap().clone());
        a.as_object_mut().unwrap().extend(extra.as_object().unwrap().clone());
        a
    }
    fn to_ndt(&mut self, claim: Option<W>, off: i32) {
        let p = &self.p;
        let a = self.args(claim, json!({"off": off}));
        self.evs.push(ev("to_ndt", a, || json!({"r": out(p.to_naive_datetime_with_offset(off), ndt_json)})));
    }
    fn to_datetime(&mut self, claim: Option<W>) {
        let p = &self.p;
        let a = self.args(claim, json!({}));
        self.evs.push(ev("to_datetime", a, || json!({"r": out(p.to_datetime(), |x| dt_json(&x))})));
    }
    fn to_dtz(&mut self, claim: Option<W>, o: i32) {
        let p = &self.p;
        let a = self.args(claim, json!({"o": o}));
        let tz = FixedOffset::east_opt(o).expect("harness: tz offset");
        self.evs.push(ev("to_dtz", a, || json!({"r": out(p.to_datetime_with_timezone(&tz), |x| dt_json(&x))})));
    }
    fn flush(self, tw: &mut Tw) {
        if tw.room() < self.evs.len() { tw.roll(); }
        for e in self.evs { tw.emit(e); }
    }
}

// ------------------------------------------------------------------------------------------------ value lattice
const YEARS: [i32; 33] = [-262143, -262142, -10000, -9999, -401, -101, -100, -99, -1, 0, 1, 4, 99, 100, 101, 400, 1582, 1899, 1900, 1969, 1970, 1971,
    1999, 2000, 2001, 2024, 2068, 2069, 2070, 9999, 10000, 262141, 262142];

fn lattice_dates() -> Vec<NaiveDate> {
    let mut v = Vec::new();
    for &y in YEARS.iter() {
        for (m, d) in [(1, 1), (1, 2), (1, 3), (1, 4), (1, 5), (1, 6), (1, 7), (1, 8), (2, 28), (2, 29), (3, 1), (3, 31), (4, 1), (6, 30), (7, 1), (9, 30), (10, 1),
                       (12, 24), (12, 25), (12, 26), (12, 27), (12, 28), (12, 29), (12, 30), (12, 31)] {
            if let Some(x) = NaiveDate::from_ymd_opt(y, m, d) { v.push(x); }
        }
    }
    v
}
fn random_date(rng: &mut Rng, lat: &[NaiveDate]) -> NaiveDate {
    match rng.below(6) {
        0 | 1 => *rng.pick(lat),
        2 => NaiveDate::from_num_days_from_ce_opt(rng.range(super::c01::MIN_DAY, super::c01::MAX_DAY) as i32).unwrap(),
        3 => NaiveDate::from_yo_opt(rng.range(1960, 2080) as i32, rng.range(1, 365) as u32).unwrap(),
        4 => NaiveDate::from_yo_opt(*rng.pick(&YEARS), rng.range(1, 365) as u32).unwrap(),
        _ => NaiveDate::from_yo_opt(rng.range(-300, 10100) as i32, rng.range(1, 365) as u32).unwrap(),
    }
}
fn random_time(rng: &mut Rng) -> NaiveTime {
    let secs = match rng.below(8) { 0 => 0, 1 => 43199, 2 => 43200, 3 => 86399, 4 => 3600 * rng.range(0, 23) as u32 + 59 * 60 + 59, 5 => 60 * rng.range(0, 1439) as u32,
                                    _ => rng.range(0, 86399) as u32 };
    let nano = match rng.below(5) { 0 | 1 => 0, 2 => 1, 3 => 999_999_999, _ => rng.range(0, 999_999_999) as u32 };
    // a leap second: the second field reads 60
    let leap = secs % 60 == 59 && rng.chance(1, 3);
    NaiveTime::from_num_seconds_from_midnight_opt(secs, nano + if leap { 1_000_000_000 } else { 0 }).unwrap()
}
fn random_offset(rng: &mut Rng) -> i32 {
    match rng.below(8) { 0 | 1 | 2 => 0, 3 => *rng.pick(&[1, -1, 3600, -3600, 19800, 86399, -86399, 43200, -43200]), 4 => 60 * rng.range(-1439, 1439) as i32,
                         _ => rng.range(-86399, 86399) as i32 }
}
fn random_value(rng: &mut Rng, lat: &[NaiveDate]) -> W {
    W { dt: random_date(rng, lat).and_time(random_time(rng)), off: random_offset(rng) }
}

/// documented in-range interval of a setter's argument
fn range_of(setter: &str) -> (i64, i64) {
    match setter {
        "year" | "isoyear" | "offset" => (i32::MIN as i64, i32::MAX as i64),
        "year_div_100" | "isoyear_div_100" => (0, i32::MAX as i64),
        "year_mod_100" | "isoyear_mod_100" => (0, 99),
        "quarter" => (1, 4), "month" => (1, 12), "week_from_sun" | "week_from_mon" => (0, 53), "isoweek" => (1, 53), "weekday" => (0, 6),
        "ordinal" => (1, 366), "day" => (1, 31), "ampm" => (0, 1), "hour12" => (1, 12), "hour" => (0, 23), "minute" => (0, 59), "second" => (0, 60),
        "nanosecond" => (0, 999_999_999), "timestamp" => (i64::MIN, i64::MAX),
        other => panic!("harness: range of {}", other),
    }
}
/// a value just outside / far outside the range (None where the Rust type admits nothing else)
fn out_of_range(rng: &mut Rng, setter: &str) -> Option<i64> {
    if matches!(setter, "weekday" | "ampm" | "timestamp") { return None; }
    let (lo, hi) = range_of(setter);
    Some(*rng.pick(&[lo - 1, hi + 1, hi + 1, lo - 1, -1, i64::MIN, i64::MAX, hi + 100, 1 << 32, (1 << 32) + lo.max(1), -(1 << 32) + hi.min(5), u32::MAX as i64 + 1 + hi.min(7)])).filter(|x| *x < lo || *x > hi)
}
/// an in-range value different from v
fn contradicting(rng: &mut Rng, setter: &str, v: i64) -> Option<i64> {
    let (lo, hi) = range_of(setter);
    let (lo2, hi2) = match setter {   // keep years and timestamps near the value so that the contradiction is a near miss
        "year" | "isoyear" => (v.saturating_sub(120), v.saturating_add(120)), "year_div_100" | "isoyear_div_100" => (v.saturating_sub(2).max(0), v.saturating_add(2)),
        "timestamp" => (v.saturating_sub(90_000), v.saturating_add(90_000)), "offset" => (v.saturating_sub(4000), v.saturating_add(4000)), _ => (lo, hi) };
    for _ in 0..20 {
        let c = match rng.below(3) { 0 => v.saturating_add(1), 1 => v.saturating_sub(1), _ => rng.range(lo2.max(lo), hi2.min(hi)) };
        if c != v && c >= lo && c <= hi { return Some(c); }
    }
    None
}

const COMBOS: [&[&str]; 5] = [&["month", "day"], &["ordinal"], &["week_from_sun", "weekday"], &["week_from_mon", "weekday"], &["isoweek", "weekday"]];

/// chooses which fields of w are supplied
fn choose_fields(rng: &mut Rng, all: &[(&'static str, &'static str, i64)]) -> Vec<(&'static str, &'static str, i64)> {
    let has = |n: &str| all.iter().any(|f| f.0 == n);
    let mut want: Vec<&str> = Vec::new();
    // date part
    let mode = rng.below(10);
    if mode < 8 {
        let k = rng.below(5);
        let iso = k == 4;
        let (full, div, md) = if iso { ("isoyear", "isoyear_div_100", "isoyear_mod_100") } else { ("year", "year_div_100", "year_mod_100") };
        match rng.below(8) { 0 | 1 | 2 => want.push(full), 3 | 4 => { want.push(div); want.push(md); } 5 | 6 => want.push(md), _ => want.push(div) }
        want.extend(COMBOS[k].iter());
        if mode >= 5 && !want.is_empty() { let i = rng.below(want.len()); want.remove(i); }       // narrowly miss the combination
    }
    let p = *rng.pick(&[0u64, 0, 1, 3, 6, 9]);
    for f in FIELDS[..14].iter() { if rng.chance(p, 10) { want.push(f); } }
    // time part
    match rng.below(8) {
        0 => {}
        1 => want.extend(["hour_div_12", "hour_mod_12", "minute"]),
        2 | 3 => want.extend(["hour_div_12", "hour_mod_12", "minute", "second"]),
        4 => want.extend(["hour_div_12", "hour_mod_12", "minute", "second", "nanosecond"]),
        5 => want.extend(["hour_div_12", "hour_mod_12", "minute", "nanosecond"]),
        _ => for f in FIELDS[14..19].iter() { if rng.chance(1, 2) { want.push(f); } },
    }
    if rng.chance(1, 3) { want.push("timestamp"); }
    if rng.chance(1, 2) { want.push("offset"); }
    want.sort(); want.dedup();
    let mut v: Vec<_> = all.iter().filter(|f| want.contains(&f.0)).cloned().collect();
    let _ = has;
    // shuffle
    for i in (1..v.len()).rev() { let j = rng.below(i + 1); v.swap(i, j); }
    v
}

/// applies the chosen fields; both hour fields together sometimes go through set_hour
fn apply(e: &mut Episode, rng: &mut Rng, chosen: &[(&'static str, &'static str, i64)]) {
    let both_hours = chosen.iter().any(|f| f.0 == "hour_div_12") && chosen.iter().any(|f| f.0 == "hour_mod_12");
    let via_hour = both_hours && rng.chance(1, 2);
    let mut hour_done = false;
    for (name, setter, v) in chosen.iter() {
        if via_hour && (*name == "hour_div_12" || *name == "hour_mod_12") {
            if !hour_done {
                let d = chosen.iter().find(|f| f.0 == "hour_div_12").unwrap().2;
                let m = chosen.iter().find(|f| f.0 == "hour_mod_12").unwrap().2 % 12;
                e.set("hour", d * 12 + m);
                hour_done = true;
            }
        } else {
            e.set(setter, *v);
        }
    }
}

fn resolve_all(e: &mut Episode, rng: &mut Rng, claim: Option<W>, off: i32) {
    e.to_naive_date(claim);
    e.to_naive_time();
    // the offset handed to the resolution: the value's own, sometimes another one (then the timestamp no longer fits)
    let other = if rng.chance(1, 8) { random_offset(rng) } else { off };
    e.to_ndt(claim, other);
    e.to_datetime(claim);
    e.to_dtz(claim, other);
}

fn derived_episode(ep: i64, rng: &mut Rng, lat: &[NaiveDate]) -> Episode {
    let w = random_value(rng, lat);
    let all = w.fields(rng);
    let mut chosen = choose_fields(rng, &all);
    let mut e = Episode::new(ep);
    match rng.below(9) {
        // one field replaced by a contradicting in-range value
        0 | 1 => if !chosen.is_empty() {
            let i = rng.below(chosen.len());
            if let Some(c) = contradicting(rng, chosen[i].1, chosen[i].2) { chosen[i].2 = c; }
            apply(&mut e, rng, &chosen);
        },
        // one field replaced by an out-of-range value: the setter refuses it, the field stays unset
        2 => if !chosen.is_empty() {
            let i = rng.below(chosen.len());
            if let Some(c) = out_of_range(rng, chosen[i].1) { chosen[i].2 = c; }
            apply(&mut e, rng, &chosen);
        },
        // one field set twice: equal / unequal / out of range the second time
        3 | 4 => {
            apply(&mut e, rng, &chosen);
            if !chosen.is_empty() {
                let (_, setter, v) = chosen[rng.below(chosen.len())];
                let second = match rng.below(3) { 0 => Some(v), 1 => contradicting(rng, setter, v), _ => out_of_range(rng, setter) };
                if let Some(x) = second { e.set(setter, x); }
            }
        }
        // the hour through set_hour on top of what is there (also values outside 0..23), exercising the two-field setter
        5 => {
            apply(&mut e, rng, &chosen);
            let h = *rng.pick(&[0i64, 11, 12, 23, 24, -1, 25, u32::MAX as i64, u32::MAX as i64 + 1, w.dt.time().hour() as i64, (w.dt.time().hour() as i64 + 12) % 24, (w.dt.time().hour() as i64 + 1) % 24]);
            e.set("hour", h);
        }
        _ => apply(&mut e, rng, &chosen),
    }
    resolve_all(&mut e, rng, Some(w), w.off);
    e
}

/// timestamp cross-check: a full date and time with second 59 / 60 and a timestamp that is exact, one off either way, or two off
/// (a leap second may be off by one: the timestamp of the following second is accepted as well)
fn timestamp_episode(ep: i64, rng: &mut Rng, lat: &[NaiveDate]) -> Episode {
    let date = random_date(rng, lat);
    let secs = 60 * rng.range(0, 1439) as u32 + *rng.pick(&[59u32, 59, 58, 0]);
    let leap = secs % 60 == 59 && rng.chance(2, 3);
    let nano = *rng.pick(&[0u32, 1, 999_999_999]);
    let w = W { dt: date.and_time(NaiveTime::from_num_seconds_from_midnight_opt(secs, nano + if leap { 1_000_000_000 } else { 0 }).unwrap()), off: random_offset(rng) };
    let all = w.fields(rng);
    let mut want = vec!["hour_div_12", "hour_mod_12", "minute", "second", "timestamp"];
    match rng.below(3) { 0 => want.extend(["year", "month", "day"]), 1 => want.extend(["year", "ordinal"]), _ => {} }
    if rng.chance(1, 2) { want.push("nanosecond"); }
    if rng.chance(2, 3) { want.push("offset"); }
    // sometimes only the second next to the timestamp: the whole value is then rebuilt from timestamp + offset (and the leap-second rule)
    if rng.chance(1, 3) { want.retain(|f| !["hour_div_12", "hour_mod_12", "minute"].contains(f)); }
    let mut chosen: Vec<_> = all.iter().filter(|f| want.contains(&f.0)).cloned().collect();
    let delta = *rng.pick(&[0i64, 0, 1, 1, -1, 2]);
    for f in chosen.iter_mut() { if f.0 == "timestamp" { f.2 += delta; } }
    for i in (1..chosen.len()).rev() { let j = rng.below(i + 1); chosen.swap(i, j); }
    let mut e = Episode::new(ep);
    apply(&mut e, rng, &chosen);
    e.to_ndt(Some(w), w.off);
    e.to_datetime(Some(w));
    e.to_dtz(Some(w), w.off);
    e
}

fn independent_episode(ep: i64, rng: &mut Rng) -> Episode {
    let mut e = Episode::new(ep);
    let p = *rng.pick(&[2u64, 5, 8]);
    let mut setters: Vec<&str> = vec!["year", "year_div_100", "year_mod_100", "isoyear", "isoyear_div_100", "isoyear_mod_100", "quarter", "month", "week_from_sun",
        "week_from_mon", "isoweek", "weekday", "ordinal", "day", "ampm", "hour12", "hour", "minute", "second", "nanosecond", "timestamp", "offset"];
    for i in (1..setters.len()).rev() { let j = rng.below(i + 1); setters.swap(i, j); }
    let base_year = match rng.below(4) { 0 => rng.range(1950, 2090), 1 => rng.range(-500, 10500), 2 => *rng.pick(&YEARS) as i64, _ => rng.range(-262200, 262200) };
    for s in setters {
        if !rng.chance(p, 10) { continue; }
        let (lo, hi) = range_of(s);
        let v = match s {
            "year" | "isoyear" => if rng.chance(1, 12) { *rng.pick(&[i32::MIN as i64, i32::MAX as i64, 262143, -262144, 262144]) } else { base_year + rng.range(-1, 1) },
            "year_div_100" | "isoyear_div_100" => if rng.chance(1, 12) { *rng.pick(&[i32::MAX as i64, 21474836, 21474837, 2622, 2621, 0]) } else { (base_year.max(0) / 100 + rng.range(-1, 1)).max(0) },
            "year_mod_100" | "isoyear_mod_100" => if rng.chance(1, 2) { base_year.rem_euclid(100) } else { rng.range(0, 99) },
            "timestamp" => match rng.below(4) { 0 => rng.range(-3_000_000_000, 5_000_000_000), 1 => *rng.pick(&[i64::MIN, i64::MAX, 0, -1, -8334601228800, 8210266876799, 8210266876800, -8334601228801]),
                                                 _ => (base_year.clamp(-262000, 262000) - 1970) * 31_556_952 + rng.range(0, 31_000_000) },
            "offset" => match rng.below(4) { 0 => *rng.pick(&[86399i64, 86400, -86399, -86400, i32::MIN as i64, i32::MAX as i64]), _ => random_offset(rng) as i64 },
            "nanosecond" => { let r = rng.range(0, 999_999_999); *rng.pick(&[0, 1, 999_999_999, r]) }
            _ => rng.range(lo, hi),
        };
        let v = if rng.chance(1, 15) { out_of_range(rng, s).unwrap_or(v) } else { v };
        e.set(s, v);
        if rng.chance(1, 20) { e.set(s, if rng.chance(1, 2) { v } else { contradicting(rng, s, v).unwrap_or(v) }); }
    }
    let off = random_offset(rng);
    e.to_naive_date(None);
    e.to_naive_time();
    e.to_ndt(None, off);
    e.to_datetime(None);
    e.to_dtz(None, off);
    e
}

/// (c) every subset of the fields `FIELDS[lo..hi]` once, derived from a lattice value; `extra` fields are always supplied in addition
fn sweep(tw: &mut Tw, ep: &mut i64, rng: &mut Rng, values: &[W], lo: usize, hi: usize, extra: &[&str], resolvers: &str, one_in: u32, salt: usize) -> u64 {
    let nbits = hi - lo;
    let mut n = 0u64;
    for mask in 0u32..(1u32 << nbits) {
        // `one_in` > 1: a fixed pseudo-random sample of the subsets (multiplicative hash of the mask)
        if one_in > 1 && (mask.wrapping_mul(2654435761) >> 7) % one_in != 0 { continue; }
        let w = values[((mask as usize).wrapping_mul(2654435761usize) >> 5).wrapping_add(salt) % values.len()];
        let all = w.fields(rng);
        let mut sets: Vec<(&str, i64)> = Vec::new();
        for (name, setter, v) in all.iter() {
            let idx = FIELDS.iter().position(|f| f == name).unwrap();
            let chosen = (idx >= lo && idx < hi && (mask >> (idx - lo)) & 1 == 1) || extra.contains(name);
            if chosen { sets.push((setter, *v)); }
        }
        *ep += 1;
        let mut e = Episode::new(*ep);
        e.set_many(&sets);
        if resolvers.contains('d') { e.to_naive_date(Some(w)); }
        if resolvers.contains('t') { e.to_naive_time(); }
        if resolvers.contains('n') { e.to_ndt(Some(w), w.off); }
        if resolvers.contains('D') { e.to_datetime(Some(w)); }
        if resolvers.contains('z') { e.to_dtz(Some(w), w.off); }
        e.flush(tw);
        n += 1;
    }
    n
}

pub fn run(ctx: &Ctx) -> Value {
    let mut tw = Tw::new(&ctx.out, "Trace_Parsed", ctx.t(5_000, 40_000));
    let mut rng = Rng::new(ctx.seed ^ 0xC14);
    let lat = lattice_dates();
    let mut ep = 0i64;
    let n_derived = ctx.t(3_000, 40_000);
    let n_indep = ctx.t(1_200, 12_000);
    for _ in 0..n_derived { ep += 1; derived_episode(ep, &mut rng, &lat).flush(&mut tw); }
    for _ in 0..n_indep { ep += 1; independent_episode(ep, &mut rng).flush(&mut tw); }
    let n_ts = ctx.t(600, 12_000);
    for _ in 0..n_ts { ep += 1; timestamp_episode(ep, &mut rng, &lat).flush(&mut tw); }
    // pinned witnesses: the repaired defect #4 (leap second at the minimum timestamp) and the documented examples
    {
        ep += 1;
        let mut e = Episode::new(ep);
        e.set("timestamp", DateTime::<chrono::Utc>::MIN_UTC.timestamp());
        e.set("second", 60);
        e.to_ndt(None, 0);
        e.to_datetime(None);
        e.to_dtz(None, 0);
        e.flush(&mut tw);
    }
    // width aliases of the year groups: a century whose year exceeds the i32 range by a multiple of 2^32 (or 2^31) must not
    // wrap back onto a valid year (century and two-digit year are i32-ranged fields, their combination is not)
    for y in [1984i64, 2015, 0, 99, 9999, 262_142] { for add in [1i64 << 32, 1i64 << 31, 3i64 << 32] {
        let yy = y + add;
        if yy / 100 > i32::MAX as i64 { continue; }
        for iso in [false, true] { for form in 0..3 {
            ep += 1;
            let mut e = Episode::new(ep);
            if iso { e.set("isoyear_div_100", yy / 100); e.set("isoyear_mod_100", yy % 100); e.set("isoweek", 2); e.set("weekday", 3); }
            else {
                e.set("year_div_100", yy / 100); e.set("year_mod_100", yy % 100);
                match form { 0 => { e.set("month", 1); e.set("day", 1); } 1 => { e.set("ordinal", 100); } _ => { e.set("week_from_mon", 10); e.set("weekday", 2); } }
            }
            e.to_naive_date(None);
            e.set("hour", 1); e.set("minute", 2);
            e.to_ndt(None, 0);
            e.flush(&mut tw);
            if iso { break; }
        } }
    } }
    // negative calendar / ISO years: century and two-digit fields have no value there, so any supplied value - in particular the
    // euclidean or the absolute-value reading of such a year - contradicts the date (O1), whichever route resolves it
    for (y, m, d) in [(-5, 6, 15), (-1, 12, 31), (-100, 1, 1), (-99, 3, 1), (-262_143, 1, 1), (0, 1, 1), (0, 1, 2), (-1, 1, 1)] {
        let date = NaiveDate::from_ymd_opt(y, m, d).unwrap();
        let (iy, iw, wd) = (date.iso_week().year(), date.iso_week().week(), date.weekday().num_days_from_monday());
        for which in 0..6 { for conv in 0..2 {
            let (cy, ciy) = (y as i64, iy as i64);
            let both = |yy: i64| -> (i64, i64) { if conv == 0 { (yy.div_euclid(100), yy.rem_euclid(100)) } else { (yy.abs() / 100, yy.abs() % 100) } };
            ep += 1;
            let mut e = Episode::new(ep);
            // a sufficient combination first ...
            if which < 3 { e.set("year", cy); e.set("month", m as i64); e.set("day", d as i64); } else { e.set("isoyear", ciy); e.set("isoweek", iw as i64); e.set("weekday", wd as i64); }
            // ... then one field of the OTHER (or the same) year group in a wrong convention
            match which { 0 => e.set("isoyear_mod_100", both(ciy).1), 1 => e.set("isoyear_div_100", both(ciy).0.max(0)), 2 => e.set("year_mod_100", both(cy).1),
                          3 => e.set("year_mod_100", both(cy).1), 4 => e.set("year_div_100", both(cy).0.max(0)), _ => e.set("isoyear_mod_100", both(ciy).1) }
            e.to_naive_date(None);
            e.flush(&mut tw);
        } }
    }
    let mut swept = 0u64;
    let values: Vec<W> = {
        let mut v = Vec::new();
        for (y, m, d) in [(2015, 9, 18), (1984, 1, 1), (2069, 12, 31), (1970, 1, 1), (2010, 1, 3), (2008, 12, 29), (-1, 3, 1), (0, 2, 29), (9999, 12, 31), (10000, 1, 1),
                          (1875, 6, 15), (2070, 1, 1), (262142, 12, 31), (-262143, 1, 1), (1999, 12, 31), (2024, 2, 29), (2023, 1, 1), (2018, 12, 31)] {
            let date = NaiveDate::from_ymd_opt(y, m, d).unwrap();
            v.push(W { dt: date.and_time(random_time(&mut rng)), off: random_offset(&mut rng) });
        }
        v
    };
    let full21 = std::env::var("VERIF_C14_FULL").map(|v| v == "1").unwrap_or(false);
    let mut sampled21 = 0u64;
    if ctx.quick() {
        // all 2^14 date-field subsets once (to_naive_date)
        swept += sweep(&mut tw, &mut ep, &mut rng, &values, 0, 14, &[], "d", 1, 0);
        // all 2^7 subsets of the time, timestamp and offset fields on top of year-month-day (every resolution)
        swept += sweep(&mut tw, &mut ep, &mut rng, &values, 14, 21, &["year", "month", "day"], "tnDz", 1, 0);
    } else {
        // all 2^14 date-field subsets, six times with different values
        for salt in 0..6 { swept += sweep(&mut tw, &mut ep, &mut rng, &values, 0, 14, &[], "d", 1, salt * 3); }
        // all 2^7 subsets of the time, timestamp and offset fields on top of three date combinations, eight values each
        for salt in 0..8 {
            swept += sweep(&mut tw, &mut ep, &mut rng, &values, 14, 21, &["year", "month", "day"], "tnDz", 1, salt);
            swept += sweep(&mut tw, &mut ep, &mut rng, &values, 14, 21, &["isoyear_mod_100", "isoweek", "weekday"], "tnDz", 1, salt);
            swept += sweep(&mut tw, &mut ep, &mut rng, &values, 14, 21, &["year_div_100", "year_mod_100", "ordinal"], "tnDz", 1, salt);
        }
        // subsets of all 21 fields through the full zoned resolution: all 2^21 with VERIF_C14_FULL=1 (about 4.2 million events),
        // otherwise a fixed sample of one in sixteen
        sampled21 = sweep(&mut tw, &mut ep, &mut rng, &values, 0, 21, &[], "z", if full21 { 1 } else { 16 }, 1);
    }
    // resolution in a zone with a fold and a gap: chrono::Local under a POSIX rule, read by a fresh thread (a wall clock in the repeated hour,
    // the timestamp of either pass, the offset of either pass or a foreign one)
    std::env::set_var("TZ", "CET-1CEST,M3.5.0,M10.5.0/3");
    let zone_events = std::thread::spawn(move || {
        use chrono::Local;
        let mut out: Vec<Value> = Vec::new();
        let mut k = 0i64;
        for (y, mo, d, h, mi) in [(2021, 10, 31, 2, 30), (2021, 10, 31, 2, 0), (2021, 10, 31, 2, 59), (2021, 10, 31, 1, 30), (2021, 10, 31, 3, 0), (2021, 3, 28, 2, 30), (2021, 3, 28, 3, 30), (2021, 7, 1, 12, 0)] {
            let wall = NaiveDate::from_ymd_opt(y, mo, d).unwrap().and_hms_opt(h, mi, 7).unwrap();
            for off_ts in [3_600i64, 7_200] { for off_field in [3_600i64, 7_200, 0, 5_400] { for with_ts in [true, false] {
                let ts = wall.and_utc().timestamp() - off_ts;
                let mut p = Parsed::new();
                let _ = p.set_year(y as i64); let _ = p.set_month(mo as i64); let _ = p.set_day(d as i64); let _ = p.set_hour(h as i64); let _ = p.set_minute(mi as i64); let _ = p.set_second(7);
                let _ = p.set_offset(off_field);
                if with_ts { let _ = p.set_timestamp(ts); }
                k += 1;
                let ts_eff = if with_ts { ts } else { wall.and_utc().timestamp() - off_field };       // without the field nothing can contradict it
                out.push(ev("to_dtz_zone", json!({"ep": 9_000_000 + k, "w": {"n": dn(wall.date()), "secs": h * 3600 + mi * 60 + 7}, "ts": big(ts_eff as i128), "off": off_field, "with_ts": with_ts}), || json!({
                    "r": match p.to_datetime_with_timezone(&Local) { Ok(z) => json!({"ok": {"u": crate::proj::ndt(z.naive_utc()), "off": chrono::Offset::fix(z.offset()).local_minus_utc()}}), Err(e) => json!({"err": format!("{:?}", e.kind())}) }})));
            } } }
        }
        out
    }).join().unwrap_or_default();
    std::env::remove_var("TZ");
    for e in zone_events { tw.emit(e); }
    tw.finish();
    json!({"events": tw.total, "episodes": ep, "derived_episodes": n_derived, "independent_episodes": n_indep, "timestamp_episodes": n_ts, "subset_sweep_episodes": swept,
           "subsets_of_all_21_fields": sampled21, "all_2_21_subsets": full21 && !ctx.quick()})
}
