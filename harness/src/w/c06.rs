//! C06: durations are exact signed nanosecond counts within a closed range.
use super::Ctx;
use crate::big::{big, cps};
use crate::ev;
use crate::out::Tw;
use crate::proj::*;
use crate::rng::Rng;
use chrono::TimeDelta;
use serde_json::{json, Value};

fn od(o: Option<TimeDelta>) -> Value { opt(o, dur) }

pub fn lattice(rng: &mut Rng, extra: usize) -> Vec<TimeDelta> {
    let i64max = i64::MAX as i128;
    let mut ns: Vec<i128> = vec![0, 1, 999, 1000, 999_999, 1_000_000, 999_999_999, NS, NS + 1, 1_500_000_000, 2 * NS - 1, 60 * NS, 3600 * NS, 86_400 * NS, 604_800 * NS,
        i64max - 1, i64max, i64max + 1, i64max * 1000 - 1, i64max * 1000, i64max * 1000 + 1, DUR_LIM - NS, DUR_LIM - 1, DUR_LIM, DUR_LIM / 2, DUR_LIM / 2 + 1, DUR_LIM / 3,
        (i64::MAX as i128 / 1000) * NS, (i64::MAX as i128 / 1000) * NS + 806_999_999, (i64::MAX as i128 / 1000) * NS + 807_000_000, (1i128 << 32) * NS, (1i128 << 31) * NS - 1];
    // boundaries of every accessor's unit, with and without a sub-unit part (truncation toward zero vs floor)
    for u in [1_000i128, 1_000_000, NS, 60 * NS, 3600 * NS, 86_400 * NS, 604_800 * NS] {
        for k in [1i128, 2, 59, 60, 1000] { for d in [1i128, 500_000_000, NS - 1, u / 2] { ns.push(k * u + d); ns.push((k * u - d).abs()); } }
    }
    // every binary scale (an f64, i32, u32 or i64 intermediate changes behaviour at a power of two in the MIDDLE of the range): 2^k ns,
    // 2^k us, 2^k ms and 2^k s with their neighbours and the point half way to the next power
    for (unit, kmax) in [(1i128, 72u32), (1_000, 62), (1_000_000, 62), (NS, 53)] { for k in (7..=kmax).step_by(if extra >= 1000 { 1 } else { 3 }) {
        for x in [(1i128 << k) - 1, 1i128 << k, (1i128 << k) + 1, 3i128 << (k - 1)] { if x * unit <= DUR_LIM { ns.push(x * unit); ns.push(x * unit + unit / 2 + 1); } }
    } }
    for _ in 0..extra {
        ns.push(match rng.below(3) { 0 => (rng.next() as i128) % DUR_LIM, 1 => (rng.loguniform(62) as i128).abs(), _ => (rng.range(0, 4_000_000) as i128) * NS + rng.range(0, 999_999_999) as i128 });
    }
    let mut v = Vec::new();
    for n in ns { for s in [n, -n] { if let Some(d) = mk_dur(s) { v.push(d); } } }
    v.sort(); v.dedup();
    v
}

pub fn run(ctx: &Ctx) -> Value {
    let mut tw = Tw::new(&ctx.out, "Trace_Duration", ctx.t(2_500, 15_000));
    let mut rng = Rng::new(ctx.seed ^ 0x06);
    let lat = lattice(&mut rng, ctx.t(10, 200));
    tw.emit(ev("d.const", json!({}), || json!({"min": dur(TimeDelta::MIN), "max": dur(TimeDelta::MAX), "zero": dur(TimeDelta::zero())})));
    // new(secs, nanos)
    let max_s = i64::MAX / 1000;
    let secs_l: Vec<i64> = vec![0, 1, -1, max_s - 1, max_s, max_s + 1, -max_s - 2, -max_s - 1, -max_s, -max_s + 1, i64::MIN, i64::MIN + 1, i64::MAX - 1, i64::MAX, 86_400, -86_400];
    let nanos_l: Vec<u32> = vec![0, 1, 192_999_999, 193_000_000, 193_000_001, 806_999_999, 807_000_000, 807_000_001, 999_999_999, 1_000_000_000, 1_000_000_001, u32::MAX];
    for &s in &secs_l { for &n in &nanos_l {
        tw.emit(ev("d.new", json!({"secs": big(s as i128), "nanos": big(n as i128)}), || json!({"r": od(TimeDelta::new(s, n))})));
    }}
    for _ in 0..ctx.t(300, 20_000) {
        let s = if rng.chance(1, 2) { rng.range(-max_s - 3, max_s + 3) } else { rng.next() as i64 };
        let n = rng.range(0, 1_100_000_000) as u32;
        tw.emit(ev("d.new", json!({"secs": big(s as i128), "nanos": big(n as i128)}), || json!({"r": od(TimeDelta::new(s, n))})));
    }
    // unit constructors
    let units: [(&str, i128); 8] = [("weeks", 604_800 * NS), ("days", 86_400 * NS), ("hours", 3600 * NS), ("minutes", 60 * NS), ("seconds", NS), ("milliseconds", 1_000_000), ("microseconds", 1000), ("nanoseconds", 1)];
    for (name, u) in units {
        let lim = (DUR_LIM / u) as i64;
        let mut vals: Vec<i64> = vec![0, 1, -1, lim - 1, lim, lim.saturating_add(1), -lim, (-lim).saturating_sub(1), -lim + 1, i64::MIN, i64::MIN + 1, i64::MAX - 1, i64::MAX];
        for _ in 0..ctx.t(5, 300) { vals.push(rng.next() as i64); vals.push(rng.loguniform(63)); }
        // counts that end 1..9 units below (and above) a whole second, at every large scale up to the limit
        if u < NS { let per = (NS / u) as i64;
            for m in [1_000i64, 1_124_500_000, 1_999_999_999, 2_000_000_000, 2_050_000_000_000, 3_000_000_000_000_000, 4_294_967_296, 9_223_372_036, 9_223_372_036_854, 9_223_372_036_854_775] {
                for j in [1i64, 2, 3, 4, 5, 8, 9] { if let Some(b) = m.checked_mul(per) { vals.push(b - j); vals.push(-(b - j)); vals.push(b.saturating_add(j)); } } } }
        for v in vals {
            tw.emit(ev("d.unit", json!({"name": name, "v": big(v as i128), "unit": big(u)}), || json!({"r": match name {
                "weeks" => od(TimeDelta::try_weeks(v)), "days" => od(TimeDelta::try_days(v)), "hours" => od(TimeDelta::try_hours(v)),
                "minutes" => od(TimeDelta::try_minutes(v)), "seconds" => od(TimeDelta::try_seconds(v)), "milliseconds" => od(TimeDelta::try_milliseconds(v)),
                "microseconds" => dur(TimeDelta::microseconds(v)), _ => dur(TimeDelta::nanoseconds(v)) }})));
        }
    }
    // unary: accessors, neg, abs, text, std
    for &a in &lat {
        tw.emit(ev("d.acc", json!({"a": dur(a)}), || json!({
            "secs": big(a.num_seconds() as i128), "sub": big(a.subsec_nanos() as i128), "ms": big(a.num_milliseconds() as i128),
            "us": opt(a.num_microseconds(), |x| big(x as i128)), "nsx": opt(a.num_nanoseconds(), |x| big(x as i128)),
            "mins": big(a.num_minutes() as i128), "hours": big(a.num_hours() as i128), "days": big(a.num_days() as i128), "weeks": big(a.num_weeks() as i128),
            "subms": big(a.subsec_millis() as i128), "subus": big(a.subsec_micros() as i128)})));
        tw.emit(ev("d.neg", json!({"a": dur(a)}), || json!({"r": dur(-a), "abs": dur(a.abs()), "zero": a.is_zero()})));
        tw.emit(ev("d.show", json!({"a": dur(a)}), || json!({"text": cps(&a.to_string())})));
        // the same text under format flags: whatever a flag does, the number written stays the exact one (blanks of a width flag trimmed)
        tw.emit(ev("d.show", json!({"a": dur(a), "flags": ".0"}), || json!({"text": cps(format!("{:.0}", a).trim())})));
        tw.emit(ev("d.show", json!({"a": dur(a), "flags": ".3"}), || json!({"text": cps(format!("{:.3}", a).trim())})));
        tw.emit(ev("d.show", json!({"a": dur(a), "flags": ">40.12 / <3 / #"}), || json!({"text": cps(format!("{:>40.12}", a).trim()), "t2": cps(format!("{:<3}", a).trim()), "t3": cps(format!("{:#}", a).trim())})));
        tw.emit(ev("d.tostd", json!({"a": dur(a)}), || json!({"r": match a.to_std() { Ok(s) => json!({"secs": big(s.as_secs() as i128), "nanos": big(s.subsec_nanos() as i128)}), Err(_) => none() }})));
    }
    for (s, n) in [(0u64, 0u32), (1, 0), (0, 999_999_999), (max_s as u64, 806_999_999), (max_s as u64, 807_000_000), (max_s as u64, 807_000_001), (max_s as u64 + 1, 0), (u64::MAX, 999_999_999), (u64::MAX, 0), (1 << 63, 0), ((1 << 63) - 1, 5)] {
        let sd = std::time::Duration::new(s, n);
        tw.emit(ev("d.fromstd", json!({"secs": big(s as i128), "nanos": big(n as i128)}), || json!({"r": od(TimeDelta::from_std(sd).ok())})));
    }
    tw.emit(ev("d.fromstd", json!({"secs": big(u64::MAX as i128), "nanos": big(999_999_999)}), || json!({"r": od(TimeDelta::from_std(std::time::Duration::MAX).ok())})));
    // binary on lattice pairs
    let ks: Vec<i32> = vec![0, 1, -1, 2, -2, 3, -3, 7, -7, 1000, -1000, 86_400, i32::MIN, i32::MIN + 1, i32::MAX - 1, i32::MAX];
    let pairs = ctx.t(20_000, 300_000);
    for i in 0..pairs {
        let a = *rng.pick(&lat);
        let b = *rng.pick(&lat);
        match i % 6 {
            0 => tw.emit(ev("d.add", json!({"a": dur(a), "b": dur(b)}), || json!({"r": od(a.checked_add(&b))}))),
            1 => tw.emit(ev("d.sub", json!({"a": dur(a), "b": dur(b)}), || json!({"r": od(a.checked_sub(&b))}))),
            2 => { let k = if rng.chance(3, 4) { *rng.pick(&ks) } else { rng.next() as i32 };
                   tw.emit(ev("d.mul", json!({"a": dur(a), "k": big(k as i128)}), || json!({"r": od(a.checked_mul(k))}))); }
            3 => { let k = if rng.chance(3, 4) { *rng.pick(&ks) } else { rng.next() as i32 };
                   tw.emit(ev("d.div", json!({"a": dur(a), "k": big(k as i128)}), || json!({"r": od(a.checked_div(k))}))); }
            4 => tw.emit(ev("d.cmp", json!({"a": dur(a), "b": dur(b)}), || json!({"c": a.cmp(&b) as i8, "eq": a == b}))),
            _ => { // operator forms: equal to the checked form or the documented panic
                let k = *rng.pick(&ks);
                match i % 30 { 5 => tw.emit(ev("o.add", json!({"a": dur(a), "b": dur(b)}), || json!({"r": dur(a + b)}))),
                               11 => tw.emit(ev("o.sub", json!({"a": dur(a), "b": dur(b)}), || json!({"r": dur(a - b)}))),
                               17 => tw.emit(ev("o.mul", json!({"a": dur(a), "k": big(k as i128)}), || json!({"r": dur(a * k)}))),
                               23 => tw.emit(ev("o.div", json!({"a": dur(a), "k": big(k as i128)}), || json!({"r": dur(a / k)}))),
                               _ => tw.emit(ev("o.sum", json!({"a": dur(a), "b": dur(b)}), || json!({"r": dur([a, b].iter().sum::<TimeDelta>())}))) }
            }
        }
    }
    // other routes to the same operations must agree with the checked forms: compound assignment, Sum over values and over
    // references, operator Neg, PartialOrd, Default, the deprecated min_value/max_value aliases
    for i in 0..ctx.t(1_500, 60_000) {
        let a = *rng.pick(&lat);
        let b = *rng.pick(&lat);
        let k = *rng.pick(&ks);
        match i % 7 {
            0 => tw.emit(ev("o.add", json!({"a": dur(a), "b": dur(b), "via": "add_assign"}), || { let mut x = a; x += b; json!({"r": dur(x)}) })),
            1 => tw.emit(ev("o.sub", json!({"a": dur(a), "b": dur(b), "via": "sub_assign"}), || { let mut x = a; x -= b; json!({"r": dur(x)}) })),
            2 => tw.emit(ev("o.sum", json!({"a": dur(a), "b": dur(b), "via": "sum_values"}), || json!({"r": dur(vec![a, b].into_iter().sum::<TimeDelta>())}))),
            3 => tw.emit(ev("d.neg", json!({"a": dur(a), "via": "neg_op"}), || { #[allow(deprecated)] let _ = TimeDelta::min_value(); json!({"r": dur(core::ops::Neg::neg(a)), "abs": dur(a.abs()), "zero": a == TimeDelta::zero()}) })),
            4 => tw.emit(ev("d.cmp", json!({"a": dur(a), "b": dur(b), "via": "partial_cmp"}), || json!({"c": a.partial_cmp(&b).unwrap() as i8, "eq": !(a != b)}))),
            5 => tw.emit(ev("o.mul", json!({"a": dur(a), "k": big(k as i128), "via": "mul_op"}), || json!({"r": dur(a * k)}))),
            _ => tw.emit(ev("o.div", json!({"a": dur(a), "k": big(k as i128), "via": "div_op"}), || json!({"r": dur(a / k)}))),
        }
    }
    // pairs whose exact result lies within a second of either range end, through every route
    let lim_pairs: Vec<(i128, i128)> = { let mut v = Vec::new();
        for a in [DUR_LIM, DUR_LIM - 1, DUR_LIM - NS + 1, DUR_LIM - NS, DUR_LIM - 500_000_000] { for b in [0i128, 1, 2, NS - 1, NS, 500_000_000, 192_999_999, 193_000_000, 193_000_001] {
            v.push((a, b)); v.push((-a, -b)); v.push((b, a)); v.push((a, -b)); v.push((-a, b)); } }
        // whole-second operands around the range ends (the limits themselves are NOT whole seconds: +-9_223_372_036_854_775.807 s)
        let w = DUR_LIM / NS * NS;
        for a in [w, w - NS, w - 2 * NS] { for b in [0i128, NS, 2 * NS, 3 * NS, 1000 * NS] {
            v.push((a, b)); v.push((-a, -b)); v.push((b, a)); v.push((-b, -a)); v.push((a, -b)); v.push((-a, b)); } }
        v };
    for (an, bn) in lim_pairs {
        let (a, b) = (mk_dur(an).unwrap(), mk_dur(bn).unwrap());
        tw.emit(ev("d.add", json!({"a": dur(a), "b": dur(b)}), || json!({"r": od(a.checked_add(&b))})));
        tw.emit(ev("d.sub", json!({"a": dur(a), "b": dur(b)}), || json!({"r": od(a.checked_sub(&b))})));
        tw.emit(ev("o.add", json!({"a": dur(a), "b": dur(b), "via": "add"}), || json!({"r": dur(a + b)})));
        tw.emit(ev("o.sub", json!({"a": dur(a), "b": dur(b), "via": "sub"}), || json!({"r": dur(a - b)})));
        tw.emit(ev("o.add", json!({"a": dur(a), "b": dur(b), "via": "add_assign"}), || { let mut x = a; x += b; json!({"r": dur(x)}) }));
        tw.emit(ev("o.sub", json!({"a": dur(a), "b": dur(b), "via": "sub_assign"}), || { let mut x = a; x -= b; json!({"r": dur(x)}) }));
        tw.emit(ev("o.sum", json!({"a": dur(a), "b": dur(b), "via": "sum_refs"}), || json!({"r": dur([a, b].iter().sum::<TimeDelta>())})));
        tw.emit(ev("o.sum", json!({"a": dur(a), "b": dur(b), "via": "sum_values"}), || json!({"r": dur(vec![a, b].into_iter().sum::<TimeDelta>())})));
    }
    // products whose exact value lies within a few milliseconds of either range end (note: -(2^63) ms is NOT in the range, the range is
    // symmetric): for every multiplier of the lattice the multiplicands around +-LIM / k, and the exact factorisations of 2^63 ms
    let mut mul_pairs: Vec<(i128, i32)> = Vec::new();
    for &k in ks.iter().chain([4i32, -4, 5, 1 << 16, -(1 << 16), 1 << 30, -(1 << 30), 1_000_000, 999_999_937].iter()) {
        if k == 0 { continue; }
        for delta in [0i128, 1, -1, 999_999, 1_000_000, 1_000_001, -1_000_000, 2_000_000, NS] {
            let q = (DUR_LIM + delta) / (k as i128).abs();
            for a in [q - 1, q, q + 1] { mul_pairs.push((a, k)); mul_pairs.push((-a, k)); }
        }
    }
    for j in 0..=31u32 { let a = (1i128 << (63 - j)) * 1_000_000; if j > 0 { for s in [1i128, -1] { for k in [(1i64 << j) as i32, (-(1i64 << j)) as i32] {
        if (k as i128).abs() == 1i128 << j { mul_pairs.push((s * a, k)); mul_pairs.push((s * (a - 1), k)); mul_pairs.push((s * (a + 1), k)); } } } } }
    // products ~1000 times beyond the range, where seconds x multiplier itself comes within 2^31 of +-2^63 (an i64 intermediate)
    for &k in [65_537i32, -65_537, 86_400, 1 << 16, 1 << 30, i32::MAX, i32::MIN, 999_999_937, -1_000_000, 1_001].iter() {
        for d in [-1i128, 0, 1] { for f in [0i128, 999_999_999] { let a = ((i64::MAX as i128) / (k as i128).abs() + d) * NS + f; mul_pairs.push((a, k)); mul_pairs.push((-a, k)); } }
    }
    // products of the sub-second part alone that end 1 or 2 ns below a whole second at the top of its range (nanos x k up to 2.1e18)
    for nn in [999_999_999i128, 999_999_937, 500_000_001, 999_999_998, 123_456_789] {
        let mut found = 0;
        let mut k = i32::MAX as i128;
        while found < 3 && k > i32::MAX as i128 - 3_000_000 { let r = (nn * k) % NS; if r == NS - 1 || r == NS - 2 { mul_pairs.push((nn, k as i32)); mul_pairs.push((nn, -(k as i32))); mul_pairs.push((-nn, k as i32)); mul_pairs.push((5 * NS + nn, k as i32 / 4)); found += 1; } k -= 1; }
    }
    for k in [1_000_000_001i32, 2_000_000_001, 1_000_000_002, 2_000_000_002, 1_125_000_001, 1_124_999_999] { for s in [1i128, -1] { mul_pairs.push((s * 999_999_999, k)); mul_pairs.push((s * 999_999_999, -k)); } }
    for (an, k) in mul_pairs {
        let a = match mk_dur(an) { Some(a) => a, None => continue };
        tw.emit(ev("d.mul", json!({"a": dur(a), "k": big(k as i128)}), || json!({"r": od(a.checked_mul(k))})));
        tw.emit(ev("o.mul", json!({"a": dur(a), "k": big(k as i128), "via": "mul_op"}), || json!({"r": dur(a * k)})));
    }
    // sums of several durations, by reference and by value (the fold is left to right; a partial sum outside the range panics)
    for i in 0..ctx.t(400, 20_000) {
        let n = 3 + rng.below(4);
        let xs: Vec<TimeDelta> = (0..n).map(|_| match rng.below(4) { 0 => *rng.pick(&lat), 1 => mk_dur(rng.range(-3, 3) as i128 * NS + rng.range(600_000_000, 999_999_999) as i128).unwrap(),
            2 => mk_dur(-(rng.range(1, 999_999_999) as i128)).unwrap(), _ => mk_dur(rng.range(-5_000_000_000, 5_000_000_000) as i128).unwrap() }).collect();
        let a = json!({"xs": xs.iter().map(|x| dur(*x)).collect::<Vec<_>>(), "via": if i % 2 == 0 { "refs" } else { "values" }});
        if i % 2 == 0 { tw.emit(ev("o.sumn", a, || json!({"r": dur(xs.iter().sum::<TimeDelta>())}))); }
        else { let ys = xs.clone(); tw.emit(ev("o.sumn", a, || json!({"r": dur(ys.into_iter().sum::<TimeDelta>())}))); }
    }
    #[allow(deprecated)]
    tw.emit(ev("d.const", json!({"via": "deprecated aliases"}), || json!({"min": dur(TimeDelta::min_value()), "max": dur(TimeDelta::max_value()), "zero": dur(TimeDelta::default())})));
    // sessions: operator chains on a register; the trace spec checks the range invariant in every state
    let sessions = ctx.t(1_500, 30_000);
    for _ in 0..sessions {
        let mut acc = *rng.pick(&lat);
        if tw.room() < 12 { tw.roll(); }          // a session never spans two chunks (the register is per chunk)
        tw.emit(json!({"op": "s.set", "v": dur(acc)}));
        for _ in 0..rng.range(2, 10) {
            let b = *rng.pick(&lat);
            let k = if rng.chance(1, 2) { *rng.pick(&ks) } else { rng.range(-5, 5) as i32 };
            let (e, r): (Value, Option<TimeDelta>) = match rng.below(6) {
                0 => { let r = crate::guard(|| acc.checked_add(&b)); (ev("s.add", json!({"b": dur(b)}), || json!({"r": od(r.clone().unwrap())})), r.unwrap_or(None)) }
                1 => { let r = crate::guard(|| acc.checked_sub(&b)); (ev("s.sub", json!({"b": dur(b)}), || json!({"r": od(r.clone().unwrap())})), r.unwrap_or(None)) }
                2 => { let r = crate::guard(|| acc.checked_mul(k)); (ev("s.mul", json!({"k": big(k as i128)}), || json!({"r": od(r.clone().unwrap())})), r.unwrap_or(None)) }
                3 => { let r = crate::guard(|| acc.checked_div(k)); (ev("s.div", json!({"k": big(k as i128)}), || json!({"r": od(r.clone().unwrap())})), r.unwrap_or(None)) }
                4 => { let r = crate::guard(|| -acc); (ev("s.neg", json!({}), || json!({"r": dur(r.clone().unwrap())})), r.ok()) }
                _ => { let r = crate::guard(|| acc.abs()); (ev("s.abs", json!({}), || json!({"r": dur(r.clone().unwrap())})), r.ok()) }
            };
            tw.emit(e);
            if let Some(x) = r { acc = x; }
        }
    }
    tw.finish();
    json!({"events": tw.total, "lattice": lat.len(), "pair_events": pairs, "sessions": sessions})
}
