//! C05: local time follows the zone data - offsets, gaps and folds.
//!
//! Drives chrono's unix zone reader through the guarded hook (`chrono::offset::__verif_tz::Zone`) and
//! through the public route (`Local` with `TZ=...` on a fresh thread) and records one event per lookup.
//! Nothing here decides anything: the zone is decoded from the file's bytes by the specification
//! (`Tzif.Classify` / `PosixTz.Parse`), expected answers are computed by `TzModel` / `PosixTz`.
//! The Rust side only enumerates inputs, parses `Zone::describe()` (derived `Debug`) and supplies the
//! transition-index hints that the specification verifies.
use super::Ctx;
use crate::big::{big, bytes as jbytes, cps, unbig};
use crate::ev;
use crate::out::Tw;
use crate::rng::Rng;
use chrono::offset::__verif_tz::Zone;
use chrono::{DateTime, Datelike, Local, MappedLocalTime, NaiveDate, NaiveDateTime, Offset, TimeZone, Weekday};
use serde_json::{json, Value};
use std::collections::{BTreeSet, HashSet};

pub const EPOCH_DAY: i64 = 719_163;
pub const MIN_UTC: i64 = -8_334_601_228_800; // -262143-01-01T00:00:00
pub const MAX_UTC: i64 = 8_210_266_876_799; // +262142-12-31T23:59:59

// ------------------------------------------------------------------------------------------------
// the derived Debug output of chrono's private TimeZone, parsed into a tree
#[derive(Debug, Clone, PartialEq)]
pub enum D {
    Num(i128),
    Str(String),
    Bool(bool),
    List(Vec<D>),
    /// `Name`, `Name { f: v, .. }` or `Name(v, ..)`
    Node(String, Vec<(String, D)>),
}
struct P<'a> { s: &'a [u8], i: usize }
impl<'a> P<'a> {
    fn ws(&mut self) { while self.i < self.s.len() && (self.s[self.i] as char).is_whitespace() { self.i += 1; } }
    fn eat(&mut self, c: u8) -> Result<(), String> {
        self.ws();
        if self.i < self.s.len() && self.s[self.i] == c { self.i += 1; Ok(()) } else { Err(format!("expected '{}' at {}", c as char, self.i)) }
    }
    fn peek(&mut self) -> u8 { self.ws(); if self.i < self.s.len() { self.s[self.i] } else { 0 } }
    fn value(&mut self) -> Result<D, String> {
        let c = self.peek();
        if c == b'[' {
            self.i += 1;
            let mut v = Vec::new();
            loop {
                if self.peek() == b']' { self.i += 1; break; }
                v.push(self.value()?);
                if self.peek() == b',' { self.i += 1; }
            }
            return Ok(D::List(v));
        }
        if c == b'"' {
            self.i += 1;
            let mut out = String::new();
            while self.i < self.s.len() && self.s[self.i] != b'"' {
                if self.s[self.i] == b'\\' { self.i += 1; }
                out.push(self.s[self.i] as char);
                self.i += 1;
            }
            self.i += 1;
            return Ok(D::Str(out));
        }
        if c == b'-' || c.is_ascii_digit() {
            let st = self.i;
            self.i += 1;
            while self.i < self.s.len() && self.s[self.i].is_ascii_digit() { self.i += 1; }
            let t = std::str::from_utf8(&self.s[st..self.i]).unwrap();
            return t.parse::<i128>().map(D::Num).map_err(|e| e.to_string());
        }
        if c.is_ascii_alphabetic() || c == b'_' {
            let st = self.i;
            while self.i < self.s.len() && (self.s[self.i].is_ascii_alphanumeric() || self.s[self.i] == b'_') { self.i += 1; }
            let name = std::str::from_utf8(&self.s[st..self.i]).unwrap().to_string();
            if name == "true" { return Ok(D::Bool(true)); }
            if name == "false" { return Ok(D::Bool(false)); }
            let n = self.peek();
            if n == b'{' {
                self.i += 1;
                let mut f = Vec::new();
                loop {
                    if self.peek() == b'}' { self.i += 1; break; }
                    let st = self.i;
                    while self.i < self.s.len() && (self.s[self.i].is_ascii_alphanumeric() || self.s[self.i] == b'_') { self.i += 1; }
                    let k = std::str::from_utf8(&self.s[st..self.i]).unwrap().to_string();
                    self.eat(b':')?;
                    f.push((k, self.value()?));
                    if self.peek() == b',' { self.i += 1; }
                }
                return Ok(D::Node(name, f));
            }
            if n == b'(' {
                self.i += 1;
                let mut f = Vec::new();
                loop {
                    if self.peek() == b')' { self.i += 1; break; }
                    f.push((f.len().to_string(), self.value()?));
                    if self.peek() == b',' { self.i += 1; }
                }
                return Ok(D::Node(name, f));
            }
            return Ok(D::Node(name, vec![]));
        }
        Err(format!("unexpected byte {} at {}", c, self.i))
    }
}
pub fn parse_debug(s: &str) -> Result<D, String> {
    let mut p = P { s: s.as_bytes(), i: 0 };
    let v = p.value()?;
    p.ws();
    if p.i != s.len() { return Err("trailing text".into()); }
    Ok(v)
}
impl D {
    fn f(&self, k: &str) -> Result<&D, String> {
        match self { D::Node(_, f) => f.iter().find(|(n, _)| n == k).map(|(_, v)| v).ok_or(format!("no field {}", k)), _ => Err(format!("not a struct (want {})", k)) }
    }
    fn num(&self) -> Result<i128, String> { match self { D::Num(n) => Ok(*n), _ => Err("not a number".into()) } }
    fn list(&self) -> Result<&Vec<D>, String> { match self { D::List(v) => Ok(v), _ => Err("not a list".into()) } }
    fn name(&self) -> &str { match self { D::Node(n, _) => n, _ => "" } }
}

// ------------------------------------------------------------------------------------------------
// the zone structure in the vocabulary of the specification
#[derive(Debug, Clone, PartialEq)]
pub struct Ty { pub off: i32, pub dst: bool, pub abbr: Vec<u8> }
#[derive(Debug, Clone, PartialEq)]
pub enum Day { M(u8, u8, u8), J(u16), Z(u16) }
#[derive(Debug, Clone, PartialEq)]
pub enum Rule { None, Fixed(Ty), Alt { std: Ty, dst: Ty, start: Day, st: i32, end: Day, et: i32 } }
#[derive(Debug, Clone, PartialEq)]
pub struct Model { pub trans: Vec<(i64, usize)>, pub types: Vec<Ty>, pub leaps: usize, pub rule: Rule }

fn ty_of(d: &D) -> Result<Ty, String> {
    let name = d.f("name")?;
    let abbr = match name { D::Node(n, f) if n == "Some" => match &f[0].1 { D::Str(s) => s.as_bytes().to_vec(), _ => return Err("name".into()) }, _ => vec![] };
    Ok(Ty { off: d.f("ut_offset")?.num()? as i32, dst: matches!(d.f("is_dst")?, D::Bool(true)), abbr })
}
fn day_of(d: &D) -> Result<Day, String> {
    match d.name() {
        "Julian1WithoutLeap" => Ok(Day::J(d.f("0")?.num()? as u16)),
        "Julian0WithLeap" => Ok(Day::Z(d.f("0")?.num()? as u16)),
        "MonthWeekday" => Ok(Day::M(d.f("month")?.num()? as u8, d.f("week")?.num()? as u8, d.f("week_day")?.num()? as u8)),
        o => Err(format!("unknown rule day {}", o)),
    }
}
impl Model {
    pub fn from_describe(s: &str) -> Result<Model, String> {
        let d = parse_debug(s)?;
        let mut trans = Vec::new();
        for t in d.f("transitions")?.list()? {
            trans.push((t.f("unix_leap_time")?.num()? as i64, t.f("local_time_type_index")?.num()? as usize + 1));
        }
        let types = d.f("local_time_types")?.list()?.iter().map(ty_of).collect::<Result<Vec<_>, _>>()?;
        let leaps = d.f("leap_seconds")?.list()?.len();
        let er = d.f("extra_rule")?;
        let rule = if er.name() == "None" { Rule::None } else {
            let r = er.f("0")?;
            match r.name() {
                "Fixed" => Rule::Fixed(ty_of(r.f("0")?)?),
                "Alternate" => {
                    let a = r.f("0")?;
                    Rule::Alt { std: ty_of(a.f("std")?)?, dst: ty_of(a.f("dst")?)?, start: day_of(a.f("dst_start")?)?, st: a.f("dst_start_time")?.num()? as i32,
                                end: day_of(a.f("dst_end")?)?, et: a.f("dst_end_time")?.num()? as i32 }
                }
                o => return Err(format!("unknown rule {}", o)),
            }
        };
        Ok(Model { trans, types, leaps, rule })
    }
    pub fn to_json(&self) -> Value {
        json!({
            "trans": self.trans.iter().map(|(t, ty)| json!({"t": big(*t as i128), "ty": ty})).collect::<Vec<_>>(),
            "types": self.types.iter().map(ty_json).collect::<Vec<_>>(),
            "leaps": self.leaps,
            "rule": rule_json(&self.rule),
        })
    }
    pub fn from_json(v: &Value) -> Model {
        let ty = |t: &Value| Ty { off: t["off"].as_i64().unwrap() as i32, dst: t["dst"].as_bool().unwrap(), abbr: t["abbr"].as_array().unwrap().iter().map(|c| c.as_u64().unwrap() as u8).collect() };
        let day = |d: &Value| match d["k"].as_str().unwrap() {
            "M" => Day::M(d["m"].as_u64().unwrap() as u8, d["w"].as_u64().unwrap() as u8, d["d"].as_u64().unwrap() as u8),
            "J" => Day::J(d["n"].as_u64().unwrap() as u16),
            _ => Day::Z(d["n"].as_u64().unwrap() as u16),
        };
        let r = &v["rule"];
        let rule = match r["k"].as_str().unwrap() {
            "none" => Rule::None,
            "fixed" => Rule::Fixed(ty(&r["std"])),
            _ => Rule::Alt { std: ty(&r["std"]), dst: ty(&r["dst"]), start: day(&r["start"]), st: r["st"].as_i64().unwrap() as i32, end: day(&r["end"]), et: r["et"].as_i64().unwrap() as i32 },
        };
        Model {
            trans: v["trans"].as_array().unwrap().iter().map(|t| (unbig(&t["t"]) as i64, t["ty"].as_u64().unwrap() as usize)).collect(),
            types: v["types"].as_array().unwrap().iter().map(ty).collect(),
            leaps: v.get("leaps").and_then(|l| l.as_u64()).unwrap_or(0) as usize,
            rule,
        }
    }
    /// number of transitions at or before u (the hint the specification verifies)
    pub fn index(&self, u: i128) -> usize { self.trans.partition_point(|(t, _)| (*t as i128) <= u) }
    /// every offset some candidate could have: the types' and the rule's
    pub fn offsets(&self) -> Vec<i32> {
        let mut s: BTreeSet<i32> = self.types.iter().map(|t| t.off).collect();
        match &self.rule { Rule::Fixed(t) => { s.insert(t.off); } Rule::Alt { std, dst, .. } => { s.insert(std.off); s.insert(dst.off); } Rule::None => {} }
        s.into_iter().collect()
    }
    pub fn cand(&self, wall: i64) -> Value {
        Value::Array(self.offsets().iter().map(|&o| json!({"o": o, "i": self.index(wall as i128 - o as i128)})).collect())
    }
    pub fn off_before(&self, k: usize) -> i32 { if k == 0 { self.types[0].off } else { self.types[self.trans[k - 1].1 - 1].off } }
}
pub fn ty_json(t: &Ty) -> Value { json!({"off": t.off, "dst": t.dst, "abbr": jbytes(&t.abbr)}) }
fn day_json(d: &Day) -> Value {
    match d { Day::M(m, w, d) => json!({"k": "M", "m": m, "w": w, "d": d}), Day::J(n) => json!({"k": "J", "n": n}), Day::Z(n) => json!({"k": "Z", "n": n}) }
}
pub fn rule_json(r: &Rule) -> Value {
    match r {
        Rule::None => json!({"k": "none"}),
        Rule::Fixed(t) => json!({"k": "fixed", "std": ty_json(t)}),
        Rule::Alt { std, dst, start, st, end, et } => json!({"k": "alt", "std": ty_json(std), "dst": ty_json(dst), "start": day_json(start), "st": st, "end": day_json(end), "et": et}),
    }
}

// ------------------------------------------------------------------------------------------------
// projections
pub fn pair(secs: i64) -> Value { json!({"n": EPOCH_DAY + secs.div_euclid(86400), "secs": secs.rem_euclid(86400)}) }
/// the naive date-time whose seconds-since-epoch reading is `secs`, when chrono can represent it
pub fn naive(secs: i64) -> Option<NaiveDateTime> { DateTime::from_timestamp(secs, 0).map(|d| d.naive_utc()) }
pub fn res_err() -> Value { json!({"k": "err", "o1": 0, "o2": 0}) }
pub fn mapped(r: Result<MappedLocalTime<i32>, String>) -> Value {
    match r {
        Ok(MappedLocalTime::None) => json!({"k": "none", "o1": 0, "o2": 0}),
        Ok(MappedLocalTime::Single(o)) => json!({"k": "single", "o1": o, "o2": 0}),
        Ok(MappedLocalTime::Ambiguous(a, b)) => json!({"k": "amb", "o1": a, "o2": b}),
        Err(_) => res_err(),
    }
}
/// the abbreviation out of the Debug form of a local time type
pub fn abbr_of(dbg: &str) -> Vec<u8> { parse_debug(dbg).ok().and_then(|d| ty_of(&d).ok()).map(|t| t.abbr).unwrap_or_else(|| b"?unparsed".to_vec()) }
/// full local time type from the hook: offset, flag and the abbreviation out of the type's Debug form
pub fn type_at(z: &Zone, t: i64) -> Value {
    match z.type_at(t) {
        Ok((off, dst, dbg)) => {
            let abbr = abbr_of(&dbg);
            json!({"ok": {"off": off, "dst": dst, "abbr": jbytes(&abbr)}})
        }
        Err(e) => json!({"err": e.chars().filter(|c| c.is_ascii_alphanumeric() || *c == ' ').take(60).collect::<String>()}),
    }
}
pub fn mapped_local(r: MappedLocalTime<DateTime<Local>>) -> Value {
    let o = |d: &DateTime<Local>| d.offset().fix().local_minus_utc();
    match r {
        MappedLocalTime::None => json!({"k": "none", "o1": 0, "o2": 0, "u1": big(0), "u2": big(0)}),
        MappedLocalTime::Single(d) => json!({"k": "single", "o1": o(&d), "o2": 0, "u1": big(d.timestamp() as i128), "u2": big(0)}),
        MappedLocalTime::Ambiguous(a, b) => json!({"k": "amb", "o1": o(&a), "o2": o(&b), "u1": big(a.timestamp() as i128), "u2": big(b.timestamp() as i128)}),
    }
}

/// The date-level route of `Local` (deprecated `Date<Local>` API, still public): the offset(s) of the date's local midnight,
/// reported in the shape of a wall-clock lookup at that midnight.
#[allow(deprecated)]
pub fn mapped_date(midnight: i64, r: chrono::LocalResult<chrono::Date<Local>>) -> Value {
    let o = |d: &chrono::Date<Local>| d.offset().fix().local_minus_utc();
    match r {
        chrono::LocalResult::None => json!({"k": "none", "o1": 0, "o2": 0, "u1": big(0), "u2": big(0)}),
        chrono::LocalResult::Single(d) => json!({"k": "single", "o1": o(&d), "o2": 0, "u1": big((midnight - o(&d) as i64) as i128), "u2": big(0)}),
        chrono::LocalResult::Ambiguous(a, b) => json!({"k": "amb", "o1": o(&a), "o2": o(&b), "u1": big((midnight - o(&a) as i64) as i128), "u2": big((midnight - o(&b) as i64) as i128)}),
    }
}

// ------------------------------------------------------------------------------------------------
// query sets (input selection only)
#[derive(Default, Clone)]
pub struct Queries { pub instants: Vec<i64>, pub walls: Vec<i64>, pub trips: Vec<i64> }
fn push(v: &mut Vec<i64>, x: Option<i64>) { if let Some(x) = x { v.push(x); } }
/// For each transition T with offsets a -> b: instants T-1, T, T+1; wall times T+a+{-1,0,1}, T+b+{-1,0,1},
/// the middle of the skipped / repeated interval and the middle of the stretch to the next transition.
pub fn dense(m: &Model) -> Queries {
    let mut q = Queries::default();
    for (k, &(t, ty)) in m.trans.iter().enumerate() {
        let a = m.off_before(k) as i64;
        let b = m.types[ty - 1].off as i64;
        for d in [-1i64, 0, 1] {
            push(&mut q.instants, t.checked_add(d));
            push(&mut q.walls, t.checked_add(a).and_then(|x| x.checked_add(d)));
            push(&mut q.walls, t.checked_add(b).and_then(|x| x.checked_add(d)));
        }
        push(&mut q.trips, Some(t));
        push(&mut q.trips, t.checked_sub(1));
        push(&mut q.walls, t.checked_add((a + b).div_euclid(2)));
        if let Some(&(n, _)) = m.trans.get(k + 1) {
            let mid = ((t as i128 + n as i128) / 2) as i64;
            q.instants.push(mid);
            q.trips.push(mid);
            push(&mut q.walls, mid.checked_add(b));
        }
    }
    q
}
fn ymd_secs(y: i32, mo: u32, d: u32) -> i64 { NaiveDate::from_ymd_opt(y, mo, d).unwrap().and_hms_opt(12, 0, 0).unwrap().and_utc().timestamp() }
/// one instant per decade 1800..2500, one per `step` years to both range ends, and the range ends themselves
pub fn sparse(step: i32) -> Vec<i64> {
    let mut v = Vec::new();
    let mut y = 1800;
    while y <= 2500 { v.push(ymd_secs(y, 7, 1)); v.push(ymd_secs(y + 5, 1, 15)); y += 10; }
    let mut y = -262_000;
    while y <= 262_000 { v.push(ymd_secs(y, 3, 1) + 86_399 - 43_200); y += step; }
    v.extend([MIN_UTC, MIN_UTC + 1, MIN_UTC + 86_400, MAX_UTC - 86_400, MAX_UTC - 1, MAX_UTC, 0, -1, i32::MAX as i64, i32::MIN as i64]);
    v
}

// ------------------------------------------------------------------------------------------------
// system zoneinfo database
pub const ZONEINFO: &str = "/usr/share/zoneinfo";
pub struct SysFile { pub name: String, pub bytes: Vec<u8>, pub right: bool }
/// every TZif file under /usr/share/zoneinfo, identical contents reported once (first name in sorted order)
pub fn system_files(include_right: bool) -> Vec<SysFile> {
    fn walk(dir: &std::path::Path, out: &mut Vec<std::path::PathBuf>) {
        let mut es: Vec<_> = std::fs::read_dir(dir).map(|r| r.filter_map(|e| e.ok()).map(|e| e.path()).collect()).unwrap_or_default();
        es.sort();
        for p in es { if p.is_dir() { walk(&p, out); } else { out.push(p); } }
    }
    let mut paths = Vec::new();
    walk(std::path::Path::new(ZONEINFO), &mut paths);
    // plain names first so that a zone is reported under its usual name rather than posix/...
    paths.sort_by_key(|p| { let s = p.strip_prefix(ZONEINFO).unwrap().to_string_lossy().to_string(); (s.starts_with("right/"), s.starts_with("posix/"), s) });
    let mut seen = HashSet::new();
    let mut out = Vec::new();
    for p in paths {
        let name = p.strip_prefix(ZONEINFO).unwrap().to_string_lossy().to_string();
        let right = name.starts_with("right/");
        if right && !include_right { continue; }
        let Ok(bytes) = std::fs::read(&p) else { continue };
        if bytes.len() < 4 || &bytes[..4] != b"TZif" { continue; }
        if !name.is_ascii() || !seen.insert(bytes.clone()) { continue; }
        out.push(SysFile { name, bytes, right });
    }
    out
}

// ------------------------------------------------------------------------------------------------
// event emission for one transition-table zone
pub struct ZoneCtx<'a> { pub zone_event: Value, pub m: &'a Model, pub ov: Vec<(i128, i128)> }
fn emit(tw: &mut Tw, zc: &ZoneCtx, mut e: Value) {
    if tw.room() == 0 { tw.emit(zc.zone_event.clone()); } // a new chunk starts with the zone it is about
    // input classification (never read by the specification): the wall time lies in overlapping wall-clock images
    if let Some(l) = e.get("L") { let w = (l["n"].as_i64().unwrap() - EPOCH_DAY) as i128 * 86_400 + l["secs"].as_i64().unwrap() as i128; e["ov"] = json!(inside(&zc.ov, w)); }
    tw.emit(e);
}
pub fn zone_event(src: &str, name: &str, bytes: &[u8], z: &Result<Zone, String>) -> (Value, Option<Model>) {
    let mut model = None;
    let e = ev("zone", json!({"src": src, "name": name, "bytes": jbytes(bytes)}), || match z {
        Ok(z) => match Model::from_describe(&z.describe()) {
            Ok(m) => { let j = m.to_json(); model = Some(m); json!({"r": {"ok": j}}) }
            Err(e) => json!({"r": {"err": format!("describe not understood {}", e.chars().filter(|c| c.is_ascii_alphanumeric() || *c == ' ').take(40).collect::<String>())}}),
        },
        Err(_) => json!({"r": {"err": "rejected"}}),
    });
    (e, model)
}
fn hook_events(tw: &mut Tw, zc: &ZoneCtx, z: &Zone, q: &Queries) -> usize {
    let m = zc.m;
    let mut n = 0;
    for &t in &q.instants {
        emit(tw, zc, ev("at", json!({"t": big(t as i128), "i": m.index(t as i128)}), || json!({"r": type_at(z, t)})));
        n += 1;
    }
    for &w in &q.walls {
        let Some(nd) = naive(w) else { continue };
        emit(tw, zc, ev("local", json!({"L": pair(w), "cand": m.cand(w)}), || json!({"r": mapped(z.offsets_for_local(nd))})));
        n += 1;
    }
    for &t in &q.trips {
        // instant -> wall clock -> back
        let Ok(off) = z.offset_at(t) else { continue };
        let Some(w) = t.checked_add(off as i64) else { continue };
        let Some(nd) = naive(w) else { continue };
        emit(tw, zc, ev("rt", json!({"t": big(t as i128), "i": m.index(t as i128), "off": off, "L": pair(w), "cand": m.cand(w)}),
                        || json!({"r": mapped(z.offsets_for_local(nd))})));
        n += 1;
    }
    n
}
/// The same lookups through the public API: `Local` on a fresh thread (fresh per-thread zone cache) with TZ set.
pub fn public_events(tz_value: &str, m: &Model, q: &Queries) -> Vec<Value> {
    std::env::set_var("TZ", tz_value);
    let (m, q) = (m.clone(), q.clone());
    let h = std::thread::spawn(move || {
        let mut out = Vec::new();
        for &t in &q.instants {
            let Some(nd) = naive(t) else { continue };
            out.push(ev("pat", json!({"t": big(t as i128), "i": m.index(t as i128)}),
                        || json!({"r": {"ok": {"off": Local.offset_from_utc_datetime(&nd).fix().local_minus_utc()}}})));
        }
        for &w in &q.walls {
            let Some(nd) = naive(w) else { continue };
            out.push(ev("plocal", json!({"L": pair(w), "cand": m.cand(w)}), || json!({"r": mapped_local(Local.from_local_datetime(&nd))})));
            let mid = w - w.rem_euclid(86_400);
            // (a Date needs no representable instant, so the two routes differ legitimately on the first and last days of the range)
            if let Some(md) = naive(mid).filter(|_| mid.abs() < 8_000_000_000_000) { #[allow(deprecated)]
                out.push(ev("plocal", json!({"L": pair(mid), "cand": m.cand(mid), "via": "from_local_date"}), || json!({"r": mapped_date(mid, Local.from_local_date(&md.date()))}))); }
        }
        for &t in &q.trips {
            let Some(nd) = naive(t) else { continue };
            // Local.from_utc_datetime, read the wall clock, convert back
            let Ok(dt) = crate::guard(|| Local.from_utc_datetime(&nd)) else { continue };
            let off = dt.offset().fix().local_minus_utc();
            let Ok(wall) = crate::guard(|| dt.naive_local()) else { continue };
            let w = wall.and_utc().timestamp();
            out.push(ev("prt", json!({"t": big(t as i128), "i": m.index(t as i128), "off": off, "L": pair(w), "cand": m.cand(w)}),
                        || json!({"r": mapped_local(Local.from_local_datetime(&wall))})));
        }
        out
    });
    let r = h.join().expect("public-route thread");
    std::env::remove_var("TZ");
    r
}

// ------------------------------------------------------------------------------------------------
// POSIX rules: generation of strings of the two forms of C16, in every spelling the grammar allows
#[derive(Clone, Debug)]
pub struct GenRule { pub text: String, pub v3: bool }
/// (start, st, end, et, std offset, dst offset) of an alternating rule - taken from the structure chrono parsed, used for input selection only
pub type Alt = Option<(Day, i32, Day, i32, i32, i32)>;
pub fn alt_of(m: &Model) -> Alt {
    match &m.rule { Rule::Alt { std, dst, start, st, end, et } => Some((start.clone(), *st, end.clone(), *et, std.off, dst.off)), _ => None }
}
fn gen_name(rng: &mut Rng) -> String {
    let n = rng.range(3, 6) as usize;
    if rng.chance(1, 3) {
        let set = b"ABCDEFGHIJKLMNOPQRSTUVWXYZabcdefghijklmnopqrstuvwxyz0123456789+-";
        let s: String = (0..n).map(|_| set[rng.below(set.len())] as char).collect();
        format!("<{}>", s)
    } else {
        let set = b"ABCDEFGHIJKLMNOPQRSTUVWXYZabcdefghijklmnopqrstuvwxyz";
        (0..n).map(|_| set[rng.below(set.len())] as char).collect()
    }
}
/// hh[:mm[:ss]] of |v| seconds, optionally with a leading zero on the hour
fn hms(rng: &mut Rng, v: i64) -> String {
    let (h, m, s) = (v / 3600, (v / 60) % 60, v % 60);
    let hh = if h < 10 && rng.chance(1, 3) { format!("0{}", h) } else { format!("{}", h) };
    if s != 0 || rng.chance(1, 6) { format!("{}:{:02}:{:02}", hh, m, s) } else if m != 0 || rng.chance(1, 5) { format!("{}:{:02}", hh, m) } else { hh }
}
/// a TZ offset field for `west` seconds west of UTC
fn off_text(rng: &mut Rng, west: i64) -> String {
    let sign = if west < 0 { "-" } else if rng.chance(1, 4) { "+" } else { "" };
    format!("{}{}", sign, hms(rng, west.abs()))
}
fn gen_off(rng: &mut Rng) -> i64 {
    match rng.below(6) {
        0 => *rng.pick(&[0i64, 3600, -3600, 43200, -43200, 86400, -86400, 89999, -89999, 1, -1, 59, -60]),
        1 | 2 => rng.range(-14, 12) * 3600,
        3 => rng.range(-56, 48) * 900,
        _ => rng.range(-89_999, 89_999),
    }
}
fn gen_day(rng: &mut Rng, in_scope: bool) -> Day {
    match rng.below(4) {
        0 => { let n = if in_scope { rng.range(10, 355) } else { *rng.pick(&[1i64, 2, 364, 365, 59, 60]) }; Day::J(n as u16) }
        1 => { let n = if in_scope { rng.range(10, 354) } else { *rng.pick(&[0i64, 1, 364, 365, 58, 59, 60]) }; Day::Z(n as u16) }
        _ => { let m = if in_scope { rng.range(2, 11) } else { *rng.pick(&[1i64, 12]) }; Day::M(m as u8, rng.range(1, 5) as u8, rng.range(0, 6) as u8) }
    }
}
fn day_text(d: &Day) -> String { match d { Day::M(m, w, d) => format!("M{}.{}.{}", m, w, d), Day::J(n) => format!("J{}", n), Day::Z(n) => format!("{}", n) } }
fn gen_time(rng: &mut Rng, v3: bool) -> i32 {
    let v: i64 = if v3 && rng.chance(1, 2) {
        match rng.below(3) { 0 => *rng.pick(&[-1i64, -3600, 90_000, 604_799, -604_799, -86_400, 172_800]), 1 => rng.range(-167, 167) * 3600, _ => rng.range(-604_799, 604_799) }
    } else {
        match rng.below(4) { 0 => 7200, 1 => *rng.pick(&[0i64, 1, 3600, 10_800, 86_400, 89_999, 86_399]), 2 => rng.range(0, 24) * 3600, _ => rng.range(0, 89_999) }
    };
    v as i32
}
fn time_text(rng: &mut Rng, t: i32) -> String {
    if t == 7200 && rng.chance(2, 3) { return String::new(); }
    let sign = if t < 0 { "-" } else if t > 89_999 && rng.chance(1, 5) { "+" } else { "" };
    format!("/{}{}", sign, hms(rng, (t as i64).abs()))
}
/// A random rule string.  `in_scope`: both transitions more than a week inside the calendar year.
pub fn gen_rule(rng: &mut Rng, allow_v3: bool, in_scope: bool) -> GenRule {
    let std_west = gen_off(rng);
    let mut text = format!("{}{}", gen_name(rng), off_text(rng, std_west));
    if rng.chance(1, 8) { return GenRule { text, v3: allow_v3 && rng.chance(1, 2) }; }
    let v3 = allow_v3 && rng.chance(1, 2);
    text += &gen_name(rng);
    let dst_west = match rng.below(8) {
        0 | 1 | 2 => std_west - 3600,                       // the default, usually left out
        3 => std_west + 3600,                               // negative DST
        4 => std_west,                                      // flag-only change
        5 => std_west - *rng.pick(&[1i64, 1800, 7200, 86_400]),
        _ => gen_off(rng),
    }.clamp(-89_999, 89_999);
    if dst_west != std_west - 3600 || rng.chance(1, 4) { text += &off_text(rng, dst_west); }
    let (start, end) = loop {
        let (a, b) = (gen_day(rng, in_scope), gen_day(rng, in_scope));
        if a != b { break (a, b); }
    };
    let (st, et) = (gen_time(rng, v3), gen_time(rng, v3));
    text += &format!(",{}{},{}{}", day_text(&start), time_text(rng, st), day_text(&end), time_text(rng, et));
    GenRule { text, v3 }
}
/// calendar date of a rule day (input selection: where to put the dense queries)
fn day_date(d: &Day, y: i32) -> NaiveDate {
    match *d {
        Day::J(n) => { let o = n as u32 + if NaiveDate::from_ymd_opt(y, 12, 31).unwrap().ordinal() == 366 && n >= 60 { 1 } else { 0 }; NaiveDate::from_yo_opt(y, o).unwrap() }
        Day::Z(n) => NaiveDate::from_yo_opt(y, n as u32 + 1).unwrap_or_else(|| NaiveDate::from_ymd_opt(y, 12, 31).unwrap()),
        Day::M(m, w, d) => {
            let wd = [Weekday::Sun, Weekday::Mon, Weekday::Tue, Weekday::Wed, Weekday::Thu, Weekday::Fri, Weekday::Sat][d as usize];
            NaiveDate::from_weekday_of_month_opt(y, m as u32, wd, w).or_else(|| NaiveDate::from_weekday_of_month_opt(y, m as u32, wd, 4)).unwrap()
        }
    }
}
pub const RULE_YEARS: [i32; 18] = [-262_143, -1, 0, 1, 1600, 1900, 1969, 1970, 1971, 2000, 2037, 2038, 2039, 2100, 2400, 9999, 100_000, 262_142];
/// Wall-clock image of a transition at instant t from offset a to offset b: the readings t+a .. t+b (either order).
fn image(t: i128, a: i32, b: i32) -> (i128, i128) { (t + a.min(b) as i128, t + a.max(b) as i128) }
/// The images that overlap another image (LocalScanImpl's spacing assumption is violated there).
pub fn overlapping(images: &[(i128, i128)]) -> Vec<(i128, i128)> {
    let mut out = Vec::new();
    for (i, p) in images.iter().enumerate() {
        if images.iter().enumerate().any(|(j, q)| i != j && p.0 <= q.1 && q.0 <= p.1) { out.push(*p); }
    }
    out
}
pub fn inside(ivs: &[(i128, i128)], l: i128) -> bool { ivs.iter().any(|(lo, hi)| *lo <= l && l <= *hi) }
impl Model {
    /// wall-clock images of the table transitions that overlap one another
    pub fn overlapping_images(&self) -> Vec<(i128, i128)> {
        let imgs: Vec<(i128, i128)> = self.trans.iter().enumerate().map(|(k, &(t, ty))| image(t as i128, self.off_before(k), self.types[ty - 1].off)).collect();
        // only neighbours can overlap in practice; comparing all pairs keeps this exact
        overlapping(&imgs)
    }
}
fn rule_transitions(alt: &Alt, y: i32) -> Vec<(i64, i32, i32, NaiveDate)> {
    let Some((start, st, end, et, so, dofs)) = alt else { return vec![] };
    let mut v = Vec::new();
    for (day, t, before, after) in [(start, *st, *so, *dofs), (end, *et, *dofs, *so)] {
        let d = day_date(day, y);
        v.push((d.and_hms_opt(0, 0, 0).unwrap().and_utc().timestamp() + t as i64 - before as i64, before, after, d));
    }
    v
}
/// Input classification attached to rule lookups (derived from the rule and the queried time only, never read by the
/// specification): "sm" = both rule days in the same calendar month of that year, "sd" = on the same day, "rev" = the
/// order of the two dates differs from the order of the two instants, "ov" = the wall time lies in the wall-clock image
/// of a transition whose image overlaps the image of another transition (years y-1 .. y+1).
pub fn rule_tags(alt: &Alt, wall_secs: i64) -> (bool, bool, bool, bool) {
    if alt.is_none() { return (false, false, false, false); }
    let y = naive(wall_secs).map(|d| d.year()).unwrap_or(0).clamp(-262_142, 262_141);
    let tr = rule_transitions(alt, y);
    let (ds, de, ts, te) = (tr[0].3, tr[1].3, tr[0].0, tr[1].0);
    let mut imgs = Vec::new();
    for yy in [y - 1, y, y + 1] { for (t, a, b, _) in rule_transitions(alt, yy) { imgs.push(image(t as i128, a, b)); } }
    let ov = inside(&overlapping(&imgs), wall_secs as i128);
    (ds.month() == de.month(), ds == de, (ds < de) != (ts < te), ov)
}
fn tagged(alt: &Alt, wall_secs: i64, mut e: Value) -> Value {
    let (sm, sd, rev, ov) = rule_tags(alt, wall_secs);
    e["sm"] = json!(sm); e["sd"] = json!(sd); e["rev"] = json!(rev); e["ov"] = json!(ov);
    e
}
fn rule_queries(alt: &Alt, years: &[i32], rng: &mut Rng) -> Queries {
    let mut q = Queries::default();
    for &y in years {
        q.instants.push(ymd_secs(y, 1, 20)); q.instants.push(ymd_secs(y, 7, 2));
        q.walls.push(ymd_secs(y, 4, 9) + 1); q.walls.push(ymd_secs(y, 10, 30) - 1);
        let Some((start, st, end, et, so, dofs)) = alt else { continue };
        for (day, t, before, after) in [(start, *st, *so, *dofs), (end, *et, *dofs, *so)] {
            let Some(midnight) = day_date(day, y).and_hms_opt(0, 0, 0) else { continue };
            let tt = midnight.and_utc().timestamp() + t as i64 - before as i64; // the transition instant
            let (a, b) = (before as i64, after as i64);
            for d in [-1i64, 0, 1] { q.instants.push(tt + d); q.walls.push(tt + a + d); q.walls.push(tt + b + d); }
            q.walls.push(tt + (a + b).div_euclid(2));
            q.walls.push(tt + a.min(b) + rng.range(0, (a - b).abs().max(1)));
            q.trips.push(tt); q.trips.push(tt - 1); q.trips.push(tt + rng.range(-100_000, 100_000));
        }
    }
    q.instants.retain(|t| (MIN_UTC..=MAX_UTC).contains(t));
    q.trips.retain(|t| (MIN_UTC..=MAX_UTC).contains(t));
    q
}
fn rule_zone_event(g: &GenRule, via: &str, z: &Result<Zone, String>) -> Value {
    ev("zone", json!({"via": via, "chars": cps(&g.text), "v3": g.v3}), || match z {
        Ok(z) => match Model::from_describe(&z.describe()) { Ok(m) => json!({"r": {"ok": m.to_json()}}), Err(_) => json!({"r": {"err": "describe not understood"}}) },
        Err(_) => json!({"r": {"err": "rejected"}}),
    })
}
fn emit_r(tw: &mut Tw, zone_event: &Value, e: Value) {
    if tw.room() == 0 { tw.emit(zone_event.clone()); }
    tw.emit(e);
}
fn rule_hook_events(tw: &mut Tw, ze: &Value, alt: &Alt, z: &Zone, q: &Queries) {
    for &t in &q.instants { emit_r(tw, ze, ev("rat", json!({"u": pair(t)}), || json!({"r": type_at(z, t)}))); }
    for &w in &q.walls {
        let Some(nd) = naive(w) else { continue };
        emit_r(tw, ze, tagged(alt, w, ev("rlocal", json!({"L": pair(w)}), || json!({"r": mapped(z.offsets_for_local(nd))}))));
    }
    for &t in &q.trips {
        let Ok(off) = z.offset_at(t) else { continue };
        let Some(nd) = naive(t + off as i64) else { continue };
        emit_r(tw, ze, tagged(alt, t + off as i64, ev("rrt", json!({"u": pair(t), "off": off, "L": pair(t + off as i64)}), || json!({"r": mapped(z.offsets_for_local(nd))}))));
    }
}
fn rule_public_events(tz_value: &str, q: &Queries) -> Vec<Value> {
    std::env::set_var("TZ", tz_value);
    let q = q.clone();
    let h = std::thread::spawn(move || {
        let mut out = Vec::new();
        for &t in &q.instants {
            let Some(nd) = naive(t) else { continue };
            out.push(ev("prat", json!({"u": pair(t)}), || json!({"r": {"ok": {"off": Local.offset_from_utc_datetime(&nd).fix().local_minus_utc()}}})));
        }
        for &w in &q.walls {
            let Some(nd) = naive(w) else { continue };
            out.push(ev("prlocal", json!({"L": pair(w)}), || json!({"r": mapped_local(Local.from_local_datetime(&nd))})));
            let mid = w - w.rem_euclid(86_400);
            if let Some(md) = naive(mid).filter(|_| mid.abs() < 8_000_000_000_000) { #[allow(deprecated)]
                out.push(ev("prlocal", json!({"L": pair(mid), "via": "from_local_date"}), || json!({"r": mapped_date(mid, Local.from_local_date(&md.date()))}))); }
        }
        for &t in &q.trips {
            let Some(nd) = naive(t) else { continue };
            let Ok(dt) = crate::guard(|| Local.from_utc_datetime(&nd)) else { continue };
            let off = dt.offset().fix().local_minus_utc();
            let Ok(wall) = crate::guard(|| dt.naive_local()) else { continue };
            out.push(ev("prrt", json!({"u": pair(t), "off": off, "L": pair(wall.and_utc().timestamp())}), || json!({"r": mapped_local(Local.from_local_datetime(&wall))})));
        }
        out
    });
    let r = h.join().expect("public-route thread");
    std::env::remove_var("TZ");
    r
}

const QUICK_ZONES: [&str; 9] = ["Europe/London", "Europe/Dublin", "America/St_Johns", "America/Nuuk", "Australia/Lord_Howe", "Asia/Kathmandu",
    "Pacific/Apia", "Africa/Monrovia", "Etc/GMT+12"];
/// deterministic rules of every shape (northern, southern, negative DST, version-3 times, both days in one month, on one
/// day, date order reversed by the times, overlapping wall-clock images); the random rules follow
const WITNESS_RULES: [(&str, bool); 11] = [("EST5EDT,M3.2.0,M11.1.0", false), ("CET-1CEST,M3.5.0,M10.5.0/3", false), ("<-03>3<-02>,M3.5.0/-2,M10.5.0/-1", true),
    ("IST-1GMT0,M10.5.0,M3.5.0/1", false), ("AEST-10AEDT,M10.1.0,M4.1.0/3", false), ("<+1030>-10:30<+11>-11,M10.1.0,M4.1.0", false), ("EST5EDT,M3.2.0,M3.4.0", false),
    ("EST5EDT,J100/2,J100/12", false), ("EST5EDT,M3.2.0/150,M3.3.0/-100", true), ("FGNG-24:59:59<3Z-lQ4>8,M9.3.2/9:12:19,255", false), ("UTC0", false)];
const PUBLIC_ZONES: [&str; 3] = ["Australia/Lord_Howe", "Europe/Dublin", "Pacific/Apia"];

pub fn run(ctx: &Ctx) -> Value {
    let mut rng = Rng::new(ctx.seed);
    // ---- 1. system zoneinfo files (no leap-second files, identical contents once) -------------------------
    let mut tw = Tw::new(&ctx.out, "Trace_TzZone", ctx.t(1_000, 25_000));
    let files = system_files(false);
    let chosen: Vec<&SysFile> = if ctx.quick() {
        let mut v: Vec<&SysFile> = QUICK_ZONES.iter().filter_map(|n| files.iter().find(|f| f.name == *n).or_else(|| None)).collect();
        // zones listed above whose content is filed under another name are looked up by content
        for n in QUICK_ZONES { if !v.iter().any(|f| f.name == n) { if let Ok(b) = std::fs::read(format!("{}/{}", ZONEINFO, n)) { if let Some(f) = files.iter().find(|f| f.bytes == b) { if !v.iter().any(|g| g.name == f.name) { v.push(f); } } } } }
        while v.len() < 11 { let f = &files[rng.below(files.len())]; if !v.iter().any(|g| g.name == f.name) { v.push(f); } }
        v
    } else { files.iter().collect() };
    let sparse_instants = sparse(ctx.t(40_000, 2_000));
    let (mut zones, mut zone_events, mut pub_events, mut rejected_files) = (0usize, 0usize, 0usize, 0usize);
    let n_public = ctx.t(PUBLIC_ZONES.len(), 40);
    let public_contents: Vec<Vec<u8>> = PUBLIC_ZONES.iter().filter_map(|n| std::fs::read(format!("{}/{}", ZONEINFO, n)).ok()).collect();
    let mut public_done = 0;
    for (fi, f) in chosen.iter().enumerate() {
        let z = Zone::from_tzif(&f.bytes);
        let (ze, model) = zone_event("file", &f.name, &f.bytes, &z);
        tw.emit(ze.clone());
        zones += 1;
        let (Ok(z), Some(m)) = (z, model) else { rejected_files += 1; continue };
        let zc = ZoneCtx { zone_event: ze, ov: m.overlapping_images(), m: &m };
        let mut q = dense(&m);
        q.instants.extend(sparse_instants.iter());
        q.walls.extend(sparse_instants.iter());
        q.trips.extend(sparse_instants.iter().step_by(3));
        zone_events += hook_events(&mut tw, &zc, &z, &q);
        // public route for a sample: Local with TZ=:/abs/path on a fresh thread
        let want_public = public_contents.contains(&f.bytes) || (!ctx.quick() && fi % (chosen.len() / n_public).max(1) == 0);
        if want_public && public_done < n_public + PUBLIC_ZONES.len() {
            public_done += 1;
            let mut pq = dense(&m);
            let sp = sparse(50_000);
            pq.instants.extend(sp.iter()); pq.walls.extend(sp.iter()); pq.trips.extend(sp.iter().step_by(2));
            // every spelling of a zone file in TZ, in rotation: `:` + absolute path, absolute path, `:` + name, name (relative to the zoneinfo directory)
            let tzv = match public_done % 4 { 1 => format!(":{}/{}", ZONEINFO, f.name), 2 => format!("{}/{}", ZONEINFO, f.name), 3 => format!(":{}", f.name), _ => f.name.clone() };
            for e in public_events(&tzv, &m, &pq) { emit(&mut tw, &zc, e); pub_events += 1; }
        }
    }
    // ---- 1b. synthetic files: shapes no system file has (a DST type first, one or two transitions, all types DST) ---------
    let mut synthetic = 0usize;
    for (name, bytes) in super::c16::lookup_models() {
        let z = Zone::from_tzif(&bytes);
        let (ze, model) = zone_event("synthetic", &name, &bytes, &z);
        tw.emit(ze.clone());
        let (Ok(z), Some(m)) = (z, model) else { continue };
        synthetic += 1;
        let zc = ZoneCtx { zone_event: ze, ov: m.overlapping_images(), m: &m };
        let mut q = dense(&m);
        let sp = sparse(ctx.t(200_000, 20_000));
        q.instants.extend(sp.iter()); q.walls.extend(sp.iter()); q.trips.extend(sp.iter().step_by(3));
        zone_events += hook_events(&mut tw, &zc, &z, &q);
    }
    tw.finish();
    // ---- 2. POSIX rules through the rule reader alone and through TZ=<rule> --------------------------------
    let mut tr = Tw::new(&ctx.out, "Trace_TzRule", ctx.t(1_500, 30_000));
    let n_rules = ctx.t(100, 1_000);
    let (mut rules, mut rule_public, mut out_of_scope) = (0usize, 0usize, 0usize);
    // every cell of the day-of-year arithmetic: the zero-based `n` form and the `Jn` form a few days into each month,
    // looked up in a leap year and a common year (a wrong cumulative-days cell shifts a transition by a day)
    let mut witness_rules: Vec<(String, bool)> = WITNESS_RULES.iter().map(|(t, v)| (t.to_string(), *v)).collect();
    let cumul = [0, 31, 59, 90, 120, 151, 181, 212, 243, 273, 304, 334];
    for m in 0..12usize {
        witness_rules.push((format!("AAA3BBB,{}/2,J{}/2", cumul[m] + 4, cumul[(m + 6) % 12] + 9), false));
        witness_rules.push((format!("AAA3BBB,J{}/2,{}/2", cumul[m] + 27, cumul[(m + 5) % 12] + 24), false));
    }
    let n_cells_from = WITNESS_RULES.len();
    for i in 0..(witness_rules.len() + n_rules) {
        let witness = i < witness_rules.len();
        let in_scope = witness || i % 20 != 19;
        if !in_scope { out_of_scope += 1; }
        let g = if witness { GenRule { text: witness_rules[i].0.clone(), v3: witness_rules[i].1 } } else { gen_rule(&mut rng, true, in_scope) };
        let z = Zone::from_tz_rule(g.text.as_bytes(), g.v3);
        let ze = rule_zone_event(&g, "rule", &z);
        tr.emit(ze.clone());
        rules += 1;
        let Ok(z) = z else { continue };
        let Ok(m) = Model::from_describe(&z.describe()) else { continue };
        let alt = alt_of(&m);
        let years: Vec<i32> = if witness && i >= n_cells_from { vec![2000, 2037] } else if ctx.quick() { let extra = if witness { 2037 } else { RULE_YEARS[rng.below(18)] }; let mut v: Vec<i32> = RULE_YEARS.iter().copied().filter(|_| rng.chance(1, 3)).collect(); if !v.contains(&extra) { v.push(extra); } v } else { RULE_YEARS.to_vec() };
        let q = rule_queries(&alt, &years, &mut rng);
        rule_hook_events(&mut tr, &ze, &alt, &z, &q);
        // TZ=<rule>: the environment route never uses the version-3 extensions, prefers a file of that name, and the public
        // API cannot express offsets of 24 h or more
        let representable = m.offsets().into_iter().all(|o| o.abs() < 86_400);
        if !g.v3 && representable && (witness || i % ctx.t(6, 10) == 0) && !std::path::Path::new(ZONEINFO).join(&g.text).exists() && !g.text.starts_with('/') {
            let ze2 = rule_zone_event(&g, "env", &Zone::from_env_value(&g.text));
            tr.emit(ze2.clone());
            rule_public += 1;
            let few: Vec<i32> = years.iter().copied().step_by(3).collect();
            for e in rule_public_events(&g.text, &rule_queries(&alt, &few, &mut rng)) {
                let wall = e.get("L").map(|p| (p["n"].as_i64().unwrap() - EPOCH_DAY) * 86_400 + p["secs"].as_i64().unwrap());
                emit_r(&mut tr, &ze2, match wall { Some(w) => tagged(&alt, w, e), None => e });
            }
        }
    }
    tr.finish();
    json!({"zones": zones, "synthetic_zone_files": synthetic, "zone_files_available": files.len(), "zone_files_rejected_by_chrono": rejected_files, "hook_lookups": zone_events, "public_lookups": pub_events,
           "zones_through_public_route": public_done, "rules": rules, "rules_through_TZ_env": rule_public, "rules_deliberately_out_of_scope": out_of_scope,
           "events_zone_trace": tw.total, "events_rule_trace": tr.total})
}
