//! C20: serialized forms deserialize to the same value - serde_json (self-describing) and bincode 1.3
//! (positional) for every serializable type, and the sixteen timestamp helper modules.
use super::c09::{self, mk};
use super::Ctx;
use crate::big::{big, cps};
use crate::out::Tw;
use crate::proj::*;
use crate::rng::Rng;
use crate::{ev, guard};
use chrono::{DateTime, FixedOffset, Local, Month, NaiveDate, NaiveDateTime, NaiveTime, TimeDelta, Utc, Weekday};
use serde::de::DeserializeOwned;
use serde::{Deserialize, Serialize};
use serde_json::{json, Map, Value};

fn merge(a: Value, b: Value) -> Value {
    let mut m = Map::new();
    if let Value::Object(x) = a { m.extend(x); }
    if let Value::Object(x) = b { m.extend(x); }
    Value::Object(m)
}

/// `ser` (JSON text) + `serde` through both formats for one value of a string-form type (or a duration: no text event).
fn serde_events<T: Serialize + DeserializeOwned>(tw: &mut Tw, ty: &str, args: Value, v: &T, proj: &dyn Fn(&T) -> Value,
                                                 dev: &dyn Fn(&Option<T>) -> Option<&'static str>) -> usize {
    let args = merge(json!({"ty": ty}), args);
    let mut n = 0;
    if ty != "dur" {
        tw.emit(ev("ser", args.clone(), || match serde_json::to_string(v) { Ok(t) => json!({"json": cps(&t)}), Err(_) => json!({"json": cps("<error>")}) }));
        n += 1;
    }
    for fmt in ["json", "bin"] {
        let a = merge(args.clone(), json!({"fmt": fmt}));
        tw.emit(ev("serde", a, || {
            let b: Option<T> = if fmt == "json" {
                serde_json::to_string(v).ok().and_then(|t| serde_json::from_str::<T>(&t).ok())
            } else {
                bincode::serialize(v).ok().and_then(|t| bincode::deserialize::<T>(&t).ok())
            };
            let mut r = match &b { Some(x) => json!({"back": {"ok": proj(x)}}), None => json!({"back": {"err": 1}}) };
            if let Some(d) = dev(&b) { r["dev"] = json!(d); }
            r
        }));
        n += 1;
    }
    n
}
fn nodev<T>(_: &Option<T>) -> Option<&'static str> { None }

// ---- the sixteen timestamp helper modules behind one interface -------------------------------------------------
pub trait Wrap: Serialize + DeserializeOwned {
    fn wrap(v: NaiveDateTime) -> Self;
    fn none() -> Option<Self>;
    fn get(&self) -> Option<NaiveDateTime>;
}
macro_rules! wrapper {
    ($name:ident, utc, plain, $path:literal) => {
        #[derive(Serialize, Deserialize)] pub struct $name { #[serde(with = $path)] t: DateTime<Utc> }
        impl Wrap for $name { fn wrap(v: NaiveDateTime) -> Self { $name { t: v.and_utc() } } fn none() -> Option<Self> { None } fn get(&self) -> Option<NaiveDateTime> { Some(self.t.naive_utc()) } }
    };
    ($name:ident, utc, opt, $path:literal) => {
        #[derive(Serialize, Deserialize)] pub struct $name { #[serde(with = $path)] t: Option<DateTime<Utc>> }
        impl Wrap for $name { fn wrap(v: NaiveDateTime) -> Self { $name { t: Some(v.and_utc()) } } fn none() -> Option<Self> { Some($name { t: None }) } fn get(&self) -> Option<NaiveDateTime> { self.t.map(|x| x.naive_utc()) } }
    };
    ($name:ident, naive, plain, $path:literal) => {
        #[derive(Serialize, Deserialize)] pub struct $name { #[serde(with = $path)] t: NaiveDateTime }
        impl Wrap for $name { fn wrap(v: NaiveDateTime) -> Self { $name { t: v } } fn none() -> Option<Self> { None } fn get(&self) -> Option<NaiveDateTime> { Some(self.t) } }
    };
    ($name:ident, naive, opt, $path:literal) => {
        #[derive(Serialize, Deserialize)] pub struct $name { #[serde(with = $path)] t: Option<NaiveDateTime> }
        impl Wrap for $name { fn wrap(v: NaiveDateTime) -> Self { $name { t: Some(v) } } fn none() -> Option<Self> { Some($name { t: None }) } fn get(&self) -> Option<NaiveDateTime> { self.t } }
    };
}
wrapper!(US, utc, plain, "chrono::serde::ts_seconds");
wrapper!(UMs, utc, plain, "chrono::serde::ts_milliseconds");
wrapper!(UUs, utc, plain, "chrono::serde::ts_microseconds");
wrapper!(UNs, utc, plain, "chrono::serde::ts_nanoseconds");
wrapper!(USo, utc, opt, "chrono::serde::ts_seconds_option");
wrapper!(UMso, utc, opt, "chrono::serde::ts_milliseconds_option");
wrapper!(UUso, utc, opt, "chrono::serde::ts_microseconds_option");
wrapper!(UNso, utc, opt, "chrono::serde::ts_nanoseconds_option");
wrapper!(NS, naive, plain, "chrono::naive::serde::ts_seconds");
wrapper!(NMs, naive, plain, "chrono::naive::serde::ts_milliseconds");
wrapper!(NUs, naive, plain, "chrono::naive::serde::ts_microseconds");
wrapper!(NNs, naive, plain, "chrono::naive::serde::ts_nanoseconds");
wrapper!(NSo, naive, opt, "chrono::naive::serde::ts_seconds_option");
wrapper!(NMso, naive, opt, "chrono::naive::serde::ts_milliseconds_option");
wrapper!(NUso, naive, opt, "chrono::naive::serde::ts_microseconds_option");
wrapper!(NNso, naive, opt, "chrono::naive::serde::ts_nanoseconds_option");

fn got<W: Wrap>(w: Option<W>) -> Value {
    match w { Some(w) => match w.get() { Some(x) => json!({"ok": ndt(x)}), None => json!({"none": 1}) }, None => json!({"err": 1}) }
}

/// serialize an instant through module W, extract the integer, read it back through both formats
fn ts_event<W: Wrap>(unit: &str, opt: i64, naive: i64, v: NaiveDateTime) -> Value {
    ev("ts", json!({"unit": unit, "opt": opt, "naive": naive, "v": ndt(v)}), || {
        let w = W::wrap(v);
        match serde_json::to_value(&w) {
            Err(_) => json!({"ser": {"err": 1}, "json_back": {"skip": 1}, "bin_back": {"skip": 1}}),
            Ok(val) => {
                let ser = match (val["t"].as_i64(), val["t"].as_u64()) { (Some(x), _) => json!({"ok": big(x as i128)}), (None, Some(x)) => json!({"ok": big(x as i128)}),
                                                                          _ => json!({"other": 1}) };
                let jb = got(serde_json::to_string(&w).ok().and_then(|t| serde_json::from_str::<W>(&t).ok()));
                let bb = got(bincode::serialize(&w).ok().and_then(|t| bincode::deserialize::<W>(&t).ok()));
                json!({"ser": ser, "json_back": jb, "bin_back": bb})
            }
        }
    })
}
fn ts_none_event<W: Wrap>(unit: &str, naive: i64) -> Option<Value> {
    W::none().map(|w| ev("ts_none", json!({"unit": unit, "opt": 1, "naive": naive}), || {
        let ser = match serde_json::to_value(&w) { Ok(val) if val["t"].is_null() => json!({"none": 1}), Ok(_) => json!({"other": 1}), Err(_) => json!({"err": 1}) };
        let jb = got(serde_json::from_str::<W>("{\"t\":null}").ok());
        let bb = got(bincode::serialize(&w).ok().and_then(|t| bincode::deserialize::<W>(&t).ok()));
        json!({"ser": ser, "json_back": jb, "bin_back": bb})
    }))
}
/// feed the integer x to module W: as a JSON literal (negative -> signed, otherwise unsigned visitor) and, when it is an i64, positionally
fn ts_de_events<W: Wrap>(tw: &mut Tw, unit: &str, opt: i64, naive: i64, x: i128) -> usize {
    let args = json!({"unit": unit, "opt": opt, "naive": naive, "x": big(x)});
    tw.emit(ev("ts_de", merge(args.clone(), json!({"fmt": "json"})), || json!({"r": got(serde_json::from_str::<W>(&format!("{{\"t\":{}}}", x)).ok())})));
    if x >= i64::MIN as i128 && x <= i64::MAX as i128 {
        tw.emit(ev("ts_de", merge(args, json!({"fmt": "bin"})), || {
            let mut bytes = Vec::new();
            if opt == 1 { bytes.push(1u8); }
            bytes.extend_from_slice(&(x as i64).to_le_bytes());
            json!({"r": got(bincode::deserialize::<W>(&bytes).ok())})
        }));
        return 2;
    }
    1
}

struct Module { unit: &'static str, opt: i64, naive: i64,
                ts: fn(&str, i64, i64, NaiveDateTime) -> Value, none: fn(&str, i64) -> Option<Value>, de: fn(&mut Tw, &str, i64, i64, i128) -> usize }
macro_rules! module { ($w:ident, $unit:literal, $opt:literal, $naive:literal) => { Module { unit: $unit, opt: $opt, naive: $naive, ts: ts_event::<$w>, none: ts_none_event::<$w>, de: ts_de_events::<$w> } } }
fn modules() -> Vec<Module> {
    vec![module!(US, "s", 0, 0), module!(UMs, "ms", 0, 0), module!(UUs, "us", 0, 0), module!(UNs, "ns", 0, 0),
         module!(USo, "s", 1, 0), module!(UMso, "ms", 1, 0), module!(UUso, "us", 1, 0), module!(UNso, "ns", 1, 0),
         module!(NS, "s", 0, 1), module!(NMs, "ms", 0, 1), module!(NUs, "us", 0, 1), module!(NNs, "ns", 0, 1),
         module!(NSo, "s", 1, 1), module!(NMso, "ms", 1, 1), module!(NUso, "us", 1, 1), module!(NNso, "ns", 1, 1)]
}

const EPOCH_DAY: i128 = 719_163;
/// boundary lattice of integers for a module whose unit is 10^-k seconds (per = units per second)
fn integer_lattice(rng: &mut Rng, per: i128, random: usize) -> Vec<i128> {
    let min_s = (c09::MIN_DAY as i128 - EPOCH_DAY) * 86_400;                  // first representable second
    let max_s = (c09::MAX_DAY as i128 - EPOCH_DAY) * 86_400 + 86_399;         // last representable second (+ .999999999)
    let lo = min_s * per;
    let hi = max_s * per + (per - 1);
    let mut v: Vec<i128> = vec![0, 1, -1, 2, 999, 1000, 1001, -999, -1000, -1001, 999_999, 1_000_000, -1_000_000, 999_999_999, 1_000_000_000, -999_999_999, -1_000_000_000,
        86_399, 86_400, -86_400, -86_401, 1_526_522_699, 1_526_522_699_918, 1_526_522_699_918_355, 1_526_522_699_918_355_733, -1_526_522_699_918_355_733,
        i32::MAX as i128, i32::MIN as i128, u32::MAX as i128, u32::MAX as i128 + 1, i64::MAX as i128, i64::MAX as i128 - 1, i64::MIN as i128, i64::MIN as i128 + 1,
        i64::MAX as i128 + 1, i64::MAX as i128 + 2, u64::MAX as i128, u64::MAX as i128 - 1, 1i128 << 62, -(1i128 << 62), 1i128 << 53, (1i128 << 53) + 1];
    for b in [lo, hi] { for d in [-1000i128, -2, -1, 0, 1, 2, 1000] { v.push(b + d); } }
    for b in [lo / 1000, hi / 1000, lo * 1000, hi * 1000, lo / per, hi / per] { for d in [-1i128, 0, 1] { v.push(b + d); } }
    for _ in 0..random {
        v.push(match rng.below(4) { 0 => rng.loguniform(63) as i128, 1 => (rng.next() as i128) - (if rng.chance(1, 2) { 0 } else { 1i128 << 63 }),
                                    2 => lo + (rng.next() as i128 % 2_000_000) - 1_000_000, _ => hi + (rng.next() as i128 % 2_000_000) - 1_000_000 });
    }
    v.retain(|x| *x >= i64::MIN as i128 && *x <= u64::MAX as i128);
    v.sort();
    v.dedup();
    v
}

/// classification of the one known deviation: wall clock kept while the offset is rounded to the minute (or the rounded offset is +-24:00 and refused)
fn rounding_dev(dt: &DateTime<FixedOffset>, b: &Option<DateTime<FixedOffset>>) -> Option<&'static str> {
    let off = dt.offset().local_minus_utc();
    if off % 60 == 0 { return None; }
    let rounded = off.signum() * ((off.abs() + 30) / 60) * 60;
    match b {
        Some(x) => if x.offset().local_minus_utc() == rounded && guard(|| x.naive_local() == dt.naive_local()) == Ok(true) { Some("offset-rounding") } else { None },
        None => if rounded.abs() == 86_400 { Some("offset-rounding") } else { None },
    }
}

pub fn run(ctx: &Ctx) -> Value {
    let mut tw = Tw::new(&ctx.out, "Trace_Serde", ctx.t(2_000, 15_000));
    let mut rng = Rng::new(ctx.seed ^ 0xC20);
    let mut counts = Map::new();
    let mut add = |k: &str, n: usize| { let e = counts.entry(k.to_string()).or_insert(json!(0)); *e = json!(e.as_u64().unwrap() + n as u64); };
    // ---- string-form types
    let mut ds = c09::dates(&mut rng, ctx.t(150, 10_000));
    // digit-pair witnesses, and a sequence in which consecutive values share a component (one-entry memos inside a writer)
    ds.extend(pair_witnesses().iter().map(|x| x.date()));
    ds.extend(memo_sequence());
    for d in &ds { add("date", serde_events(&mut tw, "date", json!({"n": dn(*d)}), d, &|b: &NaiveDate| json!({"n": dn(*b)}), &nodev)); }
    let ts = c09::times(&mut rng, ctx.t(150, 10_000));
    for t in ts.iter().step_by(ctx.t(3, 1)) { add("time", serde_events(&mut tw, "time", json!({"t": tod(*t)}), t, &|b: &NaiveTime| tod(*b), &nodev)); }
    let ft = c09::few_times();
    let mut ndts: Vec<NaiveDateTime> = Vec::new();
    for d in ds.iter().take(c09::YEARS.len() * 10) { for t in &ft { ndts.push(d.and_time(*t)); } }
    for _ in 0..ctx.t(300, 10_000) { ndts.push(rng.pick(&ds).and_time(*rng.pick(&ts))); }
    if !ctx.quick() { ndts.extend(pair_witnesses()); } else { let w = pair_witnesses(); for (i, x) in w.iter().enumerate() { ndts.push(*x); ndts.push(w[(i + 50) % 100]); } }
    for (i, d) in memo_sequence().into_iter().enumerate() { ndts.push(d.and_time(ft[0])); ndts.push(d.and_time(ft[i % 2 * 5])); }
    for v in ndts.iter().step_by(ctx.t(2, 1)) {
        add("ndt", serde_events(&mut tw, "ndt", json!({"v": ndt(*v)}), v, &|b: &NaiveDateTime| ndt(*b), &nodev));
    }
    for v in ndts.iter().skip(1).step_by(ctx.t(2, 1)) {
        if let Ok(dt) = guard(|| v.and_utc()) {
            add("utc", serde_events(&mut tw, "utc", json!({"u": ndt(*v)}), &dt, &|b: &DateTime<Utc>| ndt(b.naive_utc()), &nodev));
        }
    }
    for v in ndts.iter().step_by(ctx.t(40, 10)) {
        if let Ok(dt) = guard(|| v.and_utc().with_timezone(&Local)) {
            let off = dt.offset().local_minus_utc();
            add("local", serde_events(&mut tw, "local", json!({"u": ndt(*v), "off": off}), &dt, &|b: &DateTime<Local>| json!({"u": ndt(b.naive_utc()), "off": b.offset().local_minus_utc()}), &nodev));
        }
    }
    // zone-aware at a fixed offset: range ends and year-width boundaries x offsets; few sub-minute offsets; random
    let emit_fixed = |tw: &mut Tw, u: &NaiveDateTime, off: i32| -> usize {
        match mk(|| FixedOffset::east_opt(off).map(|o| u.and_utc().with_timezone(&o))) {
            Some(dt) => {
                let dt2 = dt;
                serde_events(tw, "fixed", json!({"u": ndt(*u), "off": off, "headroom": c09::headroom(u, off), "submin": if off % 60 == 0 { 0 } else { 1 }}), &dt,
                             &|b: &DateTime<FixedOffset>| json!({"u": ndt(b.naive_utc()), "off": b.offset().local_minus_utc()}),
                             &move |b: &Option<DateTime<FixedOffset>>| rounding_dev(&dt2, b))
            }
            None => 0,
        }
    };
    let base: Vec<NaiveDateTime> = ndts.iter().take(c09::YEARS.len() * 100).filter(|v| { use chrono::Datelike; (v.date().month(), v.date().day()) == (1, 1) || (v.date().month(), v.date().day()) == (12, 31) })
        .cloned().collect();
    let offs = if ctx.quick() { c09::offset_lattice() } else { c09::all_minute_offsets() };
    let mut k = 0usize;
    for u in base.iter().step_by(ctx.t(3, 9)) {
        for &off in &offs { k += 1; if ctx.quick() && k % 2 == 0 { continue; } add("fixed", emit_fixed(&mut tw, u, off)); }
    }
    if !ctx.quick() { for u in &base { for &off in &c09::offset_lattice() { add("fixed", emit_fixed(&mut tw, u, off)); } } }
    for _ in 0..ctx.t(400, 30_000) { add("fixed", emit_fixed(&mut tw, rng.pick(&ndts), 60 * rng.range(-1439, 1439) as i32)); }
    for (i, &off) in c09::second_offsets().iter().enumerate() {                        // the known deviation: kept small
        // (not on a leap second: with a sub-minute offset it would sit on a wall-clock second other than :59, which no text form can show)
        let u = ndts.iter().cycle().skip(7 * i + 3).find(|v| { use chrono::Timelike; v.time().nanosecond() < 1_000_000_000 }).unwrap();
        if i % ctx.t(3, 1) == 0 { add("fixed_submin", emit_fixed(&mut tw, u, off)); }
    }
    // durations: the whole range of TimeDelta, as exact nanosecond counts
    let max_ns: i128 = i64::MAX as i128 * 1_000_000;                                    // (2^63 - 1) ms
    let mut durs: Vec<i128> = vec![0, 1, -1, 999, 1000, -1000, 999_999_999, 1_000_000_000, -999_999_999, -1_000_000_000, -1_000_000_001, 86_400_000_000_000,
                                   max_ns, -max_ns, max_ns - 1, -max_ns + 1, max_ns - 999_999, i64::MAX as i128, i64::MIN as i128, i64::MAX as i128 + 1];
    for _ in 0..ctx.t(300, 10_000) {
        let r = rng.loguniform(63) as i128;
        durs.push(if rng.chance(1, 3) { r * 1_000_000 + rng.range(-999_999, 999_999) as i128 } else { r });
    }
    for x in durs {
        if x.abs() > max_ns { continue; }
        let (s, n) = (x.div_euclid(1_000_000_000) as i64, x.rem_euclid(1_000_000_000) as u32);
        if let Some(d) = mk(|| TimeDelta::new(s, n)) {
            let proj = |b: &TimeDelta| json!({"d": big(b.num_seconds() as i128 * 1_000_000_000 + b.subsec_nanos() as i128)});
            add("dur", serde_events(&mut tw, "dur", json!({"d": big(x)}), &d, &proj, &nodev));
        }
    }
    // hand-made payloads for TimeDelta (a pair of whole seconds and nanoseconds) in both formats: a pair that is no duration - nanoseconds
    // outside 0..10^9, or a value beyond the range - must be refused by the reader of either format
    {
        let lim_s = i64::MAX / 1000;
        let mut n_de = 0usize;
        for s in [0i64, 1, -1, lim_s, lim_s + 1, -lim_s, -lim_s - 1, -lim_s - 2, i64::MAX, i64::MIN, 1 << 53] { for n in [0i64, 1, 806_999_999, 807_000_000, 807_000_001, 192_999_999, 193_000_000, 999_999_999, 1_000_000_000, -1, i32::MAX as i64] {
            let mut bytes = s.to_le_bytes().to_vec(); bytes.extend((n as i32).to_le_bytes());
            let js = format!("[{},{}]", s, n);
            let proj = |r: Option<TimeDelta>| match r { Some(b) => json!({"ok": {"d": big(b.num_seconds() as i128 * 1_000_000_000 + b.subsec_nanos() as i128)}}), None => json!({"err": 1}) };
            tw.emit(ev("dur_de", json!({"secs": big(s as i128), "nanos": big(n as i128)}), || json!({"bin": proj(bincode::deserialize::<TimeDelta>(&bytes).ok()), "json": proj(serde_json::from_str::<TimeDelta>(&js).ok())})));
            n_de += 1;
        } }
        add("dur_payloads", n_de);
    }
    for i in 0..7 { let w = wd_of(i); add("weekday", serde_events(&mut tw, "weekday", json!({"w": i}), &w, &|b: &Weekday| json!({"w": wd(*b)}), &nodev)); }
    for m in [Month::January, Month::February, Month::March, Month::April, Month::May, Month::June, Month::July, Month::August, Month::September, Month::October,
              Month::November, Month::December] {
        add("month", serde_events(&mut tw, "month", json!({"m": m.number_from_month()}), &m, &|b: &Month| json!({"m": b.number_from_month()}), &nodev));
    }
    // ---- timestamp helper modules
    let mods = modules();
    let step = ctx.t(5, 1);
    for (mi, m) in mods.iter().enumerate() {
        for v in ndts.iter().skip(mi % step).step_by(step) { tw.emit((m.ts)(m.unit, m.opt, m.naive, *v)); add("ts", 1); }
        // the i64-nanosecond window ends (1677-09-21T00:12:43.145224192 .. 2262-04-11T23:47:16.854775807) and the range ends
        for (y, mo, d, h, mi_, s, n) in [(1677, 9, 21, 0, 12, 43, 145_224_192u32), (1677, 9, 21, 0, 12, 43, 145_224_191), (2262, 4, 11, 23, 47, 16, 854_775_807),
                                         (2262, 4, 11, 23, 47, 16, 854_775_808), (1970, 1, 1, 0, 0, 0, 0), (1969, 12, 31, 23, 59, 59, 999_999_999), (1969, 12, 31, 23, 59, 59, 1),
                                         (2018, 5, 17, 2, 4, 59, 918_355_733), (-262143, 1, 1, 0, 0, 0, 0), (262142, 12, 31, 23, 59, 59, 999_999_999)] {
            if let Some(v) = mk(|| NaiveDate::from_ymd_opt(y, mo, d).and_then(|x| x.and_hms_nano_opt(h, mi_, s, n))) { tw.emit((m.ts)(m.unit, m.opt, m.naive, v)); add("ts", 1); }
        }
        // instants inside the window every unit can express (years 1678..2261), any sub-second value
        for _ in 0..ctx.t(60, 3000) {
            let (n, secs) = (rng.range(612_700, 825_800), rng.range(0, 86_399) as u32);
            let unit = 10u32.pow(rng.below(10) as u32);
            let f = (rng.range(0, 999_999_999) as u32 / unit) * unit;
            if let Some(v) = mk(|| NaiveDate::from_num_days_from_ce_opt(n as i32).and_then(|d| NaiveTime::from_num_seconds_from_midnight_opt(secs, f).map(|t| d.and_time(t)))) {
                tw.emit((m.ts)(m.unit, m.opt, m.naive, v)); add("ts", 1);
            }
        }
        if let Some(e) = (m.none)(m.unit, m.naive) { tw.emit(e); add("ts_none", 1); }
        let per: i128 = match m.unit { "s" => 1, "ms" => 1_000, "us" => 1_000_000, _ => 1_000_000_000 };
        for x in integer_lattice(&mut rng, per, ctx.t(40, 1500)) { add("ts_de", (m.de)(&mut tw, m.unit, m.opt, m.naive, x)); }
    }
    tw.finish();
    let mut out = Map::new();
    out.insert("events".into(), json!(tw.total));
    out.extend(counts);
    Value::Object(out)
}
