//! C17: rounding and truncation land on the right multiple.
use super::Ctx;
use crate::big::big;
use crate::ev;
use crate::out::Tw;
use crate::proj::*;
use crate::rng::Rng;
use crate::w::c01::{MAX_DAY, MIN_DAY};
use crate::w::c02::EPOCH_DAY;
use chrono::{DateTime, DurationRound, FixedOffset, NaiveDateTime, SubsecRound, TimeDelta, TimeZone, Timelike};
use serde_json::{json, Value};

fn wall_ns(x: NaiveDateTime, off: i32) -> i128 {
    ((dn(x.date()) as i128 - EPOCH_DAY) * 86_400 + x.time().num_seconds_from_midnight() as i128 + off as i128) * NS + x.time().nanosecond() as i128
}
fn from_ns(p: i128) -> Option<NaiveDateTime> {
    let s = p.div_euclid(NS); let f = p.rem_euclid(NS) as u32;
    let day = s.div_euclid(86_400) + EPOCH_DAY; let sod = s.rem_euclid(86_400) as u32;
    if day < MIN_DAY as i128 || day > MAX_DAY as i128 { None } else { Some(mk_ndt(day as i64, sod, f)) }
}

pub fn run(ctx: &Ctx) -> Value {
    let mut tw = Tw::new(&ctx.out, "Trace_Rounding", ctx.t(1_500, 10_000));
    let mut rng = Rng::new(ctx.seed ^ 0x17);
    let i64max = i64::MAX as i128;
    let spans: Vec<i128> = vec![5 * 3600 * NS, 7 * 3600 * NS, 9 * 3600 * NS, 10 * 3600 * NS, 11 * 3600 * NS, 13 * 3600 * NS, 23 * 3600 * NS, 7 * 60 * NS, 90 * NS, 2 * 86_400 * NS, 7 * 86_400 * NS,
        24_855 * 86_400 * NS, 24_856 * 86_400 * NS, 36_525 * 86_400 * NS, 49_711 * 86_400 * NS, 100_000 * 86_400 * NS,
        1, 2, 3, 7, 1000, 1_000_000, NS, 60 * NS, 3600 * NS, 86_400 * NS, 7 * 86_400 * NS + 1, 365 * 86_400 * NS, i64max - 1, i64max, i64max + 1, 2 * i64max, DUR_LIM, 0, -1, -NS, -DUR_LIM];
    let offs = [0, 3600, -3600, 19_800, 86_399, -86_399];
    let mut n_round = 0;
    let mut stamps: Vec<i128> = vec![0, 1, -1, NS, -NS, 1_500_000_000, -1_500_000_000, 1_499_999_999, -1_499_999_999, 43_200 * NS, -43_200 * NS, 43_200 * NS - 1,
        i64max, i64max - 1, i64max + 1, -i64max - 1, -i64max, -i64max - 2, i64max / 2, -(i64max / 2), 1_700_000_000 * NS + 123_456_789];
    for &s in &spans { if s > 0 { for k in [-3i128, -1, 0, 1, 2] { for d in [-1i128, 0, 1] { let h = s / 2; stamps.push(k * s + d); stamps.push(k * s + h + d); } } } }
    for _ in 0..ctx.t(500, 30_000) { stamps.push(match rng.below(3) { 0 => rng.next() as i64 as i128, 1 => rng.loguniform(62) as i128, _ => (rng.next() as i128 % (4 * i64max)) - 2 * i64max }); }
    stamps.push(crate::w::c02::min_ns()); stamps.push(crate::w::c02::max_ns());
    for (i, &st) in stamps.iter().enumerate() {
        let x = match from_ns(st) { Some(x) => x, None => continue };
        let sp_sel: Vec<i128> = if ctx.quick() { (0..5).map(|_| *rng.pick(&spans)).collect() } else { spans.clone() };
        for &sp in &sp_sel {
            let span = match mk_dur(sp) { Some(s) => s, None => continue };
            let off = if i % 3 == 0 { *rng.pick(&offs) } else { 0 };
            for mode in ["trunc", "round", "up"] {
                let fo = FixedOffset::east_opt(off).unwrap();
                // the stored instant is x - off so that the wall clock reads x
                let z: Option<DateTime<FixedOffset>> = fo.from_local_datetime(&x).single();
                let z = match z { Some(z) => z, None => continue };
                let run = |z: DateTime<FixedOffset>| match mode { "trunc" => z.duration_trunc(span), "round" => z.duration_round(span), _ => z.duration_round_up(span) };
                let naive = off == 0 && i % 2 == 0;
                tw.emit(ev("round", json!({"mode": mode, "u": ndt(z.naive_utc()), "off": off, "span": big(sp), "naive": naive}), || {
                    let r: Result<NaiveDateTime, String> = if naive {
                        (match mode { "trunc" => x.duration_trunc(span), "round" => x.duration_round(span), _ => x.duration_round_up(span) }).map_err(|e| format!("{:?}", e))
                    } else { run(z).map(|q| q.naive_utc()).map_err(|e| format!("{:?}", e)) };
                    match r { Ok(q) => { let m = wall_ns(q, off); let k = if sp > 0 { m.div_euclid(sp) } else { 0 }; json!({"k": big(k), "r": {"ok": ndt(q)}}) }
                              Err(e) => json!({"k": big(0), "r": {"err": e}}) } }));
                n_round += 1;
                if n_round % 4 == 0 { if let Ok(Ok(q)) = crate::guard(|| run(z)) { tw.emit(ev("idem", json!({"mode": mode, "u": ndt(z.naive_utc()), "off": off, "span": big(sp), "q": ndt(q.naive_utc())}), || { let again = run(q);
                    json!({"same": again == Ok(q), "again": match again { Ok(a) => json!({"ok": ndt(a.naive_utc())}), Err(e) => json!({"err": format!("{:?}", e)}) }}) })); } }
            }
        }
    }
    // every span of the lattice at instants decades away from its multiples (long whole-day spans count tens of thousands of days) and at odd
    // hours of the day (spans of a whole number of hours that does not divide 24 do not restart at midnight)
    for (y, mo, d, h) in [(2040i32, 1u32, 1u32, 0u32), (2100, 6, 1, 10), (1890, 3, 3, 17), (2020, 1, 1, 10), (1969, 12, 31, 23), (2262, 4, 11, 0)] {
        let x = mk_ndt(days_from_civil(y, mo, d), h * 3600 + 754, 250_000_000);
        for &sp in &spans { let span = match mk_dur(sp) { Some(s) => s, None => continue }; for mode in ["trunc", "round", "up"] {
            if ctx.quick() && sp < 3600 * NS && mode != "trunc" { continue; }
            tw.emit(ev("round", json!({"mode": mode, "u": ndt(x), "off": 0, "span": big(sp), "naive": true}), || {
                match (match mode { "trunc" => x.duration_trunc(span), "round" => x.duration_round(span), _ => x.duration_round_up(span) }) {
                    Ok(q) => { let m = wall_ns(q, 0); let k = if sp > 0 { m.div_euclid(sp) } else { 0 }; json!({"k": big(k), "r": {"ok": ndt(q)}}) }
                    Err(e) => json!({"k": big(0), "r": {"err": format!("{:?}", e)}}) } }));
            n_round += 1;
        } }
    }
    // inside a leap second, under east / west / no offset, naive and zone-aware: the stamp is that of the wall clock, fraction running on
    for frac in [1_000_000_000u32, 1_300_000_000, 1_999_999_999] { for off in [0, 19_800, -3_600, 34_230] { for sp in [NS, 10 * NS, 60 * NS, 3600 * NS, 86_400 * NS, 7, 500_000_000] { for mode in ["trunc", "round", "up"] {
        use chrono::TimeZone;
        let u = mk_ndt(days_from_civil(2016, 12, 31), 86_399, frac);
        let z = FixedOffset::east_opt(off).unwrap().from_utc_datetime(&u);
        let span = mk_dur(sp).unwrap();
        tw.emit(ev("round", json!({"mode": mode, "u": ndt(u), "off": off, "span": big(sp), "naive": false}), || {
            match (match mode { "trunc" => z.duration_trunc(span), "round" => z.duration_round(span), _ => z.duration_round_up(span) }) {
                Ok(q) => { let m = wall_ns(q.naive_utc(), off); let k = m.div_euclid(sp);
                    // classification of the deviation for the known finding C17-leap-second-rounded-up (never read by the specification): the result is
                    // exactly one second before the multiple that lies above the input
                    let stamp = wall_ns(u, off); let rem = stamp.rem_euclid(sp);
                    let above = if rem == 0 { stamp } else { stamp - rem + sp };
                    let dev = if mode != "trunc" && m == above - NS { "leap-up-one-second-short" } else { "" };
                    json!({"k": big(k), "r": {"ok": ndt(q.naive_utc())}, "dev": dev}) }
                Err(e) => json!({"k": big(0), "r": {"err": format!("{:?}", e)}}) } }));
        n_round += 1;
    } } } }
    // zone-aware values whose wall clock lies in the one-day headroom beyond the date range: far outside the 64-bit window, a refusal
    for (u, offsets) in [(chrono::NaiveDateTime::MAX, [1, 3600, 86_399]), (chrono::NaiveDateTime::MIN, [-1, -3600, -86_399])] {
        for off in offsets { for sp in [1i128, NS, 3600 * NS, 86_400 * NS, 0, DUR_LIM] { for mode in ["trunc", "round", "up"] {
            use chrono::TimeZone;
            let z = FixedOffset::east_opt(off).unwrap().from_utc_datetime(&u);
            let span = mk_dur(sp).unwrap();
            tw.emit(ev("round", json!({"mode": mode, "u": ndt(u), "off": off, "span": big(sp), "naive": false}), || {
                match (match mode { "trunc" => z.duration_trunc(span), "round" => z.duration_round(span), _ => z.duration_round_up(span) }) {
                    Ok(q) => json!({"k": big(0), "r": {"ok": ndt(q.naive_utc())}}), Err(e) => json!({"k": big(0), "r": {"err": format!("{:?}", e)}}) } }));
            n_round += 1;
        } } }
    }
    // sub-second rounding
    let mut n_sub = 0;
    let mut dts: Vec<NaiveDateTime> = Vec::new();
    for n in [MIN_DAY, 0, 719_163, 736_694, MAX_DAY] { for s in [0u32, 59, 86_399] { for f in [0u32, 1, 4, 5, 499_999_999, 500_000_000, 949_999_999, 950_000_000, 999_999_999, 1_000_000_000, 1_499_999_999, 1_500_000_000, 1_999_999_995, 1_999_999_999] {
        dts.push(mk_ndt(n, s, f)); } } }
    for _ in 0..ctx.t(200, 20_000) { dts.push(mk_ndt(rng.range(MIN_DAY, MAX_DAY), rng.range(0, 86_399) as u32, rng.range(0, 1_999_999_999) as u32)); }
    // width aliases of the digit count (d + 256k): from 9 digits on the value must come back unchanged
    for (i, &x) in dts.iter().enumerate() { for digits in [0u16, 1, 2, 3, 5, 6, 8, 9, 10, 255, 256, 257, 264, 512, 520, 4096 + (i as u16 % 9), 0xFF00 + (i as u16 % 9), u16::MAX] {
        tw.emit(ev("subsec.trunc", json!({"dt": ndt(x), "digits": digits.min(20)}), || json!({"r": ndt(x.trunc_subsecs(digits))})));
        tw.emit(ev("subsec.round", json!({"dt": ndt(x), "digits": digits.min(20)}), || json!({"r": ndt(x.round_subsecs(digits))})));
        n_sub += 2;
    } }
    let _ = TimeDelta::zero();
    tw.finish();
    json!({"events": tw.total, "round_events": n_round, "subsec_events": n_sub, "stamps": stamps.len()})
}
