//! Chunked NDJSON trace writer. File names are `<TraceModule>.<k>.ndjson`; the orchestrator runs
//! the trace specification `spec/trace/<TraceModule>.tla` on each file.
use serde_json::Value;
use std::fs::File;
use std::io::{BufWriter, Write};
use std::path::PathBuf;

pub struct Tw {
    dir: PathBuf,
    module: String,
    chunk: usize,
    k: usize,
    n_in_chunk: usize,
    pub total: usize,
    w: Option<BufWriter<File>>,
}

fn check(v: &Value) {
    match v {
        Value::Number(n) => {
            let ok = n.as_i64().map(|x| x >= -(1i64 << 31) && x < (1i64 << 31)).unwrap_or(false);
            assert!(ok, "number outside TLC's 32-bit range in trace: {}", n);
        }
        Value::Array(a) => a.iter().for_each(check),
        Value::Object(o) => o.values().for_each(check),
        Value::Null => panic!("null in trace"),
        Value::String(s) => assert!(s.is_ascii(), "non-ASCII string in trace"),
        Value::Bool(_) => {}
    }
}

impl Tw {
    pub fn new(dir: &str, module: &str, chunk: usize) -> Tw {
        std::fs::create_dir_all(dir).unwrap();
        Tw { dir: PathBuf::from(dir), module: module.to_string(), chunk, k: 0, n_in_chunk: 0, total: 0, w: None }
    }
    pub fn emit(&mut self, v: Value) {
        check(&v);
        if self.w.is_none() || self.n_in_chunk >= self.chunk {
            self.roll();
        }
        let w = self.w.as_mut().unwrap();
        serde_json::to_writer(&mut *w, &v).unwrap();
        w.write_all(b"\n").unwrap();
        self.n_in_chunk += 1;
        self.total += 1;
    }
    /// Start a new chunk now (used at episode boundaries of stateful traces).
    pub fn roll(&mut self) {
        if let Some(mut w) = self.w.take() {
            w.flush().unwrap();
        }
        self.k += 1;
        let mut p = self.dir.join(format!("{}.{:04}.ndjson", self.module, self.k));
        while p.exists() { self.k += 1; p = self.dir.join(format!("{}.{:04}.ndjson", self.module, self.k)); }
        self.w = Some(BufWriter::new(File::create(p).unwrap()));
        self.n_in_chunk = 0;
    }
    pub fn room(&self) -> usize { self.chunk.saturating_sub(self.n_in_chunk) }
    pub fn finish(&mut self) {
        if let Some(mut w) = self.w.take() {
            w.flush().unwrap();
        }
    }
}
impl Drop for Tw {
    fn drop(&mut self) { self.finish(); }
}
