//! Counting allocator for C16 ("... without allocating beyond the input size").
//! Counts only on the thread that asked for it and only between `start()` and `peak()`; everything else
//! goes straight to the system allocator. Included by `w/c16.rs` alone (via `#[path]`), so that removing
//! this file and that one line removes the `peak` field from the C16 events and nothing else.
use std::alloc::{GlobalAlloc, Layout, System};
use std::cell::Cell;

pub struct Counting;
thread_local! {
    static ON: Cell<bool> = const { Cell::new(false) };
    static CUR: Cell<i64> = const { Cell::new(0) };
    static PEAK: Cell<i64> = const { Cell::new(0) };
}
#[inline]
fn note(delta: i64) {
    let _ = ON.try_with(|on| {
        if on.get() {
            let _ = CUR.try_with(|c| {
                let v = c.get() + delta;
                c.set(v);
                let _ = PEAK.try_with(|p| if v > p.get() { p.set(v) });
            });
        }
    });
}
unsafe impl GlobalAlloc for Counting {
    unsafe fn alloc(&self, l: Layout) -> *mut u8 {
        let p = System.alloc(l);
        if !p.is_null() { note(l.size() as i64); }
        p
    }
    unsafe fn dealloc(&self, p: *mut u8, l: Layout) {
        System.dealloc(p, l);
        note(-(l.size() as i64));
    }
    unsafe fn alloc_zeroed(&self, l: Layout) -> *mut u8 {
        let p = System.alloc_zeroed(l);
        if !p.is_null() { note(l.size() as i64); }
        p
    }
    unsafe fn realloc(&self, p: *mut u8, l: Layout, new_size: usize) -> *mut u8 {
        let q = System.realloc(p, l, new_size);
        if !q.is_null() { note(new_size as i64 - l.size() as i64); }
        q
    }
}
#[global_allocator]
static GLOBAL: Counting = Counting;

/// Start counting on this thread (net bytes allocated from now on, and their peak).
pub fn start() {
    CUR.with(|c| c.set(0));
    PEAK.with(|p| p.set(0));
    ON.with(|o| o.set(true));
}
/// Stop counting; returns the peak of the net allocation since `start()`.
pub fn peak() -> i64 {
    ON.with(|o| o.set(false));
    PEAK.with(|p| p.get())
}
