//! Replays the behaviours of `Gen_Session.tla` (a client session: registers date / naive date-time / offset / duration and a
//! chain of API calls on them) against the real code. After every step the result the code returned is compared with the
//! result the specification prescribed; registers are updated from the REAL values, so a value that is subtly wrong after
//! one call is carried into the following calls.
use crate::big::{big, cps, unbig};
use crate::guard;
use crate::proj::*;
use chrono::{DateTime, Datelike, Days, FixedOffset, Months, NaiveDate, NaiveDateTime, TimeDelta, TimeZone, Timelike};
use serde_json::{json, Value};

fn want_date(v: &Value) -> Value { v.clone() }
fn pd(o: Option<NaiveDate>) -> Value { json!(odn(o)) }
fn px(o: Option<NaiveDateTime>) -> Value { opt(o, ndt) }
fn pq(o: Option<TimeDelta>) -> Value { opt(o, dur) }
fn months(k: i64) -> Months { Months::new(k.unsigned_abs() as u32) }

pub fn run(path: &str) -> Value {
    let text = std::fs::read_to_string(path).expect("replay file");
    let (mut n_beh, mut n_steps, mut n_mis) = (0u64, 0u64, 0u64);
    for line in text.lines() {
        let b: Value = serde_json::from_str(line).expect("replay line");
        let steps = b["steps"].as_array().expect("steps");
        let s0 = &steps[0];
        let mut date = mk_date(s0["date"].as_i64().unwrap());
        let mut x = mk_ndt(s0["x"]["n"].as_i64().unwrap(), s0["x"]["secs"].as_u64().unwrap() as u32, s0["x"]["frac"].as_u64().unwrap() as u32);
        let mut off = s0["off"].as_i64().unwrap() as i32;
        let mut q = mk_dur(unbig(&s0["q"])).expect("start duration");
        n_beh += 1;
        for (i, st) in steps.iter().enumerate().skip(1) {
            n_steps += 1;
            let op = st["op"].as_str().unwrap();
            let k = st["k"].as_i64().unwrap_or(0);
            let v = st["v"].as_i64().unwrap_or(0);
            let f = st["f"].as_str().unwrap_or("");
            let z: Option<DateTime<FixedOffset>> = FixedOffset::east_opt(off).map(|fo| fo.from_utc_datetime(&x));
            // observed result in the projection of the specification; the register update uses the real value
            let observed: Result<Value, String> = guard(|| match op {
                "date.succ" => { let r = date.succ_opt(); if let Some(d) = r { date = d; } pd(r) }
                "date.pred" => { let r = date.pred_opt(); if let Some(d) = r { date = d; } pd(r) }
                "date.months" => { let r = if k >= 0 { date.checked_add_months(months(k)) } else { date.checked_sub_months(months(k)) }; if let Some(d) = r { date = d; } pd(r) }
                "date.days" => { let r = if k >= 0 { date.checked_add_days(Days::new(k as u64)) } else { date.checked_sub_days(Days::new(k.unsigned_abs())) }; if let Some(d) = r { date = d; } pd(r) }
                "date.with" => { let r = match f { "day" => date.with_day(v as u32), "month" => date.with_month(v as u32), "ordinal" => date.with_ordinal(v as u32), _ => date.with_year(v as i32) }; if let Some(d) = r { date = d; } pd(r) }
                "date.add_q" => { let r = date.checked_add_signed(q); if let Some(d) = r { date = d; } pd(r) }
                "date.obs" => { let iw = date.iso_week(); json!({"y": date.year(), "m": date.month(), "d": date.day(), "o": date.ordinal(), "wd": wd(date.weekday()), "iy": iw.year(), "iw": iw.week(), "leap": date.leap_year()}) }
                "x.set_date" => { x = date.and_time(x.time()); ndt(x) }
                "date.from_x" => { date = x.date(); json!(dn(date)) }
                "x.add" => { let d = mk_dur(unbig(&st["d"])).expect("duration"); let r = x.checked_add_signed(d); if let Some(y) = r { x = y; } px(r) }
                "x.sub" => { let d = mk_dur(unbig(&st["d"])).expect("duration"); let r = x.checked_sub_signed(d); if let Some(y) = r { x = y; } px(r) }
                "x.with" => { let r = match f { "hour" => x.with_hour(v as u32), "minute" => x.with_minute(v as u32), "second" => x.with_second(v as u32), _ => x.with_nanosecond(v as u32) }; if let Some(y) = r { x = y; } px(r) }
                "x.since_date_noon" => { let r = x.signed_duration_since(date.and_hms_opt(12, 0, 0).unwrap()); q = r; dur(r) }
                "q.add" | "q.sub" | "q.mul" => { let arg = if k == 1 { TimeDelta::days(1) } else { TimeDelta::nanoseconds(999_999_999) };
                    let r = match op { "q.add" => q.checked_add(&arg), "q.sub" => q.checked_sub(&arg), _ => q.checked_mul(k as i32) }; if let Some(y) = r { q = y; } pq(r) }
                "q.neg" => { q = -q; dur(q) }
                "q.abs" => { q = q.abs(); dur(q) }
                "q.obs" => json!({"secs": big(q.num_seconds() as i128), "sub": big(q.subsec_nanos() as i128), "days": big(q.num_days() as i128), "text": cps(&q.to_string())}),
                "z.with_timezone" => { off = st["off"].as_i64().unwrap() as i32; let z2 = z.unwrap().with_timezone(&FixedOffset::east_opt(off).unwrap()); ndt(z2.naive_utc()) }
                "z.obs" => { let z = z.unwrap(); json!({"y": z.year(), "m": z.month(), "d": z.day(), "wd": wd(z.weekday()), "h": z.hour(), "mi": z.minute(), "s": z.second(), "ns": z.nanosecond()}) }
                "z.with" => { let z = z.unwrap(); let r = match f { "hour" => z.with_hour(v as u32), "minute" => z.with_minute(v as u32), "second" => z.with_second(v as u32), "day" => z.with_day(v as u32),
                        "month" => z.with_month(v as u32), "ordinal" => z.with_ordinal(v as u32), _ => z.with_year(v as i32) }; if let Some(y) = r { x = y.naive_utc(); } px(r.map(|y| y.naive_utc())) }
                "z.months" => { let z = z.unwrap(); let r = if k >= 0 { z.checked_add_months(months(k)) } else { z.checked_sub_months(months(k)) }; if let Some(y) = r { x = y.naive_utc(); } px(r.map(|y| y.naive_utc())) }
                "z.days" => { let z = z.unwrap(); let r = if k >= 0 { z.checked_add_days(Days::new(k as u64)) } else { z.checked_sub_days(Days::new(k.unsigned_abs())) }; if let Some(y) = r { x = y.naive_utc(); } px(r.map(|y| y.naive_utc())) }
                other => panic!("harness: unknown session step {}", other),
            });
            // expected result: `r` for value-returning steps, the whole record minus `op` for observations
            let expected = if op.ends_with(".obs") { let mut m = st.as_object().unwrap().clone(); m.remove("op"); Value::Object(m) }
                           else if op == "x.since_date_noon" && !in_range_dur(&st["r"]) { Value::Null } else { want_date(&st["r"]) };
            let ok = match (&observed, &expected) { (Ok(o), Value::Null) => { let _ = o; true } (Ok(o), e) => o == e, (Err(_), _) => false };
            if !ok {
                n_mis += 1;
                println!("MISMATCH {}", json!({"op": "replay.session", "line": n_beh, "step": i, "call": st, "expected": expected,
                    "observed": match &observed { Ok(o) => o.clone(), Err(m) => json!({"panic": m.chars().filter(|c| c.is_ascii()).collect::<String>()}) }}));
                break;      // the rest of this behaviour is no longer comparable
            }
            // keep the registers the replayer carries in step with the specification only through the real values; if the real
            // value of an out-of-range difference is unavailable the specification kept q unchanged as well
        }
    }
    json!({"behaviours": n_beh, "steps": n_steps, "mismatches": n_mis})
}

fn in_range_dur(v: &Value) -> bool { unbig(v).abs() <= DUR_LIM }
