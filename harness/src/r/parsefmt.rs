//! Replayer for C13 (generator `Gen_ParseFmt`): every line is a format string of the unambiguous family, a value,
//! the texts the specification admits for `value.format(fw)`, whether the format can express the value and, if so,
//! the value `parse_from_str(text, fr)` must return - for the formatted text and for perturbed texts (letter case
//! of names / am-pm, surplus white space) derived by the specification.
use crate::big::{cps, uncps};
use crate::guard;
use crate::proj::*;
use crate::w::c12::Val;
use chrono::{DateTime, FixedOffset, NaiveDate, NaiveDateTime, NaiveTime, TimeZone};
use serde_json::{json, Value};

fn i(v: &Value, k: &str) -> i64 { v[k].as_i64().unwrap() }

pub fn build(ty: &str, v: &Value) -> Option<Val> {
    let date = |v: &Value| NaiveDate::from_num_days_from_ce_opt(i(v, "n") as i32);
    let time = |v: &Value| NaiveTime::from_num_seconds_from_midnight_opt(i(v, "secs") as u32, i(v, "frac") as u32);
    Some(match ty {
        "date" => Val::D(date(v)?),
        "time" => Val::T(time(v)?),
        "ndt" => Val::N(date(v)?.and_time(time(v)?)),
        // the generator gives the wall clock and the offset
        "dt" => Val::Z(FixedOffset::east_opt(i(v, "off") as i32)?.from_local_datetime(&date(v)?.and_time(time(v)?)).single()?),
        _ => return None,
    })
}

fn err_kind(e: chrono::ParseError) -> Value { json!({"err": format!("{:?}", e.kind())}) }

/// parse_from_str of the type named `ty`, projected like the specification's Project:
/// date {n}; time {secs, frac}; ndt {n, secs, frac}; dt: wall clock {n, secs, frac} and {off}.
pub fn parse_as(ty: &str, text: &str, f: &str) -> Value {
    match ty {
        "date" => match NaiveDate::parse_from_str(text, f) { Ok(d) => json!({"ok": {"n": dn(d)}}), Err(e) => err_kind(e) },
        "time" => match NaiveTime::parse_from_str(text, f) { Ok(t) => json!({"ok": tod(t)}), Err(e) => err_kind(e) },
        "ndt" => match NaiveDateTime::parse_from_str(text, f) { Ok(x) => json!({"ok": ndt(x)}), Err(e) => err_kind(e) },
        "dt" => match DateTime::parse_from_str(text, f) { Ok(z) => json!({"ok": wall(&z)}), Err(e) => err_kind(e) },
        _ => json!({"err": "type"}),
    }
}

/// Wall clock of a zone-aware value computed from its UTC date-time and offset (naive_local() panics in the headroom).
pub fn wall(z: &DateTime<FixedOffset>) -> Value {
    let u = z.naive_utc();
    let off = z.offset().local_minus_utc() as i64;
    let t = u.time();
    let total = chrono::Timelike::num_seconds_from_midnight(&t) as i64 + off;
    json!({"n": dn(u.date()) + total.div_euclid(86400), "secs": total.rem_euclid(86400), "frac": chrono::Timelike::nanosecond(&t), "off": off})
}

pub fn run(path: &str) -> Value {
    let data = std::fs::read_to_string(path).unwrap();
    let (mut n, mut mism, mut can, mut perts, mut unbuilt, mut inexpressible, mut inverted_anyway) = (0u64, 0u64, 0u64, 0u64, 0u64, 0u64, 0u64);
    let mut samples: Vec<Value> = Vec::new();
    let mut by_ty = serde_json::Map::new();
    for line in data.lines() {
        if line.trim().is_empty() { continue; }
        let b: Value = serde_json::from_str(line).expect("behaviour line");
        n += 1;
        let ty = b["ty"].as_str().unwrap();
        *by_ty.entry(ty.to_string()).or_insert(json!(0)) = json!(by_ty.get(ty).and_then(|x| x.as_u64()).unwrap_or(0) + 1);
        let fw = uncps(&b["fw"]);
        let fr = uncps(&b["fr"]);
        let val = match build(ty, &b["v"]) { Some(v) => v, None => { unbuilt += 1; continue; } };
        let mut report = |what: &str, obs: Value| {
            mism += 1;
            println!("MISMATCH {}", json!({"op": "replay", "what": what, "ty": ty, "fw": b["fw"], "fr": b["fr"], "v": b["v"], "observed": obs,
                                           "texts": b["texts"], "can": b["can"], "parsed": b["parsed"]}));
        };
        // 1. formatting: the text is one the specification admits (an empty list = formatting must fail)
        let text = match guard(|| val.text(&fw)) { Ok(t) => t, Err(p) => { report("format-panic", json!(p)); continue; } };
        let texts = b["texts"].as_array().unwrap();
        let det = b["det"].as_bool().unwrap();
        let k = match &text {
            Some(t) => texts.iter().position(|x| *x == cps(t)),
            None => None,
        };
        if det && (text.is_none() != texts.is_empty() || (text.is_some() && k.is_none())) {
            report("format", match &text { Some(t) => json!({"ok": cps(t)}), None => json!({"err": 1}) });
            continue;
        }
        // 2. parsing inverts formatting for every value the format can express
        if !b["can"].as_bool().unwrap() {
            // diagnostic only (never a mismatch): how often does the real reader return the would-be projection of a
            // value the specification regards as not expressible? (measures how tight Expressible is)
            if let (Some(t), true) = (&text, b["would"].get("none").is_none()) {
                inexpressible += 1;
                if guard(|| parse_as(ty, t, &fr)).ok() == Some(json!({"ok": b["would"]})) {
                    inverted_anyway += 1;
                    if samples.len() < 6 { samples.push(json!({"fw": fw, "v": b["v"], "text": t})); }
                }
            }
            continue;
        }
        can += 1;
        let t = text.unwrap();
        let expect = json!({"ok": b["parsed"]});
        match guard(|| parse_as(ty, &t, &fr)) {
            Ok(r) => if r != expect { report("parse", r); },
            Err(p) => report("parse-panic", json!(p)),
        }
        // 3. ... and for the perturbed texts
        if let (Some(k), Some(ps)) = (k, b["perts"].as_array()) {
            if let Some(p) = ps.get(k) {
                perts += 1;
                let pt = uncps(&p["text"]);
                match guard(|| parse_as(ty, &pt, &fr)) {
                    Ok(r) => if r != expect { report("parse-perturbed", json!({"text": p["text"], "mode": p["mode"], "r": r})); },
                    Err(e) => report("parse-panic", json!(e)),
                }
            }
        }
    }
    json!({"behaviours": n, "mismatches": mism, "expressible_round_trips": can, "perturbed_round_trips": perts, "values_not_built": unbuilt, "by_type": by_ty,
           "diagnostic_inexpressible_values": inexpressible, "diagnostic_inexpressible_yet_inverted": inverted_anyway, "diagnostic_samples": samples})
}
