//! Replayer for Gen_Rfc3339: every TLC-generated string goes through DateTime::parse_from_rfc3339;
//! `ok: true` lines carry the denoted wall clock (n, secs, frac) and offset, `ok: false` lines must be refused.
use crate::big::uncps;
use crate::guard;
use crate::proj::*;
use chrono::{DateTime, Timelike};
use serde_json::{json, Value};

pub fn run(path: &str) -> Value {
    let text = std::fs::read_to_string(path).unwrap();
    let (mut n, mut accepted, mut mism) = (0usize, 0usize, 0usize);
    for line in text.lines() {
        let v: Value = serde_json::from_str(line).expect("replay line");
        let s = uncps(&v["s"]);
        n += 1;
        let want_ok = v["ok"].as_bool().unwrap();
        let got = guard(|| DateTime::parse_from_rfc3339(&s).map(|dt| {
            let l = dt.naive_utc();      // compare on the instant and the offset: wall clock = instant + offset
            (dn(l.date()), l.time().num_seconds_from_midnight() as i64, l.time().nanosecond() as i64, dt.offset().local_minus_utc() as i64)
        }));
        let observed = match &got {
            Ok(Ok((d, s, f, o))) => json!({"ok": {"un": d, "usecs": s, "frac": f, "off": o}}),
            Ok(Err(e)) => json!({"err": format!("{:?}", e.kind())}),
            Err(p) => json!({"panic": p}),
        };
        let good = match (&got, want_ok) {
            (Ok(Ok((d, sec, f, o))), true) => {
                // denoted wall clock -> instant
                let (wn, ws, wf, wo) = (v["n"].as_i64().unwrap(), v["secs"].as_i64().unwrap(), v["frac"].as_i64().unwrap(), v["off"].as_i64().unwrap());
                let t = ws - wo;
                *d == wn + t.div_euclid(86_400) && *sec == t.rem_euclid(86_400) && *f == wf && *o == wo
            }
            (Ok(Err(_)), false) => true,
            _ => false,
        };
        if want_ok { accepted += 1; }
        if !good {
            mism += 1;
            println!("MISMATCH {}", json!({"op": "replay3339", "s": v["s"], "text": s.chars().map(|c| if c.is_ascii() && !c.is_ascii_control() { c } else { '?' }).collect::<String>(),
                                           "expected": v, "observed": observed}));
        }
    }
    json!({"strings": n, "in_language": accepted, "mismatches": mism})
}
