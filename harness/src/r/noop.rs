//! Placeholder replayer: counts behaviours.
use serde_json::{json, Value};
pub fn run(path: &str) -> Value {
    let n = std::fs::read_to_string(path).unwrap().lines().count();
    json!({"behaviours": n})
}
