//! Replayers: one file per kind (`src/r/<kind>.rs` with `pub fn run(path: &str) -> serde_json::Value`):
//! executes TLC-generated behaviours (one JSON object per line) against the real code, prints
//! `MISMATCH <json>` for every step whose projected state differs, and returns a summary.
include!(concat!(env!("OUT_DIR"), "/replayers.rs"));
