//! C19 replayer: executes the behaviours / cases that TLC enumerated from `Enums.tla` (Gen_EnumsIter, Gen_EnumsOps) on the
//! real `Weekday`, `Month`, `WeekdaySet` and compares every observable result with the specification's.
//! Nothing is computed here: expected values come from the REPLAY line, observed values from chrono.
use crate::big::uncps;
use crate::guard;
use chrono::{Month, Weekday, WeekdaySet};
use num_traits::FromPrimitive;
use serde_json::{json, Value};
use std::collections::BTreeMap;

const WD: [Weekday; 7] = [Weekday::Mon, Weekday::Tue, Weekday::Wed, Weekday::Thu, Weekday::Fri, Weekday::Sat, Weekday::Sun];
const MO: [Month; 12] = [Month::January, Month::February, Month::March, Month::April, Month::May, Month::June, Month::July,
    Month::August, Month::September, Month::October, Month::November, Month::December];

/// 0 = Monday; an explicit match so that the projection does not depend on any function under test
fn wdi(w: Weekday) -> i64 {
    match w { Weekday::Mon => 0, Weekday::Tue => 1, Weekday::Wed => 2, Weekday::Thu => 3, Weekday::Fri => 4, Weekday::Sat => 5, Weekday::Sun => 6 }
}
fn moi(m: Month) -> i64 {
    match m {
        Month::January => 1, Month::February => 2, Month::March => 3, Month::April => 4, Month::May => 5, Month::June => 6, Month::July => 7,
        Month::August => 8, Month::September => 9, Month::October => 10, Month::November => 11, Month::December => 12,
    }
}
fn owd(w: Option<Weekday>) -> i64 { w.map(wdi).unwrap_or(-1) }
fn omo(m: Option<Month>) -> i64 { m.map(moi).unwrap_or(-1) }
fn wd_of(v: &Value) -> Weekday { WD[v.as_i64().expect("weekday index") as usize] }
fn mk_set(v: &Value) -> WeekdaySet { v.as_array().expect("set").iter().map(wd_of).collect() }
/// a set is projected by asking `contains` for each of the seven days
fn proj_set(s: WeekdaySet) -> Value { Value::Array(WD.iter().filter(|d| s.contains(**d)).map(|d| json!(wdi(*d))).collect()) }
fn seq(v: Vec<Weekday>) -> Value { Value::Array(v.into_iter().map(|d| json!(wdi(d))).collect()) }
fn text(s: &str) -> Value { crate::big::cps(s) }

/// magnitude and sign of a `{"neg","mag"}` value (u128 magnitudes do not fit `big::unbig`)
fn unbig_wide(v: &Value) -> (bool, u128) {
    let mut r: u128 = 0;
    for l in v["mag"].as_array().expect("mag").iter().rev() {
        r = r.checked_mul(1000).and_then(|x| x.checked_add(l.as_u64().unwrap() as u128)).expect("corpus value exceeds u128");
    }
    (v["neg"].as_bool().unwrap(), r)
}

struct Out { mism: u64, checks: u64, by_kind: BTreeMap<String, u64> }
impl Out {
    fn cmp(&mut self, line: &Value, what: &str, expected: &Value, observed: Result<Value, String>) {
        self.checks += 1;
        let ok = matches!(&observed, Ok(o) if o == expected);
        if !ok {
            self.mism += 1;
            let obs = match observed { Ok(o) => o, Err(p) => json!({"panic": p.chars().filter(|c| c.is_ascii() && !c.is_ascii_control()).take(120).collect::<String>()}) };
            let mut case = line.clone();
            if let Some(o) = case.as_object_mut() { o.remove("steps"); }
            println!("MISMATCH {}", json!({"op": what, "case": case, "expected": expected, "observed": obs}));
        }
    }
}

fn run_iter(out: &mut Out, line: &Value) {
    let set = mk_set(&line["set"]);
    let start = wd_of(&line["start"]);
    let mut it = set.iter(start);
    for (i, st) in line["steps"].as_array().expect("steps").iter().enumerate() {
        let op = st["op"].as_str().unwrap();
        let r = guard(|| {
            let r = if op == "next" { it.next() } else { it.next_back() };
            json!({"i": i, "op": op, "r": owd(r), "len": it.len(), "rest": seq(it.clone().collect())})
        });
        let exp = json!({"i": i, "op": op, "r": st["r"], "len": st["len"], "rest": st["rest"]});
        let bad = r.is_err();
        out.cmp(line, "WeekdaySetIter step", &exp, r);
        if bad { break; }
    }
}

fn run_case(out: &mut Out, line: &Value) {
    let k = line["k"].as_str().expect("k");
    *out.by_kind.entry(k.to_string()).or_insert(0) += 1;
    match k {
        "iter" => run_iter(out, line),
        "wd" => {
            let d = wd_of(&line["d"]);
            out.cmp(line, "Weekday::succ", &line["succ"], guard(|| json!(wdi(d.succ()))));
            out.cmp(line, "Weekday::pred", &line["pred"], guard(|| json!(wdi(d.pred()))));
            out.cmp(line, "Weekday::number_from_monday", &line["number_from_monday"], guard(|| json!(d.number_from_monday())));
            out.cmp(line, "Weekday::number_from_sunday", &line["number_from_sunday"], guard(|| json!(d.number_from_sunday())));
            out.cmp(line, "Weekday::num_days_from_monday", &line["num_days_from_monday"], guard(|| json!(d.num_days_from_monday())));
            out.cmp(line, "Weekday::num_days_from_sunday", &line["num_days_from_sunday"], guard(|| json!(d.num_days_from_sunday())));
            out.cmp(line, "Weekday Display", &line["display"], guard(|| text(&d.to_string())));
            // the names parse back to the day (mutually inverse)
            out.cmp(line, "Weekday FromStr(Display)", &line["d"], guard(|| json!(owd(d.to_string().parse::<Weekday>().ok()))));
            out.cmp(line, "Weekday FromStr(long name)", &line["d"], guard(|| json!(owd(uncps(&line["long"]).parse::<Weekday>().ok()))));
            out.cmp(line, "Weekday::try_from(num_days_from_monday)", &line["d"], guard(|| json!(owd(Weekday::try_from(d.num_days_from_monday() as u8).ok()))));
        }
        "wd2" => {
            let (d, e) = (wd_of(&line["d"]), wd_of(&line["e"]));
            out.cmp(line, "Weekday::days_since", &line["days_since"], guard(|| json!(d.days_since(e))));
        }
        "mo" => {
            let m = MO[line["m"].as_i64().unwrap() as usize - 1];
            out.cmp(line, "Month::succ", &line["succ"], guard(|| json!(moi(m.succ()))));
            out.cmp(line, "Month::pred", &line["pred"], guard(|| json!(moi(m.pred()))));
            out.cmp(line, "Month::number_from_month", &line["number_from_month"], guard(|| json!(m.number_from_month())));
            out.cmp(line, "Month::name", &line["name"], guard(|| text(m.name())));
            out.cmp(line, "Month FromStr(name)", &line["m"], guard(|| json!(omo(m.name().parse::<Month>().ok()))));
            out.cmp(line, "Month FromStr(short name)", &line["m"], guard(|| json!(omo(uncps(&line["short"]).parse::<Month>().ok()))));
            out.cmp(line, "Month::try_from(number_from_month)", &line["m"], guard(|| json!(omo(Month::try_from(m.number_from_month() as u8).ok()))));
        }
        "set" => {
            let a = mk_set(&line["a"]);
            out.cmp(line, "WeekdaySet contains-projection of collect()", &line["a"], guard(|| proj_set(a)));
            out.cmp(line, "WeekdaySet::first", &line["first"], guard(|| json!(owd(a.first()))));
            out.cmp(line, "WeekdaySet::last", &line["last"], guard(|| json!(owd(a.last()))));
            out.cmp(line, "WeekdaySet::len", &line["len"], guard(|| json!(a.len())));
            out.cmp(line, "WeekdaySet::is_empty", &line["is_empty"], guard(|| json!(a.is_empty())));
            out.cmp(line, "WeekdaySet::single_day", &line["single_day"], guard(|| json!(owd(a.single_day()))));
            out.cmp(line, "WeekdaySet Display", &line["display"], guard(|| text(&a.to_string())));
            out.cmp(line, "WeekdaySet::iter(Mon)", &line["a"], guard(|| seq(a.iter(Weekday::Mon).collect())));
            out.cmp(line, "WeekdaySet == EMPTY", &json!(line["len"] == json!(0)), guard(|| json!(a == WeekdaySet::EMPTY)));
            out.cmp(line, "WeekdaySet == ALL", &json!(line["len"] == json!(7)), guard(|| json!(a == WeekdaySet::ALL)));
        }
        "day" => {
            let a = mk_set(&line["a"]);
            let d = wd_of(&line["d"]);
            out.cmp(line, "WeekdaySet::contains", &line["contains"], guard(|| json!(a.contains(d))));
            out.cmp(line, "WeekdaySet::insert", &json!({"set": line["insert"], "r": line["inserted"]}), guard(|| { let mut s = a; let r = s.insert(d); json!({"set": proj_set(s), "r": r}) }));
            out.cmp(line, "WeekdaySet::remove", &json!({"set": line["remove"], "r": line["removed"]}), guard(|| { let mut s = a; let r = s.remove(d); json!({"set": proj_set(s), "r": r}) }));
            out.cmp(line, "WeekdaySet::iter(start)", &line["iter"], guard(|| seq(a.iter(d).collect())));
            out.cmp(line, "WeekdaySet::iter(start).rev()", &Value::Array(line["iter"].as_array().unwrap().iter().rev().cloned().collect()), guard(|| seq(a.iter(d).rev().collect())));
            out.cmp(line, "WeekdaySet::single", &line["single"], guard(|| proj_set(WeekdaySet::single(d))));
            // other routes to the same behaviour, all derived from the specification's sequence iter(start): the adaptor methods of
            // the standard traits (an implementation may override any of them) and collecting with repeated members
            let it = line["iter"].as_array().unwrap().clone();
            let n = it.len();
            let at = |k: usize| if k < n { it[k].clone() } else { json!(-1) };
            out.cmp(line, "iter(start).last()", &at(n.wrapping_sub(1)), guard(|| json!(owd(a.iter(d).last()))));
            out.cmp(line, "iter(start).count()", &json!(n), guard(|| json!(a.iter(d).count())));
            // (size_hint is the trait default (0, None) although the iterator is an ExactSizeIterator - outside the C19 statement, not judged)
            out.cmp(line, "iter(start).len()", &json!(n), guard(|| json!(a.iter(d).len())));
            for k in 0..=n.min(7) {
                out.cmp(line, "iter(start).nth(k)", &at(k), guard(|| json!(owd(a.iter(d).nth(k)))));
                out.cmp(line, "iter(start).rev().nth(k)", &at(n.wrapping_sub(1).wrapping_sub(k)), guard(|| json!(owd(a.iter(d).rev().nth(k)))));
                out.cmp(line, "iter(start).skip(k).next()", &at(k), guard(|| json!(owd(a.iter(d).skip(k).next()))));
                out.cmp(line, "iter(start).skip(k).last()", &(if k < n { at(n - 1) } else { json!(-1) }), guard(|| json!(owd(a.iter(d).skip(k).last()))));
            }
            out.cmp(line, "iter(start).min/max by position", &json!([at(0), at(n.wrapping_sub(1))]), guard(|| { let v: Vec<Weekday> = a.iter(d).collect(); json!([owd(v.first().copied()), owd(v.last().copied())]) }));
            out.cmp(line, "collect() of a sequence with repeated members", &line["a"], guard(|| proj_set(a.iter(d).chain(a.iter(Weekday::Mon)).chain(a.iter(d).rev()).collect::<WeekdaySet>())));
            out.cmp(line, "collect() of members plus the start day twice", &line["insert"], guard(|| proj_set(a.iter(d).chain([d, d]).collect::<WeekdaySet>())));
            // from_array: any length, repeated members
            out.cmp(line, "WeekdaySet::from_array([d])", &line["single"], guard(|| proj_set(WeekdaySet::from_array([d]))));
            out.cmp(line, "WeekdaySet::from_array(members in iter order, twice, + d)", &line["insert"], guard(|| {
                let v: Vec<Weekday> = a.iter(d).collect();
                let mut arr = [d; 15];
                for (i, x) in v.iter().chain(v.iter()).enumerate() { arr[i] = *x; }
                proj_set(WeekdaySet::from_array(arr)) }));
            out.cmp(line, "WeekdaySet::from_array([])", &json!([]), guard(|| proj_set(WeekdaySet::from_array([]))));
            out.cmp(line, "extend-like fold of insert", &line["insert"], guard(|| { let mut s = WeekdaySet::EMPTY; for x in a.iter(d).chain([d, d]) { s.insert(x); } proj_set(s) }));
        }
        "pair" => {
            let (a, b) = (mk_set(&line["a"]), mk_set(&line["b"]));
            out.cmp(line, "WeekdaySet::union", &line["union"], guard(|| proj_set(a.union(b))));
            out.cmp(line, "WeekdaySet::intersection", &line["intersection"], guard(|| proj_set(a.intersection(b))));
            out.cmp(line, "WeekdaySet::difference", &line["difference"], guard(|| proj_set(a.difference(b))));
            out.cmp(line, "WeekdaySet::symmetric_difference", &line["symmetric_difference"], guard(|| proj_set(a.symmetric_difference(b))));
            out.cmp(line, "WeekdaySet::is_subset", &line["is_subset"], guard(|| json!(a.is_subset(b))));
            out.cmp(line, "WeekdaySet::is_subset (reversed)", &line["is_superset"], guard(|| json!(b.is_subset(a))));
            out.cmp(line, "WeekdaySet ==", &line["eq"], guard(|| json!(a == b)));
        }
        "num" => {
            let (neg, mag) = unbig_wide(&line["v"]);
            let ty = line["ty"].as_str().unwrap();
            // signed value as i128 where it fits, else the u128 magnitude
            macro_rules! go { ($t:ty, $f:ident) => {{
                let x: $t = if neg {
                    let s: i128 = if mag == 1u128 << 127 { i128::MIN } else { -(i128::try_from(mag).expect("negative value below i128::MIN")) };
                    <$t>::try_from(s).expect("value does not fit the type")
                } else { <$t>::try_from(mag).expect("value does not fit the type") };
                out.cmp(line, concat!("Weekday::", stringify!($f)), &line["wd"], guard(|| json!(owd(Weekday::$f(x)))));
                out.cmp(line, concat!("Month::", stringify!($f)), &line["mo"], guard(|| json!(omo(Month::$f(x)))));
            }}; }
            match ty {
                "i8" => go!(i8, from_i8), "i16" => go!(i16, from_i16), "i32" => go!(i32, from_i32), "i64" => go!(i64, from_i64),
                "i128" => go!(i128, from_i128), "isize" => go!(isize, from_isize),
                "u8" => go!(u8, from_u8), "u16" => go!(u16, from_u16), "u32" => go!(u32, from_u32), "u64" => go!(u64, from_u64),
                "u128" => go!(u128, from_u128), "usize" => go!(usize, from_usize),
                "try_u8" => {
                    let x = u8::try_from(mag).ok().filter(|_| !neg).expect("value does not fit u8");
                    out.cmp(line, "Weekday::try_from(u8)", &line["wd"], guard(|| json!(owd(Weekday::try_from(x).ok()))));
                    out.cmp(line, "Month::try_from(u8)", &line["mo"], guard(|| json!(omo(Month::try_from(x).ok()))));
                }
                other => panic!("unknown numeric type {}", other),
            }
        }
        "text" => {
            let s = uncps(&line["s"]);
            out.cmp(line, "Weekday::from_str", &line["wd"], guard(|| json!(owd(s.parse::<Weekday>().ok()))));
            out.cmp(line, "Month::from_str", &line["mo"], guard(|| json!(omo(s.parse::<Month>().ok()))));
        }
        other => panic!("unknown case kind {}", other),
    }
}

pub fn run(path: &str) -> Value {
    let mut out = Out { mism: 0, checks: 0, by_kind: BTreeMap::new() };
    let data = std::fs::read_to_string(path).expect("replay file");
    let mut n = 0u64;
    for l in data.lines() {
        if l.trim().is_empty() { continue; }
        let line: Value = serde_json::from_str(l).expect("REPLAY line is not JSON");
        run_case(&mut out, &line);
        n += 1;
    }
    json!({"behaviours": n, "comparisons": out.checks, "mismatches": out.mism, "by_kind": out.by_kind})
}
