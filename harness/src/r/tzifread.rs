//! Replayer for `Gen_Tzif` on behalf of C16: the reader must accept every conforming file the specification's
//! writer produces, return exactly the written transitions, types and rule, and survive the query set;
//! the answers of the queries are judged by C05 (replayer `tzif`).
use serde_json::Value;
pub fn run(path: &str) -> Value { super::tzif::run_with(path, false) }
