//! Text inputs for parsers: valid seeds, structured mutations and arbitrary Unicode.
use crate::rng::Rng;

pub const ALPHABET: &[char] = &['0', '1', '2', '5', '9', '+', '-', '\u{2212}', ':', '.', ',', ' ', '\t', '\n', 'T', 't', 'Z', 'z', 'W', 'a', 'p', 'M', 'm', 'J', 'u', 'n', 'U', 'G', 'E', 'S',
    '%', '(', ')', '\\', '/', '\0', '\u{e9}', '\u{3000}', '\u{2003}', '\u{1F600}', '\u{0660}', '\u{FF11}', '\u{130}', 'ß', '"', '\'', 'x'];

pub fn random_text(rng: &mut Rng, max: usize) -> String {
    let n = rng.below(max + 1);
    (0..n).map(|_| if rng.chance(1, 6) { char::from_u32(rng.range(1, 0x10FFFF) as u32).unwrap_or('?') } else { *rng.pick(ALPHABET) }).collect()
}

pub fn mutate(rng: &mut Rng, s: &str) -> String {
    let mut c: Vec<char> = s.chars().collect();
    let times = 1 + rng.below(3);
    for _ in 0..times {
        let i = if c.is_empty() { 0 } else { rng.below(c.len()) };
        match rng.below(9) {
            0 => { if !c.is_empty() { c.remove(i); } }
            1 => { if !c.is_empty() { let x = c[i]; c.insert(i, x); } }
            2 => { if !c.is_empty() { c[i] = *rng.pick(ALPHABET); } }
            3 => c.insert(i.min(c.len()), *rng.pick(ALPHABET)),
            4 => { c.truncate(i); }
            5 => { if c.len() > 1 { let j = rng.below(c.len()); c.swap(i, j); } }
            6 => { let k = 1 + rng.below(25); for _ in 0..k { c.insert(i.min(c.len()), *rng.pick(&['9', '0', '1', '7'])); } }      // very long numbers
            7 => { if !c.is_empty() { c[i] = if c[i].is_ascii_lowercase() { c[i].to_ascii_uppercase() } else { c[i].to_ascii_lowercase() }; } }
            _ => { let t = random_text(rng, 4); for (k, ch) in t.chars().enumerate() { c.insert((i + k).min(c.len()), ch); } }
        }
    }
    c.into_iter().collect()
}

pub const DATE_SEEDS: &[&str] = &["2015-09-18", "+262142-12-31", "-262143-01-01", "0000-01-01", "9999-12-31", "+10000-01-01", "-0001-12-31", "2024-02-29", "2023-02-29", " 2015-09-18 ", "2015-9-8", "12345-06-07"];
pub const TIME_SEEDS: &[&str] = &["23:56:04", "23:59:60", "00:00:00.000000001", "12:34:56.789", "23:59:59.999999999", "7:8:9", "23:56", "23:59:60.5", "24:00:00", "12:60:00"];
pub const NDT_SEEDS: &[&str] = &["2015-09-18T23:56:04", "2015-09-18 23:56:04", "+262142-12-31T23:59:59.999999999", "-262143-01-01T00:00:00", "2016-12-31T23:59:60.5", "2015-09-18T23:56:04Z"];
pub const DT_SEEDS: &[&str] = &["2015-09-18T23:56:04Z", "2015-09-18T23:56:04+09:00", "2015-09-18 23:56:04 UTC", "2015-09-18 23:56:04 +09:30", "2015-09-18T23:56:04.123456789-23:59", "+262142-12-31T23:59:59.999999999+00:00",
    "-262143-01-01T00:00:00Z", "2016-12-31T23:59:60+00:00", "1996-12-19T16:39:57-08:00", "1990-12-31T23:59:60Z", "1937-01-01T12:00:27.87+00:20", "2015-09-18t23:56:04z", "2015-09-18 23:56:04\u{2212}01:00",
    "+262143-01-01T00:59:59+01:00", "-262144-12-31T23:00:00-01:00", "2015-09-18T23:56:04+24:00", "2015-09-18T23:56:04+0900"];
pub const RFC2822_SEEDS: &[&str] = &["Tue, 1 Jul 2003 10:52:37 +0200", "Fri, 21 Nov 1997 09:55:06 -0600", "1 Jul 03 10:52 GMT", "Wed, 31 Dec 9999 23:59:60 +2359", "Thu, 01 Jan 0000 00:00:00 -0000",
    "Tue, 1 Jul 2003 10:52:37 +0200 (CEST)", "Tue,  1 Jul 103 10:52:37 EST", "tue, 1 jul 2003 10:52:37 z", "Tue, 1 Jul 2003 10:52:37 (a (nested \\) ) comment) +0200", "Mon, 1 Jul 2003 10:52:37 +0200"];
pub const OFFSET_SEEDS: &[&str] = &["+09:00", "-00:00", "+23:59", "-2359", "+24:00", "Z", "+09", "+09:30:30", "\u{2212}01:00", "+9:00", "+09:60"];
pub const FMT_SEEDS: &[&str] = &["%Y-%m-%d", "%Y-%m-%dT%H:%M:%S%.f%:z", "%a, %d %b %Y %H:%M:%S %z", "%c", "%+", "%D %T %r %R %v %x %X", "%G-W%V-%u", "%Y-%j", "%y%m%d%H%M%S", "%s", "%s%.3f", "%I:%M:%S %p", "%l:%M %P",
    "%A %B %e %k", "%C%y %h %n %t %%", "%-d %_d %0d %-H %_M %0S", "%.3f %.6f %.9f %3f %6f %9f %f", "%z %:z %::z %:::z %#z %Z", "%U %W %w %q", "%Q", "%", "%-", "%:", "%::", "%.", "%.3", "%#", "%#a", "%-D", "%_T", "%0c", "%é", "é%Y",
    "%Y年%m月%d日", "%%%%", "% Y", "%1f", "%:::::z", "%.9", "%:z%:z"];
pub const WEEKDAY_SEEDS: &[&str] = &["Mon", "monday", "TUESDAY", "wed", "Thursday", "fri", "Sat", "sunday", "Mo", "Mond", "Mondayy", "tues", "thu", "thur", "thurs"];
pub const MONTH_SEEDS: &[&str] = &["Jan", "january", "FEBRUARY", "mar", "April", "may", "Jun", "july", "Aug", "sept", "Sep", "october", "Nov", "december", "Ja", "Janu", "Marc"];
