use chrono_verif_harness::w::{self, Ctx, Tier};

fn main() {
    let args: Vec<String> = std::env::args().collect();
    // probe mode: one call that may exhaust the stack (which no catch_unwind can turn into data) runs in a process of its own
    if args.len() == 4 && args[1] == "probe" {
        let n: usize = args[3].parse().expect("count");
        let r = match args[2].as_str() {
            "rfc2822-nested-comment" => chrono::DateTime::parse_from_rfc2822(&format!("Tue, 20 Jan 2015 17:35:20 -0800 {}{}", "(".repeat(n), ")".repeat(n))).is_ok(),
            "rfc2822-open-comment" => chrono::DateTime::parse_from_rfc2822(&format!("Tue, 20 Jan 2015 17:35:20 -0800 {}", "(".repeat(n))).is_ok(),
            "rfc3339-long-fraction" => chrono::DateTime::parse_from_rfc3339(&format!("2015-01-20T17:35:20.{}Z", "1".repeat(n))).is_ok(),
            "strftime-many-items" => chrono::NaiveDate::parse_from_str(&"x".repeat(n), &"x".repeat(n)).is_ok(),
            _ => { eprintln!("unknown probe"); std::process::exit(2); }
        };
        println!("PROBE {}", if r { "ok" } else { "err" });
        return;
    }
    let mut workload = String::new();
    let mut tier = Tier::Quick;
    let mut seed = 1u64;
    let mut out = String::from("work/tmp");
    let mut i = 1;
    while i < args.len() {
        match args[i].as_str() {
            "--tier" => { i += 1; tier = if args[i] == "thorough" { Tier::Thorough } else { Tier::Quick }; }
            "--seed" => { i += 1; seed = args[i].parse().expect("seed"); }
            "--out" => { i += 1; out = args[i].clone(); }
            s => workload = s.to_string(),
        }
        i += 1;
    }
    chrono_verif_harness::quiet_panics();
    let ctx = Ctx { tier, seed, out };
    let summary = match w::dispatch(&workload, &ctx) {
        Some(s) => s,
        None => { eprintln!("unknown workload {} (known: {:?})", workload, w::NAMES); std::process::exit(2); }
    };
    let problems = chrono_verif_harness::proj::PROBLEMS.lock().unwrap().clone();
    for module in ["Trace_Calendar", "Trace_Duration", "Trace_TimeOfDay"] {
        let evs: Vec<_> = problems.iter().filter(|(m, _)| *m == module).map(|(_, e)| e.clone()).collect();
        if !evs.is_empty() {
            let mut tw = chrono_verif_harness::out::Tw::new(&ctx.out, module, 1000);
            tw.roll();
            for e in evs { tw.emit(e); }
            tw.finish();
        }
    }
    println!("SUMMARY {}", summary);
}
