use chrono_verif_harness::r;
fn main() {
    let args: Vec<String> = std::env::args().collect();
    if args.len() < 3 { eprintln!("usage: replay <kind> <file>"); std::process::exit(2); }
    chrono_verif_harness::quiet_panics();
    match r::dispatch(&args[1], &args[2]) {
        Some(s) => println!("SUMMARY {}", s),
        None => { eprintln!("unknown replayer {} (known: {:?})", args[1], r::NAMES); std::process::exit(2); }
    }
}
