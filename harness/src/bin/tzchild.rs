//! C18: runs ONE history of environment changes, waits and conversions in this process and logs it.
//!
//!   tzchild <history.json>      (or `-` to read the history from stdin)
//!
//! The history is a JSON object `{"hdr": {...}, "probe": <unix seconds>, "steps": [...]}` with steps
//!   {"op":"setenv","v":<symbolic key>,"tz":<the real TZ string>}   std::env::set_var("TZ", tz)
//!   {"op":"unset"}                                                 std::env::remove_var("TZ")
//!   {"op":"wait","ms":n}                                           std::thread::sleep
//!   {"op":"conv","dir":"utc"|"local","thr":"main"|"new"}           ONE call into chrono::Local (one cache access),
//!                                                                  on this thread or on a freshly spawned std::thread
//!   {"op":"touch","link":<path>,"target":<path>}                   atomically replaces the symlink <path> (the file that is
//!                                                                  bind-mounted as /etc/localtime inside a private mount
//!                                                                  namespace; never a path under /etc itself)
//! Any step may carry "delay_us": n - an artificial scheduling delay inside the step (robustness experiments only).
//! Output: one NDJSON event per step, echoing the step and adding the wall-clock (SystemTime - what chrono reads)
//! and monotonic readings in microseconds since start, taken before (`w0`,`m0`) and after (`w1`,`m1`) the step,
//! and for conversions the observed outcome `obs`:
//! {"single":off} | {"amb":[a,b]} | {"none":1} (offsets in seconds east) or `"panic"`.
//! Nothing here knows what the right answer is: the expectation comes from spec/tz/LocalCache.tla.
use chrono::{DateTime, Local, MappedLocalTime, NaiveDateTime, Offset, TimeZone};
use serde_json::{json, Map, Value};
use std::time::{Duration, Instant, SystemTime};

fn proj<T>(m: MappedLocalTime<T>, f: impl Fn(&T) -> i32) -> Value {
    match m {
        MappedLocalTime::Single(a) => json!({"single": f(&a)}),
        MappedLocalTime::Ambiguous(a, b) => json!({"amb": [f(&a), f(&b)]}),
        MappedLocalTime::None => json!({"none": 1}),
    }
}

/// Exactly one access to the per-thread zone cache, through the public API. `api` selects the route.
fn convert(dir: &str, api: u64, probe: i64) -> (String, Value) {
    let naive: NaiveDateTime = DateTime::from_timestamp(probe, 0).expect("probe").naive_utc();
    if dir == "utc" {
        match api % 3 {
            0 => ("Local.offset_from_utc_datetime".into(), json!({"single": Local.offset_from_utc_datetime(&naive).fix().local_minus_utc()})),
            1 => {
                let dt = Local.from_utc_datetime(&naive);
                // the wall clock of the result must be the instant shifted by the reported offset
                let off = dt.offset().fix().local_minus_utc();
                let shown = (dt.naive_local() - naive).num_seconds() as i32;
                ("Local.from_utc_datetime".into(), if shown == off { json!({"single": off}) } else { json!({"mixed": [off, shown]}) })
            }
            _ => ("Local.timestamp_opt".into(), proj(Local.timestamp_opt(probe, 0), |dt| dt.offset().fix().local_minus_utc())),
        }
    } else {
        match api % 2 {
            0 => ("Local.offset_from_local_datetime".into(), proj(Local.offset_from_local_datetime(&naive), |o| o.fix().local_minus_utc())),
            _ => ("Local.from_local_datetime".into(), proj(Local.from_local_datetime(&naive), |dt| dt.offset().fix().local_minus_utc())),
        }
    }
}

fn main() {
    let arg = std::env::args().nth(1).expect("usage: tzchild <history.json | ->");
    let text = if arg == "-" {
        let mut s = String::new();
        std::io::Read::read_to_string(&mut std::io::stdin(), &mut s).unwrap();
        s
    } else {
        std::fs::read_to_string(&arg).expect("history file")
    };
    let hist: Value = serde_json::from_str(&text).expect("history json");
    let probe = hist["probe"].as_i64().expect("probe");
    let steps = hist["steps"].as_array().expect("steps").clone();
    let salt = hist["salt"].as_u64().unwrap_or(0);
    chrono_verif_harness::quiet_panics();
    std::env::remove_var("TZ");

    let w_start = SystemTime::now();
    let m_start = Instant::now();
    let rd = move || -> (u128, u128) {
        let w = SystemTime::now().duration_since(w_start).map(|d| d.as_micros()).unwrap_or(0);
        (w, m_start.elapsed().as_micros())
    };
    let mut out: Vec<Value> = Vec::with_capacity(steps.len() + 1);
    let mut hdr = Map::new();
    hdr.insert("op".into(), json!("start"));
    if let Value::Object(h) = &hist["hdr"] { hdr.extend(h.clone()); }
    out.push(Value::Object(hdr));

    for (i, st) in steps.iter().enumerate() {
        let op = st["op"].as_str().expect("op").to_string();
        let mut e = match st { Value::Object(m) => m.clone(), _ => panic!("step") };
        e.remove("tz"); e.remove("link"); e.remove("target");   // real paths stay out of the trace (ASCII, but long and machine-specific)
        let (w0, m0) = rd();
        // robustness experiments only (C18_JITTER): an artificial scheduling delay inside the step, before the operation
        if let Some(d) = st["delay_us"].as_u64() { std::thread::sleep(Duration::from_micros(d)); }
        e.remove("delay_us");
        match op.as_str() {
            "setenv" => std::env::set_var("TZ", st["tz"].as_str().expect("tz")),
            "unset" => std::env::remove_var("TZ"),
            "wait" => std::thread::sleep(Duration::from_millis(st["ms"].as_u64().expect("ms"))),
            "touch" => {
                let link = st["link"].as_str().expect("link");
                assert!(!link.starts_with("/etc/"), "tzchild never writes under /etc");
                let tmp = format!("{}.new", link);
                let _ = std::fs::remove_file(&tmp);
                std::os::unix::fs::symlink(st["target"].as_str().expect("target"), &tmp).expect("symlink");
                std::fs::rename(&tmp, link).expect("rename");
            }
            "conv" => {
                let dir = st["dir"].as_str().expect("dir").to_string();
                let api = salt + i as u64;
                let r = if st["thr"].as_str() == Some("new") {
                    let d2 = dir.clone();
                    std::thread::spawn(move || chrono_verif_harness::guard(move || convert(&d2, api, probe))).join().expect("join")
                } else {
                    chrono_verif_harness::guard(|| convert(&dir, api, probe))
                };
                match r {
                    Ok((name, obs)) => { e.insert("api".into(), json!(name)); e.insert("obs".into(), obs); }
                    Err(msg) => { e.insert("api".into(), json!("?")); e.insert("panic".into(), json!(msg.chars().filter(|c| c.is_ascii() && !c.is_ascii_control()).take(120).collect::<String>())); }
                }
            }
            other => panic!("unknown step {}", other),
        }
        let (w1, m1) = rd();
        assert!(w1 < (1u128 << 31) && m1 < (1u128 << 31), "history longer than 35 minutes");
        e.insert("w0".into(), json!(w0 as i64));
        e.insert("w1".into(), json!(w1 as i64));
        e.insert("m0".into(), json!(m0 as i64));
        e.insert("m1".into(), json!(m1 as i64));
        out.push(Value::Object(e));
    }
    let mut s = String::new();
    for e in out { s += &e.to_string(); s.push('\n'); }
    print!("{}", s);
}
