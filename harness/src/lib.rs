//! Conformance harness: drives the real chrono (path dependency on /repo, rebuilt from its working
//! tree) and records one event per call for validation by TLC against /verif/spec.
pub mod big;
pub mod out;
pub mod proj;
pub mod rng;
pub mod textgen;
pub mod w;
pub mod r;

use std::panic::{self, AssertUnwindSafe};

thread_local! { static IN_GUARD: std::cell::Cell<u32> = std::cell::Cell::new(0); }

/// Runs `f`, turning a panic into `Err(message)`. A panic in code under test is data.
pub fn guard<T>(f: impl FnOnce() -> T) -> Result<T, String> {
    IN_GUARD.with(|g| g.set(g.get() + 1));
    let r = panic::catch_unwind(AssertUnwindSafe(f));
    IN_GUARD.with(|g| g.set(g.get() - 1));
    match r {
        Ok(v) => Ok(v),
        Err(e) => Err(if let Some(s) = e.downcast_ref::<&str>() {
            s.to_string()
        } else if let Some(s) = e.downcast_ref::<String>() {
            s.clone()
        } else {
            "panic".to_string()
        }),
    }
}

/// Panics inside `guard` are silent (they are recorded as outcomes); a panic of the harness itself is loud.
pub fn quiet_panics() {
    let default = panic::take_hook();
    panic::set_hook(Box::new(move |info| {
        if IN_GUARD.with(|g| g.get()) == 0 {
            default(info);
        }
    }));
}

use serde_json::{json, Map, Value};

fn ascii(s: &str) -> String { s.chars().map(|c| if c.is_ascii() && !c.is_ascii_control() { c } else { '?' }).take(160).collect() }

/// One trace event: `{"op": op, <args>, <results>}`; if the call under test panics the results are
/// replaced by `"panic": <message>` - an outcome no fallible action of the specification explains.
pub fn ev(op: &str, args: Value, f: impl FnOnce() -> Value) -> Value {
    let mut m = Map::new();
    m.insert("op".into(), json!(op));
    if let Value::Object(a) = args { m.extend(a); }
    match guard(f) {
        Ok(Value::Object(r)) => m.extend(r),
        Ok(other) => { m.insert("r".into(), other); }
        Err(msg) => { m.insert("panic".into(), json!(ascii(&msg))); }
    }
    Value::Object(m)
}
