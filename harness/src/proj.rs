//! Projection of chrono values into the abstract values of the specification.
use chrono::{Datelike, NaiveDate, NaiveDateTime, NaiveTime, Timelike};
use serde_json::{json, Value};

pub const NO_DATE: i64 = -2_000_000_000;

/// A date is its day number (days since 0000-12-31); 0001-01-01 = 1.
thread_local! { static IN_SCREEN: std::cell::Cell<bool> = std::cell::Cell::new(false); }
pub fn dn(d: NaiveDate) -> i64 {
    let n = d.num_days_from_ce() as i64;
    if IN_SCREEN.with(|f| f.get()) { return n; }          // building the offender's event projects dates again
    // Every date that passes through the projection is screened for INTERNAL consistency (a date carries redundant packed
    // information - year flags, ordinal, month/day - that an operation may leave inconsistent while the day number is right).
    // The screen is a filter only: a date that fails it is handed to TLC as a full `date` event of Trace_Calendar, which judges it.
    let (y, m, dd) = civil_from_days(n);
    let ok = crate::guard(|| {
        let iw = d.iso_week();
        let jan4 = days_from_civil(iw.year(), 1, 4);
        let w1 = jan4 - (jan4 - 1).rem_euclid(7);
        d.year() == y && d.month() == m && d.day() == dd && d.weekday().num_days_from_monday() as i64 == (n - 1).rem_euclid(7)
            && d.ordinal() as i64 == n - days_from_civil(y, 1, 1) + 1 && d.leap_year() == (days_from_civil(y + 1, 1, 1) - days_from_civil(y, 1, 1) == 366)
            && w1 <= n && n < w1 + 7 * 53 + 7 && iw.week() as i64 == (n - w1) / 7 + 1 && iw.week() <= 53
    }).unwrap_or(false);
    if !ok {
        IN_SCREEN.with(|f| f.set(true));
        let e = crate::w::c01::date_event(d);
        IN_SCREEN.with(|f| f.set(false));
        problem_ev("Trace_Calendar", e);
    }
    n
}
pub fn odn(d: Option<NaiveDate>) -> i64 { d.map(dn).unwrap_or(NO_DATE) }
/// Monday = 0
pub fn wd(w: chrono::Weekday) -> i64 { w.num_days_from_monday() as i64 }
pub fn wd_of(i: i64) -> chrono::Weekday {
    use chrono::Weekday::*;
    [Mon, Tue, Wed, Thu, Fri, Sat, Sun][i as usize]
}
/// time of day: seconds since midnight and the nanosecond field (>= 10^9 for a leap second)
pub fn tod(t: NaiveTime) -> Value { json!({"secs": t.num_seconds_from_midnight(), "frac": t.nanosecond()}) }
pub fn ndt(x: NaiveDateTime) -> Value {
    json!({"n": dn(x.date()), "secs": x.time().num_seconds_from_midnight(), "frac": x.time().nanosecond()})
}
pub fn none() -> Value { json!({"none": 1}) }
pub fn opt<T>(o: Option<T>, f: impl FnOnce(T) -> Value) -> Value {
    match o { Some(x) => f(x), None => none() }
}
/// Problems met while BUILDING input values (a constructor or the day-number accessor of the code under test
/// misbehaving). They are written out by `drive` as `days` events for Trace_Calendar, which rejects them: a broken
/// constructor must surface as a violation, never as a crash of the harness.
pub static PROBLEMS: std::sync::Mutex<Vec<(&'static str, Value)>> = std::sync::Mutex::new(Vec::new());
fn problem_ev(module: &'static str, e: Value) {
    let mut p = PROBLEMS.lock().unwrap();
    if p.len() < 300 { p.push((module, e)); }
}
fn problem(n: i64, observed: i64) {
    problem_ev("Trace_Calendar", json!({"op": "days", "n": n, "r": observed, "note": "building an input value"}));
}
/// days -> (y, m, d), independent of chrono (Howard Hinnant's civil_from_days, shifted to 0001-01-01 = 1)
pub fn civil_from_days(n: i64) -> (i32, u32, u32) {
    let z = n - 1 + 306;                      // days since 0000-03-01
    let era = z.div_euclid(146_097);
    let doe = z.rem_euclid(146_097);
    let yoe = (doe - doe / 1460 + doe / 36_524 - doe / 146_096) / 365;
    let doy = doe - (365 * yoe + yoe / 4 - yoe / 100);
    let mp = (5 * doy + 2) / 153;
    let d = doy - (153 * mp + 2) / 5 + 1;
    let m = if mp < 10 { mp + 3 } else { mp - 9 };
    let y = yoe + era * 400 + if m <= 2 { 1 } else { 0 };
    (y as i32, m as u32, d as u32)
}
/// (y, m, d) -> day number, independent of chrono
pub fn days_from_civil(y: i32, m: u32, d: u32) -> i64 {
    let y = y as i64 - if m <= 2 { 1 } else { 0 };
    let era = y.div_euclid(400);
    let yoe = y.rem_euclid(400);
    let mp = (m as i64 + 9) % 12;
    let doy = (153 * mp + 2) / 5 + d as i64 - 1;
    let doe = yoe * 365 + yoe / 4 - yoe / 100 + doy;
    era * 146_097 + doe - 306 + 1
}
pub fn mk_date(n: i64) -> NaiveDate {
    match crate::guard(|| NaiveDate::from_num_days_from_ce_opt(n as i32)) {
        Ok(Some(d)) => {
            match crate::guard(|| d.num_days_from_ce() as i64) { Ok(back) if back == n => {}, Ok(back) => problem(n, back), Err(_) => problem(n, NO_DATE) }
            d
        }
        _ => {
            problem(n, NO_DATE);
            let (y, m, d) = civil_from_days(n);
            crate::guard(|| NaiveDate::from_ymd_opt(y, m, d)).ok().flatten().unwrap_or(NaiveDate::MIN)
        }
    }
}
pub fn mk_time(secs: u32, frac: u32) -> NaiveTime { NaiveTime::from_num_seconds_from_midnight_opt(secs, frac).unwrap() }
pub fn ymd(d: NaiveDate) -> (i32, u32, u32) { (d.year(), d.month(), d.day()) }

use chrono::TimeDelta;
pub const NS: i128 = 1_000_000_000;
/// A duration is its exact nanosecond count.
pub fn dur_ns(d: TimeDelta) -> i128 {
    let ns = d.num_seconds() as i128 * NS + d.subsec_nanos() as i128;
    // screen for INTERNAL consistency (a duration is stored as seconds + normalised nanoseconds): the value rebuilt from the projected
    // count must be equal to, compare equal with and print like the original; an offender is handed to TLC as a comparison event
    let s = ns.div_euclid(NS);
    if s >= i64::MIN as i128 && s <= i64::MAX as i128 {
        let ok = crate::guard(|| match TimeDelta::new(s as i64, ns.rem_euclid(NS) as u32) {
            Some(c) => c == d && c.cmp(&d) == std::cmp::Ordering::Equal && c.to_string() == d.to_string() && d.subsec_nanos().unsigned_abs() < 1_000_000_000,
            None => ns.abs() > DUR_LIM,      // an out-of-range value is reported by the specification's own range check
        }).unwrap_or(false);
        if !ok {
            problem_ev("Trace_Duration", json!({"op": "d.cmp", "a": crate::big::big(ns), "b": crate::big::big(ns), "c": 1, "eq": false, "note": "a TimeDelta that is not in normal form"}));
        }
    }
    ns
}
pub fn dur(d: TimeDelta) -> Value { crate::big::big(dur_ns(d)) }
pub fn mk_dur(ns: i128) -> Option<TimeDelta> {
    let s = ns.div_euclid(NS);
    if s < i64::MIN as i128 || s > i64::MAX as i128 { return None; }
    let r = crate::guard(|| TimeDelta::new(s as i64, ns.rem_euclid(NS) as u32)).unwrap_or(None);
    // an in-range duration that cannot be built, or is built as another value, is a finding, not a harness error
    let ok = match r { Some(d) => crate::guard(|| dur_ns(d)) == Ok(ns), None => ns.abs() > DUR_LIM };
    if !ok {
        problem_ev("Trace_Duration", json!({"op": "d.new", "secs": crate::big::big(s), "nanos": crate::big::big(ns.rem_euclid(NS)),
            "r": match r { Some(d) => crate::guard(|| dur(d)).unwrap_or_else(|_| none()), None => none() }, "note": "building an input value"}));
    }
    r
}
/// (2^63 - 1) ms in ns
pub const DUR_LIM: i128 = (i64::MAX as i128) * 1_000_000;
/// any [secs, frac] with frac < 2*10^9, leap representation on arbitrary seconds included
pub fn mk_time_any(secs: u32, frac: u32) -> NaiveTime {
    let base = crate::guard(|| NaiveTime::from_num_seconds_from_midnight_opt(secs, 0)).ok().flatten();
    let t = base.and_then(|b| crate::guard(|| b.with_nanosecond(frac)).ok().flatten());
    let good = t.map(|t| crate::guard(|| (t.num_seconds_from_midnight(), t.nanosecond())) == Ok((secs, frac))).unwrap_or(false);
    if !good {
        problem_ev("Trace_TimeOfDay", json!({"op": "t.nsfm", "secs": crate::big::big(secs as i128), "n": crate::big::big(0), "r": opt(base, tod), "note": "building an input value"}));
        if let Some(b) = base {
            problem_ev("Trace_TimeOfDay", json!({"op": "t.with", "f": "nanosecond", "t": tod(b), "v": crate::big::big(frac as i128), "r": opt(t, tod), "note": "building an input value"}));
        }
    }
    t.or(base).unwrap_or(NaiveTime::MIN)
}
pub fn mk_ndt(n: i64, secs: u32, frac: u32) -> NaiveDateTime { mk_date(n).and_time(mk_time_any(secs, frac)) }

/// Witnesses for digit-pair tables and per-field lookup tables of the text writers: the 100 values of a two-digit field in both halves
/// of a four-digit year (year 101 k has k in both), every month, every hour, every minute and every second at least once.
pub fn pair_witnesses() -> Vec<NaiveDateTime> {
    (0..100u32).map(|k| {
        let d = mk_date(days_from_civil((101 * k) as i32, k % 12 + 1, (k * 7) % 28 + 1));
        let mi = if k < 60 { k } else { (k * 7) % 60 };
        d.and_time(mk_time_any((k % 24) * 3600 + mi * 60 + (k * 11) % 60, [0u32, 5_000_000, 120_000, 999_999_999, 1_000][k as usize % 5]))
    }).collect()
}

/// A sequence for one-entry memos and reused scratch state inside a writer or reader: consecutive values agree in one component and differ
/// in another (same ordinal in a leap and a common year, same month and day in different years, same year and different days, ...), each
/// visited again after its neighbour.
pub fn memo_sequence() -> Vec<NaiveDate> {
    let mut v = Vec::new();
    for o in [59i64, 60, 61, 244, 245, 365] {
        for y in [2016, 2015, 2016, 2017, 2000, 1900] { v.push(mk_date(days_from_civil(y, 1, 1) + o - 1)); }
    }
    for (m, d) in [(2u32, 28u32), (3, 1), (12, 31), (1, 1)] { for y in [2024, 2023, 2024, 1999, 9999, 0] { v.push(mk_date(days_from_civil(y, m, d))); } }
    v.push(mk_date(days_from_civil(2016, 12, 31))); v.push(mk_date(days_from_civil(2015, 12, 31))); v.push(mk_date(days_from_civil(2016, 12, 30)));
    v
}

/// Points of every binary scale of the date range: an intermediate value of 8, 16, 24 or 32 bits (a year, a day count, a month count)
/// overflows or changes representation at a power of two in the MIDDLE of the range, far from the range ends that the lattices cover.
/// Day numbers of 1 January / 2 July / 31 December of the years +-(2^k - 1), +-2^k, +-(2^k + 1), +-3*2^(k-1), and the day numbers
/// +-2^k - 1, +-2^k, +-2^k + 1 themselves.
pub fn scale_days() -> Vec<i64> {
    let (lo, hi) = (-95_746_129i64, 95_745_399i64);
    let mut v = Vec::new();
    for k in 6..=17u32 { for y in [(1i64 << k) - 1, 1 << k, (1 << k) + 1, 3 << (k - 1)] { for s in [1i64, -1] {
        let yy = (s * y) as i32;
        if yy < -262_143 || yy > 262_142 { continue; }
        for (m, d) in [(1u32, 1u32), (7, 2), (12, 31)] { v.push(days_from_civil(yy, m, d)); }
    } } }
    for k in 8..=26u32 { for d in [-1i64, 0, 1] { for s in [1i64, -1] { let n = s * (1i64 << k) + d; if n >= lo && n <= hi { v.push(n); } } } }
    v.sort(); v.dedup();
    v
}

/// Sub-second values whose three digit groups (milli-, micro-, nanoseconds) each take the values that alias 0 in a narrower integer
/// (256, 512, 768 in 8 bits) or sit at the ends of the group: a writer that decides its precision group by group goes wrong on exactly one of these.
pub fn fraction_groups() -> Vec<u32> {
    let g = [0u32, 1, 256, 512, 768, 999];
    let mut v = Vec::new();
    for a in g { for b in g { for c in g { v.push(a * 1_000_000 + b * 1_000 + c); } } }
    v
}
