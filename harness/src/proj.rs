//! Projection of chrono values into the abstract values of the specification.
use chrono::{Datelike, NaiveDate, NaiveDateTime, NaiveTime, Timelike};
use serde_json::{json, Value};

pub const NO_DATE: i64 = -2_000_000_000;

/// A date is its day number (days since 0000-12-31); 0001-01-01 = 1.
pub fn dn(d: NaiveDate) -> i64 { d.num_days_from_ce() as i64 }
pub fn odn(d: Option<NaiveDate>) -> i64 { d.map(dn).unwrap_or(NO_DATE) }
/// Monday = 0
pub fn wd(w: chrono::Weekday) -> i64 { w.num_days_from_monday() as i64 }
pub fn wd_of(i: i64) -> chrono::Weekday {
    use chrono::Weekday::*;
    [Mon, Tue, Wed, Thu, Fri, Sat, Sun][i as usize]
}
/// time of day: seconds since midnight and the nanosecond field (>= 10^9 for a leap second)
pub fn tod(t: NaiveTime) -> Value { json!({"secs": t.num_seconds_from_midnight(), "frac": t.nanosecond()}) }
pub fn ndt(x: NaiveDateTime) -> Value {
    json!({"n": dn(x.date()), "secs": x.time().num_seconds_from_midnight(), "frac": x.time().nanosecond()})
}
pub fn none() -> Value { json!({"none": 1}) }
pub fn opt<T>(o: Option<T>, f: impl FnOnce(T) -> Value) -> Value {
    match o { Some(x) => f(x), None => none() }
}
pub fn mk_date(n: i64) -> NaiveDate { NaiveDate::from_num_days_from_ce_opt(n as i32).unwrap() }
pub fn mk_time(secs: u32, frac: u32) -> NaiveTime { NaiveTime::from_num_seconds_from_midnight_opt(secs, frac).unwrap() }
pub fn ymd(d: NaiveDate) -> (i32, u32, u32) { (d.year(), d.month(), d.day()) }
