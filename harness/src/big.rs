//! Big integers in the trace format: {"neg": bool, "mag": [little-endian base-1000 limbs]}.
//! TLC integers are 32-bit and its Json module silently truncates larger numbers, so no JSON number
//! >= 2^31 may ever be written (asserted in `out`).
use serde_json::{json, Value};

pub fn big(v: i128) -> Value {
    let neg = v < 0;
    let mut m = v.unsigned_abs();
    let mut mag = Vec::new();
    while m > 0 {
        mag.push((m % 1000) as u32);
        m /= 1000;
    }
    json!({"neg": neg && !mag.is_empty(), "mag": mag})
}

pub fn unbig(v: &Value) -> i128 {
    let mut r: i128 = 0;
    for l in v["mag"].as_array().unwrap().iter().rev() {
        r = r * 1000 + l.as_i64().unwrap() as i128;
    }
    if v["neg"].as_bool().unwrap() { -r } else { r }
}

/// Text as an array of Unicode code points.
pub fn cps(s: &str) -> Value {
    Value::Array(s.chars().map(|c| json!(c as u32)).collect())
}

pub fn bytes(b: &[u8]) -> Value {
    Value::Array(b.iter().map(|c| json!(*c)).collect())
}

pub fn uncps(v: &Value) -> String {
    v.as_array().unwrap().iter().map(|c| char::from_u32(c.as_u64().unwrap() as u32).unwrap()).collect()
}
