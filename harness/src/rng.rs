//! Small deterministic generator (SplitMix64) so that every run is reproducible from VERIF_SEED.
#[derive(Clone)]
pub struct Rng(pub u64);
impl Rng {
    pub fn new(seed: u64) -> Self { Rng(seed ^ 0x9E3779B97F4A7C15) }
    pub fn next(&mut self) -> u64 {
        self.0 = self.0.wrapping_add(0x9E3779B97F4A7C15);
        let mut z = self.0;
        z = (z ^ (z >> 30)).wrapping_mul(0xBF58476D1CE4E5B9);
        z = (z ^ (z >> 27)).wrapping_mul(0x94D049BB133111EB);
        z ^ (z >> 31)
    }
    /// uniform in lo..=hi
    pub fn range(&mut self, lo: i64, hi: i64) -> i64 {
        let span = (hi as i128 - lo as i128 + 1) as u128;
        (lo as i128 + (self.next() as u128 % span) as i128) as i64
    }
    pub fn below(&mut self, n: usize) -> usize { (self.next() % n as u64) as usize }
    pub fn pick<'a, T>(&mut self, xs: &'a [T]) -> &'a T { &xs[self.below(xs.len())] }
    pub fn chance(&mut self, num: u64, den: u64) -> bool { self.next() % den < num }
    /// log-uniform magnitude with random sign, |v| < 2^bits
    pub fn loguniform(&mut self, bits: u32) -> i64 {
        let b = self.below(bits as usize + 1) as u32;
        let m = if b == 0 { 0 } else { (self.next() >> (64 - b.min(63))) as i64 };
        if self.chance(1, 2) { -m } else { m }
    }
}

/// Values that alias `v` when a u32 is narrowed or bit-packed: v + 2^j for every j that does not overflow.
/// (Any packing or narrowing mistake accepts exactly such values; they are "boundary values" of the width.)
pub fn alias_u32(v: u32) -> Vec<u32> {
    (3..32).filter_map(|j| v.checked_add(1u32 << j)).collect()
}
