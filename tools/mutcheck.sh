#!/bin/bash
# usage: tools/mutcheck.sh <patch-file | -R:<commit>> <ID> [<ID>...]
# Applies a change to /repo's working tree, runs the quick checks, and restores /repo. Prints the verdict per check.
set -u
P="$1"; shift
cd /repo || exit 2
if ! git diff --quiet; then echo "/repo has uncommitted changes"; exit 2; fi
if [[ "$P" == -R:* ]]; then git show "${P#-R:}" | git apply -R || { echo "cannot revert"; exit 2; }
else git apply "$P" || { echo "patch does not apply"; exit 2; }; fi
cd /verif
for id in "$@"; do
  out=$(python3 tools/verif.py check "$id" 2>&1); rc=$?
  n=$(echo "$out" | grep -c '^VIOLATION')
  echo "MUT $P $id rc=$rc violations_listed=$n  $(echo "$out" | grep -m1 -A1 '^VIOLATION' | tail -1 | cut -c1-200)"
done
git -C /repo checkout -- . 
