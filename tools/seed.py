#!/usr/bin/env python3
"""Confirm and record a seeded change, then run checks against it.

  seed.py confirm <src_dir> <PROP> <name>   src_dir holds patch.diff, demo.rs, notes.md (from a mutation sub-agent).
        In a scratch worktree of /repo (under /tmp, removed afterwards): (1) the change applies and builds, (2) the unedited
        test suite passes with it, (3) the demo fails with it, (4) the demo passes without it. On success the change is stored
        as /verif/seeded/<PROP>-<name>/{patch.diff,demo.rs,notes.md,meta.json}.
  seed.py run <PROP>-<name> [ID ...]        apply the stored patch to /repo, run the quick checks (default: its property),
        restore /repo, and record the verdicts in meta.json.
"""
import sys, os, json, subprocess, shutil, time

ROOT = os.path.dirname(os.path.dirname(os.path.abspath(__file__)))
SEEDED = os.path.join(ROOT, "seeded")


def sh(cmd, cwd=None, timeout=3600):
    p = subprocess.run(cmd, cwd=cwd, shell=True, stdout=subprocess.PIPE, stderr=subprocess.STDOUT, text=True, timeout=timeout)
    return p.returncode, p.stdout


def confirm(src, prop, name):
    wt = "/tmp/seedchk-%d" % os.getpid()
    sh("git -C /repo worktree remove --force %s" % wt)
    rc, out = sh("git -C /repo worktree add -q --detach %s HEAD" % wt)
    if rc != 0:
        print(out); return 2
    res = {}
    envp = ""
    if os.path.exists(os.path.join(src, "env")):
        envp = " ".join("%s='%s'" % tuple(l.strip().split("=", 1)) for l in open(os.path.join(src, "env")) if "=" in l) + " "
    feat = ""
    if os.path.exists(os.path.join(src, "features")):
        feat = " --features " + open(os.path.join(src, "features")).read().strip()
    try:
        demo = os.path.join(wt, "tests", "seed_demo.rs")
        shutil.copy(os.path.join(src, "demo.rs"), demo)
        rc, out = sh(envp + "cargo test --offline -j 6 --test seed_demo" + feat + " 2>&1 | tail -15", cwd=wt)
        res["demo_passes_without_change"] = "test result: ok" in out and "FAILED" not in out
        rc, out = sh("git apply %s" % os.path.join(src, "patch.diff"), cwd=wt)
        res["applies"] = rc == 0
        if rc != 0:
            print(out)
        rc, out = sh(envp + "cargo test --offline -j 6 --test seed_demo" + feat + " 2>&1 | tail -25", cwd=wt)
        res["demo_fails_with_change"] = "FAILED" in out or "failed" in out
        os.remove(demo)
        rc, out = sh("cargo test --offline -j 6 --workspace --no-fail-fast 2>&1 | grep -E 'test result|FAILED|error(\\[|:)' | head -20", cwd=wt)
        res["suite_passes_with_change"] = "FAILED" not in out and "error" not in out and out.count("test result: ok") >= 3
        res["suite_summary"] = out.strip().splitlines()[:6]
    finally:
        sh("git -C /repo worktree remove --force %s" % wt)
    ok = all(res.get(k) for k in ("demo_passes_without_change", "applies", "demo_fails_with_change", "suite_passes_with_change"))
    print(json.dumps(res, indent=1))
    if not ok:
        print("NOT CONFIRMED")
        return 1
    d = os.path.join(SEEDED, "%s-%s" % (prop, name))
    os.makedirs(d, exist_ok=True)
    for f in ("patch.diff", "demo.rs", "notes.md", "env", "features"):
        if os.path.exists(os.path.join(src, f)):
            shutil.copy(os.path.join(src, f), d)
    lines = [l.strip(" #*-") for l in open(os.path.join(src, "notes.md")).read().splitlines() if l.strip(" #*-")] if os.path.exists(os.path.join(src, "notes.md")) else []
    meta = dict(property=prop, name=name, summary=(lines[0][:300] if lines else ""), needs_to_manifest=(lines[1][:300] if len(lines) > 1 else ""), confirmed=res, confirmed_at=time.strftime("%Y-%m-%dT%H:%M:%S"),
                needs=open(os.path.join(src, "notes.md")).read()[:1500] if os.path.exists(os.path.join(src, "notes.md")) else "",
                ran=["cargo test --offline --test seed_demo (without change: pass; with change: fail)", "cargo test --offline --workspace --no-fail-fast (with change: pass)"],
                checks={})
    json.dump(meta, open(os.path.join(d, "meta.json"), "w"), indent=1)
    print("CONFIRMED ->", d)
    return 0


def run(seed, ids):
    """Applies the stored patch to a scratch worktree of /repo (never to /repo itself, which other runs may be using) and runs
    the quick checks against it through VERIF_REPO."""
    d = os.path.join(SEEDED, seed)
    meta = json.load(open(os.path.join(d, "meta.json")))
    ids = ids or [meta["property"]]
    lane = os.environ.get("VERIF_LANE", "")          # a second lane (own worktree, own work-alt<lane>) can run next to the first
    wt = "/tmp/seedrun-repo" + lane
    sh("git -C /repo worktree remove --force %s" % wt)
    rc, out = sh("git -C /repo worktree add -q --detach %s HEAD" % wt)
    if rc != 0:
        print(out); return 2
    try:
        rc, out = sh("git apply %s" % os.path.join(d, "patch.diff"), cwd=wt)
        if rc != 0 and meta.get("base"):
            # the change rewrites lines that a later `fix:` commit touched: it is replayed on the tree it was written against
            # (a defect repaired since then is present there again and is reported along with the change)
            print("SEED %s: does not apply to /repo HEAD; replaying on its recorded base %s" % (seed, meta["base"]))
            sh("git checkout -q --detach %s" % meta["base"], cwd=wt)
            # the hook commit is an ancestor of every base, nothing else is needed
            rc, out = sh("git apply %s" % os.path.join(d, "patch.diff"), cwd=wt)
        if rc != 0:
            print("patch does not apply:", out); return 2
        for i in ids:
            rc, out = sh("VERIF_REPO=%s VERIF_WORK_SUFFIX=-seed python3 tools/verif.py check %s" % (wt, i), cwd=ROOT)
            nviol = out.count("\nVIOLATION")
            first = [l for l in out.splitlines() if l.startswith("VIOLATION") or l.startswith("    {")][:2]
            meta["checks"][i] = dict(exit=rc, detected=(rc == 1), violations_listed=nviol, first=[f[:300] for f in first], at=time.strftime("%Y-%m-%dT%H:%M:%S"))
            print("SEED %s check %s: exit=%d detected=%s (%d listed) %s" % (seed, i, rc, rc == 1, nviol, first[1][:160] if len(first) > 1 else ""))
    finally:
        sh("git -C /repo worktree remove --force %s" % wt)
    json.dump(meta, open(os.path.join(d, "meta.json"), "w"), indent=1)
    return 0


if __name__ == "__main__":
    a = sys.argv[1:]
    if len(a) >= 4 and a[0] == "confirm":
        sys.exit(confirm(a[1], a[2], a[3]))
    if len(a) >= 2 and a[0] == "run":
        sys.exit(run(a[1], a[2:]))
    print(__doc__)
    sys.exit(2)
