"""Vacuity guard for the text-form properties (C09, C10, C11, C20): corrupt single fields of recorded events and
demand that the trace specification rejects exactly those events.

corruption_selftest(V, pid, workload, module, corruptions) drives the quick workload, takes a slice of the first
chunk that contains every wanted operation, validates it unchanged (baseline: only known findings may be rejected),
then applies each corruption `(label, selector(event) -> bool, mutate(event) -> None)` to the first event the
selector accepts and validates again: the rejected set must be baseline + exactly the corrupted indices.
"""
import copy, glob, json, os, re, shutil


def _rejects(V, module, path):
    r = V.run_tlc(module, "Trace.cfg", env={"TRACE": path}, timeout=600)
    n = sum(1 for _ in open(path))
    m = re.search(r'<<"CONSUMED", (\d+)>>', r["out"])
    if not m or int(m.group(1)) != n or V.tlc_failed(r):
        V.log(r["out"][-3000:])
        raise V.ToolFailure("selftest: %s did not consume %s" % (module, path))
    return sorted(int(x) for x in re.findall(r'<<"REJECT", (\d+)>>', r["out"]))


def corruption_selftest(V, pid, workload, module, corruptions, per_op=6):
    out = os.path.join(V.WORK, "selftest-" + pid)
    V.run_drive(workload, "quick", 20261001, out)
    events = []
    for c in sorted(glob.glob(os.path.join(out, module + ".*.ndjson"))):
        events += [json.loads(l) for l in open(c)]
    # a small trace: the first `per_op` events of every (op, ty/unit/src) class
    seen, small = {}, []
    for e in events:
        res = e.get("r", e.get("back", {}))
        k = (e.get("op"), e.get("ty"), e.get("form"), e.get("unit"), e.get("src"), e.get("fmt"), e.get("via"), e.get("headroom"), e.get("submin"),
             e.get("opt"), e.get("naive"), e.get("sf"), "ok" in res if isinstance(res, dict) else None,
             "none" in res if isinstance(res, dict) else (res == -2000000000 if isinstance(res, int) else None), e.get("f"), e.get("mode"))
        k = tuple(json.dumps(x, sort_keys=True) if isinstance(x, (dict, list)) else x for x in k)
        if seen.get(k, 0) < per_op:
            seen[k] = seen.get(k, 0) + 1
            small.append(e)
    base_path = os.path.join(out, "_selftest_base.ndjson")
    with open(base_path, "w") as f:
        for e in small:
            f.write(json.dumps(e) + "\n")
    baseline = _rejects(V, module, base_path)
    known = [x for x in V.load_known() if x.get("status") == "open" and x["property"] == pid]
    unexplained = [i for i in baseline if not any(V.match_known(k, small[i - 1]) for k in known)]
    rc = 0
    if unexplained:
        V.log("SELFTEST %s: FAIL - uncorrupted events rejected: %s" % (pid, unexplained[:10]))
        rc = 1
    corrupted = copy.deepcopy(small)
    want = set(baseline)
    labels = {}
    for label, sel, mut in corruptions:
        idx = next((i for i, e in enumerate(small) if (i + 1) not in want and sel(e)), None)
        if idx is None:
            V.log("SELFTEST %s: FAIL - no event for corruption '%s'" % (pid, label))
            rc = 1
            continue
        mut(corrupted[idx])
        want.add(idx + 1)
        labels[idx + 1] = label
    bad_path = os.path.join(out, "_selftest_corrupted.ndjson")
    with open(bad_path, "w") as f:
        for e in corrupted:
            f.write(json.dumps(e) + "\n")
    got = set(_rejects(V, module, bad_path))
    if got != want:
        V.log("SELFTEST %s: FAIL - expected rejects %s, got %s (missed: %s; spurious: %s)" % (
            pid, sorted(want), sorted(got), [(i, labels.get(i)) for i in sorted(want - got)], sorted(got - want)))
        rc = 1
    else:
        V.log("SELFTEST %s: ok - %d events, baseline rejects %d (all known findings), %d corruptions each rejected at exactly its index: %s" % (
            pid, len(small), len(baseline), len(labels), ", ".join("%d=%s" % (i, labels[i]) for i in sorted(labels))))
    return rc


def bump(seq, i=0, d=1):
    seq[i] = seq[i] + d
