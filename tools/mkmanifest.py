#!/usr/bin/env python3
"""Regenerates /verif/MANIFEST.json from tools/props.py (single source of truth for what is claimed)."""
import json, os, sys
sys.path.insert(0, os.path.dirname(os.path.abspath(__file__)))
import props
ROOT = os.path.dirname(os.path.dirname(os.path.abspath(__file__)))
ALL = [json.loads(l)["id"] for l in open(os.path.join(ROOT, "properties.jsonl"))]
checks, na = [], []
for pid in ALL:
    P = props.PROPS.get(pid)
    if not P or P.get("not_applicable"):
        na.append(dict(property_id=pid, reason=(P or {}).get("not_applicable", "check not built yet (work in progress; see DESIGN.md section 12)")))
        continue
    checks.append(dict(
        property_id=pid,
        quick_cmd="python3 tools/verif.py check %s --tier quick" % pid,
        thorough_cmd="python3 tools/verif.py check %s --tier thorough" % pid,
        evidence_file="/verif/evidence/%s.json" % pid,
        replay_cmd_template="python3 tools/verif.py replay {path}",
        engine="tla-trace-validation",
        level_claimed=dict(category=P.get("level", "model_checking"), text=P["level_text"], design_ref=P.get("design_ref", "DESIGN.md section 7 " + pid)),
        level_note=P.get("level_note", "Trusted: TLC 1.8 (incl. Json/IOUtils), the harness projection code, the limb encoding of big integers. "
                         "Bounded: design checks use small constants; conformance covers the driven inputs only."),
        technique=P.get("technique", "TLA+ specification; TLC bounded design check + trace validation of the real code"),
    ))
man = dict(
    version=1,
    setup_cmd="python3 tools/verif.py setup",
    hooks=dict(guard="chronotope_chrono_verif",
               enable="RUSTFLAGS --cfg chronotope_chrono_verif (set by /verif/harness/.cargo/config.toml; the harness has a path dependency on /repo)",
               baseline_off_cmd="cd /repo && cargo test --workspace --no-fail-fast --offline",
               source_commits=props.HOOK_COMMITS, add_only=True),
    engines=[dict(name="tla-trace-validation", path="/verif/tools/verif.py", serves_properties=[c["property_id"] for c in checks],
                  kind_free_text="Explicit TLA+ specification in /verif/spec; TLC does (D) bounded design checks of the spec, (T) validation of NDJSON traces recorded "
                                 "by the Rust harness from the real chrono built from /repo's working tree, (R) replay of TLC-generated behaviours on the real code.")],
    checks=checks,
    not_applicable=na,
    notes="See DESIGN.md. Known findings: known_findings.json. Seeded changes: seeded/.",
)
json.dump(man, open(os.path.join(ROOT, "MANIFEST.json"), "w"), indent=1)
print("MANIFEST.json: %d checks, %d not_applicable" % (len(checks), len(na)))
