#!/usr/bin/env python3
"""Robustness audit of the harness: with a seeded change applied to a scratch worktree, every workload (not only the one of the
change's own property) must still run to completion - a panic of the code under test is data, never a crash of the harness.
Usage: crossdrive.py <seed> [<seed> ...]   (prints one line per workload that crashed; exit 1 if any did)
Only the drive step runs (no TLC): about three minutes per seed."""
import json, os, shutil, subprocess, sys
ROOT = os.path.dirname(os.path.dirname(os.path.abspath(__file__)))
WT = "/tmp/crossdrive-repo"
os.environ["VERIF_REPO"] = WT
os.environ["VERIF_LANE"] = "-crossdrive"
sys.path.insert(0, os.path.join(ROOT, "tools"))
import verif as V   # noqa: E402

WORKLOADS = ["C%02d" % i for i in range(1, 21) if i != 18]      # C18 runs child processes from the orchestrator, not a workload


def sh(cmd, cwd=None):
    p = subprocess.run(cmd, shell=True, cwd=cwd, stdout=subprocess.PIPE, stderr=subprocess.STDOUT, text=True)
    return p.returncode, p.stdout


def main(seeds):
    bad = 0
    for s in seeds:
        sh("git -C /repo worktree remove --force %s" % WT)
        rc, out = sh("git -C /repo worktree add -q --detach %s HEAD" % WT)
        if rc:
            print(out); return 2
        try:
            rc, out = sh("git apply %s" % os.path.join(ROOT, "seeded", s, "patch.diff"), cwd=WT)
            if rc:
                print("CROSS %s: patch does not apply" % s); continue
            try:
                V.build_harness()
            except Exception as e:
                print("CROSS %s: harness build failed: %s" % (s, e)); bad += 1; continue
            crashed = []
            for w in WORKLOADS:
                out_dir = os.path.join(V.WORK, "x-" + w)
                p = subprocess.run(["timeout", "900", V.harness_bin("drive"), w, "--tier", "quick", "--seed", "20261001", "--out", out_dir],
                                   cwd=ROOT, stdout=subprocess.PIPE, stderr=subprocess.PIPE, text=True, errors="replace")
                shutil.rmtree(out_dir, ignore_errors=True)
                if p.returncode != 0:
                    where = [l for l in p.stderr.splitlines() if "chrono_verif_harness::" in l or "panicked at" in l][:4]
                    crashed.append((w, p.returncode, where))
            print("CROSS %s: %s" % (s, "all %d workloads ran" % len(WORKLOADS) if not crashed else "CRASHED " + json.dumps(crashed)), flush=True)
            bad += len(crashed)
        finally:
            sh("git -C /repo worktree remove --force %s" % WT)
    return 1 if bad else 0


if __name__ == "__main__":
    sys.exit(main(sys.argv[1:]))
