#!/usr/bin/env python3
"""Prints the table of seeded changes and the verdict of each check that was run against them (from seeded/*/meta.json)."""
import json, glob, os, re
ROOT = os.path.dirname(os.path.dirname(os.path.abspath(__file__)))
rows = []
for d in sorted(glob.glob(os.path.join(ROOT, "seeded", "*"))):
    m = json.load(open(os.path.join(d, "meta.json")))
    patch = open(os.path.join(d, "patch.diff")).read()
    files = sorted(set(re.findall(r"^\+\+\+ b/(\S+)", patch, re.M)))
    notes = m.get("needs", "")
    first = ""
    for line in notes.splitlines():
        line = line.strip(" #*-")
        if len(line) > 25 and not line.lower().startswith(("notes", "change", "file")):
            first = line
            break
    verdicts = ", ".join("%s: %s" % (k, "caught (%d+ events)" % v["violations_listed"] if v["detected"] else ("MISSED" if v["exit"] == 0 else "tool failure")) for k, v in sorted(m.get("checks", {}).items()))
    rows.append("| %s | %s | %s | %s | %s | %s |" % (os.path.basename(d), ", ".join(f.replace("src/", "") for f in files), m.get("summary", first[:150]).replace("|", "/"),
                m.get("needs_to_manifest", "").replace("|", "/"), verdicts or "not run", m.get("history", "").replace("|", "/")))
print("| seeded change | file(s) | change | needs in order to manifest | verdict of the quick check (now) | history |")
print("|---|---|---|---|---|---|")
print("\n".join(rows))
