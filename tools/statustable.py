#!/usr/bin/env python3
"""Prints the per-property status table from tools/propdefs and evidence/*.json (what the last quick run on the clean tree covered)."""
import json, os, sys
sys.path.insert(0, os.path.dirname(os.path.abspath(__file__)))
import props
ROOT = os.path.dirname(os.path.dirname(os.path.abspath(__file__)))
print("| id | design checks (D) | lemmas | trace events validated (T) | behaviours replayed (R) | distinct actions | known findings seen | wall (s) |")
print("|---|---|---|---|---|---|---|---|")
for pid in sorted(props.PROPS):
    P = props.PROPS[pid]
    ev = json.load(open(os.path.join(ROOT, "evidence", pid + ".json")))
    c = ev["coverage"]
    d = ", ".join("%s (%d states)" % (x["module"], x["distinct"]) for x in c.get("design_checks", []))
    ex = c.get("extra", {})
    extra = ""
    if ex:
        extra = " + %s child-process histories" % ex.get("histories", ex.get("traces", "")) if pid == "C18" else ""
    print("| %s | %s | %s | %s | %s%s | %d | %s | %.0f |" % (pid, d or "-", len(c.get("lemmas", [])) or "-", c.get("events_validated", 0), c.get("behaviours_replayed", 0), extra,
          len(c.get("events_by_action", {})), ", ".join(c.get("known_findings_seen", [])) or "-", ev["wall_s"]))
