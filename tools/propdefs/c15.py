"""C15 - fallible operations fail by value, not by panic or hang."""
PROPS = {
    "C15": dict(design=["StrftimeItems"], drive="C15",
                level_text="Totality.tla is the action table of C15: every public non-deprecated fallible entry point has only the outcomes ok / none / err / ambiguous, for every argument, "
                           "and returned values are valid values of their type; documented-to-panic operations are listed separately. A dedicated extremes driver calls each entry point with "
                           "integer extremes, both range ends, headroom wall clocks, arbitrary Unicode text and arbitrary format strings (item iteration under an explicit bound, and the item COUNT must equal that of the specification's tokeniser StrftimeItems.tla, whose progress variant is model-checked), and TLC validates "
                           "each recorded outcome against the table. Every other property's trace specification also rejects panics, so all checks contribute to C15.",
                level="model_checking",
                technique="TLA+ action table of fallible operations; TLC trace validation of an extremes/fuzz driver over every entry point (overflow checks and debug assertions on)",
                assumptions=["TLC 1.8 and its Json/IOUtils overrides", "a hang of the code under test surfaces as a tool failure (exit 2) through the driver's time limit, not as a violation; "
                             "item iteration is bounded by take(7*len+18) and the count is judged",
                             "the harness is built with overflow-checks and debug-assertions enabled"]),
}
