"""C11 - RFC 2822 output round-trips and obsolete forms are read as specified."""
DESIGN = {
    "Rfc2822": dict(module="MC_Rfc2822", quick="MC_Rfc2822_quick.cfg", thorough="MC_Rfc2822_thorough.cfg", workers=4),
}
GEN = {
    "Rfc2822": dict(module="Gen_Rfc2822", quick="Gen_Rfc2822_quick.cfg", thorough="Gen_Rfc2822_thorough.cfg", kind="rfc2822", workers=1),
}
PROPS = {
    "C11": dict(design=["Rfc2822"], drive="C11", gens=["Rfc2822"], exhaustive=False,
                level_text="Rfc2822.tla specifies the renderer `Www, D Mon YYYY HH:MM:SS +HHMM` and the reader's grammar as a generator Gen(fields, choices) with every "
                           "optional part of the statement (weekday, seconds, nested / escaped trailing comments, white-space runs incl. line folds, 2 / 3 / 4+-digit years "
                           "with the year-length rule, numeric zones, UT GMT EST..PDT, military letters) and Denoted(fields); a recogniser Read is the second entry. MC_Rfc2822 "
                           "model-checks Read(Gen(f, c)) = Denoted(f, c) over the syntax-choice combinations x a field lattice, refusal of a contradicting weekday, and that "
                           "Write is the canonical point of the generator. Trace validation judges to_rfc2822 (method and Fixed::RFC2822 item: text, parse-back to whole "
                           "seconds with the leap second kept) and parse_from_rfc2822 on harness-built texts whose fields/choices hint is re-derived by the spec; TLC-generated "
                           "texts are replayed on the real parser.",
                technique="TLA+ grammar spec (generator + recogniser): TLC design check, trace validation with verified construction hints, replay of TLC-generated "
                          "RFC 2822 texts on parse_from_rfc2822",
                assumptions=["TLC 1.8 with the Json/IOUtils community modules", "text is passed as Unicode code points",
                             "only the positive obligations of the statement plus the contradicting-weekday refusal are demanded; mutated / arbitrary text is only required not to panic",
                             "white space = SP, HTAB and CRLF followed by SP/HTAB (RFC 2822 folding); names and zone names in any letter case (ABNF literals are case-insensitive)",
                             "a generated text whose denoted instant lies outside the representable range carries no obligation"]),
}


def _selftest(V):
    from textselftest import corruption_selftest, bump
    C = [
        ("weekday letter in to_rfc2822", lambda e: e["op"] == "to_rfc2822" and e["via"] == "method", lambda e: bump(e["text"], 1)),
        ("offset printed with a colon", lambda e: e["op"] == "to_rfc2822" and e["via"] == "item", lambda e: e["text"].insert(len(e["text"]) - 2, 58)),
        ("leap second lost on parse-back", lambda e: e["op"] == "to_rfc2822" and e["u"]["frac"] >= 10**9, lambda e: e["back"]["ok"]["u"].__setitem__("frac", 0)),
        ("parse-back one second later", lambda e: e["op"] == "to_rfc2822" and e["u"]["secs"] < 86000, lambda e: bump(e["back"]["ok"]["u"], "secs")),
        ("two-digit year read with the other century", lambda e: e["op"] == "parse2822" and len(e["f"]["yt"]) == 2 and "ok" in e["r"], lambda e: bump(e["r"]["ok"]["u"], "n", 36524)),
        ("named zone read as +0000", lambda e: e["op"] == "parse2822" and "ok" in e["r"] and e["r"]["ok"]["off"] in (-18000, -14400, -21600, -25200, -28800), lambda e: e["r"]["ok"].__setitem__("off", 0)),
        ("contradicting weekday accepted", lambda e: e["op"] == "parse2822" and "err" in e["r"], lambda e: e.__setitem__("r", {"ok": {"u": {"n": 730000, "secs": 0, "frac": 0}, "off": 0}})),
        ("text with a comment refused", lambda e: e["op"] == "parse2822" and "ok" in e["r"] and len(e["c"]["cm"]) > 0, lambda e: e.__setitem__("r", {"err": "TooLong"})),
        ("hint does not produce the text", lambda e: e["op"] == "parse2822" and "ok" in e["r"] and e["f"]["d"] < 28, lambda e: bump(e["f"], "d")),
        ("panic on arbitrary text", lambda e: e["op"] == "parse2822_any", lambda e: (e.pop("r"), e.__setitem__("panic", "boom"))),
    ]
    return corruption_selftest(V, "C11", "C11", "Trace_Rfc2822", C)


SELFTESTS = [_selftest]
