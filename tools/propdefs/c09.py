"""C09 - default text forms parse back to the same value."""
DESIGN = {
    "Show": dict(module="MC_Show", quick="MC_Show_quick.cfg", thorough="MC_Show_thorough.cfg", workers=4),
}
GEN = {}
PROPS = {
    "C09": dict(design=["Show"], drive="C09", exhaustive=False,
                level_text="Show.tla specifies Display/Debug of NaiveDate, NaiveTime, NaiveDateTime, DateTime<Utc>, DateTime<FixedOffset>, FixedOffset, Weekday and Month and, "
                           "independently, the documented FromStr grammars; MC_Show model-checks ParseX(ShowX(v)) = v and the three laws of the statement (fewest of 0/3/6/9 "
                           "fraction digits, sign exactly outside 0..9999, :60 for a leap second) on the year / month-end / nanosecond / leap-second lattice x offsets (all "
                           "whole minutes in +-23:59 in the thorough tier); every recorded Display/Debug text and every FromStr result of the real code is validated by TLC "
                           "against the spec (text equality, parse-back equality), Weekday/Month FromStr on names in any case and on near-names.",
                technique="TLA+ text-form spec (writers + reader grammars): TLC design check of the round trip inside the spec, trace validation of recorded to_string / "
                          "format!(\"{:?}\") / str::parse calls",
                assumptions=["TLC 1.8 with the Json/IOUtils community modules",
                             "values are projected by the harness through num_days_from_ce / num_seconds_from_midnight / nanosecond / naive_utc / local_minus_utc "
                             "(accessors judged by C01/C02/C04); text is passed as Unicode code points",
                             "offsets with seconds are judged for their text only (the statement requires the round trip for whole-minute offsets)",
                             "open known findings: C09-ndt-display, C09-headroom-roundtrip"]),
}


def _selftest(V):
    from textselftest import corruption_selftest, bump
    def sub(e, k, old, new):
        e[k][e[k].index(old)] = new
    C = [
        ("last digit of a date's Display", lambda e: e["op"] == "show" and e["ty"] == "date", lambda e: bump(e["display"], -1)),
        ("T -> space in a naive date-time's Debug", lambda e: e["op"] == "show" and e["ty"] == "ndt", lambda e: sub(e, "debug", 84, 32)),
        ("three fraction digits printed as six", lambda e: e["op"] == "show" and e["ty"] == "time" and len(e["display"]) == 12, lambda e: e["display"].extend([48, 48, 48])),
        ("sign dropped for a negative year", lambda e: e["op"] == "show" and e["ty"] == "date" and e["display"][0] == 45, lambda e: e["display"].pop(0)),
        ("UTC printed as Z in Display", lambda e: e["op"] == "show" and e["ty"] == "utc", lambda e: e.__setitem__("display", e["display"][:-4] + [90])),
        ("parsed date is the next day", lambda e: e["op"] == "roundtrip" and e["ty"] == "date", lambda e: bump(e["back"]["ok"], "n")),
        ("parsed zone-aware value lost its offset", lambda e: e["op"] == "roundtrip" and e["ty"] == "fixed" and e["off"] != 0 and "ok" in e["back"], lambda e: e["back"]["ok"].__setitem__("off", 0)),
        ("time refused by FromStr", lambda e: e["op"] == "roundtrip" and e["ty"] == "time", lambda e: e.__setitem__("back", {"err": 1})),
        ("leap second lost on the way back", lambda e: e["op"] == "roundtrip" and e["ty"] == "ndt" and e["form"] == "debug" and e["v"]["frac"] >= 10**9, lambda e: bump(e["back"]["ok"], "frac", -10**9)),
        ("Month::from_str accepts a non-name", lambda e: e["op"] == "name" and e["ty"] == "month" and "err" in e["r"], lambda e: e.__setitem__("r", {"ok": {"m": 1}})),
        ("Weekday::from_str refuses a name", lambda e: e["op"] == "name" and e["ty"] == "weekday" and "ok" in e["r"], lambda e: e.__setitem__("r", {"err": 1})),
        ("panic while formatting", lambda e: e["op"] == "show" and e["ty"] == "offset", lambda e: (e.pop("display"), e.pop("debug"), e.__setitem__("panic", "boom"))),
    ]
    return corruption_selftest(V, "C09", "C09", "Trace_Show", C)


SELFTESTS = [_selftest]
